// Package c01 monitors property C01: index contents equal the last-write-wins
// replay of the operation history, for every engine / KV store / segment
// version configuration and every partition of the history into batches.
package c01

import (
	"bytes"
	"fmt"
	"sort"
	"strings"
	"sync"

	"github.com/blevesearch/bleve/v2"
	"github.com/blevesearch/bleve/v2/document"
	index "github.com/blevesearch/bleve_index_api"

	"verifharness/corpus"
	"verifharness/ev"
	"verifharness/rng"
)

func init() { ev.Register("C01", "exploration", run) }

type storedField struct {
	Name  string
	Type  string
	AP    string
	Value []byte
}

func (s storedField) String() string {
	return fmt.Sprintf("%s|%s|%s|%x", s.Name, s.Type, s.AP, s.Value)
}

// expectedStored computes the stored fields of the latest version from the mapping.
func expectedStored(d *corpus.Doc) ([]string, error) {
	bd := document.NewDocument(d.ID)
	if err := corpus.Mapping().MapDocument(bd, d.Fields); err != nil {
		return nil, err
	}
	var out []string
	for _, f := range bd.Fields {
		if f.Options().IsStored() {
			out = append(out, storedField{f.Name(), fmt.Sprintf("%T", f), fmt.Sprint(f.ArrayPositions()), f.Value()}.String())
		}
	}
	sort.Strings(out)
	return out, nil
}

func observedStored(d index.Document) []string {
	var out []string
	d.VisitFields(func(f index.Field) {
		if f.Name() == "_id" {
			return
		}
		out = append(out, storedField{f.Name(), fmt.Sprintf("%T", f), fmt.Sprint(f.ArrayPositions()), f.Value()}.String())
	})
	sort.Strings(out)
	return out
}

type failure struct {
	Config     string          `json:"config"`
	Partition  int             `json:"partition"`
	AfterBatch int             `json:"after_batch"`
	Reopened   bool            `json:"reopened"`
	What       string          `json:"what"`
	Detail     string          `json:"detail"`
	History    *corpus.History `json:"history"`
}

// observe compares every observation with the model. Returns (what, detail) of the first mismatch.
func observe(idx bleve.Index, m *corpus.LWW, allIDs []string) (string, string) {
	n, err := idx.DocCount()
	if err != nil {
		return "doccount-error", err.Error()
	}
	if int(n) != len(m.Docs) {
		return "doccount", fmt.Sprintf("DocCount=%d live=%d", n, len(m.Docs))
	}
	for _, id := range allIDs {
		d, err := idx.Document(id)
		if err != nil {
			return "document-error", fmt.Sprintf("%s: %v", id, err)
		}
		md, live := m.Docs[id]
		if !live {
			if d != nil {
				return "document-ghost", fmt.Sprintf("Document(%s) of an absent id returned %v", id, observedStored(d))
			}
			continue
		}
		if d == nil {
			return "document-missing", fmt.Sprintf("Document(%s) nil for a live id", id)
		}
		want, err := expectedStored(md)
		if err != nil {
			return "harness", err.Error()
		}
		got := observedStored(d)
		if strings.Join(want, "\n") != strings.Join(got, "\n") {
			return "document-fields", fmt.Sprintf("Document(%s):\n got  %v\n want %v", id, got, want)
		}
	}
	// match-all
	req := bleve.NewSearchRequestOptions(bleve.NewMatchAllQuery(), len(allIDs)+10, 0, false)
	res, err := idx.Search(req)
	if err != nil {
		return "matchall-error", err.Error()
	}
	if w, d := cmpHits("match_all", res, m.LiveIDs()); w != "" {
		return w, d
	}
	// doc-id search over all ids (live and absent)
	req = bleve.NewSearchRequestOptions(bleve.NewDocIDQuery(allIDs), len(allIDs)+10, 0, false)
	res, err = idx.Search(req)
	if err != nil {
		return "docid-error", err.Error()
	}
	if w, d := cmpHits("doc_id", res, m.LiveIDs()); w != "" {
		return w, d
	}
	for _, k := range []string{"k0", "k1", "k2", "k-absent"} {
		v, err := idx.GetInternal([]byte(k))
		if err != nil {
			return "getinternal-error", err.Error()
		}
		want, ok := m.Internal[k]
		if !ok && v != nil && len(v) > 0 {
			return "internal-ghost", fmt.Sprintf("GetInternal(%s)=%q for an absent key", k, v)
		}
		if ok && !bytes.Equal(v, []byte(want)) {
			return "internal-value", fmt.Sprintf("GetInternal(%s)=%q want %q", k, v, want)
		}
	}
	// Fields() ⊇ fields of live documents
	fs, err := idx.Fields()
	if err != nil {
		return "fields-error", err.Error()
	}
	have := map[string]bool{}
	for _, f := range fs {
		have[f] = true
	}
	for _, d := range m.Docs {
		for f := range d.Fields {
			if !have[f] {
				return "fields-missing", fmt.Sprintf("Fields() lacks %q used by live doc %s: %v", f, d.ID, fs)
			}
		}
	}
	return "", ""
}

func cmpHits(kind string, res *bleve.SearchResult, live []string) (string, string) {
	seen := map[string]int{}
	for _, h := range res.Hits {
		seen[h.ID]++
	}
	var got []string
	for id, n := range seen {
		if n > 1 {
			return kind + "-duplicate", fmt.Sprintf("%s returned %d times", id, n)
		}
		got = append(got, id)
	}
	sort.Strings(got)
	if strings.Join(got, ",") != strings.Join(live, ",") {
		return kind + "-set", fmt.Sprintf("got %v want %v", got, live)
	}
	if int(res.Total) != len(live) {
		return kind + "-total", fmt.Sprintf("Total=%d live=%d", res.Total, len(live))
	}
	return "", ""
}

func nontrivialHistory(h *corpus.History) bool {
	live := map[string]bool{}
	everDeleted := map[string]bool{}
	var upd, del, recreate, multi bool
	for _, b := range h.Batches {
		inBatch := map[string]int{}
		for _, op := range b.Ops {
			switch op.Kind {
			case "index":
				inBatch[op.ID]++
				if live[op.ID] {
					upd = true
				} else if everDeleted[op.ID] {
					recreate = true
				}
				live[op.ID] = true
			case "delete":
				inBatch[op.ID]++
				if live[op.ID] {
					del = true
					everDeleted[op.ID] = true
				}
				delete(live, op.ID)
			}
		}
		for _, n := range inBatch {
			if n > 1 {
				multi = true
			}
		}
	}
	return upd && del && recreate && multi
}

func run(r *ev.Run) {
	r.Rule = "history = 20–300 seeded ops (index/delete/setInternal/deleteInternal) over ≤ 30 ids; case = (history, batch partition, configuration); observations after seeded batches, at the end and after Close/Open for disk configurations; " +
		"non-trivial = the history updates a live id, deletes a live id, re-creates a deleted id and has a batch with ≥ 2 ops on one id; distinct by (history seed, partition, config)"
	r.Assumptions = []string{
		"expected stored fields come from mapping.MapDocument of the latest version (mapping is C16's subject)",
		"Fields() is only required to be a superset of the fields of live documents",
	}
	nHist := r.Scale(60, 400)
	r.MinDistinct = r.Scale(350, 2500)
	dir := r.TempDir()
	cfgs := corpus.AllConfigs()
	var cfgNames []string
	for _, c := range cfgs {
		cfgNames = append(cfgNames, c.Name)
	}
	r.Extra("configurations", cfgNames)

	var wg sync.WaitGroup
	sem := make(chan struct{}, 16)
	for hi := 0; hi < nHist; hi++ {
		wg.Add(1)
		sem <- struct{}{}
		go func(hi int) {
			defer wg.Done()
			defer func() { <-sem }()
			g := r.Rng(fmt.Sprintf("hist-%d", hi))
			nIDs := g.Range(3, 30)
			nOps := g.Range(20, 300)
			if !r.Thorough() {
				nOps = g.Range(20, 120)
			}
			ops := corpus.GenOps(g, nOps, nIDs)
			var allIDs []string
			for i := 0; i < nIDs+2; i++ {
				allIDs = append(allIDs, corpus.DocID(i))
			}
			for ci, cfg := range cfgs {
				nPart := 1
				if cfg.IsScorch() {
					nPart = 3
				}
				for p := 0; p < nPart; p++ {
					pg := g.Derive(fmt.Sprintf("part-%d-%d", ci, p))
					maxBatch := []int{8, 1, 25}[p%3]
					if !cfg.IsScorch() {
						maxBatch = []int{8, 1, 25}[(hi+ci)%3]
					}
					h := corpus.Partition(pg, ops, maxBatch)
					runOne(r, pg, fmt.Sprintf("%s/h%d", dir, hi), hi, cfg, p, h, allIDs)
				}
			}
		}(hi)
	}
	wg.Wait()
}

func runOne(r *ev.Run, g *rng.Rand, dir string, hi int, cfg corpus.Config, part int, h *corpus.History, allIDs []string) {
	key := fmt.Sprintf("h%d/%s/p%d", hi, cfg.Name, part)
	r.Case(key, nontrivialHistory(h))
	if hi == 0 && part == 0 && cfg.Name == "scorch-disk" {
		small := &corpus.History{Batches: h.Batches}
		if len(small.Batches) > 4 {
			small = &corpus.History{Batches: h.Batches[:4]}
		}
		r.Sample(map[string]any{"config": cfg.Name, "partition": part, "batches": len(h.Batches), "ops": h.NumOps(), "first_batches": small})
	}
	fail := func(after int, reopened bool, what, detail string) {
		r.Violation(what+"/"+engineFamily(cfg), fmt.Sprintf("%s on %s (partition %d, after batch %d, reopened=%v): %s", what, cfg.Name, part, after, reopened, detail),
			failure{cfg.Name, part, after, reopened, what, detail, h})
	}
	idx, err := cfg.Open(dir, corpus.Mapping())
	if err != nil {
		fail(-1, false, "open-error", err.Error())
		return
	}
	closed := false
	defer func() {
		if !closed {
			_ = idx.Close()
		}
	}()
	m := corpus.NewLWW()
	every := g.Range(1, 12)
	for bi, b := range h.Batches {
		panicked, val, stack := ev.Guard(func() { err = corpus.ApplyBatch(idx, b) })
		if panicked {
			fail(bi, false, "panic", fmt.Sprintf("%v\n%s", val, stack))
			return
		}
		if err != nil {
			fail(bi, false, "batch-error", err.Error())
			return
		}
		m.Apply(b)
		if bi%every == 0 || bi == len(h.Batches)-1 {
			r.Count("observations", 1)
			if what, detail := observe(idx, m, allIDs); what != "" {
				fail(bi, false, what, detail)
				return
			}
		}
	}
	if cfg.DurableOnClose() {
		if err := corpus.WaitPersisted(idx, cfg); err != nil {
			fail(len(h.Batches), false, "persist-wait-error", err.Error())
			return
		}
		if err := idx.Close(); err != nil {
			closed = true
			fail(len(h.Batches), false, "close-error", err.Error())
			return
		}
		closed = true
		idx2, err := bleve.OpenUsing(cfg.Path(dir), map[string]interface{}{})
		if err != nil {
			fail(len(h.Batches), true, "reopen-error", err.Error())
			return
		}
		r.Count("observations", 1)
		r.Count("reopens", 1)
		if what, detail := observe(idx2, m, allIDs); what != "" {
			fail(len(h.Batches), true, what, detail)
		}
		_ = idx2.Close()
	}
}

func engineFamily(c corpus.Config) string {
	if c.IsScorch() {
		return "scorch"
	}
	return "upsidedown-" + c.KV
}
