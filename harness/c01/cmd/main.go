package main

import (
	_ "verifharness/c01"
	"verifharness/ev"
)

func main() { ev.Main() }
