// Package c02 monitors property C02: a search returns exactly the live
// documents that satisfy the query. Random query trees are executed on
// multi-segment corpora with deletions under an option grid on both engines
// and compared with an independent set-semantics evaluator.
package c02

import (
	"fmt"
	"sort"
	"strings"
	"sync"

	"github.com/blevesearch/bleve/v2"

	"verifharness/corpus"
	"verifharness/ev"
	"verifharness/rng"
)

func init() { ev.Register("C02", "exploration", run) }

type cell struct {
	ScoreNone bool `json:"score_none"`
	Locations bool `json:"locations"`
	Explain   bool `json:"explain"`
}

func (c cell) String() string {
	return fmt.Sprintf("scoreNone=%v,loc=%v,explain=%v", c.ScoreNone, c.Locations, c.Explain)
}

var cells = func() []cell {
	var out []cell
	for _, s := range []bool{false, true} {
		for _, l := range []bool{false, true} {
			for _, e := range []bool{false, true} {
				out = append(out, cell{s, l, e})
			}
		}
	}
	return out
}()

type engine struct {
	name string
	idx  bleve.Index
}

type world struct {
	seed    uint64
	hist    *corpus.History
	model   *corpus.LWW
	docs    []*corpus.DocModel
	engines []engine
	ids     []string
	nsegs   int
}

var engineConfigs = []string{"scorch-mem", "scorch-disk-merge", "upsidedown-gtreap"}

func buildWorld(r *ev.Run, g *rng.Rand, dir string, nIDs, nOps int) (*world, error) {
	w := &world{seed: g.State()}
	ops := corpus.GenOps(g, nOps, nIDs)
	w.hist = corpus.Partition(g, ops, 6)
	w.model = corpus.NewLWW()
	for _, b := range w.hist.Batches {
		w.model.Apply(b)
	}
	for i := 0; i < nIDs+3; i++ {
		w.ids = append(w.ids, corpus.DocID(i))
	}
	m := corpus.Mapping()
	var err error
	w.docs, err = corpus.AnalyseAll(m, w.model.LiveDocs())
	if err != nil {
		return nil, err
	}
	for _, name := range engineConfigs {
		cfg := corpus.ConfigByName(name)
		idx, err := cfg.Open(dir, corpus.Mapping())
		if err != nil {
			return nil, fmt.Errorf("open %s: %v", name, err)
		}
		for _, b := range w.hist.Batches {
			if err := corpus.ApplyBatch(idx, b); err != nil {
				return nil, fmt.Errorf("apply on %s: %v", name, err)
			}
		}
		w.engines = append(w.engines, engine{name, idx})
	}
	return w, nil
}

func (w *world) close() {
	for _, e := range w.engines {
		_ = e.idx.Close()
	}
}

type outcome struct {
	IDs   []string `json:"ids"`
	Total uint64   `json:"total"`
	Err   string   `json:"err,omitempty"`
}

func search(idx bleve.Index, q *corpus.Q, c cell, size int) outcome {
	req := bleve.NewSearchRequestOptions(q.Bleve(), size, 0, c.Explain)
	if c.ScoreNone {
		req.Score = "none"
	}
	req.IncludeLocations = c.Locations
	var out outcome
	panicked, val, stack := ev.Guard(func() {
		res, err := idx.Search(req)
		if err != nil {
			out.Err = err.Error()
			return
		}
		out.Total = res.Total
		for _, h := range res.Hits {
			out.IDs = append(out.IDs, h.ID)
		}
	})
	if panicked {
		out.Err = fmt.Sprintf("panic: %v\n%s", val, firstLines(stack, 30))
	}
	return out
}

func firstLines(s string, n int) string {
	ls := strings.Split(s, "\n")
	if len(ls) > n {
		ls = ls[:n]
	}
	return strings.Join(ls, "\n")
}

// judge compares an outcome with the evaluator's verdict.
// Returns "" if fine, else a direction: panic|error|missing|extra|dup|total.
func judge(o outcome, yes, dc map[string]bool) (string, string) {
	if strings.HasPrefix(o.Err, "panic:") {
		return "panic", o.Err
	}
	if o.Err != "" {
		return "error", o.Err
	}
	seen := map[string]bool{}
	for _, id := range o.IDs {
		if seen[id] {
			return "dup", id
		}
		seen[id] = true
		if !yes[id] && !dc[id] {
			return "extra", id
		}
	}
	for id := range yes {
		if !seen[id] {
			return "missing", id
		}
	}
	if int(o.Total) != len(o.IDs) {
		return "total", fmt.Sprintf("total=%d hits=%d", o.Total, len(o.IDs))
	}
	return "", ""
}

type witness struct {
	Engine     string            `json:"engine"`
	Cell       cell              `json:"cell"`
	Query      *corpus.Q         `json:"query"`
	Problem    string            `json:"problem"`
	Detail     string            `json:"detail"`
	Expected   []string          `json:"expected"`
	DontCare   []string          `json:"dont_care,omitempty"`
	Got        outcome           `json:"got"`
	Docs       []*corpus.Doc     `json:"live_docs"`
	History    *corpus.History   `json:"history,omitempty"`
	OtherCells map[string]string `json:"other_cells,omitempty"`
}

// shrinkQuery delta-debugs the tree while fails(q) keeps returning the same problem.
func shrinkQuery(q *corpus.Q, fails func(*corpus.Q) bool) *corpus.Q {
	cur := q.Clone()
	for changed := true; changed; {
		changed = false
		for _, cand := range candidates(cur) {
			if cand.Size() < cur.Size() || cand.String() != cur.String() {
				if fails(cand) {
					cur = cand
					changed = true
					break
				}
			}
		}
	}
	return cur
}

// candidates returns strictly simpler variants of q.
func candidates(q *corpus.Q) []*corpus.Q {
	var out []*corpus.Q
	// replace the root by a child
	for _, c := range q.Children() {
		out = append(out, c.Clone())
	}
	// drop one element of a list / simplify options at the root
	dropFrom := func(get func(*corpus.Q) *[]*corpus.Q) {
		n := len(*get(q))
		for i := 0; i < n; i++ {
			c := q.Clone()
			l := get(c)
			*l = append((*l)[:i:i], (*l)[i+1:]...)
			if c.Kind == "conj" || c.Kind == "disj" {
				if len(c.Kids) == 0 {
					continue
				}
				if c.DisjMin > len(c.Kids) {
					c.DisjMin = len(c.Kids)
				}
			}
			if c.Kind == "bool" {
				if c.ShouldMin > len(c.Should) {
					c.ShouldMin = len(c.Should)
				}
				if len(c.Must) == 0 && len(c.Should) == 0 && len(c.MustNot) == 0 && c.Filter == nil {
					continue
				}
			}
			out = append(out, c)
		}
	}
	dropFrom(func(x *corpus.Q) *[]*corpus.Q { return &x.Kids })
	dropFrom(func(x *corpus.Q) *[]*corpus.Q { return &x.Must })
	dropFrom(func(x *corpus.Q) *[]*corpus.Q { return &x.Should })
	dropFrom(func(x *corpus.Q) *[]*corpus.Q { return &x.MustNot })
	if q.Filter != nil && (len(q.Must)+len(q.Should)+len(q.MustNot)) > 0 {
		c := q.Clone()
		c.Filter = nil
		out = append(out, c)
	}
	if q.Boost != 0 {
		c := q.Clone()
		c.Boost = 0
		out = append(out, c)
	}
	if q.DisjMin > 0 {
		c := q.Clone()
		c.DisjMin--
		out = append(out, c)
	}
	if q.ShouldMin > 0 {
		c := q.Clone()
		c.ShouldMin--
		out = append(out, c)
	}
	if q.Kind == "docid" && len(q.IDs) > 1 {
		for i := range q.IDs {
			c := q.Clone()
			c.IDs = append(c.IDs[:i:i], c.IDs[i+1:]...)
			out = append(out, c)
		}
	}
	if q.Kind == "match" && (q.Fuzz > 0 || q.PLen > 0) {
		c := q.Clone()
		c.Fuzz, c.PLen = 0, 0
		out = append(out, c)
	}
	// recurse: simplify one child in place
	recurse := func(get func(*corpus.Q) []*corpus.Q) {
		for i, k := range get(q) {
			for _, kc := range candidates(k) {
				c := q.Clone()
				get(c)[i] = kc
				out = append(out, c)
			}
		}
	}
	recurse(func(x *corpus.Q) []*corpus.Q { return x.Kids })
	recurse(func(x *corpus.Q) []*corpus.Q { return x.Must })
	recurse(func(x *corpus.Q) []*corpus.Q { return x.Should })
	recurse(func(x *corpus.Q) []*corpus.Q { return x.MustNot })
	if q.Filter != nil {
		for _, kc := range candidates(q.Filter) {
			c := q.Clone()
			c.Filter = kc
			out = append(out, c)
		}
	}
	return out
}

// classOf derives a narrow syntactic class from the shrunk query.
func classOf(q *corpus.Q, problem, engine string, c cell, onlyScoreNone bool) string {
	var sig func(q *corpus.Q) string
	sig = func(q *corpus.Q) string {
		switch q.Kind {
		case "conj", "disj":
			var ks []string
			for _, k := range q.Kids {
				ks = append(ks, sig(k))
			}
			sort.Strings(ks)
			s := q.Kind
			if q.Kind == "disj" && q.DisjMin > 1 {
				s += "-min>1"
			}
			return s + "(" + strings.Join(dedup(ks), ",") + ")"
		case "bool":
			var parts []string
			add := func(name string, qs []*corpus.Q) {
				if len(qs) == 0 {
					return
				}
				var ks []string
				for _, k := range qs {
					ks = append(ks, sig(k))
				}
				sort.Strings(ks)
				parts = append(parts, name+"["+strings.Join(dedup(ks), ",")+"]")
			}
			add("must", q.Must)
			sh := "should"
			if q.ShouldMin > 0 {
				sh = "should-min"
			}
			add(sh, q.Should)
			add("must_not", q.MustNot)
			if q.Filter != nil {
				parts = append(parts, "filter["+sig(q.Filter)+"]")
			}
			return "bool{" + strings.Join(parts, " ") + "}"
		}
		return q.Kind
	}
	eng := "scorch"
	if strings.HasPrefix(engine, "upsidedown") {
		eng = "upsidedown"
	}
	opt := "any-options"
	if onlyScoreNone {
		opt = "score-none-only"
	}
	return fmt.Sprintf("%s/%s/%s/%s", problem, eng, opt, sig(q))
}

func dedup(xs []string) []string {
	var out []string
	for i, x := range xs {
		if i == 0 || x != xs[i-1] {
			out = append(out, x)
		}
	}
	return out
}

func nontrivial(q *corpus.Q, yes map[string]bool, nLive int) bool {
	if len(yes) > 0 && len(yes) < nLive {
		return true
	}
	kinds := map[string]int{}
	q.Kinds(kinds)
	var hasMin func(q *corpus.Q) bool
	hasMin = func(q *corpus.Q) bool {
		if len(q.MustNot) > 0 || q.ShouldMin > 0 || q.DisjMin > 1 {
			return true
		}
		for _, c := range q.Children() {
			if hasMin(c) {
				return true
			}
		}
		return false
	}
	return hasMin(q)
}

func run(r *ev.Run) {
	r.Rule = "corpus = seeded history (index/update/delete/re-create over ≤ N ids, several batches) on scorch-mem, scorch-disk with aggressive merges and upsidedown/gtreap; " +
		"case = (corpus, query tree of depth ≤ 3 from the full leaf/compound family) run under score on/none × locations × explain on every engine and compared with the set evaluator; " +
		"non-trivial = expected set neither empty nor all live docs, or the tree has a must_not / min-should / disjunction min>1; distinct by (corpus seed, canonical query JSON)"
	r.Assumptions = []string{
		"analyzers and mapping walk are shared with the implementation (analysis is C19's subject)",
		"fuzzy: Levenshtein ≤ f is in, Damerau-OSA > f is out, between is don't-care",
		"match-none is not generated directly under conjunction/must (the constructors treat a match-none clause as absent)",
		"phrase queries only on fields with term vectors",
	}
	r.MinDistinct = r.Scale(4000, 20000)
	nWorlds := r.Scale(80, 480)
	nQueries := r.Scale(200, 600)
	dir := r.TempDir()

	replayKnownWitnesses(r, dir)

	var wg sync.WaitGroup
	sem := make(chan struct{}, 16)
	var mu sync.Mutex
	kindCount := map[string]int{}
	for wi := 0; wi < nWorlds; wi++ {
		wg.Add(1)
		sem <- struct{}{}
		go func(wi int) {
			defer wg.Done()
			defer func() { <-sem }()
			g := r.Rng(fmt.Sprintf("world-%d", wi))
			nIDs := g.Range(8, 40)
			wdir := fmt.Sprintf("%s/w%d", dir, wi)
			w, err := buildWorld(r, g, wdir, nIDs, nIDs*3)
			if err != nil {
				r.Violation("setup-error", err.Error(), map[string]any{"world": wi})
				return
			}
			defer w.close()
			evl := &corpus.Evaluator{M: corpus.Mapping()}
			qg := &corpus.QGen{G: g.Derive("queries"), IDs: w.ids}
			local := map[string]int{}
			for qi := 0; qi < nQueries; qi++ {
				q := qg.Tree(3)
				q.Kinds(local)
				checkOne(r, w, evl, q, wi, qi)
			}
			mu.Lock()
			for k, v := range local {
				kindCount[k] += v
			}
			mu.Unlock()
		}(wi)
	}
	wg.Wait()
	r.Extra("node_kinds_generated", kindCount)
	r.Extra("engines", engineConfigs)
	r.Extra("option_cells", len(cells))
}

func checkOne(r *ev.Run, w *world, evl *corpus.Evaluator, q *corpus.Q, wi, qi int) {
	yes, dc := evl.Expected(q, w.docs)
	r.Case(fmt.Sprintf("%d/%s", w.seed, q.String()), nontrivial(q, yes, len(w.docs)))
	if wi == 0 && qi < 3 {
		r.Sample(map[string]any{"query": q, "expected": corpus.SortedKeys(yes), "live_docs": len(w.docs)})
	}
	size := len(w.ids) + 20
	for _, e := range w.engines {
		for _, c := range cells {
			r.Count("searches", 1)
			o := search(e.idx, q, c, size)
			problem, detail := judge(o, yes, dc)
			if problem == "" {
				continue
			}
			report(r, w, evl, e, c, q, problem, detail)
			return // one report per query is enough
		}
	}
}

func report(r *ev.Run, w *world, evl *corpus.Evaluator, e engine, c cell, q *corpus.Q, problem, detail string) {
	size := len(w.ids) + 20
	fails := func(cand *corpus.Q) bool {
		y, d := evl.Expected(cand, w.docs)
		p, _ := judge(search(e.idx, cand, c, size), y, d)
		return p == problem
	}
	small := shrinkQuery(q, fails)
	yes, dc := evl.Expected(small, w.docs)
	o := search(e.idx, small, c, size)
	_, detail = judge(o, yes, dc)
	// does the shrunk query fail in cells with scoring on?
	others := map[string]string{}
	failsWithScore := false
	for _, oc := range cells {
		p, _ := judge(search(e.idx, small, oc, size), yes, dc)
		others[oc.String()] = p
		if p != "" && !oc.ScoreNone {
			failsWithScore = true
		}
	}
	class := classOf(small, problem, e.name, c, !failsWithScore)
	wit := witness{
		Engine: e.name, Cell: c, Query: small, Problem: problem, Detail: detail,
		Expected: corpus.SortedKeys(yes), DontCare: corpus.SortedKeys(dc), Got: o,
		Docs: w.model.LiveDocs(), History: w.hist, OtherCells: others,
	}
	sort.Strings(wit.Got.IDs)
	r.Violation(class, fmt.Sprintf("%s on %s [%s]: %s; query %s", problem, e.name, c, detail, small), wit)
}
