package main

import (
	_ "verifharness/c02"
	"verifharness/ev"
)

func main() { ev.Main() }
