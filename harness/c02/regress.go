package c02

import (
	"fmt"

	"github.com/blevesearch/bleve/v2"

	"verifharness/corpus"
	"verifharness/ev"
)

// replayKnownWitnesses re-runs, on every run, the minimal inputs of defects
// seen earlier (DESIGN §6 F1, F10) so that they are reported again if they return.
func replayKnownWitnesses(r *ev.Run, dir string) {
	// F1: min-should lost when scoring is off (optimised unadorned disjunction).
	docs := []*corpus.Doc{
		{ID: "d1", Fields: map[string]any{"notv": "alpha"}},
		{ID: "d2", Fields: map[string]any{"notv": "alpha beta"}},
		{ID: "d3", Fields: map[string]any{"notv": "alpha gamma"}},
		{ID: "d4", Fields: map[string]any{"notv": "beta"}},
	}
	t := func(w string) *corpus.Q { return &corpus.Q{Kind: "term", Field: "notv", Text: w} }
	qs := []*corpus.Q{
		{Kind: "bool", Must: []*corpus.Q{t("alpha")}, Should: []*corpus.Q{t("beta"), t("gamma")}, ShouldMin: 1},
		{Kind: "bool", Must: []*corpus.Q{{Kind: "all"}}, Filter: &corpus.Q{Kind: "bool", Must: []*corpus.Q{t("alpha")}, Should: []*corpus.Q{t("beta"), t("gamma")}, ShouldMin: 1}},
		{Kind: "bool", Must: []*corpus.Q{t("alpha")}, Should: []*corpus.Q{t("beta"), t("gamma")}, ShouldMin: 2},
		{Kind: "conj", Kids: []*corpus.Q{t("alpha"), {Kind: "disj", Kids: []*corpus.Q{t("beta"), t("gamma"), t("delta")}, DisjMin: 2}}},
	}
	w := &world{seed: 0xF1, model: corpus.NewLWW()}
	for _, d := range docs {
		w.model.Docs[d.ID] = d
		w.ids = append(w.ids, d.ID)
	}
	w.hist = &corpus.History{}
	var err error
	w.docs, err = corpus.AnalyseAll(corpus.Mapping(), w.model.LiveDocs())
	if err != nil {
		r.Violation("setup-error", err.Error(), nil)
		return
	}
	for _, name := range engineConfigs {
		idx, err := corpus.ConfigByName(name).Open(dir+"/regress", corpus.Mapping())
		if err != nil {
			r.Violation("setup-error", err.Error(), nil)
			return
		}
		for _, d := range docs { // one segment per document
			if err := idx.Index(d.ID, d.Fields); err != nil {
				r.Violation("setup-error", err.Error(), nil)
			}
		}
		w.engines = append(w.engines, engine{name, idx})
	}
	defer w.close()
	evl := &corpus.Evaluator{M: corpus.Mapping()}
	for i, q := range qs {
		checkOne(r, w, evl, q, -1, i)
	}

	// F10: prefix ending in 0xff must not match terms beyond the prefix range.
	for _, name := range engineConfigs {
		idx, err := corpus.ConfigByName(name).Open(dir+"/regress10", corpus.Mapping())
		if err != nil {
			r.Violation("setup-error", err.Error(), nil)
			return
		}
		_ = idx.Index("p1", map[string]any{"tag": "ac"})
		_ = idx.Index("p2", map[string]any{"tag": "ab\xffz"})
		_ = idx.Index("p3", map[string]any{"tag": "ab\xff"})
		_ = idx.Index("p4", map[string]any{"tag": "ab"})
		pq := bleve.NewPrefixQuery("ab\xff")
		pq.SetField("tag")
		for _, sn := range []bool{false, true} {
			req := bleve.NewSearchRequestOptions(pq, 10, 0, false)
			if sn {
				req.Score = "none"
			}
			r.Case(fmt.Sprintf("regress-F10/%s/%v", name, sn), true)
			panicked, val, _ := ev.Guard(func() {
				res, err := idx.Search(req)
				if err != nil {
					r.Violation("error/prefix-0xff", err.Error(), map[string]any{"engine": name})
					return
				}
				got := map[string]bool{}
				for _, h := range res.Hits {
					got[h.ID] = true
				}
				if len(got) != 2 || !got["p2"] || !got["p3"] || res.Total != 2 {
					r.Violation("extra/prefix-ends-in-0xff",
						fmt.Sprintf("PrefixQuery(\"ab\\xff\") on %s (scoreNone=%v) returned %v total=%d, want [p2 p3]",
							name, sn, corpus.SortedKeys(got), res.Total),
						map[string]any{"engine": name, "score_none": sn, "terms": []string{"ac", "ab\\xffz", "ab\\xff", "ab"},
							"prefix": "ab\\xff", "got": corpus.SortedKeys(got), "want": []string{"p2", "p3"}})
				}
			})
			if panicked {
				r.Violation("panic/prefix-0xff", fmt.Sprint(val), map[string]any{"engine": name})
			}
		}
		_ = idx.Close()
	}
}
