// Package c03 monitors property C03: acknowledged batches survive a crash and
// every batch is all-or-nothing. A child process indexes deterministic,
// sequence-tagged batches and is killed (SIGKILL) at every instrumented hook
// point / occurrence and at seeded instants; files that no committed snapshot
// names are truncated or overwritten; a fresh child reopens the directory and
// dumps everything observable, which the parent compares with the
// last-write-wins replay of a prefix of the submission order.
package c03

import (
	"bufio"
	"encoding/json"
	"fmt"
	"os"
	"os/exec"
	"path/filepath"
	"sort"
	"strings"
	"sync"
	"syscall"
	"time"

	"github.com/blevesearch/bleve/v2/util"
	bolt "go.etcd.io/bbolt"

	"verifharness/corpus"
	"verifharness/ev"
	"verifharness/rng"
)

func init() { ev.Register("C03", "fault_enumeration", run) }

type config struct {
	Name    string         `json:"name"`
	KV      map[string]any `json:"kvconfig"`
	Writers int            `json:"writers"`
	Unsafe  bool           `json:"unsafe"`
	FMerge  int            `json:"force_merge_every"`
}

func merged(ms ...map[string]any) map[string]any {
	out := map[string]any{}
	for _, m := range ms {
		for k, v := range m {
			out[k] = v
		}
	}
	return out
}

func configs() []config {
	un := map[string]any{"unsafe_batch": true}
	return []config{
		{Name: "safe-1w-merge", KV: merged(corpus.AggressiveMerge()), Writers: 1},
		{Name: "safe-3w-p3-merge", KV: merged(corpus.AggressiveMerge(), corpus.MultiWorkerPersister()), Writers: 3},
		{Name: "unsafe-1w-merge", KV: merged(corpus.AggressiveMerge(), un), Writers: 1, Unsafe: true, FMerge: 7},
		{Name: "unsafe-3w-p3-merge", KV: merged(corpus.AggressiveMerge(), corpus.MultiWorkerPersister(), un), Writers: 3, Unsafe: true},
		{Name: "safe-2w-keep3", KV: merged(corpus.AggressiveMerge(), map[string]any{"numSnapshotsToKeep": 3}), Writers: 2, FMerge: 5},
		{Name: "safe-1w-default", KV: map[string]any{}, Writers: 1},
		{Name: "safe-1w-keep3", KV: map[string]any{"numSnapshotsToKeep": 3}, Writers: 1},
	}
}

const nIDs = 6 // documents per writer besides its marker; hot-key cases use 1

type crashCase struct {
	ID       int    `json:"id"`
	Cfg      config `json:"config"`
	Kind     string `json:"kind"` // hook | wall | recovery | clean
	Point    string `json:"point,omitempty"`
	Occ      int    `json:"occ,omitempty"`
	WallUS   int    `json:"wall_us,omitempty"`
	RecPoint string `json:"recovery_point,omitempty"`
	RecOcc   int    `json:"recovery_occ,omitempty"`
	Seed     uint64 `json:"seed"`
	Batches  int    `json:"batches"`
	NIDs     int    `json:"ids_per_writer"`
}

type jinfo struct {
	Lines   []string
	Ready   bool
	Crashed string
	LastS   []int
	LastA   []int
	LastP   []int
	Errors  []string
	Done    bool
	Closed  bool
	events  []jev
}

type jev struct {
	kind byte // S A P
	w, k int
}

func parseJournal(path string, writers int) *jinfo {
	ji := &jinfo{LastS: make([]int, writers), LastA: make([]int, writers), LastP: make([]int, writers)}
	f, err := os.Open(path)
	if err != nil {
		return ji
	}
	defer f.Close()
	sc := bufio.NewScanner(f)
	for sc.Scan() {
		l := sc.Text()
		ji.Lines = append(ji.Lines, l)
		var w, k int
		switch {
		case l == "ready":
			ji.Ready = true
		case l == "done":
			ji.Done = true
		case l == "closed":
			ji.Closed = true
		case strings.HasPrefix(l, "crash "):
			ji.Crashed = l
		case strings.HasPrefix(l, "S "):
			if n, _ := fmt.Sscanf(l, "S %d %d", &w, &k); n == 2 && w < writers {
				ji.LastS[w] = max(ji.LastS[w], k)
				ji.events = append(ji.events, jev{'S', w, k})
			}
		case strings.HasPrefix(l, "A "):
			if n, _ := fmt.Sscanf(l, "A %d %d", &w, &k); n == 2 && w < writers {
				ji.LastA[w] = max(ji.LastA[w], k)
				ji.events = append(ji.events, jev{'A', w, k})
			}
		case strings.HasPrefix(l, "P "):
			if n, _ := fmt.Sscanf(l, "P %d %d", &w, &k); n == 2 && w < writers {
				ji.LastP[w] = max(ji.LastP[w], k)
				ji.events = append(ji.events, jev{'P', w, k})
			}
		case strings.HasPrefix(l, "E ") || strings.HasPrefix(l, "PE ") || strings.HasPrefix(l, "openerr") || strings.HasPrefix(l, "closeerr"):
			ji.Errors = append(ji.Errors, l)
		}
	}
	return ji
}

// referencedFiles lists the segment files named by any snapshot committed in root.bolt.
func referencedFiles(storeDir string) (map[string]bool, error) {
	rb, err := util.OpenBolt(filepath.Join(storeDir, "root.bolt"), 0o600, &bolt.Options{ReadOnly: true, Timeout: 5 * time.Second})
	if err != nil {
		return nil, err
	}
	defer rb.Close()
	out := map[string]bool{}
	err = rb.View(func(tx *util.BoltTxImpl) error {
		snaps := tx.Bucket(util.BoltSnapshotsBucket)
		if snaps == nil {
			return nil
		}
		c := snaps.Cursor()
		for k, _ := c.First(); k != nil; k, _ = c.Next() {
			sb := snaps.GetBucket(k)
			if sb == nil {
				continue
			}
			sc := sb.Cursor()
			for sk, _ := sc.First(); sk != nil; sk, _ = sc.Next() {
				if sk[0] == util.BoltInternalKey[0] || sk[0] == util.BoltMetaDataKey[0] {
					continue
				}
				seg := sb.GetBucket(sk)
				if seg == nil {
					continue
				}
				if p, _ := seg.Get(util.BoltPathKey, nil); p != nil {
					out[string(p)] = true
				}
			}
		}
		return nil
	})
	return out, err
}

// garble mutates every *.zap that no committed snapshot names.
func garble(g *rng.Rand, storeDir string) (actions []string, err error) {
	ref, err := referencedFiles(storeDir)
	if err != nil {
		return nil, err
	}
	ents, err := os.ReadDir(storeDir)
	if err != nil {
		return nil, err
	}
	for _, e := range ents {
		if filepath.Ext(e.Name()) != ".zap" || ref[e.Name()] {
			continue
		}
		p := filepath.Join(storeDir, e.Name())
		st, _ := os.Stat(p)
		switch g.Intn(4) {
		case 0:
			actions = append(actions, e.Name()+":left")
		case 1:
			n := int64(0)
			if st != nil && st.Size() > 0 {
				n = int64(g.Intn(int(st.Size())))
			}
			_ = os.Truncate(p, n)
			actions = append(actions, fmt.Sprintf("%s:truncated-to-%d", e.Name(), n))
		case 2:
			sz := 64
			if st != nil && st.Size() > 0 {
				sz = int(st.Size())
			}
			_ = os.WriteFile(p, g.Bytes(sz), 0o600)
			actions = append(actions, e.Name()+":garbage")
		case 3:
			_ = os.Remove(p)
			actions = append(actions, e.Name()+":deleted")
		}
	}
	return actions, nil
}

func runWorker(mode, specPath, logPath string, killAfter func(cmd *exec.Cmd)) (exit int, signaled bool) {
	cmd := exec.Command(os.Getenv("VCHECK_PLAIN"), mode, specPath)
	if os.Getenv("VCHECK_PLAIN") == "" {
		cmd = exec.Command(os.Args[0], mode, specPath)
	}
	lf, _ := os.Create(logPath)
	defer lf.Close()
	cmd.Stdout, cmd.Stderr = lf, lf
	cmd.Env = append(os.Environ(), "GOTRACEBACK=all")
	if err := cmd.Start(); err != nil {
		return -1, false
	}
	done := make(chan error, 1)
	go func() { done <- cmd.Wait() }()
	if killAfter != nil {
		go killAfter(cmd)
	}
	var err error
	select {
	case err = <-done:
	case <-time.After(300 * time.Second):
		_ = cmd.Process.Signal(syscall.SIGQUIT)
		select {
		case err = <-done:
		case <-time.After(10 * time.Second):
			_ = cmd.Process.Kill()
			err = <-done
		}
		return -2, false
	}
	if err == nil {
		return 0, false
	}
	if ee, ok := err.(*exec.ExitError); ok {
		if ws, ok := ee.Sys().(syscall.WaitStatus); ok && ws.Signaled() {
			return -1, true
		}
		return ee.ExitCode(), false
	}
	return -1, false
}

func writeJSON(path string, v any) {
	b, _ := json.Marshal(v)
	_ = os.WriteFile(path, b, 0o644)
}

// expectedFor computes everything observable for the version vector K.
type expected struct {
	docs  map[string][]string
	ids   []string
	terms map[string][]string
}

func expectedFor(seed uint64, K []int, nids int) (*expected, error) {
	ex := &expected{docs: map[string][]string{}, terms: map[string][]string{}}
	var live []*corpus.Doc
	for w, k := range K {
		m := corpus.WriterModelOpt(seed, w, k, nids, true)
		for _, d := range m.LiveDocs() {
			st, err := corpus.ExpectedStored(d)
			if err != nil {
				return nil, err
			}
			ex.docs[d.ID] = st
			ex.ids = append(ex.ids, d.ID)
			live = append(live, d)
		}
	}
	sort.Strings(ex.ids)
	dms, err := corpus.AnalyseAll(corpus.Mapping(), live)
	if err != nil {
		return nil, err
	}
	for _, word := range corpus.Words {
		ids := []string{}
		for _, dm := range dms {
			if fv := dm.F["body"]; fv != nil {
				for _, t := range fv.Tokens {
					if t.Term == word {
						ids = append(ids, dm.ID)
						break
					}
				}
			}
		}
		sort.Strings(ids)
		ex.terms[word] = ids
	}
	return ex, nil
}

func eqStrs(a, b []string) bool {
	if len(a) != len(b) {
		return false
	}
	for i := range a {
		if a[i] != b[i] {
			return false
		}
	}
	return true
}

// checkState compares one dumped state with the model of its own version vector.
func checkState(seed uint64, st State, nids int) (string, string) {
	if st.Err != "" {
		return "state-error", st.Label + ": " + st.Err
	}
	ex, err := expectedFor(seed, st.Seqs, nids)
	if err != nil {
		return "harness", err.Error()
	}
	if int(st.DocCount) != len(ex.ids) {
		return "partial-or-mixed-state/doccount", fmt.Sprintf("%s: seq vector %v implies %d docs, DocCount=%d", st.Label, st.Seqs, len(ex.ids), st.DocCount)
	}
	if !eqStrs(st.MatchAll, ex.ids) || int(st.Total) != len(ex.ids) {
		return "partial-or-mixed-state/match-all", fmt.Sprintf("%s: seq vector %v: match_all=%v total=%d want %v", st.Label, st.Seqs, st.MatchAll, st.Total, ex.ids)
	}
	for id, want := range ex.docs {
		if got, ok := st.Docs[id]; !ok {
			return "partial-or-mixed-state/document", fmt.Sprintf("%s: seq vector %v: Document(%s) missing", st.Label, st.Seqs, id)
		} else if !eqStrs(got, want) {
			return "partial-or-mixed-state/document", fmt.Sprintf("%s: seq vector %v: Document(%s)\n got  %v\n want %v", st.Label, st.Seqs, id, got, want)
		}
	}
	for id := range st.Docs {
		if _, ok := ex.docs[id]; !ok {
			return "partial-or-mixed-state/document", fmt.Sprintf("%s: seq vector %v: Document(%s) present but not live in the model", st.Label, st.Seqs, id)
		}
	}
	for w, want := range ex.terms {
		if !eqStrs(st.Terms[w], want) {
			return "partial-or-mixed-state/term-search", fmt.Sprintf("%s: seq vector %v: body:%s → %v want %v", st.Label, st.Seqs, w, st.Terms[w], want)
		}
	}
	return "", ""
}

// checkBounds: the recovered vector must cover everything acknowledged /
// persisted, must not exceed what was submitted, and must be closed under the
// real-time order of the journal.
func checkBounds(c crashCase, ji *jinfo, K []int, from []int) (string, string) {
	for w := range K {
		need := ji.LastP[w]
		if !c.Cfg.Unsafe && ji.LastA[w] > need {
			need = ji.LastA[w]
		}
		if from[w] > need {
			need = from[w]
		}
		if K[w] < need {
			what := "acknowledged"
			if c.Cfg.Unsafe {
				what = "persisted-callback"
			}
			return "lost-" + what + "-batch", fmt.Sprintf("writer %d recovered seq %d < %d (%s before the crash); journal tail %v", w, K[w], need, what, tailOf(ji.Lines, 12))
		}
		sub := ji.LastS[w]
		if from[w] > sub {
			sub = from[w]
		}
		if K[w] > sub {
			return "seq-from-the-future", fmt.Sprintf("writer %d recovered seq %d > last submitted %d", w, K[w], sub)
		}
	}
	// real-time closure: if (w2,j) is in the recovered state and its submit line
	// comes after the ack line of (w1,i) then (w1,i) must be in the state too.
	ackedBefore := make([]int, len(K))
	for _, e := range ji.events {
		switch e.kind {
		case 'A':
			if e.k > ackedBefore[e.w] {
				ackedBefore[e.w] = e.k
			}
		case 'S':
			if e.k <= K[e.w] {
				for w1, i := range ackedBefore {
					if K[w1] < i {
						return "prefix-not-closed", fmt.Sprintf("batch (w%d,%d) is in the recovered state and was submitted after (w%d,%d) was acknowledged, but writer %d recovered only seq %d", e.w, e.k, w1, i, w1, K[w1])
					}
				}
			}
		}
	}
	return "", ""
}

func tailOf(xs []string, n int) []string {
	if len(xs) > n {
		return xs[len(xs)-n:]
	}
	return xs
}

type caseResult struct {
	Case      crashCase `json:"case"`
	Journal   []string  `json:"journal_tail"`
	Garbled   []string  `json:"unreferenced_files"`
	Dump      *Dump     `json:"dump,omitempty"`
	Problem   string    `json:"problem,omitempty"`
	Detail    string    `json:"detail,omitempty"`
	Reached   bool      `json:"crash_reached"`
	Acked     []int     `json:"acked"`
	Recovered []int     `json:"recovered"`
}

func runCase(r *ev.Run, dir string, c crashCase) caseResult {
	res := caseResult{Case: c}
	g := rng.New(c.Seed).Derive("case")
	base := filepath.Join(dir, fmt.Sprintf("case%d", c.ID))
	_ = os.MkdirAll(base, 0o755)
	defer os.RemoveAll(base)
	idxDir := filepath.Join(base, "idx")
	jpath := filepath.Join(base, "journal")
	sp := WriteSpec{Dir: idxDir, Journal: jpath, Create: true, KVConfig: c.Cfg.KV, Seed: c.Seed, Writers: c.Cfg.Writers,
		NIDs: c.NIDs, From: make([]int, c.Cfg.Writers), Batches: c.Batches, ForceMerge: c.Cfg.FMerge, PaceMicros: 300}
	var kill func(*exec.Cmd)
	switch c.Kind {
	case "hook":
		sp.CrashPoint, sp.CrashOcc = c.Point, c.Occ
	case "recovery":
		// first a seeded wall-clock kill, then a kill inside the recovery run
		fallthrough
	case "wall":
		kill = func(cmd *exec.Cmd) {
			// wait for the ready line, then kill after the seeded delay
			for i := 0; i < 10000; i++ {
				if b, _ := os.ReadFile(jpath); strings.Contains(string(b), "ready\n") {
					break
				}
				time.Sleep(2 * time.Millisecond)
			}
			time.Sleep(time.Duration(c.WallUS) * time.Microsecond)
			_ = cmd.Process.Kill()
		}
	}
	writeJSON(filepath.Join(base, "spec.json"), sp)
	exit, signaled := runWorker("c03-write", filepath.Join(base, "spec.json"), filepath.Join(base, "write.log"), kill)
	ji := parseJournal(jpath, c.Cfg.Writers)
	res.Reached = signaled
	if exit == -2 {
		res.Problem, res.Detail = "inconclusive", "writer child watchdog"
		return res
	}
	if !signaled && exit != 0 {
		lg, _ := os.ReadFile(filepath.Join(base, "write.log"))
		res.Problem, res.Detail = "writer-died", fmt.Sprintf("exit %d; journal tail %v; log: %s", exit, tailOf(ji.Lines, 8), tailStr(string(lg), 3000))
		return res
	}
	if len(ji.Errors) > 0 {
		res.Problem, res.Detail = "batch-error", strings.Join(ji.Errors, "; ")
		return res
	}
	from := make([]int, c.Cfg.Writers)
	storeDir := filepath.Join(idxDir, "store")
	if signaled {
		acts, err := garble(g, storeDir)
		if err != nil && ji.Ready {
			res.Problem, res.Detail = "metadata-store-unreadable", err.Error()
			return res
		}
		res.Garbled = acts
	}
	if c.Kind == "recovery" && signaled {
		// run a second writer process on the crashed directory that is itself killed
		// during / shortly after recovery
		j2 := filepath.Join(base, "journal2")
		sp2 := sp
		sp2.Create, sp2.Journal, sp2.ArmDuringOpen = false, j2, true
		sp2.CrashPoint, sp2.CrashOcc = c.RecPoint, c.RecOcc
		sp2.Batches = 4
		// the second run continues each writer after what the first one had at least submitted;
		// it must first learn the recovered seq, so it uses a dump to find out
		d0 := runDump(base, idxDir, c, 0, "dump0")
		if d0.OpenErr != "" || len(d0.States) == 0 || d0.States[0].Err != "" {
			res.Dump = d0
			res.Problem, res.Detail = "reopen-failed", fmt.Sprintf("open after crash: %s %v", d0.OpenErr, d0.States)
			return res
		}
		if p, d := checkState(c.Seed, d0.States[0], c.NIDs); p != "" {
			res.Dump, res.Problem, res.Detail = d0, p, d
			return res
		}
		if p, d := checkBounds(c, ji, d0.States[0].Seqs, from); p != "" {
			res.Dump, res.Problem, res.Detail = d0, p, d
			return res
		}
		sp2.From = d0.States[0].Seqs
		copy(from, sp2.From)
		writeJSON(filepath.Join(base, "spec2.json"), sp2)
		exit2, sig2 := runWorker("c03-write", filepath.Join(base, "spec2.json"), filepath.Join(base, "write2.log"), nil)
		ji2 := parseJournal(j2, c.Cfg.Writers)
		if !sig2 && exit2 != 0 {
			lg, _ := os.ReadFile(filepath.Join(base, "write2.log"))
			res.Problem, res.Detail = "reopen-failed", fmt.Sprintf("second writer exit %d; journal %v; log %s", exit2, tailOf(ji2.Lines, 8), tailStr(string(lg), 3000))
			return res
		}
		if sig2 {
			acts, _ := garble(g, storeDir)
			res.Garbled = append(res.Garbled, acts...)
		}
		ji = ji2
	}
	res.Journal = tailOf(ji.Lines, 15)
	res.Acked = ji.LastA
	d := runDump(base, idxDir, c, 5, "dump")
	res.Dump = d
	if d.OpenErr != "" {
		res.Problem, res.Detail = "reopen-failed", d.OpenErr
		return res
	}
	if len(d.States) == 0 {
		lg, _ := os.ReadFile(filepath.Join(base, "dump.log"))
		res.Problem, res.Detail = "dump-died", tailStr(string(lg), 4000)
		return res
	}
	res.Recovered = d.States[0].Seqs
	if p, dd := checkState(c.Seed, d.States[0], c.NIDs); p != "" {
		res.Problem, res.Detail = p, dd
		return res
	}
	if p, dd := checkBounds(c, ji, d.States[0].Seqs, from); p != "" {
		res.Problem, res.Detail = p, dd
		return res
	}
	// after a clean end everything acknowledged must be there (same rule, lastA = all)
	want := append([]int(nil), d.States[0].Seqs...)
	want[0] += 5
	for _, st := range d.States[1:] {
		if st.Err != "" {
			res.Problem, res.Detail = "write-after-recovery-failed", st.Label+": "+st.Err
			return res
		}
		if fmt.Sprint(st.Seqs) != fmt.Sprint(want) {
			res.Problem, res.Detail = "write-after-recovery-lost", fmt.Sprintf("%s: seq vector %v want %v", st.Label, st.Seqs, want)
			return res
		}
		if p, dd := checkState(c.Seed, st, c.NIDs); p != "" {
			res.Problem, res.Detail = "after-recovery/"+p, dd
			return res
		}
	}
	if len(d.States) < 3 {
		res.Problem, res.Detail = "dump-incomplete", fmt.Sprintf("%d states", len(d.States))
	}
	return res
}

func tailStr(s string, n int) string {
	if len(s) > n {
		return s[len(s)-n:]
	}
	return s
}

func runDump(base, idxDir string, c crashCase, more int, name string) *Dump {
	ds := DumpSpec{Dir: idxDir, Out: filepath.Join(base, name+".json"), Seed: c.Seed, Writers: c.Cfg.Writers, NIDs: c.NIDs, More: more}
	writeJSON(filepath.Join(base, name+"-spec.json"), ds)
	exit, _ := runWorker("c03-dump", filepath.Join(base, name+"-spec.json"), filepath.Join(base, name+".log"), nil)
	var d Dump
	b, err := os.ReadFile(ds.Out)
	if err != nil || json.Unmarshal(b, &d) != nil {
		lg, _ := os.ReadFile(filepath.Join(base, name+".log"))
		return &Dump{OpenErr: fmt.Sprintf("dump child exit %d without output: %s", exit, tailStr(string(lg), 3000))}
	}
	return &d
}

func profile(dir string, c config, seed uint64, batches int) map[string]int {
	base := filepath.Join(dir, "profile-"+c.Name)
	_ = os.MkdirAll(base, 0o755)
	defer os.RemoveAll(base)
	sp := WriteSpec{Dir: filepath.Join(base, "idx"), Journal: filepath.Join(base, "journal"), Create: true, KVConfig: c.KV, Seed: seed,
		Writers: c.Writers, NIDs: nIDs, From: make([]int, c.Writers), Batches: batches, ForceMerge: c.FMerge, PaceMicros: 300,
		Counts: filepath.Join(base, "counts.json")}
	writeJSON(filepath.Join(base, "spec.json"), sp)
	runWorker("c03-write", filepath.Join(base, "spec.json"), filepath.Join(base, "log"), nil)
	counts := map[string]int{}
	b, _ := os.ReadFile(sp.Counts)
	_ = json.Unmarshal(b, &counts)
	return counts
}

func run(r *ev.Run) {
	r.Rule = "case = (option set, crash point, occurrence) for every verif hook point that a profiling run of the same workload reaches (occurrences 1..N plus seeded later ones), plus seeded wall-clock kills, plus kills during the recovery run of an already crashed directory; " +
		"after each kill every *.zap not named by a committed snapshot is left/truncated/overwritten/deleted (seeded); non-trivial = the kill happened after ≥ 1 acknowledged batch and the recovered state is not empty; distinct by (option set, kind, point, occurrence / delay bucket)"
	r.Assumptions = []string{
		"process death only: no power-loss reordering of fsynced data, no torn bbolt pages",
		"the journal is a lower bound on acknowledgements (an ack line can be lost by the kill)",
		"crash hooks are armed once bleve.New has returned; they are armed during bleve.Open of an existing index",
	}
	dir := r.TempDir()
	cfgs := configs()
	batches := 14
	maxOcc := r.Scale(1, 8)
	extraOcc := r.Scale(1, 3)
	nWall := r.Scale(20, 400)
	nRec := r.Scale(14, 240)
	r.MinDistinct = r.Scale(80, 1500)
	if !r.Thorough() {
		cfgs = cfgs[:5] // safe-1w, safe-3w-p3, unsafe-1w, unsafe-3w-p3, safe-2w-keep3
	}
	shortCfgs := cfgs
	if !r.Thorough() {
		shortCfgs = append(append([]config{}, cfgs...), configs()[6]) // + safe-1w-keep3 for the short histories only
	}

	g := r.Rng("cases")
	var cases []crashCase
	pointsSeen := map[string]int{}
	var pmu sync.Mutex
	var pwg sync.WaitGroup
	profiles := make([]map[string]int, len(cfgs))
	for i, c := range cfgs {
		pwg.Add(1)
		go func(i int, c config) {
			defer pwg.Done()
			profiles[i] = profile(dir, c, uint64(r.Seed)*1000+uint64(i), batches)
		}(i, c)
	}
	pwg.Wait()
	for i, c := range cfgs {
		counts := profiles[i]
		if len(counts) == 0 {
			r.Violation("profile-failed", "profiling run of "+c.Name+" produced no hook counts", c)
			continue
		}
		var pts []string
		for p := range counts {
			pts = append(pts, p)
		}
		sort.Strings(pts)
		for _, p := range pts {
			pmu.Lock()
			pointsSeen[p] += counts[p]
			pmu.Unlock()
			if strings.HasPrefix(p, "open.") || strings.HasPrefix(p, "copy.") {
				continue // creation is out of scope; open.* is exercised by the recovery cases
			}
			n := counts[p]
			occs := map[int]bool{}
			for o := 1; o <= n && o <= maxOcc; o++ {
				occs[o] = true
			}
			for e := 0; e < extraOcc && n > maxOcc; e++ {
				occs[g.Range(maxOcc+1, n)] = true
			}
			var os_ []int
			for o := range occs {
				os_ = append(os_, o)
			}
			sort.Ints(os_)
			for _, o := range os_ {
				cases = append(cases, crashCase{Cfg: c, Kind: "hook", Point: p, Occ: o, Seed: g.Uint64(), Batches: batches})
			}
		}
	}
	for i := 0; i < nWall; i++ {
		cases = append(cases, crashCase{Cfg: cfgs[i%len(cfgs)], Kind: "wall", WallUS: g.Intn(60000), Seed: g.Uint64(), Batches: 40})
	}
	recPoints := []string{"open.loaded", "open.beforeCleanup", "open.afterCleanup", "persist.loopTop", "persist.direct.beforeCommit", "purge.begin",
		"purge.bolt.afterCommit", "purge.zap.beforeRemove", "purge.zap.afterRemove", "merge.loopTop", "merge.task.fileWritten", "batch.beforeIntro", "intro.segment.afterSwap", "persist.direct.afterCommit"}
	for i := 0; i < nRec; i++ {
		cases = append(cases, crashCase{Cfg: cfgs[i%len(cfgs)], Kind: "recovery", WallUS: 2000 + g.Intn(40000), RecPoint: recPoints[i%len(recPoints)],
			RecOcc: 1 + g.Intn(2), Seed: g.Uint64(), Batches: 40})
	}
	for i, c := range cfgs {
		cases = append(cases, crashCase{Cfg: c, Kind: "clean", Seed: uint64(r.Seed)*77 + uint64(i), Batches: batches})
	}
	// short histories that are closed cleanly (many of them right after a delete-only batch that
	// empties the newest segments), then reopened and written to again
	nShort := r.Scale(48, 480)
	for i := 0; i < nShort; i++ {
		c := crashCase{Cfg: shortCfgs[i%len(shortCfgs)], Kind: "clean", Seed: g.Uint64(), Batches: 2 + (i/len(shortCfgs))%5}
		if i%2 == 0 {
			// aimed: every writer's last batch is delete-only
			for try := 0; try < 4000; try++ {
				all := true
				for w := 0; w < c.Cfg.Writers; w++ {
					all = all && corpus.IsWipe(c.Seed, w, c.Batches)
				}
				if all {
					break
				}
				c.Seed = g.Uint64()
			}
		}
		cases = append(cases, c)
	}
	for i := range cases {
		cases[i].ID = i
		// every third case is a hot-key workload: one document per writer besides the marker, so that
		// whole segments are emptied by the next batch (segments dropped from the root while older
		// snapshots still name their files)
		cases[i].NIDs = nIDs
		if i%3 == 2 {
			cases[i].NIDs = 1
		}
	}
	r.Extra("hook_points_reached_in_profiles", pointsSeen)
	r.Extra("option_sets", len(cfgs))

	var wg sync.WaitGroup
	sem := make(chan struct{}, 16)
	var mu sync.Mutex
	kinds := map[string]int{}
	reachedByPoint := map[string]int{}
	for _, c := range cases {
		wg.Add(1)
		sem <- struct{}{}
		go func(c crashCase) {
			defer wg.Done()
			defer func() { <-sem }()
			res := runCase(r, dir, c)
			bucket := c.Point + fmt.Sprint(c.Occ)
			if c.Kind != "hook" {
				bucket = fmt.Sprintf("%s-%d-%s%d", c.Kind, c.WallUS/2000, c.RecPoint, c.RecOcc)
			}
			anyAck := false
			for _, a := range res.Acked {
				if a > 0 {
					anyAck = true
				}
			}
			nonEmpty := false
			for _, k := range res.Recovered {
				if k > 0 {
					nonEmpty = true
				}
			}
			r.Case(fmt.Sprintf("%s/%s/%s", c.Cfg.Name, c.Kind, bucket), res.Reached && anyAck && nonEmpty)
			mu.Lock()
			kinds[c.Kind]++
			if res.Reached {
				kinds[c.Kind+"-killed"]++
				if c.Kind == "hook" {
					reachedByPoint[c.Point]++
				}
			}
			mu.Unlock()
			if c.ID%97 == 0 {
				r.Sample(map[string]any{"case": c, "journal_tail": res.Journal, "unreferenced_files": res.Garbled, "recovered_seq": res.Recovered, "acked": res.Acked})
			}
			switch res.Problem {
			case "":
			case "inconclusive":
				r.Inconclusive(res.Detail)
			default:
				mode := "safe"
				if c.Cfg.Unsafe {
					mode = "unsafe"
				}
				where := c.Kind
				if c.Kind == "hook" {
					where = "at-" + c.Point
				}
				if c.Kind == "hook" && !res.Reached {
					where = "clean-run"
				}
				r.Violation(fmt.Sprintf("%s/%s/%s", res.Problem, mode, where), res.Detail, res)
			}
		}(c)
	}
	wg.Wait()
	r.Extra("cases_by_kind", kinds)
	r.Extra("kills_by_hook_point", reachedByPoint)
}
