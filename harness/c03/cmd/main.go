package main

import (
	_ "verifharness/c03"
	"verifharness/ev"
)

func main() { ev.Main() }
