package c03

import (
	"context"
	"encoding/json"
	"fmt"
	"os"
	"sort"
	"strconv"
	"sync"
	"time"

	"github.com/blevesearch/bleve/v2"
	"github.com/blevesearch/bleve/v2/index/scorch"

	"verifharness/corpus"
	"verifharness/ev"
	"verifharness/mon"
	"verifharness/rng"
)

func init() {
	ev.RegisterWorker("c03-write", writeWorker)
	ev.RegisterWorker("c03-dump", dumpWorker)
}

// WriteSpec drives one writer child process.
type WriteSpec struct {
	Dir           string         `json:"dir"`
	Journal       string         `json:"journal"`
	Create        bool           `json:"create"`
	KVConfig      map[string]any `json:"kvconfig"`
	Seed          uint64         `json:"seed"`
	Writers       int            `json:"writers"`
	NIDs          int            `json:"nids"`
	From          []int          `json:"from"` // last applied k per writer
	Batches       int            `json:"batches"`
	CrashPoint    string         `json:"crash_point,omitempty"`
	CrashOcc      int            `json:"crash_occ,omitempty"`
	ArmDuringOpen bool           `json:"arm_during_open,omitempty"`
	ForceMerge    int            `json:"force_merge_every,omitempty"`
	Counts        string         `json:"counts,omitempty"`
	PaceMicros    int            `json:"pace_us,omitempty"`
}

type journal struct {
	mu sync.Mutex
	f  *os.File
}

func openJournal(path string) *journal {
	f, err := os.OpenFile(path, os.O_CREATE|os.O_WRONLY|os.O_APPEND, 0o644)
	if err != nil {
		fmt.Fprintln(os.Stderr, "journal:", err)
		os.Exit(4)
	}
	return &journal{f: f}
}

// line appends one line with a single write(2); lines of all goroutines are
// totally ordered by the file.
func (j *journal) line(format string, a ...any) {
	s := fmt.Sprintf(format, a...) + "\n"
	j.mu.Lock()
	_, _ = j.f.Write([]byte(s))
	j.mu.Unlock()
}

func readSpec(path string, v any) {
	b, err := os.ReadFile(path)
	if err == nil {
		err = json.Unmarshal(b, v)
	}
	if err != nil {
		fmt.Fprintln(os.Stderr, "spec:", err)
		os.Exit(4)
	}
}

func writeWorker(args []string) {
	var sp WriteSpec
	readSpec(args[0], &sp)
	j := openJournal(sp.Journal)
	d := mon.New()
	d.Install()
	if sp.CrashPoint != "" {
		d.Add(mon.CrashAt(sp.CrashPoint, sp.CrashOcc, func() { j.line("crash %s %d", sp.CrashPoint, sp.CrashOcc) }))
	}
	unsafeMode, _ := sp.KVConfig["unsafe_batch"].(bool)
	if sp.Seed&1 == 1 || unsafeMode {
		// every second workload (every unsafe_batch one) runs with a slow persister (a seeded pause of up to 3 ms (8 ms) at the top of each persister
		// round and after it took its snapshot): on a fast medium the persister otherwise keeps up with the writers
		// and the paths for several unpersisted segments per round (in-memory merges, flush groups) stay cold
		sg := rng.New(sp.Seed).Derive("slow-persister")
		var smu sync.Mutex
		d.Add(func(s *scorch.Scorch, point string, occ int) {
			if b := mon.Base(point); b != "persist.loopTop" && b != "persist.gotSnapshot" {
				return
			}
			smu.Lock()
			us := sg.Intn(3000)
			if unsafeMode {
				us = sg.Intn(8000) // unsafe batches return at once: let them pile up
			}
			smu.Unlock()
			time.Sleep(time.Duration(us) * time.Microsecond)
		})
	}
	var idx bleve.Index
	var err error
	if sp.Create {
		kvc := map[string]any{}
		for k, v := range sp.KVConfig {
			kvc[k] = v
		}
		// crash hooks are armed only once creation has returned (DESIGN §5 C03 scope rule)
		idx, err = bleve.NewUsing(sp.Dir, corpus.Mapping(), scorch.Name, scorch.Name, kvc)
	} else {
		if sp.ArmDuringOpen {
			d.Arm(nil)
		}
		idx, err = bleve.OpenUsing(sp.Dir, map[string]interface{}{})
	}
	if err != nil {
		j.line("openerr %q", err.Error())
		os.Exit(5)
	}
	d.Arm(mon.ScorchOf(idx))
	j.line("ready")

	from := make([]int, sp.Writers)
	copy(from, sp.From)
	var wg sync.WaitGroup
	for w := 0; w < sp.Writers; w++ {
		wg.Add(1)
		go func(w int) {
			defer wg.Done()
			for k := from[w] + 1; k <= from[w]+sp.Batches; k++ {
				mb := corpus.WriterBatchOpt(sp.Seed, w, k, sp.NIDs, true)
				bb, err := corpus.ToBleve(idx, mb)
				if err != nil {
					j.line("E %d %d %q", w, k, err.Error())
					return
				}
				k := k
				bb.SetPersistedCallback(func(err error) {
					if err == nil {
						j.line("P %d %d", w, k)
					} else {
						j.line("PE %d %d %q", w, k, err.Error())
					}
				})
				j.line("S %d %d", w, k)
				if err := idx.Batch(bb); err != nil {
					j.line("E %d %d %q", w, k, err.Error())
					return
				}
				j.line("A %d %d", w, k)
				if w == 0 && sp.ForceMerge > 0 && k%sp.ForceMerge == 0 {
					if s := mon.ScorchOf(idx); s != nil {
						_ = s.ForceMerge(context.Background(), nil)
					}
				}
				if sp.PaceMicros > 0 {
					time.Sleep(time.Duration(sp.PaceMicros) * time.Microsecond)
				}
			}
		}(w)
	}
	wg.Wait()
	j.line("done")
	// give background work (persister rounds, merges, purges) the chance to
	// reach their hook points too
	cfg := corpus.Config{IndexType: scorch.Name, OnDisk: true}
	_ = corpus.WaitPersisted(idx, cfg)
	time.Sleep(30 * time.Millisecond)
	if err := idx.Close(); err != nil {
		j.line("closeerr %q", err.Error())
	}
	j.line("closed")
	if sp.Counts != "" {
		b, _ := json.Marshal(d.Counts())
		_ = os.WriteFile(sp.Counts, b, 0o644)
	}
}

// ---------------------------------------------------------------------------

type DumpSpec struct {
	Dir     string `json:"dir"`
	Out     string `json:"out"`
	Seed    uint64 `json:"seed"`
	Writers int    `json:"writers"`
	NIDs    int    `json:"nids"`
	More    int    `json:"more"` // further batches of writer 0 after the first dump
}

type State struct {
	Label    string              `json:"label"`
	Err      string              `json:"err,omitempty"`
	Seqs     []int               `json:"seqs"` // per writer, 0 = key absent
	DocCount uint64              `json:"doc_count"`
	Docs     map[string][]string `json:"docs"` // id → stored fields, absent ids omitted
	MatchAll []string            `json:"match_all"`
	Total    uint64              `json:"total"`
	Terms    map[string][]string `json:"terms"`
}

type Dump struct {
	OpenErr string  `json:"open_err,omitempty"`
	States  []State `json:"states"`
}

func snapshotState(idx bleve.Index, label string, writers, nIDs int) State {
	st := State{Label: label, Docs: map[string][]string{}, Terms: map[string][]string{}}
	fail := func(err error) State { st.Err = err.Error(); return st }
	for w := 0; w < writers; w++ {
		v, err := idx.GetInternal([]byte(corpus.SeqKey(w)))
		if err != nil {
			return fail(err)
		}
		k := 0
		if len(v) > 0 {
			k, err = strconv.Atoi(string(v))
			if err != nil {
				return fail(fmt.Errorf("seq key %q: %v", v, err))
			}
		}
		st.Seqs = append(st.Seqs, k)
	}
	n, err := idx.DocCount()
	if err != nil {
		return fail(err)
	}
	st.DocCount = n
	for w := 0; w < writers; w++ {
		for _, id := range corpus.WriterIDs(w, nIDs) {
			d, err := idx.Document(id)
			if err != nil {
				return fail(fmt.Errorf("Document(%s): %v", id, err))
			}
			if d != nil {
				st.Docs[id] = corpus.ObservedStored(d)
			}
		}
	}
	req := bleve.NewSearchRequestOptions(bleve.NewMatchAllQuery(), 10000, 0, false)
	res, err := idx.Search(req)
	if err != nil {
		return fail(err)
	}
	st.Total = res.Total
	for _, h := range res.Hits {
		st.MatchAll = append(st.MatchAll, h.ID)
	}
	sort.Strings(st.MatchAll)
	for _, word := range corpus.Words {
		tq := bleve.NewTermQuery(word)
		tq.SetField("body")
		res, err := idx.Search(bleve.NewSearchRequestOptions(tq, 10000, 0, false))
		if err != nil {
			return fail(err)
		}
		ids := []string{}
		for _, h := range res.Hits {
			ids = append(ids, h.ID)
		}
		sort.Strings(ids)
		st.Terms[word] = ids
	}
	return st
}

func dumpWorker(args []string) {
	var sp DumpSpec
	readSpec(args[0], &sp)
	var out Dump
	defer func() {
		b, _ := json.Marshal(out)
		_ = os.WriteFile(sp.Out, b, 0o644)
	}()
	idx, err := bleve.OpenUsing(sp.Dir, map[string]interface{}{})
	if err != nil {
		out.OpenErr = err.Error()
		return
	}
	st := snapshotState(idx, "recovered", sp.Writers, sp.NIDs)
	out.States = append(out.States, st)
	if st.Err == "" && sp.More > 0 {
		k0 := st.Seqs[0]
		for k := k0 + 1; k <= k0+sp.More; k++ {
			if err := corpus.ApplyBatch(idx, corpus.WriterBatchOpt(sp.Seed, 0, k, sp.NIDs, true)); err != nil {
				out.States = append(out.States, State{Label: "more", Err: fmt.Sprintf("batch %d after recovery: %v", k, err)})
				_ = idx.Close()
				return
			}
		}
		out.States = append(out.States, snapshotState(idx, "more", sp.Writers, sp.NIDs))
	}
	// in unsafe_batch mode a clean Close only keeps what has been persisted, so
	// wait for the documented persisted callback before closing
	if err := corpus.WaitPersisted(idx, corpus.Config{IndexType: scorch.Name, OnDisk: true}); err != nil {
		out.States = append(out.States, State{Label: "close", Err: "waiting for persistence: " + err.Error()})
		_ = idx.Close()
		return
	}
	if err := idx.Close(); err != nil {
		out.States = append(out.States, State{Label: "close", Err: err.Error()})
		return
	}
	idx, err = bleve.OpenUsing(sp.Dir, map[string]interface{}{})
	if err != nil {
		out.States = append(out.States, State{Label: "reopened", Err: "open after clean close: " + err.Error()})
		return
	}
	out.States = append(out.States, snapshotState(idx, "reopened", sp.Writers, sp.NIDs))
	_ = idx.Close()
}
