// Package c04 monitors property C04: readers see whole batches, in order, and a
// reader's view never changes. Part 1 runs the real scorch pipeline under the
// gate scheduler with an exact-state oracle and held readers; part 2 records
// concurrent Batch / read histories under seeded delays on both engines and
// checks atomicity, recency, monotonicity, reader-internal consistency and
// (porcupine) linearizability, under the race detector.
package c04

import (
	"fmt"
	"sync"

	"verifharness/ev"
)

func init() { ev.Register("C04", "exploration", run) }

func run(r *ev.Run) {
	r.Rule = "part 1: gate-scheduled scenarios (2–3 writers × 3–5 batches on overlapping ids, safe/unsafe × persister workers 1/3 × aggressive merges); at every strictly quiescent point the visible state must equal the LWW replay of the batches released so far and every held reader must repeat its first answer; " +
		"part 2: stress rounds (writers with per-writer version markers, single-search readers, index-reader readers, held readers, seeded delays at hooks, both engines) checked for atomicity, recency, monotonicity, reader-internal agreement and porcupine linearizability; " +
		"non-trivial = a read overlapped ≥ 1 in-flight batch and saw ≥ 2 segments, or an introduction happened between two reads of a held reader; distinct by scenario seed; distinct interleavings = distinct introducer-level orders"
	r.Assumptions = []string{
		"schedules are those the seeded gate choices and delays produce; quiescence is recognised from the hook stream (strict) and only strictly quiescent points are judged",
		"a porcupine timeout is inconclusive",
	}
	dir := r.TempDir()
	nGated := r.Scale(300, 2400)
	r.MinDistinct = r.Scale(100, 800)

	cfgs := gatedCfgs()
	var wg sync.WaitGroup
	sem := make(chan struct{}, 12)
	var mu sync.Mutex
	orders := map[uint64]bool{}
	tot := gatedStats{}
	for i := 0; i < nGated; i++ {
		wg.Add(1)
		sem <- struct{}{}
		go func(i int) {
			defer wg.Done()
			defer func() { <-sem }()
			g := r.Rng(fmt.Sprintf("gated-%d", i))
			cfg := cfgs[i%len(cfgs)]
			W, B, nIDs := g.Range(2, 3), g.Range(3, 5), g.Range(3, 7)
			seed := g.Uint64()
			problem, wit, st, res := runGatedScenario(r, dir, cfg, seed, W, B, nIDs)
			nontrivial := st.heldSpanningIntro > 0 || st.multiSeg > 0
			r.Case(fmt.Sprintf("gated/%s/%x", cfg.Name, seed), nontrivial && st.strictPoints > 0)
			mu.Lock()
			orders[hashStr(cfg.Name+st.introOrder)] = true
			tot.comparisons += st.comparisons
			tot.strictPoints += st.strictPoints
			tot.heuristicPoints += st.heuristicPoints
			tot.heldRereads += st.heldRereads
			tot.heldSpanningIntro += st.heldSpanningIntro
			tot.multiSeg += st.multiSeg
			mu.Unlock()
			if i < 2 && res != nil {
				r.Sample(map[string]any{"part": "gated", "config": cfg.Name, "writers": W, "batches_each": B, "ids": nIDs,
					"gate_release_order": res.Schedule, "introducer_order": res.IntroOrder, "strict_quiescent_points": st.strictPoints})
			}
			if res != nil && res.TimedOut {
				r.Inconclusive("gated scenario timed out (watchdog)")
				return
			}
			if problem != "" {
				r.Violation("gated/"+problem, wit.Detail, wit)
			}
		}(i)
	}
	wg.Wait()
	r.Extra("gated", map[string]any{
		"scenarios": nGated, "distinct_introducer_orders": len(orders), "exact_state_comparisons": tot.comparisons,
		"strict_quiescent_points": tot.strictPoints, "heuristic_quiescent_points_not_judged": tot.heuristicPoints,
		"held_reader_rereads": tot.heldRereads, "held_rereads_spanning_an_introduction": tot.heldSpanningIntro,
		"comparisons_with_2plus_segments": tot.multiSeg,
	})

	runEnumPart(r, dir)

	runStress(r, dir)
}
