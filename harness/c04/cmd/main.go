package main

import (
	_ "verifharness/c04"
	"verifharness/ev"
)

func main() { ev.Main() }
