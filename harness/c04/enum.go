package c04

import (
	"container/heap"
	"fmt"
	"sort"
	"strings"
	"sync"

	"verifharness/ev"
	"verifharness/mon"
	"verifharness/sched"
)

// Enumeration part: for small scenarios the tree of gate choices is explored
// systematically instead of by seeded choice. Every quiescent point with k gated
// actors is a node with k children (release that actor). The tree is explored in
// order of the number of deviations from the default schedule (first option in
// label order at every point): all schedules with 0 deviations, then 1, then 2 …
// (delay-bounded exploration), each schedule being one real execution judged by
// the same exact-state / held-reader oracle as the seeded scenarios. A replayed
// prefix whose expected actor is not gated at that point (the real system took
// another path, e.g. a merge was planned differently) is a divergence: the run
// is still judged, but it is counted and its subtree is not claimed as covered.

type enumNode struct {
	prefix []string
	devs   int
}

type enumPQ []*enumNode

func (q enumPQ) Len() int { return len(q) }
func (q enumPQ) Less(i, j int) bool {
	if q[i].devs != q[j].devs {
		return q[i].devs < q[j].devs
	}
	return len(q[i].prefix) < len(q[j].prefix)
}
func (q enumPQ) Swap(i, j int) { q[i], q[j] = q[j], q[i] }
func (q *enumPQ) Push(x any)   { *q = append(*q, x.(*enumNode)) }
func (q *enumPQ) Pop() any {
	old := *q
	n := len(old)
	x := old[n-1]
	*q = old[:n-1]
	return x
}

func waiterLabels(rn *sched.Runner, ws []mon.Waiter) ([]string, map[string]mon.Waiter) {
	by := map[string]mon.Waiter{}
	var labels []string
	for _, w := range ws {
		l := w.Point
		if w.Point == "batch.beforeIntro" {
			if ref, ok := rn.RefOf(w.Actor); ok {
				l = fmt.Sprintf("batch.w%d", ref.W)
			}
		}
		for n := 2; ; n++ {
			if _, dup := by[l]; !dup {
				break
			}
			l = fmt.Sprintf("%s#%d", w.Point, n)
		}
		by[l] = w
		labels = append(labels, l)
	}
	sort.Strings(labels)
	return labels, by
}

type enumScenario struct {
	cfg        gatedCfg
	seed       uint64
	W, B, nIDs int
	gates      []string
}

type enumResult struct {
	Runs, Diverged, NonStrictChoicePoints int
	Distinct, DistinctIntro                int
	MaxDevsCompleted                       int
	Exhausted                              bool
	MaxDepth                               int
}

func runEnum(r *ev.Run, dir string, sc enumScenario, budget, maxDevs int, name string) enumResult {
	var mu sync.Mutex
	pq := &enumPQ{{}}
	inflight := 0
	runs := 0
	res := enumResult{MaxDevsCompleted: -1}
	schedules := map[string]bool{}
	intros := map[string]bool{}
	cond := sync.NewCond(&mu)
	violated := false
	minDevsInflight := map[int]int{}

	worker := func(id int) {
		for {
			mu.Lock()
			for pq.Len() == 0 && inflight > 0 {
				cond.Wait()
			}
			if pq.Len() == 0 || runs >= budget || violated {
				mu.Unlock()
				cond.Broadcast()
				return
			}
			nd := heap.Pop(pq).(*enumNode)
			runs++
			runNo := runs
			inflight++
			minDevsInflight[nd.devs]++
			mu.Unlock()

			var path []string
			var options [][]string
			diverged := false
			nonStrict := 0
			opt := &gatedOpts{Tag: fmt.Sprintf("%s-%d", name, runNo), Gates: sc.gates}
			opt.ChooseR = func(rn *sched.Runner, st mon.Status, strict bool) mon.Waiter {
				labels, by := waiterLabels(rn, st.Waiters)
				if !strict {
					nonStrict++
				}
				i := len(path)
				pick := labels[0]
				if i < len(nd.prefix) && !diverged {
					if _, ok := by[nd.prefix[i]]; ok {
						pick = nd.prefix[i]
					} else {
						diverged = true
					}
				}
				path = append(path, pick)
				options = append(options, labels)
				return by[pick]
			}
			problem, wit, st, sres := runGatedScenarioOpt(r, dir, sc.cfg, sc.seed, sc.W, sc.B, sc.nIDs, opt)

			mu.Lock()
			inflight--
			minDevsInflight[nd.devs]--
			key := strings.Join(path, ">")
			if !schedules[key] {
				schedules[key] = true
			}
			if st != nil {
				intros[st.introOrder] = true
			}
			if len(path) > res.MaxDepth {
				res.MaxDepth = len(path)
			}
			res.NonStrictChoicePoints += nonStrict
			if diverged {
				res.Diverged++
			} else {
				// children: deviations at the steps beyond the prefix
				for i := len(nd.prefix); i < len(path); i++ {
					for _, alt := range options[i] {
						if alt == path[i] {
							continue
						}
						if nd.devs+1 > maxDevs {
							continue
						}
						np := append(append([]string{}, path[:i]...), alt)
						heap.Push(pq, &enumNode{prefix: np, devs: nd.devs + 1})
					}
				}
			}
			mu.Unlock()
			cond.Broadcast()

			nontrivial := st != nil && st.strictPoints > 0 && (st.heldSpanningIntro > 0 || st.multiSeg > 0)
			r.Case(fmt.Sprintf("enum/%s/%s", name, key), nontrivial)
			if sres != nil && sres.TimedOut {
				r.Inconclusive("enumerated schedule timed out (watchdog): " + name + " " + key)
				continue
			}
			if problem != "" {
				mu.Lock()
				violated = true
				mu.Unlock()
				wit.Detail = "enumerated schedule " + key + ": " + wit.Detail
				r.Violation("gated/"+problem, wit.Detail, wit)
			}
		}
	}
	var wg sync.WaitGroup
	for i := 0; i < 12; i++ {
		wg.Add(1)
		go func(i int) { defer wg.Done(); worker(i) }(i)
	}
	wg.Wait()
	res.Runs = runs
	res.Distinct = len(schedules)
	res.DistinctIntro = len(intros)
	res.Exhausted = pq.Len() == 0 && !violated
	// the deviation levels fully explored: everything below the smallest level left in the queue
	minLeft := maxDevs + 1
	for _, n := range *pq {
		if n.devs < minLeft {
			minLeft = n.devs
		}
	}
	res.MaxDevsCompleted = minLeft - 1
	return res
}

func runEnumPart(r *ev.Run, dir string) {
	cfgs := gatedCfgs()
	introGates := []string{"batch.beforeIntro", "persist.direct.beforeIntro", "persist.memmerge.beforeIntro", "merge.beforeIntro"}
	g := r.Rng("enum")
	type plan struct {
		sc      enumScenario
		budget  int
		maxDevs int
	}
	var plans []plan
	n := r.Scale(4, 12)
	for i := 0; i < n; i++ {
		cfg := cfgs[i%len(cfgs)]
		gates := introGates
		if i%2 == 1 {
			gates = sched.DefaultGates // with the purger
		}
		// sizes: 2x2 first (its tree is exhausted within the budget), then 2x3, 3x2, and 2x4 in the thorough tier
		W, B := 2, 2
		switch i % 4 {
		case 1:
			B = 3
		case 2:
			W = 3
		case 3:
			if r.Thorough() {
				B = 4
			}
		}
		plans = append(plans, plan{enumScenario{cfg: cfg, seed: g.Uint64(), W: W, B: B, nIDs: g.Range(1, 3), gates: gates}, r.Scale(120, 4000), 64})
	}
	var out []map[string]any
	for i, p := range plans {
		name := fmt.Sprintf("e%d-%s", i, p.sc.cfg.Name)
		res := runEnum(r, dir, p.sc, p.budget, p.maxDevs, name)
		out = append(out, map[string]any{"scenario": name, "writers": p.sc.W, "batches_each": p.sc.B, "ids": p.sc.nIDs, "gates": p.sc.gates,
			"executions": res.Runs, "distinct_schedules": res.Distinct, "distinct_introducer_orders": res.DistinctIntro,
			"replay_divergences": res.Diverged, "choice_points_not_strictly_quiescent": res.NonStrictChoicePoints,
			"deviation_bound": p.maxDevs, "deviation_levels_fully_explored_up_to": res.MaxDevsCompleted,
			"tree_exhausted_within_bound": res.Exhausted, "longest_schedule": res.MaxDepth})
	}
	r.Extra("enumeration", out)
}
