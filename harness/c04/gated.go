package c04

import (
	"fmt"
	"hash/fnv"
	"os"
	"path/filepath"
	"strings"

	"github.com/blevesearch/bleve/v2"
	index "github.com/blevesearch/bleve_index_api"

	"verifharness/corpus"
	"verifharness/ev"
	"verifharness/mon"
	"verifharness/rng"
	"verifharness/sched"
)

// Gated part: the real scorch pipeline is run under the gate scheduler; at
// every strictly quiescent point the visible state must equal the LWW replay of
// exactly the batches released so far (whatever persists, in-memory merges,
// file merges and purges were interleaved), and every held reader must still
// answer what it answered when it was obtained.

type gatedCfg struct {
	Name string
	KV   map[string]any
}

func mergeKV(ms ...map[string]any) map[string]any {
	out := map[string]any{}
	for _, m := range ms {
		for k, v := range m {
			out[k] = v
		}
	}
	return out
}

func gatedCfgs() []gatedCfg {
	un := map[string]any{"unsafe_batch": true}
	return []gatedCfg{
		{"safe-merge", mergeKV(corpus.AggressiveMerge())},
		{"unsafe-merge", mergeKV(corpus.AggressiveMerge(), un)},
		{"unsafe-p3-merge", mergeKV(corpus.AggressiveMerge(), corpus.MultiWorkerPersister(), un)},
		{"safe-p3-merge", mergeKV(corpus.AggressiveMerge(), corpus.MultiWorkerPersister())},
		{"unsafe-default", un},
	}
}

// genWriters builds W writers × B batches over a shared id space; every
// written document carries a unique ver so a read identifies the write it saw.
func genWriters(g *rng.Rand, W, B, nIDs int) ([][]corpus.Batch, []string, []string) {
	var ids []string
	for i := 0; i < nIDs; i++ {
		ids = append(ids, corpus.DocID(i))
	}
	keys := []string{"k0", "k1", "k2"}
	ver := 0
	out := make([][]corpus.Batch, W)
	// hot-key variant: very few ids and tiny batches, so that whole segments are
	// obsoleted by the next batch (segments that die before they are persisted or merged)
	hot := g.Chance(1, 3)
	if hot && nIDs > 2 {
		nIDs = g.Range(1, 2)
		ids = ids[:nIDs]
	}
	for w := 0; w < W; w++ {
		for b := 0; b < B; b++ {
			n := g.Range(1, 4)
			if hot {
				n = g.Range(1, 2)
			}
			ops := corpus.GenOps(g, n, nIDs)
			for i := range ops {
				if ops[i].Kind == "index" {
					ver++
					ops[i].Doc.Fields["ver"] = float64(ver)
				}
			}
			out[w] = append(out[w], corpus.Batch{Ops: ops})
		}
	}
	return out, ids, keys
}

type heldReader struct {
	rd       index.IndexReader
	view     *sched.View
	atStep   int
	introsAt int
	rereads  int
}

func viewVia(rd index.IndexReader, ids, keys []string) (*sched.View, error) {
	v := &sched.View{Docs: map[string][]string{}, Internal: map[string]string{}}
	var err error
	v.DocCount, err = rd.DocCount()
	if err != nil {
		return nil, err
	}
	for _, id := range ids {
		d, err := rd.Document(id)
		if err != nil {
			return nil, err
		}
		if d != nil {
			v.Docs[id] = corpus.ObservedStored(d)
		}
	}
	for _, k := range keys {
		val, err := rd.GetInternal([]byte(k))
		if err != nil {
			return nil, err
		}
		if val != nil {
			v.Internal[k] = string(val)
		}
	}
	return v, nil
}

func viewString(v *sched.View) string {
	var sb strings.Builder
	fmt.Fprintf(&sb, "n=%d;", v.DocCount)
	for _, id := range sortedIDs(v.Docs) {
		fmt.Fprintf(&sb, "%s=%v;", id, v.Docs[id])
	}
	for _, k := range []string{"k0", "k1", "k2"} {
		fmt.Fprintf(&sb, "%s=%s;", k, v.Internal[k])
	}
	return sb.String()
}

func sortedIDs(m map[string][]string) []string {
	out := make([]string, 0, len(m))
	for k := range m {
		out = append(out, k)
	}
	for i := 1; i < len(out); i++ {
		for j := i; j > 0 && out[j] < out[j-1]; j-- {
			out[j], out[j-1] = out[j-1], out[j]
		}
	}
	return out
}

type gatedWitness struct {
	Config     string           `json:"config"`
	Seed       uint64           `json:"scenario_seed"`
	Writers    [][]corpus.Batch `json:"writers"`
	Released   []sched.BatchRef `json:"released_order"`
	Schedule   []string         `json:"gate_release_order"`
	IntroOrder []string         `json:"introducer_order"`
	Step       int              `json:"step"`
	Detail     string           `json:"detail"`
}

type gatedStats struct {
	comparisons, strictPoints, heuristicPoints, heldRereads, heldSpanningIntro, multiSeg int
	introOrder                                                                           string
}

// runGatedScenario returns (problem class, witness) or "".
func runGatedScenario(r *ev.Run, dir string, cfg gatedCfg, seed uint64, W, B, nIDs int) (string, *gatedWitness, *gatedStats, *sched.Result) {
	return runGatedScenarioOpt(r, dir, cfg, seed, W, B, nIDs, nil)
}

// gatedOpts lets the enumeration part drive the same scenario/oracle with its own chooser.
type gatedOpts struct {
	Tag     string
	ChooseR func(r *sched.Runner, st mon.Status, strict bool) mon.Waiter
	Gates   []string
}

func runGatedScenarioOpt(r *ev.Run, dir string, cfg gatedCfg, seed uint64, W, B, nIDs int, opt *gatedOpts) (string, *gatedWitness, *gatedStats, *sched.Result) {
	g := rng.New(seed)
	writers, ids, keys := genWriters(g.Derive("writers"), W, B, nIDs)
	sc := &sched.Scenario{Dir: filepath.Join(dir, fmt.Sprintf("g-%s-%x", cfg.Name, seed)), KV: cfg.KV, Writers: writers, G: g.Derive("sched"), MaxSteps: 400, Policy: sched.Policies[int(seed%uint64(len(sched.Policies)))]}
	if opt != nil {
		sc.Dir += "-" + opt.Tag
		sc.ChooseR = opt.ChooseR
		if opt.Gates != nil {
			sc.Gates = opt.Gates
		}
	}
	stats := &gatedStats{}
	var problem string
	var wit *gatedWitness
	fail := func(rn *sched.Runner, class, detail string) {
		if problem != "" {
			return
		}
		problem = class
		wit = &gatedWitness{Config: cfg.Name, Seed: seed, Writers: writers, Released: rn.ReleasedList(), Schedule: rn.Gate.Schedule(),
			IntroOrder: rn.Gate.IntroOrder(), Step: rn.Steps, Detail: detail}
	}
	var held []*heldReader
	hg := g.Derive("held")
	obs := func(rn *sched.Runner, st mon.Status, strict bool) {
		if !strict {
			stats.heuristicPoints++
			return
		}
		stats.strictPoints++
		v, err := sched.ReadView(rn.Idx, ids, keys)
		if err != nil {
			fail(rn, "read-error", err.Error())
			return
		}
		stats.comparisons++
		if v.Segments >= 2 {
			stats.multiSeg++
		}
		if d := sched.Diff(v, rn.Model, keys); d != "" {
			fail(rn, "state-differs-from-released-batches", fmt.Sprintf("after releases %v (intro order %v): %s", rn.ReleasedList(), rn.Gate.IntroOrder(), d))
			return
		}
		intros := len(rn.Gate.IntroOrder())
		// held readers must keep answering what they answered when obtained
		for _, h := range held {
			hv, err := viewVia(h.rd, ids, keys)
			if err != nil {
				fail(rn, "held-reader-error", fmt.Sprintf("reader taken at step %d: %v", h.atStep, err))
				return
			}
			h.rereads++
			stats.heldRereads++
			if intros > h.introsAt {
				stats.heldSpanningIntro++
			}
			if viewString(hv) != viewString(h.view) {
				fail(rn, "held-reader-changed", fmt.Sprintf("reader taken at step %d now answers\n %s\nfirst answered\n %s", h.atStep, viewString(hv), viewString(h.view)))
				return
			}
		}
		if len(held) < 4 && hg.Chance(1, 4) {
			adv, _ := rn.Idx.Advanced()
			rd, err := adv.Reader()
			if err == nil {
				hv, err := viewVia(rd, ids, keys)
				if err == nil {
					held = append(held, &heldReader{rd: rd, view: hv, atStep: rn.Steps, introsAt: intros})
				} else {
					rd.Close()
				}
			}
		}
	}
	final := func(rn *sched.Runner) {
		// after everything settled: final state must be the replay of all batches in release order
		if rn.Model != nil {
			cfgc := corpus.Config{IndexType: "scorch", OnDisk: true}
			_ = corpus.WaitPersisted(rn.Idx, cfgc)
			v, err := sched.ReadView(rn.Idx, ids, keys)
			if err != nil {
				fail(rn, "read-error", err.Error())
			} else if d := sched.Diff(v, rn.Model, keys); d != "" {
				fail(rn, "final-state-differs", d)
			}
			stats.comparisons++
		}
		for _, h := range held {
			hv, err := viewVia(h.rd, ids, keys)
			if err != nil {
				fail(rn, "held-reader-error", err.Error())
			} else if viewString(hv) != viewString(h.view) {
				fail(rn, "held-reader-changed", fmt.Sprintf("at the end, reader taken at step %d answers\n %s\nfirst answered\n %s", h.atStep, viewString(hv), viewString(h.view)))
			}
			stats.heldRereads++
			h.rd.Close()
		}
	}
	res, err := sched.Run(sc, obs, final)
	if err != nil {
		return "setup-error", &gatedWitness{Config: cfg.Name, Seed: seed, Detail: err.Error()}, stats, nil
	}
	if len(res.Errors) > 0 && problem == "" {
		problem = "batch-or-close-error"
		wit = &gatedWitness{Config: cfg.Name, Seed: seed, Writers: writers, Schedule: res.Schedule, IntroOrder: res.IntroOrder, Detail: strings.Join(res.Errors, "; ")}
	}
	stats.introOrder = strings.Join(res.IntroOrder, ",")
	if problem == "" && !res.TimedOut {
		_ = os.RemoveAll(sc.Dir)
	}
	return problem, wit, stats, res
}

func hashStr(s string) uint64 {
	h := fnv.New64a()
	h.Write([]byte(s))
	return h.Sum64()
}

var _ = bleve.NewMatchAllQuery
