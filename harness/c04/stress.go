package c04

import (
	"context"
	"encoding/json"
	"fmt"
	"os"
	"os/exec"
	"path/filepath"
	"sort"
	"strconv"
	"strings"
	"sync"
	"sync/atomic"
	"time"

	"github.com/anishathalye/porcupine"
	"github.com/blevesearch/bleve/v2"
	index "github.com/blevesearch/bleve_index_api"

	"verifharness/corpus"
	"verifharness/ev"
	"verifharness/mon"
	"verifharness/rng"
)

// Stress part: concurrent writers and readers on a live index (persister,
// merger running, seeded delays at hook points), history recorded at the
// client boundary and judged afterwards.

func init() { ev.RegisterWorker("c04-stress", stressWorker) }

const stressIDs = 5

type stressSpec struct {
	Seed   uint64   `json:"seed"`
	Rounds int      `json:"rounds"`
	First  int      `json:"first"`
	Dir    string   `json:"dir"`
	Out    string   `json:"out"`
	Cfgs   []string `json:"configs"`
}

type stressProblem struct {
	Class  string `json:"class"`
	Detail string `json:"detail"`
	Round  int    `json:"round"`
	Config string `json:"config"`
	Seed   uint64 `json:"seed"`
}

type stressOut struct {
	Rounds        int             `json:"rounds"`
	Reads         int             `json:"reads"`
	ReadsOverlap  int             `json:"reads_overlapping_inflight_batch"`
	ReadsMultiSeg int             `json:"reads_with_2plus_segments"`
	HeldProbes    int             `json:"held_reader_probes"`
	Porcupine     map[string]int  `json:"porcupine"`
	HistOps       int             `json:"history_ops"`
	OverlapRounds int             `json:"overlap_rounds"`
	OverlapChecks int             `json:"overlap_term_checks"`
	Problems      []stressProblem `json:"problems"`
	Nontrivial    []string        `json:"nontrivial_rounds"`
	Sample        any             `json:"sample,omitempty"`
}

var stressConfigs = []string{"scorch-disk", "scorch-disk-merge", "scorch-disk-p3", "scorch-disk-unsafe", "scorch-mem",
	"upsidedown-gtreap", "upsidedown-boltdb", "upsidedown-goleveldb", "upsidedown-moss"}

type histOp struct {
	client int
	write  bool
	w, k   int
	vec    []int
	call   int64
	ret    int64
}

type pcIn struct {
	Write bool
	W, K  int
}

func vecKey(v []int) string {
	parts := make([]string, len(v))
	for i, x := range v {
		parts[i] = strconv.Itoa(x)
	}
	return strings.Join(parts, ",")
}

func porcupineModel(writers int) porcupine.Model {
	return porcupine.Model{
		Init: func() any { return vecKey(make([]int, writers)) },
		Step: func(state, input, output any) (bool, any) {
			in := input.(pcIn)
			st := state.(string)
			if in.Write {
				parts := strings.Split(st, ",")
				if parts[in.W] != strconv.Itoa(in.K-1) {
					return false, st
				}
				parts[in.W] = strconv.Itoa(in.K)
				return true, strings.Join(parts, ",")
			}
			return output.(string) == st, st
		},
		Equal: func(a, b any) bool { return a.(string) == b.(string) },
		DescribeOperation: func(input, output any) string {
			in := input.(pcIn)
			if in.Write {
				return fmt.Sprintf("write(w%d,%d)", in.W, in.K)
			}
			return fmt.Sprintf("read→[%v]", output)
		},
	}
}

// decodeSearch turns one match_all search (Fields ver) into the version vector
// it shows, checking that each writer's visible documents are exactly LWW_w(k_w).
func decodeSearch(seed uint64, writers int, res *bleve.SearchResult) ([]int, string) {
	vers := map[string]float64{}
	for _, h := range res.Hits {
		if _, dup := vers[h.ID]; dup {
			return nil, "duplicate hit " + h.ID
		}
		v, _ := h.Fields["ver"].(float64)
		vers[h.ID] = v
	}
	if int(res.Total) != len(res.Hits) {
		return nil, fmt.Sprintf("Total=%d hits=%d", res.Total, len(res.Hits))
	}
	return decodeVers(seed, writers, vers)
}

func decodeVers(seed uint64, writers int, vers map[string]float64) ([]int, string) {
	vec := make([]int, writers)
	seen := 0
	for w := 0; w < writers; w++ {
		k := int(vers[corpus.MarkerID(w)])
		vec[w] = k
		m := corpus.WriterModel(seed, w, k, stressIDs)
		for id, d := range m.Docs {
			got, ok := vers[id]
			if !ok {
				return nil, fmt.Sprintf("part of a batch: writer %d marker says batch %d but %s (live after batch %d) is not visible; visible %v", w, k, id, k, vers)
			}
			if want, _ := d.Fields["ver"].(float64); got != want {
				return nil, fmt.Sprintf("part of a batch: writer %d marker says batch %d but %s has ver %v (model %v); visible %v", w, k, id, got, want, vers)
			}
			seen++
		}
	}
	if seen != len(vers) {
		return nil, fmt.Sprintf("part of a batch / stale document: vector %v explains %d documents but %d are visible: %v", vec, seen, len(vers), vers)
	}
	return vec, ""
}

// readViaReader takes ONE index reader and reads DocCount, all ids, every
// marker and every seq key through it; all must agree on one vector.
func readViaReader(idx bleve.Index, seed uint64, writers int) ([]int, int, string) {
	adv, err := idx.Advanced()
	if err != nil {
		return nil, 0, "error: " + err.Error()
	}
	rd, err := adv.Reader()
	if err != nil {
		return nil, 0, "error: " + err.Error()
	}
	defer rd.Close()
	return probeReader(rd, seed, writers)
}

func probeReader(rd index.IndexReader, seed uint64, writers int) ([]int, int, string) {
	nseg := 0
	if vs, ok := rd.(interface{ VerifNumSegments() int }); ok {
		nseg = vs.VerifNumSegments()
	}
	n, err := rd.DocCount()
	if err != nil {
		return nil, nseg, "error: " + err.Error()
	}
	vers := map[string]float64{}
	dr, err := rd.DocIDReaderAll()
	if err != nil {
		return nil, nseg, "error: " + err.Error()
	}
	var ids []string
	for {
		iid, err := dr.Next()
		if err != nil {
			dr.Close()
			return nil, nseg, "error: " + err.Error()
		}
		if iid == nil {
			break
		}
		ext, err := rd.ExternalID(iid)
		if err != nil {
			dr.Close()
			return nil, nseg, "error: " + err.Error()
		}
		ids = append(ids, ext)
	}
	dr.Close()
	for _, id := range ids {
		d, err := rd.Document(id)
		if err != nil {
			return nil, nseg, "error: " + err.Error()
		}
		if d == nil {
			return nil, nseg, fmt.Sprintf("reader-internal: id %s enumerated but Document() is nil in the same reader", id)
		}
		var ver float64
		d.VisitFields(func(f index.Field) {
			if f.Name() == "ver" {
				if nf, ok := f.(index.NumericField); ok {
					ver, _ = nf.Number()
				}
			}
		})
		vers[id] = ver
	}
	vec, p := decodeVers(seed, writers, vers)
	if p != "" {
		return nil, nseg, p
	}
	if int(n) != len(ids) {
		return nil, nseg, fmt.Sprintf("reader-internal: DocCount()=%d but the same reader enumerates %d ids (vector %v)", n, len(ids), vec)
	}
	for w := 0; w < writers; w++ {
		v, err := rd.GetInternal([]byte(corpus.SeqKey(w)))
		if err != nil {
			return nil, nseg, "error: " + err.Error()
		}
		k := 0
		if len(v) > 0 {
			k, _ = strconv.Atoi(string(v))
		}
		if k != vec[w] {
			return nil, nseg, fmt.Sprintf("reader-internal: seq key of writer %d is %d but its marker document says %d in the same reader", w, k, vec[w])
		}
	}
	return vec, nseg, ""
}

func runRound(sp stressSpec, round int, out *stressOut) {
	g := rng.New(sp.Seed).Derive(fmt.Sprintf("round-%d", round))
	cfgName := sp.Cfgs[round%len(sp.Cfgs)]
	cfg := corpus.ConfigByName(cfgName)
	seed := g.Uint64()
	writers := g.Range(2, 3)
	batches := g.Range(4, 7)
	problem := func(class, detail string) {
		out.Problems = append(out.Problems, stressProblem{class, detail, round, cfgName, seed})
	}
	d := mon.New()
	d.Install()
	d.Add(mon.Delay(g.Derive("delay"), 1, 3, 400))
	idx, err := cfg.Open(filepath.Join(sp.Dir, fmt.Sprintf("r%d", round)), corpus.Mapping())
	if err != nil {
		problem("setup-error", err.Error())
		return
	}
	if s := mon.ScorchOf(idx); s != nil {
		d.Arm(s)
	}
	var clock atomic.Int64
	submitted := make([]atomic.Int64, writers)
	acked := make([]atomic.Int64, writers)
	var hmu sync.Mutex
	var hist []histOp
	var probs []string
	addProb := func(class, detail string) {
		hmu.Lock()
		probs = append(probs, class+"\x00"+detail)
		hmu.Unlock()
	}
	var wg sync.WaitGroup
	stop := make(chan struct{})
	nReaders := g.Range(2, 4)
	wstreams := make([]*rng.Rand, writers)
	for w := range wstreams {
		wstreams[w] = g.Derive(fmt.Sprintf("w%d", w))
	}
	rstreams := make([]*rng.Rand, nReaders)
	for i := range rstreams {
		rstreams[i] = g.Derive(fmt.Sprintf("r%d", i))
	}
	hgr := g.Derive("held")
	for w := 0; w < writers; w++ {
		wg.Add(1)
		go func(w int) {
			defer wg.Done()
			lg := wstreams[w]
			for k := 1; k <= batches; k++ {
				b := corpus.WriterBatch(seed, w, k, stressIDs)
				submitted[w].Store(int64(k))
				call := clock.Add(1)
				err := corpus.ApplyBatch(idx, b)
				ret := clock.Add(1)
				if err != nil {
					addProb("batch-error", err.Error())
					return
				}
				acked[w].Store(int64(k))
				hmu.Lock()
				hist = append(hist, histOp{client: w, write: true, w: w, k: k, call: call, ret: ret})
				hmu.Unlock()
				if lg.Chance(1, 2) {
					time.Sleep(time.Duration(lg.Intn(300)) * time.Microsecond)
				}
			}
		}(w)
	}
	var overlap, multiSeg, reads atomic.Int64
	var rwg sync.WaitGroup
	for ri := 0; ri < nReaders; ri++ {
		rwg.Add(1)
		go func(ri int) {
			defer rwg.Done()
			lg := rstreams[ri]
			var last []int
			nReads := lg.Range(5, 9)
			for i := 0; i < nReads; i++ {
				select {
				case <-stop:
				default:
				}
				ackBefore := make([]int64, writers)
				for w := range ackBefore {
					ackBefore[w] = acked[w].Load()
				}
				inflight := false
				for w := 0; w < writers; w++ {
					if submitted[w].Load() > acked[w].Load() {
						inflight = true
					}
				}
				call := clock.Add(1)
				var vec []int
				var p string
				nseg := 0
				if ri%2 == 0 {
					req := bleve.NewSearchRequestOptions(bleve.NewMatchAllQuery(), 1000, 0, false)
					req.Fields = []string{"ver"}
					res, err := idx.SearchInContext(context.Background(), req)
					if err != nil {
						p = "error: " + err.Error()
					} else {
						vec, p = decodeSearch(seed, writers, res)
					}
				} else {
					vec, nseg, p = readViaReader(idx, seed, writers)
				}
				ret := clock.Add(1)
				reads.Add(1)
				if inflight {
					overlap.Add(1)
				}
				if nseg >= 2 {
					multiSeg.Add(1)
				}
				if p != "" {
					class := "torn-read"
					if strings.HasPrefix(p, "reader-internal") {
						class = "reader-internal-disagreement"
					} else if strings.HasPrefix(p, "error") {
						class = "read-error"
					}
					addProb(class, fmt.Sprintf("reader %d (%s): %s", ri, map[bool]string{true: "search", false: "index reader"}[ri%2 == 0], p))
					return
				}
				for w := 0; w < writers; w++ {
					if int64(vec[w]) < ackBefore[w] {
						addProb("stale-read", fmt.Sprintf("reader %d saw writer %d at batch %d although batch %d had been acknowledged before the read began", ri, w, vec[w], ackBefore[w]))
					}
					if int64(vec[w]) > submitted[w].Load() {
						addProb("read-from-the-future", fmt.Sprintf("reader %d saw writer %d at batch %d > submitted %d", ri, w, vec[w], submitted[w].Load()))
					}
					if last != nil && vec[w] < last[w] {
						addProb("non-monotonic-reads", fmt.Sprintf("reader %d saw writer %d go from batch %d back to %d", ri, w, last[w], vec[w]))
					}
				}
				last = vec
				hmu.Lock()
				hist = append(hist, histOp{client: 100 + ri, vec: vec, call: call, ret: ret})
				hmu.Unlock()
				time.Sleep(time.Duration(lg.Intn(400)) * time.Microsecond)
			}
		}(ri)
	}
	// held readers: taken at seeded moments, probed again at the end
	type held struct {
		rd    index.IndexReader
		vec   []int
		first string
	}
	var helds []held
	adv, _ := idx.Advanced()
	for i := 0; i < 3; i++ {
		time.Sleep(time.Duration(hgr.Intn(1500)) * time.Microsecond)
		rd, err := adv.Reader()
		if err != nil {
			continue
		}
		vec, _, p := probeReader(rd, seed, writers)
		if p != "" {
			addProb("torn-read", "held reader at creation: "+p)
			rd.Close()
			continue
		}
		helds = append(helds, held{rd: rd, vec: vec, first: vecKey(vec)})
	}
	wg.Wait()
	rwg.Wait()
	close(stop)
	if s := mon.ScorchOf(idx); s != nil && cfg.OnDisk {
		_ = s.ForceMerge(context.Background(), nil)
		_ = corpus.WaitPersisted(idx, cfg)
	}
	for _, h := range helds {
		vec, _, p := probeReader(h.rd, seed, writers)
		out.HeldProbes++
		if p != "" {
			addProb("held-reader-changed", "held reader later: "+p)
		} else if vecKey(vec) != h.first {
			addProb("held-reader-changed", fmt.Sprintf("held reader first answered vector [%s], later [%s]", h.first, vecKey(vec)))
		}
		h.rd.Close()
	}
	// final state
	fvec, _, p := readViaReader(idx, seed, writers)
	if p != "" {
		addProb("torn-read", "final read: "+p)
	} else {
		for w := 0; w < writers; w++ {
			if fvec[w] != batches {
				addProb("lost-batch", fmt.Sprintf("after all writers returned writer %d is at batch %d of %d", w, fvec[w], batches))
			}
		}
	}
	d.Disarm()
	_ = idx.Close()

	for _, pr := range probs {
		parts := strings.SplitN(pr, "\x00", 2)
		problem(parts[0], parts[1])
	}
	out.Reads += int(reads.Load())
	out.ReadsOverlap += int(overlap.Load())
	out.ReadsMultiSeg += int(multiSeg.Load())
	if overlap.Load() > 0 {
		out.Nontrivial = append(out.Nontrivial, fmt.Sprintf("%s/%x", cfgName, seed))
	}
	// porcupine over the recorded history
	var ops []porcupine.Operation
	for _, h := range hist {
		if h.write {
			ops = append(ops, porcupine.Operation{ClientId: h.client, Input: pcIn{Write: true, W: h.w, K: h.k}, Call: h.call, Output: "", Return: h.ret})
		} else {
			ops = append(ops, porcupine.Operation{ClientId: h.client, Input: pcIn{}, Call: h.call, Output: vecKey(h.vec), Return: h.ret})
		}
	}
	out.HistOps += len(ops)
	if len(probs) == 0 {
		resu, _ := porcupine.CheckOperationsVerbose(porcupineModel(writers), ops, 20*time.Second)
		switch resu {
		case porcupine.Ok:
			out.Porcupine["ok"]++
		case porcupine.Unknown:
			out.Porcupine["unknown"]++
		case porcupine.Illegal:
			out.Porcupine["illegal"]++
			sort.Slice(hist, func(i, j int) bool { return hist[i].call < hist[j].call })
			var sb strings.Builder
			for _, h := range hist {
				if h.write {
					fmt.Fprintf(&sb, "[%d,%d] c%d write(w%d,%d); ", h.call, h.ret, h.client, h.w, h.k)
				} else {
					fmt.Fprintf(&sb, "[%d,%d] c%d read→%v; ", h.call, h.ret, h.client, h.vec)
				}
			}
			problem("not-linearizable", sb.String())
		}
	}
	if round == sp.First && len(hist) > 0 {
		n := len(hist)
		if n > 12 {
			n = 12
		}
		var s []string
		for _, h := range hist[:n] {
			if h.write {
				s = append(s, fmt.Sprintf("[%d,%d] write(w%d,%d)", h.call, h.ret, h.w, h.k))
			} else {
				s = append(s, fmt.Sprintf("[%d,%d] read→%v", h.call, h.ret, h.vec))
			}
		}
		out.Sample = map[string]any{"part": "stress", "config": cfgName, "writers": writers, "batches_each": batches, "history_prefix": s}
	}
}

func stressWorker(args []string) {
	var sp stressSpec
	b, err := os.ReadFile(args[0])
	if err == nil {
		err = json.Unmarshal(b, &sp)
	}
	if err != nil {
		fmt.Fprintln(os.Stderr, err)
		os.Exit(4)
	}
	out := &stressOut{Porcupine: map[string]int{}}
	for i := 0; i < sp.Rounds; i++ {
		runRound(sp, sp.First+i, out)
		runOverlapRound(sp, sp.First+i, out)
		out.Rounds++
	}
	ob, _ := json.Marshal(out)
	_ = os.WriteFile(sp.Out, ob, 0o644)
}

func runStress(r *ev.Run, dir string) {
	bin := os.Getenv("VCHECK_RACE")
	raceBuilt := bin != ""
	if bin == "" {
		bin = os.Getenv("VCHECK_PLAIN")
	}
	if bin == "" {
		bin = os.Args[0]
	}
	nChildren := 8
	perChild := r.Scale(4, 120)
	var wg sync.WaitGroup
	var mu sync.Mutex
	total := &stressOut{Porcupine: map[string]int{}}
	races := 0
	for c := 0; c < nChildren; c++ {
		wg.Add(1)
		go func(c int) {
			defer wg.Done()
			base := filepath.Join(dir, fmt.Sprintf("stress%d", c))
			_ = os.MkdirAll(base, 0o755)
			sp := stressSpec{Seed: uint64(r.Seed)*7919 + 13, Rounds: perChild, First: c * perChild, Dir: base, Out: filepath.Join(base, "out.json"), Cfgs: stressConfigs}
			sb, _ := json.Marshal(sp)
			_ = os.WriteFile(filepath.Join(base, "spec.json"), sb, 0o644)
			cmd := exec.Command(bin, "c04-stress", filepath.Join(base, "spec.json"))
			racelog := filepath.Join(base, "race")
			cmd.Env = append(os.Environ(), "GORACE=halt_on_error=0 log_path="+racelog, "GOTRACEBACK=all")
			lf, _ := os.Create(filepath.Join(base, "log"))
			cmd.Stdout, cmd.Stderr = lf, lf
			done := make(chan error, 1)
			if err := cmd.Start(); err != nil {
				r.Violation("stress/setup-error", err.Error(), nil)
				return
			}
			go func() { done <- cmd.Wait() }()
			var err error
			select {
			case err = <-done:
			case <-time.After(childWatchdog(r)):
				_ = cmd.Process.Kill()
				<-done
				r.Inconclusive("stress child watchdog")
				return
			}
			lf.Close()
			var out stressOut
			ob, rerr := os.ReadFile(sp.Out)
			if rerr != nil || json.Unmarshal(ob, &out) != nil {
				lg, _ := os.ReadFile(filepath.Join(base, "log"))
				s := string(lg)
				if len(s) > 6000 {
					s = s[len(s)-6000:]
				}
				r.Violation("stress/child-died", fmt.Sprintf("stress child %d exited (%v) without a result", c, err), map[string]any{"log_tail": s, "spec": sp})
				return
			}
			// race reports
			nr := 0
			var first string
			harnessRaces := 0
			for _, rr := range mon.ParseRaceLogs(racelog) {
				if !rr.InBleve {
					harnessRaces++
					continue
				}
				nr++
				if first == "" {
					first = rr.Text
					if len(first) > 8000 {
						first = first[:8000]
					}
				}
			}
			if harnessRaces > 0 {
				r.Inconclusive(fmt.Sprintf("%d race reports inside the harness itself (monitor bug, not judged)", harnessRaces))
			}
			mu.Lock()
			races += nr
			total.Rounds += out.Rounds
			total.Reads += out.Reads
			total.ReadsOverlap += out.ReadsOverlap
			total.ReadsMultiSeg += out.ReadsMultiSeg
			total.HeldProbes += out.HeldProbes
			total.HistOps += out.HistOps
			total.OverlapRounds += out.OverlapRounds
			total.OverlapChecks += out.OverlapChecks
			for k, v := range out.Porcupine {
				total.Porcupine[k] += v
			}
			if total.Sample == nil && out.Sample != nil {
				total.Sample = out.Sample
			}
			mu.Unlock()
			for _, id := range out.Nontrivial {
				r.Case("stress/"+id, true)
			}
			r.Evals(out.Rounds - len(out.Nontrivial))
			if nr > 0 {
				r.Violation("stress/data-race", fmt.Sprintf("%d race reports in stress child %d", nr, c), map[string]any{"first_report": first})
			}
			for _, p := range out.Problems {
				eng := "scorch"
				if strings.HasPrefix(p.Config, "upsidedown") {
					eng = "upsidedown"
				}
				r.Violation("stress/"+p.Class+"/"+eng, fmt.Sprintf("round %d on %s: %s", p.Round, p.Config, p.Detail), p)
			}
			for i := 0; i < out.Porcupine["unknown"]; i++ {
				r.Inconclusive("porcupine timeout")
			}
		}(c)
	}
	wg.Wait()
	if total.Sample != nil {
		r.Sample(total.Sample)
	}
	r.Extra("stress", map[string]any{
		"race_detector": raceBuilt, "rounds": total.Rounds, "reads": total.Reads, "reads_overlapping_inflight_batch": total.ReadsOverlap,
		"index_reader_reads_with_2plus_segments": total.ReadsMultiSeg, "held_reader_probes": total.HeldProbes,
		"history_ops_checked_by_porcupine": total.HistOps, "overlapping_id_rounds": total.OverlapRounds, "overlapping_id_term_checks": total.OverlapChecks, "porcupine": total.Porcupine, "race_reports": races, "configs": stressConfigs,
	})
}

// runOverlapRound: writers race on the SAME ids (no ownership). Every written
// document carries a unique version v in the fields ver and tag ("v<v>"). After
// the writers finished, whatever order the batches took effect in, each id is
// either absent or shows the version written by some writer's last operation on
// it, DocCount / enumeration / match_all agree, and the term index agrees with
// the stored documents: tag:v<v> finds exactly the id whose visible version is
// v, and no stale version of any id is searchable.
func runOverlapRound(sp stressSpec, round int, out *stressOut) {
	g := rng.New(sp.Seed).Derive(fmt.Sprintf("overlap-%d", round))
	cfgName := sp.Cfgs[(round*5+3)%len(sp.Cfgs)]
	cfg := corpus.ConfigByName(cfgName)
	seed := g.Uint64()
	problem := func(class, detail string) {
		out.Problems = append(out.Problems, stressProblem{class, detail, round, cfgName, seed})
	}
	writers := g.Range(2, 4)
	nIDs := g.Range(1, 5)
	type wop struct {
		id  string
		ver int // 0 = delete
	}
	plans := make([][]corpus.Batch, writers)
	lastOp := make([]map[string]int, writers) // writer → id → ver of its last op on id (0 = delete)
	allVers := map[int]string{}               // ver → id it was written to
	ver := 0
	for w := 0; w < writers; w++ {
		lastOp[w] = map[string]int{}
		nb := g.Range(3, 8)
		for b := 0; b < nb; b++ {
			var ops []corpus.Op
			used := map[string]bool{}
			for k := 0; k < g.Range(1, 3); k++ {
				id := corpus.DocID(g.Intn(nIDs))
				if used[id] {
					continue
				}
				used[id] = true
				if g.Chance(3, 4) {
					ver++
					d := corpus.GenDoc(g, id)
					d.Fields["ver"] = float64(ver)
					d.Fields["tag"] = fmt.Sprintf("v%d", ver)
					ops = append(ops, corpus.Op{Kind: "index", ID: id, Doc: d})
					lastOp[w][id] = ver
					allVers[ver] = id
				} else {
					ops = append(ops, corpus.Op{Kind: "delete", ID: id})
					lastOp[w][id] = 0
				}
			}
			// a single operation is often issued through Index / Delete directly
			plans[w] = append(plans[w], corpus.Batch{Ops: ops, Direct: len(ops) == 1 && g.Chance(2, 3)})
		}
	}
	d := mon.New()
	d.Install()
	d.Add(mon.Delay(g.Derive("delay"), 1, 3, 300))
	idx, err := cfg.Open(filepath.Join(sp.Dir, fmt.Sprintf("o%d", round)), corpus.Mapping())
	if err != nil {
		problem("setup-error", err.Error())
		return
	}
	if s := mon.ScorchOf(idx); s != nil {
		d.Arm(s)
	}
	var wg sync.WaitGroup
	start := make(chan struct{})
	var emu sync.Mutex
	var errs []string
	for w := 0; w < writers; w++ {
		wg.Add(1)
		go func(w int) {
			defer wg.Done()
			<-start
			for _, b := range plans[w] {
				if err := corpus.ApplyBatch(idx, b); err != nil {
					emu.Lock()
					errs = append(errs, err.Error())
					emu.Unlock()
					return
				}
			}
		}(w)
	}
	// a reader looks for duplicates while the writers run
	stop := make(chan struct{})
	var rwg sync.WaitGroup
	rwg.Add(1)
	go func() {
		defer rwg.Done()
		for {
			select {
			case <-stop:
				return
			default:
			}
			res, err := idx.Search(bleve.NewSearchRequestOptions(bleve.NewMatchAllQuery(), 100, 0, false))
			if err != nil {
				emu.Lock()
				errs = append(errs, "search: "+err.Error())
				emu.Unlock()
				return
			}
			seen := map[string]bool{}
			for _, h := range res.Hits {
				if seen[h.ID] {
					emu.Lock()
					errs = append(errs, "DUP:"+h.ID)
					emu.Unlock()
					return
				}
				seen[h.ID] = true
			}
			// one index reader: its DocCount and the ids it enumerates belong to one state
			if adv, err := idx.Advanced(); err == nil {
				if rd, err := adv.Reader(); err == nil {
					n, _ := rd.DocCount()
					cnt := uint64(0)
					if dr, err := rd.DocIDReaderAll(); err == nil {
						for {
							iid, err := dr.Next()
							if err != nil || iid == nil {
								break
							}
							cnt++
						}
						dr.Close()
					}
					rd.Close()
					if n != cnt {
						emu.Lock()
						errs = append(errs, fmt.Sprintf("READER:DocCount()=%d but the same reader enumerates %d documents", n, cnt))
						emu.Unlock()
						return
					}
				}
			}
		}
	}()
	close(start)
	wg.Wait()
	close(stop)
	rwg.Wait()
	out.OverlapRounds++
	defer func() {
		d.Disarm()
		_ = idx.Close()
	}()
	for _, e := range errs {
		if strings.HasPrefix(e, "DUP:") {
			problem("overlap/duplicate-hit", "match_all returned id "+e[4:]+" twice while writers were racing on it")
		} else if strings.HasPrefix(e, "READER:") {
			problem("reader-internal-disagreement", e[7:])
		} else {
			problem("overlap/error", e)
		}
	}
	if len(errs) > 0 {
		return
	}
	// quiescent checks
	res, err := idx.Search(func() *bleve.SearchRequest {
		r := bleve.NewSearchRequestOptions(bleve.NewMatchAllQuery(), 100, 0, false)
		r.Fields = []string{"ver"}
		return r
	}())
	if err != nil {
		problem("overlap/error", err.Error())
		return
	}
	visible := map[string]int{}
	for _, h := range res.Hits {
		if _, dup := visible[h.ID]; dup {
			problem("overlap/duplicate-hit", "match_all returns "+h.ID+" twice after all writers returned")
			return
		}
		v, _ := h.Fields["ver"].(float64)
		visible[h.ID] = int(v)
	}
	n, _ := idx.DocCount()
	if int(n) != len(visible) || int(res.Total) != len(visible) {
		problem("overlap/count-mismatch", fmt.Sprintf("DocCount=%d match_all total=%d distinct ids=%d (%v)", n, res.Total, len(visible), visible))
		return
	}
	for i := 0; i < nIDs; i++ {
		id := corpus.DocID(i)
		cands := map[int]bool{}
		touched := false
		for w := 0; w < writers; w++ {
			if v, ok := lastOp[w][id]; ok {
				cands[v] = true
				touched = true
			}
		}
		v, live := visible[id]
		if !touched {
			if live {
				problem("overlap/ghost", id+" is visible but was never written")
			}
			continue
		}
		got := 0
		if live {
			got = v
		}
		if !cands[got] {
			problem("overlap/state-is-no-serial-outcome", fmt.Sprintf("%s ends at version %d (0 = absent) but the writers' last operations on it wrote %v", id, got, cands))
			return
		}
	}
	// term index vs stored documents
	for v, id := range allVers {
		tq := bleve.NewTermQuery(fmt.Sprintf("v%d", v))
		tq.SetField("tag")
		tr, err := idx.Search(bleve.NewSearchRequestOptions(tq, 10, 0, false))
		if err != nil {
			problem("overlap/error", err.Error())
			return
		}
		out.OverlapChecks++
		wantHit := visible[id] == v
		if wantHit && (tr.Total != 1 || tr.Hits[0].ID != id) {
			problem("overlap/term-index-misses-visible-version", fmt.Sprintf("%s shows version %d but tag:v%d returns %d hits", id, v, v, tr.Total))
			return
		}
		if !wantHit && tr.Total != 0 {
			problem("overlap/stale-version-searchable", fmt.Sprintf("version %d of %s was overwritten or deleted (visible version %d) but tag:v%d still returns %d hit(s)", v, id, visible[id], v, tr.Total))
			return
		}
	}
}

// childWatchdog is the generous wall-clock guard around one stress child; its firing is inconclusive, never a violation.
func childWatchdog(r *ev.Run) time.Duration {
	if r.Thorough() {
		return 90 * time.Minute
	}
	return 20 * time.Minute
}
