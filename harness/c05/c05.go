// Package c05 monitors property C05: for a fixed logical content every request
// returns the same answer whatever the physical segment layout (batch
// partition, memory / disk, background and in-memory merges, forced merge,
// close/reopen, segment format version).
//
// One seeded history is materialised as many layouts; every request of the
// family is sent to every layout and the canonicalised answers must be equal.
package c05

import (
	"context"
	"fmt"
	"os"
	"path/filepath"
	"runtime"
	"strings"
	"sync"
	"sync/atomic"
	"time"

	"github.com/blevesearch/bleve/v2"
	"github.com/blevesearch/bleve/v2/index/scorch"
	"github.com/blevesearch/bleve/v2/index/scorch/mergeplan"

	"verifharness/corpus"
	"verifharness/ev"
	"verifharness/rng"
)

func init() { ev.Register("C05", "exploration", run) }

// ---------------------------------------------------------------------------
// layouts

// layoutSpec says how the logical content is turned into a physical index.
type layoutSpec struct {
	Name     string         `json:"name"`
	Kind     string         `json:"kind"` // name without per-run decoration, used in violation classes
	OnDisk   bool           `json:"on_disk"`
	KV       map[string]any `json:"kvconfig,omitempty"`
	Canon    bool           `json:"canon,omitempty"`     // content = live documents of the replay, one batch
	MaxBatch int            `json:"max_batch,omitempty"` // history partition; 1 = one-op batches
	Jitter   uint64         `json:"jitter,omitempty"`    // ≠0: seeded delays at the pipeline hook points
	Phases   []string       `json:"phases"`              // mem | hot | persisted | forcemerged | forcemerged-tiered | reopened
}

func mergeKV(ms ...map[string]any) map[string]any {
	out := map[string]any{}
	for _, m := range ms {
		for k, v := range m {
			out[k] = v
		}
	}
	return out
}

var unsafeBatch = map[string]any{"unsafe_batch": true}

// lazyMerge keeps the background merger mostly away from small indexes: with
// a floor size of one document the planner's budget is about one segment per
// live document, so the safe batches stay file segments of their own until a
// merge is forced.
func lazyMerge() map[string]any {
	return map[string]any{
		"scorchMergePlanOptions": map[string]any{
			"maxSegmentsPerTier": 200, "segmentsPerMergeTask": 10, "floorSegmentSize": 1, "maxSegmentSize": 5000000,
			"tierGrowth": 10.0, "reclaimDeletesWeight": 2.0,
		},
	}
}

func versionSpec(v int) *layoutSpec {
	return &layoutSpec{Name: fmt.Sprintf("disk-v%d", v), Kind: fmt.Sprintf("disk-v%d", v), OnDisk: true, MaxBatch: 5,
		KV:     mergeKV(lazyMerge(), map[string]any{"forceSegmentType": "zap", "forceSegmentVersion": v}),
		Phases: []string{"persisted", "forcemerged-tiered", "reopened"}}
}

// layoutsFor lists the layouts of history hi. The first one is the reference
// ("canon": only the live documents, one batch, one in-memory segment, nothing
// deleted); the second one ("mem-part") is the simplest layout that holds
// deleted documents and is kept open to attribute differences.
func layoutsFor(hi int, thorough bool) []*layoutSpec {
	ls := []*layoutSpec{
		canonSpec,
		{Name: "mem-part", Kind: "mem-part", MaxBatch: 10, Phases: []string{"mem"}},
		{Name: "mem-1op", Kind: "mem-1op", MaxBatch: 1, Phases: []string{"mem"}},
		{Name: "disk-default", Kind: "disk-default", OnDisk: true, MaxBatch: 8, Phases: []string{"persisted", "reopened"}},
		{Name: "disk-lazy", Kind: "disk-lazy", OnDisk: true, MaxBatch: 6, KV: lazyMerge(),
			Phases: []string{"persisted", "forcemerged-tiered", "forcemerged", "reopened"}},
		{Name: "disk-p3", Kind: "disk-p3", OnDisk: true, MaxBatch: 3,
			KV: mergeKV(corpus.MultiWorkerPersister(), unsafeBatch), Phases: []string{"hot", "persisted", "reopened"}},
		{Name: "disk-merge", Kind: "disk-merge", OnDisk: true, MaxBatch: 5,
			KV: mergeKV(corpus.AggressiveMerge(), unsafeBatch), Phases: []string{"hot", "persisted", "reopened"}},
		{Name: "disk-jitter", Kind: "disk-jitter", OnDisk: true, MaxBatch: 4, Jitter: 1,
			KV: mergeKV(corpus.MultiWorkerPersister(), corpus.AggressiveMerge(), unsafeBatch), Phases: []string{"hot", "persisted"}},
	}
	versions := []int{11, 12, 13, 14, 15, 16}
	if thorough {
		for _, v := range versions {
			ls = append(ls, versionSpec(v))
		}
		ls = append(ls,
			&layoutSpec{Name: "disk-jitter2", Kind: "disk-jitter", OnDisk: true, MaxBatch: 2, Jitter: 2,
				KV: mergeKV(corpus.MultiWorkerPersister(), corpus.AggressiveMerge(), unsafeBatch), Phases: []string{"hot", "persisted", "reopened"}},
			&layoutSpec{Name: "disk-jitter3", Kind: "disk-jitter", OnDisk: true, MaxBatch: 7, Jitter: 3,
				KV: mergeKV(corpus.AggressiveMerge()), Phases: []string{"persisted", "forcemerged"}},
			&layoutSpec{Name: "disk-1op", Kind: "disk-1op", OnDisk: true, MaxBatch: 1,
				KV: mergeKV(unsafeBatch), Phases: []string{"hot", "persisted", "forcemerged", "reopened"}},
		)
	} else {
		a, b := versions[hi%6], versions[(hi/6+hi+3)%6]
		ls = append(ls, versionSpec(a))
		if b != a {
			ls = append(ls, versionSpec(b))
		}
	}
	return ls
}

// ---------------------------------------------------------------------------
// seeded delays at the hook points of the indexing pipeline (schedule diversity)

type jit struct {
	seed uint64
	n    atomic.Uint64
}

var jits sync.Map // *scorch.Scorch → *jit

func fnv64(s string) uint64 {
	h := uint64(14695981039346656037)
	for i := 0; i < len(s); i++ {
		h ^= uint64(s[i])
		h *= 1099511628211
	}
	return h
}

func installHook() {
	f := func(s *scorch.Scorch, point string) {
		v, ok := jits.Load(s)
		if !ok {
			return
		}
		// removeOldZapFiles holds rootLock while it calls these two points
		if strings.HasPrefix(point, "purge.zap.") {
			return
		}
		j := v.(*jit)
		n := j.n.Add(1)
		h := rng.New(j.seed ^ fnv64(point) ^ (n * 0x9e3779b97f4a7c15)).Uint64()
		switch h % 4 {
		case 0:
			time.Sleep(time.Duration((h>>8)%1500) * time.Microsecond)
		case 1:
			runtime.Gosched()
		}
	}
	scorch.VerifHook.Store(&f)
}

func asScorch(idx bleve.Index) *scorch.Scorch {
	adv, err := idx.Advanced()
	if err != nil {
		return nil
	}
	sc, _ := adv.(*scorch.Scorch)
	return sc
}

// ---------------------------------------------------------------------------
// what a layout physically looks like

type fingerprint struct {
	Segs    int      `json:"segs"`
	Deleted uint64   `json:"deleted_docs"`
	Mem     int      `json:"mem_segs"`
	File    int      `json:"file_segs"`
	Full    uint64   `json:"docs_incl_deleted"`
	PerSeg  []string `json:"per_segment,omitempty"` // full/deleted
}

func (f fingerprint) key() string {
	return fmt.Sprintf("%d/%d/%d/%d", f.Segs, f.Deleted, f.Mem, f.File)
}

// differs is the non-triviality predicate of the design: segment count or
// deleted-bit population.
func (f fingerprint) differs(o fingerprint) bool { return f.Segs != o.Segs || f.Deleted != o.Deleted }

func takeFingerprint(idx bleve.Index) (fingerprint, error) {
	var fp fingerprint
	sc := asScorch(idx)
	if sc == nil {
		return fp, fmt.Errorf("not a scorch index")
	}
	rd, err := sc.Reader()
	if err != nil {
		return fp, err
	}
	defer rd.Close()
	snap, ok := rd.(*scorch.IndexSnapshot)
	if !ok {
		return fp, fmt.Errorf("reader is %T", rd)
	}
	fp.Segs = snap.VerifNumSegments()
	for _, ss := range snap.Segments() {
		var del uint64
		if d := ss.Deleted(); d != nil {
			del = d.GetCardinality()
		}
		full := uint64(ss.FullSize())
		fp.Deleted += del
		fp.Full += full
		if _, isFile := ss.Segment().(interface{ Path() string }); isFile {
			fp.File++
		} else {
			fp.Mem++
		}
		if len(fp.PerSeg) < 12 {
			fp.PerSeg = append(fp.PerSeg, fmt.Sprintf("%d/%d", full, del))
		}
	}
	return fp, nil
}

// ---------------------------------------------------------------------------
// building a layout and observing it

type viewObs struct {
	View     string      `json:"view"`
	Spec     *layoutSpec `json:"-"`
	Phase    string      `json:"phase"`
	FPBefore fingerprint `json:"layout_before"`
	FPAfter  fingerprint `json:"layout_after"`
	Res      []*canonRes `json:"-"`
	Str      []string    `json:"-"`
}

type buildError struct {
	what string
	err  string
}

func (b *buildError) Error() string { return b.what + ": " + b.err }

func canonBatch(ops []corpus.Op) corpus.Batch {
	m := corpus.NewLWW()
	m.Apply(corpus.Batch{Ops: ops})
	var b corpus.Batch
	for _, d := range m.LiveDocs() {
		b.Ops = append(b.Ops, corpus.Op{Kind: "index", ID: d.ID, Doc: d})
	}
	return b
}

func ask(idx bleve.Index, q *Req) *canonRes {
	var c *canonRes
	panicked, val, stack := ev.Guard(func() {
		res, err := idx.Search(q.Bleve())
		c = canonicalise(q, res, err)
	})
	if panicked {
		c = &canonRes{Err: fmt.Sprintf("PANIC: %v\n%s", val, stack)}
	}
	return c
}

var tieredForce = mergeplan.MergePlanOptions{
	MaxSegmentsPerTier: 2, MaxSegmentSize: 12, TierGrowth: 2.0, SegmentsPerMergeTask: 3, FloorSegmentSize: 2, ReclaimDeletesWeight: 2.0,
}

// liveLayout is one physical index built from the history.
type liveLayout struct {
	spec      *layoutSpec
	cfg       corpus.Config
	dir       string
	histSeed  uint64
	idx       bleve.Index
	persisted bool
}

func (l *liveLayout) register() {
	if l.spec.Jitter != 0 {
		if sc := asScorch(l.idx); sc != nil {
			jits.Store(sc, &jit{seed: l.histSeed ^ (l.spec.Jitter * 0x2545f4914f6cdd1d)})
		}
	}
}

func (l *liveLayout) unregister() {
	if l.idx != nil {
		if sc := asScorch(l.idx); sc != nil {
			jits.Delete(sc)
		}
	}
}

// watchdog bounds the calls that wait for background work of the index
// (ForceMerge, Close). When it fires the layout is abandoned and the case is
// inconclusive, never a violation.
const watchdog = 60 * time.Second

func within(d time.Duration, f func()) bool {
	done := make(chan struct{})
	go func() { defer close(done); f() }()
	select {
	case <-done:
		return true
	case <-time.After(d):
		return false
	}
}

// abandon gives up an index that stopped responding (it is neither queried
// nor closed any more).
func (l *liveLayout) abandon() {
	l.unregister()
	l.idx = nil
}

func (l *liveLayout) close() {
	if l.idx != nil {
		l.unregister()
		old := l.idx
		l.idx = nil
		if !within(watchdog, func() { _ = old.Close() }) {
			return
		}
	}
	if l.spec.OnDisk {
		_ = os.RemoveAll(l.cfg.Path(l.dir))
	}
}

// openLayout creates the index of the layout and applies the history to it.
func openLayout(dir string, histSeed uint64, spec *layoutSpec, ops []corpus.Op) (*liveLayout, *buildError) {
	l := &liveLayout{spec: spec, dir: dir, histSeed: histSeed,
		cfg: corpus.Config{Name: spec.Name, IndexType: scorch.Name, KV: scorch.Name, OnDisk: spec.OnDisk, KVConfig: spec.KV}}
	var err error
	panicked, val, stack := ev.Guard(func() { l.idx, err = l.cfg.Open(dir, corpus.Mapping()) })
	if panicked {
		return nil, &buildError{"open-panic", fmt.Sprintf("%v\n%s", val, stack)}
	}
	if err != nil {
		return nil, &buildError{"open-error", err.Error()}
	}
	l.register()
	var batches []corpus.Batch
	if spec.Canon {
		if b := canonBatch(ops); len(b.Ops) > 0 {
			batches = []corpus.Batch{b}
		}
	} else {
		pg := rng.New(histSeed).Derive("partition/" + spec.Name)
		batches = corpus.Partition(pg, ops, spec.MaxBatch).Batches
	}
	for bi, b := range batches {
		panicked, val, stack := ev.Guard(func() { err = corpus.ApplyBatch(l.idx, b) })
		if panicked {
			l.close()
			return nil, &buildError{"batch-panic", fmt.Sprintf("batch %d: %v\n%s", bi, val, stack)}
		}
		if err != nil {
			l.close()
			return nil, &buildError{"batch-error", fmt.Sprintf("batch %d: %v", bi, err)}
		}
	}
	return l, nil
}

func (l *liveLayout) waitPersisted() *buildError {
	if l.persisted || !l.spec.OnDisk {
		return nil
	}
	l.persisted = true
	if err := corpus.WaitPersisted(l.idx, l.cfg); err != nil {
		return &buildError{"persist-wait-error", err.Error()}
	}
	return nil
}

// enter performs the transition into a phase.
func (l *liveLayout) enter(phase string) *buildError {
	var err error
	switch phase {
	case "persisted":
		return l.waitPersisted()
	case "forcemerged", "forcemerged-tiered":
		if be := l.waitPersisted(); be != nil {
			return be
		}
		sc := asScorch(l.idx)
		var mo *mergeplan.MergePlanOptions
		if phase == "forcemerged-tiered" {
			o := tieredForce
			mo = &o
		}
		var panicked bool
		var val any
		var stack string
		if !within(watchdog, func() { panicked, val, stack = ev.Guard(func() { err = sc.ForceMerge(context.Background(), mo) }) }) {
			l.abandon()
			return &buildError{"watchdog/forcemerge", fmt.Sprintf("ForceMerge did not return within %v", watchdog)}
		}
		if panicked {
			return &buildError{"forcemerge-panic", fmt.Sprintf("%v\n%s", val, stack)}
		}
		if err != nil {
			return &buildError{"forcemerge-error", err.Error()}
		}
	case "reopened":
		if be := l.waitPersisted(); be != nil {
			return be
		}
		l.unregister()
		old := l.idx
		if !within(watchdog, func() { err = old.Close() }) {
			l.abandon()
			return &buildError{"watchdog/close", fmt.Sprintf("Close did not return within %v", watchdog)}
		}
		l.idx = nil
		if err != nil {
			return &buildError{"close-error", err.Error()}
		}
		panicked, val, stack := ev.Guard(func() { l.idx, err = bleve.OpenUsing(l.cfg.Path(l.dir), map[string]interface{}{}) })
		if panicked {
			l.idx = nil
			return &buildError{"reopen-panic", fmt.Sprintf("%v\n%s", val, stack)}
		}
		if err != nil {
			l.idx = nil
			return &buildError{"reopen-error", err.Error()}
		}
		l.register()
	}
	return nil
}

// answerOf builds the layout from scratch, walks it to the phase and sends one request.
func answerOf(dir string, histSeed uint64, spec *layoutSpec, phase string, ops []corpus.Op, q *Req) (*canonRes, fingerprint, *buildError) {
	l, be := openLayout(dir, histSeed, spec, ops)
	if be != nil {
		return nil, fingerprint{}, be
	}
	defer l.close()
	for _, ph := range spec.Phases {
		if be := l.enter(ph); be != nil {
			return nil, fingerprint{}, be
		}
		if ph == phase {
			break
		}
	}
	c := ask(l.idx, q)
	fp, err := takeFingerprint(l.idx)
	if err != nil {
		return nil, fp, &buildError{"fingerprint-error", err.Error()}
	}
	return c, fp, nil
}

// ---------------------------------------------------------------------------
// the run

type histStats struct {
	mu        sync.Mutex
	fpKeys    map[string]struct{}
	kindSegs  map[string][2]int // min,max segments per view kind
	kindDel   map[string]uint64
	kindViews map[string]int
}

func (h *histStats) add(kind string, fp fingerprint) {
	h.mu.Lock()
	defer h.mu.Unlock()
	h.fpKeys[fp.key()] = struct{}{}
	mm, ok := h.kindSegs[kind]
	if !ok {
		mm = [2]int{fp.Segs, fp.Segs}
	}
	if fp.Segs < mm[0] {
		mm[0] = fp.Segs
	}
	if fp.Segs > mm[1] {
		mm[1] = fp.Segs
	}
	h.kindSegs[kind] = mm
	h.kindDel[kind] += fp.Deleted
	h.kindViews[kind]++
}

type mismatchWitness struct {
	History     int         `json:"history"`
	HistSeed    uint64      `json:"history_seed"`
	Ops         []corpus.Op `json:"ops"`
	Request     *Req        `json:"request"`
	ViewA       string      `json:"view_a"`
	ViewB       string      `json:"view_b"`
	LayoutA     *layoutSpec `json:"layout_a"`
	LayoutB     *layoutSpec `json:"layout_b"`
	FPA         fingerprint `json:"physical_a"`
	FPB         fingerprint `json:"physical_b"`
	Aspect      string      `json:"aspect"`
	Detail      string      `json:"detail"`
	AnswerA     *canonRes   `json:"answer_a"`
	AnswerB     *canonRes   `json:"answer_b"`
	FirstSeenIn string      `json:"first_seen_in_view,omitempty"`
	OrigRequest *Req        `json:"original_request,omitempty"`
	ReqShrunk   bool        `json:"request_shrunk"`
	OpsShrunk   string      `json:"history_shrunk"`
}

var (
	deepMu    sync.Mutex
	deepSeen  = map[string]bool{}
	deepCount int
)

const maxDeepShrinks = 12

var canonSpec = &layoutSpec{Name: "canon", Kind: "canon", Canon: true, Phases: []string{"mem"}}

func run(r *ev.Run) {
	r.Rule = "history = 40–240 seeded ops (index/delete/internal) over 5–40 ids, logical content = last-write-wins replay; it is materialised as layouts: " +
		"canon (live docs, one in-memory batch = reference), random partitions in memory, one-op batches in memory, disk with default options (safe batches) then Close/Open, " +
		"disk with a lazy merge plan (one file segment per safe batch) then ForceMerge with a tiered plan, ForceMerge to one segment, Close/Open; 3 persister workers (unsafe batches); aggressive merge plan; " +
		"aggressive merge + 3 workers under seeded delays at the pipeline hook points; forced segment versions 11–16 (lazy plan, tiered ForceMerge, Close/Open). Views = layout@phase (mem | hot = right after the last unsafe batch | persisted | forcemerged-tiered | forcemerged | reopened). " +
		"request = query (corpus.QGen trees and leaves, order-sensitive scored compounds: should under conjunction, must-not under disjunction, nested booleans) × sort (score, id, field asc/desc, missing first/last, min/max, several keys, with and without _id) × paging × Fields[*] × locations × highlight × facets (terms/numeric/date), explain off, tf-idf. " +
		"case = (history, request, view) compared with the reference view; non-trivial = the view's layout differs from the reference in segment count or deleted-doc population (before and after the requests were sent) and the reference answer has ≥ 2 hits; distinct by (history, request, view)"
	r.Assumptions = []string{
		"layouts are compared with each other, not with an external scorer: equality of canonicalised answers is the oracle; the reference layout holds only live documents, so statistics that leak deleted documents show up as a difference",
		"Took, Cost, Status, the request echo and hit.Index (the index name = its path) are not part of an answer",
		"without _id in the sort only the sequence of sort keys and the id set of each tie group are compared; such requests ask for all matches, pages are only requested under a total order",
		"all layouts are scorch; upsidedown is not a segment layout and is out of this property",
		"schedule diversity comes from seeded delays at the verif hook points (not from the gate scheduler of DESIGN §4.4)",
		"ForceMerge and Close are bounded by a 60 s watchdog; when it fires the layout is abandoned and counted as inconclusive, never as a violation",
		"on a tree with defects at most 150 differing answers per run are shrunk and classified (the rest is counted), and the history of at most 12 classes is shrunk by rebuilding the layouts",
		"minimal witnesses of F11 and of the three defects this monitor found (L1 deleted terms, L2 fuzzy distance per segment version, L3 heap summation order) are replayed on every run",
	}
	installHook()
	if r.ReplayPath != "" {
		replay(r, r.ReplayPath)
		return
	}
	nHist := r.Scale(120, 320)
	nReq := r.Scale(36, 60)
	r.MinDistinct = r.Scale(18000, 150000)
	dir := r.TempDir()
	stats := &histStats{fpKeys: map[string]struct{}{}, kindSegs: map[string][2]int{}, kindDel: map[string]uint64{}, kindViews: map[string]int{}}

	regress(r, dir)

	var wg sync.WaitGroup
	sem := make(chan struct{}, 16)
	for hi := 0; hi < nHist; hi++ {
		wg.Add(1)
		sem <- struct{}{}
		go func(hi int) {
			defer wg.Done()
			defer func() { <-sem }()
			runHistory(r, stats, filepath.Join(dir, fmt.Sprintf("h%d", hi)), hi, nReq)
		}(hi)
	}
	wg.Wait()

	r.Extra("distinct_layout_fingerprints(segs/deleted/mem/file)", len(stats.fpKeys))
	segs := map[string]string{}
	for k, mm := range stats.kindSegs {
		segs[k] = fmt.Sprintf("views=%d segments=%d..%d deleted_docs_total=%d", stats.kindViews[k], mm[0], mm[1], stats.kindDel[k])
	}
	r.Extra("views", segs)
}

type history struct {
	r        *ev.Run
	hi       int
	dir      string
	histSeed uint64
	ops      []corpus.Op
	canon    *liveLayout
	memPart  *liveLayout // random partition in memory (holds deleted documents), kept open to tell layout-generic defects from layout-specific ones
	refFP    fingerprint
}

func runHistory(r *ev.Run, stats *histStats, dir string, hi, nReq int) {
	defer os.RemoveAll(dir)
	g := r.Rng(fmt.Sprintf("hist-%d", hi))
	h := &history{r: r, hi: hi, dir: dir, histSeed: g.Uint64()}
	nIDs := g.Range(5, 40)
	nOps := g.Range(40, 240)
	if !r.Thorough() {
		nOps = g.Range(40, 160)
	}
	h.ops = corpus.GenOps(g, nOps, nIDs)
	var ids []string
	for i := 0; i < nIDs+2; i++ {
		ids = append(ids, corpus.DocID(i))
	}
	qg := &corpus.QGen{G: g.Derive("queries"), IDs: ids}
	rg := g.Derive("requests")
	reqs := make([]*Req, nReq)
	for i := range reqs {
		reqs[i] = genReq(rg, qg, nIDs)
	}
	r.Journal(map[string]any{"history": hi, "seed": h.histSeed, "ops": len(h.ops)})
	buildFailed := func(spec *layoutSpec, phase string, be *buildError) {
		if strings.HasPrefix(be.what, "watchdog/") {
			r.Inconclusive(fmt.Sprintf("%s (layout %s)", be.what, spec.Kind))
			return
		}
		r.Violation(be.what+"/"+spec.Kind, fmt.Sprintf("history %d layout %s phase %q: %s", hi, spec.Name, phase, be.Error()),
			map[string]any{"history": hi, "history_seed": h.histSeed, "layout": spec, "phase": phase, "ops": h.ops, "error": be.Error()})
	}

	specs := layoutsFor(hi, r.Thorough())
	var be *buildError
	if h.canon, be = openLayout(dir, h.histSeed, specs[0], h.ops); be != nil {
		buildFailed(specs[0], "", be)
		r.Inconclusive("reference layout could not be built")
		return
	}
	defer h.canon.close()
	var err error
	if h.refFP, err = takeFingerprint(h.canon.idx); err != nil {
		r.Inconclusive("reference layout fingerprint: " + err.Error())
		return
	}
	ref := make([]*canonRes, len(reqs))
	refStr := make([]string, len(reqs))
	for qi, q := range reqs {
		ref[qi] = ask(h.canon.idx, q)
		refStr[qi] = ref[qi].String()
		if ref[qi].Err != "" {
			r.Count("requests_answered_with_error_by_reference", 1)
		}
		if !q.totalOrder() {
			r.Count("requests_compared_by_tie_groups", 1)
		}
		if ref[qi].NHits >= 2 {
			r.Count("requests_with_2+_hits", 1)
		}
	}
	live := len(canonBatch(h.ops).Ops)
	r.Count("histories", 1)
	r.Count("ops", len(h.ops))
	r.Count("live_docs", live)
	r.Count("searches", len(reqs))
	stats.add("canon@mem", h.refFP)

	var sampleViews []map[string]any
	for _, spec := range specs[1:] {
		l, be := openLayout(dir, h.histSeed, spec, h.ops)
		if be != nil {
			buildFailed(spec, "", be)
			continue
		}
		if spec.Name == "mem-part" {
			h.memPart = l
			defer l.close()
		}
		for _, ph := range spec.Phases {
			if be := l.enter(ph); be != nil {
				buildFailed(spec, ph, be)
				break
			}
			view := spec.Name + "@" + ph
			fpBefore, err := takeFingerprint(l.idx)
			if err != nil {
				buildFailed(spec, ph, &buildError{"fingerprint-error", err.Error()})
				break
			}
			for qi, q := range reqs {
				c := ask(l.idx, q)
				if s := c.String(); s != refStr[qi] {
					h.mismatch(q, qi, l, ph, ref[qi], c)
				}
			}
			fpAfter, err := takeFingerprint(l.idx)
			if err != nil {
				buildFailed(spec, ph, &buildError{"fingerprint-error", err.Error()})
				break
			}
			differs := fpBefore.differs(h.refFP) && fpAfter.differs(h.refFP)
			for qi := range reqs {
				r.Case(fmt.Sprintf("h%d/r%d/%s", hi, qi, view), differs && ref[qi].NHits >= 2)
			}
			stats.add(spec.Kind+"@"+ph, fpAfter)
			r.Count("views", 1)
			r.Count("searches", len(reqs))
			if fpAfter.Mem > 0 && fpAfter.File > 0 {
				r.Count("views_with_memory_and_file_segments", 1)
			}
			if fpBefore.key() != fpAfter.key() {
				r.Count("views_whose_layout_changed_while_queried", 1)
			}
			if !differs {
				r.Count("views_with_the_reference_shape(trivial)", 1)
			}
			if strings.HasPrefix(ph, "forcemerged") && fpAfter.Segs == 1 {
				r.Count("forcemerged_to_one_segment", 1)
			}
			sampleViews = append(sampleViews, map[string]any{"view": view, "layout": fpAfter})
		}
		if l != h.memPart {
			l.close()
		}
	}
	if hi < 2 {
		r.Sample(map[string]any{"history": hi, "ops": len(h.ops), "live_docs": live, "request_0": reqs[0], "reference_answer_hits": ref[0].NHits,
			"reference_total": ref[0].Total, "reference_layout": h.refFP, "views": sampleViews})
	}
}

func kindAt(spec *layoutSpec, phase string) string { return spec.Kind + "@" + phase }

// leaves lists the leaf queries of a tree.
func leaves(q *corpus.Q, into []*corpus.Q) []*corpus.Q {
	kids := q.Children()
	if len(kids) == 0 {
		return append(into, q)
	}
	for _, k := range kids {
		into = leaves(k, into)
	}
	return into
}

const (
	maxClassified = 150 // mismatches shrunk and classified per run; the rest is only counted
	liveBudget    = 250 // candidate requests tried per mismatch on the open indexes
)

var classified atomic.Int64

// mismatch handles one request that layout l (in phase ph) answers differently
// from the reference: the request is shrunk on the two open indexes, the
// difference is attributed to the simplest layout that shows it, and the first
// witness of each class is shrunk further by rebuilding both layouts from
// smaller histories.
func (h *history) mismatch(q *Req, qi int, l *liveLayout, ph string, refAns, got *canonRes) {
	r := h.r
	r.Count("mismatching_answers", 1)
	if classified.Add(1) > maxClassified {
		r.Count("mismatching_answers_beyond_the_classification_budget(counted_only)", 1)
		return
	}
	w := &mismatchWitness{History: h.hi, HistSeed: h.histSeed, Ops: h.ops, Request: q, OrigRequest: q,
		ViewA: "canon@mem", ViewB: l.spec.Name + "@" + ph, LayoutA: canonSpec, LayoutB: l.spec, FPA: h.refFP,
		AnswerA: refAns, AnswerB: got}
	w.FirstSeenIn = w.ViewB
	w.Aspect, w.Detail = aspect(refAns, got)
	w.FPB, _ = takeFingerprint(l.idx)

	b := l
	n := 0
	differs := func(c *Req) bool {
		n++
		ca, cb := ask(h.canon.idx, c), ask(b.idx, c)
		if ca.String() == cb.String() {
			return false
		}
		w.Request, w.AnswerA, w.AnswerB = c, ca, cb
		w.Aspect, w.Detail = aspect(ca, cb)
		w.ReqShrunk = true
		return true
	}
	shrinkLive := func() {
		// fast path: one leaf of the query alone, plain request
		for _, lf := range leaves(w.Request.Q, nil) {
			if len(w.Request.Q.Children()) == 0 {
				break
			}
			c := lf.Clone()
			c.Boost = 0
			if differs(&Req{Q: c, Size: 60, Sort: []SortKey{{Field: "_id"}}}) {
				break
			}
		}
		for again := true; again && n < liveBudget; {
			again = false
			for _, c := range reduceReq(w.Request) {
				if differs(c) {
					again = true
					break
				}
				if n >= liveBudget {
					break
				}
			}
		}
	}
	shrinkLive()
	// does the simplest layout that holds deleted documents show the same difference?
	if h.memPart != nil && h.memPart.idx != nil && l != h.memPart {
		ca, cb := ask(h.canon.idx, w.Request), ask(h.memPart.idx, w.Request)
		if ca.String() != cb.String() {
			b = h.memPart
			w.ViewB, w.LayoutB = "mem-part@mem", h.memPart.spec
			w.AnswerA, w.AnswerB = ca, cb
			w.Aspect, w.Detail = aspect(ca, cb)
			w.FPB, _ = takeFingerprint(b.idx)
			n = 0
			shrinkLive()
		}
	}
	if w.OrigRequest.String() == w.Request.String() {
		w.OrigRequest = nil
	}
	class := classOf(w)
	deepMu.Lock()
	deep := !deepSeen[class] && deepCount < maxDeepShrinks
	if deep {
		deepSeen[class] = true
		deepCount++
	}
	deepMu.Unlock()
	if deep {
		shrinkHistory(r, h.dir+"-shrink", w)
		class = classOf(w)
		deepMu.Lock()
		deepSeen[class] = true
		deepMu.Unlock()
	} else {
		w.OpsShrunk = "no (the first witness of this class was shrunk, or the rebuild budget of the run is used up)"
	}
	r.Violation(class, fmt.Sprintf("history %d request %d: %s answers differently from %s (first seen in %s): %s", h.hi, qi, w.ViewB, w.ViewA, w.FirstSeenIn, w.Detail), w)
}

// classOf derives the narrow class from the shrunk witness: what differs, the
// kind of the layout that disagrees with the reference, and the shape of the
// shrunk query. (The phase in which it was seen is part of the witness.)
func classOf(w *mismatchWitness) string {
	return fmt.Sprintf("%s/%s-vs-%s/%s", w.Aspect, w.LayoutA.Kind, w.LayoutB.Kind, shape(w.Request.Q))
}
