package main

import (
	_ "verifharness/c05"
	"verifharness/ev"
)

func main() { ev.Main() }
