package c05

import (
	"fmt"
	"strings"

	"verifharness/corpus"
	"verifharness/ev"
)

// Minimal witnesses of defects this monitor has seen are replayed on every
// run, so that each one is reported again (with its own narrow class) if it
// returns.
//
//	F11  BooleanSearcher.Advance moved a should cursor that already sat at or
//	     beyond the target: the same document scored differently depending on
//	     the insertion order (fixed in /repo, commit 2a1ec34).
//	L1   terms that only deleted documents hold stay in the segment
//	     dictionaries until a merge; multi-term queries (numeric/date/term
//	     range, prefix, wildcard, regexp, fuzzy) turned them into clauses that
//	     count in the query norm and the coord factor, so live documents scored
//	     differently before and after the deleted ones were merged away.
//	L2   the fuzzy edit-distance boost was taken from the dictionary entry,
//	     which only zap ≥ v16 segments fill in: fuzzy scores depended on the
//	     segment format version.
//	L3   a disjunction of more than 10 clauses (heap implementation) summed the
//	     clause scores in heap order, which depends on the physical document
//	     order: scores differed in the last bits.
func regress(r *ev.Run, dir string) {
	dir = dir + "/regress"
	regressF11(r, dir)
	regressDeadTerms(r, dir)
	regressFuzzyVersion(r, dir)
	regressSumOrder(r, dir)
}

func doc(id string, kv ...any) *corpus.Doc {
	d := &corpus.Doc{ID: id, Fields: map[string]any{}}
	for i := 0; i+1 < len(kv); i += 2 {
		d.Fields[kv[i].(string)] = kv[i+1]
	}
	return d
}

func idx(d *corpus.Doc) corpus.Op { return corpus.Op{Kind: "index", ID: d.ID, Doc: d} }
func del(id string) corpus.Op     { return corpus.Op{Kind: "delete", ID: id} }

func term(field, w string) *corpus.Q { return &corpus.Q{Kind: "term", Field: field, Text: w} }

func boolQ(must, should, mustNot []*corpus.Q) *corpus.Q {
	return &corpus.Q{Kind: "bool", Must: must, Should: should, MustNot: mustNot}
}

func qs(q ...*corpus.Q) []*corpus.Q { return q }

func plainReq(q *corpus.Q) *Req {
	return &Req{Q: q, Size: 60, Sort: []SortKey{{Field: "_score", Desc: true}, {Field: "_id"}}, Fields: true, Loc: true}
}

// batchesLayout applies explicit batches to an in-memory index (bypassing the
// seeded partition) and answers the requests.
func answersOfBatches(dir string, spec *layoutSpec, batches []corpus.Batch, phase string, reqs []*Req) ([]*canonRes, fingerprint, error) {
	l, be := openLayout(dir, 0, spec, nil)
	if be != nil {
		return nil, fingerprint{}, be
	}
	defer l.close()
	for _, b := range batches {
		if err := corpus.ApplyBatch(l.idx, b); err != nil {
			return nil, fingerprint{}, err
		}
	}
	for _, ph := range spec.Phases {
		if be := l.enter(ph); be != nil {
			return nil, fingerprint{}, be
		}
		if ph == phase {
			break
		}
	}
	fp, err := takeFingerprint(l.idx)
	if err != nil {
		return nil, fp, err
	}
	var out []*canonRes
	for _, q := range reqs {
		out = append(out, ask(l.idx, q))
	}
	return out, fp, nil
}

var memSpec = &layoutSpec{Name: "regress-mem", Kind: "mem", Phases: []string{"mem"}}

// compareBatches checks that two explicit batch sequences with the same
// logical content answer the requests identically.
func compareBatches(r *ev.Run, dir, name, classTail, what string, specA *layoutSpec, a []corpus.Batch, specB *layoutSpec, phaseB string, b []corpus.Batch, reqs []*Req) {
	ra, fpa, err := answersOfBatches(dir, specA, a, "mem", reqs)
	if err != nil {
		r.Violation("regress-setup-error", name+": "+err.Error(), nil)
		return
	}
	rb, fpb, err := answersOfBatches(dir, specB, b, phaseB, reqs)
	if err != nil {
		r.Violation("regress-setup-error", name+": "+err.Error(), nil)
		return
	}
	for qi, q := range reqs {
		r.Case(fmt.Sprintf("regress-%s/q%d", name, qi), fpb.differs(fpa) && ra[qi].NHits >= 2)
		r.Count("regression_witness_comparisons", 1)
		if ra[qi].String() == rb[qi].String() {
			continue
		}
		asp, detail := aspect(ra[qi], rb[qi])
		r.Violation(fmt.Sprintf("%s/%s/%s", asp, classTail, shape(q.Q)),
			fmt.Sprintf("%s: %s: %s", name, what, detail),
			map[string]any{"regression_of": name, "batches_a": a, "batches_b": b, "layout_a": specA, "layout_b": specB, "physical_a": fpa, "physical_b": fpb,
				"request": q, "aspect": asp, "detail": detail, "answer_a": ra[qi], "answer_b": rb[qi]})
	}
}

func perms(n int) [][]int {
	var out [][]int
	var rec func(cur []int, used uint)
	rec = func(cur []int, used uint) {
		if len(cur) == n {
			out = append(out, append([]int(nil), cur...))
			return
		}
		for i := 0; i < n; i++ {
			if used&(1<<uint(i)) == 0 {
				rec(append(cur, i), used|1<<uint(i))
			}
		}
	}
	rec(nil, 0)
	return out
}

// comparePermutations inserts the documents one per segment in every order
// (all n! orders for n ≤ 5, else the given ones) and compares with the
// single-batch layout.
func comparePermutations(r *ev.Run, dir, name, classTail string, docs []*corpus.Doc, orders [][]int, reqs []*Req) {
	var one corpus.Batch
	for _, d := range docs {
		one.Ops = append(one.Ops, idx(d))
	}
	ref, refFP, err := answersOfBatches(dir, memSpec, []corpus.Batch{one}, "mem", reqs)
	if err != nil {
		r.Violation("regress-setup-error", name+": "+err.Error(), nil)
		return
	}
	for _, p := range orders {
		var bs []corpus.Batch
		var order []string
		for _, i := range p {
			bs = append(bs, corpus.Batch{Ops: []corpus.Op{idx(docs[i])}, Direct: true})
			order = append(order, docs[i].ID)
		}
		got, fp, err := answersOfBatches(dir, memSpec, bs, "mem", reqs)
		if err != nil {
			r.Violation("regress-setup-error", name+": "+err.Error(), nil)
			return
		}
		for qi, q := range reqs {
			r.Case(fmt.Sprintf("regress-%s/%v/q%d", name, p, qi), fp.differs(refFP) && ref[qi].NHits >= 2)
			r.Count("regression_witness_comparisons", 1)
			if got[qi].String() == ref[qi].String() {
				continue
			}
			asp, detail := aspect(ref[qi], got[qi])
			r.Violation(fmt.Sprintf("%s/%s/%s", asp, classTail, shape(q.Q)),
				fmt.Sprintf("%s: documents inserted one per segment in the order [%s] answer %s differently from the same documents in one batch: %s",
					name, strings.Join(order, " "), q.Q.String(), detail),
				map[string]any{"regression_of": name, "documents": docs, "insertion_order": order, "request": q, "aspect": asp, "detail": detail,
					"answer_one_batch": ref[qi], "answer_this_order": got[qi]})
		}
	}
}

// F11: x | x x | a | a x y | y with conj[a, bool{must x, should y}].
func regressF11(r *ev.Run, dir string) {
	const x, y, a = "beta", "gamma", "alpha"
	docs := []*corpus.Doc{doc("w1", "body", x), doc("w2", "body", x+" "+x), doc("w3", "body", a), doc("w4", "body", a+" "+x+" "+y), doc("w5", "body", y)}
	t := func(w string) *corpus.Q { return term("body", w) }
	queries := []*corpus.Q{
		{Kind: "conj", Kids: qs(t(a), boolQ(qs(t(x)), qs(t(y)), nil))}, // the witness
		{Kind: "conj", Kids: qs(t(y), boolQ(qs(t(x)), qs(t(a)), nil))},
		{Kind: "conj", Kids: qs(boolQ(qs(t(x)), qs(t(y)), nil), t(a))},
		boolQ(qs(t(a)), qs(boolQ(qs(t(x)), qs(t(y)), nil)), nil),
		{Kind: "disj", Kids: qs(t(a), boolQ(qs(t(x)), qs(t(y)), qs(t(a))))},
		{Kind: "conj", Kids: qs(t(x), boolQ(qs(t(x)), qs(t(y), t(a)), nil))},
	}
	var reqs []*Req
	for _, q := range queries {
		reqs = append(reqs, plainReq(q))
	}
	comparePermutations(r, dir, "F11", "insertion-order", docs, perms(len(docs)), reqs)
}

// L1: a term that only a deleted document holds must not change the score of
// the live documents.
func regressDeadTerms(r *ev.Run, dir string) {
	live := []*corpus.Doc{
		doc("k1", "num", 5.0, "body", "delt kappa", "title", "alpha", "tag", "blue", "date", "2020-01-05T00:00:00Z"),
		doc("k2", "num", 4.0, "body", "delt", "title", "alpha beta", "tag", "blu", "date", "2020-01-06T00:00:00Z"),
	}
	dead := doc("k0", "num", 3.0, "body", "delta delts", "notv", "delta", "tag", "blues", "date", "2020-01-04T00:00:00Z")
	a := []corpus.Batch{{Ops: []corpus.Op{idx(live[0]), idx(live[1])}}}
	b := []corpus.Batch{{Ops: []corpus.Op{idx(dead), idx(live[0])}}, {Ops: []corpus.Op{idx(live[1])}}, {Ops: []corpus.Op{del("k0")}}}
	f := func(v float64) *float64 { return &v }
	queries := []*corpus.Q{
		{Kind: "numrange", Field: "num", Min: f(-1.5), Max: f(6)},
		{Kind: "daterange", Field: "date", Start: "2020-01-01T00:00:00Z", End: "2020-01-20T00:00:00Z"},
		{Kind: "prefix", Field: "body", Text: "de"},
		{Kind: "wildcard", Field: "body", Text: "de*"},
		{Kind: "regexp", Field: "body", Text: "del.*"},
		{Kind: "fuzzy", Field: "body", Text: "delt", Fuzz: 1},
		{Kind: "match", Field: "body", Text: "delt", Fuzz: 1},
		{Kind: "termrange", Field: "tag", MinS: "bl", MaxS: "bm"},
		// all candidate terms dead: same as no candidate (prefix and fuzzy then search the literal term)
		{Kind: "disj", Kids: qs(&corpus.Q{Kind: "prefix", Field: "notv", Text: "de"}, term("title", "alpha"))},
		{Kind: "disj", Kids: qs(&corpus.Q{Kind: "fuzzy", Field: "notv", Text: "delts", Fuzz: 1}, term("title", "alpha"))},
		{Kind: "disj", Kids: qs(&corpus.Q{Kind: "regexp", Field: "notv", Text: "del.*"}, term("title", "alpha"))},
	}
	var reqs []*Req
	for _, q := range queries {
		reqs = append(reqs, plainReq(q))
	}
	compareBatches(r, dir, "L1", "deleted-doc-in-segment",
		"live documents k1,k2 score differently while the deleted document k0 still sits in its segment", memSpec, a, memSpec, "mem", b, reqs)
}

// L2: fuzzy scores must not depend on the segment format version.
func regressFuzzyVersion(r *ev.Run, dir string) {
	docs := []*corpus.Doc{doc("z1", "body", "beta"), doc("z2", "body", "betas"), doc("z3", "body", "bet alps"), doc("z4", "body", "betas beta")}
	var one corpus.Batch
	for _, d := range docs {
		one.Ops = append(one.Ops, idx(d))
	}
	reqs := []*Req{
		plainReq(&corpus.Q{Kind: "fuzzy", Field: "body", Text: "betas", Fuzz: 2}),
		plainReq(&corpus.Q{Kind: "fuzzy", Field: "body", Text: "beta", Fuzz: 1, PLen: 2}),
		plainReq(&corpus.Q{Kind: "match", Field: "body", Text: "betas alps", Fuzz: 1}),
	}
	for _, v := range []int{11, 15, 16} {
		spec := versionSpec(v)
		spec.Name = fmt.Sprintf("regress-v%d", v)
		compareBatches(r, dir, fmt.Sprintf("L2-v%d", v), fmt.Sprintf("segment-version-%d", v),
			fmt.Sprintf("one batch persisted as zap v%d answers differently from the same batch in memory (default version)", v),
			memSpec, []corpus.Batch{one}, spec, "persisted", []corpus.Batch{one}, reqs)
	}
}

// L3: a disjunction of more than 10 clauses must score a document the same
// whatever the insertion order.
func regressSumOrder(r *ev.Run, dir string) {
	docs := []*corpus.Doc{
		doc("s1", "title", "alpha alps beta bet", "body", "gamma gama delta delt kappa zeta betas alpah"),
		doc("s2", "title", "alpha beta gamma", "body", "alps bet gama delt zeta"),
		doc("s3", "title", "alps bet betas", "body", "alpha alpha beta gamma delta kappa"),
		doc("s4", "title", "zeta kappa delt delta gama gamma", "body", "alpah betas bet beta alps alpha"),
	}
	var kids, kids2 []*corpus.Q
	for _, w := range corpus.Words {
		kids = append(kids, term("body", w))
		kids2 = append(kids2, term("title", w), term("body", w))
	}
	reqs := []*Req{
		plainReq(&corpus.Q{Kind: "disj", Kids: kids}),
		plainReq(&corpus.Q{Kind: "disj", Kids: kids2}),
		plainReq(&corpus.Q{Kind: "wildcard", Field: "body", Text: "?*"}),
		plainReq(&corpus.Q{Kind: "regexp", Field: "title", Text: ".*"}),
	}
	comparePermutations(r, dir, "L3", "insertion-order", docs, perms(len(docs)), reqs)
}
