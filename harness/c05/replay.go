package c05

import (
	"encoding/json"
	"fmt"
	"os"
	"verifharness/corpus"
	"verifharness/ev"
)

// replay re-executes a witness file written by an earlier run
// (./check C05 quick --replay evidence/replay/C05-….json): both layouts are
// rebuilt from the recorded history, the recorded request is sent, and when
// the answers differ again the witness is shrunk and reported.
func replay(r *ev.Run, path string) {
	b, err := os.ReadFile(path)
	if err != nil {
		r.Inconclusive("replay: " + err.Error())
		return
	}
	var doc struct {
		Class   string          `json:"class"`
		Witness mismatchWitness `json:"witness"`
	}
	if err := json.Unmarshal(b, &doc); err != nil || doc.Witness.Request == nil || doc.Witness.LayoutA == nil || doc.Witness.LayoutB == nil {
		r.Inconclusive(fmt.Sprintf("replay: %s is not a layout-mismatch witness (%v)", path, err))
		return
	}
	w := &doc.Witness
	dir := r.TempDir()
	a, fpa, e1 := answerOf(dir, w.HistSeed, w.LayoutA, phaseOf(w.ViewA), w.Ops, w.Request)
	c, fpb, e2 := answerOf(dir, w.HistSeed, w.LayoutB, phaseOf(w.ViewB), w.Ops, w.Request)
	r.Case("replay/"+path, true)
	if e1 != nil || e2 != nil {
		r.Inconclusive(fmt.Sprintf("replay: layouts could not be rebuilt: %v %v", e1, e2))
		return
	}
	fmt.Printf("replay %s\n  recorded class %s\n  %s: %+v\n  %s: %+v\n", path, doc.Class, w.ViewA, fpa, w.ViewB, fpb)
	if a.String() == c.String() {
		fmt.Println("  the two layouts answer identically now")
		return
	}
	if os.Getenv("C05_EXPLAIN") != "" {
		for _, side := range []struct {
			view string
			spec *layoutSpec
		}{{w.ViewA, w.LayoutA}, {w.ViewB, w.LayoutB}} {
			fmt.Printf("  ---- explanation from %s\n%s\n", side.view, explain(dir, w.HistSeed, side.spec, phaseOf(side.view), w.Ops, w.Request))
		}
	}
	w.AnswerA, w.AnswerB, w.FPA, w.FPB = a, c, fpa, fpb
	w.Aspect, w.Detail = aspect(a, c)
	shrinkHistory(r, dir+"/shrink", w)
	out, _ := json.MarshalIndent(map[string]any{"ops": w.Ops, "request": w.Request, "detail": w.Detail, "physical_a": w.FPA, "physical_b": w.FPB, "history_shrunk": w.OpsShrunk}, "  ", " ")
	fmt.Printf("  still differs: %s\n  %s\n", w.Detail, out)
	r.Violation(classOf(w), fmt.Sprintf("replay of %s: %s answers differently from %s: %s", path, w.ViewB, w.ViewA, w.Detail), w)
}

// explain rebuilds a layout and returns the score explanations of the hits
// (diagnostic aid for replays; explanations are never compared).
func explain(dir string, histSeed uint64, spec *layoutSpec, phase string, ops []corpus.Op, q *Req) string {
	l, be := openLayout(dir, histSeed, spec, ops)
	if be != nil {
		return be.Error()
	}
	defer l.close()
	for _, ph := range spec.Phases {
		if be := l.enter(ph); be != nil {
			return be.Error()
		}
		if ph == phase {
			break
		}
	}
	req := q.Bleve()
	req.Explain = true
	res, err := l.idx.Search(req)
	if err != nil {
		return err.Error()
	}
	out := ""
	for _, h := range res.Hits {
		b, _ := json.MarshalIndent(h.Expl, "  ", " ")
		out += fmt.Sprintf("  %s %v %s\n", h.ID, h.Score, b)
	}
	return out
}
