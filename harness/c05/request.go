package c05

import (
	"encoding/json"
	"fmt"
	"math"
	"sort"
	"strings"
	"time"

	"github.com/blevesearch/bleve/v2"
	"github.com/blevesearch/bleve/v2/search"

	"verifharness/corpus"
	"verifharness/rng"
)

// ---------------------------------------------------------------------------
// request family

// SortKey is one key of a sort specification. Field "_id" / "_score" are the
// document id and the score; anything else is a field name.
type SortKey struct {
	Field   string `json:"field"`
	Desc    bool   `json:"desc,omitempty"`
	Missing string `json:"missing,omitempty"` // "" (last) | first
	Mode    string `json:"mode,omitempty"`    // "" (default) | min | max
}

// Req is one search request of the family (explain off, tf-idf scoring).
type Req struct {
	Q         *corpus.Q `json:"query"`
	Size      int       `json:"size"`
	From      int       `json:"from,omitempty"`
	Sort      []SortKey `json:"sort,omitempty"` // empty = default (score desc)
	Fields    bool      `json:"fields_star,omitempty"`
	Loc       bool      `json:"include_locations,omitempty"`
	HL        string    `json:"highlight_style,omitempty"` // "" = none | html | ansi
	HLFields  []string  `json:"highlight_fields,omitempty"`
	Facets    []string  `json:"facets,omitempty"` // tag | num | date
	ScoreNone bool      `json:"score_none,omitempty"`
}

func (q *Req) String() string {
	b, _ := json.Marshal(q)
	return string(b)
}

func (q *Req) Clone() *Req {
	var c Req
	b, _ := json.Marshal(q)
	_ = json.Unmarshal(b, &c)
	return &c
}

// totalOrder says whether the sort specification orders any two distinct
// documents strictly (it contains the document id as a key).
func (q *Req) totalOrder() bool {
	for _, k := range q.Sort {
		if k.Field == "_id" {
			return true
		}
	}
	return false
}

func (q *Req) sortsByScore() bool {
	if len(q.Sort) == 0 {
		return true
	}
	for _, k := range q.Sort {
		if k.Field == "_score" {
			return true
		}
	}
	return false
}

var facetBase = time.Date(2020, 1, 1, 0, 0, 0, 0, time.UTC)

// Bleve builds a fresh real request (sort objects carry state, so never share).
func (q *Req) Bleve() *bleve.SearchRequest {
	req := bleve.NewSearchRequestOptions(q.Q.Bleve(), q.Size, q.From, false)
	if len(q.Sort) > 0 {
		var so search.SortOrder
		for _, k := range q.Sort {
			switch k.Field {
			case "_id":
				so = append(so, &search.SortDocID{Desc: k.Desc})
			case "_score":
				so = append(so, &search.SortScore{Desc: k.Desc})
			default:
				sf := &search.SortField{Field: k.Field, Desc: k.Desc}
				if k.Missing == "first" {
					sf.Missing = search.SortFieldMissingFirst
				}
				switch k.Mode {
				case "min":
					sf.Mode = search.SortFieldMin
				case "max":
					sf.Mode = search.SortFieldMax
				}
				so = append(so, sf)
			}
		}
		req.SortByCustom(so)
	}
	if q.Fields {
		req.Fields = []string{"*"}
	}
	req.IncludeLocations = q.Loc
	if q.HL != "" {
		req.Highlight = bleve.NewHighlightWithStyle(q.HL)
		for _, f := range q.HLFields {
			req.Highlight.AddField(f)
		}
	}
	for _, f := range q.Facets {
		switch f {
		case "tag":
			req.AddFacet("tags", bleve.NewFacetRequest("tag", 4))
		case "num":
			fr := bleve.NewFacetRequest("num", 5)
			lo, mid, hi := 0.0, 7.5, 15.0
			fr.AddNumericRange("neg", nil, &lo)
			fr.AddNumericRange("low", &lo, &mid)
			fr.AddNumericRange("mid", &mid, &hi)
			fr.AddNumericRange("high", &hi, nil)
			req.AddFacet("nums", fr)
		case "date":
			fr := bleve.NewFacetRequest("date", 5)
			a, b := facetBase.Add(10*24*time.Hour), facetBase.Add(25*24*time.Hour)
			fr.AddDateTimeRange("early", time.Time{}, a)
			fr.AddDateTimeRange("middle", a, b)
			fr.AddDateTimeRange("late", b, time.Time{})
			req.AddFacet("dates", fr)
		}
	}
	if q.ScoreNone {
		req.Score = "none"
	}
	return req
}

// ---------------------------------------------------------------------------
// generator

var scoredFields = []string{"title", "body", "body", "notv"}

// scoredLeaf is a leaf whose score depends on corpus statistics.
func scoredLeaf(g *rng.Rand, qg *corpus.QGen) *corpus.Q {
	switch x := g.Intn(10); {
	case x < 7:
		return &corpus.Q{Kind: "term", Field: rng.Pick(g, scoredFields), Text: rng.Pick(g, corpus.Words)}
	case x < 9:
		return &corpus.Q{Kind: "match", Field: rng.Pick(g, []string{"title", "body", "notv"}), Text: corpus.GenSentence(g, 2)}
	}
	for {
		if q := qg.Leaf(); q.Kind != "none" {
			return q
		}
	}
}

// orderSensitive builds scored compound shapes whose evaluation path (Next vs
// Advance on the inner cursors) depends on the physical document order:
// optional should under a conjunction, must-not under a disjunction, nested
// booleans (DESIGN §5 C05, defect F11).
func orderSensitive(g *rng.Rand, qg *corpus.QGen) *corpus.Q {
	t := func() *corpus.Q { return scoredLeaf(g, qg) }
	ts := func(lo, hi int) []*corpus.Q {
		n := g.Range(lo, hi)
		out := make([]*corpus.Q, n)
		for i := range out {
			out[i] = t()
		}
		return out
	}
	bl := func(must, should, mustNot []*corpus.Q, min int) *corpus.Q {
		return &corpus.Q{Kind: "bool", Must: must, Should: should, MustNot: mustNot, ShouldMin: min}
	}
	var q *corpus.Q
	switch g.Intn(8) {
	case 0: // the F11 shape
		q = &corpus.Q{Kind: "conj", Kids: []*corpus.Q{t(), bl(ts(1, 1), ts(1, 1), nil, 0)}}
	case 1:
		sh := ts(1, 3)
		q = &corpus.Q{Kind: "conj", Kids: []*corpus.Q{t(), bl(ts(1, 2), sh, nil, g.Intn(2))}}
	case 2:
		q = &corpus.Q{Kind: "disj", Kids: []*corpus.Q{t(), bl(ts(1, 1), nil, ts(1, 1), 0)}, DisjMin: g.Intn(2)}
	case 3:
		q = bl([]*corpus.Q{bl(ts(1, 1), ts(1, 2), nil, 0)}, []*corpus.Q{{Kind: "conj", Kids: ts(2, 2)}}, ts(0, 1), 0)
	case 4:
		q = &corpus.Q{Kind: "conj", Kids: []*corpus.Q{
			{Kind: "disj", Kids: ts(2, 3), DisjMin: g.Intn(2)},
			bl(nil, ts(2, 3), ts(1, 1), 1)}}
	case 5:
		q = bl(ts(1, 1), []*corpus.Q{bl(ts(1, 1), ts(1, 2), nil, 0)}, nil, 0)
	case 6:
		q = &corpus.Q{Kind: "conj", Kids: []*corpus.Q{
			bl(ts(1, 1), []*corpus.Q{{Kind: "matchphrase", Field: rng.Pick(g, []string{"title", "body"}), Text: corpus.GenSentence(g, 2)}}, nil, 0), t()}}
	default:
		q = &corpus.Q{Kind: "disj", Kids: []*corpus.Q{
			{Kind: "conj", Kids: []*corpus.Q{t(), bl(ts(1, 1), ts(1, 2), ts(0, 1), 0)}},
			bl(ts(1, 2), ts(1, 1), nil, 0)}, DisjMin: 0}
	}
	if len(q.MustNot) == 0 {
		q.MustNot = nil
	}
	if g.Chance(1, 6) {
		q.Boost = float64(g.Range(2, 4))
	}
	return q
}

var sortFields = []string{"num", "date", "tag", "title", "flag", "body", "num", "tag"}

func genSortKey(g *rng.Rand) SortKey {
	k := SortKey{Field: rng.Pick(g, sortFields), Desc: g.Bool()}
	if g.Bool() {
		k.Missing = "first"
	}
	switch g.Intn(4) {
	case 0:
		k.Mode = "min"
	case 1:
		k.Mode = "max"
	}
	return k
}

// genReq draws one request. nDocs bounds the number of documents that can
// match, so Size = nDocs+10 returns every match.
func genReq(g *rng.Rand, qg *corpus.QGen, nDocs int) *Req {
	r := &Req{}
	switch x := g.Intn(100); {
	case x < 45:
		r.Q = qg.Tree(3)
	case x < 78:
		r.Q = orderSensitive(g, qg)
	default:
		r.Q = qg.Leaf()
	}
	id := SortKey{Field: "_id", Desc: g.Chance(1, 4)}
	switch x := g.Intn(100); {
	case x < 22:
		r.Sort = []SortKey{{Field: "_score", Desc: true}, id}
	case x < 32:
		r.Sort = nil // default: score desc, ties in natural order
	case x < 38:
		r.Sort = []SortKey{{Field: "_score", Desc: false}, id}
	case x < 44:
		r.Sort = []SortKey{id}
	case x < 68:
		r.Sort = []SortKey{genSortKey(g), id}
	case x < 80:
		r.Sort = []SortKey{genSortKey(g)}
		if g.Bool() {
			r.Sort = append(r.Sort, genSortKey(g))
		}
	case x < 92:
		r.Sort = []SortKey{genSortKey(g), {Field: "_score", Desc: g.Bool()}, genSortKey(g), id}
	default:
		r.Sort = []SortKey{genSortKey(g), {Field: "_score", Desc: true}}
	}
	r.Size = nDocs + 10
	if r.totalOrder() && g.Bool() {
		// pages (across the 10/11 slice↔heap switch of the collector) are only
		// well defined under a total order
		r.Size = rng.Pick(g, []int{1, 3, 5, 10, 11, 25})
		r.From = rng.Pick(g, []int{0, 0, 1, 2, 7})
	}
	r.Fields = g.Chance(6, 10)
	r.Loc = g.Bool()
	if g.Chance(35, 100) {
		r.HL = rng.Pick(g, []string{"html", "ansi"})
		switch g.Intn(3) {
		case 0:
			r.HLFields = []string{"title"}
		case 1:
			r.HLFields = []string{"title", "body"}
		}
	}
	if g.Bool() {
		for _, f := range []string{"tag", "num", "date"} {
			if g.Chance(6, 10) {
				r.Facets = append(r.Facets, f)
			}
		}
	}
	r.ScoreNone = g.Chance(1, 12)
	return r
}

// ---------------------------------------------------------------------------
// canonical form of an answer

type canonHit struct {
	ID     string   `json:"id"`
	Score  string   `json:"score"` // math.Float64bits in hex, then the readable value
	Sort   []string `json:"sort"`
	DSort  []string `json:"dsort,omitempty"`
	Fields string   `json:"fields,omitempty"`
	Locs   string   `json:"locs,omitempty"`
	Frags  string   `json:"frags,omitempty"`
}

func (h canonHit) scoreValue() float64 {
	var b uint64
	_, _ = fmt.Sscanf(h.Score, "%016x", &b)
	return math.Float64frombits(b)
}

type canonRes struct {
	Err      string       `json:"err,omitempty"`
	Total    uint64       `json:"total"`
	MaxScore string       `json:"max_score"`
	Groups   [][]canonHit `json:"groups"` // tie groups in result order; singletons under a total order
	Facets   string       `json:"facets,omitempty"`
	NHits    int          `json:"nhits"`
}

func bits(f float64) string {
	return fmt.Sprintf("%016x(%v)", math.Float64bits(f), f)
}

type canonLoc struct {
	Pos   uint64   `json:"p"`
	Start uint64   `json:"s"`
	End   uint64   `json:"e"`
	AP    []uint64 `json:"a,omitempty"`
}

func canonLocations(m search.FieldTermLocationMap) string {
	if len(m) == 0 {
		return ""
	}
	out := map[string]map[string][]canonLoc{}
	for f, tlm := range m {
		out[f] = map[string][]canonLoc{}
		for term, locs := range tlm {
			for _, l := range locs {
				out[f][term] = append(out[f][term], canonLoc{l.Pos, l.Start, l.End, []uint64(l.ArrayPositions)})
			}
		}
	}
	b, _ := json.Marshal(out) // map keys are written sorted; the sequence of locations is kept
	return string(b)
}

func mustJSON(v any) string {
	b, err := json.Marshal(v)
	if err != nil {
		return "json-error: " + err.Error()
	}
	return string(b)
}

// canonicalise keeps everything the property speaks about and drops Took,
// Cost, Status, the request echo and the index name. Under a total order the
// hit sequence is kept as is; otherwise consecutive hits with equal sort keys
// form a tie group that is compared as a set.
func canonicalise(q *Req, res *bleve.SearchResult, err error) *canonRes {
	if err != nil {
		return &canonRes{Err: err.Error()}
	}
	c := &canonRes{Total: res.Total, MaxScore: bits(res.MaxScore), NHits: len(res.Hits)}
	if len(res.Facets) > 0 {
		c.Facets = mustJSON(res.Facets)
	}
	total := q.totalOrder()
	byScore := q.sortsByScore()
	lastKey := ""
	for i, h := range res.Hits {
		ch := canonHit{ID: h.ID, Score: bits(h.Score), Sort: append([]string(nil), h.Sort...), DSort: append([]string(nil), h.DecodedSort...)}
		if len(h.Fields) > 0 {
			ch.Fields = mustJSON(h.Fields)
		}
		ch.Locs = canonLocations(h.Locations)
		if len(h.Fragments) > 0 {
			ch.Frags = mustJSON(h.Fragments)
		}
		key := strings.Join(h.Sort, "\x00")
		if byScore {
			key += "\x00" + ch.Score
		}
		if total || i == 0 || key != lastKey {
			c.Groups = append(c.Groups, nil)
		}
		lastKey = key
		c.Groups[len(c.Groups)-1] = append(c.Groups[len(c.Groups)-1], ch)
	}
	for _, grp := range c.Groups {
		sort.Slice(grp, func(i, j int) bool { return grp[i].ID < grp[j].ID })
	}
	return c
}

func (c *canonRes) String() string { return mustJSON(c) }

func (c *canonRes) flat() []canonHit {
	var out []canonHit
	for _, g := range c.Groups {
		out = append(out, g...)
	}
	return out
}

// aspect names the first component in which two answers differ.
func aspect(a, b *canonRes) (string, string) {
	if a.Err != b.Err {
		return "error", fmt.Sprintf("err %q vs %q", a.Err, b.Err)
	}
	if a.Total != b.Total {
		return "total", fmt.Sprintf("Total %d vs %d", a.Total, b.Total)
	}
	fa, fb := a.flat(), b.flat()
	ids := func(hs []canonHit) []string {
		var out []string
		for _, h := range hs {
			out = append(out, h.ID)
		}
		return out
	}
	ia, ib := ids(fa), ids(fb)
	sa, sb := append([]string(nil), ia...), append([]string(nil), ib...)
	sort.Strings(sa)
	sort.Strings(sb)
	if strings.Join(sa, ",") != strings.Join(sb, ",") {
		return "hit-ids", fmt.Sprintf("ids %v vs %v", ia, ib)
	}
	byID := map[string]canonHit{}
	for _, h := range fb {
		byID[h.ID] = h
	}
	// per-document attributes first (they explain an order difference)
	for _, h := range fa {
		o := byID[h.ID]
		if h.Score != o.Score {
			// a difference in the last bits only points at the order of a
			// floating point summation, not at different statistics
			name := "score"
			if x, y := h.scoreValue(), o.scoreValue(); x != 0 && y != 0 && math.Abs(x-y) <= 1e-13*math.Max(math.Abs(x), math.Abs(y)) {
				name = "score-last-bits"
			}
			return name, fmt.Sprintf("%s scores %s vs %s", h.ID, h.Score, o.Score)
		}
	}
	for _, h := range fa {
		o := byID[h.ID]
		if strings.Join(h.Sort, "\x00") != strings.Join(o.Sort, "\x00") || strings.Join(h.DSort, "\x00") != strings.Join(o.DSort, "\x00") {
			return "sort-keys", fmt.Sprintf("%s sort keys %q/%q vs %q/%q", h.ID, h.Sort, h.DSort, o.Sort, o.DSort)
		}
	}
	if a.MaxScore != b.MaxScore {
		return "max-score", fmt.Sprintf("MaxScore %s vs %s", a.MaxScore, b.MaxScore)
	}
	ga := func(c *canonRes) string {
		var sb strings.Builder
		for _, g := range c.Groups {
			sb.WriteString("[" + strings.Join(ids(g), ",") + "]")
		}
		return sb.String()
	}
	if ga(a) != ga(b) {
		return "order", fmt.Sprintf("order %s vs %s", ga(a), ga(b))
	}
	for _, h := range fa {
		o := byID[h.ID]
		if h.Fields != o.Fields {
			return "stored-fields", fmt.Sprintf("%s fields %s vs %s", h.ID, h.Fields, o.Fields)
		}
	}
	for _, h := range fa {
		o := byID[h.ID]
		if h.Locs != o.Locs {
			return "locations", fmt.Sprintf("%s locations %s vs %s", h.ID, h.Locs, o.Locs)
		}
	}
	for _, h := range fa {
		o := byID[h.ID]
		if h.Frags != o.Frags {
			return "fragments", fmt.Sprintf("%s fragments %s vs %s", h.ID, h.Frags, o.Frags)
		}
	}
	if a.Facets != b.Facets {
		return "facets", fmt.Sprintf("facets %s vs %s", a.Facets, b.Facets)
	}
	return "other", "canonical forms differ"
}

// shape prints the kinds of a query tree, e.g. conj[term,bool{must[term],should[term]}].
func shape(q *corpus.Q) string {
	list := func(qs []*corpus.Q) string {
		var parts []string
		for _, k := range qs {
			parts = append(parts, shape(k))
		}
		return strings.Join(parts, ",")
	}
	switch q.Kind {
	case "conj", "disj":
		s := q.Kind + "[" + list(q.Kids) + "]"
		if q.Kind == "disj" && q.DisjMin > 1 {
			s += fmt.Sprintf("min%d", q.DisjMin)
		}
		return s
	case "bool":
		var parts []string
		if len(q.Must) > 0 {
			parts = append(parts, "must["+list(q.Must)+"]")
		}
		if len(q.Should) > 0 {
			s := "should[" + list(q.Should) + "]"
			if q.ShouldMin > 0 {
				s += fmt.Sprintf("min%d", q.ShouldMin)
			}
			parts = append(parts, s)
		}
		if len(q.MustNot) > 0 {
			parts = append(parts, "must_not["+list(q.MustNot)+"]")
		}
		if q.Filter != nil {
			parts = append(parts, "filter["+shape(q.Filter)+"]")
		}
		return "bool{" + strings.Join(parts, ",") + "}"
	}
	return q.Kind
}
