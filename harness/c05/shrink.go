package c05

import (
	"fmt"
	"os"
	"sort"

	"verifharness/corpus"
	"verifharness/ev"
)

// reduceQ returns the one-step reductions of a query tree: hoist a child,
// drop a child, drop the boost, reduce a child in place.
func reduceQ(q *corpus.Q) []*corpus.Q {
	var out []*corpus.Q
	for _, c := range q.Children() {
		out = append(out, c.Clone())
	}
	if q.Boost != 0 {
		c := q.Clone()
		c.Boost = 0
		out = append(out, c)
	}
	type slot struct {
		get func(*corpus.Q) []*corpus.Q
		set func(*corpus.Q, []*corpus.Q)
	}
	slots := []slot{
		{func(x *corpus.Q) []*corpus.Q { return x.Kids }, func(x *corpus.Q, v []*corpus.Q) { x.Kids = v }},
		{func(x *corpus.Q) []*corpus.Q { return x.Must }, func(x *corpus.Q, v []*corpus.Q) { x.Must = v }},
		{func(x *corpus.Q) []*corpus.Q { return x.Should }, func(x *corpus.Q, v []*corpus.Q) { x.Should = v }},
		{func(x *corpus.Q) []*corpus.Q { return x.MustNot }, func(x *corpus.Q, v []*corpus.Q) { x.MustNot = v }},
	}
	valid := func(x *corpus.Q) bool {
		switch x.Kind {
		case "conj", "disj":
			if len(x.Kids) == 0 {
				return false
			}
			if x.DisjMin > len(x.Kids) {
				x.DisjMin = len(x.Kids)
			}
		case "bool":
			if len(x.Must) == 0 && len(x.Should) == 0 && len(x.MustNot) == 0 && x.Filter == nil {
				return false
			}
			if x.ShouldMin > len(x.Should) {
				x.ShouldMin = len(x.Should)
			}
		}
		return true
	}
	for _, s := range slots {
		kids := s.get(q)
		for i := range kids {
			// drop child i
			c := q.Clone()
			ck := s.get(c)
			s.set(c, append(append([]*corpus.Q(nil), ck[:i]...), ck[i+1:]...))
			if len(s.get(c)) == 0 {
				s.set(c, nil)
			}
			if valid(c) {
				out = append(out, c)
			}
			// reduce child i in place
			for _, rc := range reduceQ(kids[i]) {
				c := q.Clone()
				s.get(c)[i] = rc
				out = append(out, c)
			}
		}
	}
	if q.Filter != nil {
		c := q.Clone()
		c.Filter = nil
		if valid(c) {
			out = append(out, c)
		}
		for _, rc := range reduceQ(q.Filter) {
			c := q.Clone()
			c.Filter = rc
			out = append(out, c)
		}
	}
	if q.Kind == "disj" && q.DisjMin > 0 {
		c := q.Clone()
		c.DisjMin = 0
		out = append(out, c)
	}
	if q.Kind == "bool" && q.ShouldMin > 0 {
		c := q.Clone()
		c.ShouldMin = 0
		out = append(out, c)
	}
	if q.Kind == "match" && (q.Fuzz != 0 || q.PLen != 0) {
		c := q.Clone()
		c.Fuzz, c.PLen = 0, 0
		out = append(out, c)
	}
	return out
}

func reduceReq(q *Req) []*Req {
	var out []*Req
	mod := func(f func(*Req)) {
		c := q.Clone()
		f(c)
		if c.String() != q.String() {
			out = append(out, c)
		}
	}
	mod(func(c *Req) { c.Facets = nil })
	for i := range q.Facets {
		i := i
		mod(func(c *Req) { c.Facets = append(append([]string(nil), c.Facets[:i]...), c.Facets[i+1:]...) })
	}
	mod(func(c *Req) { c.HL, c.HLFields = "", nil })
	mod(func(c *Req) { c.HLFields = nil })
	mod(func(c *Req) { c.Fields = false })
	mod(func(c *Req) { c.Loc = false })
	mod(func(c *Req) { c.ScoreNone = false })
	mod(func(c *Req) { c.From, c.Size = 0, 60 })
	mod(func(c *Req) { c.Sort = []SortKey{{Field: "_id"}} })
	mod(func(c *Req) { c.Sort = []SortKey{{Field: "_score", Desc: true}, {Field: "_id"}} })
	if !q.totalOrder() {
		mod(func(c *Req) { c.Sort = nil })
	}
	if len(q.Sort) > 1 {
		for i := range q.Sort {
			if q.Sort[i].Field == "_id" {
				continue // dropping the id would change what is compared
			}
			i := i
			mod(func(c *Req) { c.Sort = append(append([]SortKey(nil), c.Sort[:i]...), c.Sort[i+1:]...) })
		}
	}
	for i := range q.Sort {
		i := i
		mod(func(c *Req) { c.Sort[i].Missing, c.Sort[i].Mode = "", "" })
		mod(func(c *Req) { c.Sort[i].Desc = false })
	}
	for _, rq := range reduceQ(q.Q) {
		c := q.Clone()
		c.Q = rq
		out = append(out, c)
	}
	return out
}

// reduceDoc returns one-step reductions of a document (drop a field, keep one
// array element).
func reduceDoc(d *corpus.Doc) []*corpus.Doc {
	var out []*corpus.Doc
	var names []string
	for f := range d.Fields {
		names = append(names, f)
	}
	sort.Strings(names)
	for _, f := range names {
		c := d.Clone()
		delete(c.Fields, f)
		out = append(out, c)
		if arr, ok := d.Fields[f].([]any); ok && len(arr) > 1 {
			for i := range arr {
				c := d.Clone()
				c.Fields[f] = arr[i]
				out = append(out, c)
			}
		}
	}
	return out
}

func phaseOf(view string) string {
	for i := len(view) - 1; i >= 0; i-- {
		if view[i] == '@' {
			return view[i+1:]
		}
	}
	return ""
}

// shrinkHistory minimises the history and the documents (and once more the
// request) while the two layouts keep answering differently. Every candidate
// is judged by rebuilding both layouts from scratch and walking them to their
// phases.
func shrinkHistory(r *ev.Run, dir string, w *mismatchWitness) {
	defer os.RemoveAll(dir)
	budget := 260
	attempts := 0
	type outcome struct {
		differ   bool
		a, b     *canonRes
		fpa, fpb fingerprint
	}
	try := func(ops []corpus.Op, q *Req) outcome {
		attempts++
		r.Count("shrink_rebuilds", 1)
		a, fpa, e1 := answerOf(dir, w.HistSeed, w.LayoutA, phaseOf(w.ViewA), ops, q)
		b, fpb, e2 := answerOf(dir, w.HistSeed, w.LayoutB, phaseOf(w.ViewB), ops, q)
		if e1 != nil || e2 != nil {
			return outcome{}
		}
		return outcome{a.String() != b.String(), a, b, fpa, fpb}
	}
	accept := func(ops []corpus.Op, q *Req, o outcome) {
		w.Ops, w.Request = ops, q
		w.AnswerA, w.AnswerB = o.a, o.b
		w.FPA, w.FPB = o.fpa, o.fpb
		w.Aspect, w.Detail = aspect(o.a, o.b)
	}
	repro := 0
	const confirm = 3
	for i := 0; i < confirm; i++ {
		if o := try(w.Ops, w.Request); o.differ {
			repro++
			accept(w.Ops, w.Request, o)
		}
	}
	if repro == 0 {
		w.OpsShrunk = fmt.Sprintf("no: the difference did not show again in %d rebuilds of both layouts from the same input (it depends on timing)", confirm)
		return
	}
	// candidates are tried twice when the original was not reproduced every
	// time (layouts that depend on timing)
	check := func(ops []corpus.Op, q *Req) (outcome, bool) {
		o := try(ops, q)
		if !o.differ && repro < confirm && attempts < budget {
			o = try(ops, q)
		}
		return o, o.differ
	}
	for changed := true; changed && attempts < budget; {
		changed = false
		// 1. history: remove chunks of operations
		for n := (len(w.Ops) + 1) / 2; n >= 1 && attempts < budget; {
			removed := false
			for start := 0; start+n <= len(w.Ops) && attempts < budget; {
				cand := append(append([]corpus.Op(nil), w.Ops[:start]...), w.Ops[start+n:]...)
				if o, ok := check(cand, w.Request); ok {
					accept(cand, w.Request, o)
					removed, changed = true, true
				} else {
					start += n
				}
			}
			if !removed || n > len(w.Ops) {
				n /= 2
			}
		}
		// 2. request and query tree (smaller histories allow smaller requests)
		for again := true; again && attempts < budget; {
			again = false
			for _, c := range reduceReq(w.Request) {
				if attempts >= budget {
					break
				}
				if o, ok := check(w.Ops, c); ok {
					accept(w.Ops, c, o)
					again, changed = true, true
					break
				}
			}
		}
		// 3. documents
		for i := 0; i < len(w.Ops) && attempts < budget; i++ {
			if w.Ops[i].Kind != "index" {
				continue
			}
			for again := true; again && attempts < budget; {
				again = false
				for _, d := range reduceDoc(w.Ops[i].Doc) {
					cand := append([]corpus.Op(nil), w.Ops...)
					cand[i].Doc = d
					if o, ok := check(cand, w.Request); ok {
						accept(cand, w.Request, o)
						again, changed = true, true
						break
					}
					if attempts >= budget {
						break
					}
				}
			}
		}
	}
	w.OpsShrunk = fmt.Sprintf("yes (%d rebuilds; the original input showed the difference in %d of %d rebuilds)", attempts, repro, confirm)
}
