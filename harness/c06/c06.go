// Package c06 monitors property C06: hits are the requested slice of the fully sorted match list.
package c06

import (
	"fmt"
	"os"
	"runtime"
	"sync"
	"time"

	"verifharness/ev"
)

func init() { ev.Register("C06", "exploration", run) }

type monitor struct {
	r        *ev.Run
	mu       sync.Mutex
	reported map[string]bool
	samplesA int
	shrinksA int
	shrinksE int
}

// mayShrink bounds the shrinking effort of a run that fails in very many classes (a grossly broken
// tree): the first 30 collector-level and 6 end-to-end classes are shrunk, later ones are reported as found.
func (m *monitor) mayShrink(e2e bool) bool {
	m.mu.Lock()
	defer m.mu.Unlock()
	if e2e {
		m.shrinksE++
		return m.shrinksE <= 6
	}
	m.shrinksA++
	return m.shrinksA <= 30
}

// takeSampleA lets workload A fill at most 3 of the 5 evidence samples.
func (m *monitor) takeSampleA() bool {
	m.mu.Lock()
	defer m.mu.Unlock()
	m.samplesA++
	return m.samplesA <= 3
}

// firstOfClass is true for the first failure of a class: only that one is shrunk.
func (m *monitor) firstOfClass(class string) bool {
	m.mu.Lock()
	defer m.mu.Unlock()
	if m.reported == nil {
		m.reported = map[string]bool{}
	}
	if m.reported[class] {
		return false
	}
	m.reported[class] = true
	return true
}

func parallel(n int, f func(i int)) {
	workers := runtime.NumCPU()
	if workers > 16 {
		workers = 16
	}
	if workers < 1 {
		workers = 1
	}
	var wg sync.WaitGroup
	ch := make(chan int, workers)
	for w := 0; w < workers; w++ {
		wg.Add(1)
		go func() {
			defer wg.Done()
			for i := range ch {
				f(i)
			}
		}()
	}
	for i := 0; i < n; i++ {
		ch <- i
	}
	close(ch)
	wg.Wait()
}

func run(r *ev.Run) {
	m := &monitor{r: r}
	r.Rule = "Workload A: one case = (synthetic match stream fed to the real TopNCollector through a stub searcher/reader, " +
		"sort spec of 1-4 keys, Size, From) or a SearchAfter / reversed-sort SearchBefore run anchored at a real hit; " +
		"Workload B: one case = (engine, corpus history, query, sort spec, page size) tiling, or a SearchAfter/SearchBefore chain " +
		"over Index.Search. Expected = own stable sort of all matches (ties by arrival order) then slice. " +
		"Non-trivial: at a page boundary the two neighbouring matches are equal on the first sort key (later keys or the " +
		"arrival order decide who is on the page), or size+from is within 9..12 / 999..1002 with more matches than that " +
		"(slice/heap switch, preallocation cap, eviction active). Distinct = distinct (spec, size, from, stream/corpus) key."
	r.Assumptions = []string{
		"searchers yield matches in ascending internal id (C08); the end-to-end oracle takes the match stream (id, score) by driving the query's own searcher on a reader, so scoring itself is not judged here",
		"sort field terms are non-empty and sort below U+10FFFF x3 / above 0x00 (the implementation's missing-value sentinels); text terms do not start with a byte in 0x20..0x5f (could be mistaken for prefix-coded numbers)",
		"default mode on multi-valued fields is checked only at collector level where the stub fixes the visiting order",
		"SearchAfter/SearchBefore keys follow docs/pagination.md: decimal score for _score, DecodedSort for number/date typed keys, Sort otherwise",
		"natural order is never compared across engines",
	}
	if r.ReplayPath != "" {
		m.replay(r.ReplayPath)
		return
	}
	t0 := time.Now()
	lap := func(what string) {
		if os.Getenv("C06_DEBUG") != "" {
			fmt.Fprintf(os.Stderr, "c06: %s done at %.1fs\n", what, time.Since(t0).Seconds())
		}
	}
	m.regressions()
	lap("regressions")
	nA := r.Scale(2500, 150000)
	parallel(nA, m.runStreamCases)
	lap("workload A")
	m.runE2E()
	lap("workload B")
	r.MinDistinct = r.Scale(15000, 400000)
}
