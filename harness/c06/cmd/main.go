package main

import (
	"verifharness/ev"

	_ "verifharness/c06"
)

func main() { ev.Main() }
