package c06

// Workload A: the real TopNCollector over synthetic match streams.

import (
	"context"
	"fmt"
	"math"
	"sort"
	"strconv"

	"github.com/blevesearch/bleve/v2/numeric"
	"github.com/blevesearch/bleve/v2/search/collector"

	"verifharness/ev"
	"verifharness/rng"
)

// ---- model side: value of a field key from the doc-value terms -----------------------------------

func termLess(typed bool, a, b *term) bool {
	if typed {
		if a.Kind == 'n' && b.Kind == 'n' {
			return a.F < b.F
		}
		if a.Kind == 'd' && b.Kind == 'd' {
			return a.I < b.I
		}
	}
	return string(a.Raw) < string(b.Raw)
}

// avalue: documented meaning of SortField{Type,Mode}: number/date keep the full-precision numeric
// terms; string keeps everything; auto keeps the full-precision terms when every term is numeric.
// default = first visited, min/max = extremes; no term left = missing.
func avalue(k keySpec, ts []term) mval {
	var kept []*term
	typed := k.Type == "number" || k.Type == "date"
	switch k.Type {
	case "string":
		for i := range ts {
			kept = append(kept, &ts[i])
		}
	case "number", "date":
		for i := range ts {
			if ts[i].Kind != 't' && ts[i].Shift == 0 {
				kept = append(kept, &ts[i])
			}
		}
	default:
		allNum := true
		var zero []*term
		for i := range ts {
			if ts[i].Kind == 't' {
				allNum = false
			} else if ts[i].Shift == 0 {
				zero = append(zero, &ts[i])
			}
		}
		if allNum && len(zero) > 0 {
			kept = zero
		} else {
			for i := range ts {
				kept = append(kept, &ts[i])
			}
		}
	}
	if len(kept) == 0 {
		return mval{missing: true}
	}
	pick := kept[0]
	switch k.Mode {
	case "min":
		for _, t := range kept[1:] {
			if termLess(typed, t, pick) {
				pick = t
			}
		}
	case "max":
		for _, t := range kept[1:] {
			if termLess(typed, pick, t) {
				pick = t
			}
		}
	}
	if typed && pick.Kind == 'n' {
		return mval{kind: 'f', f: pick.F}
	}
	if typed && pick.Kind == 'd' {
		return mval{kind: 'i', i: pick.I}
	}
	return mval{kind: 'b', b: string(pick.Raw)}
}

func arows(spec sortSpec, ms []amatch) []mrow {
	rows := make([]mrow, len(ms))
	for i := range ms {
		rows[i] = mrow{arrival: i, id: ms[i].ID, score: ms[i].Score, keys: make([]mval, len(spec))}
		for x, k := range spec {
			if k.Kind == "field" {
				rows[i].keys[x] = avalue(k, ms[i].Fields[k.Field])
			}
		}
	}
	return rows
}

// ---- generator ----------------------------------------------------------------------------------

type fieldCfg struct {
	Name     string
	Kind     byte // 't' text, 'n' number, 'd' date, 'x' text and numbers mixed
	NVals    int
	PMissing int // percent
	PMulti   int // percent
	AllShift bool
}

var textVocab = []string{"a", "ab", "abc", "b", "ba", "c", "zz", "m", "é", "日本", "~", "a\x01"}
var floatVocab = []float64{-1e9, -2.5, -1, -0.5, 0, 0.25, 1, 2, 3.5, 10, 1e6, 12345.678}
var dateVocab = []int64{-86400e9, 0, 1, 999999999, 1e9, 1600000000e9, 1600000000e9 + 500e6, 1700000000e9, 4000000000e9}

func numTerms(kind byte, f float64, i int64, all bool, g *rng.Rand) []term {
	var v int64
	if kind == 'n' {
		v = numeric.Float64ToInt64(f)
	} else {
		v = i
	}
	var out []term
	for shift := uint(0); shift < 64; shift += 4 {
		if shift > 0 && !all && shift != 4 && shift != 60 {
			continue
		}
		out = append(out, term{Raw: numeric.MustNewPrefixCodedInt64(v, shift), Kind: kind, F: f, I: i, Shift: shift})
	}
	return out
}

type stream struct {
	Fields  []fieldCfg
	Matches []amatch
	Pattern string
	NScores int
}

func genStream(g *rng.Rand, n int) *stream {
	st := &stream{}
	st.Fields = []fieldCfg{
		{Name: "f0", Kind: 't', NVals: g.Range(1, 5), PMissing: g.Intn(40), PMulti: 0},
		{Name: "f1", Kind: 't', NVals: g.Range(2, 8), PMissing: g.Intn(30), PMulti: g.Range(10, 60)},
		{Name: "f2", Kind: 'n', NVals: g.Range(1, 6), PMissing: g.Intn(40), PMulti: g.Intn(40), AllShift: g.Chance(1, 3)},
		{Name: "f3", Kind: 'd', NVals: g.Range(1, 6), PMissing: g.Intn(40), PMulti: g.Intn(30), AllShift: g.Chance(1, 4)},
		{Name: "f4", Kind: 'x', NVals: g.Range(2, 6), PMissing: g.Intn(30), PMulti: g.Range(0, 50)},
	}
	st.Pattern = rng.Pick(g, []string{"random", "random", "asc", "desc", "sawtooth", "constant"})
	st.NScores = g.Range(1, 5)
	scores := make([]float64, st.NScores)
	base := []float64{0.25, 0.5, 1, 1.0000000000000002, 2.75, 0.1 + 0.2, 7}
	rng.Shuffle(g, base)
	copy(scores, base)
	sort.Float64s(scores)
	const V = 12
	period := g.Range(2, 9)
	// per field vocabularies (subsets, kept in increasing order so that the asc/desc patterns
	// give monotone key arrival)
	tv := make([][]string, len(st.Fields))
	fv := make([][]float64, len(st.Fields))
	dv := make([][]int64, len(st.Fields))
	for fi, fc := range st.Fields {
		p := g.Perm(len(textVocab))[:fc.NVals]
		sort.Ints(p)
		for _, x := range p {
			tv[fi] = append(tv[fi], textVocab[x])
		}
		sort.Strings(tv[fi])
		p = g.Perm(len(floatVocab))[:fc.NVals]
		sort.Ints(p)
		for _, x := range p {
			fv[fi] = append(fv[fi], floatVocab[x])
		}
		p = g.Perm(len(dateVocab))[:fc.NVals]
		sort.Ints(p)
		for _, x := range p {
			dv[fi] = append(dv[fi], dateVocab[x])
		}
	}
	independent := make([]bool, len(st.Fields))
	for i := range independent {
		independent[i] = g.Chance(1, 2)
	}
	num := uint64(g.Intn(3))
	idw := g.Range(1, 4)
	idperm := g.Perm(n)
	idRandom := g.Chance(2, 3)
	st.Matches = make([]amatch, n)
	for i := 0; i < n; i++ {
		var lat int
		switch st.Pattern {
		case "asc":
			lat = i * V / max(n, 1)
		case "desc":
			lat = (n - 1 - i) * V / max(n, 1)
		case "sawtooth":
			lat = (i % period) * V / period
		case "constant":
			lat = 0
		default:
			lat = g.Intn(V)
		}
		m := &st.Matches[i]
		num += uint64(1 + g.Intn(3)*g.Intn(2))
		m.Num = num
		x := i
		if idRandom {
			x = idperm[i]
		}
		m.ID = fmt.Sprintf("d%0*d", idw, x)
		m.Score = scores[lat*st.NScores/V]
		m.Fields = map[string][]term{}
		for fi, fc := range st.Fields {
			if g.Intn(100) < fc.PMissing {
				continue
			}
			cnt := 1
			if g.Intn(100) < fc.PMulti {
				cnt = g.Range(2, 3)
			}
			var ts []term
			for c := 0; c < cnt; c++ {
				vi := lat * fc.NVals / V
				if independent[fi] || c > 0 {
					vi = g.Intn(fc.NVals)
				}
				kind := fc.Kind
				if kind == 'x' {
					kind = rng.Pick(g, []byte{'t', 't', 'n'})
				}
				switch kind {
				case 't':
					ts = append(ts, term{Raw: []byte(tv[fi][vi]), Kind: 't'})
				case 'n':
					ts = append(ts, numTerms('n', fv[fi][vi], 0, fc.AllShift, g)...)
				case 'd':
					ts = append(ts, numTerms('d', 0, dv[fi][vi], fc.AllShift, g)...)
				}
			}
			if g.Chance(1, 2) {
				rng.Shuffle(g, ts)
			}
			m.Fields[fc.Name] = ts
		}
	}
	return st
}

func genSpec(g *rng.Rand, st *stream) sortSpec {
	var spec sortSpec
	nk := rng.Pick(g, []int{1, 1, 2, 2, 3})
	for len(spec) < nk {
		switch x := g.Intn(100); {
		case x < 25:
			spec = append(spec, keySpec{Kind: "score", Desc: g.Chance(2, 3)})
		case x < 35:
			spec = append(spec, keySpec{Kind: "id", Desc: g.Bool()})
		default:
			fc := rng.Pick(g, st.Fields)
			k := keySpec{Kind: "field", Field: fc.Name, Desc: g.Bool(), MissingFirst: g.Bool()}
			switch fc.Kind {
			case 't', 'x':
				k.Type = rng.Pick(g, []string{"auto", "string"})
			case 'n':
				k.Type = rng.Pick(g, []string{"auto", "number", "number", "string"})
			case 'd':
				k.Type = rng.Pick(g, []string{"auto", "date", "date"})
			}
			k.Mode = rng.Pick(g, []string{"default", "min", "max"})
			spec = append(spec, k)
		}
	}
	if !spec.total() && g.Chance(2, 5) {
		spec = append(spec, keySpec{Kind: "id", Desc: g.Chance(1, 4)})
	}
	return spec
}

var interestingTotals = []int{0, 1, 2, 3, 5, 9, 10, 11, 12, 13, 50, 100, 998, 999, 1000, 1001, 1002, 1003, 1500, 2500}

func genSizeFrom(g *rng.Rand, n int) (size, from int) {
	var t int
	switch g.Intn(10) {
	case 0, 1, 2, 3, 4, 5:
		t = rng.Pick(g, interestingTotals)
	case 6:
		t = n + g.Range(-2, 2)
	default:
		t = g.Intn(n + 5)
	}
	if t < 0 {
		t = 0
	}
	switch g.Intn(8) {
	case 0:
		from = 0
	case 1:
		from = t
	case 2:
		from = min(1, t)
	case 3:
		from = max(t-1, 0)
	case 4:
		from = max(t-10, 0)
	default:
		from = g.Intn(t + 1)
	}
	return t - from, from
}

// ---- running the real collector -----------------------------------------------------------------

type hitView struct {
	ID          string   `json:"id"`
	Score       float64  `json:"score"`
	Sort        []string `json:"sort"`
	DecodedSort []string `json:"decoded_sort"`
}

type collOut struct {
	Hits     []hitView
	Total    uint64
	MaxScore float64
}

func (o *collOut) ids() []string {
	out := make([]string, len(o.Hits))
	for i, h := range o.Hits {
		out[i] = h.ID
	}
	return out
}

func collect(coll *collector.TopNCollector, ms []amatch, poolSize int) (*collOut, error) {
	s := &stubSearcher{ms: ms, poolSize: poolSize}
	rd := newStubReader(ms)
	var err error
	panicked, val, stack := ev.Guard(func() {
		err = coll.Collect(context.Background(), s, rd)
	})
	if panicked {
		return nil, &panicError{val: fmt.Sprint(val), stack: stack}
	}
	if err != nil {
		return nil, err
	}
	out := &collOut{Total: coll.Total(), MaxScore: coll.MaxScore()}
	for _, h := range coll.Results() {
		out.Hits = append(out.Hits, hitView{ID: h.ID, Score: h.Score,
			Sort: append([]string(nil), h.Sort...), DecodedSort: append([]string(nil), h.DecodedSort...)})
	}
	return out, nil
}

// protocolKeys builds the SearchAfter/SearchBefore key of a hit the way docs/pagination.md says:
// the score as a decimal number for _score, DecodedSort for number/date typed fields, Sort otherwise.
func protocolKeys(spec sortSpec, h *hitView) ([]string, error) {
	keys := make([]string, len(spec))
	for i, k := range spec {
		switch {
		case k.Kind == "score":
			keys[i] = strconv.FormatFloat(h.Score, 'f', -1, 64)
		case k.Kind == "field" && (k.Type == "number" || k.Type == "date"):
			if i >= len(h.DecodedSort) {
				return nil, fmt.Errorf("hit %s has no DecodedSort[%d]", h.ID, i)
			}
			keys[i] = h.DecodedSort[i]
		default:
			if i >= len(h.Sort) {
				return nil, fmt.Errorf("hit %s has no Sort[%d]", h.ID, i)
			}
			keys[i] = h.Sort[i]
		}
	}
	return keys, nil
}

// aCase is one fully determined collector-level case (also the replay/witness format).
type aCase struct {
	Mode     string   `json:"mode"` // page | after | before
	Spec     sortSpec `json:"spec"`
	Size     int      `json:"size"`
	From     int      `json:"from"`
	PoolSize int      `json:"pool_size"`
	AnchorID string   `json:"anchor_id,omitempty"`
	Matches  []amatch `json:"matches"`
}

// panicError is a recovered panic of the code under test: the message is the class-relevant part,
// the stack goes into the witness.
type panicError struct{ val, stack string }

func (e *panicError) Error() string { return "panic: " + e.val }

func withStack(d map[string]any, err error) map[string]any {
	if pe, ok := err.(*panicError); ok {
		if d == nil {
			d = map[string]any{}
		}
		d["stack"] = pe.stack
	}
	return d
}

type failure struct {
	Class   string
	Summary string
	Detail  map[string]any
}

func specHasTypedMissingKey(spec sortSpec, row *mrow) bool {
	for x, k := range spec {
		if k.Kind == "field" && (k.Type == "number" || k.Type == "date") && row.keys[x].missing {
			return true
		}
	}
	return false
}

// runACase executes one case against the real collector and judges it with the model.
func runACase(c *aCase) *failure { return runACaseWith(c, nil) }

// runACaseWith: full, when given, is an already obtained full listing (size = all, from = 0) of the
// same stream and spec; the anchor's keys are read from it instead of listing again.
func runACaseWith(c *aCase, full *collOut) *failure {
	rows := arows(c.Spec, c.Matches)
	L := fullOrder(c.Spec, rows)
	wantTotal := uint64(len(rows))
	wantMax := maxScore(rows)
	shape := c.Spec.shape()
	mk := func(kind, store, sum string, d map[string]any) *failure {
		if d == nil {
			d = map[string]any{}
		}
		d["case"] = c
		return &failure{Class: "collector/" + kind + "/" + store + "/" + shape, Summary: sum, Detail: d}
	}
	judge := func(kind, store string, out *collOut, want []*mrow, extra string) *failure {
		got, exp := out.ids(), ids(want)
		if !eqStrings(got, exp) {
			p := firstDiff(got, exp)
			return mk(kind, store, fmt.Sprintf("%s sort=[%s] size=%d from=%d n=%d%s: hits differ from the sorted slice at offset %d",
				kind, c.Spec, c.Size, c.From, len(rows), extra, p),
				map[string]any{"got": got, "want": exp, "first_diff": p})
		}
		if out.Total != wantTotal {
			return mk(kind+"-total", store, fmt.Sprintf("Total=%d want %d", out.Total, wantTotal), nil)
		}
		if out.MaxScore != wantMax {
			return mk(kind+"-maxscore", store, fmt.Sprintf("MaxScore=%v want %v", out.MaxScore, wantMax), nil)
		}
		bys := map[string]float64{}
		for i := range rows {
			bys[rows[i].id] = rows[i].score
		}
		for _, h := range out.Hits {
			if h.Score != bys[h.ID] {
				return mk(kind+"-hitscore", store, fmt.Sprintf("hit %s carries score %v, stream gave %v", h.ID, h.Score, bys[h.ID]), nil)
			}
		}
		return nil
	}
	switch c.Mode {
	case "page":
		store := storeName(c.Size, c.From)
		out, err := collect(collector.NewTopNCollector(c.Size, c.From, c.Spec.build()), c.Matches, c.PoolSize)
		if err != nil {
			return mk("error", store, err.Error(), withStack(nil, err))
		}
		return judge("page", store, out, slice(L, c.From, c.Size), "")
	case "after", "before":
		store := storeName(c.Size, 0)
		// position of the anchor in the model order
		p := -1
		for i, m := range L {
			if m.id == c.AnchorID {
				p = i
				break
			}
		}
		if p < 0 {
			return nil // anchor shrunk away: not a failing case
		}
		// the anchor's keys come from a real hit: a full listing
		if full == nil {
			var err error
			full, err = collect(collector.NewTopNCollector(len(rows), 0, c.Spec.build()), c.Matches, c.PoolSize)
			if err != nil {
				return mk("error", storeName(len(rows), 0), err.Error(), withStack(nil, err))
			}
		}
		var anchor *hitView
		for i := range full.Hits {
			if full.Hits[i].ID == c.AnchorID {
				anchor = &full.Hits[i]
			}
		}
		if anchor == nil {
			return mk("page", storeName(len(rows), 0), "full listing lacks a match", map[string]any{"missing": c.AnchorID})
		}
		keys, err := protocolKeys(c.Spec, anchor)
		if err != nil {
			return mk("keys", store, err.Error(), nil)
		}
		typedMissing := specHasTypedMissingKey(c.Spec, L[p])
		if c.Mode == "after" {
			// first position whose keys are strictly greater than the anchor's
			q := p + 1
			for q < len(L) && cmpKeys(c.Spec, L[q], L[p]) == 0 {
				q++
			}
			out, err := collect(collector.NewTopNCollectorAfter(c.Size, c.Spec.build(), keys), c.Matches, c.PoolSize)
			if err != nil {
				return mk("error", store, err.Error(), withStack(nil, err))
			}
			f := judge("after", store, out, slice(L, q, c.Size), fmt.Sprintf(" after=%q (hit %s at %d)", keys, c.AnchorID, p))
			if f != nil {
				f.Detail["keys"] = keys
				if typedMissing {
					f.Class = classTypedMissing
				}
			}
			return f
		}
		// before: what Index.Search does — SearchAfter under the reversed sort, result re-reversed.
		if !c.Spec.total() {
			return nil
		}
		so := c.Spec.build()
		so.Reverse()
		out, err := collect(collector.NewTopNCollectorAfter(c.Size, so, keys), c.Matches, c.PoolSize)
		if err != nil {
			return mk("error", store, err.Error(), withStack(nil, err))
		}
		for i, j := 0, len(out.Hits)-1; i < j; i, j = i+1, j-1 {
			out.Hits[i], out.Hits[j] = out.Hits[j], out.Hits[i]
		}
		f := judge("before", store, out, slice(L, max(p-c.Size, 0), min(c.Size, p)), fmt.Sprintf(" before=%q (hit %s at %d)", keys, c.AnchorID, p))
		if f != nil {
			f.Detail["keys"] = keys
			if typedMissing {
				f.Class = classTypedMissing
			}
		}
		return f
	}
	return nil
}

// shrinkACase removes matches (never the anchor) while the case keeps failing with the same class.
func shrinkACase(c *aCase, class string) *aCase {
	cur := *c
	stillFails := func(ms []amatch) bool {
		t := cur
		t.Matches = ms
		f := runACase(&t)
		return f != nil && f.Class == class
	}
	budget := 600
	for chunk := len(cur.Matches) / 2; chunk >= 1 && budget > 0; {
		removed := false
		for start := 0; start < len(cur.Matches) && budget > 0; {
			end := min(start+chunk, len(cur.Matches))
			hasAnchor := false
			for _, m := range cur.Matches[start:end] {
				if m.ID == cur.AnchorID && cur.AnchorID != "" {
					hasAnchor = true
				}
			}
			if hasAnchor && chunk > 1 {
				start = end
				continue
			}
			if hasAnchor {
				start = end
				continue
			}
			cand := append(append([]amatch(nil), cur.Matches[:start]...), cur.Matches[end:]...)
			budget--
			if stillFails(cand) {
				cur.Matches = cand
				removed = true
			} else {
				start = end
			}
		}
		if !removed || chunk > len(cur.Matches) {
			chunk /= 2
		}
	}
	// drop the fields no sort key looks at
	used := map[string]bool{}
	for _, k := range cur.Spec {
		used[k.Field] = true
	}
	ms := make([]amatch, len(cur.Matches))
	for i, m := range cur.Matches {
		ms[i] = m
		ms[i].Fields = map[string][]term{}
		for f, ts := range m.Fields {
			if used[f] {
				ms[i].Fields[f] = ts
			}
		}
	}
	if stillFails(ms) {
		cur.Matches = ms
	}
	// smaller from/size if the failure survives (the class keeps it inside the same store kind)
	for iter := 0; iter < 40; iter++ {
		progress := false
		for _, cand := range [][2]int{{cur.Size, 0}, {cur.Size, cur.From / 2}, {cur.Size, cur.From - 1},
			{cur.Size / 2, cur.From}, {cur.Size - 1, cur.From}} {
			if cand[0] < 0 || cand[1] < 0 || (cand[0] == cur.Size && cand[1] == cur.From) {
				continue
			}
			t := cur
			t.Size, t.From = cand[0], cand[1]
			if f := runACase(&t); f != nil && f.Class == class {
				cur = t
				progress = true
				break
			}
		}
		if !progress {
			break
		}
	}
	return &cur
}

// ---- the workload --------------------------------------------------------------------------------

func streamSize(g *rng.Rand) int {
	switch g.Intn(12) {
	case 0:
		return g.Intn(3)
	case 1, 2, 3:
		return g.Range(3, 30)
	case 4, 5, 6:
		return g.Range(30, 300)
	case 7, 8:
		return g.Range(990, 1100)
	case 9:
		return g.Range(300, 990)
	default:
		return g.Range(1100, 3000)
	}
}

func caseKey(c *aCase, st *stream) string {
	h := uint64(1469598103934665603)
	for i := range c.Matches {
		h = (h ^ c.Matches[i].Num ^ math.Float64bits(c.Matches[i].Score)) * 1099511628211
	}
	return fmt.Sprintf("A|%s|%s|%d|%d|%d|%s|%d|%s|%x", c.Mode, c.Spec, c.Size, c.From, len(c.Matches), st.Pattern, st.NScores, c.AnchorID, h)
}

func (m *monitor) reportA(c *aCase, f *failure) {
	if !m.firstOfClass(f.Class) {
		// the first failure of the class is being shrunk and reported by another worker
		m.r.Count("failures_after_first."+f.Class, 1)
		return
	}
	if !m.mayShrink(false) {
		m.r.Violation(f.Class, f.Summary, f.Detail)
		return
	}
	sc := shrinkACase(c, f.Class)
	sf := runACase(sc)
	if sf == nil || sf.Class != f.Class {
		sc, sf = c, f
	}
	m.r.Violation(sf.Class, sf.Summary, sf.Detail)
}

// runStreamCases executes every case derived from one stream; index i determines everything.
func (m *monitor) runStreamCases(i int) {
	r := m.r
	g := r.Rng(fmt.Sprintf("A/%d", i))
	r.Journal(map[string]any{"workload": "A", "stream_index": i}) // the stream is a function of (seed, i)
	n := streamSize(g)
	st := genStream(g, n)
	nspecs := 2
	for si := 0; si < nspecs; si++ {
		spec := genSpec(g, st)
		rows := arows(spec, st.Matches)
		L := fullOrder(spec, rows)
		pool := g.Intn(4)
		npages := 3
		for pi := 0; pi < npages; pi++ {
			size, from := genSizeFrom(g, n)
			c := &aCase{Mode: "page", Spec: spec, Size: size, From: from, PoolSize: pool, Matches: st.Matches}
			f := runACase(c)
			tie := fullTieAt(spec, L, from) || fullTieAt(spec, L, from+size)
			tie1 := tieOnFirstKeyAt(spec, L, from) || tieOnFirstKeyAt(spec, L, from+size)
			cross := crossesSwitch(size, from, n)
			r.Case(caseKey(c, st), tie || tie1 || cross)
			r.Count("A.page_cases", 1)
			r.Count("A.store."+storeName(size, from), 1)
			if tie {
				r.Count("A.page_boundary_full_tie", 1)
			}
			if cross {
				r.Count("A.size_from_at_switch_or_cap", 1)
			}
			if n > size+from {
				r.Count("A.pages_with_eviction", 1)
			}
			r.Count("A.hits_compared", len(slice(L, from, size)))
			if f != nil {
				m.reportA(c, f)
			} else if (tie || cross) && size > 0 && n > size+from && m.takeSampleA() {
				r.Sample(map[string]any{"workload": "A", "mode": "page", "sort": spec.String(), "size": size, "from": from, "matches": n,
					"pattern": st.Pattern, "distinct_scores": st.NScores, "boundary_tie": tie, "first_ids": ids(slice(L, from, min(size, 5)))})
			}
		}
		if n == 0 {
			continue
		}
		// SearchAfter / SearchBefore anchored at real hits: their keys come from a full listing,
		// which is itself one more page case (size = all)
		fc := &aCase{Mode: "page", Spec: spec, Size: n, From: 0, PoolSize: pool, Matches: st.Matches}
		full, err := collect(collector.NewTopNCollector(n, 0, spec.build()), st.Matches, pool)
		if err != nil || !eqStrings(full.ids(), ids(L)) {
			if f := runACase(fc); f != nil {
				m.reportA(fc, f)
			}
			continue
		}
		r.Case(caseKey(fc, st), crossesSwitch(n, 0, n+1))
		r.Count("A.full_listings", 1)
		for ai := 0; ai < 2; ai++ {
			var p int
			switch g.Intn(5) {
			case 0:
				p = 0
			case 1:
				p = n - 1
			default:
				p = g.Intn(n)
			}
			size := rng.Pick(g, []int{0, 1, 2, 5, 9, 10, 11, 12, 50, 999, 1000, 1001, 1500})
			for _, mode := range []string{"after", "before"} {
				if mode == "before" && !spec.total() {
					continue
				}
				c := &aCase{Mode: mode, Spec: spec, Size: size, From: 0, PoolSize: pool, AnchorID: L[p].id, Matches: st.Matches}
				f := runACaseWith(c, full)
				var remaining int
				var tie1 bool
				if mode == "after" {
					remaining = n - p - 1
					tie1 = tieOnFirstKeyAt(spec, L, p+1) || tieOnFirstKeyAt(spec, L, p+1+size)
				} else {
					remaining = p
					tie1 = tieOnFirstKeyAt(spec, L, p) || tieOnFirstKeyAt(spec, L, p-size)
				}
				cross := crossesSwitch(size, 0, remaining)
				r.Case(caseKey(c, st), tie1 || cross)
				r.Count("A."+mode+"_cases", 1)
				if spec.total() {
					r.Count("A."+mode+"_total_order", 1)
				}
				if f != nil {
					m.reportA(c, f)
				}
			}
		}
	}
}
