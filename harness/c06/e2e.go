package c06

// Workload B: Index.Search with Sort / From / Size / SearchAfter / SearchBefore on scorch and upsidedown.
// The oracle's input is the match stream (id, score, arrival order) obtained by driving the query's own
// searcher on a reader of the same index; the sort keys come from the harness' own record of the
// documents. What is judged is everything between the searcher and the returned page: collector,
// stores, sort key extraction from doc values, key encoding of SearchAfter, reversed execution of
// SearchBefore.

import (
	"context"
	"fmt"
	"os"
	"path/filepath"
	"strings"
	"sync/atomic"
	"time"

	bleve "github.com/blevesearch/bleve/v2"
	"github.com/blevesearch/bleve/v2/analysis/analyzer/keyword"
	"github.com/blevesearch/bleve/v2/analysis/analyzer/standard"
	"github.com/blevesearch/bleve/v2/index/scorch"
	"github.com/blevesearch/bleve/v2/index/upsidedown"
	"github.com/blevesearch/bleve/v2/index/upsidedown/store/boltdb"
	"github.com/blevesearch/bleve/v2/index/upsidedown/store/gtreap"
	"github.com/blevesearch/bleve/v2/mapping"
	"github.com/blevesearch/bleve/v2/search"
	"github.com/blevesearch/bleve/v2/search/query"
	index "github.com/blevesearch/bleve_index_api"

	"verifharness/ev"
	"verifharness/rng"
)

// ---- documents and histories --------------------------------------------------------------------

type edoc struct {
	ID string    `json:"id"`
	T  string    `json:"t,omitempty"`
	S  *string   `json:"s,omitempty"`
	SM []string  `json:"sm,omitempty"`
	N  *float64  `json:"n,omitempty"`
	NM []float64 `json:"nm,omitempty"`
	D  *int64    `json:"d,omitempty"` // unix nanos
}

func (d *edoc) toMap() map[string]interface{} {
	m := map[string]interface{}{}
	if d.T != "" {
		m["t"] = d.T
	}
	if d.S != nil {
		m["s"] = *d.S
	}
	if len(d.SM) > 0 {
		xs := make([]interface{}, len(d.SM))
		for i, s := range d.SM {
			xs[i] = s
		}
		m["sm"] = xs
	}
	if d.N != nil {
		m["n"] = *d.N
	}
	if len(d.NM) > 0 {
		xs := make([]interface{}, len(d.NM))
		for i, s := range d.NM {
			xs[i] = s
		}
		m["nm"] = xs
	}
	if d.D != nil {
		m["d"] = time.Unix(0, *d.D).UTC()
	}
	return m
}

type eop struct {
	Del bool   `json:"del,omitempty"`
	Doc *edoc  `json:"doc,omitempty"`
	ID  string `json:"id,omitempty"`
}

type ebatch []eop

func buildMapping() mapping.IndexMapping {
	im := bleve.NewIndexMapping()
	dm := bleve.NewDocumentStaticMapping()
	lean := func(f *mapping.FieldMapping) *mapping.FieldMapping {
		f.Store = false
		f.IncludeInAll = false
		f.IncludeTermVectors = false
		f.DocValues = true
		return f
	}
	t := bleve.NewTextFieldMapping()
	t.Analyzer = standard.Name
	dm.AddFieldMappingsAt("t", lean(t))
	for _, n := range []string{"s", "sm"} {
		k := bleve.NewTextFieldMapping()
		k.Analyzer = keyword.Name
		dm.AddFieldMappingsAt(n, lean(k))
	}
	for _, n := range []string{"n", "nm"} {
		dm.AddFieldMappingsAt(n, lean(bleve.NewNumericFieldMapping()))
	}
	dm.AddFieldMappingsAt("d", lean(bleve.NewDateTimeFieldMapping()))
	im.DefaultMapping = dm
	return im
}

var eWords = []string{"alpha", "beta", "gamma", "delta", "alps", "bet"}
var eStrs = []string{"ant", "bee", "cat", "dog", "eel", "émeu", "蟻", "ant hill", "b"}
var eNums = []float64{-1e7, -7.5, -1, 0, 0.5, 1, 2, 10, 3.14159, 1e6, 1234567.875}
var eDates = []int64{-86400e9, 0, 1000000000e9, 1000000000e9 + 500e6, 1697365800e9, 1697365800e9 + 1, 1700000000e9, 2000000000e9}

func genDoc(g *rng.Rand, id string, tieHeavy bool) *edoc {
	d := &edoc{ID: id}
	nv := func(n int) int {
		if tieHeavy {
			return g.Intn(min(n, 3))
		}
		return g.Intn(n)
	}
	nw := g.Range(0, 4)
	var ws []string
	for i := 0; i < nw; i++ {
		ws = append(ws, eWords[nv(len(eWords))])
	}
	d.T = strings.Join(ws, " ")
	if !g.Chance(1, 4) {
		s := eStrs[nv(len(eStrs))]
		d.S = &s
	}
	if !g.Chance(1, 4) {
		for i, c := 0, g.Range(1, 3); i < c; i++ {
			d.SM = append(d.SM, eStrs[nv(len(eStrs))])
		}
	}
	if !g.Chance(1, 4) {
		n := eNums[nv(len(eNums))]
		d.N = &n
	}
	if !g.Chance(1, 4) {
		for i, c := 0, g.Range(1, 3); i < c; i++ {
			d.NM = append(d.NM, eNums[nv(len(eNums))])
		}
	}
	if !g.Chance(1, 4) {
		t := eDates[nv(len(eDates))]
		d.D = &t
	}
	return d
}

// genHistory: several batches (one scorch segment each) with updates and deletes of earlier ids, so
// that the internal order differs from the id order and segments carry deletions.
func genHistory(g *rng.Rand, ndocs, nbatches int) []ebatch {
	tieHeavy := g.Chance(1, 2)
	w := len(fmt.Sprint(ndocs))
	idOf := func(i int) string {
		switch i % 7 {
		case 3:
			return fmt.Sprintf("x%d", i) // ids of different lengths: id order != numeric order
		case 5:
			return fmt.Sprintf("D%0*d", w, i)
		}
		return fmt.Sprintf("d%0*d", w, i)
	}
	order := g.Perm(ndocs)
	var hist []ebatch
	per := (ndocs + nbatches - 1) / nbatches
	var seen []string
	for b := 0; b < nbatches; b++ {
		var bt ebatch
		for _, i := range order[min(b*per, ndocs):min((b+1)*per, ndocs)] {
			bt = append(bt, eop{Doc: genDoc(g, idOf(i), tieHeavy)})
		}
		if b > 0 {
			for k, c := 0, max(len(seen)/8, 1); k < c; k++ {
				id := rng.Pick(g, seen)
				if g.Chance(1, 2) {
					bt = append(bt, eop{Del: true, ID: id})
				} else {
					bt = append(bt, eop{Doc: genDoc(g, id, tieHeavy)})
				}
			}
		}
		for _, op := range bt {
			if op.Doc != nil {
				seen = append(seen, op.Doc.ID)
			}
		}
		hist = append(hist, bt)
	}
	return hist
}

func replayModel(hist []ebatch) map[string]*edoc {
	live := map[string]*edoc{}
	for _, b := range hist {
		for _, op := range b {
			if op.Del {
				delete(live, op.ID)
			} else {
				live[op.Doc.ID] = op.Doc
			}
		}
	}
	return live
}

var dirSeq atomic.Int64

func (m *monitor) openEngine(engine string) (bleve.Index, string, error) {
	im := buildMapping()
	dir := ""
	if strings.HasSuffix(engine, "-disk") || strings.HasSuffix(engine, "-bolt") {
		dir = filepath.Join(m.r.TempDir(), fmt.Sprintf("ix%d", dirSeq.Add(1)))
	}
	var idx bleve.Index
	var err error
	switch engine {
	case "scorch-mem", "scorch-disk":
		idx, err = bleve.NewUsing(dir, im, scorch.Name, scorch.Name, nil)
	case "upsidedown-gtreap":
		idx, err = bleve.NewUsing("", im, upsidedown.Name, gtreap.Name, nil)
	case "upsidedown-bolt":
		idx, err = bleve.NewUsing(dir, im, upsidedown.Name, boltdb.Name, nil)
	default:
		err = fmt.Errorf("unknown engine %s", engine)
	}
	return idx, dir, err
}

func (m *monitor) buildIndex(engine string, hist []ebatch) (bleve.Index, func(), error) {
	idx, dir, err := m.openEngine(engine)
	if err != nil {
		return nil, nil, err
	}
	closer := func() {
		_ = idx.Close()
		if dir != "" {
			_ = os.RemoveAll(dir)
		}
	}
	for _, b := range hist {
		bt := idx.NewBatch()
		for _, op := range b {
			if op.Del {
				bt.Delete(op.ID)
			} else if err := bt.Index(op.Doc.ID, op.Doc.toMap()); err != nil {
				closer()
				return nil, nil, err
			}
		}
		if err := idx.Batch(bt); err != nil {
			closer()
			return nil, nil, err
		}
	}
	return idx, closer, nil
}

// ---- queries ------------------------------------------------------------------------------------

type qSpec struct {
	Kind string `json:"kind"` // all | match | term | bool
	Text string `json:"text,omitempty"`
}

func (q qSpec) build() query.Query {
	switch q.Kind {
	case "match":
		mq := bleve.NewMatchQuery(q.Text)
		mq.SetField("t")
		return mq
	case "term":
		tq := bleve.NewTermQuery(q.Text)
		tq.SetField("t")
		return tq
	case "bool":
		a := bleve.NewMatchQuery(q.Text)
		a.SetField("t")
		bq := bleve.NewBooleanQuery()
		bq.AddMust(bleve.NewMatchAllQuery())
		bq.AddShould(a)
		return bq
	}
	return bleve.NewMatchAllQuery()
}

// ---- the match stream (oracle input) ------------------------------------------------------------

type ematch struct {
	ID    string
	Score float64
}

func matchStream(idx bleve.Index, q qSpec) ([]ematch, error) {
	adv, err := idx.Advanced()
	if err != nil {
		return nil, err
	}
	rd, err := adv.Reader()
	if err != nil {
		return nil, err
	}
	defer rd.Close()
	ctx := context.WithValue(context.Background(), search.GetScoringModelCallbackKey,
		search.GetScoringModelCallbackFn(func() string { return index.DefaultScoringModel }))
	s, err := q.build().Searcher(ctx, rd, idx.Mapping(), search.SearcherOptions{})
	if err != nil {
		return nil, err
	}
	defer s.Close()
	sc := &search.SearchContext{
		DocumentMatchPool: search.NewDocumentMatchPool(s.DocumentMatchPoolSize()+1, 0),
		IndexReader:       rd,
	}
	var out []ematch
	var prev index.IndexInternalID
	for {
		dm, err := s.Next(sc)
		if err != nil {
			return nil, err
		}
		if dm == nil {
			break
		}
		if prev != nil && prev.Compare(dm.IndexInternalID) >= 0 {
			return nil, fmt.Errorf("searcher ids not ascending (C08 territory)")
		}
		prev = append(prev[:0], dm.IndexInternalID...)
		id, err := rd.ExternalID(dm.IndexInternalID)
		if err != nil {
			return nil, err
		}
		out = append(out, ematch{ID: id, Score: dm.Score})
		sc.DocumentMatchPool.Put(dm)
	}
	return out, nil
}

func sameStream(a, b []ematch) bool {
	if len(a) != len(b) {
		return false
	}
	for i := range a {
		if a[i] != b[i] {
			return false
		}
	}
	return true
}

// evalue: sort key value of a document from the harness' own record.
func evalue(k keySpec, d *edoc) mval {
	pickS := func(xs []string) mval {
		if len(xs) == 0 {
			return mval{missing: true}
		}
		p := xs[0]
		for _, x := range xs[1:] {
			if (k.Mode == "min" && x < p) || (k.Mode == "max" && x > p) {
				p = x
			}
		}
		return mval{kind: 'b', b: p}
	}
	pickF := func(xs []float64) mval {
		if len(xs) == 0 {
			return mval{missing: true}
		}
		p := xs[0]
		for _, x := range xs[1:] {
			if (k.Mode == "min" && x < p) || (k.Mode == "max" && x > p) {
				p = x
			}
		}
		return mval{kind: 'f', f: p}
	}
	switch k.Field {
	case "s":
		if d.S == nil {
			return mval{missing: true}
		}
		return mval{kind: 'b', b: *d.S}
	case "sm":
		return pickS(d.SM)
	case "n":
		if d.N == nil {
			return mval{missing: true}
		}
		return mval{kind: 'f', f: *d.N}
	case "nm":
		return pickF(d.NM)
	case "d":
		if d.D == nil {
			return mval{missing: true}
		}
		return mval{kind: 'i', i: *d.D}
	}
	return mval{missing: true}
}

func erows(spec sortSpec, st []ematch, live map[string]*edoc) ([]mrow, error) {
	rows := make([]mrow, len(st))
	for i, m := range st {
		d := live[m.ID]
		if d == nil {
			return nil, fmt.Errorf("stream yields %q which is not a live document", m.ID)
		}
		rows[i] = mrow{arrival: i, id: m.ID, score: m.Score, keys: make([]mval, len(spec))}
		for x, k := range spec {
			if k.Kind == "field" {
				rows[i].keys[x] = evalue(k, d)
			}
		}
	}
	return rows, nil
}

// ---- sort shapes --------------------------------------------------------------------------------

func allFieldKeys() []keySpec {
	var out []keySpec
	add := func(field string, types, modes []string) {
		for _, t := range types {
			for _, md := range modes {
				for _, desc := range []bool{false, true} {
					for _, mf := range []bool{false, true} {
						out = append(out, keySpec{Kind: "field", Field: field, Type: t, Mode: md, Desc: desc, MissingFirst: mf})
					}
				}
			}
		}
	}
	add("s", []string{"auto", "string"}, []string{"default"})
	add("sm", []string{"auto", "string"}, []string{"min", "max"})
	add("n", []string{"auto", "number"}, []string{"default", "min"})
	add("nm", []string{"auto", "number"}, []string{"min", "max"})
	add("d", []string{"auto", "date"}, []string{"default", "max"})
	return out
}

// eSpecs: every single-key shape, each also with an _id tie-breaker (total order), plus seeded
// multi-key combinations.
func eSpecs(g *rng.Rand, nCombos int) []sortSpec {
	var out []sortSpec
	basics := []keySpec{{Kind: "score", Desc: true}, {Kind: "score"}, {Kind: "id"}, {Kind: "id", Desc: true}}
	for _, k := range basics {
		out = append(out, sortSpec{k})
	}
	out = append(out, sortSpec{{Kind: "score", Desc: true}, {Kind: "id"}}, sortSpec{{Kind: "score"}, {Kind: "id", Desc: true}})
	fk := allFieldKeys()
	for _, k := range fk {
		out = append(out, sortSpec{k})
		out = append(out, sortSpec{k, {Kind: "id", Desc: g.Chance(1, 4)}})
	}
	for i := 0; i < nCombos; i++ {
		var s sortSpec
		for j, nk := 0, g.Range(2, 3); j < nk; j++ {
			switch g.Intn(5) {
			case 0:
				s = append(s, keySpec{Kind: "score", Desc: g.Chance(2, 3)})
			default:
				s = append(s, rng.Pick(g, fk))
			}
		}
		if g.Chance(2, 3) {
			s = append(s, keySpec{Kind: "id", Desc: g.Chance(1, 4)})
		}
		out = append(out, s)
	}
	return out
}

// ---- executing requests -------------------------------------------------------------------------

type pageReq struct {
	Size   int      `json:"size"`
	From   int      `json:"from"`
	After  []string `json:"after,omitempty"`
	Before []string `json:"before,omitempty"`
}

func doSearch(idx bleve.Index, q qSpec, spec sortSpec, p pageReq) (*collOut, error) {
	req := bleve.NewSearchRequestOptions(q.build(), p.Size, p.From, false)
	req.SortByCustom(spec.build())
	if p.After != nil {
		req.SetSearchAfter(p.After)
	}
	if p.Before != nil {
		req.SetSearchBefore(p.Before)
	}
	var res *bleve.SearchResult
	var err error
	panicked, val, stack := ev.Guard(func() { res, err = idx.Search(req) })
	if panicked {
		return nil, &panicError{val: fmt.Sprint(val), stack: stack}
	}
	if err != nil {
		return nil, err
	}
	out := &collOut{Total: res.Total, MaxScore: res.MaxScore}
	for _, h := range res.Hits {
		out.Hits = append(out.Hits, hitView{ID: h.ID, Score: h.Score,
			Sort: append([]string(nil), h.Sort...), DecodedSort: append([]string(nil), h.DecodedSort...)})
	}
	return out, nil
}

const classTypedMissing = "search-after-before/typed-sort-key-of-missing-value"

// eCase is one fully determined end-to-end case (replay/witness format): build the index from the
// history, run one request, compare with the model.
type eCase struct {
	Engine   string   `json:"engine"`
	History  []ebatch `json:"history"`
	Query    qSpec    `json:"query"`
	Spec     sortSpec `json:"spec"`
	Mode     string   `json:"mode"` // page | after | before
	Size     int      `json:"size"`
	From     int      `json:"from"`
	AnchorID string   `json:"anchor_id,omitempty"`
}

// judgeE compares one result page with the expected slice.
func judgeE(engine, kind string, spec sortSpec, p pageReq, out *collOut, want []*mrow, rows []mrow) *failure {
	shape := spec.shape()
	mk := func(k, sum string, d map[string]any) *failure {
		if d == nil {
			d = map[string]any{}
		}
		d["request"] = p
		d["sort"] = spec.String()
		return &failure{Class: "index/" + k + "/" + engineFamily(engine) + "/" + shape, Summary: engine + " " + sum, Detail: d}
	}
	got, exp := out.ids(), ids(want)
	if !eqStrings(got, exp) {
		d := firstDiff(got, exp)
		return mk(kind, fmt.Sprintf("%s sort=[%s] size=%d from=%d after=%q before=%q matches=%d: hits differ from the sorted slice at offset %d",
			kind, spec, p.Size, p.From, p.After, p.Before, len(rows), d), map[string]any{"got": got, "want": exp, "first_diff": d})
	}
	if out.Total != uint64(len(rows)) {
		return mk(kind+"-total", fmt.Sprintf("sort=[%s] Total=%d want %d", spec, out.Total, len(rows)), nil)
	}
	if wm := maxScore(rows); out.MaxScore != wm {
		return mk(kind+"-maxscore", fmt.Sprintf("sort=[%s] MaxScore=%v want %v", spec, out.MaxScore, wm), nil)
	}
	return nil
}

func engineFamily(engine string) string {
	if strings.HasPrefix(engine, "scorch") {
		return "scorch"
	}
	return "upsidedown"
}

// runECase builds the index from scratch and runs the single request of the case.
func (m *monitor) runECase(c *eCase) *failure {
	idx, closer, err := m.buildIndex(c.Engine, c.History)
	if err != nil {
		return &failure{Class: "index/build-error", Summary: err.Error(), Detail: map[string]any{"case": c}}
	}
	defer closer()
	f := m.runECaseOn(idx, c)
	if f != nil {
		f.Detail["case"] = c
	}
	return f
}

func (m *monitor) runECaseOn(idx bleve.Index, c *eCase) *failure {
	live := replayModel(c.History)
	st, err := matchStream(idx, c.Query)
	if err != nil {
		return nil
	}
	rows, err := erows(c.Spec, st, live)
	if err != nil {
		return nil
	}
	L := fullOrder(c.Spec, rows)
	switch c.Mode {
	case "page":
		p := pageReq{Size: c.Size, From: c.From}
		out, err := doSearch(idx, c.Query, c.Spec, p)
		if err != nil {
			return &failure{Class: "index/error/" + engineFamily(c.Engine) + "/" + c.Spec.shape(), Summary: err.Error(), Detail: withStack(map[string]any{"request": p}, err)}
		}
		return judgeE(c.Engine, "page", c.Spec, p, out, slice(L, c.From, c.Size), rows)
	case "after", "before":
		if !c.Spec.total() {
			return nil
		}
		pos := -1
		for i, r := range L {
			if r.id == c.AnchorID {
				pos = i
			}
		}
		if pos < 0 {
			return nil
		}
		full, err := doSearch(idx, c.Query, c.Spec, pageReq{Size: len(rows) + 1})
		if err != nil {
			return nil
		}
		var anchor *hitView
		for i := range full.Hits {
			if full.Hits[i].ID == c.AnchorID {
				anchor = &full.Hits[i]
			}
		}
		if anchor == nil {
			return nil
		}
		return m.stepFrom(idx, c.Engine, c.Query, c.Spec, c.Mode, c.Size, anchor, pos, L, rows, nil)
	}
	return nil
}

// stepFrom issues SearchAfter/SearchBefore anchored at a real hit (position pos in L) and judges the page.
func (m *monitor) stepFrom(idx bleve.Index, engine string, q qSpec, spec sortSpec, mode string, size int,
	anchor *hitView, pos int, L []*mrow, rows []mrow, got **collOut) *failure {
	keys, err := protocolKeys(spec, anchor)
	if err != nil {
		return &failure{Class: "index/keys/" + engineFamily(engine) + "/" + spec.shape(), Summary: err.Error(), Detail: map[string]any{}}
	}
	typedMissing := specHasTypedMissingKey(spec, L[pos])
	var p pageReq
	var want []*mrow
	if mode == "after" {
		p = pageReq{Size: size, After: keys}
		want = slice(L, pos+1, size)
	} else {
		p = pageReq{Size: size, Before: keys}
		want = slice(L, max(pos-size, 0), min(size, pos))
	}
	out, err := doSearch(idx, q, spec, p)
	var f *failure
	if err != nil {
		f = &failure{Class: "index/error/" + engineFamily(engine) + "/" + spec.shape(),
			Summary: fmt.Sprintf("%s sort=[%s] %s from hit %s keys=%q: %v", engine, spec, mode, anchor.ID, keys, err),
			Detail:  withStack(map[string]any{"request": p, "sort": spec.String()}, err)}
	} else {
		f = judgeE(engine, mode, spec, p, out, want, rows)
		if got != nil {
			*got = out
		}
	}
	if f != nil && typedMissing {
		f.Class = classTypedMissing
	}
	if f != nil {
		f.Detail["anchor"] = anchor
		f.Detail["anchor_position"] = pos
	}
	return f
}

// shrinkECase drops operations from the history while the same class keeps failing.
func (m *monitor) shrinkECase(c *eCase, class string) *eCase {
	cur := *c
	engine := cur.Engine
	flat := func(h []ebatch) int {
		n := 0
		for _, b := range h {
			n += len(b)
		}
		return n
	}
	stillFails := func(h []ebatch) bool {
		t := cur
		t.History = h
		t.Engine = engine
		f := m.runECase(&t)
		return f != nil && f.Class == class
	}
	budget := 250
	// whole batches first
	for bi := 0; bi < len(cur.History) && budget > 0; {
		cand := append(append([]ebatch(nil), cur.History[:bi]...), cur.History[bi+1:]...)
		budget--
		if len(cur.History) > 1 && stillFails(cand) {
			cur.History = cand
		} else {
			bi++
		}
	}
	for chunk := max(flat(cur.History)/2, 1); chunk >= 1 && budget > 0; chunk /= 2 {
		for bi := 0; bi < len(cur.History); bi++ {
			for start := 0; start < len(cur.History[bi]) && budget > 0; {
				end := min(start+chunk, len(cur.History[bi]))
				nb := append(append(ebatch(nil), cur.History[bi][:start]...), cur.History[bi][end:]...)
				cand := append([]ebatch(nil), cur.History...)
				cand[bi] = nb
				budget--
				if stillFails(cand) {
					cur.History = cand
				} else {
					start = end
				}
			}
		}
	}
	// a simpler query
	if cur.Query.Kind != "all" {
		t := cur
		t.Query = qSpec{Kind: "all"}
		if f := m.runECase(&t); f != nil && f.Class == class {
			cur = t
		}
	}
	return &cur
}

func (m *monitor) reportE(c *eCase, f *failure) {
	if !m.firstOfClass(f.Class) {
		// the first failure of the class is being shrunk and reported by another worker
		m.r.Count("failures_after_first."+f.Class, 1)
		return
	}
	// confirm on a fresh index, then shrink
	f2 := m.runECase(c)
	if f2 == nil || f2.Class != f.Class {
		// not reproducible from scratch as a single request (layout dependent): report as seen
		f.Detail["case"] = c
		f.Detail["note"] = "not reproduced on a freshly built index"
		m.r.Violation(f.Class, f.Summary, f.Detail)
		return
	}
	if !m.mayShrink(true) {
		m.r.Violation(f2.Class, f2.Summary, f2.Detail)
		return
	}
	sc := m.shrinkECase(c, f.Class)
	sf := m.runECase(sc)
	if sf == nil || sf.Class != f.Class {
		sf = f2
	}
	m.r.Violation(sf.Class, sf.Summary, sf.Detail)
}

// ---- the workload -------------------------------------------------------------------------------

type eScenario struct {
	Engine     string
	NDocs      int
	NBatches   int
	Queries    []qSpec
	NCombos    int
	PageSizes  []int
	ChainSizes []int
	SpecEvery  int // take every k-th spec (big corpora)
}

func (m *monitor) settle(idx bleve.Index) {
	// on-disk scorch merges in the background; wait (bounded) until the layout stops changing.
	var prev []ematch
	stable := 0
	for i := 0; i < 100 && stable < 4; i++ {
		st, err := matchStream(idx, qSpec{Kind: "all"})
		if err == nil && prev != nil && sameStream(st, prev) {
			stable++
		} else {
			stable = 0
		}
		prev = st
		time.Sleep(30 * time.Millisecond)
	}
}

type prepared struct {
	sc     eScenario
	si     int
	hist   []ebatch
	live   map[string]*edoc
	idx    bleve.Index
	closer func()
	specs  []sortSpec
}

func (m *monitor) prepare(si int, sc eScenario) *prepared {
	r := m.r
	g := r.Rng(fmt.Sprintf("B/%d/%s", si, sc.Engine))
	hist := genHistory(g, sc.NDocs, sc.NBatches)
	live := replayModel(hist)
	r.Journal(map[string]any{"workload": "B", "scenario_index": si, "scenario": sc}) // history is a function of (seed, si, engine)
	idx, closer, err := m.buildIndex(sc.Engine, hist)
	if err != nil {
		r.Violation("index/build-error", err.Error(), map[string]any{"engine": sc.Engine})
		return nil
	}
	if sc.Engine == "scorch-disk" {
		m.settle(idx)
	}
	r.Count("B.scenarios", 1)
	r.Count("B.engine."+sc.Engine, 1)
	r.Count("B.live_docs", len(live))
	return &prepared{sc: sc, si: si, hist: hist, live: live, idx: idx, closer: closer, specs: eSpecs(g, sc.NCombos)}
}

// runItem: one (index, query, sort spec) group; everything random in it derives from the indices.
func (m *monitor) runItem(p *prepared, qi, spi int) {
	r := m.r
	q, spec := p.sc.Queries[qi], p.specs[spi]
	for attempt := 0; attempt < 3; attempt++ {
		g := r.Rng(fmt.Sprintf("B/item/%d/%d/%d", p.si, qi, spi))
		st, err := matchStream(p.idx, q)
		if err != nil {
			r.Inconclusive("match stream: " + err.Error())
			return
		}
		rows, err := erows(spec, st, p.live)
		if err != nil {
			r.Inconclusive("stream/model mismatch (C02 territory)")
			return
		}
		fails, cases, counts := m.runGroup(p.idx, p.sc, p.hist, q, spec, rows, g)
		st2, err := matchStream(p.idx, q)
		if err != nil || !sameStream(st, st2) {
			r.Count("B.layout_changed_retry", 1)
			if attempt == 2 {
				r.Inconclusive("index layout kept changing during the case")
			}
			continue
		}
		for _, cs := range cases {
			r.Case(cs.key, cs.nontrivial)
		}
		for k, v := range counts {
			r.Count(k, v)
		}
		for _, fl := range fails {
			m.reportE(fl.c, fl.f)
		}
		return
	}
}

type caseRec struct {
	key        string
	nontrivial bool
}

type failRec struct {
	c *eCase
	f *failure
}

// runGroup: all pages and chains of one (index, query, sort spec).
func (m *monitor) runGroup(idx bleve.Index, sc eScenario, hist []ebatch, q qSpec, spec sortSpec, rows []mrow, g *rng.Rand) (fails []failRec, cases []caseRec, counts map[string]int) {
	counts = map[string]int{}
	count := func(k string, n int) { counts[k] += n }
	r := m.r
	L := fullOrder(spec, rows)
	n := len(rows)
	seenClass := map[string]bool{}
	addFail := func(f *failure, mode string, size, from int, anchor string) {
		if seenClass[f.Class] {
			return
		}
		seenClass[f.Class] = true
		fails = append(fails, failRec{&eCase{Engine: sc.Engine, History: hist, Query: q, Spec: spec, Mode: mode, Size: size, From: from, AnchorID: anchor}, f})
	}
	keyBase := fmt.Sprintf("B|%s|%d|%d|%s%s|%s|", sc.Engine, sc.NDocs, n, q.Kind, q.Text, spec)
	sampled := false
	// 1. From/Size pages must tile the ordering
	for _, k := range sc.PageSizes {
		nontrivial := false
		var concat []string
		pages := 0
		for from := 0; ; from += k {
			p := pageReq{Size: k, From: from}
			out, err := doSearch(idx, q, spec, p)
			count("B.searches", 1)
			if err != nil {
				addFail(&failure{Class: "index/error/" + engineFamily(sc.Engine) + "/" + spec.shape(), Summary: err.Error(), Detail: withStack(map[string]any{"request": p}, err)}, "page", k, from, "")
				break
			}
			if f := judgeE(sc.Engine, "page", spec, p, out, slice(L, from, k), rows); f != nil {
				addFail(f, "page", k, from, "")
			}
			concat = append(concat, out.ids()...)
			pages++
			count("B.hits_compared", len(out.Hits))
			if tieOnFirstKeyAt(spec, L, from) || tieOnFirstKeyAt(spec, L, from+k) || crossesSwitch(k, from, n) {
				nontrivial = true
			}
			if fullTieAt(spec, L, from+k) {
				count("B.page_boundary_full_tie", 1)
			}
			if from >= n || k == 0 {
				break
			}
		}
		if k > 0 && !eqStrings(concat, ids(L)) {
			addFail(&failure{Class: "index/tiling/" + engineFamily(sc.Engine) + "/" + spec.shape(),
				Summary: fmt.Sprintf("%s sort=[%s] pages of %d do not tile the ordering", sc.Engine, spec, k),
				Detail:  map[string]any{"concatenated": concat, "want": ids(L)}}, "page", n+1, 0, "")
		}
		count("B.tilings", 1)
		count("B.pages", pages)
		cases = append(cases, caseRec{keyBase + fmt.Sprintf("tile|%d", k), nontrivial})
		if !sampled && nontrivial && n > k {
			sampled = true
			r.Sample(map[string]any{"workload": "B", "engine": sc.Engine, "query": q, "sort": spec.String(), "page_size": k, "matches": n,
				"pages": pages, "order_head": ids(slice(L, 0, 6))})
		}
	}
	if !spec.total() || n == 0 {
		return
	}
	// 2. chains (total orders only)
	for _, k := range sc.ChainSizes {
		if k <= 0 {
			continue
		}
		nontrivial := false
		// forward
		out, err := doSearch(idx, q, spec, pageReq{Size: k})
		count("B.searches", 1)
		if err != nil {
			continue
		}
		pos := 0 // number of hits consumed
		var lastHit *hitView
		var fwd []string
		steps := 0
		for {
			fwd = append(fwd, out.ids()...)
			pos += len(out.Hits)
			if len(out.Hits) == 0 || pos > n {
				break
			}
			lastHit = &out.Hits[len(out.Hits)-1]
			apos := pos - 1
			if L[apos].id != lastHit.ID {
				break // the page itself was already wrong and reported by the page check / previous step
			}
			if tieOnFirstKeyAt(spec, L, pos) || crossesSwitch(k, 0, n-pos) {
				nontrivial = true
			}
			var next *collOut
			f := m.stepFrom(idx, sc.Engine, q, spec, "after", k, lastHit, apos, L, rows, &next)
			count("B.searches", 1)
			count("B.after_steps", 1)
			steps++
			if f != nil {
				addFail(f, "after", k, 0, lastHit.ID)
				// keep walking with From/Size so the rest of the chain is still exercised
				next, err = doSearch(idx, q, spec, pageReq{Size: k, From: pos})
				if err != nil {
					break
				}
			}
			out = next
		}
		if !eqStrings(fwd, ids(L)) && len(fails) == 0 {
			addFail(&failure{Class: "index/after-chain/" + engineFamily(sc.Engine) + "/" + spec.shape(),
				Summary: fmt.Sprintf("%s sort=[%s] SearchAfter chain of %d does not reproduce the ordering", sc.Engine, spec, k),
				Detail:  map[string]any{"chain": fwd, "want": ids(L)}}, "page", n+1, 0, "")
		}
		count("B.after_chains", 1)
		cases = append(cases, caseRec{keyBase + fmt.Sprintf("after-chain|%d", k), nontrivial})
		// backward from the last hit of the ordering
		nontrivial = false
		tail, err := doSearch(idx, q, spec, pageReq{Size: 1, From: n - 1})
		count("B.searches", 1)
		if err != nil || len(tail.Hits) != 1 || tail.Hits[0].ID != L[n-1].id {
			continue
		}
		anchor := &tail.Hits[0]
		apos := n - 1
		bwd := []string{anchor.ID}
		for apos > 0 {
			if tieOnFirstKeyAt(spec, L, apos) || crossesSwitch(k, 0, apos) {
				nontrivial = true
			}
			var prevPage *collOut
			f := m.stepFrom(idx, sc.Engine, q, spec, "before", k, anchor, apos, L, rows, &prevPage)
			count("B.searches", 1)
			count("B.before_steps", 1)
			if f != nil {
				addFail(f, "before", k, 0, anchor.ID)
				var err error
				prevPage, err = doSearch(idx, q, spec, pageReq{Size: min(k, apos), From: max(apos-k, 0)})
				if err != nil {
					break
				}
			}
			if len(prevPage.Hits) == 0 {
				break
			}
			pre := prevPage.ids()
			bwd = append(append([]string(nil), pre...), bwd...)
			apos -= len(prevPage.Hits)
			if apos < 0 || L[apos].id != prevPage.Hits[0].ID {
				break
			}
			anchor = &prevPage.Hits[0]
		}
		if apos == 0 {
			// one more step from the very first hit must give an empty page
			var pp *collOut
			if f := m.stepFrom(idx, sc.Engine, q, spec, "before", k, anchor, 0, L, rows, &pp); f != nil {
				addFail(f, "before", k, 0, anchor.ID)
			}
			count("B.searches", 1)
		}
		if !eqStrings(bwd, ids(L)) && len(fails) == 0 {
			addFail(&failure{Class: "index/before-chain/" + engineFamily(sc.Engine) + "/" + spec.shape(),
				Summary: fmt.Sprintf("%s sort=[%s] SearchBefore chain of %d does not reproduce the ordering", sc.Engine, spec, k),
				Detail:  map[string]any{"chain": bwd, "want": ids(L)}}, "page", n+1, 0, "")
		}
		count("B.before_chains", 1)
		cases = append(cases, caseRec{keyBase + fmt.Sprintf("before-chain|%d", k), nontrivial})
	}
	// 3. SearchAfter / SearchBefore started from arbitrary hits
	full, err := doSearch(idx, q, spec, pageReq{Size: n + 1})
	count("B.searches", 1)
	if err != nil || !eqStrings(full.ids(), ids(L)) {
		return
	}
	for a := 0; a < 3; a++ {
		pos := g.Intn(n)
		size := rng.Pick(g, []int{0, 1, 2, 5, 10, 11, n})
		for _, mode := range []string{"after", "before"} {
			f := m.stepFrom(idx, sc.Engine, q, spec, mode, size, &full.Hits[pos], pos, L, rows, nil)
			count("B.searches", 1)
			count("B.anchored_"+mode, 1)
			if f != nil {
				addFail(f, mode, size, 0, full.Hits[pos].ID)
			}
			var nt bool
			if mode == "after" {
				nt = tieOnFirstKeyAt(spec, L, pos+1) || tieOnFirstKeyAt(spec, L, pos+1+size) || crossesSwitch(size, 0, n-pos-1)
			} else {
				nt = tieOnFirstKeyAt(spec, L, pos) || tieOnFirstKeyAt(spec, L, pos-size) || crossesSwitch(size, 0, pos)
			}
			cases = append(cases, caseRec{keyBase + fmt.Sprintf("%s|%d|%s", mode, size, full.Hits[pos].ID), nt})
		}
	}
	return
}

func (m *monitor) scenarios() []eScenario {
	r := m.r
	g := r.Rng("B/scenarios")
	queries := func() []qSpec {
		return []qSpec{{Kind: "all"}, {Kind: "match", Text: rng.Pick(g, []string{"alpha beta", "alpha gamma alps", "beta bet delta"})},
			{Kind: "bool", Text: rng.Pick(g, []string{"alpha", "gamma delta"})}}
	}
	var out []eScenario
	small := r.Scale(2, 24)
	engines := []string{"scorch-mem", "upsidedown-gtreap", "scorch-disk", "upsidedown-bolt"}
	pageSizes, chainSizes := []int{1, 3, 10, 11, 100}, []int{1, 4, 11}
	if r.Thorough() {
		pageSizes, chainSizes = []int{1, 3, 7, 10, 11, 100}, []int{1, 4, 10, 11}
	}
	for i := 0; i < small; i++ {
		for _, e := range engines {
			if !r.Thorough() && (e == "upsidedown-bolt" || e == "scorch-disk") && i > 0 {
				continue
			}
			out = append(out, eScenario{Engine: e, NDocs: g.Range(25, 70), NBatches: g.Range(2, 6), Queries: queries(),
				NCombos: r.Scale(20, 60), PageSizes: pageSizes, ChainSizes: chainSizes, SpecEvery: r.Scale(2, 1)})
		}
	}
	// corpora with more than 1000 matches: the preallocation cap
	big := r.Scale(1, 4)
	for i := 0; i < big; i++ {
		for _, e := range []string{"scorch-mem", "upsidedown-gtreap"} {
			out = append(out, eScenario{Engine: e, NDocs: g.Range(1080, 1250), NBatches: g.Range(3, 5),
				Queries: []qSpec{{Kind: "all"}, {Kind: "bool", Text: "alpha beta"}}, NCombos: 10,
				PageSizes: []int{1000, 1001, 333, 999}, ChainSizes: []int{1000, 1001, 400}, SpecEvery: r.Scale(8, 2)})
		}
	}
	return out
}

func (m *monitor) runE2E() {
	scs := m.scenarios()
	preps := make([]*prepared, len(scs))
	parallel(len(scs), func(i int) { preps[i] = m.prepare(i, scs[i]) })
	type item struct {
		p       *prepared
		qi, spi int
	}
	var items []item
	for _, p := range preps {
		if p == nil {
			continue
		}
		for qi := range p.sc.Queries {
			for spi := range p.specs {
				if p.sc.SpecEvery > 1 && spi%p.sc.SpecEvery != (p.si+qi)%p.sc.SpecEvery {
					continue
				}
				items = append(items, item{p, qi, spi})
			}
		}
	}
	if os.Getenv("C06_DEBUG") != "" {
		fmt.Fprintf(os.Stderr, "c06: %d scenarios prepared, %d items\n", len(preps), len(items))
	}
	parallel(len(items), func(i int) { m.runItem(items[i].p, items[i].qi, items[i].spi) })
	for _, p := range preps {
		if p != nil {
			p.closer()
		}
	}
}
