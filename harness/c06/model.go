package c06

// Reference model of C06: "sort all matches by the specification, ties by arrival order, then slice".
// Nothing here uses the collector, the stores, search.SortOrder.Compare or the missing-value sentinels
// of the implementation: a sort key value is (missing | bytes | number) and is compared as such.

import (
	"sort"
	"strings"

	"github.com/blevesearch/bleve/v2/search"
)

// keySpec is one key of a sort specification.
type keySpec struct {
	Kind         string `json:"kind"` // score | id | field
	Field        string `json:"field,omitempty"`
	Desc         bool   `json:"desc,omitempty"`
	Type         string `json:"type,omitempty"` // auto | string | number | date
	Mode         string `json:"mode,omitempty"` // default | min | max
	MissingFirst bool   `json:"missing_first,omitempty"`
}

type sortSpec []keySpec

func (k keySpec) String() string {
	d := ""
	if k.Desc {
		d = "-"
	}
	switch k.Kind {
	case "score":
		return d + "_score"
	case "id":
		return d + "_id"
	}
	m := "last"
	if k.MissingFirst {
		m = "first"
	}
	return d + k.Field + ":" + k.Type + ":" + k.Mode + ":" + m
}

func (s sortSpec) String() string {
	parts := make([]string, len(s))
	for i, k := range s {
		parts[i] = k.String()
	}
	return strings.Join(parts, ",")
}

// shape is the coarse form used in violation classes: the first key as "-_score" / "_score" / "_id" /
// "field" / "typed-field" (number or date typed), ",.." when more keys follow and ",_id" when an id key
// makes the order total; the full specification is in the witness.
func (s sortSpec) shape() string {
	if len(s) == 0 {
		return "none"
	}
	var out string
	switch k := s[0]; {
	case k.Kind == "score":
		out = k.String()
	case k.Kind == "id":
		out = "_id"
	case k.Type == "number" || k.Type == "date":
		out = "typed-field"
	default:
		out = "field"
	}
	if len(s) > 2 || (len(s) == 2 && s[1].Kind != "id") {
		out += ",.."
	}
	if len(s) > 1 && s.total() && s[0].Kind != "id" {
		out += ",_id"
	}
	return out
}

// total reports whether the specification is a total order on documents (ids are unique).
func (s sortSpec) total() bool {
	for _, k := range s {
		if k.Kind == "id" {
			return true
		}
	}
	return false
}

// build creates fresh bleve sort objects (they are stateful, never share them between runs).
func (s sortSpec) build() search.SortOrder {
	so := make(search.SortOrder, 0, len(s))
	for _, k := range s {
		switch k.Kind {
		case "score":
			so = append(so, &search.SortScore{Desc: k.Desc})
		case "id":
			so = append(so, &search.SortDocID{Desc: k.Desc})
		default:
			sf := &search.SortField{Field: k.Field, Desc: k.Desc}
			switch k.Type {
			case "string":
				sf.Type = search.SortFieldAsString
			case "number":
				sf.Type = search.SortFieldAsNumber
			case "date":
				sf.Type = search.SortFieldAsDate
			default:
				sf.Type = search.SortFieldAuto
			}
			switch k.Mode {
			case "min":
				sf.Mode = search.SortFieldMin
			case "max":
				sf.Mode = search.SortFieldMax
			default:
				sf.Mode = search.SortFieldDefault
			}
			if k.MissingFirst {
				sf.Missing = search.SortFieldMissingFirst
			} else {
				sf.Missing = search.SortFieldMissingLast
			}
			so = append(so, sf)
		}
	}
	return so
}

// mval is the value of one field sort key for one match as the model sees it.
type mval struct {
	missing bool
	kind    byte // 'b' bytes, 'i' integer order, 'f' float order
	b       string
	i       int64
	f       float64
}

func cmpVal(a, b mval) int {
	switch {
	case a.kind == 'i' && b.kind == 'i':
		if a.i < b.i {
			return -1
		} else if a.i > b.i {
			return 1
		}
		return 0
	case a.kind == 'f' && b.kind == 'f':
		if a.f < b.f {
			return -1
		} else if a.f > b.f {
			return 1
		}
		return 0
	}
	return strings.Compare(a.b, b.b)
}

// mrow is one match: arrival position, id, score and the value of every sort key.
type mrow struct {
	arrival int
	id      string
	score   float64
	keys    []mval // index = position in the sort spec (unused for score/id keys)
}

// cmpKeys compares two matches on the sort keys only (0 = tie, to be broken by arrival order).
func cmpKeys(spec sortSpec, a, b *mrow) int {
	for x, k := range spec {
		c := cmpKey(k, x, a, b)
		if c != 0 {
			return c
		}
	}
	return 0
}

func cmpKey(k keySpec, x int, a, b *mrow) int {
	c := 0
	switch k.Kind {
	case "score":
		if a.score < b.score {
			c = -1
		} else if a.score > b.score {
			c = 1
		}
	case "id":
		c = strings.Compare(a.id, b.id)
	default:
		va, vb := a.keys[x], b.keys[x]
		switch {
		case va.missing && vb.missing:
			return 0
		case va.missing:
			if k.MissingFirst {
				return -1
			}
			return 1
		case vb.missing:
			if k.MissingFirst {
				return 1
			}
			return -1
		}
		c = cmpVal(va, vb)
	}
	if k.Desc {
		c = -c
	}
	return c
}

// fullOrder returns the matches in the order the property demands: sorted by spec, ties by arrival.
func fullOrder(spec sortSpec, rows []mrow) []*mrow {
	out := make([]*mrow, len(rows))
	for i := range rows {
		out[i] = &rows[i]
	}
	sort.SliceStable(out, func(i, j int) bool {
		c := cmpKeys(spec, out[i], out[j])
		if c != 0 {
			return c < 0
		}
		return out[i].arrival < out[j].arrival
	})
	return out
}

func slice(L []*mrow, from, size int) []*mrow {
	if from > len(L) {
		from = len(L)
	}
	end := from + size
	if end > len(L) {
		end = len(L)
	}
	return L[from:end]
}

func ids(L []*mrow) []string {
	out := make([]string, len(L))
	for i, m := range L {
		out[i] = m.id
	}
	return out
}

func maxScore(rows []mrow) float64 {
	mx := 0.0
	for i := range rows {
		if rows[i].score > mx {
			mx = rows[i].score
		}
	}
	return mx
}

// tieOnFirstKeyAt says whether the items on both sides of boundary position p (between L[p-1] and
// L[p]) are equal on the first sort key, i.e. later keys or the arrival order decide who is on the page.
func tieOnFirstKeyAt(spec sortSpec, L []*mrow, p int) bool {
	if p <= 0 || p >= len(L) || len(spec) == 0 {
		return false
	}
	return cmpKey(spec[0], 0, L[p-1], L[p]) == 0
}

// fullTieAt: all keys equal across the boundary (only arrival order decides).
func fullTieAt(spec sortSpec, L []*mrow, p int) bool {
	if p <= 0 || p >= len(L) {
		return false
	}
	return cmpKeys(spec, L[p-1], L[p]) == 0
}

// crossesSwitch: size+from sits at the slice/heap switch (10/11) or the preallocation cap (1000/1001)
// and there are more matches than that, so the bounded store really evicts.
func crossesSwitch(size, from, n int) bool {
	t := size + from
	if n <= t {
		return false
	}
	return (t >= 9 && t <= 12) || (t >= 999 && t <= 1002)
}

func storeName(size, from int) string {
	t := size + from
	switch {
	case t <= 10:
		return "slice"
	case t <= 1000:
		return "heap"
	}
	return "heap-capped"
}

func eqStrings(a, b []string) bool {
	if len(a) != len(b) {
		return false
	}
	for i := range a {
		if a[i] != b[i] {
			return false
		}
	}
	return true
}

func firstDiff(a, b []string) int {
	n := len(a)
	if len(b) < n {
		n = len(b)
	}
	for i := 0; i < n; i++ {
		if a[i] != b[i] {
			return i
		}
	}
	if len(a) != len(b) {
		return n
	}
	return -1
}
