package c06

// Regression witnesses of defects this monitor found on the unchanged tree (replayed on every run) and
// the --replay entry point.

import (
	"encoding/json"
	"fmt"
	"os"
)

func numField(v float64) []term { return numTerms('n', v, 0, true, nil) }

// D1: a number/date typed sort key of a hit that lacks the field is the missing-value sentinel
// (search.HighTerm / search.LowTerm, also in DecodedSort). encodeSearchAfter runs it through
// strconv.ParseFloat / time.Parse, ignores the error and encodes 0 / the zero time instead, so
// SearchAfter/SearchBefore started from such a hit return the wrong page (the same hit again, or
// nothing).
func regressionCasesA() []*aCase {
	noField := func(id string, num uint64) amatch {
		return amatch{Num: num, ID: id, Score: 1, Fields: map[string][]term{}}
	}
	withNum := func(id string, num uint64, v float64) amatch {
		return amatch{Num: num, ID: id, Score: 1, Fields: map[string][]term{"n": numField(v)}}
	}
	date := func(id string, num uint64, nanos int64) amatch {
		return amatch{Num: num, ID: id, Score: 1, Fields: map[string][]term{"d": numTerms('d', 0, nanos, true, nil)}}
	}
	var out []*aCase
	for _, typ := range []string{"number", "date"} {
		field := "n"
		ms := []amatch{withNum("a", 1, -2), noField("b", 2), noField("c", 3), withNum("d", 4, 5)}
		if typ == "date" {
			field = "d"
			ms = []amatch{date("a", 1, -5e9), noField("b", 2), noField("c", 3), date("d", 4, 1600000000e9)}
		}
		for _, desc := range []bool{false, true} {
			for _, first := range []bool{false, true} {
				spec := sortSpec{{Kind: "field", Field: field, Type: typ, Mode: "default", Desc: desc, MissingFirst: first}, {Kind: "id"}}
				for _, anchor := range []string{"b", "c"} {
					for _, mode := range []string{"after", "before"} {
						out = append(out, &aCase{Mode: mode, Spec: spec, Size: 10, AnchorID: anchor, Matches: ms})
					}
				}
			}
		}
	}
	return out
}

func regressionCasesE() []*eCase {
	f := func(v float64) *float64 { return &v }
	hist := []ebatch{{
		{Doc: &edoc{ID: "a", T: "alpha", N: f(3)}},
		{Doc: &edoc{ID: "b", T: "alpha"}},
		{Doc: &edoc{ID: "c", T: "alpha"}},
		{Doc: &edoc{ID: "d", T: "alpha", N: f(-1)}},
	}}
	var out []*eCase
	for _, engine := range []string{"scorch-mem", "upsidedown-gtreap"} {
		for _, first := range []bool{false, true} {
			spec := sortSpec{{Kind: "field", Field: "n", Type: "number", Mode: "default", MissingFirst: first}, {Kind: "id"}}
			for _, mode := range []string{"after", "before"} {
				out = append(out, &eCase{Engine: engine, History: hist, Query: qSpec{Kind: "all"}, Spec: spec, Mode: mode, Size: 1, AnchorID: "b"})
			}
		}
	}
	return out
}

func (m *monitor) regressions() {
	r := m.r
	for i, c := range regressionCasesA() {
		f := runACase(c)
		r.Case(fmt.Sprintf("regression|A|%d", i), true)
		r.Count("regression_cases", 1)
		if f != nil {
			m.reportA(c, f)
		}
	}
	for i, c := range regressionCasesE() {
		f := m.runECase(c)
		r.Case(fmt.Sprintf("regression|B|%d", i), true)
		r.Count("regression_cases", 1)
		if f != nil {
			if m.firstOfClass(f.Class) {
				r.Violation(f.Class, f.Summary, f.Detail)
			}
		}
	}
}

// replay re-executes the case stored in a replay file written by this monitor.
func (m *monitor) replay(path string) {
	r := m.r
	b, err := os.ReadFile(path)
	if err != nil {
		r.Inconclusive("replay: " + err.Error())
		return
	}
	var doc struct {
		Class   string `json:"class"`
		Witness struct {
			Case json.RawMessage `json:"case"`
		} `json:"witness"`
	}
	if err := json.Unmarshal(b, &doc); err != nil || len(doc.Witness.Case) == 0 {
		r.Inconclusive("replay: file has no witness.case")
		return
	}
	var probe struct {
		Engine string `json:"engine"`
	}
	_ = json.Unmarshal(doc.Witness.Case, &probe)
	var f *failure
	if probe.Engine != "" {
		var c eCase
		if err := json.Unmarshal(doc.Witness.Case, &c); err != nil {
			r.Inconclusive("replay: " + err.Error())
			return
		}
		f = m.runECase(&c)
	} else {
		var c aCase
		if err := json.Unmarshal(doc.Witness.Case, &c); err != nil {
			r.Inconclusive("replay: " + err.Error())
			return
		}
		f = runACase(&c)
	}
	r.Case("replay|"+path, true)
	if f != nil {
		r.Violation(f.Class, f.Summary, f.Detail)
	} else {
		fmt.Printf("replay: %s no longer fails (class %s)\n", path, doc.Class)
	}
}
