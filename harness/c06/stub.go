package c06

// Stub search.Searcher and index.IndexReader / index.DocValueReader feeding the real TopNCollector an
// arbitrary match stream. They honour the contracts the collector may rely on (ids ascending, the
// DocumentMatch comes from the context's pool, doc-value term slices are only valid until the next
// VisitDocValues call) and nothing more.

import (
	"context"
	"encoding/binary"
	"fmt"

	"github.com/blevesearch/bleve/v2/search"
	index "github.com/blevesearch/bleve_index_api"
)

// term is one doc-value term of a field. Kind 't' = text bytes, 'n' = prefix-coded float64,
// 'd' = prefix-coded unix-nanos; Shift > 0 marks the lower-precision terms a numeric field also indexes.
type term struct {
	Raw   []byte  `json:"raw"`
	Kind  byte    `json:"kind"`
	F     float64 `json:"f,omitempty"`
	I     int64   `json:"i,omitempty"`
	Shift uint    `json:"shift,omitempty"`
}

// amatch is one element of a collector-level match stream.
type amatch struct {
	Num    uint64            `json:"num"` // internal doc number, strictly ascending in the stream
	ID     string            `json:"id"`
	Score  float64           `json:"score"`
	Fields map[string][]term `json:"fields,omitempty"` // visiting order
}

type stubSearcher struct {
	ms       []amatch
	pos      int
	poolSize int
}

func (s *stubSearcher) fill(ctx *search.SearchContext, m *amatch) *search.DocumentMatch {
	rv := ctx.DocumentMatchPool.Get()
	rv.IndexInternalID = index.NewIndexInternalID(rv.IndexInternalID, m.Num)
	rv.Score = m.Score
	return rv
}

func (s *stubSearcher) Next(ctx *search.SearchContext) (*search.DocumentMatch, error) {
	if s.pos < len(s.ms) {
		m := &s.ms[s.pos]
		s.pos++
		return s.fill(ctx, m), nil
	}
	return nil, nil
}

func (s *stubSearcher) Advance(ctx *search.SearchContext, ID index.IndexInternalID) (*search.DocumentMatch, error) {
	var want uint64
	if len(ID) == 8 {
		want = binary.BigEndian.Uint64(ID)
	}
	for s.pos < len(s.ms) && s.ms[s.pos].Num < want {
		s.pos++
	}
	return s.Next(ctx)
}

func (s *stubSearcher) Close() error               { return nil }
func (s *stubSearcher) Weight() float64            { return 0 }
func (s *stubSearcher) SetQueryNorm(float64)       {}
func (s *stubSearcher) Count() uint64              { return uint64(len(s.ms)) }
func (s *stubSearcher) Min() int                   { return 0 }
func (s *stubSearcher) Size() int                  { return 64 }
func (s *stubSearcher) DocumentMatchPoolSize() int { return s.poolSize }

type stubReader struct {
	byNum map[uint64]*amatch
	byID  map[string]*amatch
}

func newStubReader(ms []amatch) *stubReader {
	r := &stubReader{byNum: make(map[uint64]*amatch, len(ms)), byID: make(map[string]*amatch, len(ms))}
	for i := range ms {
		r.byNum[ms[i].Num] = &ms[i]
		r.byID[ms[i].ID] = &ms[i]
	}
	return r
}

func (r *stubReader) TermFieldReader(ctx context.Context, term []byte, field string, includeFreq, includeNorm, includeTermVectors bool) (index.TermFieldReader, error) {
	return nil, fmt.Errorf("stub: not supported")
}
func (r *stubReader) DocIDReaderAll() (index.DocIDReader, error) { return nil, fmt.Errorf("stub") }
func (r *stubReader) DocIDReaderOnly(ids []string) (index.DocIDReader, error) {
	return nil, fmt.Errorf("stub")
}
func (r *stubReader) FieldDict(field string) (index.FieldDict, error) { return nil, fmt.Errorf("stub") }
func (r *stubReader) FieldDictRange(field string, startTerm []byte, endTerm []byte) (index.FieldDict, error) {
	return nil, fmt.Errorf("stub")
}
func (r *stubReader) FieldDictPrefix(field string, termPrefix []byte) (index.FieldDict, error) {
	return nil, fmt.Errorf("stub")
}
func (r *stubReader) Document(id string) (index.Document, error) { return nil, nil }
func (r *stubReader) Fields() ([]string, error)                  { return nil, nil }
func (r *stubReader) GetInternal(key []byte) ([]byte, error)     { return nil, nil }
func (r *stubReader) DocCount() (uint64, error)                  { return uint64(len(r.byNum)), nil }
func (r *stubReader) Close() error                               { return nil }

func (r *stubReader) ExternalID(id index.IndexInternalID) (string, error) {
	if len(id) != 8 {
		return "", fmt.Errorf("stub: bad internal id %x", []byte(id))
	}
	m := r.byNum[binary.BigEndian.Uint64(id)]
	if m == nil {
		return "", fmt.Errorf("stub: unknown internal id %x", []byte(id))
	}
	return m.ID, nil
}

func (r *stubReader) InternalID(id string) (index.IndexInternalID, error) {
	m := r.byID[id]
	if m == nil {
		return nil, nil
	}
	return index.NewIndexInternalID(nil, m.Num), nil
}

func (r *stubReader) DocValueReader(fields []string) (index.DocValueReader, error) {
	return &stubDV{r: r, fields: append([]string(nil), fields...)}, nil
}

type stubDV struct {
	r       *stubReader
	fields  []string
	scratch []byte
}

func (d *stubDV) BytesRead() uint64 { return 0 }

// VisitDocValues hands out slices of one scratch buffer that is overwritten by the next call — the
// same lifetime the scorch doc-value reader gives.
func (d *stubDV) VisitDocValues(id index.IndexInternalID, visitor index.DocValueVisitor) error {
	if len(id) != 8 {
		return fmt.Errorf("stub: bad internal id %x", []byte(id))
	}
	m := d.r.byNum[binary.BigEndian.Uint64(id)]
	if m == nil {
		return fmt.Errorf("stub: unknown internal id %x", []byte(id))
	}
	need := 0
	for _, f := range d.fields {
		for _, t := range m.Fields[f] {
			need += len(t.Raw)
		}
	}
	if cap(d.scratch) < need {
		d.scratch = make([]byte, need)
	}
	buf := d.scratch[:need]
	for i := range buf {
		buf[i] = 0xEE
	}
	off := 0
	for _, f := range d.fields {
		for _, t := range m.Fields[f] {
			n := copy(buf[off:], t.Raw)
			visitor(f, buf[off:off+n:off+n])
			off += n
		}
	}
	return nil
}
