// Package c07 is the runtime monitor of property C07: numeric and date values
// sort and range-match exactly as numbers.
package c07

import (
	"fmt"
	"math"
	"time"

	"verifharness/ev"
)

const clsBlowup = "range-enumeration-blowup/term-range-straddles-7bit-group"

func init() { ev.Register("C07", "exploration", run) }

func run(r *ev.Run) {
	r.Rule = "Cases are (a) int64 ranges [lo,hi] given to the real range splitter (all ordered pairs of the boundary image set " +
		"{0, +-2^p +-1 for p=0..62, images of +-Inf/+-MaxFloat/ordinary floats +-1ulp, int64 extremes, seeded values aligned to every " +
		"4-bit step and 7-bit group, seeded randoms} plus narrow windows x-a*2^s..x+b*2^s around each of them for every step s), " +
		"(b) NumericRangeQuery/DateRangeQuery (min,max in boundary set or open, inclusive flags nil/true/false, min>max included) run " +
		"through Index.Search on scorch and upsidedown/gtreap against single- and multi-valued documents holding the boundary values, " +
		"(c) sorted searches by the numeric/date field (asc/desc, first/min/max value, forced and auto type). " +
		"A range case is non-trivial when its split uses >= 3 precision levels or an end of the effective int64 range sits on a " +
		"4-bit step boundary (low nibble 0x0 or 0xf); a sort case when the hits carry >= 3 distinct keys. Distinct = distinct " +
		"(lo,hi) / (query) / (query,sort spec); the two engines run the same case."
	r.Assumptions = []string{
		"NaN and negative zero are outside the quantifier: never used as document value or bound (image -1 is used for dates only).",
		"An open end of a numeric range is the documented bound -Inf/+Inf with the (defaulted) inclusive flag, so a document holding " +
			"+-Inf is not required to match an open end whose flag is exclusive (counted, not flagged); every finite value must match. " +
			"An open end of a date range admits every representable timestamp.",
		"'Terminates' is checked as bounded work: the byte strings the searcher walks for one query must stay below 2^24 (a correct " +
			"split needs <= 31 ranges x 16 terms). Whether the real enumeration walks byte-wise is measured on a calibration ladder; " +
			"enumerations predicted above the bound are reported without being executed, everything else is executed.",
		"Date query end points are drawn from the window the query layer accepts (1677-12-01T00:00:00Z .. 2262-04-11T11:59:59Z); " +
			"document timestamps cover the whole int64 nanosecond range.",
		"DisjunctionMaxClauseCount is left at its default 0 (no clause limit), so no range may be rejected for size.",
	}
	shrinkBudget.Store(40)
	// wall time per phase: information for the evidence file only, no oracle reads it
	phases := map[string]float64{}
	last := time.Now()
	phase := func(name string) {
		phases[name] += time.Since(last).Seconds()
		last = time.Now()
		r.Extra("phase_wall_s", phases)
	}

	st := calibrate(r)
	if st.mode == modeUnknown {
		r.Inconclusive("enumeration calibration did not classify the implementation")
	}

	phase("calibration")
	if regressionWitnesses(r, st) {
		// a range query that does not return: the end-to-end workload would hang on
		// the same defect, the violation is already recorded with its witness
		r.MinDistinct = 0
		return
	}
	phase("regression")

	g := r.Rng("images")
	imgs := boundaryImages(g, r.Scale(60, 500))
	numImgs := filterNumeric(imgs)
	r.Extra("boundary_images", len(imgs))
	r.Extra("boundary_floats", len(numImgs))

	// clause 1: encoding order and value
	checkEncoding(r, imgs)
	phase("encoding")

	// oracle 1: splitter cover by interval arithmetic, and bounded enumeration
	cases := buildSplitCases(r, imgs, r.Scale(3, 24))
	checkSplits(r, st, cases, r.Scale(8, 2))
	r.Extra("max_enumerated_terms_observed", maxEnumerated.Load())
	phase("split")

	// oracle 2: end to end
	for _, k := range []kind{kNum, kDate} {
		vals := imgs
		core := coreDateImages()
		if k == kNum {
			vals = numImgs
			core = coreNumericImages()
		}
		gc := r.Rng("corpus-" + k.String())
		c := buildCorpus(k, vals, gc, r.Scale(150, 500), 5)
		var engs []engineIdx
		for _, en := range engines {
			idx, err := buildIndex(en, c, r.Rng("index-"+k.String()+"-"+en), r.Scale(97, 211))
			if err != nil {
				r.Violation(k.String()+"-index/build-error", err.Error(), map[string]any{"engine": en})
				continue
			}
			if n, _ := idx.DocCount(); n != uint64(len(c.docs)) {
				r.Violation(k.String()+"-index/doc-count", fmt.Sprintf("%s holds %d of %d documents", en, n, len(c.docs)), nil)
			}
			engs = append(engs, engineIdx{en, idx})
		}
		r.Count("docs_"+k.String(), len(c.docs))
		phase("index-" + k.String())
		qs := crossQueries(k, core)
		qs = append(qs, randomQueries(k, vals, r.Rng("queries-"+k.String()), r.Scale(12000, 200000))...)
		runRangeQueries(r, st, engs, c, qs, "main", 16)
		phase("range-queries-" + k.String())
		r.JournalReset()
		runSortChecks(r, engs, c, r.Scale(30, 400), r.Rng("sorts-"+k.String()), qs, st)
		for _, e := range engs {
			_ = e.idx.Close()
		}
		r.JournalReset()
		phase("sort-" + k.String())
	}
	r.MinDistinct = r.Scale(100000, 500000)
}

// regressionWitnesses replays the shrunk witnesses of the defects this monitor
// found on the pinned tree, first thing on every run.
func regressionWitnesses(r *ev.Run, st *enumState) (hungQuery bool) {
	t := true
	one := refFloatToImg(1.0)
	y2000 := int64(946684800000000000)

	// (1) narrow ranges whose single term range straddles 7-bit groups
	blow := []rangeQ{
		{Kind: kNum, Lo: ptr(one - 1), Hi: ptr(one), IL: &t, IH: &t},  // [1-1ulp, 1]
		{Kind: kNum, Lo: ptr(posInfImg - 1), Hi: nil, IL: &t, IH: &t}, // >= MaxFloat64, open, inclusive
		{Kind: kNum, Lo: ptr(-2), Hi: ptr(0), IL: &t, IH: &t},         // [-5e-324, 0]
		{Kind: kDate, Lo: ptr(-1), Hi: ptr(0), IL: &t, IH: &t},        // [epoch-1ns, epoch]
		{Kind: kDate, Lo: ptr(y2000 - y2000%(1<<35) + (1 << 35) - 3), Hi: ptr(y2000 - y2000%(1<<35) + (1 << 35) + 5), IL: &t, IH: &t},
	}
	for _, q := range blow {
		run, predicted, _ := q.plan(st)
		r.Count("regression_blowup_witnesses", 1)
		if !run && predicted {
			lo, hi := q.effRange(negInfImg, posInfImg)
			si := analyseSplit(lo, hi)
			w := q.describe()
			for k, v := range describeBlowup(splitCase{lo, hi}, si) {
				w[k] = v
			}
			w["note"] = "not executed: the calibration ladder showed that the enumeration visits every byte string between the start and end term"
			r.Violation(clsBlowup, fmt.Sprintf("%s min=%s max=%s inclusive: the searcher would walk %s byte strings to find %d terms",
				w["query"], w["min"], w["max"], si.byteWalk.String(), si.validTerms), w)
		}
	}
	numDocs := []docSpec{
		{"a", []int64{one - 1}}, {"b", []int64{one}}, {"c", []int64{one + 1}}, {"d", []int64{one - 2}},
		{"e", []int64{posInfImg - 1}}, {"f", []int64{posInfImg}}, {"g", []int64{posInfImg - 2}},
		{"h", []int64{0}}, {"i", []int64{-2}}, {"j", []int64{1}}, {"k", []int64{-3}}, {"l", []int64{negInfImg}}, {"m", []int64{negInfImg + 1}},
	}
	dateDocs := []docSpec{
		{"a", []int64{math.MaxInt64}}, {"b", []int64{posInfImg}}, {"c", []int64{posInfImg + 1}}, {"d", []int64{posInfImg - 1}},
		{"e", []int64{9220608000000000000}}, // 2262-03-10
		{"f", []int64{math.MinInt64}}, {"g", []int64{negInfImg}}, {"h", []int64{negInfImg - 1}}, {"i", []int64{negInfImg + 1}},
		{"j", []int64{-9221212800000000000}}, // 1677-10-15
		{"k", []int64{0}}, {"l", []int64{-1}}, {"m", []int64{y2000}}, {"n", []int64{y2000 - 1}},
		{"o", []int64{math.MaxInt64, math.MinInt64}},
	}
	// (2) F2: open-ended date ranges and the dates beyond the images of +-Inf
	var f2 []rangeQ
	for _, il := range flagChoices {
		for _, ih := range flagChoices {
			f2 = append(f2, rangeQ{Kind: kDate, Lo: ptr(y2000), Hi: nil, IL: il, IH: ih})
			f2 = append(f2, rangeQ{Kind: kDate, Lo: nil, Hi: ptr(y2000), IL: il, IH: ih})
		}
	}
	// open-ended numeric ranges against +-MaxFloat64 / +-Inf
	var numOpen []rangeQ
	for _, il := range flagChoices {
		for _, ih := range flagChoices {
			numOpen = append(numOpen, rangeQ{Kind: kNum, Lo: ptr(one), Hi: nil, IL: il, IH: ih})
			numOpen = append(numOpen, rangeQ{Kind: kNum, Lo: nil, Hi: ptr(one), IL: il, IH: ih})
		}
	}
	// the same witnesses end to end, under a generous wall-clock guard: a range
	// query that is still running after 90 s (it needs microseconds) does not
	// terminate. This does not depend on the verif export mirroring the searcher.
	hung := false
	for qi, q := range blow {
		docs, k := numDocs, kNum
		if q.Kind == kDate {
			docs, k = dateDocs, kDate
		}
		c := newCorpus(k, docs[:4])
		for _, en := range engines {
			idx, err := buildIndex(en, c, r.Rng("terminates-"+en), 4)
			if err != nil {
				continue
			}
			r.Journal(map[string]any{"terminates_probe": q.describe(), "engine": en})
			done := make(chan struct{})
			go func() {
				defer close(done)
				_, _, _, _, _, _ = searchIDs(idx, q, 10)
			}()
			select {
			case <-done:
				r.Count("regression_termination_probes_returned", 1)
				_ = idx.Close()
			case <-time.After(90 * time.Second):
				hung = true
				w := q.describe()
				w["engine"] = en
				r.Violation(clsBlowup, fmt.Sprintf("%s min=%s max=%s on %s did not return within 90 s (witness %d)", w["query"], w["min"], w["max"], en, qi), w)
				// the index is abandoned together with the stuck search
			}
		}
		if hung {
			break
		}
	}
	if hung {
		r.JournalReset()
		return true
	}
	for _, set := range []struct {
		k    kind
		docs []docSpec
		qs   []rangeQ
	}{{kNum, numDocs, append(append([]rangeQ{}, blow[:3]...), numOpen...)}, {kDate, dateDocs, append(append([]rangeQ{}, blow[3:]...), f2...)}} {
		c := newCorpus(set.k, set.docs)
		var engs []engineIdx
		for _, en := range engines {
			idx, err := buildIndex(en, c, r.Rng("regression-"+en), 4)
			if err != nil {
				r.Violation(set.k.String()+"-index/build-error", err.Error(), map[string]any{"engine": en})
				continue
			}
			engs = append(engs, engineIdx{en, idx})
		}
		runRangeQueries(r, st, engs, c, set.qs, "regression", 1) // sequential: the recorded witness is always the same
		for _, e := range engs {
			_ = e.idx.Close()
		}
	}
	r.JournalReset()
	return false
}
