package main

import (
	"verifharness/ev"

	_ "verifharness/c07"
)

func main() { ev.Main() }
