package c07

import (
	"fmt"
	"math"
	"sort"
	"strconv"
	"strings"
	"sync"
	"sync/atomic"
	"time"

	"github.com/blevesearch/bleve/v2"
	"github.com/blevesearch/bleve/v2/index/scorch"
	"github.com/blevesearch/bleve/v2/mapping"
	"github.com/blevesearch/bleve/v2/search"
	"github.com/blevesearch/bleve/v2/search/query"

	"verifharness/ev"
	"verifharness/rng"
)

type kind int

const (
	kNum kind = iota
	kDate
)

func (k kind) String() string {
	if k == kNum {
		return "numeric"
	}
	return "date"
}

func (k kind) field() string {
	if k == kNum {
		return "n"
	}
	return "d"
}

// docSpec is one document: its values are kept as int64 images (for numeric
// documents the image of the float64 under the reference map, for dates the
// nanoseconds since the epoch).
type docSpec struct {
	ID   string  `json:"id"`
	Vals []int64 `json:"values"`
}

type corpus struct {
	kind kind
	docs []docSpec
	byID map[string]*docSpec
}

func newCorpus(k kind, docs []docSpec) *corpus {
	c := &corpus{kind: k, docs: docs, byID: map[string]*docSpec{}}
	for i := range c.docs {
		c.byID[c.docs[i].ID] = &c.docs[i]
	}
	return c
}

var engines = []string{"scorch", "upsidedown"}

func buildMapping() mapping.IndexMapping {
	m := bleve.NewIndexMapping()
	dm := bleve.NewDocumentMapping()
	dm.AddFieldMappingsAt("n", bleve.NewNumericFieldMapping())
	dm.AddFieldMappingsAt("d", bleve.NewDateTimeFieldMapping())
	dm.AddFieldMappingsAt("k", bleve.NewKeywordFieldMapping())
	m.DefaultMapping = dm
	return m
}

func openEngine(name string) (bleve.Index, error) {
	switch name {
	case "scorch":
		return bleve.NewUsing("", buildMapping(), scorch.Name, bleve.Config.DefaultMemKVStore, nil)
	default:
		return bleve.NewMemOnly(buildMapping()) // upsidedown over gtreap
	}
}

func (c *corpus) docBody(d *docSpec) map[string]any {
	body := map[string]any{}
	switch len(d.Vals) {
	case 0:
		body["k"] = "x"
		return body
	case 1:
		body["k"] = "s"
	default:
		body["k"] = "m"
	}
	var vals []any
	for _, v := range d.Vals {
		if c.kind == kNum {
			vals = append(vals, refImgToFloat(v))
		} else {
			vals = append(vals, time.Unix(0, v).UTC())
		}
	}
	if len(vals) == 1 {
		body[c.kind.field()] = vals[0]
	} else {
		body[c.kind.field()] = vals
	}
	return body
}

// buildIndex indexes the corpus in several batches (several segments on
// scorch), in seeded order.
func buildIndex(engine string, c *corpus, g *rng.Rand, batchSize int) (bleve.Index, error) {
	idx, err := openEngine(engine)
	if err != nil {
		return nil, err
	}
	order := g.Perm(len(c.docs))
	b := idx.NewBatch()
	for n, i := range order {
		d := &c.docs[i]
		if err := b.Index(d.ID, c.docBody(d)); err != nil {
			return nil, err
		}
		if b.Size() >= batchSize || n == len(order)-1 {
			if err := idx.Batch(b); err != nil {
				return nil, err
			}
			b = idx.NewBatch()
		}
	}
	return idx, nil
}

// rangeQ is a range query in the image space. Lo/Hi nil = open end;
// IL/IH nil = default (min inclusive, max exclusive).
type rangeQ struct {
	Kind kind
	Lo   *int64
	Hi   *int64
	IL   *bool
	IH   *bool
}

func (q rangeQ) inclLo() bool { return q.IL == nil || *q.IL }
func (q rangeQ) inclHi() bool { return q.IH != nil && *q.IH }

func pb(b *bool) string {
	if b == nil {
		return "default"
	}
	return strconv.FormatBool(*b)
}

func ff(f float64) string {
	return fmt.Sprintf("%s (bits %#016x)", strconv.FormatFloat(f, 'g', -1, 64), math.Float64bits(f))
}

func fmtNs(ns int64) string {
	return fmt.Sprintf("%s (%d ns)", time.Unix(0, ns).UTC().Format(time.RFC3339Nano), ns)
}

func (q rangeQ) fmtVal(v int64) string {
	if q.Kind == kNum {
		return ff(refImgToFloat(v))
	}
	return fmtNs(v)
}

func (q rangeQ) fmtEnd(p *int64) string {
	if p == nil {
		return "open"
	}
	return q.fmtVal(*p)
}

func (q rangeQ) describe() map[string]any {
	name := "NumericRangeQuery"
	if q.Kind == kDate {
		name = "DateRangeQuery"
	}
	return map[string]any{"query": name, "min": q.fmtEnd(q.Lo), "max": q.fmtEnd(q.Hi), "inclusive_min": pb(q.IL), "inclusive_max": pb(q.IH)}
}

func (q rangeQ) key() string {
	e := func(p *int64) string {
		if p == nil {
			return "nil"
		}
		return strconv.FormatInt(*p, 10)
	}
	return fmt.Sprintf("%s|%s|%s|%s|%s", q.Kind, e(q.Lo), e(q.Hi), pb(q.IL), pb(q.IH))
}

func (q rangeQ) bleveQuery() query.Query {
	if q.Kind == kNum {
		var lo, hi *float64
		if q.Lo != nil {
			f := refImgToFloat(*q.Lo)
			lo = &f
		}
		if q.Hi != nil {
			f := refImgToFloat(*q.Hi)
			hi = &f
		}
		bq := bleve.NewNumericRangeInclusiveQuery(lo, hi, q.IL, q.IH)
		bq.SetField("n")
		return bq
	}
	var s, e time.Time
	if q.Lo != nil {
		s = time.Unix(0, *q.Lo).UTC()
	}
	if q.Hi != nil {
		e = time.Unix(0, *q.Hi).UTC()
	}
	bq := bleve.NewDateRangeInclusiveQuery(s, e, q.IL, q.IH)
	bq.SetField("d")
	return bq
}

// valueInRange is the reference semantics. Numbers are compared as float64,
// dates as nanosecond counts; an open end is unbounded: it admits every value,
// including an infinite one (the property: "matches a document if and only if
// one of its values lies in the range", and nothing lies beyond an open end).
func (q rangeQ) valueInRange(v int64) bool {
	if q.Kind == kNum {
		f := refImgToFloat(v)
		okLo, okHi := true, true
		if q.Lo != nil {
			lo := refImgToFloat(*q.Lo)
			okLo = f > lo || (q.inclLo() && f == lo)
		}
		if q.Hi != nil {
			hi := refImgToFloat(*q.Hi)
			okHi = f < hi || (q.inclHi() && f == hi)
		}
		return okLo && okHi
	}
	okLo := q.Lo == nil || v > *q.Lo || (q.inclLo() && v == *q.Lo)
	okHi := q.Hi == nil || v < *q.Hi || (q.inclHi() && v == *q.Hi)
	return okLo && okHi
}

func (q rangeQ) matches(d *docSpec) bool {
	for _, v := range d.Vals {
		if q.valueInRange(v) {
			return true
		}
	}
	return false
}

// effective closed image range, with the open ends mapped to openLo/openHi.
func (q rangeQ) effRange(openLo, openHi int64) (int64, int64) {
	lo, hi := openLo, openHi
	if q.Lo != nil {
		lo = *q.Lo
	}
	if q.Hi != nil {
		hi = *q.Hi
	}
	if !q.inclLo() && lo != math.MaxInt64 {
		lo++
	}
	if !q.inclHi() && hi != math.MinInt64 {
		hi--
	}
	return lo, hi
}

// plan decides, before the query is executed, whether executing it is safe
// (see enumState) and whether the case is non-trivial per the rule.
func (q rangeQ) plan(st *enumState) (run bool, predictedBlowup bool, nontrivial bool) {
	lo, hi := q.effRange(negInfImg, posInfImg)
	si := analyseSplit(lo, hi)
	nontrivial = splitNontrivial(splitCase{lo, hi}, si)
	run, predictedBlowup = st.safeToRun(si, 1<<17)
	if q.Lo == nil || q.Hi == nil {
		// an open end may be mapped to the int64 extreme instead of the
		// image of the infinity: both must be safe
		lo2, hi2 := q.effRange(math.MinInt64, math.MaxInt64)
		run2, blow2 := st.safeToRun(analyseSplit(lo2, hi2), 1<<17)
		run = run && run2
		predictedBlowup = predictedBlowup || blow2
	}
	return
}

type mismatch struct {
	engine string
	q      rangeQ
	doc    docSpec
	missed bool // else spurious
}

func rel(v int64, p *int64, name string) string {
	if p == nil {
		return ""
	}
	switch {
	case v == *p:
		return "v==" + name
	case *p != math.MaxInt64 && v == *p+1:
		return "v==" + name + "+1"
	case *p != math.MinInt64 && v == *p-1:
		return "v==" + name + "-1"
	}
	return ""
}

// classify derives the narrow class from a shrunk single-value witness.
func classify(m mismatch) string {
	q := m.q
	what := "spurious"
	if m.missed {
		what = "missed"
	}
	vals := m.doc.Vals
	if m.missed && len(vals) > 1 {
		// only the values that lie in the range can be responsible for a miss
		var in []int64
		for _, v := range vals {
			if q.valueInRange(v) {
				in = append(in, v)
			}
		}
		f2 := q.Kind == kDate && len(in) > 0
		for _, v := range in {
			if !((q.Hi == nil && v >= posInfImg) || (q.Lo == nil && v <= negInfImg)) {
				f2 = false
			}
		}
		if f2 {
			return "date-range/open-end-misses-dates-beyond-inf-image"
		}
		if len(in) == 1 {
			vals = in
		}
	}
	if len(vals) == 1 {
		v := vals[0]
		if q.Kind == kDate && m.missed {
			beyondHi := q.Hi == nil && v >= posInfImg
			beyondLo := q.Lo == nil && v <= negInfImg
			if beyondHi || beyondLo {
				return "date-range/open-end-misses-dates-beyond-inf-image"
			}
		}
		r := rel(v, q.Lo, "min")
		if r == "" {
			r = rel(v, q.Hi, "max")
		}
		if r == "" {
			if q.valueInRange(v) {
				r = "interior"
			} else {
				r = "outside"
			}
		}
		ends := ""
		if q.Lo == nil {
			ends = ",min-open"
		}
		if q.Hi == nil {
			ends += ",max-open"
		}
		return fmt.Sprintf("%s-range/%s/%s,incl=%s/%s%s", q.Kind, what, r, pb(q.IL), pb(q.IH), ends)
	}
	return fmt.Sprintf("%s-range/%s/multi-valued-doc-only", q.Kind, what)
}

var shrinkBudget atomic.Int64

// searchIDs runs the range query and returns the ids of all hits.
func searchIDs(idx bleve.Index, q rangeQ, size int) (ids map[string]bool, total uint64, err error, panicked bool, pv any, stack string) {
	var res *bleve.SearchResult
	panicked, pv, stack = ev.Guard(func() {
		req := bleve.NewSearchRequestOptions(q.bleveQuery(), size, 0, false)
		res, err = idx.Search(req)
	})
	if panicked || err != nil {
		return
	}
	ids = map[string]bool{}
	for _, h := range res.Hits {
		ids[h.ID] = true
	}
	return ids, res.Total, nil, false, nil, ""
}

// shrinkMismatch tries to reproduce the mismatch on a fresh index that holds
// one document with one value.
func shrinkMismatch(r *ev.Run, m mismatch) mismatch {
	if len(m.doc.Vals) <= 1 || shrinkBudget.Add(-1) < 0 {
		return m
	}
	for _, v := range m.doc.Vals {
		single := docSpec{ID: "w", Vals: []int64{v}}
		if m.q.matches(&single) != m.missed {
			continue // this value alone does not put the model on the same side
		}
		c := newCorpus(m.q.Kind, []docSpec{single})
		idx, err := buildIndex(m.engine, c, r.Rng("shrink"), 10)
		if err != nil {
			continue
		}
		ids, _, err, panicked, _, _ := searchIDs(idx, m.q, 10)
		idx.Close()
		if err != nil || panicked {
			continue
		}
		if ids["w"] != m.q.matches(&single) {
			return mismatch{engine: m.engine, q: m.q, doc: single, missed: m.missed}
		}
	}
	return m
}

func reportMismatch(r *ev.Run, m mismatch) {
	m = shrinkMismatch(r, m)
	cls := classify(m)
	var vals []string
	for _, v := range m.doc.Vals {
		vals = append(vals, m.q.fmtVal(v))
	}
	obs, exp := "document returned", "document must not match (no value in range)"
	if m.missed {
		obs, exp = "document not returned", "document must match (a value lies in the range)"
	}
	w := m.q.describe()
	w["engine"] = m.engine
	w["document_values"] = vals
	w["document_values_int64"] = m.doc.Vals
	w["observed"] = obs
	w["expected"] = exp
	r.Violation(cls, fmt.Sprintf("%s on %s: %s min=%s max=%s incl=%s/%s, doc values %s: %s", cls, m.engine, w["query"], w["min"], w["max"],
		pb(m.q.IL), pb(m.q.IH), strings.Join(vals, ", "), obs), w)
}

type engineIdx struct {
	name string
	idx  bleve.Index
}

// runRangeQueries executes every query on every engine and compares the hit
// set with the reference semantics over the corpus.
func runRangeQueries(r *ev.Run, st *enumState, engs []engineIdx, c *corpus, qs []rangeQ, tag string, workers int) {
	var wg sync.WaitGroup
	for w := 0; w < workers; w++ {
		wg.Add(1)
		go func(w int) {
			defer wg.Done()
			for i := w; i < len(qs); i += workers {
				q := qs[i]
				run, blow, nontrivial := q.plan(st)
				if !run {
					if blow {
						r.Count("e2e_not_executed_predicted_blowup", 1)
						if st.mode == modeBounded {
							r.Violation("split/term-range-too-wide", "the query's term ranges span more than 2^24 canonical terms (not executed)", q.describe())
						}
					} else {
						r.Count("e2e_not_executed_slow_enumeration", 1)
					}
					continue
				}
				want := map[string]bool{}
				infExcluded := false
				for di := range c.docs {
					d := &c.docs[di]
					if q.matches(d) {
						want[d.ID] = true
					} else if q.Kind == kNum && (q.Lo == nil || q.Hi == nil) {
						for _, v := range d.Vals {
							if (v == posInfImg && q.Hi == nil) || (v == negInfImg && q.Lo == nil) {
								infExcluded = true
							}
						}
					}
				}
				if infExcluded {
					r.Count("numeric_open_end_excludes_infinite_value_by_flag", 1)
				}
				lo, hi := q.effRange(negInfImg, posInfImg)
				if lo > hi {
					r.Count("e2e_"+q.Kind.String()+"_min_gt_max", 1)
				}
				if q.Lo == nil || q.Hi == nil {
					r.Count("e2e_"+q.Kind.String()+"_open_ended", 1)
				}
				for _, e := range engs {
					r.Journal(map[string]any{"e2e": tag, "engine": e.name, "q": q.describe()})
					got, total, err, panicked, pv, stack := searchIDs(e.idx, q, len(c.docs)+10)
					r.Case("e2e|"+q.key(), nontrivial)
					r.Count("e2e_"+q.Kind.String()+"_queries_"+e.name, 1)
					if tag == "main" && (i == len(qs)/3 || i == len(qs)-7) {
						s := q.describe()
						s["oracle"] = "end-to-end"
						s["engine"] = e.name
						s["hits"] = len(got)
						s["expected_hits"] = len(want)
						r.Sample(s)
					}
					if panicked {
						w := q.describe()
						w["engine"] = e.name
						w["panic"] = fmt.Sprint(pv)
						w["stack"] = stack
						r.Violation(q.Kind.String()+"-range/panic", fmt.Sprintf("panic: %v", pv), w)
						continue
					}
					if err != nil {
						w := q.describe()
						w["engine"] = e.name
						w["error"] = err.Error()
						r.Violation(q.Kind.String()+"-range/search-error", err.Error(), w)
						continue
					}
					if len(want) > 0 {
						r.Count("e2e_queries_with_hits", 1)
					}
					bad := false
					// deterministic order of reports
					var ids []string
					for id := range want {
						if !got[id] {
							ids = append(ids, id)
						}
					}
					sort.Strings(ids)
					for k, id := range ids {
						bad = true
						if k < 3 {
							reportMismatch(r, mismatch{engine: e.name, q: q, doc: *c.byID[id], missed: true})
						}
					}
					ids = ids[:0]
					for id := range got {
						if !want[id] {
							ids = append(ids, id)
						}
					}
					sort.Strings(ids)
					for k, id := range ids {
						bad = true
						if k < 3 {
							d, ok := c.byID[id]
							if !ok {
								r.Violation(q.Kind.String()+"-range/unknown-hit", "hit id not in corpus: "+id, q.describe())
								continue
							}
							reportMismatch(r, mismatch{engine: e.name, q: q, doc: *d, missed: false})
						}
					}
					if !bad && total != uint64(len(want)) {
						w := q.describe()
						w["engine"] = e.name
						r.Violation(q.Kind.String()+"-range/total-mismatch", fmt.Sprintf("Total=%d, %d documents match", total, len(want)), w)
					}
				}
			}
		}(w)
	}
	wg.Wait()
}

// ---------------------------------------------------------------------------
// sorting

type sortSpec struct {
	Desc bool
	Mode search.SortFieldMode // default (first value): only used on single-valued documents
	Auto bool                 // leave the type to auto-detection instead of forcing number/date
}

func (s sortSpec) String() string {
	m := map[search.SortFieldMode]string{search.SortFieldDefault: "default", search.SortFieldMin: "min", search.SortFieldMax: "max"}[s.Mode]
	return fmt.Sprintf("desc=%v,mode=%s,auto=%v", s.Desc, m, s.Auto)
}

// sortKey returns the document's key under the mode; ok=false: field missing.
func sortKey(d *docSpec, mode search.SortFieldMode) (int64, bool) {
	if len(d.Vals) == 0 {
		return 0, false
	}
	k := d.Vals[0]
	for _, v := range d.Vals[1:] {
		if (mode == search.SortFieldMin && v < k) || (mode == search.SortFieldMax && v > k) {
			k = v
		}
	}
	return k, true
}

// lessKey compares keys numerically: floats as floats, dates as nanoseconds.
func lessKey(k kind, a, b int64) bool {
	if k == kNum {
		return refImgToFloat(a) < refImgToFloat(b)
	}
	return a < b
}

func runSortChecks(r *ev.Run, engs []engineIdx, c *corpus, nRangeSorts int, g *rng.Rand, qs []rangeQ, st *enumState) {
	type job struct {
		name   string
		q      query.Query
		filter func(d *docSpec) bool // nil: membership is taken from the hits (it is judged by the range oracle)
		spec   sortSpec
		key    string
	}
	var jobs []job
	single := bleve.NewTermQuery("s")
	single.SetField("k")
	for _, desc := range []bool{false, true} {
		for _, auto := range []bool{false, true} {
			jobs = append(jobs, job{"single-valued", single, func(d *docSpec) bool { return len(d.Vals) == 1 },
				sortSpec{Desc: desc, Mode: search.SortFieldDefault, Auto: auto}, "k:s"})
			for _, mode := range []search.SortFieldMode{search.SortFieldMin, search.SortFieldMax} {
				jobs = append(jobs, job{"all", bleve.NewMatchAllQuery(), func(d *docSpec) bool { return true },
					sortSpec{Desc: desc, Mode: mode, Auto: auto}, "all"})
			}
		}
	}
	// range restricted sorts (multi-valued docs take part with min/max mode)
	n := 0
	for _, qi := range g.Perm(len(qs)) {
		if n >= nRangeSorts {
			break
		}
		q := qs[qi]
		if run, _, _ := q.plan(st); !run {
			continue
		}
		cnt := 0
		for di := range c.docs {
			if q.matches(&c.docs[di]) {
				cnt++
			}
		}
		if cnt < 3 {
			continue
		}
		n++
		mode := search.SortFieldMin
		if g.Bool() {
			mode = search.SortFieldMax
		}
		jobs = append(jobs, job{"range", q.bleveQuery(), nil,
			sortSpec{Desc: g.Bool(), Mode: mode, Auto: g.Bool()}, q.key()})
	}

	var wg sync.WaitGroup
	sem := make(chan struct{}, 16)
	for _, jb := range jobs {
		for _, e := range engs {
			wg.Add(1)
			sem <- struct{}{}
			go func(jb job, e engineIdx) {
				defer wg.Done()
				defer func() { <-sem }()
				sf := &search.SortField{Field: c.kind.field(), Desc: jb.spec.Desc, Mode: jb.spec.Mode, Missing: search.SortFieldMissingLast}
				if !jb.spec.Auto {
					sf.Type = search.SortFieldAsNumber
					if c.kind == kDate {
						sf.Type = search.SortFieldAsDate
					}
				}
				var res *bleve.SearchResult
				var err error
				r.Journal(map[string]any{"sort": jb.name, "engine": e.name, "spec": jb.spec.String(), "query": jb.key})
				panicked, pv, stack := ev.Guard(func() {
					req := bleve.NewSearchRequestOptions(jb.q, len(c.docs)+10, 0, false)
					req.SortByCustom(search.SortOrder{sf, &search.SortDocID{}})
					res, err = e.idx.Search(req)
				})
				r.Count("sort_checks_"+c.kind.String()+"_"+e.name, 1)
				wit := map[string]any{"engine": e.name, "kind": c.kind.String(), "query": jb.key, "sort": jb.spec.String()}
				if panicked {
					wit["panic"], wit["stack"] = fmt.Sprint(pv), stack
					r.Violation(c.kind.String()+"-sort/panic", fmt.Sprint(pv), wit)
					return
				}
				if err != nil {
					wit["error"] = err.Error()
					r.Violation(c.kind.String()+"-sort/search-error", err.Error(), wit)
					return
				}
				// expected order
				type ent struct {
					id  string
					key int64
					has bool
				}
				var exp []ent
				distinct := map[int64]bool{}
				addExp := func(d *docSpec) {
					k, ok := sortKey(d, jb.spec.Mode)
					exp = append(exp, ent{d.ID, k, ok})
					if ok {
						distinct[k] = true
					}
				}
				if jb.filter != nil {
					for di := range c.docs {
						if jb.filter(&c.docs[di]) {
							addExp(&c.docs[di])
						}
					}
				} else {
					seen := map[string]bool{}
					for _, h := range res.Hits {
						d, ok := c.byID[h.ID]
						if !ok || seen[h.ID] {
							r.Violation(c.kind.String()+"-sort/unknown-or-duplicate-hit", h.ID, wit)
							return
						}
						seen[h.ID] = true
						addExp(d)
					}
				}
				sort.SliceStable(exp, func(i, j int) bool {
					a, b := exp[i], exp[j]
					if a.has != b.has {
						return a.has // missing last, ascending and descending
					}
					if a.has && a.key != b.key {
						if jb.spec.Desc {
							return lessKey(c.kind, b.key, a.key)
						}
						return lessKey(c.kind, a.key, b.key)
					}
					return a.id < b.id
				})
				r.Case(fmt.Sprintf("sort|%s|%s|%s", c.kind, jb.key, jb.spec), len(distinct) >= 3)
				r.Count("sort_hits_compared", len(res.Hits))
				if jb.name == "all" && jb.spec.Desc && jb.spec.Mode == search.SortFieldMax && !jb.spec.Auto && e.name == "upsidedown" && len(res.Hits) > 2 {
					r.Sample(map[string]any{"oracle": "sort", "engine": e.name, "kind": c.kind.String(), "sort": jb.spec.String(), "hits": len(res.Hits),
						"first_hit_values": fmtVals(c.kind, c.byID[res.Hits[0].ID].Vals), "second_hit_values": fmtVals(c.kind, c.byID[res.Hits[1].ID].Vals)})
				}
				if len(res.Hits) != len(exp) {
					r.Violation(c.kind.String()+"-sort/hit-count", fmt.Sprintf("%d hits, %d expected", len(res.Hits), len(exp)), wit)
					return
				}
				for i, h := range res.Hits {
					if h.ID != exp[i].id {
						// shrink to the adjacent pair that is out of numeric order
						var a, b *docSpec
						if i > 0 {
							a = c.byID[res.Hits[i-1].ID]
						}
						b = c.byID[h.ID]
						wit["position"] = i
						wit["got_id"], wit["want_id"] = h.ID, exp[i].id
						if a != nil {
							wit["previous_hit_values"] = fmtVals(c.kind, a.Vals)
						}
						if b != nil {
							wit["this_hit_values"] = fmtVals(c.kind, b.Vals)
						}
						wit["expected_values_here"] = fmtVals(c.kind, c.byID[exp[i].id].Vals)
						mode := map[search.SortFieldMode]string{search.SortFieldDefault: "single", search.SortFieldMin: "min", search.SortFieldMax: "max"}[jb.spec.Mode]
						r.Violation(fmt.Sprintf("%s-sort/out-of-order/mode=%s,desc=%v,auto=%v", c.kind, mode, jb.spec.Desc, jb.spec.Auto),
							fmt.Sprintf("%s: hit %d is %s, numeric order wants %s", e.name, i, h.ID, exp[i].id), wit)
						return
					}
				}
			}(jb, e)
		}
	}
	wg.Wait()
}

func fmtVals(k kind, vs []int64) []string {
	var out []string
	for _, v := range vs {
		if k == kNum {
			out = append(out, ff(refImgToFloat(v)))
		} else {
			out = append(out, fmtNs(v))
		}
	}
	return out
}

// ---------------------------------------------------------------------------
// corpus and query generation

func buildCorpus(k kind, imgs []int64, g *rng.Rand, nMulti, nMissing int) *corpus {
	var docs []docSpec
	for i, v := range imgs {
		docs = append(docs, docSpec{ID: fmt.Sprintf("s%04d", i), Vals: []int64{v}})
	}
	for i := 0; i < nMulti; i++ {
		n := g.Range(2, 4)
		var vs []int64
		for j := 0; j < n; j++ {
			vs = append(vs, rng.Pick(g, imgs))
		}
		docs = append(docs, docSpec{ID: fmt.Sprintf("m%04d", i), Vals: vs})
	}
	for i := 0; i < nMissing; i++ {
		docs = append(docs, docSpec{ID: fmt.Sprintf("x%02d", i)})
	}
	return newCorpus(k, docs)
}

var flagChoices = func() []*bool {
	t, f := true, false
	return []*bool{nil, &t, &f}
}()

func ptr(v int64) *int64 { return &v }

// crossQueries: all (min,max) over core ∪ {open} x all 9 flag combinations.
func crossQueries(k kind, core []int64) []rangeQ {
	ends := []*int64{nil}
	for _, v := range core {
		ends = append(ends, ptr(v))
	}
	var qs []rangeQ
	for _, lo := range ends {
		for _, hi := range ends {
			if lo == nil && hi == nil {
				continue // rejected by Validate: must specify min or max
			}
			for _, il := range flagChoices {
				for _, ih := range flagChoices {
					qs = append(qs, rangeQ{Kind: k, Lo: lo, Hi: hi, IL: il, IH: ih})
				}
			}
		}
	}
	return qs
}

// randomQueries draws ends from the full boundary set, half of the time as a
// pair of neighbours in the sorted set (narrow ranges around a boundary), else
// independent (including min > max), sometimes open.
func randomQueries(k kind, ends []int64, g *rng.Rand, n int) []rangeQ {
	var qs []rangeQ
	for len(qs) < n {
		var lo, hi *int64
		i := g.Intn(len(ends))
		switch g.Intn(10) {
		case 0:
			hi = ptr(ends[i])
		case 1:
			lo = ptr(ends[i])
		case 2, 3, 4, 5:
			j := i + g.Range(-3, 6)
			if j < 0 || j >= len(ends) {
				continue
			}
			lo, hi = ptr(ends[i]), ptr(ends[j])
		case 6:
			// a narrow window that is not aligned with set members
			d := int64(g.Intn(40))
			if ends[i] > math.MaxInt64-d {
				continue
			}
			lo, hi = ptr(ends[i]), ptr(ends[i]+d)
		default:
			lo, hi = ptr(ends[i]), ptr(ends[g.Intn(len(ends))])
		}
		q := rangeQ{Kind: k, Lo: lo, Hi: hi, IL: rng.Pick(g, flagChoices), IH: rng.Pick(g, flagChoices)}
		if k == kNum {
			if (lo != nil && !numericImg(*lo)) || (hi != nil && !numericImg(*hi)) {
				continue
			}
		} else {
			if (lo != nil && (*lo < minQueryNs || *lo > maxQueryNs)) || (hi != nil && (*hi < minQueryNs || *hi > maxQueryNs)) {
				continue
			}
		}
		qs = append(qs, q)
	}
	return qs
}
