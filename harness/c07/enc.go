package c07

import (
	"bytes"
	"fmt"
	"math"
	"sort"
	"time"

	"github.com/blevesearch/bleve/v2/document"
	"github.com/blevesearch/bleve/v2/numeric"

	"verifharness/ev"
)

var shifts16 = []uint{0, 4, 8, 12, 16, 20, 24, 28, 32, 36, 40, 44, 48, 52, 56, 60}

// checkEncoding is the first clause of the property: the float64 -> int64 map
// and the prefix coding preserve order and value.
func checkEncoding(r *ev.Run, imgs []int64) {
	// imgs is sorted ascending; the numeric ones give floats in ascending order
	// by construction of the reference map, which is itself checked against
	// float comparison here.
	type encv struct {
		img   int64
		f     float64
		num   bool
		terms [][]byte // real encoder, one per shift
	}
	vals := make([]encv, 0, len(imgs))
	for _, img := range imgs {
		e := encv{img: img, num: numericImg(img)}
		if e.num {
			e.f = refImgToFloat(img)
			// round trip through the real map, bit exact
			got := numeric.Float64ToInt64(e.f)
			if got != img {
				r.Violation("encoding/float-to-int64", fmt.Sprintf("Float64ToInt64(%v)=%d, reference %d", e.f, got, img),
					map[string]any{"float_bits": fmt.Sprintf("%#x", math.Float64bits(e.f)), "got": got, "want": img})
			}
			back := numeric.Int64ToFloat64(got)
			if math.Float64bits(back) != math.Float64bits(e.f) {
				r.Violation("encoding/roundtrip-float", fmt.Sprintf("Int64ToFloat64(Float64ToInt64(%v)) = %v", e.f, back),
					map[string]any{"float_bits": fmt.Sprintf("%#x", math.Float64bits(e.f)), "back_bits": fmt.Sprintf("%#x", math.Float64bits(back))})
			}
			r.Count("enc_float_roundtrips", 1)
		}
		for _, s := range shifts16 {
			t, err := numeric.NewPrefixCodedInt64(img, s)
			if err != nil {
				r.Violation("encoding/prefix-coded-error", err.Error(), map[string]any{"value": img, "shift": s})
				continue
			}
			want := refEncodeTerm(img, s)
			if !bytes.Equal(t, want) {
				r.Violation("encoding/prefix-coded-layout", fmt.Sprintf("value %d shift %d encodes as %x, format says %x", img, s, []byte(t), want),
					map[string]any{"value": img, "shift": s, "got": fmt.Sprintf("%x", []byte(t)), "want": fmt.Sprintf("%x", want)})
			}
			dec, err := t.Int64()
			wantDec := int64(uint64(img) &^ (uint64(1)<<s - 1))
			if err != nil || dec != wantDec {
				r.Violation("encoding/prefix-coded-decode", fmt.Sprintf("value %d shift %d decodes to %d (err %v), want %d", img, s, dec, err, wantDec),
					map[string]any{"value": img, "shift": s, "got": dec, "want": wantDec})
			}
			if sh, err := t.Shift(); err != nil || sh != s {
				r.Violation("encoding/prefix-coded-shift", fmt.Sprintf("value %d shift %d: Shift()=%d err=%v", img, s, sh, err),
					map[string]any{"value": img, "shift": s})
			}
			if ok, sh := numeric.ValidPrefixCodedTermBytes(t); !ok || sh != int(s) {
				r.Violation("encoding/prefix-coded-valid", fmt.Sprintf("value %d shift %d: not recognised as valid", img, s),
					map[string]any{"value": img, "shift": s})
			}
			e.terms = append(e.terms, t)
			r.Count("enc_terms", 1)
		}
		vals = append(vals, e)
	}
	// all ordered pairs a < b
	pairs, fpairs := 0, 0
	for i := 0; i < len(vals); i++ {
		for j := i + 1; j < len(vals); j++ {
			a, b := &vals[i], &vals[j]
			pairs++
			if a.num && b.num {
				fpairs++
				if !(a.f < b.f) { // reference map vs float comparison
					r.Violation("encoding/reference-order", fmt.Sprintf("images %d<%d but floats %v !< %v", a.img, b.img, a.f, b.f), nil)
				}
				if !(numeric.Float64ToInt64(a.f) < numeric.Float64ToInt64(b.f)) {
					r.Violation("encoding/float-order", fmt.Sprintf("%v < %v but images not ascending", a.f, b.f),
						map[string]any{"a_bits": fmt.Sprintf("%#x", math.Float64bits(a.f)), "b_bits": fmt.Sprintf("%#x", math.Float64bits(b.f))})
				}
			}
			if len(a.terms) != 16 || len(b.terms) != 16 {
				continue
			}
			if bytes.Compare(a.terms[0], b.terms[0]) >= 0 {
				r.Violation("encoding/term-order", fmt.Sprintf("%d < %d but terms %x !< %x", a.img, b.img, a.terms[0], b.terms[0]),
					map[string]any{"a": a.img, "b": b.img})
			}
			for k := 1; k < 16; k++ {
				c := bytes.Compare(a.terms[k], b.terms[k])
				same := a.img>>shifts16[k] == b.img>>shifts16[k]
				if c > 0 || (c == 0) != same {
					r.Violation("encoding/term-order-shifted", fmt.Sprintf("%d < %d shift %d: terms %x vs %x", a.img, b.img, shifts16[k], a.terms[k], b.terms[k]),
						map[string]any{"a": a.img, "b": b.img, "shift": shifts16[k]})
				}
			}
		}
	}
	r.Evals(pairs)
	r.Count("enc_ordered_pairs", pairs)
	r.Count("enc_ordered_float_pairs", fpairs)

	// negative zero: the quantifier says the encoding places it just below +0
	if numeric.Float64ToInt64(math.Copysign(0, -1)) != -1 {
		r.Count("negzero_not_just_below_zero", 1)
	}

	// The fields index exactly the 16 terms (shift 0,4,..,60) of the value and
	// give the value back.
	for _, e := range vals {
		if e.num {
			f := document.NewNumericField("n", nil, e.f)
			got, err := f.Number()
			if err != nil || math.Float64bits(got) != math.Float64bits(e.f) {
				r.Violation("encoding/numeric-field-value", fmt.Sprintf("NewNumericField(%v).Number() = %v, %v", e.f, got, err), nil)
			}
			f.Analyze()
			checkFieldTerms(r, "numeric", e.img, f.AnalyzedTokenFrequencies())
		}
		t := time.Unix(0, e.img).UTC()
		df, err := document.NewDateTimeField("d", nil, t, time.RFC3339Nano)
		if err != nil {
			r.Violation("encoding/datetime-field-rejects-representable", fmt.Sprintf("%d ns: %v", e.img, err), map[string]any{"ns": e.img})
			continue
		}
		back, _, err := df.DateTime()
		if err != nil || back.UnixNano() != e.img {
			r.Violation("encoding/datetime-field-value", fmt.Sprintf("%d ns comes back as %v (%v)", e.img, back, err), map[string]any{"ns": e.img})
		}
		df.Analyze()
		checkFieldTerms(r, "datetime", e.img, df.AnalyzedTokenFrequencies())
	}
}

// checkFieldTerms compares the analysed terms of a field with the 16 terms the
// format prescribes.
func checkFieldTerms[M ~map[string]V, V any](r *ev.Run, kind string, img int64, tf M) {
	var got []string
	for k := range tf {
		got = append(got, k)
	}
	sort.Strings(got)
	var want []string
	for _, s := range shifts16 {
		want = append(want, string(refEncodeTerm(img, s)))
	}
	sort.Strings(want)
	r.Count("field_term_sets", 1)
	if len(got) != len(want) {
		r.Violation("encoding/"+kind+"-field-terms", fmt.Sprintf("value %d: field indexes %d terms, want 16", img, len(got)), map[string]any{"value": img})
		return
	}
	for i := range got {
		if got[i] != want[i] {
			r.Violation("encoding/"+kind+"-field-terms", fmt.Sprintf("value %d: field term %x, want %x", img, got[i], want[i]), map[string]any{"value": img})
			return
		}
	}
}
