package c07

import (
	"math"
	"math/big"
)

// Reference model of the documented encodings, written from the format
// description only (shift byte 0x20+shift, then ceil((64-shift)/7) groups of
// 7 bits, big endian, of the sign-flipped value shifted right by `shift`).
// Nothing here calls into bleve.

const signBit = uint64(1) << 63

// Images of the infinities under the order preserving float64 -> int64 map.
const (
	posInfImg = int64(0x7FF0000000000000)
	negInfImg = math.MinInt64 + (int64(1)<<52 - 1)
)

// refImgToFloat is the reference order preserving map int64 -> float64.
func refImgToFloat(i int64) float64 {
	if i >= 0 {
		return math.Float64frombits(uint64(i))
	}
	return math.Float64frombits(uint64(i) ^ 0x7fffffffffffffff)
}

// refFloatToImg is its inverse.
func refFloatToImg(f float64) int64 {
	b := math.Float64bits(f)
	if b&signBit != 0 {
		b ^= 0x7fffffffffffffff
	}
	return int64(b)
}

// numericImg says whether the int64 image belongs to a float64 of the
// property's quantifier: not NaN and not negative zero (image -1).
func numericImg(i int64) bool {
	return i >= negInfImg && i <= posInfImg && i != -1
}

// sortable returns the unsigned, order preserving image of v.
func sortable(v int64) uint64 { return uint64(v) ^ signBit }

func refEncodeTerm(v int64, shift uint) []byte {
	n := int((63-shift)/7) + 1
	out := make([]byte, n+1)
	out[0] = 0x20 + byte(shift)
	u := sortable(v) >> shift
	for i := n; i >= 1; i-- {
		out[i] = byte(u & 0x7f)
		u >>= 7
	}
	return out
}

// refDecodeTerm decodes a byte string as a canonical prefix coded term. ok is
// false for byte strings that cannot be produced by the encoder (wrong length,
// a byte with the high bit set, excess bits in the top group): such strings can
// never be in the dictionary of a numeric field, they cover no value.
func refDecodeTerm(b []byte) (shift uint, u uint64, ok bool) {
	if len(b) < 2 || b[0] < 0x20 || b[0] > 0x20+63 {
		return 0, 0, false
	}
	shift = uint(b[0] - 0x20)
	n := int((63-shift)/7) + 1
	if len(b) != n+1 {
		return 0, 0, false
	}
	for _, c := range b[1:] {
		if c >= 0x80 {
			return 0, 0, false
		}
		if u>>57 != 0 {
			return 0, 0, false
		}
		u = u<<7 | uint64(c)
	}
	if shift > 0 && u>>(64-shift) != 0 {
		return 0, 0, false
	}
	return shift, u, true
}

// interval is a closed interval in the sortable (unsigned) space.
type interval struct{ lo, hi uint64 }

func termInterval(shift uint, u uint64) interval {
	lo := u << shift
	return interval{lo, lo | (uint64(1)<<shift - 1)}
}

// byteDistance is the number of byte strings in [start,end] when both have the
// same length and are compared as big endian base-256 numbers: the number of
// steps a plain byte-wise increment needs to walk from start to end.
func byteDistance(start, end []byte) *big.Int {
	a := new(big.Int).SetBytes(start)
	b := new(big.Int).SetBytes(end)
	d := b.Sub(b, a)
	return d.Add(d, big.NewInt(1))
}
