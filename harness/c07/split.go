package c07

import (
	"fmt"
	"math"
	"math/big"
	"sort"
	"sync"
	"sync/atomic"

	"github.com/blevesearch/bleve/v2/search/searcher"

	"verifharness/ev"
)

// Work bound that operationalises "terminates": a correct split of any int64
// range needs at most 31 term ranges with at most 16 terms each. The searcher
// walks from the start term to the end term of every range; the number of
// byte strings it visits for one query must stay below enumBound. (2^24 visits
// take seconds; the next size the unfixed enumeration produces is 2^31.)
const (
	enumBound    = int64(1) << 24
	maxRanges    = 31
	runRealBelow = int64(1) << 12 // always execute the real enumeration below this predicted size
)

var bigEnumBound = big.NewInt(enumBound)

// splitInfo is what oracle 1 derives from the real splitter output for one
// (lo, hi) pair.
type splitInfo struct {
	ranges     int
	levels     int      // distinct shifts
	byteWalk   *big.Int // byte strings between start and end of all ranges (plain byte increment)
	validTerms int64    // canonical terms between start and end of all ranges
	structural string   // non-empty: malformed range
	coverErr   string   // non-empty: union != [lo,hi]
}

func analyseSplit(lo, hi int64) splitInfo {
	trs := searcher.VerifSplitInt64Range(lo, hi, 4)
	si := splitInfo{ranges: len(trs), byteWalk: new(big.Int)}
	var ivs []interval
	seen := map[uint]bool{}
	for _, tr := range trs {
		s1, u1, ok1 := refDecodeTerm(tr.Start)
		s2, u2, ok2 := refDecodeTerm(tr.End)
		if !ok1 || !ok2 {
			si.structural = fmt.Sprintf("range end is not a canonical prefix coded term: %x .. %x", tr.Start, tr.End)
			return si
		}
		if s1 != s2 || s1%4 != 0 {
			si.structural = fmt.Sprintf("range mixes shifts or uses a shift the field does not index: %x .. %x", tr.Start, tr.End)
			return si
		}
		if u1 > u2 {
			// walks nothing: covers nothing
			continue
		}
		seen[s1] = true
		ivs = append(ivs, interval{termInterval(s1, u1).lo, termInterval(s1, u2).hi})
		if d := u2 - u1; d >= 1<<40 || si.validTerms >= 1<<40 {
			si.validTerms = 1 << 41 // saturate: far beyond any bound used here
		} else {
			si.validTerms += int64(d) + 1
		}
		if len(tr.Start) == len(tr.End) && string(tr.Start[:len(tr.Start)-1]) == string(tr.End[:len(tr.End)-1]) {
			si.byteWalk.Add(si.byteWalk, big.NewInt(int64(tr.End[len(tr.End)-1])-int64(tr.Start[len(tr.Start)-1])+1))
		} else {
			si.byteWalk.Add(si.byteWalk, byteDistance(tr.Start, tr.End))
		}
	}
	si.levels = len(seen)
	// union of the covered intervals must be exactly [lo,hi]
	if lo > hi {
		if len(ivs) != 0 {
			si.coverErr = fmt.Sprintf("empty range (min>max) is covered by %d term ranges", len(ivs))
		}
		return si
	}
	want := interval{sortable(lo), sortable(hi)}
	if len(ivs) == 0 {
		si.coverErr = "non-empty range covered by no term"
		return si
	}
	sort.Slice(ivs, func(i, j int) bool { return ivs[i].lo < ivs[j].lo })
	if ivs[0].lo != want.lo {
		if ivs[0].lo < want.lo {
			si.coverErr = fmt.Sprintf("covers values below min: first covered %d, min %d", int64(ivs[0].lo^signBit), lo)
		} else {
			si.coverErr = fmt.Sprintf("misses values at the lower end: first covered %d, min %d", int64(ivs[0].lo^signBit), lo)
		}
		return si
	}
	end := ivs[0].hi
	for _, iv := range ivs[1:] {
		if end != math.MaxUint64 && iv.lo > end+1 {
			si.coverErr = fmt.Sprintf("gap: values %d..%d not covered", int64((end+1)^signBit), int64((iv.lo-1)^signBit))
			return si
		}
		if iv.hi > end {
			end = iv.hi
		}
	}
	if end != want.hi {
		if end > want.hi {
			si.coverErr = fmt.Sprintf("covers values above max: last covered %d, max %d", int64(end^signBit), hi)
		} else {
			si.coverErr = fmt.Sprintf("misses values at the upper end: last covered %d, max %d", int64(end^signBit), hi)
		}
	}
	return si
}

// enumMode is what the calibration ladder found out about how the real
// termRange.Enumerate walks from start to end.
type enumMode int

const (
	modeUnknown  enumMode = iota
	modeByteWalk          // visits every byte string: the count equals byteWalk
	modeBounded           // visits (about) the canonical terms only
)

type enumState struct {
	mode   enumMode
	ladder []map[string]any
}

// calibrate runs the real enumeration on ranges [2^(7k)-1, 2^(7k)] (two values,
// straddling k 7-bit groups of the shift-0 term) for growing k, each step only
// after the previous one was observed to be cheap, and classifies the
// implementation. Once a step was observed to walk byte-wise it never starts
// an enumeration predicted to need more than 2^17 visits.
func calibrate(r *ev.Run) *enumState {
	st := &enumState{mode: modeUnknown}
	byteSteps, boundedSteps := 0, 0
	for k := uint(1); k <= 9; k++ {
		var lo, hi int64
		if k == 9 {
			lo, hi = -1, 0 // crosses the sign bit: all nine 7-bit groups roll over
		} else {
			hi = int64(1) << (7 * k)
			lo = hi - 1
		}
		si := analyseSplit(lo, hi)
		predByte := si.byteWalk
		if byteSteps > 0 && predByte.Cmp(big.NewInt(1<<17)) > 0 {
			// the implementation walked byte-wise on the previous (cheaper) steps:
			// this one would visit predByte strings. Not executed (k=3 alone is
			// 8.4 million visits and allocations).
			st.ladder = append(st.ladder, map[string]any{"min": lo, "max": hi, "predicted_byte_walk": predByte.String(), "executed": false})
			continue
		}
		if boundedSteps == 0 && byteSteps == 0 && predByte.Cmp(bigEnumBound) > 0 {
			break // cannot happen: k=1 is always small
		}
		if si.structural != "" || si.validTerms > 1<<17 {
			// a broken split: judged by oracle 1, nothing to calibrate on
			st.ladder = append(st.ladder, map[string]any{"min": lo, "max": hi, "executed": false, "note": "split malformed or too wide"})
			byteSteps++
			continue
		}
		r.Journal(map[string]any{"calibrate": []int64{lo, hi}})
		real := int64(searcher.VerifEnumerateCount(lo, hi, 4, math.MaxInt32))
		st.ladder = append(st.ladder, map[string]any{"min": lo, "max": hi, "predicted_byte_walk": predByte.String(),
			"canonical_terms": si.validTerms, "observed": real, "executed": true})
		r.Count("calibration_enumerations", 1)
		switch {
		case predByte.IsInt64() && real == predByte.Int64() && real != si.validTerms:
			byteSteps++
		case real <= 16*si.validTerms+64:
			boundedSteps++
		default:
			// neither: stop climbing, treat like byte walk (nothing large is executed)
			byteSteps++
		}
		if real > enumBound {
			r.Violation(clsBlowup, fmt.Sprintf("range [%d,%d] (2 values) made the searcher visit %d candidate terms", lo, hi, real),
				map[string]any{"min_int64": lo, "max_int64": hi, "observed_visits": real})
		}
	}
	switch {
	case byteSteps > 0:
		st.mode = modeByteWalk
	case boundedSteps > 0:
		st.mode = modeBounded
	}
	r.Extra("enumeration_calibration", st.ladder)
	r.Extra("enumeration_mode", map[enumMode]string{modeUnknown: "unknown", modeByteWalk: "byte-walk", modeBounded: "bounded"}[st.mode])
	return st
}

// safeToRun says whether the real enumeration for a split may be executed, and
// whether the split is a predicted blow-up.
func (st *enumState) safeToRun(si splitInfo, limit int64) (run bool, blowup bool) {
	if si.validTerms > enumBound {
		// even an enumeration that visits canonical terms only has to walk them all
		return false, true
	}
	if si.validTerms > limit {
		return false, false
	}
	if st.mode == modeBounded {
		return true, false
	}
	if si.byteWalk.Cmp(bigEnumBound) > 0 {
		return false, true
	}
	return si.byteWalk.Cmp(big.NewInt(limit)) <= 0, false
}

type splitCase struct{ lo, hi int64 }

var maxEnumerated atomic.Int64

func onStepBoundary(v int64) bool {
	n := v & 0xf
	return n == 0 || n == 0xf
}

func splitNontrivial(c splitCase, si splitInfo) bool {
	if c.lo > c.hi {
		return false
	}
	return si.levels >= 3 || onStepBoundary(c.lo) || onStepBoundary(c.hi)
}

// describeBlowup produces the witness of an enumeration blow-up in user terms.
func describeBlowup(c splitCase, si splitInfo) map[string]any {
	w := map[string]any{
		"min_int64": c.lo, "max_int64": c.hi,
		"values_in_range":        new(big.Int).Add(new(big.Int).Sub(big.NewInt(c.hi), big.NewInt(c.lo)), big.NewInt(1)).String(),
		"canonical_terms_needed": si.validTerms,
		"byte_strings_walked":    si.byteWalk.String(),
	}
	if numericImg(c.lo) && numericImg(c.hi) {
		w["as_numeric_range"] = fmt.Sprintf("[%s, %s] inclusive", ff(refImgToFloat(c.lo)), ff(refImgToFloat(c.hi)))
	}
	w["as_date_range"] = fmt.Sprintf("[%s, %s] inclusive", fmtNs(c.lo), fmtNs(c.hi))
	for _, tr := range searcher.VerifSplitInt64Range(c.lo, c.hi, 4) {
		if byteDistance(tr.Start, tr.End).Cmp(bigEnumBound) > 0 {
			w["term_range"] = fmt.Sprintf("%x .. %x", tr.Start, tr.End)
		}
	}
	return w
}

// checkSplits is oracle 1 over a list of (lo,hi) pairs, in parallel.
// Enumerations predicted to visit between 2^12 and 2^17 strings are executed
// for every slowEvery-th case (by case index: deterministic).
func checkSplits(r *ev.Run, st *enumState, cases []splitCase, slowEvery int) {
	const workers = 16
	var wg sync.WaitGroup
	for w := 0; w < workers; w++ {
		wg.Add(1)
		go func(w int) {
			defer wg.Done()
			for i := w; i < len(cases); i += workers {
				c := cases[i]
				si := analyseSplit(c.lo, c.hi)
				key := fmt.Sprintf("split|%d|%d", c.lo, c.hi)
				r.Case(key, splitNontrivial(c, si))
				if i == len(cases)/3 || i == 2*len(cases)/3 {
					r.Sample(map[string]any{"oracle": "split-cover", "min_int64": c.lo, "max_int64": c.hi, "ranges": si.ranges,
						"levels": si.levels, "canonical_terms": si.validTerms, "byte_strings_walked": si.byteWalk.String()})
				}
				r.Count("split_cases", 1)
				if si.levels >= 3 {
					r.Count("split_cases_3plus_levels", 1)
				}
				if si.structural != "" {
					r.Violation("split/malformed-term-range", si.structural, map[string]any{"min_int64": c.lo, "max_int64": c.hi})
					continue
				}
				if si.coverErr != "" {
					cls := "split/cover-mismatch"
					if c.lo > c.hi {
						cls = "split/min-greater-max-not-empty"
					}
					r.Violation(cls, fmt.Sprintf("[%d,%d]: %s", c.lo, c.hi, si.coverErr), map[string]any{"min_int64": c.lo, "max_int64": c.hi, "detail": si.coverErr})
					continue
				}
				if si.ranges > maxRanges {
					r.Violation("split/too-many-ranges", fmt.Sprintf("[%d,%d] split into %d ranges", c.lo, c.hi, si.ranges), map[string]any{"min_int64": c.lo, "max_int64": c.hi})
				}
				limit := runRealBelow
				if slowEvery > 0 && i%slowEvery == 0 {
					limit = 1 << 17
				}
				run, blow := st.safeToRun(si, limit)
				if blow && si.validTerms > enumBound {
					r.Violation("split/term-range-too-wide", fmt.Sprintf("[%d,%d]: the term ranges of the split span %d canonical terms", c.lo, c.hi, si.validTerms),
						map[string]any{"min_int64": c.lo, "max_int64": c.hi, "canonical_terms": si.validTerms})
					continue
				}
				if blow {
					r.Count("split_predicted_blowups", 1)
					r.Violation(clsBlowup,
						fmt.Sprintf("range of %d..%d makes the searcher walk %s byte strings for %d canonical terms (byte-wise walk confirmed on the calibration ladder; not executed)",
							c.lo, c.hi, si.byteWalk.String(), si.validTerms), describeBlowup(c, si))
					continue
				}
				if !run {
					r.Count("split_enumeration_not_executed_slow", 1)
					continue
				}
				real := int64(searcher.VerifEnumerateCount(c.lo, c.hi, 4, math.MaxInt32))
				r.Count("split_enumerations_executed", 1)
				for {
					cur := maxEnumerated.Load()
					if real <= cur || maxEnumerated.CompareAndSwap(cur, real) {
						break
					}
				}
				if real < si.validTerms {
					r.Violation("split/enumeration-skips-terms", fmt.Sprintf("[%d,%d]: %d terms enumerated, %d canonical terms lie in the ranges", c.lo, c.hi, real, si.validTerms),
						map[string]any{"min_int64": c.lo, "max_int64": c.hi, "enumerated": real, "canonical": si.validTerms})
				}
				if real > enumBound {
					r.Violation(clsBlowup, fmt.Sprintf("[%d,%d]: %d candidate terms visited", c.lo, c.hi, real), describeBlowup(c, si))
				}
				if real != si.validTerms {
					r.Count("split_enumerations_with_noncanonical_terms", 1)
				}
				if st.mode == modeByteWalk {
					// keeps the prediction used for the non-executed cases honest
					if si.byteWalk.IsInt64() && si.byteWalk.Int64() == real {
						r.Count("bytewalk_prediction_confirmed", 1)
					} else {
						r.Count("bytewalk_prediction_mismatch", 1)
						r.Inconclusive("byte-walk prediction differs from the executed enumeration")
					}
				}
			}
		}(w)
	}
	wg.Wait()
}

// buildSplitCases: the full cross product of the boundary images plus, around
// every boundary image and for every precision step, narrow windows
// [x-a*2^s, x+b*2^s] (these are the ranges that end in one term range straddling
// a step boundary).
func buildSplitCases(r *ev.Run, imgs []int64, perCombo int) []splitCase {
	var cases []splitCase
	for _, a := range imgs {
		for _, b := range imgs {
			cases = append(cases, splitCase{a, b})
		}
	}
	g := r.Rng("split-windows")
	for _, x := range imgs {
		for _, s := range shifts16 {
			for k := 0; k < perCombo; k++ {
				a := int64(g.Intn(40))
				b := int64(g.Intn(40))
				lo, ok1 := subSat(x, a, s)
				hi, ok2 := addSat(x, b, s)
				if ok1 && ok2 {
					cases = append(cases, splitCase{lo, hi})
				}
			}
		}
	}
	return cases
}

func addSat(x, k int64, s uint) (int64, bool) {
	d := new(big.Int).Lsh(big.NewInt(k), s)
	v := d.Add(d, big.NewInt(x))
	if !v.IsInt64() {
		return 0, false
	}
	return v.Int64(), true
}

func subSat(x, k int64, s uint) (int64, bool) {
	d := new(big.Int).Lsh(big.NewInt(k), s)
	v := d.Sub(big.NewInt(x), d)
	if !v.IsInt64() {
		return 0, false
	}
	return v.Int64(), true
}
