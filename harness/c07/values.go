package c07

import (
	"math"
	"sort"
	"time"

	"verifharness/rng"
)

// boundaryImages builds the boundary set of the design in the int64 image
// space: zero and its neighbours, every power of two +-1 (these are exactly the
// values sitting on all 4-bit precision-step boundaries and on all 7-bit group
// boundaries of the term layout), the images of the infinities and their
// neighbours, the int64 extremes, the images of a few ordinary floats and their
// ulp neighbours, seeded values aligned to every precision step, and seeded
// randoms. nRandom scales the random part.
func boundaryImages(g *rng.Rand, nRandom int) []int64 {
	set := map[int64]struct{}{}
	add := func(v int64) { set[v] = struct{}{} }
	add3 := func(v int64) {
		add(v)
		if v != math.MinInt64 {
			add(v - 1)
		}
		if v != math.MaxInt64 {
			add(v + 1)
		}
	}
	for _, v := range []int64{0, 1, 2, 3, -2, -3, -4, 15, 16, 17, -15, -16, -17, -18} {
		add(v)
	}
	add(-1) // negative zero as a float, 1969-12-31T23:59:59.999999999Z as a date
	for p := uint(0); p <= 62; p++ {
		add3(int64(1) << p)
		add3(-(int64(1) << p))
	}
	add3(math.MinInt64)
	add3(math.MaxInt64)
	add(math.MinInt64 + 2)
	add(math.MaxInt64 - 2)
	add3(posInfImg)
	add3(negInfImg)
	add(posInfImg - 2)
	add(negInfImg + 2)
	for _, f := range []float64{1, 1.5, 2, 2.5, 0.5, 3, 5, 10, 100, 255, 256, 1e9, 1e-9, math.Pi,
		1e308, 1e-308, 1e-320, math.MaxFloat64, math.SmallestNonzeroFloat64, 4503599627370496, 9007199254740993} {
		add3(refFloatToImg(f))
		add3(refFloatToImg(-f))
	}
	// the query layer's own date limits
	for _, ns := range []int64{minQueryNs, maxQueryNs} {
		add3(ns)
	}
	// seeded values aligned to each precision step and each 7-bit group boundary
	for s := uint(4); s <= 60; s += 4 {
		x := int64(g.Uint64()) &^ (int64(1)<<s - 1)
		add3(x)
	}
	for s := uint(0); s <= 60; s += 4 {
		for k := uint(1); s+7*k <= 62; k++ {
			if g.Chance(1, 3) {
				x := int64(g.Uint64()) &^ (int64(1)<<(s+7*k) - 1)
				add3(x)
			}
		}
	}
	for i := 0; i < nRandom; i++ {
		switch g.Intn(3) {
		case 0:
			add(int64(g.Uint64()))
		case 1: // ordinary magnitudes
			f := (g.Float64() - 0.5) * math.Pow(10, float64(g.Range(-12, 12)))
			add(refFloatToImg(f))
		default: // small integers, as dates near the epoch / subnormal floats
			add(int64(g.Range(-5000, 5000)))
		}
	}
	out := make([]int64, 0, len(set))
	for v := range set {
		out = append(out, v)
	}
	sort.Slice(out, func(i, j int) bool { return out[i] < out[j] })
	return out
}

func filterNumeric(in []int64) []int64 {
	var out []int64
	for _, v := range in {
		if numericImg(v) {
			out = append(out, v)
		}
	}
	return out
}

// coreImages is the small set whose full cross product is always queried.
func coreNumericImages() []int64 {
	vs := []int64{0, 1, -2, 2, -3, posInfImg, posInfImg - 1, negInfImg, negInfImg + 1}
	for _, f := range []float64{1, 2} {
		i := refFloatToImg(f)
		vs = append(vs, i-1, i, i+1)
		j := refFloatToImg(-f)
		vs = append(vs, j-1, j, j+1)
	}
	vs = append(vs, refFloatToImg(0.5), refFloatToImg(-1e9))
	vs = append(vs, 1<<4, 1<<4-1, 1<<52, 1<<52-1, -(1 << 52), -(1<<52)-1)
	return dedup(vs)
}

// Date endpoints accepted by the query layer: [1677-12-01T00:00:00Z, 2262-04-11T11:59:59Z].
var (
	minQueryNs = time.Date(1677, 12, 1, 0, 0, 0, 0, time.UTC).UnixNano()
	maxQueryNs = time.Date(2262, 4, 11, 11, 59, 59, 0, time.UTC).UnixNano()
)

func coreDateImages() []int64 {
	vs := []int64{0, 1, -1, -2, 2, 15, 16, -16, -17, minQueryNs, minQueryNs + 1, maxQueryNs, maxQueryNs - 1,
		posInfImg - 1, posInfImg, posInfImg + 1, negInfImg - 1, negInfImg, negInfImg + 1,
		1 << 28, 1<<28 - 1, 1 << 60, 1<<60 - 1, -(1 << 60), -(1 << 60) - 1,
		946684800000000000 /* 2000-01-01 */, 946684800000000001, 946684799999999999}
	var out []int64
	for _, v := range vs {
		if v >= minQueryNs && v <= maxQueryNs {
			out = append(out, v)
		}
	}
	return dedup(out)
}

func dedup(vs []int64) []int64 {
	sort.Slice(vs, func(i, j int) bool { return vs[i] < vs[j] })
	out := vs[:0]
	for i, v := range vs {
		if i == 0 || v != vs[i-1] {
			out = append(out, v)
		}
	}
	return out
}
