// Package c08 monitors property C08: searchers yield strictly ascending
// internal ids and Advance lands on the first match at/after the target.
// For every (index, query tree, options) the Next-only enumeration is the
// reference list; seeded programs of Next and forward Advance calls on fresh
// searchers must follow a cursor over that list.
package c08

import (
	"bytes"
	"context"
	"encoding/binary"
	"encoding/hex"
	"fmt"
	"sort"
	"strings"
	"sync"

	"github.com/blevesearch/bleve/v2"
	"github.com/blevesearch/bleve/v2/search"
	index "github.com/blevesearch/bleve_index_api"

	"verifharness/corpus"
	"verifharness/ev"
	"verifharness/rng"
)

func init() { ev.Register("C08", "exploration", run) }

type step struct {
	Adv    bool   `json:"adv"`
	Target string `json:"target,omitempty"` // hex of the internal id
}

type opts struct {
	ScoreNone bool `json:"score_none"`
	TV        bool `json:"term_vectors"`
}

type world struct {
	name   string
	idx    bleve.Index
	ids    []string
	hist   *corpus.History
	allInt [][]byte // internal ids of all live docs (ascending)
	scorch bool
}

func openSearcher(w *world, reader index.IndexReader, q *corpus.Q, o opts) (search.Searcher, error) {
	so := search.SearcherOptions{IncludeTermVectors: o.TV}
	if o.ScoreNone {
		so.Score = "none"
	}
	return q.Bleve().Searcher(context.Background(), reader, w.idx.Mapping(), so)
}

func newCtx(s search.Searcher) *search.SearchContext {
	return &search.SearchContext{DocumentMatchPool: search.NewDocumentMatchPool(s.DocumentMatchPoolSize()+8, 0)}
}

// enumerate returns the Next-only list.
func enumerate(w *world, reader index.IndexReader, q *corpus.Q, o opts) (ids [][]byte, err error) {
	s, err := openSearcher(w, reader, q, o)
	if err != nil {
		return nil, err
	}
	defer s.Close()
	ctx := newCtx(s)
	for {
		dm, err := s.Next(ctx)
		if err != nil {
			return nil, err
		}
		if dm == nil {
			return ids, nil
		}
		ids = append(ids, append([]byte(nil), dm.IndexInternalID...))
		ctx.DocumentMatchPool.Put(dm)
	}
}

// runProgram executes the program on a fresh searcher and checks it against the cursor oracle.
// Returns "" or a description of the first deviation.
func runProgram(w *world, reader index.IndexReader, q *corpus.Q, o opts, L [][]byte, prog []step) (problem, detail string) {
	var s search.Searcher
	var err error
	panicked, val, stack := ev.Guard(func() {
		s, err = openSearcher(w, reader, q, o)
		if err != nil {
			return
		}
		defer s.Close()
		ctx := newCtx(s)
		pos := -1 // index in L of the last returned match
		for i, st := range prog {
			var dm *search.DocumentMatch
			var want int // index in L expected, len(L) = nil
			if st.Adv {
				t, _ := hex.DecodeString(st.Target)
				dm, err = s.Advance(ctx, index.IndexInternalID(t))
				want = pos + 1
				for want < len(L) && bytes.Compare(L[want], t) < 0 {
					want++
				}
			} else {
				dm, err = s.Next(ctx)
				want = pos + 1
			}
			if err != nil {
				problem, detail = "error", fmt.Sprintf("step %d: %v", i, err)
				return
			}
			if want >= len(L) {
				if dm != nil {
					problem, detail = "past-end", fmt.Sprintf("step %d (%+v) returned %x, expected nil", i, st, []byte(dm.IndexInternalID))
					return
				}
				pos = len(L)
				// after exhaustion everything must stay nil
				continue
			}
			if dm == nil {
				problem, detail = "skipped-to-end", fmt.Sprintf("step %d (%+v) returned nil, expected %x (L[%d])", i, st, L[want], want)
				return
			}
			got := []byte(dm.IndexInternalID)
			if !bytes.Equal(got, L[want]) {
				kind := "wrong-match"
				c := bytes.Compare(got, L[want])
				if c > 0 {
					kind = "skipped-match"
				} else if pos >= 0 && bytes.Compare(got, L[pos]) <= 0 {
					kind = "not-ascending"
				} else if st.Adv {
					kind = "before-target-or-nonmatch"
				}
				problem, detail = kind, fmt.Sprintf("step %d (%+v) returned %x, expected %x (L[%d])", i, st, got, L[want], want)
				return
			}
			pos = want
			ctx.DocumentMatchPool.Put(dm)
		}
	})
	if panicked {
		return "panic", fmt.Sprintf("%v\n%s", val, firstLines(stack, 25))
	}
	if err != nil && problem == "" {
		return "error", err.Error()
	}
	return
}

func firstLines(s string, n int) string {
	ls := strings.Split(s, "\n")
	if len(ls) > n {
		ls = ls[:n]
	}
	return strings.Join(ls, "\n")
}

func u64(v uint64) []byte {
	b := make([]byte, 8)
	binary.BigEndian.PutUint64(b, v)
	return b
}

// targets returns candidate Advance targets greater than `after` (nil = any).
func genTarget(g *rng.Rand, w *world, L [][]byte, after []byte) []byte {
	var cands [][]byte
	add := func(b []byte) {
		if after == nil || bytes.Compare(b, after) > 0 {
			cands = append(cands, b)
		}
	}
	if w.scorch {
		max := uint64(0)
		for _, id := range w.allInt {
			if v := binary.BigEndian.Uint64(id); v > max {
				max = v
			}
		}
		lo := uint64(0)
		if after != nil {
			lo = binary.BigEndian.Uint64(after) + 1
		}
		// any doc number in range, including deleted ones and segment boundaries
		for i := 0; i < 4; i++ {
			add(u64(lo + uint64(g.Intn(int(max-lo+4)+1))))
		}
		add(u64(max + 1))
		add(u64(max + 1000))
	} else {
		for i := 0; i < 3 && len(w.ids) > 0; i++ {
			id := rng.Pick(g, w.ids)
			add([]byte(id))
			add([]byte(id + "\x00"))
		}
		add([]byte("zzz"))
		add([]byte("d"))
	}
	for i := 0; i < 3 && len(L) > 0; i++ {
		add(L[g.Intn(len(L))])
	}
	for i := 0; i < 2 && len(w.allInt) > 0; i++ {
		add(w.allInt[g.Intn(len(w.allInt))])
	}
	if len(cands) == 0 {
		if w.scorch {
			return u64(binary.BigEndian.Uint64(after) + 1)
		}
		return append(append([]byte(nil), after...), 0)
	}
	return cands[g.Intn(len(cands))]
}

// genProgram draws a program whose Advance targets are always beyond the last returned id.
func genProgram(g *rng.Rand, w *world, L [][]byte) []step {
	n := g.Range(1, 12)
	var prog []step
	pos := -1
	for i := 0; i < n; i++ {
		if g.Chance(55, 100) {
			var after []byte
			if pos >= 0 && pos < len(L) {
				after = L[pos]
			} else if pos >= len(L) && len(L) > 0 {
				after = L[len(L)-1]
			}
			t := genTarget(g, w, L, after)
			prog = append(prog, step{Adv: true, Target: hex.EncodeToString(t)})
			p := pos + 1
			for p < len(L) && bytes.Compare(L[p], t) < 0 {
				p++
			}
			pos = p
		} else {
			prog = append(prog, step{})
			pos++
		}
		if pos > len(L) {
			pos = len(L)
		}
	}
	return prog
}

func progNontrivial(prog []step, L [][]byte) bool {
	pos := -1
	skipped, nonmatch := false, false
	for _, st := range prog {
		if st.Adv {
			t, _ := hex.DecodeString(st.Target)
			p := pos + 1
			for p < len(L) && bytes.Compare(L[p], t) < 0 {
				p++
			}
			if p > pos+1 {
				skipped = true
			}
			if p >= len(L) || !bytes.Equal(L[p], t) {
				nonmatch = true
			}
			pos = p
		} else {
			pos++
		}
	}
	return skipped && nonmatch
}

type witness struct {
	Engine  string          `json:"engine"`
	Opts    opts            `json:"options"`
	Query   *corpus.Q       `json:"query"`
	Program []step          `json:"program"`
	List    []string        `json:"next_only_list"`
	Problem string          `json:"problem"`
	Detail  string          `json:"detail"`
	History *corpus.History `json:"history,omitempty"`
}

func hexList(L [][]byte) []string {
	out := make([]string, len(L))
	for i, b := range L {
		out[i] = hex.EncodeToString(b)
	}
	return out
}

func buildWorld(g *rng.Rand, dir, cfgName string, hist *corpus.History, ids []string) (*world, error) {
	cfg := corpus.ConfigByName(cfgName)
	idx, err := cfg.Open(dir, corpus.Mapping())
	if err != nil {
		return nil, err
	}
	for _, b := range hist.Batches {
		if err := corpus.ApplyBatch(idx, b); err != nil {
			return nil, err
		}
	}
	w := &world{name: cfgName, idx: idx, ids: ids, hist: hist, scorch: cfg.IsScorch()}
	return w, nil
}

func run(r *ev.Run) {
	r.Rule = "index = seeded history (updates, deletes, several batches → several segments with deleted bits; also empty and fully-deleted indexes) on scorch-mem, scorch-disk-merge, upsidedown; " +
		"case = (index, query tree, options, program of Next/forward-Advance); oracle = cursor over the Next-only list; " +
		"non-trivial = the program has an Advance that skips ≥ 1 match and one whose target is not a match; distinct by (index seed, query, options, program)"
	r.Assumptions = []string{
		"Advance targets are strictly greater than the last returned id (or first call); backward/repeated targets are outside the contract",
		"the Next-only enumeration is the reference (its agreement with the documented meaning is C02's subject)",
	}
	nWorlds := r.Scale(30, 120)
	nQueries := r.Scale(60, 200)
	nProgs := r.Scale(12, 40)
	r.MinDistinct = r.Scale(8000, 50000)
	dir := r.TempDir()

	regress(r, dir)

	var wg sync.WaitGroup
	sem := make(chan struct{}, 16)
	for wi := 0; wi < nWorlds; wi++ {
		wg.Add(1)
		sem <- struct{}{}
		go func(wi int) {
			defer wg.Done()
			defer func() { <-sem }()
			g := r.Rng(fmt.Sprintf("world-%d", wi))
			nIDs := g.Range(4, 30)
			var ops []corpus.Op
			switch wi % 6 {
			case 4: // everything deleted at the end
				ops = corpus.GenOps(g, nIDs*2, nIDs)
				for i := 0; i < nIDs; i++ {
					ops = append(ops, corpus.Op{Kind: "delete", ID: corpus.DocID(i)})
				}
			case 5: // tiny
				ops = corpus.GenOps(g, 3, 2)
			default:
				ops = corpus.GenOps(g, nIDs*3, nIDs)
			}
			hist := corpus.Partition(g, ops, 5)
			var ids []string
			for i := 0; i < nIDs+2; i++ {
				ids = append(ids, corpus.DocID(i))
			}
			for _, cfgName := range []string{"scorch-mem", "scorch-disk-merge", "upsidedown-gtreap"} {
				w, err := buildWorld(g, fmt.Sprintf("%s/w%d", dir, wi), cfgName, hist, ids)
				if err != nil {
					r.Violation("setup-error", err.Error(), nil)
					return
				}
				exercise(r, g.Derive(cfgName), w, wi, nQueries, nProgs)
				_ = w.idx.Close()
			}
		}(wi)
	}
	wg.Wait()
}

func exercise(r *ev.Run, g *rng.Rand, w *world, wi, nQueries, nProgs int) {
	adv, err := w.idx.Advanced()
	if err != nil {
		r.Violation("setup-error", err.Error(), nil)
		return
	}
	reader, err := adv.Reader()
	if err != nil {
		r.Violation("setup-error", err.Error(), nil)
		return
	}
	defer reader.Close()
	var e2 error
	w.allInt, e2 = enumerate(w, reader, &corpus.Q{Kind: "all"}, opts{})
	if e2 != nil {
		r.Violation("setup-error", e2.Error(), nil)
		return
	}
	qg := &corpus.QGen{G: g.Derive("q"), IDs: w.ids}
	for qi := 0; qi < nQueries; qi++ {
		q := qg.Tree(3)
		for _, o := range []opts{{false, false}, {true, false}, {false, true}} {
			var L [][]byte
			var err error
			panicked, val, stack := ev.Guard(func() { L, err = enumerate(w, reader, q, o) })
			if panicked {
				report(r, w, reader, q, o, nil, []step{{}}, "panic", fmt.Sprintf("Next-only enumeration: %v\n%s", val, firstLines(stack, 25)))
				continue
			}
			if err != nil {
				// a query the constructors reject (e.g. too many clauses) is not a C08 matter
				r.Count("searcher_construction_errors", 1)
				continue
			}
			// the reference itself must be strictly ascending
			for i := 1; i < len(L); i++ {
				if bytes.Compare(L[i-1], L[i]) >= 0 {
					report(r, w, reader, q, o, L, nil, "not-ascending", fmt.Sprintf("Next-only list not strictly ascending at %d: %x then %x", i, L[i-1], L[i]))
					break
				}
			}
			for pi := 0; pi < nProgs; pi++ {
				prog := genProgram(g, w, L)
				key := fmt.Sprintf("%d/%s/%s/%v/%v", wi, w.name, q.String(), o, prog)
				r.Case(key, progNontrivial(prog, L))
				if wi == 0 && qi == 0 && pi < 2 && o.ScoreNone {
					r.Sample(map[string]any{"engine": w.name, "query": q, "options": o, "program": prog, "next_only_list": hexList(L)})
				}
				if problem, detail := runProgram(w, reader, q, o, L, prog); problem != "" {
					report(r, w, reader, q, o, L, prog, problem, detail)
					break
				}
			}
		}
	}
}

func report(r *ev.Run, w *world, reader index.IndexReader, q *corpus.Q, o opts, L [][]byte, prog []step, problem, detail string) {
	// shrink the program: drop steps while the same problem persists and the program stays legal
	fails := func(cq *corpus.Q, p []step) (bool, [][]byte) {
		l, err := enumerate(w, reader, cq, o)
		if err != nil {
			return false, nil
		}
		if !legal(p, l) {
			return false, nil
		}
		pr, _ := runProgram(w, reader, cq, o, l, p)
		return pr == problem, l
	}
	if prog != nil {
		for changed := true; changed; {
			changed = false
			for i := range prog {
				cand := append(append([]step(nil), prog[:i]...), prog[i+1:]...)
				if len(cand) == 0 {
					continue
				}
				if ok, _ := fails(q, cand); ok {
					prog = cand
					changed = true
					break
				}
			}
		}
		// shrink the query with the (fixed) program
		for changed := true; changed; {
			changed = false
			for _, cand := range simpler(q) {
				if ok, l := fails(cand, prog); ok {
					q, L = cand, l
					changed = true
					break
				}
			}
		}
		_, detail = runProgram(w, reader, q, o, L, prog)
	}
	kinds := map[string]int{}
	q.Kinds(kinds)
	var ks []string
	for k := range kinds {
		ks = append(ks, k)
	}
	sort.Strings(ks)
	first := "next-first"
	if len(prog) > 0 && prog[0].Adv {
		first = "advance-first"
	}
	eng := "scorch"
	if !w.scorch {
		eng = "upsidedown"
	}
	empty := ""
	if len(w.allInt) == 0 {
		empty = "/empty-index"
	}
	class := fmt.Sprintf("%s/%s/%s/%s%s", problem, eng, strings.Join(ks, "+"), first, empty)
	r.Violation(class, fmt.Sprintf("%s on %s %+v: %s; query %s program %v", problem, w.name, o, detail, q, prog),
		witness{w.name, o, q, prog, hexList(L), problem, detail, w.hist})
}

// legal: every Advance target is beyond the last returned id.
func legal(prog []step, L [][]byte) bool {
	pos := -1
	for _, st := range prog {
		if st.Adv {
			t, _ := hex.DecodeString(st.Target)
			if pos >= 0 {
				last := pos
				if last >= len(L) {
					last = len(L) - 1
				}
				if last >= 0 && bytes.Compare(t, L[last]) <= 0 {
					return false
				}
			}
			p := pos + 1
			for p < len(L) && bytes.Compare(L[p], t) < 0 {
				p++
			}
			pos = p
		} else {
			pos++
		}
		if pos > len(L) {
			pos = len(L)
		}
	}
	return true
}

// simpler returns simpler variants of a query (children, dropped clauses).
func simpler(q *corpus.Q) []*corpus.Q {
	var out []*corpus.Q
	for _, c := range q.Children() {
		out = append(out, c.Clone())
	}
	drop := func(get func(*corpus.Q) *[]*corpus.Q) {
		for i := range *get(q) {
			c := q.Clone()
			l := get(c)
			*l = append((*l)[:i:i], (*l)[i+1:]...)
			if (c.Kind == "conj" || c.Kind == "disj") && len(c.Kids) == 0 {
				continue
			}
			if c.DisjMin > len(c.Kids) {
				c.DisjMin = len(c.Kids)
			}
			if c.ShouldMin > len(c.Should) {
				c.ShouldMin = len(c.Should)
			}
			if c.Kind == "bool" && len(c.Must)+len(c.Should)+len(c.MustNot) == 0 && c.Filter == nil {
				continue
			}
			out = append(out, c)
		}
	}
	drop(func(x *corpus.Q) *[]*corpus.Q { return &x.Kids })
	drop(func(x *corpus.Q) *[]*corpus.Q { return &x.Must })
	drop(func(x *corpus.Q) *[]*corpus.Q { return &x.Should })
	drop(func(x *corpus.Q) *[]*corpus.Q { return &x.MustNot })
	if q.Filter != nil && len(q.Must)+len(q.Should)+len(q.MustNot) > 0 {
		c := q.Clone()
		c.Filter = nil
		out = append(out, c)
	}
	if q.ShouldMin > 0 {
		c := q.Clone()
		c.ShouldMin--
		out = append(out, c)
	}
	if q.DisjMin > 0 {
		c := q.Clone()
		c.DisjMin--
		out = append(out, c)
	}
	if q.Boost != 0 {
		c := q.Clone()
		c.Boost = 0
		out = append(out, c)
	}
	rec := func(get func(*corpus.Q) []*corpus.Q) {
		for i, k := range get(q) {
			for _, kc := range simpler(k) {
				c := q.Clone()
				get(c)[i] = kc
				out = append(out, c)
			}
		}
	}
	rec(func(x *corpus.Q) []*corpus.Q { return x.Kids })
	rec(func(x *corpus.Q) []*corpus.Q { return x.Must })
	rec(func(x *corpus.Q) []*corpus.Q { return x.Should })
	rec(func(x *corpus.Q) []*corpus.Q { return x.MustNot })
	if q.Filter != nil {
		for _, kc := range simpler(q.Filter) {
			c := q.Clone()
			c.Filter = kc
			out = append(out, c)
		}
	}
	return out
}

// regress replays the minimal inputs of defects seen earlier (DESIGN §6 F6, F11).
func regress(r *ev.Run, dir string) {
	// F6: Advance as the first call on an index whose only document was deleted.
	for _, cfgName := range []string{"scorch-mem", "scorch-disk", "upsidedown-gtreap"} {
		hist := &corpus.History{Batches: []corpus.Batch{
			{Ops: []corpus.Op{{Kind: "index", ID: "d00", Doc: &corpus.Doc{ID: "d00", Fields: map[string]any{"body": "alpha"}}}}},
			{Ops: []corpus.Op{{Kind: "delete", ID: "d00"}}},
		}}
		w, err := buildWorld(nil, dir+"/regress6", cfgName, hist, []string{"d00"})
		if err != nil {
			r.Violation("setup-error", err.Error(), nil)
			continue
		}
		adv, _ := w.idx.Advanced()
		reader, _ := adv.Reader()
		for _, q := range []*corpus.Q{{Kind: "term", Field: "body", Text: "alpha"}, {Kind: "all"}, {Kind: "docid", IDs: []string{"d00"}},
			{Kind: "conj", Kids: []*corpus.Q{{Kind: "term", Field: "body", Text: "alpha"}, {Kind: "all"}}}} {
			for _, o := range []opts{{false, false}, {true, false}} {
				t := u64(0)
				if !w.scorch {
					t = []byte("d00")
				}
				prog := []step{{Adv: true, Target: hex.EncodeToString(t)}, {}}
				r.Case(fmt.Sprintf("regress-F6/%s/%s/%v", cfgName, q, o), true)
				if problem, detail := runProgram(w, reader, q, o, nil, prog); problem != "" {
					report(r, w, reader, q, o, nil, prog, problem, detail)
				}
			}
		}
		reader.Close()
		w.idx.Close()
	}
	// F11: boolean must+should, first call Advance(t) with first must-match < t ≤ first should-match.
	docs := []string{"delta", "delta alps", "alps", "delta alps zeta", "zeta delta", "delta", "kappa delta zeta"}
	hist := &corpus.History{}
	var ids []string
	for i, s := range docs {
		id := corpus.DocID(i)
		ids = append(ids, id)
		hist.Batches = append(hist.Batches, corpus.Batch{Ops: []corpus.Op{{Kind: "index", ID: id, Doc: &corpus.Doc{ID: id, Fields: map[string]any{"body": s}}}}})
	}
	t := func(w string) *corpus.Q { return &corpus.Q{Kind: "term", Field: "body", Text: w} }
	d2 := func(a, b string) *corpus.Q { return &corpus.Q{Kind: "disj", Kids: []*corpus.Q{t(a), t(b)}} }
	qs := []*corpus.Q{
		{Kind: "bool", Must: []*corpus.Q{t("delta")}, Should: []*corpus.Q{t("alps")}, ShouldMin: 1},
		{Kind: "bool", Must: []*corpus.Q{t("delta")}, Should: []*corpus.Q{d2("alps", "zeta")}, ShouldMin: 1},
		{Kind: "bool", Must: []*corpus.Q{t("delta")}, Should: []*corpus.Q{d2("alps", "zeta"), t("kappa")}, ShouldMin: 0},
		{Kind: "conj", Kids: []*corpus.Q{t("alps"), {Kind: "bool", Must: []*corpus.Q{t("delta")}, Should: []*corpus.Q{d2("zeta", "kappa")}}}},
	}
	for _, cfgName := range []string{"scorch-mem", "upsidedown-gtreap"} {
		w, err := buildWorld(nil, dir+"/regress11", cfgName, hist, ids)
		if err != nil {
			r.Violation("setup-error", err.Error(), nil)
			continue
		}
		adv, _ := w.idx.Advanced()
		reader, _ := adv.Reader()
		w.allInt, _ = enumerate(w, reader, &corpus.Q{Kind: "all"}, opts{})
		for _, q := range qs {
			for _, o := range []opts{{false, false}, {true, false}, {false, true}} {
				L, err := enumerate(w, reader, q, o)
				if err != nil {
					continue
				}
				// every single-Advance program and every Advance+Next program over all doc positions
				for _, tgt := range w.allInt {
					for _, prog := range [][]step{
						{{Adv: true, Target: hex.EncodeToString(tgt)}},
						{{Adv: true, Target: hex.EncodeToString(tgt)}, {}},
						{{}, {Adv: true, Target: hex.EncodeToString(tgt)}, {}},
					} {
						if !legal(prog, L) {
							continue
						}
						r.Case(fmt.Sprintf("regress-F11/%s/%s/%v/%v", cfgName, q, o, prog), true)
						if problem, detail := runProgram(w, reader, q, o, L, prog); problem != "" {
							report(r, w, reader, q, o, L, prog, problem, detail)
						}
					}
				}
			}
		}
		reader.Close()
		w.idx.Close()
	}
}
