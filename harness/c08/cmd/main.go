package main

import (
	_ "verifharness/c08"
	"verifharness/ev"
)

func main() { ev.Main() }
