// Package c09 monitors property C09: searching an alias over shards equals searching one index
// holding all documents — same Total, same hits in the same order under a score-independent total
// sort, same sort keys, same stored fields, same facets — for every From/Size page and for
// SearchAfter / SearchBefore paging.
package c09

import (
	"fmt"
	"os"
	"runtime"
	"runtime/pprof"
	"strconv"
	"sync"
	"time"

	"verifharness/ev"
	"verifharness/rng"
)

func init() { ev.Register("C09", "exploration", run) }

type monitor struct {
	r        *ev.Run
	dir      string
	mu       sync.Mutex
	reported map[string]bool
}

// firstOfKind is true for the first failure of a provisional class: only that one is shrunk.
func (m *monitor) firstOfKind(k string) bool {
	m.mu.Lock()
	defer m.mu.Unlock()
	if m.reported == nil {
		m.reported = map[string]bool{}
	}
	if m.reported[k] {
		return false
	}
	m.reported[k] = true
	return true
}

func parallel(n int, f func(i int)) {
	workers := min(max(runtime.NumCPU(), 1), 16)
	var wg sync.WaitGroup
	ch := make(chan int, workers)
	for w := 0; w < workers; w++ {
		wg.Add(1)
		go func() {
			defer wg.Done()
			for i := range ch {
				f(i)
			}
		}()
	}
	for i := 0; i < n; i++ {
		ch <- i
	}
	close(ch)
	wg.Wait()
}

func run(r *ev.Run) {
	m := &monitor{r: r, dir: r.TempDir()}
	r.Rule = "world = corpus of 50-300 generated documents held in one reference index and, partitioned (uniform, skewed, " +
		"with empty shards, tiny shards, id ranges, round robin, by the value of a sort field), in 1-5 shard indexes " +
		"(scorch in memory / on disk, upsidedown) behind an alias tree (flat, nested up to 3 levels, aliases of one); " +
		"request = query tree x total sort (0-3 field keys, `_id` last) x stored fields x facets (terms with size >= " +
		"bucket bound, numeric ranges, date ranges); one case = one page of one request in one world: every From/Size " +
		"page of 2-3 tilings, Size 0 pages, every step of a SearchAfter chain to the end and of a SearchBefore chain " +
		"back to the start, SearchAfter/SearchBefore from random anchors. Oracle: the alias answer equals the reference " +
		"index's answer to the same request (Total, ids in order, Sort, DecodedSort, Fields, facet JSON). " +
		"Non-trivial: hits of the page are owned by >= 2 different shards. Distinct = (world content, request, page)."
	r.Assumptions = []string{
		"the single index's own answer is the reference; whether it is the right slice of the right match list is C02/C06's subject",
		"only score-independent total sorts are generated (field keys then `_id`); scores are never compared",
		"facet sizes are >= the number of buckets any shard or the whole can produce; smaller sizes are outside the statement",
		"KNN, synonyms, BM25 global scoring (the pre-search phases of an alias), score fusion and highlighting are not generated",
		"fuzzy queries are generated only when every index of a world is of one engine (scorch and upsidedown count a transposition differently)",
		"mode `default` on fields with several values per document is generated only when every index of a world is scorch (the first visited value is the smallest term there; on upsidedown it depends on a map iteration at indexing time)",
		"a field occurs at most once in a sort (scorch visits a field that is listed twice two times per document, which doubles facet counts on that field in a single index already: C10's subject)",
		"SearchAfter/SearchBefore keys follow docs/pagination.md: DecodedSort for keys declared number/date, Sort otherwise; hits whose typed key is missing cannot serve as an anchor under that protocol and are skipped (counted)",
		"a request that the reference index refuses with an error must also fail on the alias (error or failed shards); nothing else is compared then",
	}
	t0 := time.Now()
	debug := os.Getenv("C09_DEBUG") != ""

	if pf := os.Getenv("C09_PROF"); pf != "" { // debugging aid
		if f, err := os.Create(pf); err == nil {
			_ = pprof.StartCPUProfile(f)
			defer pprof.StopCPUProfile()
		}
	}
	m.regressions()

	nWorlds := r.Scale(80, 2400)
	nReqs := r.Scale(8, 12)
	if v, err := strconv.Atoi(os.Getenv("C09_WORLDS")); err == nil && v > 0 { // debugging aid: a reduced run
		nWorlds = v
	}
	nMin, nMax := 50, 300
	parallel(nWorlds, func(wi int) {
		g := r.Rng(fmt.Sprintf("world/%d", wi))
		ws := genWorld(g, r.Thorough(), nMin, nMax)
		w, err := buildWorld(m.dir, ws)
		if err != nil {
			r.Violation("setup-error", err.Error(), map[string]any{"world": ws})
			return
		}
		defer w.close()
		m.countWorld(w)
		for ri := 0; ri < nReqs; ri++ {
			gr := r.Rng(fmt.Sprintf("world/%d/req/%d", wi, ri))
			rs := genReq(gr, ws)
			// a panic in one of MultiSearch's child goroutines cannot be recovered: leave the input behind
			r.Journal(map[string]any{"world_index": wi, "request_index": ri, "alias_tree": ws.Tree.String(), "shards": shardSizes(ws),
				"engines": engines(ws), "request": rs, "note": "world = genWorld(Rng(world/<world_index>)) at this seed and tier"})
			m.exercise(w, rs, gr)
		}
		if debug {
			fmt.Fprintf(os.Stderr, "c09: world %d (%d docs, %s, %s) done at %.1fs\n", wi, len(ws.Docs), ws.Tree, ws.Partition, time.Since(t0).Seconds())
		}
	})
	r.MinDistinct = r.Scale(10000, 300000)
	if def := r.Scale(80, 2400); nWorlds != def {
		r.MinDistinct = r.MinDistinct * nWorlds / def
	}
}

func (m *monitor) countWorld(w *world) {
	r := m.r
	ws := w.spec
	r.Count("worlds", 1)
	r.Count("worlds.docs", len(ws.Docs))
	r.Count(fmt.Sprintf("worlds.shards=%d", len(ws.Shards)), 1)
	r.Count("worlds.shape."+ws.Tree.shape(), 1)
	r.Count(fmt.Sprintf("worlds.alias_depth=%d", ws.Tree.depth()), 1)
	r.Count("worlds.partition."+ws.Partition, 1)
	if w.nonEmptyShards() < len(ws.Shards) {
		r.Count("worlds.with_empty_shard", 1)
	}
	if ws.homogeneous() {
		r.Count("worlds.one_engine", 1)
	} else {
		r.Count("worlds.mixed_engines", 1)
	}
	r.Count("ref_engine."+ws.RefEngine, 1)
	for _, s := range ws.Shards {
		r.Count("shard_engine."+s.Engine, 1)
	}
}

// pickSizes: page sizes whose tiling needs at most maxPages pages.
func pickSizes(g *rng.Rand, total, count, maxPages int, cands []int) []int {
	var ok []int
	for _, c := range cands {
		if c > 0 && (total+c-1)/c <= maxPages {
			ok = append(ok, c)
		}
	}
	if len(ok) == 0 {
		return []int{max(total, 1)}
	}
	rng.Shuffle(g, ok)
	if len(ok) > count {
		ok = ok[:count]
	}
	return ok
}

// exercise: all pages and chains of one request in one world.
func (m *monitor) exercise(w *world, rs *reqSpec, g *rng.Rand) {
	r := m.r
	keyBase := w.sig + "|" + mustJSON(rs) + "|"
	failed := false
	one := func(p pageSpec, anchor *hitV) *outcome {
		o := w.runPage(rs, p, anchor)
		r.Count("searches", 2)
		if o.noAnchor {
			r.Count("anchor_unusable_typed_key_missing", 1)
			return o
		}
		key := fmt.Sprintf("%s%s|%d|%d|%s", keyBase, p.Mode, p.Size, p.From, p.AnchorID)
		r.Case(key, o.contrib >= 2)
		r.Count("pages."+p.Mode, 1)
		r.Count(fmt.Sprintf("pages.contributing_shards=%d", o.contrib), 1)
		if o.bothErr {
			r.Count("refused_by_both", 1)
			return o
		}
		if o.ref != nil {
			r.Count("hits_compared", len(o.ref.Hits))
			if len(rs.Facets) > 0 && o.fail == nil {
				for _, f := range rs.Facets {
					r.Count("facets_compared."+f.Kind, 1)
				}
			}
			if p.Size == 0 {
				r.Count("pages.size0", 1)
			}
		}
		if o.fail != nil {
			failed = true
			m.report(&caseT{World: w.spec, Req: rs, Page: p}, o)
		}
		return o
	}

	nDocs := len(w.spec.Docs)
	full := one(pageSpec{Mode: "page", Size: nDocs + 3}, nil)
	if full.ref == nil || full.ref.Err != "" || full.fail != nil {
		if full.ref != nil && full.ref.Err != "" {
			r.Count("requests.refused", 1)
		}
		return
	}
	L := full.ref.Hits
	total := len(L)
	r.Count("requests", 1)
	r.Count("requests.matches", total)
	if total == 0 {
		r.Count("requests.no_match", 1)
	}
	if len(rs.Facets) > 0 {
		r.Count("requests.with_facets", 1)
	}
	if full.contrib >= 2 {
		r.Sample(map[string]any{"docs": nDocs, "shards": shardSizes(w.spec), "engines": engines(w.spec), "alias_tree": w.spec.Tree.String(),
			"partition": w.spec.Partition, "query": rs.Query, "sort": rs.Sort.String(), "fields": rs.Fields, "facets": rs.Facets,
			"matches": total, "order_head": full.ref.ids()[:min(total, 6)], "contributing_shards": full.contrib})
	}

	// 1. From/Size tilings: every page, and one page beyond the end
	sizes := pickSizes(g, total, 2, 45, []int{1, 2, 3, 5, 7, 10, 11, 17, 25, 50, 100})
	if g.Chance(1, 3) {
		sizes = append(sizes, rng.Pick(g, []int{max(total-1, 1), max(total, 1), total + 1}))
	}
	for _, k := range sizes {
		for from := 0; !failed; from += k {
			one(pageSpec{Mode: "page", Size: k, From: from}, nil)
			if from >= total {
				break
			}
		}
		r.Count("tilings", 1)
	}
	// 2. Size 0 (count / facets only), with and without From
	if !failed {
		one(pageSpec{Mode: "page", Size: 0}, nil)
		one(pageSpec{Mode: "page", Size: 0, From: g.Range(1, max(total, 1))}, nil)
	}
	if total == 0 || failed {
		return
	}
	// 3. SearchAfter chain from the first page to the end; SearchBefore chain from the last hit to the start
	for _, k := range pickSizes(g, total, 1, 70, []int{1, 2, 3, 5, 10, 11, 25}) {
		// forward: pos = number of hits consumed so far. A hit that cannot serve as an anchor (typed key
		// of a missing value) is stepped over with a From/Size page, then the chain resumes.
		first := one(pageSpec{Mode: "page", Size: k}, nil)
		page := first.ref
		pos := 0
		for steps := 0; !failed && page != nil && page.Err == "" && len(page.Hits) > 0 && steps <= total+2; steps++ {
			pos += len(page.Hits)
			last := &page.Hits[len(page.Hits)-1]
			o := one(pageSpec{Mode: "after", Size: k, AnchorID: last.ID}, last)
			r.Count("chain.after_steps", 1)
			if o.noAnchor {
				r.Count("chain.after_fallback_pages", 1)
				o = one(pageSpec{Mode: "page", Size: k, From: pos}, nil)
			}
			if o.bothErr || o.ref == nil {
				break
			}
			page = o.ref
		}
		if pos == total {
			r.Count("chain.after_reached_end", 1)
		}
		r.Count("chains.after", 1)

		// backward from the last hit of the ordering: apos = position of the anchor in L
		apos := total - 1
		anchor := &L[apos]
		for steps := 0; !failed && steps <= total+2; steps++ {
			o := one(pageSpec{Mode: "before", Size: k, AnchorID: anchor.ID}, anchor)
			r.Count("chain.before_steps", 1)
			if o.noAnchor {
				if apos == 0 {
					break
				}
				r.Count("chain.before_fallback_pages", 1)
				o = one(pageSpec{Mode: "page", Size: min(k, apos), From: max(apos-k, 0)}, nil)
			}
			if o.bothErr || o.ref == nil || o.ref.Err != "" || len(o.ref.Hits) == 0 {
				break
			}
			apos -= len(o.ref.Hits)
			if apos < 0 || L[apos].ID != o.ref.Hits[0].ID {
				r.Count("chain.before_lost_track", 1) // the reference's own pages disagree with its full listing: C06's subject
				break
			}
			anchor = &L[apos]
		}
		if apos == 0 {
			r.Count("chain.before_reached_start", 1)
		}
		r.Count("chains.before", 1)
	}
	// 4. SearchAfter / SearchBefore from arbitrary hits with arbitrary sizes
	for a := 0; a < 2 && !failed; a++ {
		pos := g.Intn(total)
		size := rng.Pick(g, []int{0, 1, 2, 5, 10, 11, total})
		for _, mode := range []string{"after", "before"} {
			one(pageSpec{Mode: mode, Size: size, AnchorID: L[pos].ID}, &L[pos])
			r.Count("anchored."+mode, 1)
		}
	}
}

func shardSizes(ws *worldSpec) []int {
	out := make([]int, len(ws.Shards))
	for i, s := range ws.Shards {
		out[i] = len(s.IDs)
	}
	return out
}

func engines(ws *worldSpec) map[string]any {
	out := make([]string, len(ws.Shards))
	for i, s := range ws.Shards {
		out[i] = s.Engine
	}
	return map[string]any{"reference": ws.RefEngine, "shards": out}
}
