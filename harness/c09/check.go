package c09

// Executing one request on the reference index and on the alias, and the comparison that is the
// oracle: same Total, same ids in the same order, same sort keys, same stored fields, same facets.

import (
	"encoding/json"
	"fmt"
	"sort"
	"strings"

	bleve "github.com/blevesearch/bleve/v2"

	"verifharness/ev"
)

type hitV struct {
	ID      string   `json:"id"`
	Sort    []string `json:"sort,omitempty"`
	Decoded []string `json:"decoded_sort,omitempty"`
	Fields  string   `json:"fields,omitempty"` // JSON of hit.Fields
}

type resV struct {
	Err     string            `json:"err,omitempty"`
	Panic   bool              `json:"panic,omitempty"`
	Total   uint64            `json:"total"`
	Hits    []hitV            `json:"hits"`
	Facets  map[string]string `json:"facets,omitempty"` // facet name → JSON of the FacetResult
	Failed  int               `json:"status_failed,omitempty"`
	StatErr []string          `json:"status_errors,omitempty"`
}

func (r *resV) ids() []string {
	out := make([]string, len(r.Hits))
	for i, h := range r.Hits {
		out[i] = h.ID
	}
	return out
}

// searchReused runs one request object on first and then on second and returns the second result.
func searchReused(first, second bleve.Index, rs *reqSpec, p pageSpec, keys []string) *resV {
	var req *bleve.SearchRequest
	ok := true
	panicked, _, _ := ev.Guard(func() {
		req = rs.build(p, keys)
		if _, err := first.Search(req); err != nil {
			ok = false
		}
	})
	if panicked || !ok {
		return nil
	}
	return doSearchReq(second, req)
}

func doSearch(idx bleve.Index, rs *reqSpec, p pageSpec, keys []string) *resV {
	return doSearchReq(idx, rs.build(p, keys))
}

func doSearchReq(idx bleve.Index, req *bleve.SearchRequest) *resV {
	out := &resV{}
	var res *bleve.SearchResult
	var err error
	panicked, val, stack := ev.Guard(func() {
		res, err = idx.Search(req)
	})
	if panicked {
		out.Panic = true
		out.Err = fmt.Sprintf("panic: %v\n%s", val, firstLines(stack, 30))
		return out
	}
	if err != nil {
		out.Err = err.Error()
		return out
	}
	out.Total = res.Total
	if res.Status != nil {
		out.Failed = res.Status.Failed
		for name, e := range res.Status.Errors {
			out.StatErr = append(out.StatErr, name+": "+e.Error())
		}
		sort.Strings(out.StatErr)
	}
	for _, h := range res.Hits {
		hv := hitV{ID: h.ID, Sort: append([]string(nil), h.Sort...), Decoded: append([]string(nil), h.DecodedSort...)}
		if len(h.Fields) > 0 {
			b, e := json.Marshal(h.Fields)
			if e != nil {
				hv.Fields = "unmarshalable: " + e.Error()
			} else {
				hv.Fields = string(b)
			}
		}
		out.Hits = append(out.Hits, hv)
	}
	if len(res.Facets) > 0 {
		out.Facets = map[string]string{}
		for name, fr := range res.Facets {
			b, e := json.Marshal(fr)
			if e != nil {
				out.Facets[name] = "unmarshalable: " + e.Error()
			} else {
				out.Facets[name] = string(b)
			}
		}
	}
	return out
}

func firstLines(s string, n int) string {
	lines := strings.Split(s, "\n")
	if len(lines) > n {
		lines = lines[:n]
	}
	return strings.Join(lines, "\n")
}

type failure struct {
	Kind   string // what differs (first difference in a fixed order of checks)
	Detail map[string]any
}

func eqStrings(a, b []string) bool {
	if len(a) != len(b) {
		return false
	}
	for i := range a {
		if a[i] != b[i] {
			return false
		}
	}
	return true
}

func sameSet(a, b []string) bool {
	if len(a) != len(b) {
		return false
	}
	x := append([]string(nil), a...)
	y := append([]string(nil), b...)
	sort.Strings(x)
	sort.Strings(y)
	return eqStrings(x, y)
}

// compare: nil when the alias answer equals the reference answer. bothErr reports that both sides
// refused the request (nothing to compare).
func compare(rs *reqSpec, ref, al *resV) (f *failure, bothErr bool) {
	mk := func(kind string, d map[string]any) *failure { return &failure{Kind: kind, Detail: d} }
	if al.Panic && ref.Panic {
		return nil, true
	}
	if al.Panic {
		return mk("panic", map[string]any{"alias_panic": al.Err}), false
	}
	if ref.Err != "" {
		if al.Err != "" || al.Failed > 0 {
			return nil, true
		}
		return mk("error/reference-only", map[string]any{"reference_error": ref.Err}), false
	}
	if al.Err != "" {
		return mk("error/alias-only", map[string]any{"alias_error": al.Err}), false
	}
	if al.Failed > 0 || len(al.StatErr) > 0 {
		return mk("error/alias-shard-failed", map[string]any{"alias_status_errors": al.StatErr, "alias_failed": al.Failed}), false
	}
	if ref.Total != al.Total {
		return mk("total", map[string]any{"reference_total": ref.Total, "alias_total": al.Total}), false
	}
	ri, ai := ref.ids(), al.ids()
	if !eqStrings(ri, ai) {
		kind := "hits/order"
		switch {
		case len(ri) != len(ai):
			kind = "hits/count"
		case !sameSet(ri, ai):
			kind = "hits/set"
		}
		return mk(kind, map[string]any{"reference_ids": ri, "alias_ids": ai}), false
	}
	for i := range ref.Hits {
		rh, ah := ref.Hits[i], al.Hits[i]
		if !eqStrings(rh.Sort, ah.Sort) {
			return mk("sort-keys", map[string]any{"id": rh.ID, "reference_sort": fmt.Sprintf("%q", rh.Sort), "alias_sort": fmt.Sprintf("%q", ah.Sort)}), false
		}
		if !eqStrings(rh.Decoded, ah.Decoded) {
			return mk("decoded-sort-keys", map[string]any{"id": rh.ID, "reference_decoded": fmt.Sprintf("%q", rh.Decoded), "alias_decoded": fmt.Sprintf("%q", ah.Decoded)}), false
		}
		if rh.Fields != ah.Fields {
			return mk("fields", map[string]any{"id": rh.ID, "reference_fields": rh.Fields, "alias_fields": ah.Fields}), false
		}
	}
	for _, fs := range rs.Facets {
		rf, rok := ref.Facets[fs.Name]
		af, aok := al.Facets[fs.Name]
		if rok != aok || rf != af {
			return mk("facets/"+fs.Kind, map[string]any{"facet": fs, "reference_facet": rf, "alias_facet": af}), false
		}
	}
	if len(ref.Facets) != len(al.Facets) {
		return mk("facets/names", map[string]any{"reference_facets": ref.Facets, "alias_facets": al.Facets}), false
	}
	return nil, false
}

// contributing: number of distinct shards that own hits of the page.
func (w *world) contributing(r *resV) int {
	seen := map[int]bool{}
	for _, h := range r.Hits {
		if s, ok := w.owner[h.ID]; ok {
			seen[s] = true
		}
	}
	return len(seen)
}

// caseT is one fully determined case: the replay, shrink and witness format.
type caseT struct {
	World *worldSpec `json:"world"`
	Req   *reqSpec   `json:"request"`
	Page  pageSpec   `json:"page"`
}

// outcome of one executed page.
type outcome struct {
	fail     *failure
	bothErr  bool
	noAnchor bool // SearchAfter/Before anchor unusable under the key protocol (or not a hit)
	ref, al  *resV
	keys     []string
	contrib  int
}

// runPage executes one page on both sides. For after/before modes the keys are those of the hit
// anchor (taken from the reference's full listing when anchor is nil).
func (w *world) runPage(rs *reqSpec, p pageSpec, anchor *hitV) *outcome {
	o := &outcome{}
	var keys []string
	if p.Mode != "page" {
		if anchor == nil {
			full := doSearch(w.ref, rs, pageSpec{Mode: "page", Size: len(w.spec.Docs) + 3}, nil)
			for i := range full.Hits {
				if full.Hits[i].ID == p.AnchorID {
					anchor = &full.Hits[i]
				}
			}
			if anchor == nil {
				o.noAnchor = true
				return o
			}
		}
		var ok bool
		keys, ok = protocolKeys(rs.Sort, anchor)
		if !ok {
			o.noAnchor = true
			return o
		}
	}
	o.keys = keys
	o.ref = doSearch(w.ref, rs, p, keys)
	o.al = doSearch(w.alias, rs, p, keys)
	o.fail, o.bothErr = compare(rs, o.ref, o.al)
	if o.fail == nil && !o.bothErr {
		// the same request OBJECT used on the single index first and on the alias
		// afterwards ("any request": a request value may be used more than once)
		if al2 := searchReused(w.ref, w.alias, rs, p, keys); al2 != nil {
			if f, _ := compare(rs, o.ref, al2); f != nil {
				f.Kind = "request-reused/" + f.Kind
				o.fail, o.al = f, al2
			}
		}
	}
	o.contrib = w.contributing(o.al)
	if c := w.contributing(o.ref); c > o.contrib {
		o.contrib = c
	}
	return o
}

// runCase builds the world from scratch and runs the single page of the case.
func runCase(base string, c *caseT) (*outcome, error) {
	w, err := buildWorld(base, c.World)
	if err != nil {
		return nil, err
	}
	defer w.close()
	return w.runPage(c.Req, c.Page, nil), nil
}
