package main

import (
	_ "verifharness/c09"
	"verifharness/ev"
)

func main() { ev.Main() }
