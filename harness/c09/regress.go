package c09

import "verifharness/corpus"

// regressions replays the minimal witnesses of defects this monitor found (see regressCases); each is
// rebuilt from scratch and judged by the same comparison on every run.
func (m *monitor) regressions() {
	for _, rc := range regressCases() {
		o, err := runCase(m.dir, rc.Case)
		if err != nil {
			m.r.Violation("setup-error", "regression "+rc.Name+": "+err.Error(), rc.Case)
			continue
		}
		m.r.Count("regressions_replayed", 1)
		if o.noAnchor {
			m.r.Inconclusive("regression " + rc.Name + ": anchor not usable")
			continue
		}
		m.r.Case("regress/"+rc.Name, o.contrib >= 2)
		if o.fail != nil {
			m.report(rc.Case, o)
		}
	}
}

type regressCase struct {
	Name string
	Case *caseT
}

func fp(v float64) *float64 { return &v }

func doc(id string, fields map[string]any) *corpus.Doc { return &corpus.Doc{ID: id, Fields: fields} }

func regressCases() []regressCase {
	all := &corpus.Q{Kind: "all"}
	two := func(docs []*corpus.Doc, a, b []string) *worldSpec {
		return &worldSpec{Docs: docs, RefEngine: "scorch-mem", RefBatches: 1,
			Shards: []shardSpec{{Engine: "scorch-mem", Batches: 1, IDs: a}, {Engine: "scorch-mem", Batches: 1, IDs: b}},
			Tree:   flatTree(2)}
	}
	three := []*corpus.Doc{doc("d64", map[string]any{}), doc("d65", map[string]any{}), doc("d66", map[string]any{})}
	var out []regressCase
	// Size 0 with From > 0: the single index returns no hits; MultiSearch skipped From of the merged
	// hits and did not trim to Size because of a `req.Size > 0` guard.
	out = append(out, regressCase{Name: "size0-from2-flat",
		Case: &caseT{World: two(three, []string{"d66", "d64"}, []string{"d65"}), Req: &reqSpec{Query: all}, Page: pageSpec{Mode: "page", Size: 0, From: 2}}})
	nested := two(three, []string{"d66", "d64"}, []string{"d65"})
	nested.Tree = &node{Leaf: -1, Kids: []*node{{Leaf: -1, Kids: []*node{{Leaf: 0}, {Leaf: 1}}}}}
	out = append(out, regressCase{Name: "size0-from1-nested",
		Case: &caseT{World: nested, Req: &reqSpec{Query: all, Fields: []string{"*"}}, Page: pageSpec{Mode: "page", Size: 0, From: 1}}})
	// Two ranges with the same bounds under different names: bucket-wise merging identified ranges by
	// their bounds only, so the second bucket was added to the first.
	out = append(out, regressCase{Name: "numeric-ranges-equal-bounds",
		Case: &caseT{World: two([]*corpus.Doc{doc("d79", map[string]any{"num": 20.0})}, []string{"d79"}, nil),
			Req: &reqSpec{Query: all, Facets: []facetSpec{{Name: "f", Kind: "numeric", Field: "num", Size: 5,
				Num: []numRange{{Name: "r2", Min: fp(19)}, {Name: "r3", Min: fp(19)}}}}},
			Page: pageSpec{Mode: "page", Size: 2}}})
	out = append(out, regressCase{Name: "numeric-ranges-equal-bounds-two-shards",
		Case: &caseT{World: two([]*corpus.Doc{doc("d01", map[string]any{"num": 20.0}), doc("d02", map[string]any{"num": 3.0})}, []string{"d01"}, []string{"d02"}),
			Req: &reqSpec{Query: all, Facets: []facetSpec{{Name: "f", Kind: "numeric", Field: "num", Size: 5,
				Num: []numRange{{Name: "a", Min: fp(0), Max: fp(30)}, {Name: "b", Min: fp(0), Max: fp(30)}, {Name: "c", Min: fp(10)}}}}},
			Page: pageSpec{Mode: "page", Size: 2}}})
	out = append(out, regressCase{Name: "date-ranges-equal-bounds",
		Case: &caseT{World: two([]*corpus.Doc{doc("d93", map[string]any{"date": "2020-01-29T00:00:00Z"})}, nil, []string{"d93"}),
			Req: &reqSpec{Query: all, Facets: []facetSpec{{Name: "f", Kind: "date", Field: "date", Size: 3,
				Date: []dateRange{{Name: "p0", Start: "2020-01-15T00:00:00Z", End: "2020-01-30T00:00:00Z"}, {Name: "p1", Start: "2020-01-15T00:00:00Z", End: "2020-01-30T00:00:00Z"}}}}},
			Page: pageSpec{Mode: "page", Size: 2}}})
	return out
}
