package c09

// The request family: query tree × score-independent total sort (field keys, `_id` last) × stored
// fields × facets whose size covers every bucket, and the paging modes From/Size, SearchAfter,
// SearchBefore.

import (
	"fmt"
	"strconv"
	"strings"
	"time"

	bleve "github.com/blevesearch/bleve/v2"
	"github.com/blevesearch/bleve/v2/search"

	"verifharness/corpus"
	"verifharness/rng"
)

type sortKey struct {
	Field        string `json:"field"`
	Type         string `json:"type"` // auto | string | number | date
	Mode         string `json:"mode"` // default | min | max
	Desc         bool   `json:"desc,omitempty"`
	MissingFirst bool   `json:"missing_first,omitempty"`
}

type sortSpec struct {
	Keys   []sortKey `json:"keys,omitempty"`
	IDDesc bool      `json:"id_desc,omitempty"`
}

func (k sortKey) typed() bool { return k.Type == "number" || k.Type == "date" }

func (s sortSpec) build() search.SortOrder {
	var so search.SortOrder
	for _, k := range s.Keys {
		f := &search.SortField{Field: k.Field, Desc: k.Desc}
		switch k.Type {
		case "string":
			f.Type = search.SortFieldAsString
		case "number":
			f.Type = search.SortFieldAsNumber
		case "date":
			f.Type = search.SortFieldAsDate
		default:
			f.Type = search.SortFieldAuto
		}
		switch k.Mode {
		case "min":
			f.Mode = search.SortFieldMin
		case "max":
			f.Mode = search.SortFieldMax
		default:
			f.Mode = search.SortFieldDefault
		}
		if k.MissingFirst {
			f.Missing = search.SortFieldMissingFirst
		} else {
			f.Missing = search.SortFieldMissingLast
		}
		so = append(so, f)
	}
	so = append(so, &search.SortDocID{Desc: s.IDDesc})
	return so
}

func (s sortSpec) String() string {
	var parts []string
	for _, k := range s.Keys {
		p := k.Field + ":" + k.Type + ":" + k.Mode
		if k.Desc {
			p = "-" + p
		}
		if k.MissingFirst {
			p += ":first"
		}
		parts = append(parts, p)
	}
	if s.IDDesc {
		parts = append(parts, "-_id")
	} else {
		parts = append(parts, "_id")
	}
	return strings.Join(parts, ",")
}

// shape: the syntactic class of the sort used in violation classes.
func (s sortSpec) shape() string {
	var parts []string
	for _, k := range s.Keys {
		p := k.Type + "/" + k.Mode
		if k.Desc {
			p += "/desc"
		}
		if k.MissingFirst {
			p += "/first"
		}
		parts = append(parts, p)
	}
	if s.IDDesc {
		parts = append(parts, "-_id")
	} else {
		parts = append(parts, "_id")
	}
	return strings.Join(parts, ",")
}

type numRange struct {
	Name string   `json:"name"`
	Min  *float64 `json:"min,omitempty"`
	Max  *float64 `json:"max,omitempty"`
}

type dateRange struct {
	Name  string `json:"name"`
	Start string `json:"start,omitempty"` // RFC3339, "" = open
	End   string `json:"end,omitempty"`
}

type facetSpec struct {
	Name  string      `json:"name"`
	Kind  string      `json:"kind"` // terms | numeric | date
	Field string      `json:"field"`
	Size  int         `json:"size"`
	Num   []numRange  `json:"num,omitempty"`
	Date  []dateRange `json:"date,omitempty"`
}

type reqSpec struct {
	Query  *corpus.Q   `json:"query"`
	Sort   sortSpec    `json:"sort"`
	Fields []string    `json:"fields,omitempty"`
	Facets []facetSpec `json:"facets,omitempty"`
}

type pageSpec struct {
	Mode     string `json:"mode"` // page | after | before
	Size     int    `json:"size"`
	From     int    `json:"from,omitempty"`
	AnchorID string `json:"anchor_id,omitempty"`
}

// build makes a fresh request object (MultiSearch mutates the request it is given while it runs).
func (rs *reqSpec) build(p pageSpec, keys []string) *bleve.SearchRequest {
	req := bleve.NewSearchRequestOptions(rs.Query.Bleve(), p.Size, p.From, false)
	req.SortByCustom(rs.Sort.build())
	if rs.Fields != nil {
		req.Fields = append([]string(nil), rs.Fields...)
	}
	for _, f := range rs.Facets {
		fr := bleve.NewFacetRequest(f.Field, f.Size)
		for _, nr := range f.Num {
			fr.AddNumericRange(nr.Name, nr.Min, nr.Max)
		}
		for _, dr := range f.Date {
			var s, e time.Time
			if dr.Start != "" {
				s, _ = time.Parse(time.RFC3339, dr.Start)
			}
			if dr.End != "" {
				e, _ = time.Parse(time.RFC3339, dr.End)
			}
			fr.AddDateTimeRange(dr.Name, s, e)
		}
		req.AddFacet(f.Name, fr)
	}
	switch p.Mode {
	case "after":
		req.SetSearchAfter(append([]string(nil), keys...))
	case "before":
		req.SetSearchBefore(append([]string(nil), keys...))
	}
	return req
}

// protocolKeys: the SearchAfter/SearchBefore keys of a hit as docs/pagination.md prescribes:
// DecodedSort for keys declared number/date, Sort otherwise. ok=false when the hit cannot serve as an
// anchor under that protocol (a typed key whose value is missing decodes to no number/date).
func protocolKeys(s sortSpec, h *hitV) (keys []string, ok bool) {
	n := len(s.Keys) + 1
	if len(h.Sort) != n {
		return nil, false
	}
	keys = make([]string, n)
	for i, k := range s.Keys {
		if !k.typed() {
			keys[i] = h.Sort[i]
			continue
		}
		if len(h.Decoded) != n {
			return nil, false
		}
		keys[i] = h.Decoded[i]
		if k.Type == "number" {
			if _, err := strconv.ParseFloat(keys[i], 64); err != nil {
				return nil, false
			}
		} else if _, err := time.Parse(time.RFC3339Nano, keys[i]); err != nil {
			return nil, false
		}
	}
	keys[n-1] = h.Sort[n-1]
	return keys, true
}

// ---- generation ---------------------------------------------------------------------------------

var baseDate = time.Date(2020, 1, 1, 0, 0, 0, 0, time.UTC)

func hasFuzz(q *corpus.Q) bool {
	if q.Fuzz > 0 || q.Kind == "fuzzy" {
		return true
	}
	for _, c := range q.Children() {
		if hasFuzz(c) {
			return true
		}
	}
	return false
}

func genQuery(g *rng.Rand, ids []string, noFuzz bool) *corpus.Q {
	qg := &corpus.QGen{G: g, IDs: ids}
	for try := 0; try < 20; try++ {
		var q *corpus.Q
		switch x := g.Intn(100); {
		case x < 30:
			return &corpus.Q{Kind: "all"}
		case x < 55:
			q = qg.Leaf()
		case x < 70:
			// a wide disjunction: many matches
			q = &corpus.Q{Kind: "disj", Kids: []*corpus.Q{qg.Leaf(), qg.Leaf(), qg.Leaf()}}
		default:
			q = qg.Tree(g.Range(2, 3))
		}
		if noFuzz && hasFuzz(q) {
			continue
		}
		return q
	}
	return &corpus.Q{Kind: "all"}
}

// genSort: 0..3 field keys and `_id` last. Fields that can hold several values per document (title,
// body, tag, notv: tokens; num: arrays) are sorted with min/max mode; "default" (first visited value)
// is engine-specific for them (scorch: smallest term; upsidedown: order of a map iteration at indexing
// time) and is drawn only when every index of the world is scorch.
func genSort(g *rng.Rand, allScorch bool) sortSpec {
	var s sortSpec
	nk := rng.Pick(g, []int{0, 1, 1, 1, 1, 2, 2, 2, 3})
	used := map[string]bool{}
	for i := 0; i < nk; i++ {
		var k sortKey
		multi := true
		switch g.Intn(9) {
		case 0:
			k = sortKey{Field: "title", Type: rng.Pick(g, []string{"auto", "string"})}
		case 1:
			k = sortKey{Field: "body", Type: rng.Pick(g, []string{"auto", "string"})}
		case 2, 3:
			k = sortKey{Field: "tag", Type: rng.Pick(g, []string{"auto", "string"})}
		case 4, 5:
			k = sortKey{Field: "num", Type: rng.Pick(g, []string{"auto", "number", "number"})}
		case 6:
			k = sortKey{Field: "date", Type: rng.Pick(g, []string{"auto", "date", "date"})}
			multi = false
		case 7:
			k = sortKey{Field: "flag", Type: "auto"}
			multi = false
		case 8:
			k = sortKey{Field: rng.Pick(g, []string{"notv", "absent"}), Type: "auto"}
		}
		if used[k.Field] {
			// a field occurs at most once in a sort (see the assumptions: a repeated field is visited
			// twice per document on scorch, which is not an alias matter)
			continue
		}
		used[k.Field] = true
		k.Mode = rng.Pick(g, []string{"min", "max"})
		if !multi && g.Bool() || multi && allScorch && g.Chance(1, 6) {
			k.Mode = "default"
		}
		k.Desc = g.Chance(2, 5)
		k.MissingFirst = g.Chance(2, 5)
		s.Keys = append(s.Keys, k)
	}
	s.IDDesc = g.Chance(1, 4)
	return s
}

// bucket bounds: the number of distinct terms each field can have over the whole vocabulary is a
// bound on the number of buckets of any terms facet, so Size >= that bound keeps the facet inside the
// statement for every query and every shard.
func termBucketBound(field string) int {
	switch field {
	case "tag":
		return len(corpus.Tags)
	case "flag":
		return 2
	}
	return len(corpus.Words)
}

func genFacets(g *rng.Rand) []facetSpec {
	if g.Chance(4, 10) {
		return nil
	}
	var out []facetSpec
	n := g.Range(1, 3)
	for i := 0; i < n; i++ {
		name := fmt.Sprintf("f%d", i)
		switch g.Intn(4) {
		case 0, 1:
			f := rng.Pick(g, []string{"tag", "tag", "title", "body", "flag", "notv"})
			b := termBucketBound(f)
			out = append(out, facetSpec{Name: name, Kind: "terms", Field: f, Size: b + rng.Pick(g, []int{0, 0, 1, 5, 100})})
		case 2:
			fs := facetSpec{Name: name, Kind: "numeric", Field: "num"}
			nr := g.Range(1, 5)
			for j := 0; j < nr; j++ {
				lo := float64(g.Range(-7, 20))
				hi := lo + float64(g.Range(0, 12))
				if g.Chance(1, 4) {
					hi += 0.5
				}
				r := numRange{Name: fmt.Sprintf("r%d", j), Min: &lo, Max: &hi}
				switch g.Intn(6) {
				case 0:
					r.Min = nil
				case 1:
					r.Max = nil
				}
				fs.Num = append(fs.Num, r)
			}
			fs.Size = len(fs.Num) + rng.Pick(g, []int{0, 0, 1, 10})
			out = append(out, fs)
		case 3:
			fs := facetSpec{Name: name, Kind: "date", Field: "date"}
			nr := g.Range(1, 4)
			for j := 0; j < nr; j++ {
				lo := g.Range(-2, 38)
				hi := lo + g.Range(0, 20)
				r := dateRange{Name: fmt.Sprintf("p%d", j),
					Start: baseDate.Add(time.Duration(lo) * 24 * time.Hour).Format(time.RFC3339),
					End:   baseDate.Add(time.Duration(hi) * 24 * time.Hour).Format(time.RFC3339)}
				switch g.Intn(6) {
				case 0:
					r.Start = ""
				case 1:
					r.End = ""
				}
				fs.Date = append(fs.Date, r)
			}
			fs.Size = len(fs.Date) + rng.Pick(g, []int{0, 0, 1, 10})
			out = append(out, fs)
		}
	}
	return out
}

func genFields(g *rng.Rand) []string {
	switch x := g.Intn(100); {
	case x < 70:
		return []string{"*"}
	case x < 82:
		return nil
	}
	return rng.Subset(g, []string{"title", "body", "tag", "num", "date", "flag"}, 1, 2)
}

func genReq(g *rng.Rand, ws *worldSpec) *reqSpec {
	ids := make([]string, 0, len(ws.Docs)+2)
	for _, d := range ws.Docs {
		ids = append(ids, d.ID)
	}
	ids = append(ids, "nope", corpus.DocID(len(ws.Docs)+7))
	hom := ws.homogeneous()
	return &reqSpec{
		Query:  genQuery(g, ids, !hom),
		Sort:   genSort(g, hom && strings.HasPrefix(ws.RefEngine, "scorch")),
		Fields: genFields(g),
		Facets: genFacets(g),
	}
}
