package c09

// Reporting: confirm the failure on freshly built indexes, shrink the case (alias tree, engines,
// facets, fields, query, sort keys, documents, empty shards, page), then classify the shrunk case.

import (
	"encoding/json"
	"fmt"
	"sort"
	"strings"

	"verifharness/corpus"
)

func mustJSON(v any) string {
	b, err := json.Marshal(v)
	if err != nil {
		return fmt.Sprintf("%+v", v)
	}
	return string(b)
}

// classOf derives the violation class from the (shrunk) case and the kind of difference.
func classOf(c *caseT, kind string, detail map[string]any) string {
	parts := []string{kind, c.Page.Mode}
	if c.Page.Size == 0 {
		parts = append(parts, "size=0")
	}
	if c.Page.From > 0 {
		parts = append(parts, "from>0")
	}
	switch {
	case strings.HasPrefix(kind, "facets/"):
		if equalBoundsRanges(c.Req) && fewerBuckets(detail) {
			parts = append(parts, "ranges-with-equal-bounds-and-different-names")
		}
		// the sort and the alias shape are irrelevant to facet merging unless shrinking kept them
		if c.World.Tree.depth() > 1 {
			parts = append(parts, c.World.Tree.shape())
		}
		if !c.World.homogeneous() {
			parts = append(parts, "mixed-engines")
		}
	default:
		parts = append(parts, c.World.Tree.shape())
		if !c.World.homogeneous() {
			parts = append(parts, "mixed-engines")
		}
		parts = append(parts, "sort="+c.Req.Sort.shape())
	}
	return strings.Join(parts, "|")
}

// equalBoundsRanges: some range facet of the request lists two ranges with identical bounds.
func equalBoundsRanges(rs *reqSpec) bool {
	eqF := func(a, b *float64) bool { return (a == nil) == (b == nil) && (a == nil || *a == *b) }
	for _, f := range rs.Facets {
		for i := range f.Num {
			for j := i + 1; j < len(f.Num); j++ {
				if eqF(f.Num[i].Min, f.Num[j].Min) && eqF(f.Num[i].Max, f.Num[j].Max) {
					return true
				}
			}
		}
		for i := range f.Date {
			for j := i + 1; j < len(f.Date); j++ {
				if f.Date[i].Start == f.Date[j].Start && f.Date[i].End == f.Date[j].End {
					return true
				}
			}
		}
	}
	return false
}

// fewerBuckets: the alias's range facet lists fewer buckets than the reference's (buckets were fused).
func fewerBuckets(detail map[string]any) bool {
	n := func(key string) int {
		s, _ := detail[key].(string)
		var fr struct {
			N []json.RawMessage `json:"numeric_ranges"`
			D []json.RawMessage `json:"date_ranges"`
		}
		if json.Unmarshal([]byte(s), &fr) != nil {
			return -1
		}
		return len(fr.N) + len(fr.D)
	}
	r, a := n("reference_facet"), n("alias_facet")
	return r >= 0 && a >= 0 && a < r
}

func (m *monitor) failsWith(c *caseT, kind string) (*outcome, bool) {
	o, err := runCase(m.dir, c)
	if err != nil || o == nil || o.fail == nil {
		return o, false
	}
	return o, o.fail.Kind == kind
}

func (m *monitor) report(c *caseT, o *outcome) {
	kind := o.fail.Kind
	prov := classOf(c, kind, o.fail.Detail)
	gate := fmt.Sprintf("%s|%s|size0=%v|from=%v|eqbounds=%v", kind, c.Page.Mode, c.Page.Size == 0, c.Page.From > 0,
		strings.HasPrefix(kind, "facets/") && equalBoundsRanges(c.Req) && fewerBuckets(o.fail.Detail))
	if !m.firstOfKind(gate) {
		m.r.Count("failures_after_first."+kind, 1)
		return
	}
	witness := func(c *caseT, o *outcome, note string) map[string]any {
		d := map[string]any{"case": c, "difference": o.fail.Detail, "alias_tree": c.World.Tree.String(), "sort": c.Req.Sort.String()}
		if o.keys != nil {
			d["search_keys"] = fmt.Sprintf("%q", o.keys)
		}
		if o.ref != nil {
			d["reference_answer"] = o.ref
		}
		if o.al != nil {
			d["alias_answer"] = o.al
		}
		if note != "" {
			d["note"] = note
		}
		return d
	}
	summary := func(c *caseT, o *outcome) string {
		return fmt.Sprintf("%s: alias %s over shards %v differs from the single index for %s size=%d from=%d anchor=%q sort=[%s] query=%s: %s",
			o.fail.Kind, c.World.Tree, shardSizes(c.World), c.Page.Mode, c.Page.Size, c.Page.From, c.Page.AnchorID, c.Req.Sort, c.Req.Query, brief(o.fail.Detail))
	}
	o2, ok := m.failsWith(c, kind)
	if !ok {
		m.r.Violation(prov+"|not-reproduced-on-fresh-indexes", summary(c, o), witness(c, o, "seen once on the shared world, not reproduced on freshly built indexes"))
		return
	}
	sc, so := m.shrink(c, kind, o2)
	m.r.Violation(classOf(sc, kind, so.fail.Detail), summary(sc, so), witness(sc, so, ""))
}

func brief(d map[string]any) string {
	s := mustJSON(d)
	if len(s) > 400 {
		s = s[:400] + "…"
	}
	return s
}

// pruneEmptyShards removes shards without documents (and aliases that become empty).
func pruneEmptyShards(ws *worldSpec) *worldSpec {
	c := ws.clone()
	renum := map[int]int{}
	var shards []shardSpec
	for i, s := range c.Shards {
		if len(s.IDs) > 0 {
			renum[i] = len(shards)
			shards = append(shards, s)
		}
	}
	if len(shards) == 0 || len(shards) == len(c.Shards) {
		return nil
	}
	var fix func(n *node) *node
	fix = func(n *node) *node {
		if n.Leaf >= 0 {
			if v, ok := renum[n.Leaf]; ok {
				return &node{Leaf: v}
			}
			return nil
		}
		out := &node{Leaf: -1}
		for _, k := range n.Kids {
			if f := fix(k); f != nil {
				out.Kids = append(out.Kids, f)
			}
		}
		if len(out.Kids) == 0 {
			return nil
		}
		return out
	}
	c.Shards = shards
	c.Tree = fix(c.Tree)
	if c.Tree == nil {
		return nil
	}
	return c
}

func dropDocs(ws *worldSpec, drop map[string]bool) *worldSpec {
	c := ws.clone()
	c.Docs = c.Docs[:0:0]
	for _, d := range ws.Docs {
		if !drop[d.ID] {
			c.Docs = append(c.Docs, d)
		}
	}
	for i := range c.Shards {
		var ids []string
		for _, id := range c.Shards[i].IDs {
			if !drop[id] {
				ids = append(ids, id)
			}
		}
		c.Shards[i].IDs = ids
	}
	return c
}

// shrink keeps every simplification under which the same kind of difference persists.
func (m *monitor) shrink(c *caseT, kind string, o *outcome) (*caseT, *outcome) {
	cur, curO := c, o
	budget := 400
	try := func(cand *caseT) bool {
		if budget <= 0 || cand == nil {
			return false
		}
		budget--
		if no, ok := m.failsWith(cand, kind); ok {
			cur, curO = cand, no
			return true
		}
		return false
	}
	withWorld := func(ws *worldSpec) *caseT {
		if ws == nil {
			return nil
		}
		return &caseT{World: ws, Req: cur.Req, Page: cur.Page}
	}
	withReq := func(f func(r *reqSpec)) *caseT {
		var r reqSpec
		_ = json.Unmarshal([]byte(mustJSON(cur.Req)), &r)
		f(&r)
		return &caseT{World: cur.World, Req: &r, Page: cur.Page}
	}
	// 1. flat alias
	if cur.World.Tree.depth() > 1 || cur.World.Tree.hasAliasOfOne() {
		ws := cur.World.clone()
		ws.Tree = flatTree(len(ws.Shards))
		try(withWorld(ws))
	}
	// 2. one engine, one batch
	{
		ws := cur.World.clone()
		ws.RefEngine, ws.RefBatches = "scorch-mem", 1
		for i := range ws.Shards {
			ws.Shards[i].Engine, ws.Shards[i].Batches = "scorch-mem", 1
		}
		if !try(withWorld(ws)) {
			ws := cur.World.clone()
			ws.RefEngine, ws.RefBatches = "upsidedown-gtreap", 1
			for i := range ws.Shards {
				ws.Shards[i].Engine, ws.Shards[i].Batches = "upsidedown-gtreap", 1
			}
			try(withWorld(ws))
		}
	}
	// 3. request: facets, fields, query, sort keys
	for i := len(cur.Req.Facets) - 1; i >= 0; i-- {
		i := i
		try(withReq(func(r *reqSpec) { r.Facets = append(r.Facets[:i:i], r.Facets[i+1:]...) }))
	}
	for fi := range cur.Req.Facets {
		for j := len(cur.Req.Facets[fi].Num) - 1; j >= 0 && len(cur.Req.Facets[fi].Num) > 1; j-- {
			fi, j := fi, j
			try(withReq(func(r *reqSpec) {
				r.Facets[fi].Num = append(r.Facets[fi].Num[:j:j], r.Facets[fi].Num[j+1:]...)
			}))
		}
		for j := len(cur.Req.Facets[fi].Date) - 1; j >= 0 && len(cur.Req.Facets[fi].Date) > 1; j-- {
			fi, j := fi, j
			try(withReq(func(r *reqSpec) {
				r.Facets[fi].Date = append(r.Facets[fi].Date[:j:j], r.Facets[fi].Date[j+1:]...)
			}))
		}
	}
	if cur.Req.Fields != nil {
		try(withReq(func(r *reqSpec) { r.Fields = nil }))
	}
	if cur.Req.Query.Kind != "all" {
		if !try(withReq(func(r *reqSpec) { r.Query = &corpus.Q{Kind: "all"} })) {
			for _, k := range cur.Req.Query.Children() {
				k := k
				if try(withReq(func(r *reqSpec) { r.Query = k.Clone() })) {
					break
				}
			}
		}
	}
	for i := len(cur.Req.Sort.Keys) - 1; i >= 0; i-- {
		i := i
		if i >= len(cur.Req.Sort.Keys) {
			continue
		}
		try(withReq(func(r *reqSpec) { r.Sort.Keys = append(r.Sort.Keys[:i:i], r.Sort.Keys[i+1:]...) }))
	}
	for i := range cur.Req.Sort.Keys {
		i := i
		k := cur.Req.Sort.Keys[i]
		if k.Desc {
			try(withReq(func(r *reqSpec) { r.Sort.Keys[i].Desc = false }))
		}
		if k.MissingFirst {
			try(withReq(func(r *reqSpec) { r.Sort.Keys[i].MissingFirst = false }))
		}
	}
	if cur.Req.Sort.IDDesc {
		try(withReq(func(r *reqSpec) { r.Sort.IDDesc = false }))
	}
	// 4. documents (the anchor stays)
	ids := func() []string {
		var out []string
		for _, d := range cur.World.Docs {
			if d.ID != cur.Page.AnchorID {
				out = append(out, d.ID)
			}
		}
		sort.Strings(out)
		return out
	}
	for chunk := max(len(cur.World.Docs)/2, 1); chunk >= 1 && budget > 0; chunk /= 2 {
		list := ids()
		for start := 0; start < len(list) && budget > 0; start += chunk {
			drop := map[string]bool{}
			for _, id := range list[start:min(start+chunk, len(list))] {
				drop[id] = true
			}
			// only ids still present
			present := map[string]bool{}
			for _, d := range cur.World.Docs {
				present[d.ID] = true
			}
			found := false
			for id := range drop {
				if present[id] {
					found = true
				} else {
					delete(drop, id)
				}
			}
			if !found {
				continue
			}
			try(withWorld(dropDocs(cur.World, drop)))
		}
		if chunk == 1 {
			break
		}
	}
	// 5. empty shards away, then flat again
	try(withWorld(pruneEmptyShards(cur.World)))
	if cur.World.Tree.depth() > 1 || cur.World.Tree.hasAliasOfOne() {
		ws := cur.World.clone()
		ws.Tree = flatTree(len(ws.Shards))
		try(withWorld(ws))
	}
	// 6. smaller page
	for _, cand := range []pageSpec{
		{Mode: cur.Page.Mode, Size: cur.Page.Size, From: 0, AnchorID: cur.Page.AnchorID},
		{Mode: cur.Page.Mode, Size: 1, From: cur.Page.From, AnchorID: cur.Page.AnchorID},
		{Mode: cur.Page.Mode, Size: cur.Page.Size, From: 1, AnchorID: cur.Page.AnchorID},
		{Mode: cur.Page.Mode, Size: min(cur.Page.Size, len(cur.World.Docs)+1), From: cur.Page.From, AnchorID: cur.Page.AnchorID},
	} {
		if cand != cur.Page && (cand.Mode == "page" || cand.From == 0) {
			try(&caseT{World: cur.World, Req: cur.Req, Page: cand})
		}
	}
	// 7. strip fields of the remaining documents that the request does not look at
	for _, f := range []string{"notv", "body", "title", "flag", "date", "num", "tag"} {
		ws := cur.World.clone()
		changed := false
		for i, d := range ws.Docs {
			if _, ok := d.Fields[f]; ok {
				nd := d.Clone()
				delete(nd.Fields, f)
				ws.Docs[i] = nd
				changed = true
			}
		}
		if changed {
			try(withWorld(ws))
		}
	}
	return cur, curO
}
