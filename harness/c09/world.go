package c09

// A world is one corpus held twice: once in a single reference index and once partitioned over
// 1..5 shard indexes that sit behind a tree of index aliases.

import (
	"encoding/json"
	"fmt"
	"hash/fnv"
	"os"
	"path/filepath"
	"sort"
	"strings"
	"sync/atomic"

	bleve "github.com/blevesearch/bleve/v2"

	"verifharness/corpus"
	"verifharness/rng"
)

type shardSpec struct {
	Engine  string   `json:"engine"`
	Batches int      `json:"batches"`
	IDs     []string `json:"ids"`
}

// node of the alias tree: Leaf >= 0 is shard number Leaf, Leaf == -1 is an alias over Kids.
type node struct {
	Leaf int     `json:"leaf"`
	Kids []*node `json:"kids,omitempty"`
}

func (n *node) String() string {
	if n.Leaf >= 0 {
		return fmt.Sprintf("s%d", n.Leaf)
	}
	parts := make([]string, len(n.Kids))
	for i, k := range n.Kids {
		parts[i] = k.String()
	}
	return "A(" + strings.Join(parts, ",") + ")"
}

func (n *node) depth() int {
	if n.Leaf >= 0 {
		return 0
	}
	d := 0
	for _, k := range n.Kids {
		d = max(d, k.depth())
	}
	return d + 1
}

func (n *node) hasAliasOfOne() bool {
	if n.Leaf >= 0 {
		return false
	}
	if len(n.Kids) == 1 {
		return true
	}
	for _, k := range n.Kids {
		if k.hasAliasOfOne() {
			return true
		}
	}
	return false
}

func (n *node) leaves(into *[]int) {
	if n.Leaf >= 0 {
		*into = append(*into, n.Leaf)
		return
	}
	for _, k := range n.Kids {
		k.leaves(into)
	}
}

func (n *node) clone() *node {
	c := &node{Leaf: n.Leaf}
	for _, k := range n.Kids {
		c.Kids = append(c.Kids, k.clone())
	}
	return c
}

// shape: flat (one alias over >= 2 indexes), one (a chain of aliases-of-one over a single index),
// nested (anything deeper), with "+one" when some alias in the tree has exactly one member.
func (n *node) shape() string {
	var ls []int
	n.leaves(&ls)
	switch {
	case len(ls) == 1:
		return "one"
	case n.depth() == 1:
		return "flat"
	case n.hasAliasOfOne():
		return "nested+one"
	}
	return "nested"
}

func flatTree(k int) *node {
	root := &node{Leaf: -1}
	for i := 0; i < k; i++ {
		root.Kids = append(root.Kids, &node{Leaf: i})
	}
	return root
}

type worldSpec struct {
	Docs       []*corpus.Doc `json:"docs"`
	RefEngine  string        `json:"ref_engine"`
	RefBatches int           `json:"ref_batches"`
	Shards     []shardSpec   `json:"shards"`
	Tree       *node         `json:"tree"`
	Partition  string        `json:"partition,omitempty"` // how the partition was drawn (information only)
}

func (ws *worldSpec) clone() *worldSpec {
	c := *ws
	c.Docs = append([]*corpus.Doc(nil), ws.Docs...)
	c.Shards = make([]shardSpec, len(ws.Shards))
	for i, s := range ws.Shards {
		c.Shards[i] = s
		c.Shards[i].IDs = append([]string(nil), s.IDs...)
	}
	c.Tree = ws.Tree.clone()
	return &c
}

func (ws *worldSpec) homogeneous() bool {
	fam := func(e string) string { return strings.SplitN(e, "-", 2)[0] }
	f := fam(ws.RefEngine)
	for _, s := range ws.Shards {
		if fam(s.Engine) != f {
			return false
		}
	}
	return true
}

func (ws *worldSpec) signature() string {
	h := fnv.New64a()
	b, _ := json.Marshal(ws)
	h.Write(b)
	return fmt.Sprintf("%016x", h.Sum64())
}

// validate: every document lives in exactly one shard, every shard is exactly one leaf.
func (ws *worldSpec) validate() error {
	seen := map[string]int{}
	for _, s := range ws.Shards {
		for _, id := range s.IDs {
			seen[id]++
		}
	}
	for _, d := range ws.Docs {
		if seen[d.ID] != 1 {
			return fmt.Errorf("document %s is in %d shards", d.ID, seen[d.ID])
		}
		delete(seen, d.ID)
	}
	if len(seen) != 0 {
		return fmt.Errorf("%d shard ids without a document", len(seen))
	}
	var ls []int
	ws.Tree.leaves(&ls)
	sort.Ints(ls)
	if len(ls) != len(ws.Shards) {
		return fmt.Errorf("tree has %d leaves for %d shards", len(ls), len(ws.Shards))
	}
	for i, l := range ls {
		if l != i {
			return fmt.Errorf("tree leaves %v are not a permutation of the shards", ls)
		}
	}
	if ws.Tree.Leaf >= 0 {
		return fmt.Errorf("root is not an alias")
	}
	return nil
}

type world struct {
	spec    *worldSpec
	sig     string
	ref     bleve.Index
	shards  []bleve.Index
	alias   bleve.Index
	owner   map[string]int
	byID    map[string]*corpus.Doc
	dir     string
	aliases []bleve.IndexAlias
}

var dirSeq atomic.Int64

func indexDocs(idx bleve.Index, docs []*corpus.Doc, batches int) error {
	if batches < 1 {
		batches = 1
	}
	per := (len(docs) + batches - 1) / batches
	if per < 1 {
		per = 1
	}
	for i := 0; i < len(docs); i += per {
		b := idx.NewBatch()
		for _, d := range docs[i:min(i+per, len(docs))] {
			if err := b.Index(d.ID, d.Fields); err != nil {
				return err
			}
		}
		if err := idx.Batch(b); err != nil {
			return err
		}
	}
	return nil
}

func buildWorld(base string, ws *worldSpec) (*world, error) {
	if err := ws.validate(); err != nil {
		return nil, fmt.Errorf("bad world spec: %v", err)
	}
	w := &world{spec: ws, sig: ws.signature(), owner: map[string]int{}, byID: map[string]*corpus.Doc{}}
	w.dir = filepath.Join(base, fmt.Sprintf("w%d", dirSeq.Add(1)))
	if err := os.MkdirAll(w.dir, 0o755); err != nil {
		return nil, err
	}
	for _, d := range ws.Docs {
		w.byID[d.ID] = d
	}
	m := corpus.Mapping()
	var err error
	w.ref, err = corpus.ConfigByName(ws.RefEngine).Open(filepath.Join(w.dir, "ref"), m)
	if err != nil {
		w.close()
		return nil, err
	}
	w.ref.SetName("ref")
	if err = indexDocs(w.ref, ws.Docs, ws.RefBatches); err != nil {
		w.close()
		return nil, err
	}
	for i, s := range ws.Shards {
		idx, err := corpus.ConfigByName(s.Engine).Open(filepath.Join(w.dir, fmt.Sprintf("s%d", i)), corpus.Mapping())
		if err != nil {
			w.close()
			return nil, err
		}
		idx.SetName(fmt.Sprintf("s%d", i))
		w.shards = append(w.shards, idx)
		docs := make([]*corpus.Doc, 0, len(s.IDs))
		for _, id := range s.IDs {
			w.owner[id] = i
			docs = append(docs, w.byID[id])
		}
		if err = indexDocs(idx, docs, s.Batches); err != nil {
			w.close()
			return nil, err
		}
	}
	n := 0
	var mk func(nd *node) bleve.Index
	mk = func(nd *node) bleve.Index {
		if nd.Leaf >= 0 {
			return w.shards[nd.Leaf]
		}
		kids := make([]bleve.Index, len(nd.Kids))
		for i, k := range nd.Kids {
			kids[i] = mk(k)
		}
		a := bleve.NewIndexAlias(kids...)
		a.SetName(fmt.Sprintf("a%d", n))
		n++
		w.aliases = append(w.aliases, a)
		return a
	}
	w.alias = mk(ws.Tree)
	return w, nil
}

func (w *world) close() {
	for _, a := range w.aliases {
		_ = a.Close()
	}
	if w.ref != nil {
		_ = w.ref.Close()
	}
	for _, s := range w.shards {
		_ = s.Close()
	}
	_ = os.RemoveAll(w.dir)
}

func (w *world) nonEmptyShards() int {
	n := 0
	for _, s := range w.spec.Shards {
		if len(s.IDs) > 0 {
			n++
		}
	}
	return n
}

// ---- generation ---------------------------------------------------------------------------------

var quickEngines = []string{"scorch-mem", "scorch-mem", "scorch-disk-unsafe", "scorch-disk", "upsidedown-gtreap", "upsidedown-gtreap"}
var thoroughEngines = []string{"scorch-mem", "scorch-mem", "scorch-disk-unsafe", "scorch-disk", "scorch-disk-merge", "scorch-disk-v15",
	"upsidedown-gtreap", "upsidedown-gtreap", "upsidedown-boltdb", "upsidedown-moss"}

func genTree(g *rng.Rand, k int) *node {
	leaves := make([]*node, k)
	for i, p := range g.Perm(k) {
		leaves[i] = &node{Leaf: p}
	}
	wrapOne := func(n *node) *node { return &node{Leaf: -1, Kids: []*node{n}} }
	if k == 1 {
		root := wrapOne(leaves[0])
		if g.Chance(1, 3) {
			root = wrapOne(root)
		}
		return root
	}
	var build func(ns []*node, depth int) *node
	build = func(ns []*node, depth int) *node {
		a := &node{Leaf: -1}
		if depth >= 3 || len(ns) <= 2 && g.Bool() {
			a.Kids = ns
			return a
		}
		// split ns into 1..len groups; a group of one stays a direct member or becomes a nested alias
		for i := 0; i < len(ns); {
			sz := g.Range(1, len(ns)-i)
			grp := ns[i : i+sz]
			i += sz
			switch {
			case sz == len(ns):
				// the whole set as one nested alias: alias-of-one at this level
				a.Kids = append(a.Kids, build(grp, depth+1))
			case sz == 1 && !g.Chance(1, 5):
				a.Kids = append(a.Kids, grp[0])
			default:
				a.Kids = append(a.Kids, build(grp, depth+1))
			}
		}
		return a
	}
	switch x := g.Intn(100); {
	case x < 35:
		return &node{Leaf: -1, Kids: leaves}
	case x < 50:
		return wrapOne(&node{Leaf: -1, Kids: leaves})
	default:
		return build(leaves, 1)
	}
}

// genPartition distributes ids over k shards in one of several styles.
func genPartition(g *rng.Rand, docs []*corpus.Doc, k int) (parts [][]string, style string) {
	parts = make([][]string, k)
	ids := make([]string, len(docs))
	for i, d := range docs {
		ids[i] = d.ID
	}
	if k == 1 {
		parts[0] = ids
		return parts, "single"
	}
	put := func(s int, id string) { parts[s] = append(parts[s], id) }
	styles := []string{"uniform", "uniform", "skewed", "with-empty", "tiny-shards", "id-ranges", "round-robin", "by-field", "by-field"}
	style = rng.Pick(g, styles)
	switch style {
	case "uniform":
		for _, id := range ids {
			put(g.Intn(k), id)
		}
	case "skewed":
		big := g.Intn(k)
		for _, id := range ids {
			if g.Chance(9, 10) {
				put(big, id)
			} else {
				put(g.Intn(k), id)
			}
		}
	case "with-empty":
		// 1..k-1 shards stay empty (k-1 empty: everything in one shard)
		nEmpty := g.Range(1, k-1)
		perm := g.Perm(k)
		live := perm[nEmpty:]
		for _, id := range ids {
			put(rng.Pick(g, live), id)
		}
	case "tiny-shards":
		// all but one shard hold 1..3 documents
		big := g.Intn(k)
		perm := g.Perm(len(ids))
		pos := 0
		for s := 0; s < k; s++ {
			if s == big {
				continue
			}
			for c := g.Range(1, 3); c > 0 && pos < len(ids)-1; c-- {
				put(s, ids[perm[pos]])
				pos++
			}
		}
		for ; pos < len(ids); pos++ {
			put(big, ids[perm[pos]])
		}
	case "id-ranges":
		sorted := append([]string(nil), ids...)
		sort.Strings(sorted)
		cuts := []int{0}
		for i := 1; i < k; i++ {
			cuts = append(cuts, g.Intn(len(sorted)+1))
		}
		cuts = append(cuts, len(sorted))
		sort.Ints(cuts)
		order := g.Perm(k)
		for s := 0; s < k; s++ {
			parts[order[s]] = append(parts[order[s]], sorted[cuts[s]:cuts[s+1]]...)
		}
	case "round-robin":
		for i, id := range ids {
			put(i%k, id)
		}
	case "by-field":
		// correlated with a sort key: shard chosen by the value of a field (missing → shard 0)
		f := rng.Pick(g, []string{"num", "date", "flag", "tag"})
		style = "by-field:" + f
		for _, d := range docs {
			v, ok := d.Fields[f]
			s := 0
			if ok {
				b, _ := json.Marshal(v)
				h := fnv.New32a()
				h.Write(b)
				s = int(h.Sum32()>>3) % k
			}
			put(s, d.ID)
		}
	}
	// insertion order inside a shard is shuffled
	for s := range parts {
		rng.Shuffle(g, parts[s])
	}
	return parts, style
}

func genWorld(g *rng.Rand, thorough bool, nMin, nMax int) *worldSpec {
	n := g.Range(nMin, nMax)
	docs := make([]*corpus.Doc, n)
	for i := range docs {
		docs[i] = corpus.GenDoc(g, corpus.DocID(i))
	}
	rng.Shuffle(g, docs)
	k := rng.Pick(g, []int{1, 2, 2, 2, 3, 3, 3, 4, 4, 5, 5, 5})
	parts, style := genPartition(g, docs, k)
	pool := quickEngines
	if thorough {
		pool = thoroughEngines
	}
	ws := &worldSpec{Docs: docs, RefBatches: g.Range(1, 4), Partition: style}
	flavour := g.Intn(100)
	pick := func() string {
		switch {
		case flavour < 45:
			return "scorch-mem"
		case flavour < 60:
			return "upsidedown-gtreap"
		}
		return rng.Pick(g, pool)
	}
	ws.RefEngine = pick()
	if flavour >= 60 && g.Chance(2, 3) {
		ws.RefEngine = "scorch-mem"
	}
	for s := 0; s < k; s++ {
		ws.Shards = append(ws.Shards, shardSpec{Engine: pick(), Batches: g.Range(1, 4), IDs: parts[s]})
	}
	ws.Tree = genTree(g, k)
	return ws
}
