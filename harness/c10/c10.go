// Package c10 monitors property C10: facet counts describe all matching
// documents, not only the returned page. The same (query, facets) pair is
// executed under many (Size, From, sort, search-after, score) settings on
// multi-segment scorch indexes with deletions (memory, disk, reopened, merged,
// old zap versions) and on upsidedown; every facet result is compared with a
// small counting model over the documents an independent query evaluator says
// match. Facet fields exist with and without doc values (uninverting path).
package c10

import (
	"encoding/json"
	"fmt"
	"os"
	"sort"
	"strings"
	"sync"
	"time"

	"github.com/blevesearch/bleve/v2"

	"verifharness/corpus"
	"verifharness/ev"
	"verifharness/rng"
)

func init() { ev.Register("C10", "exploration", run) }

// ---------------------------------------------------------------------------
// worlds

type engine struct {
	name string
	idx  bleve.Index
	segs string
}

type world struct {
	seed    uint64
	hist    *corpus.History
	model   *corpus.LWW
	docs    []*corpus.DocModel
	byID    map[string]*corpus.DocModel
	engines []engine
	ids     []string
	large   bool
	nterms  map[string]int
}

// engineSet: four fixed engines plus one rotating extra.
func engineSet(wi int) []string {
	base := []string{"scorch-mem", "scorch-disk", "scorch-disk-merge", "upsidedown-gtreap"}
	extra := []string{"scorch-disk-v11", "scorch-disk-v15", "upsidedown-boltdb", "scorch-disk-p3"}
	return append(base, extra[wi%len(extra)])
}

// openAndLoad creates an index of the configuration, replays the history and
// (for the plain disk configuration) closes and reopens it so that every
// segment is read back from its file.
func openAndLoad(name, dir string, h *corpus.History) (bleve.Index, error) {
	cfg := corpus.ConfigByName(name)
	idx, err := cfg.Open(dir, Mapping())
	if err != nil {
		return nil, fmt.Errorf("open %s: %v", name, err)
	}
	for _, b := range h.Batches {
		if err := corpus.ApplyBatch(idx, b); err != nil {
			_ = idx.Close()
			return nil, fmt.Errorf("apply on %s: %v", name, err)
		}
	}
	if cfg.IsScorch() && cfg.OnDisk {
		if err := corpus.WaitPersisted(idx, cfg); err != nil {
			_ = idx.Close()
			return nil, fmt.Errorf("persist %s: %v", name, err)
		}
	}
	if name == "scorch-disk" {
		if err := idx.Close(); err != nil {
			return nil, fmt.Errorf("close %s: %v", name, err)
		}
		idx, err = bleve.Open(cfg.Path(dir))
		if err != nil {
			return nil, fmt.Errorf("reopen %s: %v", name, err)
		}
	}
	return idx, nil
}

func segStats(idx bleve.Index) (mem, file int, ok bool) {
	sm := idx.StatsMap()
	im, _ := sm["index"].(map[string]any)
	if im == nil {
		return 0, 0, false
	}
	toInt := func(v any) int {
		switch x := v.(type) {
		case uint64:
			return int(x)
		case int:
			return x
		case float64:
			return int(x)
		}
		return 0
	}
	_, has := im["num_root_filesegments"]
	return toInt(im["num_root_memorysegments"]), toInt(im["num_root_filesegments"]), has
}

func buildWorld(g *rng.Rand, dir string, wi int, large bool, nLarge int) (*world, error) {
	w := &world{seed: g.State(), large: large, byID: map[string]*corpus.DocModel{}}
	nIDs := g.Range(12, 48)
	if large {
		nIDs = nLarge
		w.hist = GenLargeHistory(g, nIDs)
	} else {
		w.hist = GenHistory(g, nIDs, nIDs*3, 7)
	}
	w.model = corpus.NewLWW()
	for _, b := range w.hist.Batches {
		w.model.Apply(b)
	}
	for i := 0; i < nIDs+2; i++ {
		w.ids = append(w.ids, corpus.DocID(i))
	}
	var err error
	w.docs, err = corpus.AnalyseAll(Mapping(), w.model.LiveDocs())
	if err != nil {
		return nil, err
	}
	for _, d := range w.docs {
		w.byID[d.ID] = d
	}
	for _, name := range engineSet(wi) {
		idx, err := openAndLoad(name, dir, w.hist)
		if err != nil {
			w.close()
			return nil, err
		}
		e := engine{name: name, idx: idx}
		if m, f, ok := segStats(idx); ok {
			e.segs = fmt.Sprintf("mem=%d file=%d", m, f)
		}
		w.engines = append(w.engines, e)
	}
	return w, nil
}

func (w *world) close() {
	for _, e := range w.engines {
		_ = e.idx.Close()
	}
}

// distinctTermsOf counts the distinct terms the live documents have in a field.
func (w *world) distinctTermsOf(field string) int {
	if n, ok := w.nterms[field]; ok {
		return n
	}
	if w.nterms == nil {
		w.nterms = map[string]int{}
	}
	defer func() { w.nterms[field] = w.countTerms(field) }()
	return w.countTerms(field)
}

func (w *world) countTerms(field string) int {
	seen := map[string]bool{}
	for _, d := range w.docs {
		for _, t := range distinctTerms(d.F[field]) {
			seen[t] = true
		}
	}
	return len(seen)
}

// ---------------------------------------------------------------------------
// queries: the shared generator plus leaves over the facet fields

func genQuery(g *rng.Rand, qg *corpus.QGen) *corpus.Q {
	own := func() *corpus.Q {
		switch g.Intn(5) {
		case 0:
			return &corpus.Q{Kind: "term", Field: rng.Pick(g, []string{"cat", "cat_u"}), Text: rng.Pick(g, Cats[:len(Cats)-1])}
		case 1:
			// plain bounds only: the numeric range *searcher* enumerates candidate
			// terms and is very slow for some bound pairs (C07's subject)
			nice := []float64{-10, -2, 0, 1, 5, 7, 10, 100}
			a, b := rng.Pick(g, nice), rng.Pick(g, nice)
			if a > b {
				a, b = b, a
			}
			return &corpus.Q{Kind: "numrange", Field: rng.Pick(g, []string{"price", "price_u"}), Min: fptr(a), Max: fptr(b)}
		case 2:
			return &corpus.Q{Kind: "term", Field: rng.Pick(g, []string{"words", "words_u"}), Text: rng.Pick(g, corpus.Words)}
		case 3:
			return &corpus.Q{Kind: "prefix", Field: "cat", Text: rng.Pick(g, []string{"re", "b", "gr"})}
		}
		return &corpus.Q{Kind: "all"}
	}
	switch x := g.Intn(100); {
	case x < 15:
		return &corpus.Q{Kind: "all"}
	case x < 35:
		return own()
	case x < 45:
		return &corpus.Q{Kind: "disj", Kids: []*corpus.Q{own(), qg.Leaf()}}
	case x < 50:
		return &corpus.Q{Kind: "bool", Must: []*corpus.Q{{Kind: "all"}}, MustNot: []*corpus.Q{own()}}
	case x < 70:
		return qg.Leaf()
	}
	return qg.Tree(2)
}

// ---------------------------------------------------------------------------
// one execution and its judgement

type mismatch struct {
	Facet    FacetSpec `json:"facet"`
	Paging   Paging    `json:"paging"`
	Aspect   string    `json:"aspect"`
	Detail   string    `json:"detail"`
	Want     *FacetOut `json:"want,omitempty"`
	Got      *FacetOut `json:"got,omitempty"`
	pagingIx int
}

func firstLines(s string, n int) string {
	ls := strings.Split(s, "\n")
	if len(ls) > n {
		ls = ls[:n]
	}
	return strings.Join(ls, "\n")
}

// matching returns the model's matching documents (sorted by id) or ok=false
// when the evaluator leaves some document undecided.
func matching(evl *corpus.Evaluator, q *corpus.Q, docs []*corpus.DocModel) (match []*corpus.DocModel, ok bool) {
	for _, d := range docs {
		switch evl.Eval(q, d) {
		case corpus.Yes:
			match = append(match, d)
		case corpus.DontCare:
			return nil, false
		}
	}
	return match, true
}

// runOne executes one request and compares every facet with want.
// A nil return means everything agreed.
func runOne(idx bleve.Index, q *corpus.Q, specs []FacetSpec, p Paging, pix int, want map[string]FacetOut, nMatch int) []mismatch {
	var res *bleve.SearchResult
	var serr error
	panicked, val, stack := ev.Guard(func() {
		res, serr = idx.Search(Request(q, specs, p))
	})
	all := func(aspect, detail string) []mismatch {
		var out []mismatch
		for _, s := range specs {
			out = append(out, mismatch{Facet: s, Paging: p, Aspect: aspect, Detail: detail, pagingIx: pix})
		}
		return out
	}
	if panicked {
		return all("panic", fmt.Sprintf("%v\n%s", val, firstLines(stack, 25)))
	}
	if serr != nil {
		return all("search-error", serr.Error())
	}
	if int(res.Total) != nMatch {
		return all("match-count", fmt.Sprintf("result total %d, model has %d matching documents", res.Total, nMatch))
	}
	if len(res.Facets) != len(specs) {
		return all("facet-set", fmt.Sprintf("%d facet results for %d requests", len(res.Facets), len(specs)))
	}
	var out []mismatch
	for _, s := range specs {
		fr := res.Facets[s.Name]
		if fr == nil {
			out = append(out, mismatch{Facet: s, Paging: p, Aspect: "facet-absent", Detail: "no result for facet " + s.Name, pagingIx: pix})
			continue
		}
		got, problem := Observe(s, fr)
		w := want[s.Name]
		if problem != "" {
			out = append(out, mismatch{Facet: s, Paging: p, Aspect: "malformed", Detail: problem, Want: &w, Got: &got, pagingIx: pix})
			continue
		}
		if a, d := Diff(w, got); a != "" {
			out = append(out, mismatch{Facet: s, Paging: p, Aspect: a, Detail: d, Want: &w, Got: &got, pagingIx: pix})
		}
	}
	return out
}

func models(specs []FacetSpec, match []*corpus.DocModel) map[string]FacetOut {
	want := map[string]FacetOut{}
	for _, s := range specs {
		want[s.Name] = Model(s, match)
	}
	return want
}

// ---------------------------------------------------------------------------
// witness, class, shrinking

type witness struct {
	Config   string          `json:"config"`
	Segments string          `json:"segments,omitempty"`
	Query    *corpus.Q       `json:"query"`
	Facet    FacetSpec       `json:"facet"`
	Paging   Paging          `json:"paging"`
	Aspect   string          `json:"aspect"`
	Detail   string          `json:"detail"`
	Want     *FacetOut       `json:"want,omitempty"`
	Got      *FacetOut       `json:"got,omitempty"`
	Matching []string        `json:"matching_ids"`
	Others   map[string]any  `json:"same_facet_under_other_pagings,omitempty"`
	History  *corpus.History `json:"history"`
	Note     string          `json:"note,omitempty"`
}

func engFamily(name string) string {
	if strings.HasPrefix(name, "upsidedown") {
		return "upsidedown"
	}
	return "scorch"
}

func dvKind(field string) string {
	if strings.HasSuffix(field, "_u") {
		return "nodv"
	}
	return "dv"
}

func filterKind(s FacetSpec) string {
	switch {
	case s.Kind != "terms":
		return s.Kind
	case s.Prefix != "" && s.Pattern != "":
		return "terms+prefix+regexp"
	case s.Prefix != "":
		return "terms+prefix"
	case s.Pattern != "":
		return "terms+regexp"
	}
	return "terms"
}

// sortRepeats says whether the sort lists the facet's field more than once.
func sortRepeats(p Paging, field string) bool {
	n := 0
	for _, k := range p.Sort {
		if strings.TrimPrefix(k, "-") == field {
			n++
		}
	}
	return n > 1
}

func classOf(cfg string, s FacetSpec, p Paging, aspect string, pagingDependent bool) string {
	if pagingDependent && sortRepeats(p, s.Field) && (aspect == "buckets" || aspect == "total" || aspect == "other" || aspect == "missing") {
		// one cause whatever the facet kind: the field is visited once per listing
		return "sort-lists-facet-field-twice/" + engFamily(cfg)
	}
	c := fmt.Sprintf("%s/%s/%s/%s", aspect, filterKind(s), engFamily(cfg), dvKind(s.Field))
	if pagingDependent {
		c += "/paging-dependent"
	}
	return c
}

// failsOn rebuilds an index of the configuration from a candidate history and
// says whether the single facet still deviates (same aspect) under the paging.
func failsOn(cfg, dir string, h *corpus.History, q *corpus.Q, s FacetSpec, p Paging, aspect string) (bool, *mismatch, []string) {
	idx, err := openAndLoad(cfg, dir, h)
	if err != nil {
		return false, nil, nil
	}
	defer idx.Close()
	lww := corpus.NewLWW()
	for _, b := range h.Batches {
		lww.Apply(b)
	}
	docs, err := corpus.AnalyseAll(Mapping(), lww.LiveDocs())
	if err != nil {
		return false, nil, nil
	}
	evl := &corpus.Evaluator{M: Mapping()}
	match, ok := matching(evl, q, docs)
	if !ok {
		return false, nil, nil
	}
	var ids []string
	for _, d := range match {
		ids = append(ids, d.ID)
	}
	ms := runOne(idx, q, []FacetSpec{s}, p, 0, models([]FacetSpec{s}, match), len(match))
	for i := range ms {
		if ms[i].Aspect == aspect {
			return true, &ms[i], ids
		}
	}
	return false, nil, nil
}

func queryCandidates(q *corpus.Q) []*corpus.Q {
	out := []*corpus.Q{{Kind: "all"}}
	for _, c := range q.Children() {
		out = append(out, c.Clone())
	}
	return out
}

func cloneHist(h *corpus.History) *corpus.History {
	c := &corpus.History{}
	for _, b := range h.Batches {
		c.Batches = append(c.Batches, corpus.Batch{Ops: append([]corpus.Op(nil), b.Ops...), Direct: b.Direct})
	}
	return c
}

// shrink reduces query, history (batches, then ops, then document fields) while
// the deviation keeps its aspect. budget bounds the number of index rebuilds.
func shrink(cfg, dir string, h *corpus.History, q *corpus.Q, s FacetSpec, p Paging, aspect string, budget int) (*corpus.History, *corpus.Q, FacetSpec, Paging) {
	try := func(h2 *corpus.History, q2 *corpus.Q, s2 FacetSpec, p2 Paging) bool {
		if budget <= 0 {
			return false
		}
		budget--
		ok, _, _ := failsOn(cfg, dir, h2, q2, s2, p2, aspect)
		return ok
	}
	// query
	for changed := true; changed; {
		changed = false
		for _, c := range queryCandidates(q) {
			if c.String() != q.String() && c.Size() <= q.Size() && try(h, c, s, p) {
				q, changed = c, true
				break
			}
		}
		if q.Kind == "all" {
			break
		}
	}
	// paging options
	for _, f := range []func(*Paging){
		func(x *Paging) { x.ScoreNone = false }, func(x *Paging) { x.Locations = false },
		func(x *Paging) { x.Fields = false }, func(x *Paging) { x.Explain = false },
		func(x *Paging) { x.Sort = nil; x.After = nil; x.Before = nil }, func(x *Paging) { x.From = 0 },
	} {
		p2 := p
		f(&p2)
		if fmt.Sprint(p2) != fmt.Sprint(p) && try(h, q, s, p2) {
			p = p2
		}
	}
	// facet: drop filters / ranges
	if s.Prefix != "" {
		s2 := s
		s2.Prefix = ""
		if try(h, q, s2, p) {
			s = s2
		}
	}
	if s.Pattern != "" {
		s2 := s
		s2.Pattern = ""
		if try(h, q, s2, p) {
			s = s2
		}
	}
	for i := 0; i < len(s.Nums) && len(s.Nums) > 1; {
		s2 := s
		s2.Nums = append(append([]NumRange(nil), s.Nums[:i]...), s.Nums[i+1:]...)
		if try(h, q, s2, p) {
			s = s2
		} else {
			i++
		}
	}
	for i := 0; i < len(s.Dates) && len(s.Dates) > 1; {
		s2 := s
		s2.Dates = append(append([]DateRange(nil), s.Dates[:i]...), s.Dates[i+1:]...)
		if try(h, q, s2, p) {
			s = s2
		} else {
			i++
		}
	}
	// history: whole batches (halves first), then ops (halves first)
	for chunk := len(h.Batches) / 2; chunk >= 1; chunk /= 2 {
		for i := 0; i+chunk <= len(h.Batches); {
			c := cloneHist(h)
			c.Batches = append(c.Batches[:i:i], c.Batches[i+chunk:]...)
			if try(c, q, s, p) {
				h = c
			} else {
				i += chunk
			}
		}
	}
	type pos struct{ b, o int }
	flat := func(h *corpus.History) []pos {
		var ps []pos
		for bi, b := range h.Batches {
			for oi := range b.Ops {
				ps = append(ps, pos{bi, oi})
			}
		}
		return ps
	}
	without := func(h *corpus.History, drop map[pos]bool) *corpus.History {
		c := &corpus.History{}
		for bi, b := range h.Batches {
			nb := corpus.Batch{Direct: b.Direct}
			for oi, op := range b.Ops {
				if !drop[pos{bi, oi}] {
					nb.Ops = append(nb.Ops, op)
				}
			}
			if len(nb.Ops) > 0 {
				c.Batches = append(c.Batches, nb)
			}
		}
		return c
	}
	for chunk := (len(flat(h)) + 1) / 2; chunk >= 1; chunk /= 2 {
		for i := 0; ; {
			ps := flat(h)
			if i >= len(ps) {
				break
			}
			end := i + chunk
			if end > len(ps) {
				end = len(ps)
			}
			drop := map[pos]bool{}
			for _, x := range ps[i:end] {
				drop[x] = true
			}
			if c := without(h, drop); len(flat(c)) > 0 && try(c, q, s, p) {
				h = c
			} else {
				i += chunk
			}
		}
	}
	// document fields
	for bi := range h.Batches {
		for oi := range h.Batches[bi].Ops {
			op := h.Batches[bi].Ops[oi]
			if op.Doc == nil {
				continue
			}
			var keys []string
			for k := range op.Doc.Fields {
				keys = append(keys, k)
			}
			sort.Strings(keys)
			for _, k := range keys {
				c := cloneHist(h)
				d := c.Batches[bi].Ops[oi].Doc.Clone()
				delete(d.Fields, k)
				c.Batches[bi].Ops[oi].Doc = d
				if try(c, q, s, p) {
					h = c
				}
			}
		}
	}
	return h, q, s, p
}

var reportMu sync.Mutex
var reported = map[string]bool{}
var shrunk int

const maxShrinks = 4

// report shrinks one deviation and files it.
func report(r *ev.Run, w *world, e engine, q *corpus.Q, m mismatch, others map[string]any, pagingDependent bool, wdir string) {
	pre := classOf(e.name, m.Facet, m.Paging, m.Aspect, pagingDependent)
	reportMu.Lock()
	if reported[pre] { // one shrink per class and process is enough
		reportMu.Unlock()
		r.Count("violations_not_shrunk_again", 1)
		return
	}
	reported[pre] = true
	reportMu.Unlock()

	// shrinking rebuilds indexes; bound it per class and per run
	budget := 150
	if w.large {
		budget = 60
	}
	reportMu.Lock()
	shrunk++
	if shrunk > maxShrinks {
		budget = 0
	}
	reportMu.Unlock()
	h, sq, ss, sp := w.hist, q, m.Facet, m.Paging
	wit := witness{Config: e.name, Segments: e.segs, Query: q, Facet: m.Facet, Paging: m.Paging, Aspect: m.Aspect, Detail: m.Detail,
		Want: m.Want, Got: m.Got, History: w.hist, Others: others}
	if budget == 0 {
		wit.Note = fmt.Sprintf("not shrunk (more than %d classes in this run)", maxShrinks)
		if w.large {
			wit.History = nil
			wit.Note += "; large world, history omitted (world seed " + fmt.Sprint(w.seed) + ")"
		}
	} else {
		sdir := wdir + "/shrink"
		h, sq, ss, sp = shrink(e.name, sdir, h, sq, ss, sp, m.Aspect, budget)
		if ok, sm, ids := failsOn(e.name, sdir, h, sq, ss, sp, m.Aspect); ok {
			wit.Query, wit.Facet, wit.Paging, wit.History = sq, ss, sp, h
			wit.Detail, wit.Want, wit.Got, wit.Matching = sm.Detail, sm.Want, sm.Got, ids
		} else {
			wit.Note = "shrunk form did not reproduce; original case kept"
		}
	}
	class := classOf(e.name, wit.Facet, wit.Paging, m.Aspect, pagingDependent)
	r.Violation(class, fmt.Sprintf("%s facet %q on field %s (%s) under [%s]: %s; query %s", wit.Facet.Kind, wit.Facet.Name, wit.Facet.Field, e.name, wit.Paging, wit.Detail, wit.Query), wit)
}

// ---------------------------------------------------------------------------
// one case = (world, query, facets) under all its page settings on every engine

func checkCase(r *ev.Run, w *world, evl *corpus.Evaluator, g *rng.Rand, q *corpus.Q, specs []FacetSpec, wdir string, sample bool) {
	match, ok := matching(evl, q, w.docs)
	if !ok {
		r.Count("cases_skipped_undecided_match_set", 1)
		return
	}
	want := models(specs, match)
	pagings := GenPagings(g, specs, len(match), len(w.docs), w.ids)

	// non-triviality: some page with Size>0 holds fewer hits than match, and a
	// matching document lacks the field of one of the facets
	cut := false
	for _, p := range pagings {
		if p.Size > 0 && len(match) > p.Size+p.From {
			cut = true
		}
	}
	lacks := false
	for _, s := range specs {
		for _, d := range match {
			if lacksField(d, s) {
				lacks = true
				break
			}
		}
	}
	sj, _ := json.Marshal(specs)
	r.Case(fmt.Sprintf("%d/%s/%s", w.seed, q.String(), sj), cut && lacks)
	if sample {
		r.Sample(map[string]any{"query": q, "facets": specs, "pagings": pagings, "matching": len(match), "live": len(w.docs), "model": want})
	}
	for _, s := range specs {
		r.Count("facets_"+filterKind(s)+"_"+dvKind(s.Field), 1)
		wf := want[s.Name]
		nb := w.distinctTermsOf
		switch {
		case s.Kind == "terms" && s.Size < nb(s.Field):
			r.Count("facet_size_below_buckets", 1)
		case s.Kind == "terms" && s.Size == nb(s.Field):
			r.Count("facet_size_equal_buckets", 1)
		case s.Kind == "terms":
			r.Count("facet_size_above_buckets", 1)
		}
		if wf.Other > 0 {
			r.Count("facets_with_other>0", 1)
		}
		if wf.Missing > 0 {
			r.Count("facets_with_missing>0", 1)
		}
	}
	if len(match) == 0 {
		r.Count("cases_no_match", 1)
	}

	for _, e := range w.engines {
		// results per facet under every paging: must all equal the model, hence each other
		var firstBad *mismatch
		perPaging := make([][]mismatch, len(pagings))
		for pi, p := range pagings {
			r.Count("searches", 1)
			r.Count("facet_results_compared", len(specs))
			perPaging[pi] = runOne(e.idx, q, specs, p, pi, want, len(match))
			if len(perPaging[pi]) > 0 && firstBad == nil {
				firstBad = &perPaging[pi][0]
			}
		}
		if firstBad == nil {
			continue
		}
		// paging dependence: the same facet agrees with the model under some other paging
		bad := map[int]bool{}
		others := map[string]any{}
		for pi := range pagings {
			for _, m := range perPaging[pi] {
				if m.Facet.Name == firstBad.Facet.Name {
					bad[pi] = true
					others[pagings[pi].String()] = m.Aspect + ": " + m.Detail
				}
			}
		}
		for pi := range pagings {
			if !bad[pi] {
				others[pagings[pi].String()] = "agrees with the model"
			}
		}
		report(r, w, e, q, *firstBad, others, len(bad) < len(pagings), wdir)
		return
	}
}

// ---------------------------------------------------------------------------

func run(r *ev.Run) {
	r.Rule = "world = seeded history (index / re-index / delete over 12–48 ids in batches of ≤ 7 ops; one large world with a single 2.6k-document segment plus update/delete batches) replayed on " +
		"scorch-mem, scorch-disk (closed and reopened), scorch-disk with aggressive merges, upsidedown/gtreap and one rotating extra (zap v11, zap v15, upsidedown/boltdb, 3 persister workers); " +
		"case = (world, query, 1–6 facet requests: terms with optional prefix/regexp filter, numeric ranges, date ranges, sizes below/equal/above the bucket count, fields with doc values and their twins without) " +
		"executed under ≥ 7 page settings (Size 0; size 1; small page with From; size 10/11 sorted by the facet field; everything; From beyond the matches; search-after/-before; random size/from/sort; score none, locations, fields, explain) on every engine; " +
		"each facet result of each execution is compared with the counting model over the evaluator's matching set; " +
		"non-trivial = some page with Size>0 holds fewer hits than match (matches > Size+From) and ≥ 1 matching document lacks the field of a requested facet; distinct by (world seed, query JSON, facets JSON)"
	r.Assumptions = []string{
		"the matching set comes from the shared independent query evaluator (corpus.Evaluator); queries it leaves undecided (fuzzy transposition band) are skipped; a result Total different from the model's match count is reported as class match-count",
		"analyzers, mapping walk and numeric/date field decoding are shared with the implementation (corpus.Analyse)",
		"values of one document form a set: a term or number repeated inside one document counts once (the index keeps postings, not occurrences, per document)",
		"terms facet: Total counts every distinct term of every matching document including terms rejected by the prefix/regexp filter (documented in facet_builder_terms.go), Missing counts matching documents with no term passing the filter, Other = Total − Σ listed",
		"range facets: Total = Σ over ranges of values in [min,max) (a value in two overlapping ranges counts twice), Missing = matching documents with no value in the field, listed ranges ordered count desc, name asc, ranges with count 0 not listed (listing one with 0 would be accepted)",
		"regexp filter = Go regexp, unanchored match on the term; term order is bytewise",
		"terms are valid UTF-8 except for one partial-rune prefix filter; a term containing byte 0xff is outside the family (0xff is index.DocValueTermSeparator, see probe_0xff in extra)",
		"facet Size ≥ 0; numeric bounds finite; date bounds inside the int64-nanosecond range",
	}
	r.MinDistinct = r.Scale(1200, 15000)
	nWorlds := r.Scale(60, 240)
	nCases := r.Scale(60, 200)
	nLarge := r.Scale(2600, 5200)
	dir := r.TempDir()

	regress(r, dir)
	probe0xff(r, dir)

	var wg sync.WaitGroup
	sem := make(chan struct{}, 16)
	var mu sync.Mutex
	segInfo := map[string]int{}
	for wi := 0; wi < nWorlds; wi++ {
		wg.Add(1)
		sem <- struct{}{}
		go func(wi int) {
			defer wg.Done()
			defer func() { <-sem }()
			g := r.Rng(fmt.Sprintf("world-%d", wi))
			wdir := fmt.Sprintf("%s/w%d", dir, wi)
			large := wi%24 == 0
			w, err := buildWorld(g, wdir, wi, large, nLarge)
			if err != nil {
				r.Violation("setup-error", err.Error(), map[string]any{"world": wi})
				return
			}
			defer w.close()
			t0 := time.Now()
			defer func() {
				if os.Getenv("C10_TIMING") != "" {
					fmt.Fprintf(os.Stderr, "world %d large=%v live=%d took %v\n", wi, large, len(w.docs), time.Since(t0))
				}
			}()
			r.Count("worlds", 1)
			r.Count("live_docs", len(w.docs))
			deleted := 0
			for _, b := range w.hist.Batches {
				for _, op := range b.Ops {
					if op.Kind == "delete" {
						deleted++
					}
				}
			}
			r.Count("delete_ops", deleted)
			mu.Lock()
			for _, e := range w.engines {
				if e.segs != "" {
					var m, f int
					fmt.Sscanf(e.segs, "mem=%d file=%d", &m, &f)
					if m+f > 1 {
						segInfo[e.name+"_multi_segment_worlds"]++
					}
					if m+f > segInfo[e.name+"_max_segments"] {
						segInfo[e.name+"_max_segments"] = m + f
					}
				}
			}
			mu.Unlock()
			evl := &corpus.Evaluator{M: Mapping()}
			qg := &corpus.QGen{G: g.Derive("queries"), IDs: w.ids}
			cg := g.Derive("cases")
			n := nCases
			if large {
				n = nCases / 6
			}
			for ci := 0; ci < n; ci++ {
				q := genQuery(cg, qg)
				specs := GenFacets(cg, w.distinctTermsOf)
				checkCase(r, w, evl, cg, q, specs, wdir, wi == 1 && ci < 3)
			}
		}(wi)
	}
	wg.Wait()
	r.Extra("segments", segInfo)
	r.Extra("engine_sets", [][]string{engineSet(0), engineSet(1), engineSet(2), engineSet(3)})
}
