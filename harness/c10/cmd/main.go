package main

import (
	_ "verifharness/c10"
	"verifharness/ev"
)

func main() { ev.Main() }
