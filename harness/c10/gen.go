package c10

import (
	"fmt"
	"math"
	"time"

	"github.com/blevesearch/bleve/v2"
	"github.com/blevesearch/bleve/v2/mapping"

	"verifharness/corpus"
	"verifharness/rng"
)

// ---------------------------------------------------------------------------
// mapping: corpus.Mapping() plus four facet properties, each indexed twice —
// once with doc values and once without (name suffix _u, the uninverting path).

func Mapping() *mapping.IndexMappingImpl {
	m := corpus.Mapping()
	dm := m.DefaultMapping

	text := func(name, analyzer string, dv bool) *mapping.FieldMapping {
		f := bleve.NewTextFieldMapping()
		f.Name = name
		f.Analyzer = analyzer
		f.Store = false
		f.IncludeTermVectors = false
		f.IncludeInAll = false
		f.DocValues = dv
		return f
	}
	dm.AddFieldMappingsAt("cat", text("cat", "keyword", true), text("cat_u", "keyword", false))
	dm.AddFieldMappingsAt("words", text("words", "simple", true), text("words_u", "simple", false))

	num := func(name string, dv bool) *mapping.FieldMapping {
		f := bleve.NewNumericFieldMapping()
		f.Name = name
		f.Store = false
		f.IncludeInAll = false
		f.DocValues = dv
		return f
	}
	dm.AddFieldMappingsAt("price", num("price", true), num("price_u", false))

	date := func(name string, dv bool) *mapping.FieldMapping {
		f := bleve.NewDateTimeFieldMapping()
		f.Name = name
		f.Store = false
		f.IncludeInAll = false
		f.DocValues = dv
		return f
	}
	dm.AddFieldMappingsAt("when", date("when", true), date("when_u", false))
	return m
}

// Cats are keyword terms: shared prefixes, multi-byte runes, a blank inside,
// and the empty string (which the keyword analyzer indexes as the term "").
var Cats = []string{"red", "reed", "rex", "green", "gr", "blue", "blu", "x-1", "Mixed Case", "zz top", "über", "日本", ""}

var prefixes = []string{"re", "r", "gr", "b", "blu", "x-", "zz ", "ü", "\xc3", "日", "M", "nomatch", "alp", "bet", "a"}

var patterns = []string{"^re", "e$", "^(red|blue)$", "[a-z]+-[0-9]", ".", "^$", "u", "(?i)mixed", "^..$", "^[^r]", "a.*a", "^bet", "p"}

// PriceGrid holds every numeric value used in documents and as range bound,
// so values sit exactly on bounds, one ulp beside them, and far away.
// (-0.0 is left out: the numeric range *query* orders it below +0.0 while the
// evaluator compares floats; that is C07's subject and would only blur the
// matching set here.)
var PriceGrid = []float64{
	-1e18, -10, -2.5, 0, 0.5, 1, math.Nextafter(5, 4), 5, math.Nextafter(5, 6), 7, 9.99, 10, 100, 1e9, 1e18,
}

var whenBase = time.Date(2020, 1, 1, 0, 0, 0, 0, time.UTC)

// WhenGrid: days around a base, ±1ns neighbours, the epoch and the instant before it.
var WhenGrid = func() []time.Time {
	var out []time.Time
	for d := 0; d <= 8; d++ {
		out = append(out, whenBase.Add(time.Duration(d)*24*time.Hour))
	}
	out = append(out,
		whenBase.Add(-time.Nanosecond), whenBase.Add(time.Nanosecond),
		whenBase.Add(3*24*time.Hour-time.Nanosecond), whenBase.Add(3*24*time.Hour+time.Nanosecond),
		time.Unix(0, 0).UTC(), time.Unix(0, -1).UTC(),
		time.Date(1999, 12, 31, 23, 59, 59, 0, time.UTC), time.Date(2100, 6, 1, 12, 0, 0, 500, time.UTC),
	)
	return out
}()

func pickN[T any](g *rng.Rand, xs []T, lo, hi int) []any {
	n := g.Range(lo, hi)
	out := make([]any, n)
	for i := range out {
		out[i] = rng.Pick(g, xs)
	}
	return out
}

func oneOrArray(g *rng.Rand, vs []any) any {
	if len(vs) == 1 && g.Bool() {
		return vs[0]
	}
	return vs
}

// GenDoc is corpus.GenDoc plus the facet properties. Every facet property is
// absent from a good share of the documents; arrays may repeat a value and may
// be empty.
func GenDoc(g *rng.Rand, id string) *corpus.Doc {
	d := corpus.GenDoc(g, id)
	f := d.Fields
	if g.Chance(7, 10) {
		if g.Chance(1, 15) {
			f["cat"] = []any{}
		} else {
			f["cat"] = oneOrArray(g, pickN(g, Cats, 1, 4))
		}
	}
	if g.Chance(6, 10) {
		n := g.Range(1, 2)
		vs := make([]any, n)
		for i := range vs {
			vs[i] = corpus.GenSentence(g, 3)
		}
		if g.Chance(1, 12) {
			vs[0] = "  " // analyses to nothing
		}
		f["words"] = oneOrArray(g, vs)
	}
	if g.Chance(7, 10) {
		f["price"] = oneOrArray(g, pickN(g, PriceGrid, 1, 3))
	}
	if g.Chance(6, 10) {
		n := g.Range(1, 2)
		vs := make([]any, n)
		for i := range vs {
			vs[i] = rng.Pick(g, WhenGrid).Format(time.RFC3339Nano)
		}
		f["when"] = oneOrArray(g, vs)
	}
	return d
}

// GenHistory: index / re-index / delete over nIDs ids, cut into batches.
func GenHistory(g *rng.Rand, nIDs, nOps, maxBatch int) *corpus.History {
	ops := make([]corpus.Op, 0, nOps)
	for i := 0; i < nOps; i++ {
		id := corpus.DocID(g.Intn(nIDs))
		if g.Chance(75, 100) {
			ops = append(ops, corpus.Op{Kind: "index", ID: id, Doc: GenDoc(g, id)})
		} else {
			ops = append(ops, corpus.Op{Kind: "delete", ID: id})
		}
	}
	return corpus.Partition(g, ops, maxBatch)
}

// GenLargeHistory: one batch holding every id (so a single segment spans several
// doc-value chunks), followed by small batches of updates and deletions.
func GenLargeHistory(g *rng.Rand, nIDs int) *corpus.History {
	h := &corpus.History{}
	var first corpus.Batch
	for i := 0; i < nIDs; i++ {
		id := corpus.DocID(i)
		first.Ops = append(first.Ops, corpus.Op{Kind: "index", ID: id, Doc: GenDoc(g, id)})
	}
	h.Batches = append(h.Batches, first)
	for b := 0; b < 6; b++ {
		var bt corpus.Batch
		for k := 0; k < nIDs/40; k++ {
			id := corpus.DocID(g.Intn(nIDs))
			if g.Bool() {
				bt.Ops = append(bt.Ops, corpus.Op{Kind: "index", ID: id, Doc: GenDoc(g, id)})
			} else {
				bt.Ops = append(bt.Ops, corpus.Op{Kind: "delete", ID: id})
			}
		}
		h.Batches = append(h.Batches, bt)
	}
	return h
}

// ---------------------------------------------------------------------------
// facet requests

var termFields = []string{"cat", "cat_u", "words", "words_u", "cat", "cat_u", "tag", "title", "body", "notv"}
var numFields = []string{"price", "price_u", "price", "price_u", "num"}
var dateFields = []string{"when", "when_u", "when", "when_u", "date"}

// twin maps a facet field to the same content indexed the other way.
func twin(field string) string {
	switch field {
	case "cat", "words", "price", "when":
		return field + "_u"
	case "cat_u", "words_u", "price_u", "when_u":
		return field[:len(field)-2]
	}
	return ""
}

func fptr(v float64) *float64 { return &v }

func genSize(g *rng.Rand, buckets int) int {
	switch g.Intn(8) {
	case 0:
		return 1
	case 1:
		return 2
	case 2:
		if buckets > 1 {
			return buckets - 1
		}
		return 1
	case 3:
		return buckets
	case 4:
		return buckets + 1
	case 5:
		return 100
	case 6:
		if g.Chance(1, 3) {
			return 0
		}
		return 3
	}
	return g.Range(1, 6)
}

// GenFacet makes one facet request; distinct is the number of distinct
// buckets the field can have in this corpus (to aim sizes at the boundary).
func GenFacet(g *rng.Rand, name string, distinctTerms func(field string) int) FacetSpec {
	switch x := g.Intn(10); {
	case x < 5:
		s := FacetSpec{Name: name, Kind: "terms", Field: rng.Pick(g, termFields)}
		switch g.Intn(6) {
		case 0, 1:
			s.Prefix = rng.Pick(g, prefixes)
		case 2, 3:
			s.Pattern = rng.Pick(g, patterns)
		case 4:
			if g.Chance(1, 3) {
				s.Prefix = rng.Pick(g, prefixes)
				s.Pattern = rng.Pick(g, patterns)
			}
		}
		s.Size = genSize(g, distinctTerms(s.Field))
		return s
	case x < 8:
		s := FacetSpec{Name: name, Kind: "numeric", Field: rng.Pick(g, numFields)}
		n := g.Range(1, 5)
		for i := 0; i < n; i++ {
			r := NumRange{Name: fmt.Sprintf("n%d", i)}
			a, b := rng.Pick(g, PriceGrid), rng.Pick(g, PriceGrid)
			if s.Field == "num" {
				a, b = float64(g.Range(-6, 21)), float64(g.Range(-6, 21))+0.5*float64(g.Intn(2))
			}
			if a > b && g.Chance(9, 10) {
				a, b = b, a
			}
			switch g.Intn(6) {
			case 0:
				r.Max = fptr(b)
			case 1:
				r.Min = fptr(a)
			default:
				r.Min, r.Max = fptr(a), fptr(b)
			}
			s.Nums = append(s.Nums, r)
		}
		if g.Chance(1, 4) { // contiguous partition: [a,b) [b,c) — a value on b belongs to the second only
			s.Nums = nil
			cuts := []float64{-10, 0, 5, 10}
			s.Nums = append(s.Nums, NumRange{Name: "p0", Max: fptr(cuts[0])})
			for i := 0; i+1 < len(cuts); i++ {
				s.Nums = append(s.Nums, NumRange{Name: fmt.Sprintf("p%d", i+1), Min: fptr(cuts[i]), Max: fptr(cuts[i+1])})
			}
			s.Nums = append(s.Nums, NumRange{Name: "p9", Min: fptr(cuts[len(cuts)-1])})
		}
		s.Size = genSize(g, len(s.Nums))
		return s
	default:
		s := FacetSpec{Name: name, Kind: "date", Field: rng.Pick(g, dateFields)}
		n := g.Range(1, 4)
		for i := 0; i < n; i++ {
			r := DateRange{Name: fmt.Sprintf("t%d", i), AsStr: g.Chance(1, 3)}
			a, b := rng.Pick(g, WhenGrid), rng.Pick(g, WhenGrid)
			if s.Field == "date" {
				a = whenBase.Add(time.Duration(g.Range(0, 40)) * 24 * time.Hour)
				b = whenBase.Add(time.Duration(g.Range(0, 40)) * 24 * time.Hour)
			}
			// bounds far outside the int64-nanosecond window (1677..2262): a facet bound is a
			// point in time, not a nanosecond count
			if g.Chance(1, 5) {
				far := []time.Time{time.Date(1000, 1, 1, 0, 0, 0, 0, time.UTC), time.Date(1500, 6, 1, 0, 0, 0, 0, time.UTC),
					time.Date(2300, 1, 1, 0, 0, 0, 0, time.UTC), time.Date(3000, 12, 31, 0, 0, 0, 0, time.UTC)}
				if g.Bool() {
					a = rng.Pick(g, far)
				} else {
					b = rng.Pick(g, far)
				}
			}
			if a.After(b) && g.Chance(9, 10) {
				a, b = b, a
			}
			switch g.Intn(6) {
			case 0:
				r.End = b.Format(time.RFC3339Nano)
			case 1:
				r.Start = a.Format(time.RFC3339Nano)
			default:
				r.Start, r.End = a.Format(time.RFC3339Nano), b.Format(time.RFC3339Nano)
			}
			s.Dates = append(s.Dates, r)
		}
		s.Size = genSize(g, len(s.Dates))
		return s
	}
}

// GenFacets makes 1–4 facet requests; a facet on a twinned field is often
// accompanied by the same request on the twin (doc values on ↔ off).
func GenFacets(g *rng.Rand, distinctTerms func(field string) int) []FacetSpec {
	var out []FacetSpec
	n := g.Range(1, 3)
	for i := 0; i < n; i++ {
		s := GenFacet(g, fmt.Sprintf("f%d", i), distinctTerms)
		out = append(out, s)
		if tw := twin(s.Field); tw != "" && g.Chance(6, 10) {
			t := s
			t.Name = s.Name + "tw"
			t.Field = tw
			out = append(out, t)
		}
	}
	return out
}

// Apply adds the facet to a bleve request.
func (s FacetSpec) Apply(req *bleve.SearchRequest) {
	fr := bleve.NewFacetRequest(s.Field, s.Size)
	switch s.Kind {
	case "terms":
		if s.Prefix != "" {
			fr.SetPrefixFilter(s.Prefix)
		}
		if s.Pattern != "" {
			fr.SetRegexFilter(s.Pattern)
		}
	case "numeric":
		for _, r := range s.Nums {
			fr.AddNumericRange(r.Name, r.Min, r.Max)
		}
	case "date":
		for _, r := range s.Dates {
			if r.AsStr {
				var a, b *string
				if r.Start != "" {
					v := r.Start
					a = &v
				}
				if r.End != "" {
					v := r.End
					b = &v
				}
				fr.AddDateTimeRangeString(r.Name, a, b)
				continue
			}
			var a, b time.Time
			if r.Start != "" {
				a = mustT(r.Start)
			}
			if r.End != "" {
				b = mustT(r.End)
			}
			fr.AddDateTimeRange(r.Name, a, b)
		}
	}
	req.AddFacet(s.Name, fr)
}

// ---------------------------------------------------------------------------
// page settings

type Paging struct {
	Size      int      `json:"size"`
	From      int      `json:"from"`
	Sort      []string `json:"sort,omitempty"`
	After     []string `json:"search_after,omitempty"`
	Before    []string `json:"search_before,omitempty"`
	ScoreNone bool     `json:"score_none,omitempty"`
	Locations bool     `json:"locations,omitempty"`
	Fields    bool     `json:"fields,omitempty"`
	Explain   bool     `json:"explain,omitempty"`
}

func (p Paging) String() string {
	return fmt.Sprintf("size=%d from=%d sort=%v after=%v before=%v scoreNone=%v", p.Size, p.From, p.Sort, p.After, p.Before, p.ScoreNone)
}

var sortPool = [][]string{
	{"_id"}, {"-_id"}, {"-_score"}, {"_score", "_id"}, {"cat"}, {"-cat_u", "_id"}, {"price"}, {"-price_u"},
	{"when", "-_id"}, {"-when_u"}, {"words"}, {"-words_u", "price"}, {"num", "tag"}, {"-date"}, {"title", "-_score"},
	// the same field listed twice (e.g. ascending then descending as tie-break of a multi-valued field)
	{"cat", "-cat"}, {"-price_u", "price_u", "_id"}, {"title", "-title"}, {"when", "when"}, {"words_u", "-words_u"},
}

// GenPagings returns ≥ 7 settings: Size 0; tiny pages; a page crossing the
// slice/heap store switch (size+from 10 ↔ 11) sorted by the facet field itself;
// everything; a page beyond the matches; search-after / search-before; random.
func GenPagings(g *rng.Rand, specs []FacetSpec, nMatch, nLive int, ids []string) []Paging {
	ff := specs[g.Intn(len(specs))].Field
	dir := ""
	if g.Bool() {
		dir = "-"
	}
	ps := []Paging{
		{Size: 0},
		{Size: 1, Sort: []string{"-_score", "_id"}},
		{Size: g.Range(1, 4), From: g.Range(1, 3), Sort: []string{"_id"}},
		{Size: 10 + g.Intn(2), From: 0, Sort: []string{dir + ff, "_id"}},
		{Size: nLive + 10, Sort: rng.Pick(g, sortPool)},
		{Size: 2, From: nMatch + 3, Sort: rng.Pick(g, sortPool)},
	}
	pivot := rng.Pick(g, ids)
	if g.Bool() {
		ps = append(ps, Paging{Size: g.Range(1, 5), Sort: []string{"_id"}, After: []string{pivot}})
	} else {
		ps = append(ps, Paging{Size: g.Range(1, 5), Sort: []string{"_id"}, Before: []string{pivot}})
	}
	if g.Chance(1, 3) {
		ps = append(ps, Paging{Size: g.Range(0, 3), Sort: []string{"cat", "_id"}, After: []string{rng.Pick(g, Cats), pivot}})
	}
	nr := g.Range(1, 3)
	for i := 0; i < nr; i++ {
		ps = append(ps, Paging{Size: g.Intn(15), From: g.Intn(8), Sort: rng.Pick(g, sortPool)})
	}
	if g.Chance(1, 4) { // size 0 under a field sort: the store keeps nothing at all
		ps = append(ps, Paging{Size: 0, From: g.Intn(3), Sort: []string{dir + ff}})
	}
	for i := range ps {
		if i == 0 {
			continue
		}
		ps[i].ScoreNone = g.Chance(1, 4)
		ps[i].Locations = g.Chance(1, 6)
		ps[i].Fields = g.Chance(1, 6)
		ps[i].Explain = g.Chance(1, 10)
	}
	return ps
}

// Request builds the bleve request of one (query, facets, paging) combination.
func Request(q *corpus.Q, specs []FacetSpec, p Paging) *bleve.SearchRequest {
	req := bleve.NewSearchRequestOptions(q.Bleve(), p.Size, p.From, p.Explain)
	if len(p.Sort) > 0 {
		req.SortBy(p.Sort)
	}
	if p.After != nil {
		req.SetSearchAfter(p.After)
	}
	if p.Before != nil {
		req.SetSearchBefore(p.Before)
	}
	if p.ScoreNone {
		req.Score = "none"
	}
	req.IncludeLocations = p.Locations
	if p.Fields {
		req.Fields = []string{"*"}
	}
	for _, s := range specs {
		s.Apply(req)
	}
	return req
}
