package c10

import (
	"fmt"
	"math"
	"regexp"
	"sort"
	"strconv"
	"strings"
	"time"

	"github.com/blevesearch/bleve/v2/search"

	"verifharness/corpus"
)

// ---------------------------------------------------------------------------
// facet request description (JSON-able, so a witness replays exactly)

type NumRange struct {
	Name string   `json:"name"`
	Min  *float64 `json:"min,omitempty"`
	Max  *float64 `json:"max,omitempty"`
}

type DateRange struct {
	Name  string `json:"name"`
	Start string `json:"start,omitempty"` // RFC3339Nano, "" = open
	End   string `json:"end,omitempty"`
	AsStr bool   `json:"as_string,omitempty"` // handed over with AddDateTimeRangeString
}

type FacetSpec struct {
	Name    string      `json:"name"`
	Kind    string      `json:"kind"` // terms | numeric | date
	Field   string      `json:"field"`
	Size    int         `json:"size"`
	Prefix  string      `json:"prefix,omitempty"`
	Pattern string      `json:"pattern,omitempty"`
	Nums    []NumRange  `json:"numeric_ranges,omitempty"`
	Dates   []DateRange `json:"date_ranges,omitempty"`
}

// Bucket is one listed entry of a facet result in a normal form shared by the
// model and the observed result.
type Bucket struct {
	Key   string `json:"key"`
	Count int    `json:"count"`
	Lo    string `json:"lo,omitempty"`
	Hi    string `json:"hi,omitempty"`
}

type FacetOut struct {
	Field   string   `json:"field"`
	Total   int      `json:"total"`
	Missing int      `json:"missing"`
	Other   int      `json:"other"`
	Buckets []Bucket `json:"buckets"`
}

func mustT(s string) time.Time {
	t, err := time.Parse(time.RFC3339Nano, s)
	if err != nil {
		panic(err)
	}
	return t
}

func fmtF(p *float64) string {
	if p == nil {
		return ""
	}
	return strconv.FormatFloat(*p, 'g', -1, 64)
}

func fmtT(t time.Time) string { return t.UTC().Format(time.RFC3339Nano) }

// ---------------------------------------------------------------------------
// the reference model: counts over ALL matching documents

func distinctTerms(fv *corpus.FieldVal) []string {
	if fv == nil {
		return nil
	}
	seen := map[string]bool{}
	var out []string
	for _, t := range fv.Tokens {
		if !seen[t.Term] {
			seen[t.Term] = true
			out = append(out, t.Term)
		}
	}
	return out
}

func distinctNums(fv *corpus.FieldVal) []float64 {
	if fv == nil {
		return nil
	}
	seen := map[uint64]bool{}
	var out []float64
	for _, v := range fv.Nums {
		b := math.Float64bits(v)
		if !seen[b] {
			seen[b] = true
			out = append(out, v)
		}
	}
	return out
}

func distinctDates(fv *corpus.FieldVal) []time.Time {
	if fv == nil {
		return nil
	}
	seen := map[int64]bool{}
	var out []time.Time
	for _, v := range fv.Dates {
		n := v.UnixNano()
		if !seen[n] {
			seen[n] = true
			out = append(out, v)
		}
	}
	return out
}

// lacksField says whether the document contributes nothing to a facet on the
// field (no indexed term at all in it).
func lacksField(d *corpus.DocModel, spec FacetSpec) bool {
	fv := d.F[spec.Field]
	switch spec.Kind {
	case "terms":
		return len(distinctTerms(fv)) == 0
	case "numeric":
		return len(distinctNums(fv)) == 0
	default:
		return len(distinctDates(fv)) == 0
	}
}

// finish orders the buckets (count desc, key asc), keeps the first size and
// derives Other from what is not listed.
func finish(out *FacetOut, counts map[string]int, size int, lohi func(string) (string, string)) {
	for k, c := range counts {
		if c == 0 {
			continue
		}
		b := Bucket{Key: k, Count: c}
		if lohi != nil {
			b.Lo, b.Hi = lohi(k)
		}
		out.Buckets = append(out.Buckets, b)
	}
	sort.Slice(out.Buckets, func(i, j int) bool {
		if out.Buckets[i].Count != out.Buckets[j].Count {
			return out.Buckets[i].Count > out.Buckets[j].Count
		}
		return out.Buckets[i].Key < out.Buckets[j].Key
	})
	if size < 0 {
		size = 0
	}
	if len(out.Buckets) > size {
		out.Buckets = out.Buckets[:size]
	}
	listed := 0
	for _, b := range out.Buckets {
		listed += b.Count
	}
	out.Other = out.Total - listed
	if out.Buckets == nil {
		out.Buckets = []Bucket{}
	}
}

// Model computes the facet over the matching documents.
func Model(spec FacetSpec, match []*corpus.DocModel) FacetOut {
	out := FacetOut{Field: spec.Field}
	counts := map[string]int{}
	switch spec.Kind {
	case "terms":
		var re *regexp.Regexp
		if spec.Pattern != "" {
			re = regexp.MustCompile(spec.Pattern)
		}
		for _, d := range match {
			terms := distinctTerms(d.F[spec.Field])
			out.Total += len(terms)
			pass := 0
			for _, t := range terms {
				if spec.Prefix != "" && !strings.HasPrefix(t, spec.Prefix) {
					continue
				}
				if re != nil && !re.MatchString(t) {
					continue
				}
				counts[t]++
				pass++
			}
			if pass == 0 {
				out.Missing++
			}
		}
		finish(&out, counts, spec.Size, nil)
	case "numeric":
		byName := map[string]NumRange{}
		for _, r := range spec.Nums {
			byName[r.Name] = r
		}
		for _, d := range match {
			vals := distinctNums(d.F[spec.Field])
			if len(vals) == 0 {
				out.Missing++
			}
			for _, v := range vals {
				for _, r := range spec.Nums {
					if (r.Min == nil || v >= *r.Min) && (r.Max == nil || v < *r.Max) {
						counts[r.Name]++
						out.Total++
					}
				}
			}
		}
		finish(&out, counts, spec.Size, func(k string) (string, string) {
			return fmtF(byName[k].Min), fmtF(byName[k].Max)
		})
	case "date":
		byName := map[string]DateRange{}
		for _, r := range spec.Dates {
			byName[r.Name] = r
		}
		for _, d := range match {
			vals := distinctDates(d.F[spec.Field])
			if len(vals) == 0 {
				out.Missing++
			}
			for _, v := range vals {
				for _, r := range spec.Dates {
					if r.Start != "" && v.Before(mustT(r.Start)) {
						continue
					}
					if r.End != "" && !v.Before(mustT(r.End)) {
						continue
					}
					counts[r.Name]++
					out.Total++
				}
			}
		}
		finish(&out, counts, spec.Size, func(k string) (string, string) {
			lo, hi := "", ""
			if byName[k].Start != "" {
				lo = fmtT(mustT(byName[k].Start))
			}
			if byName[k].End != "" {
				hi = fmtT(mustT(byName[k].End))
			}
			return lo, hi
		})
	default:
		panic("kind " + spec.Kind)
	}
	return out
}

// ---------------------------------------------------------------------------
// observed result → normal form

// Observe normalises a bleve facet result. Range buckets with count 0 are
// dropped (an unlisted range and a range listed with 0 say the same thing).
func Observe(spec FacetSpec, fr *search.FacetResult) (FacetOut, string) {
	out := FacetOut{Field: fr.Field, Total: fr.Total, Missing: fr.Missing, Other: fr.Other, Buckets: []Bucket{}}
	switch spec.Kind {
	case "terms":
		if fr.NumericRanges != nil || fr.DateRanges != nil {
			return out, "terms facet answered with ranges"
		}
		for _, t := range fr.Terms.Terms() {
			out.Buckets = append(out.Buckets, Bucket{Key: t.Term, Count: t.Count})
		}
	case "numeric":
		for _, n := range fr.NumericRanges {
			if n.Count == 0 {
				continue
			}
			out.Buckets = append(out.Buckets, Bucket{Key: n.Name, Count: n.Count, Lo: fmtF(n.Min), Hi: fmtF(n.Max)})
		}
	case "date":
		for _, n := range fr.DateRanges {
			if n.Count == 0 {
				continue
			}
			b := Bucket{Key: n.Name, Count: n.Count}
			for i, p := range []*string{n.Start, n.End} {
				if p == nil {
					continue
				}
				t, err := time.Parse(time.RFC3339Nano, *p)
				if err != nil {
					return out, fmt.Sprintf("unparsable range bound %q", *p)
				}
				if i == 0 {
					b.Lo = fmtT(t)
				} else {
					b.Hi = fmtT(t)
				}
			}
			out.Buckets = append(out.Buckets, b)
		}
	}
	return out, ""
}

// Diff names the first aspect in which got deviates from want ("" = equal).
// Priority: field, buckets/order, missing, total, other, balance.
func Diff(want, got FacetOut) (aspect, detail string) {
	if want.Field != got.Field {
		return "field", fmt.Sprintf("field %q, want %q", got.Field, want.Field)
	}
	if !sameBuckets(want.Buckets, got.Buckets) {
		if sameBucketSet(want.Buckets, got.Buckets) {
			return "order", fmt.Sprintf("listed %v, want order %v", got.Buckets, want.Buckets)
		}
		return "buckets", fmt.Sprintf("listed %v, want %v", got.Buckets, want.Buckets)
	}
	if want.Missing != got.Missing {
		return "missing", fmt.Sprintf("missing=%d, want %d", got.Missing, want.Missing)
	}
	if want.Total != got.Total {
		return "total", fmt.Sprintf("total=%d, want %d", got.Total, want.Total)
	}
	if want.Other != got.Other {
		return "other", fmt.Sprintf("other=%d, want %d", got.Other, want.Other)
	}
	listed := 0
	for _, b := range got.Buckets {
		listed += b.Count
	}
	if got.Total != listed+got.Other {
		return "balance", fmt.Sprintf("total=%d ≠ listed %d + other %d", got.Total, listed, got.Other)
	}
	return "", ""
}

func sameBuckets(a, b []Bucket) bool {
	if len(a) != len(b) {
		return false
	}
	for i := range a {
		if a[i] != b[i] {
			return false
		}
	}
	return true
}

func sameBucketSet(a, b []Bucket) bool {
	if len(a) != len(b) {
		return false
	}
	m := map[Bucket]int{}
	for _, x := range a {
		m[x]++
	}
	for _, x := range b {
		m[x]--
	}
	for _, v := range m {
		if v != 0 {
			return false
		}
	}
	return true
}
