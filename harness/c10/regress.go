package c10

import (
	"fmt"

	"github.com/blevesearch/bleve/v2"

	"verifharness/corpus"
	"verifharness/ev"
)

// regressCase is a minimal witness replayed on every run on the listed
// configurations; it must agree with the model.
type regressCase struct {
	Name    string
	Configs []string
	Docs    []map[string]any // indexed one per batch as d00, d01, …
	Deletes []string         // deleted afterwards
	Query   *corpus.Q
	Facet   FacetSpec
	Pagings []Paging
}

var regressCases = []regressCase{
	{
		// F-C10-1: scorch visited a field once per listing in the sort, so a facet on a
		// field that the sort lists twice saw every term twice (upsidedown did not).
		Name:    "sort-lists-facet-field-twice/terms",
		Configs: []string{"scorch-mem", "scorch-disk", "upsidedown-gtreap"},
		Docs:    []map[string]any{{"cat": []any{"red", "blue"}}, {"title": "alpha"}},
		Query:   &corpus.Q{Kind: "all"},
		Facet:   FacetSpec{Name: "f", Kind: "terms", Field: "cat", Size: 10},
		Pagings: []Paging{{Size: 1, Sort: []string{"cat", "-cat"}}, {Size: 0, Sort: []string{"cat", "cat", "cat"}}, {Size: 0}},
	},
	{
		Name:    "sort-lists-facet-field-twice/numeric-nodv",
		Configs: []string{"scorch-mem", "scorch-disk", "upsidedown-gtreap"},
		Docs:    []map[string]any{{"price": 5.0}, {"title": "alpha"}},
		Query:   &corpus.Q{Kind: "all"},
		Facet:   FacetSpec{Name: "f", Kind: "numeric", Field: "price_u", Size: 10, Nums: []NumRange{{Name: "n", Min: fptr(0), Max: fptr(10)}}},
		Pagings: []Paging{{Size: 1, Sort: []string{"-price_u", "price_u", "_id"}}},
	},
}

func regress(r *ev.Run, dir string) {
	for _, rc := range regressCases {
		h := &corpus.History{}
		for i, f := range rc.Docs {
			id := corpus.DocID(i)
			h.Batches = append(h.Batches, corpus.Batch{Ops: []corpus.Op{{Kind: "index", ID: id, Doc: &corpus.Doc{ID: id, Fields: f}}}})
		}
		for _, id := range rc.Deletes {
			h.Batches = append(h.Batches, corpus.Batch{Ops: []corpus.Op{{Kind: "delete", ID: id}}})
		}
		for _, cfg := range rc.Configs {
			for _, p := range rc.Pagings {
				r.Count("regression_replays", 1)
				{
					bad, m, _ := failsAny(cfg, fmt.Sprintf("%s/regress", dir), h, rc.Query, rc.Facet, p)
					if bad {
						r.Violation(classOf(cfg, rc.Facet, p, m.Aspect, true), fmt.Sprintf("regression witness %s on %s under [%s]: %s", rc.Name, cfg, p, m.Detail),
							map[string]any{"regression": rc.Name, "config": cfg, "history": h, "query": rc.Query, "facet": rc.Facet, "paging": p, "want": m.Want, "got": m.Got})
					}
				}
			}
		}
	}
}

// failsAny is failsOn for any aspect.
func failsAny(cfg, dir string, h *corpus.History, q *corpus.Q, s FacetSpec, p Paging) (bool, *mismatch, []string) {
	idx, err := openAndLoad(cfg, dir, h)
	if err != nil {
		return true, &mismatch{Aspect: "setup-error", Detail: err.Error()}, nil
	}
	defer idx.Close()
	lww := corpus.NewLWW()
	for _, b := range h.Batches {
		lww.Apply(b)
	}
	docs, err := corpus.AnalyseAll(Mapping(), lww.LiveDocs())
	if err != nil {
		return true, &mismatch{Aspect: "setup-error", Detail: err.Error()}, nil
	}
	match, ok := matching(&corpus.Evaluator{M: Mapping()}, q, docs)
	if !ok {
		return false, nil, nil
	}
	var ids []string
	for _, d := range match {
		ids = append(ids, d.ID)
	}
	ms := runOne(idx, q, []FacetSpec{s}, p, 0, models([]FacetSpec{s}, match), len(match))
	if len(ms) > 0 {
		return true, &ms[0], ids
	}
	return false, nil, ids
}

// probe0xff records (as an observation, not a verdict) what a terms facet
// reports for a keyword term that contains byte 0xff, the doc-value term
// separator of the index API. Such terms are outside the generated family.
func probe0xff(r *ev.Run, dir string) {
	out := map[string]any{}
	for _, cfg := range []string{"scorch-mem", "upsidedown-gtreap"} {
		c := corpus.ConfigByName(cfg)
		idx, err := c.Open(dir+"/probe0xff", Mapping())
		if err != nil {
			out[cfg] = "open: " + err.Error()
			continue
		}
		_ = idx.Index("d00", map[string]any{"cat": "ab\xffz"})
		req := bleve.NewSearchRequest(bleve.NewMatchAllQuery())
		req.Size = 0
		req.AddFacet("f", bleve.NewFacetRequest("cat", 10))
		res, err := idx.Search(req)
		if err != nil {
			out[cfg] = "search: " + err.Error()
		} else if fr := res.Facets["f"]; fr != nil {
			var ts []string
			for _, t := range fr.Terms.Terms() {
				ts = append(ts, fmt.Sprintf("%q×%d", t.Term, t.Count))
			}
			out[cfg] = ts
		}
		_ = idx.Close()
	}
	r.Extra("probe_0xff_term_ab\\xffz", out)
}
