// Package c11 monitors property C11: the index API is safe under arbitrary
// concurrent use and Close always completes. Child processes (built with the
// race detector and plain) run rounds in which many goroutines call the whole
// public API while Close and context cancellations are issued at seeded
// moments, with seeded delays at the scorch hook points. Monitors: race reports
// with a bleve frame, panics / fatal errors (child death), asynchronous panics
// reported through scorch's error callback, calls that never return (deadlock
// signature in two goroutine dumps), results of calls made after Close,
// cancellation promptness measured in matches handled, goroutines with bleve
// frames still alive after Close.
package c11

import (
	"context"
	"encoding/json"
	"errors"
	"fmt"
	"os"
	"os/exec"
	"path/filepath"
	"regexp"
	"runtime"
	"sort"
	"strings"
	"sync"
	"sync/atomic"
	"time"

	"github.com/blevesearch/bleve/v2"
	"github.com/blevesearch/bleve/v2/index/scorch"
	"github.com/blevesearch/bleve/v2/mapping"
	"github.com/blevesearch/bleve/v2/search"
	"github.com/blevesearch/bleve/v2/search/collector"

	"verifharness/corpus"
	"verifharness/ev"
	"verifharness/mon"
	"verifharness/rng"
)

func init() {
	ev.Register("C11", "exploration", run)
	ev.RegisterWorker("c11-rounds", roundsWorker)
}

type spec struct {
	Seed   uint64 `json:"seed"`
	First  int    `json:"first"`
	Rounds int    `json:"rounds"`
	Dir    string `json:"dir"`
	Out    string `json:"out"`
}

type problem struct {
	Class  string `json:"class"`
	Detail string `json:"detail"`
	Round  int    `json:"round"`
	Config string `json:"config"`
}

type result struct {
	Rounds          int            `json:"rounds"`
	Ops             map[string]int `json:"ops"`
	CloseOverlapped int            `json:"rounds_close_overlapped_write_and_search"`
	CancelProbes    int            `json:"cancel_probes"`
	MaxAfterCancel  int            `json:"max_matches_handled_after_cancel"`
	PostCloseCalls  int            `json:"post_close_calls"`
	AsyncErrors     map[string]int `json:"async_errors"`
	DirectedClose   map[string]int `json:"close_issued_while_an_actor_was_parked_at"`
	Problems        []problem      `json:"problems"`
	Nontrivial      []string       `json:"nontrivial_rounds"`
	Inconclusive    []string       `json:"inconclusive"`
}

var configs = []string{"scorch-disk", "scorch-disk-merge", "scorch-disk-p3", "scorch-disk-unsafe", "scorch-mem", "scorch-disk-nap1",
	"upsidedown-gtreap", "upsidedown-boltdb", "upsidedown-goleveldb", "upsidedown-moss"}

// c11Mapping is the shared mapping with doc values switched off for the field notv, so that facets and sorts on it
// go through scorch's on-the-fly doc value cache (shared between concurrent searches on a segment).
func c11Mapping() *mapping.IndexMappingImpl {
	m := corpus.Mapping()
	if p := m.DefaultMapping.Properties["notv"]; p != nil {
		for _, f := range p.Fields {
			f.DocValues = false
		}
	}
	return m
}

// hook points (none of them under scorch's root lock) at which the directed Close rounds park an actor
var closePoints = []string{
	"persist.loopTop", "persist.gotSnapshot", "persist.snapshotDone", "persist.waitersReleased", "persist.idle",
	"persist.memmerge.begin", "persist.memmerge.fileWritten", "persist.memmerge.beforeIntro", "persist.memmerge.afterIntro",
	"persist.direct.begin", "persist.direct.segmentWritten", "persist.direct.beforeIntro", "persist.direct.afterIntro",
	"persist.direct.beforeCommit", "persist.direct.afterCommit", "persist.direct.afterSync",
	"merge.loopTop", "merge.idle", "merge.planned", "merge.task.begin", "merge.task.fileWritten", "merge.beforeIntro", "merge.afterIntro",
	"purge.begin", "purge.bolt.beforeCommit", "purge.bolt.afterCommit", "purge.end",
	"intro.idle", "batch.segmentBuilt", "batch.beforeIntro", "batch.applied", "batch.persisted",
	"copy.readerTaken", "copy.begin", "copy.beforeCommit",
}

var asyncMu sync.Mutex
var asyncErrs []string

func init() {
	scorch.RegistryAsyncErrorCallbacks["c11"] = func(err error, path string) {
		asyncMu.Lock()
		asyncErrs = append(asyncErrs, fmt.Sprintf("%v", err))
		asyncMu.Unlock()
	}
}

func takeAsync() []string {
	asyncMu.Lock()
	defer asyncMu.Unlock()
	out := asyncErrs
	asyncErrs = nil
	return out
}

var bleveFrame = regexp.MustCompile(`github\.com/blevesearch/bleve/v2[^\s]*`)

// bleveGoroutines returns the stacks of goroutines that have a bleve frame and
// are not the process-wide analysis queue workers or this harness' own callers.
var goroutineHeader = regexp.MustCompile(`^goroutine (\d+) `)
var alreadyReported = map[string]bool{} // goroutine ids reported as leaked by an earlier round

func bleveGoroutines() []string {
	buf := make([]byte, 8<<20)
	n := runtime.Stack(buf, true)
	var out []string
	for _, g := range strings.Split(string(buf[:n]), "\n\n") {
		if !bleveFrame.MatchString(g) {
			continue
		}
		if m := goroutineHeader.FindStringSubmatch(g); m != nil && alreadyReported[m[1]] {
			continue
		}
		if strings.Contains(g, "AnalysisQueue") || strings.Contains(g, "analysisWorker") || strings.Contains(g, "index.AnalysisWorker") {
			continue
		}
		if strings.Contains(g, "verifharness/") {
			continue // a harness goroutine currently inside a call (handled by the hang monitor)
		}
		out = append(out, g)
	}
	return out
}

type counter struct {
	mu sync.Mutex
	m  map[string]int
}

func (c *counter) add(k string) {
	c.mu.Lock()
	c.m[k]++
	c.mu.Unlock()
}

func isClosedErr(err error) bool {
	return err != nil && (errors.Is(err, bleve.ErrorIndexClosed) || strings.Contains(err.Error(), "index is closed"))
}

func runRound(sp spec, round int, res *result, ops *counter) {
	g := rng.New(sp.Seed).Derive(fmt.Sprintf("round-%d", round))
	cfgName := configs[round%len(configs)]
	lookup := cfgName
	if cfgName == "scorch-disk-nap1" {
		lookup = "scorch-disk-merge"
	}
	cfg := corpus.ConfigByName(lookup)
	if cfg.KVConfig == nil {
		cfg.KVConfig = map[string]any{}
	} else {
		kv := map[string]any{}
		for k, v := range cfg.KVConfig {
			kv[k] = v
		}
		cfg.KVConfig = kv
	}
	if cfgName == "scorch-disk-nap1" {
		// the persister pauses whenever a segment file exists and the merger has not caught up with it
		cfg.KVConfig["scorchPersisterOptions"] = map[string]any{"PersisterNapUnderNumFiles": 1, "PersisterNapTimeMSec": 1}
	}
	if cfg.IsScorch() {
		cfg.KVConfig["asyncErrorCallbackName"] = "c11"
	}
	prob := func(class, detail string) {
		res.Problems = append(res.Problems, problem{class, detail, round, cfgName})
	}
	d := mon.New()
	d.Install()
	d.Add(mon.Delay(g.Derive("delay"), 1, 4, 300))
	// directed Close (every second scorch round): a background actor (or a writer / copier) is parked at a chosen
	// hook point, Close is issued while it sits there, and it is let go once Close has begun
	var parked = make(chan string, 1)
	var letGo = make(chan struct{})
	var closeSeen = make(chan struct{})
	directedPoint := ""
	if cfg.IsScorch() && (round/len(configs))%2 == 1 {
		directedPoint = closePoints[(round/(2*len(configs))+round)%len(closePoints)]
		occWanted := g.Range(1, 3)
		var once, onceClose sync.Once
		d.Add(func(s *scorch.Scorch, point string, occ int) {
			b := mon.Base(point)
			if b == "close.begin" {
				onceClose.Do(func() { close(closeSeen) })
				return
			}
			if b != directedPoint || occ < occWanted || mon.LockedPoint(b) {
				return
			}
			fire := false
			once.Do(func() { fire = true })
			if !fire {
				return
			}
			parked <- b
			select {
			case <-letGo:
			case <-time.After(5 * time.Second): // never hold the system for good
			}
		})
	}
	base := filepath.Join(sp.Dir, fmt.Sprintf("r%d", round))
	idx, err := cfg.Open(base, c11Mapping())
	if err != nil {
		prob("setup-error", err.Error())
		return
	}
	defer os.RemoveAll(base)
	if s := mon.ScorchOf(idx); s != nil {
		d.Arm(s)
	}
	// some initial content: 30 small segments plus one large one (un-inverting a field of a large segment for
	// facets/sorts takes long enough for concurrent searches to meet in it; every merge creates a fresh large one)
	for i := 0; i < 30; i++ {
		id := corpus.DocID(i)
		_ = idx.Index(id, corpus.GenDoc(g, id).Fields)
	}
	bulk := idx.NewBatch()
	for i := 0; i < 600; i++ {
		id := fmt.Sprintf("bulk%03d", i)
		_ = bulk.Index(id, corpus.GenDoc(g, id).Fields)
	}
	_ = idx.Batch(bulk)
	var closed atomic.Bool
	var inWrite, inSearch atomic.Int32
	var overlapW, overlapS atomic.Bool
	var pmu sync.Mutex
	var probs []problem
	addProb := func(class, detail string) {
		pmu.Lock()
		probs = append(probs, problem{class, detail, round, cfgName})
		pmu.Unlock()
	}
	// an operation's error is acceptable if nil or (once Close has begun) the closed-index error
	check := func(op string, err error, closeBegun bool) {
		ops.add(op)
		if err == nil {
			return
		}
		if isClosedErr(err) {
			if !closeBegun {
				addProb("closed-error-before-close/"+op, err.Error())
			}
			return
		}
		if errors.Is(err, context.DeadlineExceeded) || errors.Is(err, context.Canceled) {
			return
		}
		addProb("unexpected-error/"+op, err.Error())
	}
	var closeBegun atomic.Bool
	var wg sync.WaitGroup
	nW, nS, nR := 4, 4, 3
	streams := make([]*rng.Rand, nW+nS+nR+2)
	for i := range streams {
		streams[i] = g.Derive(fmt.Sprintf("g%d", i))
	}
	stopAt := g.Range(20, 120) // operations per goroutine before it stops on its own
	for w := 0; w < nW; w++ {
		wg.Add(1)
		go func(w int) {
			defer wg.Done()
			lg := streams[w]
			for i := 0; i < stopAt && !closed.Load(); i++ {
				cb := closeBegun.Load()
				inWrite.Add(1)
				id := corpus.DocID(lg.Intn(40))
				switch lg.Intn(4) {
				case 0:
					check("Index", idx.Index(id, corpus.GenDoc(lg, id).Fields), cb || closeBegun.Load())
				case 1:
					check("Delete", idx.Delete(id), cb || closeBegun.Load())
				case 2:
					b := idx.NewBatch()
					for j := 0; j < lg.Range(1, 5); j++ {
						id2 := corpus.DocID(lg.Intn(40))
						if lg.Bool() {
							_ = b.Index(id2, corpus.GenDoc(lg, id2).Fields)
						} else {
							b.Delete(id2)
						}
					}
					b.SetInternal([]byte("k"), []byte("v"))
					check("Batch", idx.Batch(b), cb || closeBegun.Load())
				case 3:
					check("SetInternal", idx.SetInternal([]byte("k2"), []byte("x")), cb || closeBegun.Load())
				}
				inWrite.Add(-1)
			}
		}(w)
	}
	qg := &corpus.QGen{G: g.Derive("q"), IDs: []string{"d00", "d01", "d02", "d03", "d10", "d20"}}
	var queries []*corpus.Q
	for i := 0; i < 40; i++ {
		queries = append(queries, qg.Tree(2))
	}
	for s := 0; s < nS; s++ {
		wg.Add(1)
		go func(s int) {
			defer wg.Done()
			lg := streams[nW+s]
			for i := 0; i < stopAt && !closed.Load(); i++ {
				cb := closeBegun.Load()
				inSearch.Add(1)
				q := queries[lg.Intn(len(queries))]
				req := bleve.NewSearchRequestOptions(q.Bleve(), 10, 0, false)
				if lg.Bool() {
					req.Fields = []string{"*"}
				}
				if lg.Chance(1, 3) {
					req.Highlight = bleve.NewHighlight()
				}
				if lg.Chance(1, 3) {
					req.AddFacet("tags", bleve.NewFacetRequest("tag", 5))
				}
				// a field without persisted doc values: concurrent searches un-invert it on the fly
				if lg.Chance(1, 2) {
					req.AddFacet("words", bleve.NewFacetRequest("notv", 5))
				}
				if lg.Chance(1, 4) {
					req.SortBy([]string{rng.Pick(lg, []string{"notv", "-notv", "tag", "-num"}), "_id"})
				}
				ctx := context.Background()
				var cancel context.CancelFunc = func() {}
				switch lg.Intn(3) {
				case 0:
					ctx, cancel = context.WithTimeout(ctx, time.Duration(lg.Intn(300))*time.Microsecond)
				case 1:
					ctx, cancel = context.WithCancel(ctx)
					go func(d time.Duration) { time.Sleep(d); cancel() }(time.Duration(lg.Intn(200)) * time.Microsecond)
				}
				_, err := idx.SearchInContext(ctx, req)
				cancel()
				check("Search", err, cb || closeBegun.Load())
				inSearch.Add(-1)
			}
		}(s)
	}
	for rr := 0; rr < nR; rr++ {
		wg.Add(1)
		go func(rr int) {
			defer wg.Done()
			lg := streams[nW+nS+rr]
			for i := 0; i < stopAt && !closed.Load(); i++ {
				cb := closeBegun.Load()
				switch lg.Intn(9) {
				case 0:
					_, err := idx.Document(corpus.DocID(lg.Intn(40)))
					check("Document", err, cb || closeBegun.Load())
				case 1:
					_, err := idx.DocCount()
					check("DocCount", err, cb || closeBegun.Load())
				case 2:
					_, err := idx.Fields()
					check("Fields", err, cb || closeBegun.Load())
				case 3:
					fd, err := idx.FieldDict("body")
					check("FieldDict", err, cb || closeBegun.Load())
					if err == nil {
						for j := 0; j < 5; j++ {
							if e, err := fd.Next(); err != nil || e == nil {
								break
							}
						}
						_ = fd.Close()
					}
				case 4:
					fd, err := idx.FieldDictPrefix("body", []byte("al"))
					check("FieldDictPrefix", err, cb || closeBegun.Load())
					if err == nil {
						_ = fd.Close()
					}
				case 5:
					_ = idx.Stats()
					_ = idx.StatsMap()
					ops.add("Stats")
				case 6:
					_, err := idx.GetInternal([]byte("k"))
					check("GetInternal", err, cb || closeBegun.Load())
				case 7:
					if s := mon.ScorchOf(idx); s != nil && cfg.OnDisk && lg.Chance(1, 2) {
						// half of the forced merges are cancelled while (or before) they run
						to := 2 * time.Second
						if lg.Bool() {
							to = time.Duration(lg.Range(20, 3000)) * time.Microsecond
						}
						ctx, cancel := context.WithTimeout(context.Background(), to)
						_ = s.ForceMerge(ctx, nil)
						cancel()
						ops.add("ForceMerge")
					}
				case 8:
					if ci, ok := idx.(bleve.IndexCopyable); ok && cfg.IsScorch() && cfg.OnDisk && lg.Chance(1, 4) {
						dest := filepath.Join(base, fmt.Sprintf("copy-%d-%d", rr, i))
						_ = os.MkdirAll(dest, 0o755)
						err := ci.CopyTo(bleve.FileSystemDirectory(dest))
						check("CopyTo", err, cb || closeBegun.Load())
						_ = os.RemoveAll(dest)
					}
				}
			}
		}(rr)
	}
	// Close at a seeded moment while all of that is in flight
	closeDone := make(chan error, 1)
	go func() {
		wait := time.Duration(g.Range(500, 15000)) * time.Microsecond
		if directedPoint != "" {
			select {
			case <-parked:
				res.DirectedClose[directedPoint]++
				go func() {
					select {
					case <-closeSeen:
						time.Sleep(200 * time.Microsecond)
					case <-time.After(50 * time.Millisecond):
					}
					close(letGo)
				}()
			case <-time.After(wait + 30*time.Millisecond):
				res.DirectedClose["(point not reached: "+directedPoint+")"]++
			}
		} else {
			time.Sleep(wait)
		}
		if inWrite.Load() > 0 {
			overlapW.Store(true)
		}
		if inSearch.Load() > 0 {
			overlapS.Store(true)
		}
		closeBegun.Store(true)
		err := idx.Close()
		closed.Store(true)
		closeDone <- err
	}()
	done := make(chan struct{})
	go func() { wg.Wait(); close(done) }()
	hang := func(what string, finished func() bool) {
		// deadlock signature: the same goroutines sit in the same bleve frames in two dumps
		a := bleveStacksWithHarness()
		time.Sleep(2 * time.Second)
		b := bleveStacksWithHarness()
		if a == b && a != "" {
			prob("deadlock/"+what, "two goroutine dumps 2 s apart show the same goroutines blocked in bleve calls:\n"+a)
			return
		}
		// the goroutines move: a slow machine, or a livelock (a loop that no longer makes progress). Give it five
		// more minutes — a round handles a few hundred small documents and normally closes within milliseconds.
		for i := 0; i < 300; i++ {
			if finished() {
				res.Inconclusive = append(res.Inconclusive, what+" finished only after the 90 s watchdog (machine load)")
				return
			}
			time.Sleep(time.Second)
		}
		prob("no-progress/"+what, "not finished 5 minutes after the 90 s watchdog while its goroutines keep running (livelock):\n"+bleveStacksWithHarness())
	}
	var closeErr error
	closeFinished := false
	select {
	case closeErr = <-closeDone:
		closeFinished = true
	case <-time.After(90 * time.Second):
		hang("Close", func() bool {
			select {
			case closeErr = <-closeDone:
				closeFinished = true
				return true
			default:
				return false
			}
		})
		if !closeFinished {
			return
		}
	}
	if closeErr != nil {
		addProb("close-error", closeErr.Error())
	}
	select {
	case <-done:
	case <-time.After(90 * time.Second):
		fin := false
		hang("calls in flight at Close", func() bool {
			select {
			case <-done:
				fin = true
				return true
			default:
				return false
			}
		})
		if !fin {
			return
		}
	}
	d.Disarm()
	// every call made after Close returns the closed-index error
	post := func(op string, err error) {
		res.PostCloseCalls++
		if !isClosedErr(err) {
			prob("after-close/"+op, fmt.Sprintf("%s after Close returned %v, want the closed-index error", op, err))
		}
	}
	pc, _, _ := ev.Guard(func() {
		post("Index", idx.Index("x", map[string]any{"body": "alpha"}))
		post("Delete", idx.Delete("x"))
		post("Batch", idx.Batch(idx.NewBatch()))
		_, err := idx.Search(bleve.NewSearchRequest(bleve.NewMatchAllQuery()))
		post("Search", err)
		_, err = idx.Document("d00")
		post("Document", err)
		_, err = idx.DocCount()
		post("DocCount", err)
		_, err = idx.Fields()
		post("Fields", err)
		_, err = idx.FieldDict("body")
		post("FieldDict", err)
		_, err = idx.FieldDictRange("body", []byte("a"), []byte("b"))
		post("FieldDictRange", err)
		_, err = idx.FieldDictPrefix("body", []byte("a"))
		post("FieldDictPrefix", err)
		_, err = idx.GetInternal([]byte("k"))
		post("GetInternal", err)
		post("SetInternal", idx.SetInternal([]byte("k"), []byte("v")))
		post("DeleteInternal", idx.DeleteInternal([]byte("k")))
		if ci, ok := idx.(bleve.IndexCopyable); ok && cfg.IsScorch() {
			post("CopyTo", ci.CopyTo(bleve.FileSystemDirectory(filepath.Join(base, "after-close-copy"))))
		}
		_ = idx.Stats()
		_ = idx.StatsMap()
		_ = idx.Name()
		_ = idx.Mapping()
	})
	if pc {
		prob("after-close/panic", "a call after Close panicked")
	}
	// goroutines with bleve frames must be gone
	var left []string
	for i := 0; i < 1000; i++ {
		left = bleveGoroutines()
		if len(left) == 0 {
			break
		}
		time.Sleep(10 * time.Millisecond)
	}
	if len(left) > 0 {
		prob("goroutine-leak-after-close", fmt.Sprintf("%d goroutines with bleve frames are still alive 10 s after Close returned; first:\n%s", len(left), left[0]))
		for _, g := range left {
			if m := goroutineHeader.FindStringSubmatch(g); m != nil {
				alreadyReported[m[1]] = true
			}
		}
	}
	for _, e := range takeAsync() {
		res.AsyncErrors[firstWord(e)]++
		if strings.Contains(e, "panic") {
			prob("async-panic", e)
		}
	}
	pmu.Lock()
	res.Problems = append(res.Problems, probs...)
	pmu.Unlock()
	if overlapW.Load() && overlapS.Load() {
		res.CloseOverlapped++
		res.Nontrivial = append(res.Nontrivial, fmt.Sprintf("%s/%d", cfgName, round))
	}
}

func firstWord(s string) string {
	if i := strings.IndexAny(s, ":,"); i > 0 {
		return s[:i]
	}
	return s
}

func bleveStacksWithHarness() string {
	buf := make([]byte, 8<<20)
	n := runtime.Stack(buf, true)
	var out []string
	for _, g := range strings.Split(string(buf[:n]), "\n\n") {
		if bleveFrame.MatchString(g) && !strings.Contains(g, "AnalysisQueue") && !strings.Contains(g, "analysisWorker") {
			// drop the goroutine header's wait time so that two dumps can be compared
			lines := strings.Split(g, "\n")
			if len(lines) > 0 {
				if i := strings.Index(lines[0], " ["); i > 0 {
					lines[0] = lines[0][:i]
				}
			}
			out = append(out, strings.Join(lines, "\n"))
		}
	}
	sort.Strings(out)
	return strings.Join(out, "\n\n")
}

// cancelProbe: a search over many matches is cancelled at the k-th handled
// match; the collector must stop within CheckDoneEvery matches, return the
// context error, and the index must stay usable.
func cancelProbe(sp spec, cfgName string, res *result, g *rng.Rand) {
	cfg := corpus.ConfigByName(cfgName)
	base := filepath.Join(sp.Dir, "cancel-"+cfgName)
	defer os.RemoveAll(base)
	idx, err := cfg.Open(base, corpus.Mapping())
	if err != nil {
		return
	}
	defer idx.Close()
	const n = 4000
	for i := 0; i < n; i += 500 {
		b := idx.NewBatch()
		for j := i; j < i+500; j++ {
			_ = b.Index(fmt.Sprintf("c%05d", j), map[string]any{"notv": "alpha"})
		}
		if err := idx.Batch(b); err != nil {
			res.Problems = append(res.Problems, problem{"setup-error", err.Error(), -1, cfgName})
			return
		}
	}
	for probe := 0; probe < 6; probe++ {
		k := g.Range(1, 2500)
		ctx, cancel := context.WithCancel(context.Background())
		handled, after := 0, 0
		cancelled := false
		maker := search.MakeDocumentMatchHandler(func(sc *search.SearchContext) (search.DocumentMatchHandler, bool, error) {
			return func(hit *search.DocumentMatch) error {
				if hit == nil {
					return nil
				}
				handled++
				if cancelled {
					after++
				}
				if handled == k {
					cancel()
					cancelled = true
				}
				sc.DocumentMatchPool.Put(hit)
				return nil
			}, false, nil
		})
		ctx2 := context.WithValue(ctx, search.MakeDocumentMatchHandlerKey, maker)
		tq := bleve.NewTermQuery("alpha")
		tq.SetField("notv")
		req := bleve.NewSearchRequestOptions(tq, 10, 0, false)
		_, err := idx.SearchInContext(ctx2, req)
		cancel()
		res.CancelProbes++
		if after > res.MaxAfterCancel {
			res.MaxAfterCancel = after
		}
		if uint64(after) > collector.CheckDoneEvery {
			res.Problems = append(res.Problems, problem{"cancel-not-prompt", fmt.Sprintf("context cancelled at match %d of %d but %d more matches were handled (CheckDoneEvery=%d)", k, n, after, collector.CheckDoneEvery), -1, cfgName})
		}
		if handled < n && !errors.Is(err, context.Canceled) {
			res.Problems = append(res.Problems, problem{"cancel-no-error", fmt.Sprintf("search cancelled at match %d stopped after %d matches but returned %v instead of the context error", k, handled, err), -1, cfgName})
		}
		// the index stays usable
		r2, err := idx.Search(req)
		if err != nil || r2.Total != n {
			res.Problems = append(res.Problems, problem{"index-unusable-after-cancel", fmt.Sprintf("after a cancelled search: err=%v total=%v want %d", err, r2, n), -1, cfgName})
		}
	}
}

func roundsWorker(args []string) {
	var sp spec
	b, err := os.ReadFile(args[0])
	if err == nil {
		err = json.Unmarshal(b, &sp)
	}
	if err != nil {
		fmt.Fprintln(os.Stderr, err)
		os.Exit(4)
	}
	res := &result{Ops: map[string]int{}, AsyncErrors: map[string]int{}, DirectedClose: map[string]int{}}
	ops := &counter{m: res.Ops}
	write := func() {
		ob, _ := json.Marshal(res)
		_ = os.WriteFile(sp.Out+".tmp", ob, 0o644)
		_ = os.Rename(sp.Out+".tmp", sp.Out)
	}
	if sp.First == 0 {
		g := rng.New(sp.Seed).Derive("cancel")
		for _, c := range []string{"scorch-mem", "scorch-disk", "upsidedown-gtreap"} {
			cancelProbe(sp, c, res, g)
		}
	}
	for i := 0; i < sp.Rounds; i++ {
		fmt.Fprintf(os.Stderr, "round %d config %s\n", sp.First+i, configs[(sp.First+i)%len(configs)])
		runRound(sp, sp.First+i, res, ops)
		res.Rounds++
		write()
	}
	write()
}

func run(r *ev.Run) {
	r.Rule = "round = 4 writers (Index/Delete/Batch/SetInternal), 4 searchers (fields/highlight/facets; a third with 0–300 µs deadlines, a third cancelled mid-flight), 3 readers (Document/DocCount/Fields/FieldDict*/Stats/GetInternal/ForceMerge/CopyTo) on one index of every engine/store, seeded delays at hook points, Close at a seeded moment while all are in flight, then every public method once; " +
		"children run under the race detector and plain; non-trivial = Close overlapped ≥ 1 in-flight write and ≥ 1 in-flight search; distinct by (config, round)"
	r.Assumptions = []string{
		"the race detector only reports races that manifest in an execution",
		"Stats, StatsMap, Name, Mapping return no error by signature and are exempt from the closed-index check",
		"a round that does not finish within 90 s is a deadlock only if two goroutine dumps 2 s apart show the same goroutines in the same bleve frames, otherwise inconclusive",
	}
	dir := r.TempDir()
	type child struct {
		bin  string
		race bool
	}
	var children []child
	raceBin := os.Getenv("VCHECK_RACE")
	plain := os.Getenv("VCHECK_PLAIN")
	if plain == "" {
		plain = os.Args[0]
	}
	nRace, nPlain := 6, 4
	if raceBin == "" {
		nRace = 0
		nPlain = 8
	}
	for i := 0; i < nRace; i++ {
		children = append(children, child{raceBin, true})
	}
	for i := 0; i < nPlain; i++ {
		children = append(children, child{plain, false})
	}
	perRace := r.Scale(5, 100)
	perPlain := r.Scale(12, 300)
	r.MinDistinct = r.Scale(20, 400)
	var wg sync.WaitGroup
	var mu sync.Mutex
	total := &result{Ops: map[string]int{}, AsyncErrors: map[string]int{}, DirectedClose: map[string]int{}}
	races, raceKeys := 0, map[string]int{}
	first := 0
	for ci, c := range children {
		n := perPlain
		if c.race {
			n = perRace
		}
		sp := spec{Seed: uint64(r.Seed)*104729 + 7, First: first, Rounds: n}
		first += n
		wg.Add(1)
		go func(ci int, c child, sp spec) {
			defer wg.Done()
			base := filepath.Join(dir, fmt.Sprintf("child%d", ci))
			_ = os.MkdirAll(base, 0o755)
			sp.Dir, sp.Out = base, filepath.Join(base, "out.json")
			sb, _ := json.Marshal(sp)
			_ = os.WriteFile(filepath.Join(base, "spec.json"), sb, 0o644)
			cmd := exec.Command(c.bin, "c11-rounds", filepath.Join(base, "spec.json"))
			racelog := filepath.Join(base, "race")
			cmd.Env = append(os.Environ(), "GORACE=halt_on_error=0 log_path="+racelog, "GOTRACEBACK=all")
			lf, _ := os.Create(filepath.Join(base, "log"))
			cmd.Stdout, cmd.Stderr = lf, lf
			if err := cmd.Start(); err != nil {
				r.Violation("setup-error", err.Error(), nil)
				return
			}
			done := make(chan error, 1)
			go func() { done <- cmd.Wait() }()
			var werr error
			timedOut := false
			select {
			case werr = <-done:
			case <-time.After(time.Duration(r.Scale(25, 90)) * time.Minute):
				timedOut = true
				_ = cmd.Process.Kill()
				<-done
			}
			lf.Close()
			var out result
			ob, rerr := os.ReadFile(sp.Out)
			haveOut := rerr == nil && json.Unmarshal(ob, &out) == nil
			if timedOut {
				r.Inconclusive("child watchdog (machine load)")
			} else if werr != nil {
				lg, _ := os.ReadFile(filepath.Join(base, "log"))
				s := string(lg)
				headline := ""
				for _, l := range strings.Split(s, "\n") {
					if strings.HasPrefix(l, "panic:") || strings.HasPrefix(l, "fatal error:") {
						headline = l
						break
					}
				}
				if len(s) > 12000 {
					s = s[len(s)-12000:]
				}
				r.Violation("process-death/"+firstWord(headline), fmt.Sprintf("child %d (race=%v) died: %v %s", ci, c.race, werr, headline), map[string]any{"log_tail": s, "spec": sp})
			}
			if !haveOut {
				return
			}
			nr := 0
			harness := 0
			for _, rr := range mon.ParseRaceLogs(racelog) {
				if !rr.InBleve {
					harness++
					continue
				}
				nr++
				mu.Lock()
				raceKeys[rr.Key]++
				firstOfKey := raceKeys[rr.Key] == 1
				mu.Unlock()
				if firstOfKey {
					txt := rr.Text
					if len(txt) > 10000 {
						txt = txt[:10000]
					}
					r.Violation("data-race/"+rr.Key, "race detector report with bleve frames", map[string]any{"report": txt})
				}
			}
			if harness > 0 {
				r.Inconclusive(fmt.Sprintf("%d race reports inside the harness itself (monitor bug, not judged)", harness))
			}
			mu.Lock()
			races += nr
			total.Rounds += out.Rounds
			total.CloseOverlapped += out.CloseOverlapped
			total.CancelProbes += out.CancelProbes
			total.PostCloseCalls += out.PostCloseCalls
			if out.MaxAfterCancel > total.MaxAfterCancel {
				total.MaxAfterCancel = out.MaxAfterCancel
			}
			for k, v := range out.Ops {
				total.Ops[k] += v
			}
			for k, v := range out.AsyncErrors {
				total.AsyncErrors[k] += v
			}
			for k, v := range out.DirectedClose {
				total.DirectedClose[k] += v
			}
			mu.Unlock()
			for _, id := range out.Nontrivial {
				r.Case(fmt.Sprintf("%v/%s", c.race, id), true)
			}
			r.Evals(out.Rounds - len(out.Nontrivial))
			for _, m := range out.Inconclusive {
				r.Inconclusive(m)
			}
			for _, p := range out.Problems {
				eng := "scorch"
				if strings.HasPrefix(p.Config, "upsidedown") {
					eng = "upsidedown-" + strings.TrimPrefix(p.Config, "upsidedown-")
				}
				r.Violation(p.Class+"/"+eng, fmt.Sprintf("round %d on %s: %s", p.Round, p.Config, p.Detail), p)
			}
		}(ci, c, sp)
	}
	wg.Wait()
	r.Sample(map[string]any{"round": "4 writers + 4 searchers + 3 readers + Close at a seeded moment", "configs": configs, "operations_executed": total.Ops})
	r.Extra("rounds", total.Rounds)
	r.Extra("race_detector_children", nRace)
	r.Extra("plain_children", nPlain)
	r.Extra("race_reports_with_bleve_frames", races)
	r.Extra("rounds_where_close_overlapped_write_and_search", total.CloseOverlapped)
	r.Extra("cancel_probes", total.CancelProbes)
	r.Extra("max_matches_handled_after_cancel", total.MaxAfterCancel)
	r.Extra("post_close_calls_checked", total.PostCloseCalls)
	r.Extra("async_errors_seen", total.AsyncErrors)
	r.Extra("close_issued_while_an_actor_was_parked_at", total.DirectedClose)
	r.Extra("operations_executed", total.Ops)
}
