package main

import (
	_ "verifharness/c11"
	"verifharness/ev"
)

func main() { ev.Main() }
