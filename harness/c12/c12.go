// Package c12 monitors property C12: needed segment files are never removed and
// unneeded files do not accumulate.
//
// Part 1 (gated): scenarios run under the gate scheduler with extra gates in
// the windows "file written / snapshot committed / purge". At every strictly
// quiescent point (no write(2) in flight, so a plain copy of the directory is
// a crash image of that instant) the directory is imaged; every file a
// committed snapshot names must exist in the image, the image must open, and
// its contents must be the replay of a prefix of the release order that covers
// every acknowledged batch (safe mode). An assertion at purge.zap.beforeRemove
// checks, under the purger's own lock, that the file about to be removed is
// not named by any snapshot in the metadata store, not in the current root,
// not marked ineligible and not scheduled for a copy. Held readers must stay
// readable throughout. At the end: settle, no orphan *.zap, no open fd.
//
// Part 2 (growth): the same bounded live set is rewritten for 1×, 2×, 4× as
// long; file and snapshot counts at the settle point must not grow.
package c12

import (
	"context"
	"fmt"
	"os"
	"os/exec"
	"path/filepath"
	"sort"
	"strings"
	"sync"
	"sync/atomic"
	"time"

	"github.com/blevesearch/bleve/v2"
	"github.com/blevesearch/bleve/v2/index/scorch"
	"github.com/blevesearch/bleve/v2/index/scorch/mergeplan"
	"github.com/blevesearch/bleve/v2/util"
	index "github.com/blevesearch/bleve_index_api"
	bolt "go.etcd.io/bbolt"

	"verifharness/corpus"
	"verifharness/ev"
	"verifharness/mon"
	"verifharness/rng"
	"verifharness/sched"
)

func init() { ev.Register("C12", "exploration", run) }

type cfgT struct {
	Name   string
	KV     map[string]any
	Unsafe bool
	Keep   int
}

func mergeKV(ms ...map[string]any) map[string]any {
	out := map[string]any{}
	for _, m := range ms {
		for k, v := range m {
			out[k] = v
		}
	}
	return out
}

func cfgs() []cfgT {
	un := map[string]any{"unsafe_batch": true}
	return []cfgT{
		{"safe-merge-keep1", mergeKV(corpus.AggressiveMerge()), false, 1},
		{"unsafe-merge-keep1", mergeKV(corpus.AggressiveMerge(), un), true, 1},
		{"unsafe-p3-merge-keep1", mergeKV(corpus.AggressiveMerge(), corpus.MultiWorkerPersister(), un), true, 1},
		{"safe-merge-keep3", mergeKV(corpus.AggressiveMerge(), map[string]any{"numSnapshotsToKeep": 3}), false, 3},
		{"safe-p3-merge-keep2-sampled", mergeKV(corpus.AggressiveMerge(), corpus.MultiWorkerPersister(), map[string]any{"numSnapshotsToKeep": 2, "rollbackSamplingInterval": "1ms"}), false, 2},
	}
}

// referencedFiles lists the segment files named by any snapshot committed in root.bolt of a (closed) directory.
func referencedFiles(storeDir string) (map[string]bool, int, error) {
	rb, err := util.OpenBolt(filepath.Join(storeDir, "root.bolt"), 0o600, &bolt.Options{ReadOnly: true, Timeout: 5 * time.Second})
	if err != nil {
		return nil, 0, err
	}
	defer rb.Close()
	out := map[string]bool{}
	buckets := 0
	err = rb.View(func(tx *util.BoltTxImpl) error {
		snaps := tx.Bucket(util.BoltSnapshotsBucket)
		if snaps == nil {
			return nil
		}
		c := snaps.Cursor()
		for k, _ := c.First(); k != nil; k, _ = c.Next() {
			sb := snaps.GetBucket(k)
			if sb == nil {
				continue
			}
			buckets++
			sc := sb.Cursor()
			for sk, _ := sc.First(); sk != nil; sk, _ = sc.Next() {
				if sk[0] == util.BoltInternalKey[0] || sk[0] == util.BoltMetaDataKey[0] {
					continue
				}
				seg := sb.GetBucket(sk)
				if seg == nil {
					continue
				}
				if p, _ := seg.Get(util.BoltPathKey, nil); p != nil {
					out[string(p)] = true
				}
			}
		}
		return nil
	})
	return out, buckets, err
}

func zapFiles(dir string) []string {
	ents, _ := os.ReadDir(dir)
	var out []string
	for _, e := range ents {
		if filepath.Ext(e.Name()) == ".zap" {
			out = append(out, e.Name())
		}
	}
	sort.Strings(out)
	return out
}

func genWriters(g *rng.Rand, W, B, nIDs int) ([][]corpus.Batch, []string, []string) {
	var ids []string
	for i := 0; i < nIDs; i++ {
		ids = append(ids, corpus.DocID(i))
	}
	ver := 0
	out := make([][]corpus.Batch, W)
	// hot-key variant: very few ids and tiny batches, so that whole segments are
	// obsoleted by the next batch (segments that die before they are persisted or merged)
	hot := g.Chance(1, 3)
	if hot && nIDs > 2 {
		nIDs = g.Range(1, 2)
		ids = ids[:nIDs]
	}
	for w := 0; w < W; w++ {
		for b := 0; b < B; b++ {
			n := g.Range(1, 4)
			if hot {
				n = g.Range(1, 2)
			}
			ops := corpus.GenOps(g, n, nIDs)
			for i := range ops {
				if ops[i].Kind == "index" {
					ver++
					ops[i].Doc.Fields["ver"] = float64(ver)
				}
			}
			out[w] = append(out[w], corpus.Batch{Ops: ops})
		}
	}
	return out, ids, []string{"k0", "k1", "k2"}
}

type witness struct {
	Config     string           `json:"config"`
	Seed       uint64           `json:"scenario_seed"`
	Writers    [][]corpus.Batch `json:"writers,omitempty"`
	Released   []sched.BatchRef `json:"released_order,omitempty"`
	Schedule   []string         `json:"gate_release_order,omitempty"`
	IntroOrder []string         `json:"introducer_order,omitempty"`
	Step       int              `json:"step"`
	Waiters    []string         `json:"gated_actors,omitempty"`
	Files      []string         `json:"zap_files,omitempty"`
	Detail     string           `json:"detail"`
}

type gstats struct {
	images, imagesInWindow, purgeAsserts, purgeAssertsWithCopyScheduled, purgeAssertsWithIneligible, copies, heldReads, heldUnlinked, strict, bursts, forcedMerges int
	intro                                                                                                                                                          string
}

func viewOf(rd index.IndexReader, ids, keys []string) (string, error) {
	var sb strings.Builder
	n, err := rd.DocCount()
	if err != nil {
		return "", err
	}
	fmt.Fprintf(&sb, "n=%d;", n)
	for _, id := range ids {
		d, err := rd.Document(id)
		if err != nil {
			return "", err
		}
		if d != nil {
			fmt.Fprintf(&sb, "%s=%v;", id, corpus.ObservedStored(d))
		}
	}
	for _, k := range keys {
		v, err := rd.GetInternal([]byte(k))
		if err != nil {
			return "", err
		}
		fmt.Fprintf(&sb, "%s=%s;", k, v)
	}
	return sb.String(), nil
}

func runGated(r *ev.Run, dir string, cfg cfgT, seed uint64, policy string) (string, *witness, *gstats, bool) {
	g := rng.New(seed)
	W, B, nIDs := g.Range(2, 3), g.Range(4, 7), g.Range(3, 7)
	if policy == "merge-burst" {
		// many ids, so that segments are not emptied by the next batch and files pile up for chained merges
		W, B, nIDs = 3, g.Range(7, 10), 40
	}
	writers, ids, keys := genWriters(g.Derive("writers"), W, B, nIDs)
	base := filepath.Join(dir, fmt.Sprintf("g-%s-%x", cfg.Name, seed))
	defer os.RemoveAll(base)
	idxDir := filepath.Join(base, "idx")
	store := filepath.Join(idxDir, "store")
	st := &gstats{}
	var mu sync.Mutex
	var problem string
	var wit *witness
	fail := func(rn *sched.Runner, s *mon.Status, class, detail string) {
		mu.Lock()
		defer mu.Unlock()
		if problem != "" {
			return
		}
		problem = class
		wit = &witness{Config: cfg.Name, Seed: seed, Writers: writers, Detail: detail, Files: zapFiles(store)}
		if rn != nil {
			wit.Released, wit.Schedule, wit.IntroOrder, wit.Step = rn.ReleasedList(), rn.Gate.Schedule(), rn.Gate.IntroOrder(), rn.Steps
		}
		if s != nil {
			for _, w := range s.Waiters {
				wit.Waiters = append(wit.Waiters, w.Actor+"@"+w.Point)
			}
		}
	}
	type held struct {
		rd    index.IndexReader
		first string
		files []string
		step  int
	}
	var helds []*held
	hg := g.Derive("held")
	ig := g.Derive("img")
	imgN := 0
	var runner *sched.Runner
	// assertion at the purger's removal point (runs under the purger's own lock)
	purgeAssert := func(s *scorch.Scorch, point string, occ int) {
		if mon.Base(point) != "purge.zap.beforeRemove" {
			return
		}
		fname := mon.Arg(point)
		vs := s.VerifStateLocked()
		mu.Lock()
		st.purgeAsserts++
		if len(vs.CopyScheduled) > 0 {
			st.purgeAssertsWithCopyScheduled++
		}
		if len(vs.IneligibleForRemoval) > 0 {
			st.purgeAssertsWithIneligible++
		}
		mu.Unlock()
		for _, f := range vs.RootFiles {
			if f == fname {
				fail(runner, nil, "purger-removes-file-of-current-root", fmt.Sprintf("%s is about to be removed but the current root (epoch %d) uses it", fname, vs.RootEpoch))
			}
		}
		for _, f := range vs.IneligibleForRemoval {
			if f == fname {
				fail(runner, nil, "purger-removes-ineligible-file", fname+" is about to be removed although it is marked ineligible for removal (merge or persist in flight)")
			}
		}
		if vs.CopyScheduled[fname] > 0 {
			fail(runner, nil, "purger-removes-copy-scheduled-file", fname+" is about to be removed although an online copy is scheduled for it")
		}
		names, err := s.VerifBoltFileNames()
		if err == nil {
			if _, ok := names[fname]; ok {
				fail(runner, nil, "purger-removes-file-named-by-a-snapshot", fname+" is about to be removed although a snapshot in the metadata store names it")
			}
		}
	}
	// online copies held at gates inside CopyTo while the purger runs: the files they
	// are scheduled for must survive (the content of a copy is C14's subject)
	seenScheduled := map[string]bool{}
	jobs := make(chan string, 8)
	var busy atomic.Int32
	nJobs := 0
	duelStarted := false
	var firstCopier atomic.Value
	cg := g.Derive("copies")
	copier := func(rn *sched.Runner) {
		for dest := range jobs {
			name := mon.CurrentActor("copier")
			rn.Gate.ActorCalling(name)
			_ = os.MkdirAll(dest, 0o755)
			err := rn.Idx.(bleve.IndexCopyable).CopyTo(bleve.FileSystemDirectory(dest))
			rn.Gate.ActorReturned(name)
			if err != nil {
				fail(rn, nil, "file-scheduled-for-copy-lost", fmt.Sprintf("CopyTo failed: %v", err))
			}
			mu.Lock()
			st.copies++
			mu.Unlock()
			_ = os.RemoveAll(dest)
			busy.Add(-1)
		}
	}
	obs := func(rn *sched.Runner, s mon.Status, strict bool) {
		runner = rn
		if !strict {
			return
		}
		st.strict++
		start := busy.Load() < 2 && nJobs < 6 && cg.Chance(1, 3)
		if policy == "duel" {
			// two copies taken at the same instant on a root with file segments; one finishes at
			// once, the other is released last (see the chooser below)
			start = !duelStarted && len(rn.S.VerifState().RootFiles) > 0
			if start {
				duelStarted = true
				nJobs++
				busy.Add(1)
				jobs <- filepath.Join(base, fmt.Sprintf("copy%d", nJobs))
			}
		}
		if start {
			nJobs++
			busy.Add(1)
			jobs <- filepath.Join(base, fmt.Sprintf("copy%d", nJobs))
			for i := 0; i < 200; i++ {
				s2, strict2, ok := rn.Gate.WaitQuiescent(150*time.Microsecond, 3, 60*time.Millisecond, 10*time.Second)
				if !ok {
					break
				}
				n := 0
				for _, w := range s2.Waiters {
					if strings.HasPrefix(w.Point, "copy.") {
						n++
						if policy == "duel" && firstCopier.Load() == nil {
							firstCopier.Store(w.Actor)
						}
					}
				}
				if strict2 && n == int(busy.Load()) {
					s = s2
					break
				}
			}
		}
		// a file scheduled for an online copy that was on disk stays on disk while it is scheduled
		vs0 := rn.S.VerifState()
		scheduled := map[string]int{}
		for f, n := range vs0.CopyScheduled {
			scheduled[filepath.Base(f)] += n // (the key is expected to be a base name)
		}
		for f, n := range scheduled {
			if n <= 0 {
				continue
			}
			_, err := os.Stat(filepath.Join(store, f))
			if err == nil {
				seenScheduled[f] = true
			} else if seenScheduled[f] {
				fail(rn, &s, "file-scheduled-for-copy-removed", fmt.Sprintf("%s is scheduled for an online copy (count %d), was on disk, and is gone", f, n))
				return
			}
		}
		for f := range seenScheduled {
			if scheduled[f] <= 0 {
				delete(seenScheduled, f)
			}
		}
		// live directory: every file named by a committed snapshot or used by the root exists
		names, err := rn.S.VerifBoltFileNames()
		if err != nil {
			fail(rn, &s, "metadata-store-unreadable", err.Error())
			return
		}
		for f := range names {
			if _, err := os.Stat(filepath.Join(store, f)); err != nil {
				fail(rn, &s, "file-named-by-snapshot-missing", fmt.Sprintf("%s is named by a snapshot in the metadata store but is not on disk", f))
				return
			}
		}
		vs := rn.S.VerifState()
		for _, f := range vs.RootFiles {
			if _, err := os.Stat(filepath.Join(store, f)); err != nil {
				fail(rn, &s, "file-of-current-root-missing", fmt.Sprintf("%s is used by the current root (epoch %d) but is not on disk", f, vs.RootEpoch))
				return
			}
		}
		// held readers stay readable and unchanged
		for _, h := range helds {
			now, err := viewOf(h.rd, ids, keys)
			st.heldReads++
			if err != nil {
				fail(rn, &s, "held-reader-lost-access", fmt.Sprintf("reader taken at step %d (files %v): %v", h.step, h.files, err))
				return
			}
			if now != h.first {
				fail(rn, &s, "held-reader-changed", fmt.Sprintf("reader taken at step %d answers differently now", h.step))
				return
			}
			for _, f := range h.files {
				if _, err := os.Stat(filepath.Join(store, f)); err != nil {
					st.heldUnlinked++
				}
			}
		}
		if len(helds) < 3 && hg.Chance(1, 4) {
			adv, _ := rn.Idx.Advanced()
			if rd, err := adv.Reader(); err == nil {
				if first, err := viewOf(rd, ids, keys); err == nil {
					h := &held{rd: rd, first: first, step: rn.Steps}
					if is, ok := rd.(*scorch.IndexSnapshot); ok {
						h.files = is.VerifSegmentFiles()
					}
					helds = append(helds, h)
				} else {
					rd.Close()
				}
			}
		}
		// image of this instant
		inWindow := false
		for _, w := range s.Waiters {
			switch w.Point {
			case "persist.direct.beforeCommit", "persist.direct.afterCommit", "merge.task.fileWritten", "merge.beforeIntro", "persist.memmerge.beforeIntro", "purge.begin":
				inWindow = true
			}
		}
		if !inWindow && !ig.Chance(1, 3) {
			return
		}
		imgN++
		img := filepath.Join(base, fmt.Sprintf("img%d", imgN))
		if err := exec.Command("cp", "-r", idxDir, img).Run(); err != nil {
			return
		}
		defer os.RemoveAll(img)
		st.images++
		if inWindow {
			st.imagesInWindow++
		}
		ref, _, err := referencedFiles(filepath.Join(img, "store"))
		if err != nil {
			fail(rn, &s, "image-metadata-store-unreadable", err.Error())
			return
		}
		for f := range ref {
			if _, err := os.Stat(filepath.Join(img, "store", f)); err != nil {
				fail(rn, &s, "image-lacks-file-named-by-snapshot", fmt.Sprintf("image at step %d: %s is named by a committed snapshot but absent", rn.Steps, f))
				return
			}
		}
		iidx, err := bleve.Open(img)
		if err != nil {
			fail(rn, &s, "image-does-not-open", fmt.Sprintf("image at step %d: %v", rn.Steps, err))
			return
		}
		v, err := sched.ReadView(iidx, ids, keys)
		iidx.Close()
		if err != nil {
			fail(rn, &s, "image-unreadable", fmt.Sprintf("image at step %d: %v", rn.Steps, err))
			return
		}
		released := rn.ReleasedList()
		acked := rn.AckedSet()
		minJ := 0
		if !cfg.Unsafe {
			for j, ref := range released {
				if acked[ref] {
					minJ = j + 1
				}
			}
		}
		m := corpus.NewLWW()
		matched := -1
		var diffs []string
		for j := 0; j <= len(released); j++ {
			if j > 0 {
				m.Apply(writers[released[j-1].W][released[j-1].K-1])
			}
			if d := sched.Diff(v, m, keys); d == "" {
				matched = j // keep the largest matching prefix
			} else {
				diffs = append(diffs, fmt.Sprintf("prefix %d: %s", j, d))
			}
		}
		if matched < 0 {
			fail(rn, &s, "image-is-no-prefix-state", fmt.Sprintf("image at step %d opens to a state that is not the replay of any prefix of the release order %v; image shows %d docs %v internal %v; heuristic (non-strict) points so far %d; %s", rn.Steps, released, v.DocCount, v.Docs, v.Internal, rn.Heuristic, strings.Join(diffs, " | ")))
			return
		}
		if matched < minJ {
			fail(rn, &s, "image-older-than-acknowledged", fmt.Sprintf("image at step %d opens to the state after %d released batches but %d were acknowledged (release order %v)", rn.Steps, matched, minJ, released))
		}
	}
	gates := append(append([]string{}, sched.ImageGates...), "copy.readerTaken", "copy.begin", "copy.beforeCommit")
	var chooser func(ws []mon.Waiter, g *rng.Rand) mon.Waiter
	if policy == "duel" {
		chooser = func(ws []mon.Waiter, g *rng.Rand) mon.Waiter {
			first, _ := firstCopier.Load().(string)
			var a, b []mon.Waiter
			for _, w := range ws {
				if first != "" && w.Actor == first {
					a = append(a, w)
				} else if !strings.HasPrefix(w.Point, "copy.") {
					b = append(b, w)
				}
			}
			if len(a) > 0 {
				return a[g.Intn(len(a))]
			}
			if len(b) > 0 {
				return b[g.Intn(len(b))]
			}
			return ws[g.Intn(len(ws))]
		}
	}
	sc := &sched.Scenario{Dir: idxDir, KV: cfg.KV, Writers: writers, Gates: gates, G: g.Derive("sched"), MaxSteps: 1200, Policy: policy, Choose: chooser,
		Handlers: []mon.Handler{purgeAssert}, Extra: []func(*sched.Runner){copier, copier},
		AfterOpen: func(rn *sched.Runner) { close(jobs) }}
	var startBurst func()
	var forcerBusy atomic.Bool
	if policy == "merge-burst" {
		// A requester of forced merges with a pairwise plan: each forced merge is planned at once (the merger does
		// not wait for the persister first), so the output of one forced merge is the input of the next without
		// ever having been recorded in root.bolt.
		burstCh := make(chan struct{}, 4)
		pairwise := &mergeplan.MergePlanOptions{MaxSegmentsPerTier: 1, MaxSegmentSize: 1 << 30, TierGrowth: 2.0,
			SegmentsPerMergeTask: 2, FloorSegmentSize: 1, ReclaimDeletesWeight: 2.0}
		forcer := func(rn *sched.Runner) {
			name := mon.CurrentActor("forcer")
			for range burstCh {
				for k := 0; k < 3; k++ {
					rn.Gate.ActorBlocked(name, "forcemerge") // it only waits for the merger from here on
					_ = rn.S.ForceMerge(context.Background(), pairwise)
					rn.Gate.ActorReturned(name)
					mu.Lock()
					st.forcedMerges++
					mu.Unlock()
				}
				forcerBusy.Store(false)
			}
		}
		sc.Extra = append(sc.Extra, forcer)
		prevAfterOpen := sc.AfterOpen
		sc.AfterOpen = func(rn *sched.Runner) { close(burstCh); prevAfterOpen(rn) }
		startBurst = func() {
			forcerBusy.Store(true)
			select {
			case burstCh <- struct{}{}:
			default:
				forcerBusy.Store(false)
			}
		}
		// The merger is held back until the root has >= 3 segment files and the persister is parked at the start of a
		// purge; then the merger runs as many merges as it can (outputs of merges become inputs of the next ones
		// without ever being recorded in root.bolt) before the parked purge is let go. Files are then protected by
		// nothing but the merger's own marks.
		sc.Policy = ""
		burst, burstIntros, nBursts := false, 0, 0
		sg := g.Derive("burst")
		sc.ChooseR = func(rn *sched.Runner, s mon.Status, strict bool) mon.Waiter {
			var merge, purge, persist, other []mon.Waiter
			for _, w := range s.Waiters {
				switch {
				case strings.HasPrefix(w.Point, "merge."):
					merge = append(merge, w)
				case strings.HasPrefix(w.Point, "purge."):
					purge = append(purge, w)
				case strings.HasPrefix(w.Point, "persist."):
					persist = append(persist, w)
				default:
					other = append(other, w)
				}
			}
			if !burst && nBursts < 2 && len(purge) > 0 && len(rn.S.VerifState().RootFiles) >= 4 {
				nBursts++
				burst, burstIntros = true, 0
				startBurst()
				mu.Lock()
				st.bursts++
				mu.Unlock()
			}
			pick := func(groups ...[]mon.Waiter) mon.Waiter {
				for _, gr := range groups {
					if len(gr) > 0 {
						return gr[sg.Intn(len(gr))]
					}
				}
				return s.Waiters[0]
			}
			if burst {
				// once a merge of this burst has been introduced and the next one waits for its introduction (its file
				// is written, its inputs include the unrecorded output of the previous one), the parked purge goes first
				waitingIntro := false
				for _, w := range merge {
					if w.Point == "merge.beforeIntro" {
						waitingIntro = true
					}
				}
				if waitingIntro && burstIntros >= 1 && len(purge) > 0 {
					burst = false
					return purge[0]
				}
				if len(merge) == 0 && forcerBusy.Load() {
					return mon.Waiter{ID: -1} // the forced merge has been requested; wait until the merger shows up at a gate
				}
				w := pick(merge, other, persist, purge)
				if w.Point == "merge.beforeIntro" {
					burstIntros++
				}
				if strings.HasPrefix(w.Point, "purge.") {
					burst = false
				}
				return w
			}
			rest := append(append(append([]mon.Waiter{}, other...), persist...), purge...)
			return pick(rest, merge)
		}
	}
	final := func(rn *sched.Runner) {
		for _, h := range helds {
			now, err := viewOf(h.rd, ids, keys)
			if err != nil {
				fail(rn, nil, "held-reader-lost-access", err.Error())
			} else if now != h.first {
				fail(rn, nil, "held-reader-changed", "at the end")
			}
			h.rd.Close()
		}
		// settle: nothing left to persist, purger has run; up to 40 further persister rounds (a merge that is still
		// running on a loaded machine legitimately owns a file no snapshot names yet)
		orphans := []string{}
		for nudge := 0; nudge <= 40; nudge++ {
			_ = corpus.WaitPersisted(rn.Idx, corpus.Config{IndexType: scorch.Name, OnDisk: true})
			// wait for an unchanged listing
			var last string
			same := 0
			for i := 0; i < 400 && same < 5; i++ {
				cur := strings.Join(zapFiles(store), ",")
				if cur == last {
					same++
				} else {
					same, last = 0, cur
				}
				time.Sleep(2 * time.Millisecond)
			}
			names, err := rn.S.VerifBoltFileNames()
			if err != nil {
				break
			}
			orphans = orphans[:0]
			for _, f := range zapFiles(store) {
				if _, ok := names[f]; !ok {
					orphans = append(orphans, f)
				}
			}
			if len(orphans) == 0 {
				break
			}
		}
		if len(orphans) > 0 {
			fail(rn, nil, "orphan-files-at-quiescence", fmt.Sprintf("after writing stopped and 40 further persister rounds these *.zap files are named by no snapshot: %v", orphans))
		}
	}
	res, err := sched.Run(sc, obs, final)
	if err != nil {
		return "setup-error", &witness{Config: cfg.Name, Seed: seed, Detail: err.Error()}, st, false
	}
	st.intro = strings.Join(res.IntroOrder, ",")
	if len(res.Errors) > 0 && problem == "" {
		problem = "batch-or-close-error"
		wit = &witness{Config: cfg.Name, Seed: seed, Writers: writers, Detail: strings.Join(res.Errors, "; ")}
	}
	// after Close no file of the index remains open
	if problem == "" && !res.TimedOut {
		if open := openFDsUnder(idxDir); len(open) > 0 {
			problem = "fd-open-after-close"
			wit = &witness{Config: cfg.Name, Seed: seed, Writers: writers, Detail: fmt.Sprintf("after Close these files of the index are still open or mapped: %v", open)}
		}
	}
	return problem, wit, st, res.TimedOut
}

// openFDsUnder lists the files under dir that the process still has open or
// memory mapped (a leaked *os.File may already have been closed by its
// finalizer, the mapping of a leaked segment stays).
func openFDsUnder(dir string) []string {
	ents, _ := os.ReadDir("/proc/self/fd")
	var out []string
	if b, err := os.ReadFile("/proc/self/maps"); err == nil {
		seen := map[string]bool{}
		for _, l := range strings.Split(string(b), "\n") {
			if i := strings.Index(l, dir+"/"); i >= 0 {
				f := "mmap:" + strings.TrimPrefix(l[i:], dir+"/")
				if !seen[f] {
					seen[f] = true
					out = append(out, f)
				}
			}
		}
	}
	for _, e := range ents {
		t, err := os.Readlink(filepath.Join("/proc/self/fd", e.Name()))
		if err == nil && strings.HasPrefix(t, dir+"/") {
			out = append(out, strings.TrimPrefix(t, dir+"/"))
		}
	}
	return out
}

// ---------------------------------------------------------------------------
// growth

type growthPoint struct {
	Batches int `json:"batches"`
	Files   int `json:"zap_files"`
	Buckets int `json:"snapshots_in_metadata_store"`
	Orphans int `json:"orphans"`
}

func runGrowth(r *ev.Run, dir string, cfg cfgT, seed uint64, id int) {
	base := filepath.Join(dir, fmt.Sprintf("growth-%d", id))
	defer os.RemoveAll(base)
	var pts []growthPoint
	for _, mult := range []int{1, 2, 4} {
		n := 30 * mult
		path := filepath.Join(base, fmt.Sprintf("idx%d", mult))
		kv := map[string]any{}
		for k, v := range cfg.KV {
			kv[k] = v
		}
		idx, err := bleve.NewUsing(path, corpus.Mapping(), scorch.Name, scorch.Name, kv)
		if err != nil {
			r.Violation("growth/setup-error", err.Error(), nil)
			return
		}
		fg := rng.New(seed).Derive(fmt.Sprintf("forcemerge-%d", mult))
		for k := 1; k <= n; k++ {
			if err := corpus.ApplyBatch(idx, corpus.WriterBatch(seed, 0, k, 8)); err != nil {
				r.Violation("growth/batch-error", err.Error(), nil)
				idx.Close()
				return
			}
			if k%7 == 0 {
				// forced merges, most of them cancelled while (or before) they run
				to := 2 * time.Second
				if fg.Chance(2, 3) {
					to = time.Duration(fg.Range(20, 2500)) * time.Microsecond
				}
				ctx, cancel := context.WithTimeout(context.Background(), to)
				_ = mon.ScorchOf(idx).ForceMerge(ctx, nil)
				cancel()
			}
		}
		s := mon.ScorchOf(idx)
		store := filepath.Join(path, "store")
		gp := growthPoint{Batches: n}
		for nudge := 0; nudge <= 40; nudge++ {
			_ = corpus.WaitPersisted(idx, corpus.Config{IndexType: scorch.Name, OnDisk: true})
			var last string
			same := 0
			for i := 0; i < 500 && same < 5; i++ {
				cur := strings.Join(zapFiles(store), ",")
				if cur == last {
					same++
				} else {
					same, last = 0, cur
				}
				time.Sleep(2 * time.Millisecond)
			}
			names, _ := s.VerifBoltFileNames()
			epochs, _ := s.RootBoltSnapshotEpochs()
			fs := zapFiles(store)
			gp.Files, gp.Buckets, gp.Orphans = len(fs), len(epochs), 0
			for _, f := range fs {
				if _, ok := names[f]; !ok {
					gp.Orphans++
				}
			}
			if gp.Orphans == 0 {
				break
			}
		}
		_ = idx.Close()
		if open := openFDsUnder(path); len(open) > 0 {
			r.Violation("growth/fd-open-after-close", fmt.Sprintf("%s: after %d batches (with cancelled forced merges) and Close these files of the index are still open or mapped: %v", cfg.Name, n, open),
				map[string]any{"config": cfg.Name, "seed": seed, "batches": n})
			return
		}
		pts = append(pts, gp)
		if gp.Orphans > 0 {
			r.Violation("growth/orphan-files-at-quiescence", fmt.Sprintf("%s: %d orphan *.zap after %d batches and 40 further persister rounds", cfg.Name, gp.Orphans, n), map[string]any{"config": cfg.Name, "seed": seed, "points": pts})
			return
		}
	}
	r.Case(fmt.Sprintf("growth/%s/%x", cfg.Name, seed), true)
	if id == 0 {
		r.Sample(map[string]any{"part": "growth", "config": cfg.Name, "settle_points": pts})
	}
	// no growth with history length: the live set is bounded (≤ 9 documents), so
	// neither the number of files nor of retained snapshots may follow the history
	// (a leak adds at least one file / snapshot per batch, i.e. +90 between the first
	// and the last point; counts at a settle point legitimately fluctuate by a few
	// because purging lags one persister round behind)
	if pts[2].Files > pts[0].Files+8 && pts[2].Files > pts[1].Files+4 {
		r.Violation("growth/files-accumulate", fmt.Sprintf("%s: *.zap files at settle: %d, %d, %d for 30/60/120 batches", cfg.Name, pts[0].Files, pts[1].Files, pts[2].Files), map[string]any{"config": cfg.Name, "seed": seed, "points": pts})
	}
	// retention by sampling interval is time based, so the snapshot count is only judged for interval 0
	if !strings.Contains(cfg.Name, "sampled") && pts[2].Buckets > pts[0].Buckets+8 && pts[2].Buckets > pts[1].Buckets+4 {
		r.Violation("growth/snapshots-accumulate", fmt.Sprintf("%s: snapshots in the metadata store at settle: %d, %d, %d for 30/60/120 batches (numSnapshotsToKeep %d)", cfg.Name, pts[0].Buckets, pts[1].Buckets, pts[2].Buckets, cfg.Keep), map[string]any{"config": cfg.Name, "seed": seed, "points": pts})
	}
}

func run(r *ev.Run) {
	r.Rule = "part 1: gate-scheduled scenarios (2–3 writers × 3–5 batches, overlapping ids, retention 1/2/3, safe/unsafe, persister workers 1/3, aggressive merges) with gates in the windows between file-written / snapshot-committed / purge; every strictly quiescent point: named files exist, held readers readable, image of the directory opens to an acknowledged prefix state; assertion at every file removal; settle + orphan + fd checks at the end; " +
		"part 2: growth over 30/60/120 batches on a bounded live set; non-trivial = an image was taken while a gated actor sat in one of the windows; distinct by scenario seed"
	r.Assumptions = []string{
		"reader-held files are judged by accessibility (POSIX unlink semantics): an open reader must keep answering identically, the directory entry may go",
		"images are only taken at strictly quiescent points, where every actor is idle, gated or blocked, so no write is in flight",
	}
	dir := r.TempDir()
	nG := r.Scale(160, 1600)
	nGrow := r.Scale(10, 60)
	r.MinDistinct = r.Scale(50, 600)
	cs := cfgs()
	var wg sync.WaitGroup
	sem := make(chan struct{}, 12)
	var mu sync.Mutex
	tot := gstats{}
	orders := map[string]bool{}
	for i := 0; i < nG; i++ {
		wg.Add(1)
		sem <- struct{}{}
		go func(i int) {
			defer wg.Done()
			defer func() { <-sem }()
			g := r.Rng(fmt.Sprintf("gated-%d", i))
			cfg := cs[i%len(cs)]
			seed := g.Uint64()
			// a starved persister (the merger runs several merges within one persister round) is the schedule in
			// which files are protected by nothing but the merger's own marks: over-represented on purpose
			pols := append(append([]string{}, sched.Policies...), "duel", "merge-burst", "duel", "merge-burst", "duel")
			policy := pols[(i/len(cs))%len(pols)]
			problem, wit, st, timedOut := runGated(r, dir, cfg, seed, policy)
			r.Case(fmt.Sprintf("gated/%s/%s/%x", cfg.Name, policy, seed), st.imagesInWindow > 0)
			mu.Lock()
			tot.images += st.images
			tot.imagesInWindow += st.imagesInWindow
			tot.purgeAsserts += st.purgeAsserts
			tot.purgeAssertsWithCopyScheduled += st.purgeAssertsWithCopyScheduled
			tot.purgeAssertsWithIneligible += st.purgeAssertsWithIneligible
			tot.copies += st.copies
			tot.heldReads += st.heldReads
			tot.heldUnlinked += st.heldUnlinked
			tot.strict += st.strict
			tot.bursts += st.bursts
			tot.forcedMerges += st.forcedMerges
			orders[cfg.Name+st.intro] = true
			mu.Unlock()
			if i < 2 {
				r.Sample(map[string]any{"part": "gated", "config": cfg.Name, "images": st.images, "images_in_window": st.imagesInWindow, "file_removals_asserted": st.purgeAsserts, "introducer_order": st.intro})
			}
			if timedOut {
				r.Inconclusive("gated scenario watchdog")
				return
			}
			if problem != "" {
				r.Violation("gated/"+problem, wit.Detail, wit)
			}
		}(i)
	}
	wg.Wait()
	r.Extra("gated", map[string]any{"scenarios": nG, "images_opened": tot.images, "images_taken_inside_a_window": tot.imagesInWindow,
		"file_removals_asserted": tot.purgeAsserts, "file_removals_asserted_while_a_copy_was_scheduled": tot.purgeAssertsWithCopyScheduled,
		"file_removals_asserted_while_files_were_marked_ineligible": tot.purgeAssertsWithIneligible, "online_copies_completed": tot.copies, "policies": sched.Policies, "held_reader_reads": tot.heldReads, "held_reader_paths_unlinked_while_held_not_judged": tot.heldUnlinked,
		"strict_quiescent_points": tot.strict, "merge_bursts_with_a_parked_purge": tot.bursts, "forced_pairwise_merges_in_bursts": tot.forcedMerges, "distinct_introducer_orders": len(orders)})
	for i := 0; i < nGrow; i++ {
		wg.Add(1)
		sem <- struct{}{}
		go func(i int) {
			defer wg.Done()
			defer func() { <-sem }()
			g := r.Rng(fmt.Sprintf("growth-%d", i))
			runGrowth(r, dir, cs[i%len(cs)], g.Uint64(), i)
		}(i)
	}
	wg.Wait()
}
