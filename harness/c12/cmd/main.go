package main

import (
	_ "verifharness/c12"
	"verifharness/ev"
)

func main() { ev.Main() }
