// Package c13 monitors property C13: rollback restores exactly the state
// persisted at the chosen rollback point. Histories of sequence-tagged batches
// are run under several retention settings; every rollback point offered at
// the end is rolled back to on a copy of the directory, reopened, compared with
// the LWW replay up to the point's own sequence tag, and written to again.
package c13

import (
	"context"
	"fmt"
	"os"
	"os/exec"
	"path/filepath"
	"runtime"
	"sort"
	"strconv"
	"strings"
	"sync"
	"time"

	"github.com/blevesearch/bleve/v2"
	"github.com/blevesearch/bleve/v2/index/scorch"

	"verifharness/corpus"
	"verifharness/ev"
	"verifharness/mon"
	"verifharness/rng"
	"verifharness/sched"
)

func init() { ev.Register("C13", "exploration", run) }

const nIDs = 6

type scenario struct {
	ID       int            `json:"id"`
	Seed     uint64         `json:"seed"`
	Keep     int            `json:"num_snapshots_to_keep"`
	Interval string         `json:"rollback_sampling_interval,omitempty"`
	Unsafe   bool           `json:"unsafe_batch"`
	Batches  int            `json:"batches"`
	Phase2   int            `json:"batches_after_wipe_and_reopen,omitempty"`
	FMerge   int            `json:"force_merge_every"`
	Settle   bool           `json:"settle_rounds_before_close,omitempty"`
	KV       map[string]any `json:"kvconfig"`
}

type witness struct {
	Scenario scenario `json:"scenario"`
	Points   []string `json:"points_offered"`
	Point    string   `json:"point,omitempty"`
	Detail   string   `json:"detail"`
}

func copyDir(src, dst string) error {
	_ = os.RemoveAll(dst)
	return exec.Command("cp", "-r", src, dst).Run()
}

func seqOf(p *scorch.RollbackPoint) int {
	v := p.GetInternal([]byte(corpus.SeqKey(0)))
	if len(v) == 0 {
		return 0
	}
	n, err := strconv.Atoi(string(v))
	if err != nil {
		return -1
	}
	return n
}

func ids() []string { return corpus.WriterIDs(0, nIDs) }

func stateOf(idx bleve.Index) (*sched.View, error) {
	return sched.ReadView(idx, ids(), []string{corpus.SeqKey(0)})
}

func check(idx bleve.Index, m *corpus.LWW) string {
	v, err := stateOf(idx)
	if err != nil {
		return "read: " + err.Error()
	}
	if d := sched.Diff(v, m, []string{corpus.SeqKey(0)}); d != "" {
		return d
	}
	// a search must agree as well
	res, err := idx.Search(bleve.NewSearchRequestOptions(bleve.NewMatchAllQuery(), 1000, 0, false))
	if err != nil {
		return "search: " + err.Error()
	}
	var got []string
	for _, h := range res.Hits {
		got = append(got, h.ID)
	}
	sort.Strings(got)
	if strings.Join(got, ",") != strings.Join(m.LiveIDs(), ",") || int(res.Total) != len(got) {
		return fmt.Sprintf("match_all %v total %d, model %v", got, res.Total, m.LiveIDs())
	}
	return ""
}

// history of a scenario: batches 1..B are the writer's batches; with a second phase, batch B+1 wipes every
// document (and still advances seq) and batches B+2.. write again. modelAt(k) replays the first k batches.
func history(sc scenario) []corpus.Batch {
	var h []corpus.Batch
	for k := 1; k <= sc.Batches; k++ {
		h = append(h, corpus.WriterBatch(sc.Seed, 0, k, nIDs))
	}
	if sc.Phase2 > 0 {
		wipe := corpus.Batch{}
		for _, id := range ids() {
			wipe.Ops = append(wipe.Ops, corpus.Op{Kind: "delete", ID: id})
		}
		wipe.Ops = append(wipe.Ops, corpus.Op{Kind: "setint", ID: corpus.SeqKey(0), Val: strconv.Itoa(sc.Batches + 1)})
		h = append(h, wipe)
		for k := sc.Batches + 2; k <= sc.Batches+1+sc.Phase2; k++ {
			h = append(h, corpus.WriterBatch(sc.Seed, 0, k, nIDs))
		}
	}
	return h
}

func modelAt(h []corpus.Batch, k int, extra ...corpus.Batch) *corpus.LWW {
	m := corpus.NewLWW()
	for i := 0; i < k && i < len(h); i++ {
		m.Apply(h[i])
	}
	for _, b := range extra {
		m.Apply(b)
	}
	return m
}

func runScenario(r *ev.Run, dir string, sc scenario) {
	g := rng.New(sc.Seed)
	hist := history(sc)
	base := filepath.Join(dir, fmt.Sprintf("s%d", sc.ID))
	_ = os.MkdirAll(base, 0o755)
	defer os.RemoveAll(base)
	path := filepath.Join(base, "idx")
	fail := func(class string, points []string, point, detail string) {
		r.Violation(class, detail, witness{sc, points, point, detail})
	}
	kv := map[string]any{}
	for k, v := range sc.KV {
		kv[k] = v
	}
	idx, err := bleve.NewUsing(path, corpus.Mapping(), scorch.Name, scorch.Name, kv)
	if err != nil {
		fail("setup-error", nil, "", err.Error())
		return
	}
	merges := 0
	lastPersisted := 0
	var pmu sync.Mutex
	for k := 1; k <= sc.Batches; k++ {
		bb, err := corpus.ToBleve(idx, hist[k-1])
		if err != nil {
			fail("setup-error", nil, "", err.Error())
			return
		}
		k := k
		bb.SetPersistedCallback(func(err error) {
			if err == nil {
				pmu.Lock()
				if k > lastPersisted {
					lastPersisted = k
				}
				pmu.Unlock()
			}
		})
		if err := idx.Batch(bb); err != nil {
			fail("batch-error", nil, "", err.Error())
			return
		}
		if sc.FMerge > 0 && k%sc.FMerge == 0 {
			if s := mon.ScorchOf(idx); s != nil {
				_ = s.ForceMerge(context.Background(), nil)
				merges++
			}
		}
		if g.Chance(1, 3) {
			time.Sleep(time.Duration(g.Intn(3000)) * time.Microsecond)
		}
	}
	// settle scenarios: the list must not grow with the history. Every further persister round (driven by an empty
	// batch whose persisted callback is awaited) purges whatever is eligible, so once the background work of the
	// burst has drained at most numSnapshotsToKeep (+ the epoch superseded by the last round) snapshots remain.
	// Counted in rounds, not in time.
	if sc.Settle {
		s := mon.ScorchOf(idx)
		settled, left := -1, 0
		for i := 0; i < 300 && s != nil; i++ {
			if err := corpus.WaitPersisted(idx, corpus.Config{IndexType: "scorch", OnDisk: true}); err != nil {
				fail("batch-error", nil, "", "settle round: "+err.Error())
				return
			}
			eps, err := s.RootBoltSnapshotEpochs()
			if err != nil {
				fail("rollbackpoints-error", nil, "", err.Error())
				return
			}
			left = len(eps)
			if left <= sc.Keep+1 {
				settled = i
				break
			}
			runtime.Gosched()
		}
		if settled < 0 {
			fail("retention-not-honoured/too-many-points", nil, "", fmt.Sprintf("numSnapshotsToKeep=%d, %d batches, no reader open: after 300 further persister rounds %d snapshots are still recorded", sc.Keep, sc.Batches, left))
			return
		}
		r.Count("settle_scenarios", 1)
		if settled > 2 {
			r.Count("settle_scenarios_needing_more_than_3_rounds", 1)
		}
	}
	// end with Close immediately after the burst, so that retained epochs differ in content
	if err := idx.Close(); err != nil {
		fail("close-error", nil, "", err.Error())
		return
	}
	pmu.Lock()
	needLatest := lastPersisted
	pmu.Unlock()
	if !sc.Unsafe {
		needLatest = sc.Batches // every batch was acknowledged, hence persisted
	}
	store := filepath.Join(path, "store")
	points, err := scorch.RollbackPoints(store)
	if err != nil {
		fail("rollbackpoints-error", nil, "", err.Error())
		return
	}
	var desc []string
	seqs := map[int]bool{}
	for _, p := range points {
		desc = append(desc, fmt.Sprintf("%v(seq=%d)", p, seqOf(p)))
		seqs[seqOf(p)] = true
	}
	nontrivial := len(seqs) >= 2
	r.Case(fmt.Sprintf("keep%d/%s/unsafe=%v/%x", sc.Keep, sc.Interval, sc.Unsafe, sc.Seed), nontrivial)
	r.Count("points_offered", len(points))
	r.Count("distinct_seq_points", len(seqs))
	if sc.ID < 3 {
		r.Sample(map[string]any{"scenario": sc, "points": desc})
	}
	if len(points) == 0 {
		fail("no-rollback-point", desc, "", fmt.Sprintf("no rollback point listed after %d acknowledged batches", sc.Batches))
		return
	}
	// the list must include the most recent persisted state, first
	if s0 := seqOf(points[0]); s0 < needLatest || s0 > sc.Batches {
		fail("latest-state-not-listed", desc, desc[0], fmt.Sprintf("first point has seq %d, latest persisted state is seq ≥ %d (of %d)", s0, needLatest, sc.Batches))
		return
	}
	for i := 1; i < len(points); i++ {
		if seqOf(points[i]) > seqOf(points[i-1]) {
			fail("points-not-newest-first", desc, desc[i], "an older point carries a newer sequence tag")
			return
		}
	}
	// the number of snapshots to keep is honoured. Independent lower bound: in safe mode
	// every acknowledged batch was persisted by a persister round of its own before the
	// next one was submitted (one writer), so at least `Batches` snapshots were committed;
	// with interval 0 the newest numSnapshotsToKeep of them are protected from the purger.
	if sc.Interval == "" && !sc.Unsafe {
		want := sc.Keep
		if sc.Batches < want {
			want = sc.Batches
		}
		if len(points) < want {
			fail("retention-not-honoured", desc, "", fmt.Sprintf("numSnapshotsToKeep=%d and %d batches were persisted one by one, but only %d rollback points are listed", sc.Keep, sc.Batches, len(points)))
			return
		}
	}
	verifyPoints(r, base, path, sc, hist, points, desc, fail, "")
	if sc.Phase2 == 0 {
		return
	}
	// phase 2: reopen, wipe everything, close, reopen, write again, close — the points from before the wipe
	// that are still offered must still restore exactly their own state
	idxb, err := bleve.Open(path)
	if err != nil {
		fail("reopen-error", desc, "", err.Error())
		return
	}
	if err := corpus.ApplyBatch(idxb, hist[sc.Batches]); err != nil {
		fail("batch-error", desc, "", err.Error())
		idxb.Close()
		return
	}
	// (unsafe_batch: a clean Close only keeps what the persisted callback has reported)
	_ = corpus.WaitPersisted(idxb, corpus.Config{IndexType: scorch.Name, OnDisk: true})
	if err := idxb.Close(); err != nil {
		fail("close-error", desc, "", err.Error())
		return
	}
	idxb, err = bleve.Open(path)
	if err != nil {
		fail("reopen-error", desc, "", err.Error())
		return
	}
	for k := sc.Batches + 1; k < len(hist); k++ {
		if err := corpus.ApplyBatch(idxb, hist[k]); err != nil {
			fail("batch-error", desc, "", err.Error())
			idxb.Close()
			return
		}
	}
	if d := check(idxb, modelAt(hist, len(hist))); d != "" {
		fail("state-after-wipe-reopen-write-differs", desc, "", d)
	}
	_ = corpus.WaitPersisted(idxb, corpus.Config{IndexType: scorch.Name, OnDisk: true})
	if err := idxb.Close(); err != nil {
		fail("close-error", desc, "", err.Error())
		return
	}
	points2, err := scorch.RollbackPoints(store)
	if err != nil {
		fail("rollbackpoints-error", desc, "", err.Error())
		return
	}
	var desc2 []string
	old := 0
	for _, p := range points2 {
		desc2 = append(desc2, fmt.Sprintf("%v(seq=%d)", p, seqOf(p)))
		if seqOf(p) <= sc.Batches {
			old++
		}
	}
	r.Count("phase2_points_offered", len(points2))
	r.Count("phase2_points_from_before_the_wipe", old)
	if len(points2) == 0 || seqOf(points2[0]) != len(hist) {
		fail("latest-state-not-listed", desc2, "", fmt.Sprintf("after phase 2 the first point must carry seq %d", len(hist)))
		return
	}
	verifyPoints(r, base, path, sc, hist, points2, desc2, fail, "phase2/")
}

func verifyPoints(r *ev.Run, base, path string, sc scenario, hist []corpus.Batch, points []*scorch.RollbackPoint, desc []string,
	fail func(class string, points []string, point, detail string), prefix string) {
	for pi, p := range points {
		k := seqOf(p)
		if k < 0 || k > len(hist) {
			fail(prefix+"point-without-valid-internal-values", desc, desc[pi], fmt.Sprintf("seq key %d", k))
			continue
		}
		cp := filepath.Join(base, fmt.Sprintf("%scopy%d", strings.ReplaceAll(prefix, "/", "-"), pi))
		if err := copyDir(path, cp); err != nil {
			fail("setup-error", desc, desc[pi], err.Error())
			continue
		}
		if err := scorch.Rollback(filepath.Join(cp, "store"), p); err != nil {
			fail(prefix+"rollback-error", desc, desc[pi], err.Error())
			continue
		}
		r.Count("rollbacks", 1)
		idx2, err := bleve.Open(cp)
		if err != nil {
			fail(prefix+"open-after-rollback-failed", desc, desc[pi], err.Error())
			continue
		}
		if d := check(idx2, modelAt(hist, k)); d != "" {
			fail(prefix+"state-after-rollback-differs", desc, desc[pi], fmt.Sprintf("rolled back to %s: %s", desc[pi], d))
			idx2.Close()
			continue
		}
		// the index accepts new writes: four fresh batches on top of the restored state
		var extra []corpus.Batch
		werr := ""
		for j := 1; j <= 4; j++ {
			b := corpus.WriterBatch(sc.Seed^0x5bd1e995, 0, k+j, nIDs)
			extra = append(extra, b)
			if err := corpus.ApplyBatch(idx2, b); err != nil {
				werr = err.Error()
				break
			}
		}
		if werr != "" {
			fail(prefix+"write-after-rollback-failed", desc, desc[pi], werr)
			idx2.Close()
			continue
		}
		want := modelAt(hist, k, extra...)
		if d := check(idx2, want); d != "" {
			fail(prefix+"state-after-rollback-and-writes-differs", desc, desc[pi], d)
			idx2.Close()
			continue
		}
		_ = corpus.WaitPersisted(idx2, corpus.Config{IndexType: scorch.Name, OnDisk: true})
		if err := idx2.Close(); err != nil {
			fail("close-error", desc, desc[pi], err.Error())
			continue
		}
		idx3, err := bleve.Open(cp)
		if err != nil {
			fail(prefix+"reopen-after-rollback-failed", desc, desc[pi], err.Error())
			continue
		}
		if d := check(idx3, want); d != "" {
			fail(prefix+"state-after-rollback-reopen-differs", desc, desc[pi], d)
		}
		idx3.Close()
		pts2, err := scorch.RollbackPoints(filepath.Join(cp, "store"))
		if err != nil {
			fail("rollbackpoints-error", desc, desc[pi], err.Error())
			continue
		}
		for _, q := range pts2 {
			if s := seqOf(q); s > k+4 {
				fail(prefix+"later-batches-survived-rollback", desc, desc[pi], fmt.Sprintf("after rollback to seq %d and 4 more batches a point with seq %d is listed", k, s))
			}
		}
		_ = os.RemoveAll(cp)
	}
}

func run(r *ev.Run) {
	r.Rule = "scenario = one writer submitting sequence-tagged batches (updates, deletes, re-creations) under numSnapshotsToKeep ∈ {1,2,3,5}, sampling interval 0 or small, safe/unsafe, forced merges in between, Close right after the last burst; " +
		"every rollback point offered is rolled back to on a copy, reopened, compared with the LWW replay up to its own seq tag, written to, closed and reopened; non-trivial = the points offered carry ≥ 2 different seq tags; distinct by (settings, seed)"
	r.Assumptions = []string{
		"the identity of a rollback point is the seq internal key stored with it",
		"with a positive sampling interval only the content checks apply (retention is time based)",
	}
	n := r.Scale(320, 1600)
	r.MinDistinct = r.Scale(80, 400)
	dir := r.TempDir()
	g := r.Rng("scenarios")
	var scs []scenario
	for i := 0; i < n; i++ {
		keep := []int{1, 2, 3, 5}[i%4]
		sc := scenario{ID: i, Seed: g.Uint64(), Keep: keep, Batches: g.Range(6, 20), Unsafe: i%3 == 2}
		kv := map[string]any{"numSnapshotsToKeep": keep}
		if i%5 == 4 {
			sc.Interval = "2ms"
			kv["rollbackSamplingInterval"] = "2ms"
		}
		if i%2 == 0 {
			for k, v := range corpus.AggressiveMerge() {
				kv[k] = v
			}
			sc.FMerge = g.Range(3, 6)
		}
		if sc.Unsafe {
			kv["unsafe_batch"] = true
		}
		if sc.Interval == "" && i%7 == 3 {
			sc.Settle = true
		}
		if keep > 1 && i%2 == 1 && sc.Interval == "" {
			sc.Phase2 = g.Range(2, 5)
		}
		sc.KV = kv
		scs = append(scs, sc)
	}
	var wg sync.WaitGroup
	sem := make(chan struct{}, 16)
	for _, sc := range scs {
		wg.Add(1)
		sem <- struct{}{}
		go func(sc scenario) {
			defer wg.Done()
			defer func() { <-sem }()
			done := make(chan struct{})
			go func() {
				defer close(done)
				panicked, val, stack := ev.Guard(func() { runScenario(r, dir, sc) })
				if panicked {
					r.Violation("panic", fmt.Sprint(val), map[string]any{"scenario": sc, "stack": stack})
				}
			}()
			select {
			case <-done:
			case <-time.After(5 * time.Minute):
				// a scenario takes well under a second; one that is stuck (e.g. inside Open on a
				// damaged directory) is abandoned so that the run can report what it has found
				r.Inconclusive(fmt.Sprintf("scenario %d did not finish within 5 minutes (abandoned)", sc.ID))
			}
		}(sc)
	}
	wg.Wait()
}
