package main

import (
	_ "verifharness/c13"
	"verifharness/ev"
)

func main() { ev.Main() }
