// Package c14 monitors property C14: an online backup (CopyTo) is a consistent
// point-in-time copy. Part 1 starts copies at strictly quiescent points of
// gate-scheduled scenarios, holds them at gates inside the copy while batches,
// persists, merges and purges are released, and requires the destination to
// equal exactly the state at the moment the copy reader was taken. Part 2 runs
// copies at seeded moments of an ungated stress workload with sequence-tagged
// writers and requires a batch-prefix state within [acknowledged before the
// copy began, submitted when it ended].
package c14

import (
	"context"
	"fmt"
	"os"
	"path/filepath"
	"strconv"
	"strings"
	"sync"
	"sync/atomic"
	"time"

	"github.com/blevesearch/bleve/v2"

	"verifharness/corpus"
	"verifharness/ev"
	"verifharness/mon"
	"verifharness/rng"
	"verifharness/sched"
)

func init() { ev.Register("C14", "exploration", run) }

type cfgT struct {
	Name string
	KV   map[string]any
}

func mergeKV(ms ...map[string]any) map[string]any {
	out := map[string]any{}
	for _, m := range ms {
		for k, v := range m {
			out[k] = v
		}
	}
	return out
}

func cfgs() []cfgT {
	un := map[string]any{"unsafe_batch": true}
	return []cfgT{
		{"safe-merge", mergeKV(corpus.AggressiveMerge())},
		{"unsafe-merge", mergeKV(corpus.AggressiveMerge(), un)},
		{"unsafe-p3-merge", mergeKV(corpus.AggressiveMerge(), corpus.MultiWorkerPersister(), un)},
		{"safe-keep3-merge", mergeKV(corpus.AggressiveMerge(), map[string]any{"numSnapshotsToKeep": 3})},
	}
}

var gates = append(append([]string{}, sched.DefaultGates...), "copy.readerTaken", "copy.begin", "copy.beforeCommit")

type copyJob struct {
	id       int
	dest     string
	expect   *corpus.LWW
	step     int
	introsAt int
}

type witness struct {
	Config     string           `json:"config"`
	Seed       uint64           `json:"scenario_seed"`
	Writers    [][]corpus.Batch `json:"writers,omitempty"`
	Released   []sched.BatchRef `json:"released_order,omitempty"`
	Schedule   []string         `json:"gate_release_order,omitempty"`
	IntroOrder []string         `json:"introducer_order,omitempty"`
	CopyStart  int              `json:"copy_started_at_step"`
	Detail     string           `json:"detail"`
}

func genWriters(g *rng.Rand, W, B, nIDs int) ([][]corpus.Batch, []string, []string) {
	var ids []string
	for i := 0; i < nIDs; i++ {
		ids = append(ids, corpus.DocID(i))
	}
	ver := 0
	out := make([][]corpus.Batch, W)
	// hot-key variant: very few ids and tiny batches, so that whole segments are
	// obsoleted by the next batch (segments that die before they are persisted or merged)
	hot := g.Chance(1, 3)
	if hot && nIDs > 2 {
		nIDs = g.Range(1, 2)
		ids = ids[:nIDs]
	}
	for w := 0; w < W; w++ {
		for b := 0; b < B; b++ {
			n := g.Range(1, 4)
			if hot {
				n = g.Range(1, 2)
			}
			ops := corpus.GenOps(g, n, nIDs)
			for i := range ops {
				if ops[i].Kind == "index" {
					ver++
					ops[i].Doc.Fields["ver"] = float64(ver)
				}
			}
			out[w] = append(out[w], corpus.Batch{Ops: ops})
		}
	}
	return out, ids, []string{"k0", "k1", "k2"}
}

// verifyCopy opens the destination and compares it with the expected model.
func verifyCopy(dest string, expect *corpus.LWW, ids, keys []string) string {
	idx, err := bleve.Open(dest)
	if err != nil {
		return "destination does not open: " + err.Error()
	}
	defer idx.Close()
	v, err := sched.ReadView(idx, ids, keys)
	if err != nil {
		return "destination unreadable: " + err.Error()
	}
	if d := sched.Diff(v, expect, keys); d != "" {
		return d
	}
	res, err := idx.Search(bleve.NewSearchRequestOptions(bleve.NewMatchAllQuery(), 1000, 0, false))
	if err != nil {
		return "destination search: " + err.Error()
	}
	if int(res.Total) != len(expect.Docs) {
		return fmt.Sprintf("destination match_all total %d, expected %d", res.Total, len(expect.Docs))
	}
	return ""
}

type gstats struct {
	copies, copiesSpanningIntro, copiesWithUnpersisted, steps, strict int
	intro                                                             string
}

func runGated(r *ev.Run, dir string, cfg cfgT, seed uint64, policy string) (string, *witness, *gstats, bool) {
	g := rng.New(seed)
	W, B, nIDs := g.Range(2, 3), g.Range(3, 5), g.Range(3, 7)
	if policy == "merge-window" || policy == "duel" {
		// the copy has to outlive a second round of merges: longer histories
		W, B = 3, g.Range(6, 9)
	}
	// "sweep-late:<k>" / "sweep-prompt:<k>": exactly one copy, started at the k-th strictly quiescent point of the
	// run; late = the copy is released only when nothing else waits (it spans everything that follows)
	sweepK := -1
	tag := ""
	if strings.HasPrefix(policy, "sweep-") {
		i := strings.IndexByte(policy, ':')
		sweepK, _ = strconv.Atoi(policy[i+1:])
		tag = "-" + policy[:i] + "-" + policy[i+1:]
		policy = map[string]string{"sweep-late": "starve-copier", "sweep-prompt": ""}[policy[:i]]
	}
	writers, ids, keys := genWriters(g.Derive("writers"), W, B, nIDs)
	base := filepath.Join(dir, fmt.Sprintf("g-%s-%x%s", cfg.Name, seed, tag))
	st := &gstats{}
	var mu sync.Mutex
	var problem string
	var wit *witness
	fail := func(rn *sched.Runner, class, detail string, startStep int) {
		mu.Lock()
		defer mu.Unlock()
		if problem != "" {
			return
		}
		problem = class
		wit = &witness{Config: cfg.Name, Seed: seed, Writers: writers, CopyStart: startStep, Detail: detail}
		if rn != nil {
			wit.Released, wit.Schedule, wit.IntroOrder = rn.ReleasedList(), rn.Gate.Schedule(), rn.Gate.IntroOrder()
		}
	}
	const nCopiers = 2
	jobs := make(chan copyJob, 8)
	var busy atomic.Int32
	copier := func(rn *sched.Runner) {
		for job := range jobs {
			name := mon.CurrentActor("copier")
			rn.Gate.ActorCalling(name)
			ci, ok := rn.Idx.(bleve.IndexCopyable)
			var err error
			if !ok {
				err = fmt.Errorf("index is not IndexCopyable")
			} else {
				_ = os.MkdirAll(job.dest, 0o755)
				err = ci.CopyTo(bleve.FileSystemDirectory(job.dest))
			}
			rn.Gate.ActorReturned(name)
			if err != nil {
				fail(rn, "copy-error", fmt.Sprintf("CopyTo started at step %d failed: %v", job.step, err), job.step)
			} else if d := verifyCopy(job.dest, job.expect, ids, keys); d != "" {
				fail(rn, "copy-differs-from-state-at-start", fmt.Sprintf("copy started at step %d (after releases %v): %s", job.step, rn.ReleasedList(), d), job.step)
			}
			mu.Lock()
			st.copies++
			if len(rn.Gate.IntroOrder()) > job.introsAt {
				st.copiesSpanningIntro++
			}
			mu.Unlock()
			_ = os.RemoveAll(job.dest)
			busy.Add(-1)
		}
	}
	cg := g.Derive("copies")
	nJobs := 0
	// special modes (C14 specific):
	//  "duel"          two copies are started at the same instant on a root that has file segments; the first one
	//                  runs to completion at once, everything else runs next, the second copy is released last
	//  "merge-window"  a copy is started while a root file is still marked ineligible for removal (a merge was
	//                  introduced but not persisted yet) and is then held until nothing else waits
	var firstCopier atomic.Value // actor name of the copy that goes first in duel mode
	duelStarted := false
	startCopy := func(rn *sched.Runner) {
		nJobs++
		busy.Add(1)
		vs := rn.S.VerifState()
		if vs.RootMemSegments > 0 {
			mu.Lock()
			st.copiesWithUnpersisted++
			mu.Unlock()
		}
		jobs <- copyJob{id: nJobs, dest: filepath.Join(base, fmt.Sprintf("copy%d", nJobs)), expect: rn.Model.Clone(), step: rn.Steps, introsAt: len(rn.Gate.IntroOrder())}
		for i := 0; i < 200; i++ {
			s2, strict2, ok := rn.Gate.WaitQuiescent(150*time.Microsecond, 3, 60*time.Millisecond, 10*time.Second)
			if !ok {
				break
			}
			gatedCopiers := 0
			for _, w := range s2.Waiters {
				if strings.HasPrefix(w.Point, "copy.") {
					gatedCopiers++
					if firstCopier.Load() == nil && policy == "duel" {
						firstCopier.Store(w.Actor)
					}
				}
			}
			if strict2 && gatedCopiers == int(busy.Load()) {
				break
			}
		}
	}
	obs := func(rn *sched.Runner, s mon.Status, strict bool) {
		if !strict {
			return
		}
		st.strict++
		v, err := sched.ReadView(rn.Idx, ids, keys)
		if err != nil {
			fail(rn, "source-read-error", err.Error(), -1)
			return
		}
		if d := sched.Diff(v, rn.Model, keys); d != "" {
			fail(rn, "source-state-differs", d, -1)
			return
		}
		switch policy {
		case "duel":
			if !duelStarted && len(rn.S.VerifState().RootFiles) > 0 {
				duelStarted = true
				startCopy(rn)
				startCopy(rn)
			}
		case "merge-window":
			vs := rn.S.VerifState()
			inWindow := false
			for _, f := range vs.RootFiles {
				for _, x := range vs.IneligibleForRemoval {
					if f == x {
						inWindow = true
					}
				}
			}
			if inWindow && busy.Load() < nCopiers && nJobs < 4 {
				startCopy(rn)
			}
		default:
			if sweepK >= 0 {
				if st.strict-1 == sweepK && nJobs == 0 {
					startCopy(rn)
				}
				return
			}
			if busy.Load() < nCopiers && nJobs < 6 && cg.Chance(1, 3) {
				startCopy(rn)
			}
		}
	}
	var chooser func(ws []mon.Waiter, g *rng.Rand) mon.Waiter
	pick := func(ws []mon.Waiter, g *rng.Rand, pred func(mon.Waiter) bool) (mon.Waiter, bool) {
		var c []mon.Waiter
		for _, w := range ws {
			if pred(w) {
				c = append(c, w)
			}
		}
		if len(c) == 0 {
			return mon.Waiter{}, false
		}
		return c[g.Intn(len(c))], true
	}
	switch policy {
	case "duel":
		chooser = func(ws []mon.Waiter, g *rng.Rand) mon.Waiter {
			first, _ := firstCopier.Load().(string)
			if w, ok := pick(ws, g, func(w mon.Waiter) bool { return first != "" && w.Actor == first }); ok {
				return w
			}
			if w, ok := pick(ws, g, func(w mon.Waiter) bool { return !strings.HasPrefix(w.Point, "copy.") }); ok {
				return w
			}
			return ws[g.Intn(len(ws))]
		}
	case "merge-window":
		chooser = func(ws []mon.Waiter, g *rng.Rand) mon.Waiter {
			if w, ok := pick(ws, g, func(w mon.Waiter) bool { return !strings.HasPrefix(w.Point, "copy.") }); ok {
				return w
			}
			return ws[g.Intn(len(ws))]
		}
	}
	sc := &sched.Scenario{Dir: filepath.Join(base, "idx"), KV: cfg.KV, Writers: writers, Gates: gates, G: g.Derive("sched"), MaxSteps: 1500, Policy: policy,
		Choose:    chooser,
		Extra:     []func(*sched.Runner){copier, copier},
		AfterOpen: func(rn *sched.Runner) { close(jobs) },
	}
	res, err := sched.Run(sc, obs, nil)
	if err != nil {
		return "setup-error", &witness{Config: cfg.Name, Seed: seed, Detail: err.Error()}, st, false
	}
	st.steps = res.Steps
	st.intro = strings.Join(res.IntroOrder, ",")
	if len(res.Errors) > 0 && problem == "" {
		problem = "batch-or-close-error"
		wit = &witness{Config: cfg.Name, Seed: seed, Writers: writers, Schedule: res.Schedule, IntroOrder: res.IntroOrder, Detail: strings.Join(res.Errors, "; ")}
	}
	_ = os.RemoveAll(base)
	return problem, wit, st, res.TimedOut
}

// ---------------------------------------------------------------------------
// stress part (no gates): sequence-tagged writers, copies at seeded moments

const stressIDs = 5

func runStressRound(r *ev.Run, dir string, cfg cfgT, seed uint64, round int) (copies int, overlapped int) {
	g := rng.New(seed)
	base := filepath.Join(dir, fmt.Sprintf("s-%d", round))
	defer os.RemoveAll(base)
	c := corpus.Config{Name: "idx", IndexType: "scorch", KV: "scorch", OnDisk: true, KVConfig: cfg.KV}
	d := mon.New()
	d.Install()
	d.Add(mon.Delay(g.Derive("delay"), 1, 3, 500))
	idx, err := c.Open(base, corpus.Mapping())
	if err != nil {
		r.Violation("stress/setup-error", err.Error(), nil)
		return
	}
	d.Arm(mon.ScorchOf(idx))
	writers := g.Range(2, 3)
	batches := g.Range(6, 12)
	submitted := make([]atomic.Int64, writers)
	acked := make([]atomic.Int64, writers)
	var wg sync.WaitGroup
	wstreams := make([]*rng.Rand, writers)
	for w := range wstreams {
		wstreams[w] = g.Derive(fmt.Sprintf("w%d", w))
	}
	for w := 0; w < writers; w++ {
		wg.Add(1)
		go func(w int) {
			defer wg.Done()
			lg := wstreams[w]
			for k := 1; k <= batches; k++ {
				submitted[w].Store(int64(k))
				if err := corpus.ApplyBatch(idx, corpus.WriterBatch(seed, w, k, stressIDs)); err != nil {
					r.Violation("stress/batch-error", err.Error(), nil)
					return
				}
				acked[w].Store(int64(k))
				if w == 0 && k%4 == 0 {
					_ = mon.ScorchOf(idx).ForceMerge(context.Background(), nil)
				}
				time.Sleep(time.Duration(lg.Intn(600)) * time.Microsecond)
			}
		}(w)
	}
	var cwg sync.WaitGroup
	cstreams := []*rng.Rand{g.Derive("c0"), g.Derive("c1")}
	var cmu sync.Mutex
	for ci := 0; ci < 2; ci++ {
		cwg.Add(1)
		go func(ci int) {
			defer cwg.Done()
			lg := cstreams[ci]
			for n := 0; n < 3; n++ {
				time.Sleep(time.Duration(lg.Intn(4000)) * time.Microsecond)
				before := make([]int64, writers)
				inflight := false
				for w := range before {
					before[w] = acked[w].Load()
					if submitted[w].Load() > before[w] {
						inflight = true
					}
				}
				dest := filepath.Join(base, fmt.Sprintf("copy-%d-%d", ci, n))
				_ = os.MkdirAll(dest, 0o755)
				err := idx.(bleve.IndexCopyable).CopyTo(bleve.FileSystemDirectory(dest))
				after := make([]int64, writers)
				for w := range after {
					after[w] = submitted[w].Load()
				}
				cmu.Lock()
				copies++
				if inflight {
					overlapped++
				}
				cmu.Unlock()
				if err != nil {
					r.Violation("stress/copy-error", fmt.Sprintf("CopyTo during normal operation failed: %v", err), map[string]any{"config": cfg.Name, "seed": seed})
					continue
				}
				if p := verifyTagged(dest, seed, writers, before, after); p != "" {
					r.Violation("stress/"+strings.SplitN(p, ":", 2)[0], p, map[string]any{"config": cfg.Name, "seed": seed, "acked_before": before, "submitted_after": after})
				}
				_ = os.RemoveAll(dest)
			}
		}(ci)
	}
	wg.Wait()
	cwg.Wait()
	// the source is unaffected: final state = all batches
	if p := verifyTaggedIdx(idx, seed, writers, nil, nil, batches); p != "" {
		r.Violation("stress/source-affected", p, map[string]any{"config": cfg.Name, "seed": seed})
	}
	d.Disarm()
	_ = idx.Close()
	return
}

func verifyTagged(dest string, seed uint64, writers int, before, after []int64) string {
	idx, err := bleve.Open(dest)
	if err != nil {
		return "copy-does-not-open: " + err.Error()
	}
	defer idx.Close()
	return verifyTaggedIdx(idx, seed, writers, before, after, -1)
}

func verifyTaggedIdx(idx bleve.Index, seed uint64, writers int, before, after []int64, exact int) string {
	var ids, keys []string
	for w := 0; w < writers; w++ {
		ids = append(ids, corpus.WriterIDs(w, stressIDs)...)
		keys = append(keys, corpus.SeqKey(w))
	}
	v, err := sched.ReadView(idx, ids, keys)
	if err != nil {
		return "copy-unreadable: " + err.Error()
	}
	m := corpus.NewLWW()
	for w := 0; w < writers; w++ {
		k := 0
		if s := v.Internal[corpus.SeqKey(w)]; s != "" {
			k, _ = strconv.Atoi(s)
		}
		if exact >= 0 && k != exact {
			return fmt.Sprintf("source-affected: writer %d at seq %d, expected %d", w, k, exact)
		}
		if before != nil && int64(k) < before[w] {
			return fmt.Sprintf("copy-older-than-acknowledged: writer %d is at batch %d in the copy but batch %d was acknowledged before the copy began", w, k, before[w])
		}
		if after != nil && int64(k) > after[w] {
			return fmt.Sprintf("copy-from-the-future: writer %d is at batch %d > submitted %d", w, k, after[w])
		}
		wm := corpus.WriterModel(seed, w, k, stressIDs)
		for id, d := range wm.Docs {
			m.Docs[id] = d
		}
		if k > 0 {
			m.Internal[corpus.SeqKey(w)] = strconv.Itoa(k)
		}
	}
	if d := sched.Diff(v, m, keys); d != "" {
		return "copy-has-partial-batch: " + d
	}
	return ""
}

func run(r *ev.Run) {
	r.Rule = "part 1: gate-scheduled scenarios (2–3 writers × 3–5 batches on overlapping ids) in which copies are started at strictly quiescent points and held at gates inside CopyTo (reader taken / before copying / before commit) while batches, persists, merges and purges are released; the destination must equal the state when the copy reader was taken; " +
		"part 2: ungated stress rounds with sequence-tagged writers, forced merges, seeded delays and copies at seeded moments, destination must be a batch-prefix state within [acknowledged before, submitted after]; " +
		"non-trivial = ≥ 1 copy spanned an introduction (persist/merge/segment) or started with unpersisted segments; distinct by scenario seed"
	r.Assumptions = []string{"schedules are those the seeded gate choices and delays produce"}
	dir := r.TempDir()
	nG := r.Scale(400, 3200)
	nS := r.Scale(48, 480)
	r.MinDistinct = r.Scale(100, 600)
	cs := cfgs()
	var wg sync.WaitGroup
	sem := make(chan struct{}, 12)
	var mu sync.Mutex
	tot := gstats{}
	orders := map[string]bool{}
	for i := 0; i < nG; i++ {
		wg.Add(1)
		sem <- struct{}{}
		go func(i int) {
			defer wg.Done()
			defer func() { <-sem }()
			g := r.Rng(fmt.Sprintf("gated-%d", i))
			cfg := cs[i%len(cs)]
			seed := g.Uint64()
			pols := append(append([]string{}, sched.Policies...), "duel", "merge-window", "duel", "merge-window")
			policy := pols[(i/len(cs))%len(pols)]
			problem, wit, st, timedOut := runGated(r, dir, cfg, seed, policy)
			r.Case(fmt.Sprintf("gated/%s/%x", cfg.Name, seed), st.copiesSpanningIntro > 0 || st.copiesWithUnpersisted > 0)
			mu.Lock()
			tot.copies += st.copies
			tot.copiesSpanningIntro += st.copiesSpanningIntro
			tot.copiesWithUnpersisted += st.copiesWithUnpersisted
			tot.strict += st.strict
			orders[cfg.Name+st.intro] = true
			mu.Unlock()
			if i < 2 {
				r.Sample(map[string]any{"part": "gated", "config": cfg.Name, "copies": st.copies, "copies_spanning_an_introduction": st.copiesSpanningIntro, "introducer_order": st.intro})
			}
			if timedOut {
				r.Inconclusive("gated scenario watchdog")
				return
			}
			if problem != "" {
				r.Violation("gated/"+problem, wit.Detail, wit)
			}
		}(i)
	}
	wg.Wait()
	// sweep: for a few scenarios, one run per strictly quiescent point k of the scenario, the copy started exactly there
	nSweep := r.Scale(4, 24)
	sweepRuns, sweepPoints := 0, 0
	for i := 0; i < nSweep; i++ {
		g := r.Rng(fmt.Sprintf("sweep-%d", i))
		cfg := cs[i%len(cs)]
		seed := g.Uint64()
		kind := []string{"sweep-late", "sweep-prompt"}[(i/len(cs))%2]
		one := func(k int) (strictPoints int) {
			problem, wit, st, timedOut := runGated(r, dir, cfg, seed, fmt.Sprintf("%s:%d", kind, k))
			r.Case(fmt.Sprintf("sweep/%s/%x/%s/%d", cfg.Name, seed, kind, k), st.copiesSpanningIntro > 0 || st.copiesWithUnpersisted > 0)
			mu.Lock()
			sweepRuns++
			tot.copies += st.copies
			tot.copiesSpanningIntro += st.copiesSpanningIntro
			tot.copiesWithUnpersisted += st.copiesWithUnpersisted
			mu.Unlock()
			if timedOut {
				r.Inconclusive("sweep scenario watchdog")
			} else if problem != "" {
				r.Violation("gated/"+problem, fmt.Sprintf("[%s k=%d] %s", kind, k, wit.Detail), wit)
			}
			return st.strict
		}
		n := one(0)
		if n > 80 {
			n = 80
		}
		sweepPoints += n
		for k := 1; k < n; k++ {
			wg.Add(1)
			sem <- struct{}{}
			go func(k int) {
				defer wg.Done()
				defer func() { <-sem }()
				one(k)
			}(k)
		}
		wg.Wait()
	}
	r.Extra("sweep", map[string]any{"scenarios": nSweep, "runs_one_copy_each": sweepRuns, "quiescent_points_swept": sweepPoints})
	r.Extra("gated", map[string]any{"scenarios": nG, "copies_verified": tot.copies, "copies_spanning_an_introduction": tot.copiesSpanningIntro,
		"copies_started_with_unpersisted_segments": tot.copiesWithUnpersisted, "strict_quiescent_points": tot.strict, "distinct_introducer_orders": len(orders)})
	sc, so := 0, 0
	for i := 0; i < nS; i++ {
		wg.Add(1)
		sem <- struct{}{}
		go func(i int) {
			defer wg.Done()
			defer func() { <-sem }()
			g := r.Rng(fmt.Sprintf("stress-%d", i))
			cfg := cs[i%len(cs)]
			seed := g.Uint64()
			c, o := runStressRound(r, dir, cfg, seed, i)
			r.Case(fmt.Sprintf("stress/%s/%x", cfg.Name, seed), o > 0)
			mu.Lock()
			sc += c
			so += o
			mu.Unlock()
		}(i)
	}
	wg.Wait()
	// part 3: destination write faults, one copy per write of the backup
	nF := r.Scale(16, 96)
	fr, ff := 0, 0
	for i := 0; i < nF; i++ {
		wg.Add(1)
		sem <- struct{}{}
		go func(i int) {
			defer wg.Done()
			defer func() { <-sem }()
			g := r.Rng(fmt.Sprintf("fault-%d", i))
			a, b := runFaultSweep(r, dir, cs[i%len(cs)], g.Uint64())
			mu.Lock()
			fr += a
			ff += b
			mu.Unlock()
		}(i)
	}
	wg.Wait()
	r.Extra("destination_faults", map[string]any{"indexes": nF, "copies_with_one_failing_write": fr, "faults_that_fired": ff})
	r.Extra("stress", map[string]any{"rounds": nS, "copies_verified": sc, "copies_overlapping_inflight_batch": so})
}
