package main

import (
	_ "verifharness/c14"
	"verifharness/ev"
)

func main() { ev.Main() }
