package c14

import (
	"fmt"
	"io"
	"os"
	"path/filepath"
	"sync/atomic"
	"syscall"

	"github.com/blevesearch/bleve/v2"
	"github.com/blevesearch/bleve/v2/index/scorch"

	"verifharness/corpus"
	"verifharness/ev"
	"verifharness/rng"
	"verifharness/sched"
)

// Destination fault sweep: a backup whose destination fails a write must not be
// reported as successful unless the destination really is the consistent copy.
// For one index (persisted segments, and usually an unpersisted one: unsafe
// batches) a clean copy counts the writes W the backup performs; then one copy
// per k = 1..W is made in which exactly the k-th write is cut short and returns
// ENOSPC. Oracle: CopyTo returns an error, or the destination opens and equals
// the source state (the source does not change during the sweep).

type faultDir struct {
	base   bleve.FileSystemDirectory
	failAt int64
	writes atomic.Int64
	fired  atomic.Bool
	file   atomic.Value
}

type faultWriter struct {
	w    io.WriteCloser
	d    *faultDir
	path string
}

func (d *faultDir) GetWriter(p string) (io.WriteCloser, error) {
	w, err := d.base.GetWriter(p)
	if err != nil {
		return nil, err
	}
	if filepath.Base(p) == "root.bolt" {
		return w, nil // scorch requires the *os.File itself for the metadata store
	}
	return &faultWriter{w: w, d: d, path: p}, nil
}

func (w *faultWriter) Write(b []byte) (int, error) {
	n := w.d.writes.Add(1)
	if w.d.failAt > 0 && n == w.d.failAt {
		w.d.fired.Store(true)
		w.d.file.Store(w.path)
		half := len(b) / 2
		if half > 0 {
			_, _ = w.w.Write(b[:half])
		}
		return half, syscall.ENOSPC
	}
	return w.w.Write(b)
}

func (w *faultWriter) Close() error { return w.w.Close() }

func runFaultSweep(r *ev.Run, dir string, cfg cfgT, seed uint64) (runs, fired int) {
	g := rng.New(seed)
	base := filepath.Join(dir, fmt.Sprintf("fault-%s-%x", cfg.Name, seed))
	defer os.RemoveAll(base)
	kv := map[string]any{} // NewUsing writes the store path into the map it is given: never share it between indexes
	for k, v := range cfg.KV {
		kv[k] = v
	}
	idx, err := bleve.NewUsing(filepath.Join(base, "idx"), corpus.Mapping(), scorch.Name, scorch.Name, kv)
	if err != nil {
		r.Violation("fault/setup-error", err.Error(), nil)
		return
	}
	defer idx.Close()
	writers, ids, keys := genWriters(g.Derive("writers"), 1, g.Range(4, 9), g.Range(3, 7))
	model := corpus.NewLWW()
	for _, b := range writers[0] {
		if err := corpus.ApplyBatch(idx, b); err != nil {
			r.Violation("fault/batch-error", err.Error(), nil)
			return
		}
		model.Apply(b)
	}
	ci := idx.(bleve.IndexCopyable)
	one := func(k int64) (*faultDir, string, error) {
		dest := filepath.Join(base, fmt.Sprintf("copy-%d", k))
		_ = os.MkdirAll(dest, 0o755)
		fd := &faultDir{base: bleve.FileSystemDirectory(dest), failAt: k}
		return fd, dest, ci.CopyTo(fd)
	}
	fd, dest, err := one(0)
	if err != nil {
		r.Violation("gated/copy-error", "fault sweep: copy without a fault failed: "+err.Error(), map[string]any{"config": cfg.Name, "seed": seed})
		return
	}
	if d := verifyCopy(dest, model, ids, keys); d != "" {
		r.Violation("gated/copy-differs-from-state-at-start", "fault sweep: copy without a fault: "+d, map[string]any{"config": cfg.Name, "seed": seed})
		return
	}
	_ = os.RemoveAll(dest)
	W := fd.writes.Load()
	if W > 150 {
		W = 150
	}
	for k := int64(1); k <= W; k++ {
		fd, dest, err := one(k)
		runs++
		if fd.fired.Load() {
			fired++
			if err == nil {
				if d := verifyCopy(dest, model, ids, keys); d != "" {
					file, _ := fd.file.Load().(string)
					r.Violation("fault/destination-write-error-unreported",
						fmt.Sprintf("write %d of the backup (file %s) was cut short with ENOSPC, CopyTo returned nil, and the destination is not a copy: %s", k, file, d),
						map[string]any{"config": cfg.Name, "seed": seed, "failed_write": k, "file": file})
					return
				}
			}
		}
		_ = os.RemoveAll(dest)
	}
	r.Case(fmt.Sprintf("fault/%s/%x", cfg.Name, seed), fired > 0)
	return
}

var _ = sched.DefaultGates
