// Package c15 monitors property C15: every KV store adapter usable under the
// upsidedown index behaves as an ordered map with atomic batches, a merge
// operator and snapshot readers.
package c15

import (
	"encoding/json"
	"fmt"
	"hash/fnv"
	"os"
	"path/filepath"
	"sort"
	"strings"
	"sync"
	"time"

	"verifharness/ev"
)

func init() {
	ev.Register("C15", "exploration", run)
	ev.RegisterWorker(concWorkerName, concWorker)
}

// occurrence bookkeeping: one entry per (finding kind, configuration); the
// occurrence with the lowest order is the one that gets shrunk and written out.
type occ struct {
	cfg   Config
	name  string
	order int
	seq   *Seq
	f     Finding
	n     int
	extra any // witness of findings that do not come from a Seq (concurrent part)
}

type collector struct {
	mu sync.Mutex
	m  map[string]*occ
}

func (c *collector) add(cfg Config, name string, order int, seq *Seq, f Finding, extra any) {
	c.mu.Lock()
	defer c.mu.Unlock()
	key := f.Kind + "@" + cfg.Name
	o := c.m[key]
	if o == nil {
		c.m[key] = &occ{cfg: cfg, name: name, order: order, seq: seq, f: f, n: 1, extra: extra}
		return
	}
	o.n++
	if order < o.order {
		o.name, o.order, o.seq, o.f, o.extra = name, order, seq, f, extra
	}
}

type totals struct {
	mu sync.Mutex
	s  seqStats
}

func (t *totals) add(s seqStats) {
	t.mu.Lock()
	defer t.mu.Unlock()
	t.s.add(s)
}

func (a *seqStats) add(s seqStats) {
	a.batches += s.batches
	a.ops += s.ops
	a.merges += s.merges
	a.exBatches += s.exBatches
	a.readersKept += s.readersKept
	a.readersOutlived += s.readersOutlived
	a.gets += s.gets
	a.mgets += s.mgets
	a.mgetKeys += s.mgetKeys
	a.iters += s.iters
	a.iterActs += s.iterActs
	a.fulls += s.fulls
	a.seeks += s.seeks
	a.seeksBetween += s.seeksBetween
	a.seeksPastEnd += s.seeksPastEnd
	a.seeksBefore += s.seeksBefore
	a.staleChecks += s.staleChecks
	a.emptyValueNil += s.emptyValueNil
	a.absentNonNil += s.absentNonNil
	a.prefixFF += s.prefixFF
	a.settles += s.settles
	a.settled += s.settled
	a.entriesSeen += s.entriesSeen
	a.fullMerge += s.fullMerge
	a.partialMerge += s.partialMerge
}

func (t *totals) publish(r *ev.Run) {
	s := t.s
	for k, v := range map[string]int{
		"batches_executed": s.batches, "batch_ops": s.ops, "merge_ops": s.merges, "batches_via_NewBatchEx": s.exBatches,
		"readers_kept": s.readersKept, "readers_that_outlived_a_batch": s.readersOutlived,
		"checks_on_reader_older_than_last_batch": s.staleChecks,
		"gets":                                   s.gets, "multigets": s.mgets, "multiget_keys": s.mgetKeys, "iterators": s.iters, "iterator_moves": s.iterActs,
		"full_scans": s.fulls, "seeks": s.seeks, "seeks_landing_between_keys": s.seeksBetween, "seeks_past_last": s.seeksPastEnd,
		"seeks_before_first": s.seeksBefore, "settle_steps": s.settles, "settle_steps_that_found_moss_idle": s.settled, "prefix_iterators_ending_0xff": s.prefixFF, "iterator_positions_compared": s.entriesSeen,
		"observed_empty_value_returned_nil(not_judged)": s.emptyValueNil, "observed_absent_returned_non_nil(not_judged)": s.absentNonNil,
		"merge_operator_FullMerge_calls": int(s.fullMerge), "merge_operator_PartialMerge_calls": int(s.partialMerge),
	} {
		r.Count(k, v)
	}
}

func seqDigest(s *Seq) string {
	b, _ := json.Marshal(s)
	h := fnv.New64a()
	h.Write(b)
	return fmt.Sprintf("%016x", h.Sum64())
}

func headOf(s *Seq, n int) *Seq {
	c := cloneSeq(s)
	if len(c.Steps) > n {
		c.Steps = c.Steps[:n]
	}
	return c
}

func run(r *ev.Run) {
	r.Rule = "case = one op sequence (seeded; <=40 keys over {00,01,a,b,c,fe,ff} with shared prefixes and carry pairs x·c·ff / x·(c+1); " +
		"batches of set/delete/merge with no key written twice, readers opened at seeded points and kept, get, multi-get, prefix and " +
		"range iterators with Next and forward Seek) executed on one store configuration (boltdb, goleveldb, gtreap, moss, moss over " +
		"mossStore/boltdb/goleveldb/gtreap, metrics over each), or one reader round of the concurrent part; non-trivial iff a reader that " +
		"had outlived >=1 batch was checked and >=1 Seek landed between two keys of the iterated range; distinct by (configuration, sequence)"
	r.Assumptions = []string{
		"the same key is never written twice inside one batch (not even merged twice): intra-batch order is not defined by the KVBatch contract and upsidedown never does it",
		"Seek is only issued forward (or as the first movement of an iterator); Next is not called on an exhausted iterator",
		"Get results are compared modulo nil/empty; presence is judged by iteration; an empty non-nil range end and the empty key as a written key are not generated",
		"boltdb is opened with nosync and an 8 MiB initial mmap (a sequence writes < 1 MiB) so that a writer never waits for this goroutine's own open read transactions",
		"the merge operator is the harness's total uint64-add; a failing merge operator is not exercised; with one merge per key per batch PartialMerge is only reached if the engine itself combines operands",
		"the settle step uses the goleveldb adapter's Compact() to force sorted table files; Compact() also deletes rows 'd…'={0} by design, so no written key starts with 'd'",
		"concurrent part: each reader's content must equal the model after exactly i batches for some i between the batches acknowledged before and started after Reader() returned",
	}
	if r.ReplayPath != "" {
		replay(r)
		return
	}
	cfgs := allConfigs()
	tmp := r.TempDir()
	col := &collector{m: map[string]*occ{}}
	tot := &totals{}

	// concurrent part first: its children (race binary) run while the sequences execute
	waitConc := startConc(r, cfgs, col, tot)

	var tmu sync.Mutex
	timing := map[string]float64{} // diagnostics only
	runOne := func(cfg Config, name string, order int, seq *Seq, dir string, sample bool) {
		r.Journal(map[string]any{"config": cfg.Name, "case": name})
		t0 := time.Now()
		fs, st := runSeq(cfg, seq, dir)
		el := time.Since(t0)
		tmu.Lock()
		timing[cfg.Name] += el.Seconds()
		tmu.Unlock()
		tot.add(st)
		nt := st.nontrivial()
		r.Case(cfg.Name+"|"+name+"|"+seqDigest(seq), nt)
		r.Count("executions/"+cfg.Name, 1)
		if nt {
			r.Count("nontrivial/"+cfg.Name, 1)
		}
		if sample && nt {
			r.Sample(map[string]any{"config": cfg.Name, "case": name, "steps_total": len(seq.Steps), "first_steps": headOf(seq, 3).Steps,
				"batches": st.batches, "stale_reader_checks": st.staleChecks, "seeks_between_keys": st.seeksBetween, "findings": len(fs)})
		}
		for _, f := range fs {
			col.add(cfg, name, order, seq, f, nil)
		}
	}

	phase := map[string]float64{} // diagnostics only
	tPhase := time.Now()
	mark := func(name string) { phase[name] = time.Since(tPhase).Seconds(); tPhase = time.Now() }
	// 1. regression witnesses and exhaustive sweeps (seed independent)
	fixed := append(regressionSeqs(), sweepSeqs()...)
	{
		var wg sync.WaitGroup
		for ci, cfg := range cfgs {
			wg.Add(1)
			go func(ci int, cfg Config) {
				defer wg.Done()
				for i, ns := range fixed {
					order := -1000 + i // regression witnesses are the preferred (smallest) witnesses
					if len(ns.seq.Steps) > 100 {
						order = 1<<20 + i // sweeps the last resort
					}
					runOne(cfg, ns.name, order, ns.seq, filepath.Join(tmp, fmt.Sprintf("fixed%d", ci)), false)
				}
			}(ci, cfg)
		}
		wg.Wait()
	}

	mark("fixed_cases")
	// 2. seeded sequences, each executed on every configuration
	nSeq := r.Scale(1200, 20000)
	if v := os.Getenv("C15_NSEQ"); v != "" { // reduced-size trial runs only
		fmt.Sscan(v, &nSeq)
	}
	workers := 16
	ch := make(chan int, 64)
	var wg sync.WaitGroup
	for w := 0; w < workers; w++ {
		wg.Add(1)
		go func(w int) {
			defer wg.Done()
			dir := filepath.Join(tmp, fmt.Sprintf("w%d", w))
			for i := range ch {
				seq := genSeq(r.Rng(fmt.Sprintf("seq/%d", i)))
				for _, cfg := range cfgs {
					runOne(cfg, fmt.Sprintf("seq%d", i), i, seq, dir, i < 8 && cfg.Name == cfgs[(i*5)%len(cfgs)].Name)
				}
			}
		}(w)
	}
	for i := 0; i < nSeq; i++ {
		ch <- i
	}
	close(ch)
	wg.Wait()
	r.Extra("summed_wall_seconds_per_configuration(diagnostic)", timing)
	r.Extra("sequences", nSeq)
	r.Extra("configurations", len(cfgs))

	mark("sequences")
	observeUnjudged(r, cfgs, filepath.Join(tmp, "observe"))
	waitConc()
	mark("waiting_for_concurrent_children")
	tot.publish(r)

	// 3. shrink and report, plain stores first so that their witness is the one kept per class
	cfgIdx := map[string]int{}
	for i, c := range cfgs {
		cfgIdx[c.Name] = i
	}
	var keys []string
	for k := range col.m {
		keys = append(keys, k)
	}
	sort.Slice(keys, func(i, j int) bool {
		a, b := col.m[keys[i]], col.m[keys[j]]
		if cfgIdx[a.cfg.Name] != cfgIdx[b.cfg.Name] {
			return cfgIdx[a.cfg.Name] < cfgIdx[b.cfg.Name]
		}
		return a.f.Kind < b.f.Kind
	})
	for n, k := range keys {
		o := col.m[k]
		reportOcc(r, o, filepath.Join(tmp, fmt.Sprintf("shrink%d", n)))
	}

	mark("shrinking")
	r.Extra("wall_seconds_per_phase(diagnostic)", phase)
	r.MinDistinct = r.Scale(6000, 80000)
	if os.Getenv("C15_NSEQ") != "" {
		r.MinDistinct = 2
	}
}

var reportedClasses = map[string]bool{}

func reportOcc(r *ev.Run, o *occ, dir string) {
	if strings.HasPrefix(o.f.Kind, "harness/") {
		r.Inconclusive(o.f.Kind + ": " + o.f.Summary)
		return
	}
	family := o.cfg.Name
	wit := map[string]any{"config": o.cfg.Name, "case": o.name, "occurrences": o.n, "finding": o.f}
	f := o.f
	if o.seq != nil {
		seq, sf, runs := shrinkSeq(o.cfg, o.seq, o.f.Kind, dir, 300)
		wit["shrink_runs"] = runs
		if sf != nil {
			f = *sf
			wit["finding"] = f
			// attribute to the plain adapter if the shrunk sequence fails there in the same way
			if base, ok := configByName(o.cfg.Family); ok && base.Name != o.cfg.Name {
				if reproduces(base, seq, f.Kind, filepath.Join(dir, "base"), 5) {
					family = base.Name
					wit["also_fails_on"] = base.Name
				}
			}
		} else {
			wit["not_reproduced_in_isolation"] = true
		}
		wit["seq"] = seq
	} else {
		wit["concurrent"] = o.extra
		if strings.HasPrefix(f.Kind, "race/") {
			family = o.cfg.Family // the frames in the class already name the adapter
		}
		// a read-check finding of the concurrent part that the sequences already attributed to the plain adapter
		if reportedClasses[f.Kind+"@"+o.cfg.Family] {
			family = o.cfg.Family
		}
	}
	class := f.Kind + "@" + family
	reportedClasses[class] = true
	for i := 0; i < o.n; i++ {
		r.Violation(class, fmt.Sprintf("[%s] %s", o.cfg.Name, f.Summary), wit)
	}
}

// replay re-executes the sequence of a witness file written by this monitor.
func replay(r *ev.Run) {
	b, err := os.ReadFile(r.ReplayPath)
	if err != nil {
		r.Inconclusive("replay: " + err.Error())
		return
	}
	var doc struct {
		Class   string `json:"class"`
		Witness struct {
			Config  string  `json:"config"`
			Seq     *Seq    `json:"seq"`
			Finding Finding `json:"finding"`
		} `json:"witness"`
	}
	if err := json.Unmarshal(b, &doc); err != nil || doc.Witness.Seq == nil {
		r.Inconclusive(fmt.Sprintf("replay: no sequence in %s (%v)", r.ReplayPath, err))
		return
	}
	cfg, ok := configByName(doc.Witness.Config)
	if !ok {
		r.Inconclusive("replay: unknown configuration " + doc.Witness.Config)
		return
	}
	fs, st := runSeq(cfg, doc.Witness.Seq, filepath.Join(r.TempDir(), "replay"))
	r.Case("replay|"+seqDigest(doc.Witness.Seq), st.nontrivial())
	if len(fs) == 0 {
		fmt.Printf("replay: %s no longer fails on %s\n", doc.Class, cfg.Name)
	}
	for _, f := range fs {
		cl := f.Kind + "@" + cfg.Family
		if doc.Class != "" && f.Kind == doc.Witness.Finding.Kind {
			cl = doc.Class
		}
		r.Violation(cl, fmt.Sprintf("[%s] %s", cfg.Name, f.Summary), map[string]any{"config": cfg.Name, "seq": doc.Witness.Seq, "finding": f})
	}
}
