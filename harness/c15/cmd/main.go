package main

import (
	_ "verifharness/c15"
	"verifharness/ev"
)

func main() { ev.Main() }
