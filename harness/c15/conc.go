package c15

// Concurrent part. A child process (the -race build when ./check provides one)
// runs, per store configuration, one writer goroutine applying pre-generated
// batches in order and several reader goroutines that open readers while the
// writer is running, identify which batch boundary the reader froze at, read
// through it while more batches are applied, and re-check it afterwards.
// The parent merges the child's results and classifies race-detector reports.

import (
	"encoding/json"
	"fmt"
	"os"
	"os/exec"
	"path/filepath"
	"regexp"
	"runtime"
	"sort"
	"strconv"
	"strings"
	"sync"
	"sync/atomic"
	"time"

	store "github.com/blevesearch/upsidedown_store_api"

	"verifharness/ev"
	"verifharness/rng"
)

const concWorkerName = "c15-conc"

const (
	concReaders = 4
	concStride  = 4 // a reader round starts every concStride batches
	concHold    = 3 // and holds its reader across concHold further batches
)

type concCase struct {
	Key string `json:"key"`
	NT  bool   `json:"nt"`
}

type concFinding struct {
	Finding
	Round    int    `json:"round"`
	Reader   int    `json:"reader"`
	Snapshot string `json:"snapshot,omitempty"`
	Step     *Step  `json:"step,omitempty"`
}

type concResult struct {
	Config   string         `json:"config"`
	Race     bool           `json:"race_build"`
	Batches  int            `json:"batches"`
	Cases    []concCase     `json:"cases"`
	Findings []concFinding  `json:"findings"`
	Counters map[string]int `json:"counters"`
	Stats    map[string]int `json:"stats"`
	Err      string         `json:"err,omitempty"`
}

// concWorker: <bin> c15-conc <config> <seed> <batches> <dir> <out.json>
func concWorker(args []string) {
	if len(args) < 5 {
		fmt.Fprintln(os.Stderr, "usage: c15-conc config seed batches dir out")
		os.Exit(2)
	}
	cfg, ok := configByName(args[0])
	seed, _ := strconv.ParseUint(args[1], 10, 64)
	nB, _ := strconv.Atoi(args[2])
	dir, out := args[3], args[4]
	res := &concResult{Config: args[0], Race: raceEnabled, Batches: nB, Counters: map[string]int{}}
	if !ok {
		res.Err = "unknown configuration"
	} else {
		concRun(cfg, seed, nB, dir, res)
	}
	b, _ := json.Marshal(res)
	if err := os.WriteFile(out+".tmp", b, 0o644); err == nil {
		_ = os.Rename(out+".tmp", out)
	}
}

func waitFor(cond func() bool, abort *atomic.Bool) bool {
	t0 := time.Now() // watchdog only: never part of a verdict
	for i := 0; !cond(); i++ {
		if abort.Load() {
			return false
		}
		if i%64 == 63 {
			time.Sleep(20 * time.Microsecond)
			if time.Since(t0) > 120*time.Second {
				abort.Store(true)
				return false
			}
		} else {
			runtime.Gosched()
		}
	}
	return true
}

func concRun(cfg Config, seed uint64, nB int, dir string, res *concResult) {
	g := rng.New(seed).Derive("C15").Derive("conc/" + cfg.Name)
	x := &gen{g: g.Derive("batches")}
	x.makeUniverse()
	// batches: seeded ops plus three marker keys set to the batch number and one counter merged
	// by +1, so a torn or re-ordered batch cannot look like a batch boundary
	batches := make([][]Op, nB)
	states := make([]state, nB+1)
	m := newModel()
	states[0] = m.snapshot()
	for i := range batches {
		ops := x.batch()
		ops = append(ops, Op{O: "set", K: B("~m1"), V: B(encU(uint64(i + 1)))}, Op{O: "set", K: B("~m2"), V: B(encU(uint64(i + 1)))},
			Op{O: "set", K: B("~~"), V: B(encU(uint64(i + 1)))}, Op{O: "merge", K: B("~cnt"), V: B(encU(1))})
		if i%7 == 3 {
			ops = append(ops, Op{O: "del", K: B("~m0")})
		} else {
			ops = append(ops, Op{O: "set", K: B("~m0"), V: B(encU(uint64(i + 1)))})
		}
		batches[i] = ops
		m.apply(ops)
		states[i+1] = m.snapshot()
	}
	_ = os.RemoveAll(dir)
	_ = os.MkdirAll(dir, 0o755)
	defer os.RemoveAll(dir)
	mo := &addMerge{partialOK: g.Derive("mo").Chance(2, 3)}
	s, err := openStore(cfg, dir, mo)
	if err != nil {
		res.Err = "open: " + err.Error()
		return
	}
	var started, done atomic.Int64
	var opened [concReaders]atomic.Int64
	var abort atomic.Bool
	var mu sync.Mutex
	tot := seqStats{}
	addF := func(round, reader int, kind, summary, o, e, snap string, st *Step) {
		mu.Lock()
		defer mu.Unlock()
		if len(res.Findings) < 200 {
			res.Findings = append(res.Findings, concFinding{Finding: Finding{Kind: kind, Summary: summary, Config: cfg.Name, Observed: o, Expected: e},
				Round: round, Reader: reader, Snapshot: snap, Step: st})
		}
		res.Counters["findings"]++
	}
	minOpened := func() int64 {
		v := opened[0].Load()
		for j := 1; j < concReaders; j++ {
			if w := opened[j].Load(); w < v {
				v = w
			}
		}
		return v
	}
	var wg sync.WaitGroup
	// writer
	wg.Add(1)
	go func() {
		defer wg.Done()
		ctx := &execCtx{cfg: cfg, live: newModel()}
		for i := 0; i < nB; i++ {
			// flow control (steering, not oracle): never run more than one round ahead of the slowest reader
			if !waitFor(func() bool { return int64(i) < minOpened()*concStride+concHold }, &abort) {
				return
			}
			started.Store(int64(i + 1))
			ctx.execBatch(s, i, &Step{Kind: "batch", Ops: batches[i], Ex: i%3 == 1})
			if ctx.fatal || len(ctx.findings) > 0 {
				for _, f := range ctx.findings {
					addF(-1, -1, f.Kind, fmt.Sprintf("batch %d: %s", i, f.Summary), f.Observed, f.Expected, "", nil)
				}
				abort.Store(true)
				return
			}
			done.Store(int64(i + 1))
		}
		mu.Lock()
		tot.add(ctx.st)
		mu.Unlock()
	}()
	rounds := nB / concStride
	runiverse := append(append([][]byte{}, x.universe...), []byte("~m0"), []byte("~m1"), []byte("~m2"), []byte("~cnt"), []byte("~~"))
	for j := 0; j < concReaders; j++ {
		wg.Add(1)
		go func(j int) {
			defer wg.Done()
			rx := &gen{g: g.Derive(fmt.Sprintf("reader/%d", j)), universe: runiverse, counters: x.counters}
			ss := seqStats{}
			for k := 0; k < rounds; k++ {
				if !waitFor(func() bool { return done.Load() >= int64(k*concStride) }, &abort) {
					return
				}
				lo := done.Load()
				kv, err := s.Reader()
				hi := started.Load()
				opened[j].Store(int64(k + 1))
				if err != nil || kv == nil {
					addF(k, j, "error/store.Reader", fmt.Sprintf("Reader(): %v", err), fmt.Sprint(err), "a reader", "", nil)
					abort.Store(true)
					return
				}
				before := ss
				concRound(kv, states, int(lo), int(hi), k, j, rx, &ss, &done, &abort, nB, func(kind, summary, o, e, snap string, st *Step) {
					addF(k, j, kind, summary, o, e, snap, st)
				})
				if err := kv.Close(); err != nil {
					addF(k, j, "error/reader.Close", err.Error(), err.Error(), "nil", "", nil)
				}
				nt := ss.staleChecks > before.staleChecks && ss.seeksBetween > before.seeksBetween
				mu.Lock()
				res.Cases = append(res.Cases, concCase{Key: fmt.Sprintf("conc|%s|reader%d|round%d", cfg.Name, j, k), NT: nt})
				mu.Unlock()
			}
			mu.Lock()
			tot.add(ss)
			mu.Unlock()
		}(j)
	}
	wg.Wait()
	if abort.Load() && res.Counters["findings"] == 0 {
		res.Err = "aborted: a goroutine waited more than 120 s"
	}
	if err := s.Close(); err != nil {
		addF(-1, -1, "error/store.Close", err.Error(), err.Error(), "nil", "", nil)
	}
	tot.fullMerge, tot.partialMerge = mo.full.Load(), mo.partial.Load()
	res.Stats = statsJSON(tot)
	sort.Slice(res.Cases, func(a, b int) bool { return res.Cases[a].Key < res.Cases[b].Key })
}

func statsJSON(s seqStats) map[string]int {
	return map[string]int{"batches": s.batches, "ops": s.ops, "merges": s.merges, "exBatches": s.exBatches, "gets": s.gets, "mgets": s.mgets,
		"mgetKeys": s.mgetKeys, "iters": s.iters, "iterActs": s.iterActs, "fulls": s.fulls, "seeks": s.seeks, "seeksBetween": s.seeksBetween,
		"seeksPastEnd": s.seeksPastEnd, "seeksBefore": s.seeksBefore, "staleChecks": s.staleChecks, "emptyValueNil": s.emptyValueNil,
		"absentNonNil": s.absentNonNil, "prefixFF": s.prefixFF, "settles": s.settles, "settled": s.settled, "entriesSeen": s.entriesSeen, "fullMerge": int(s.fullMerge), "partialMerge": int(s.partialMerge)}
}

func statsFromMap(m map[string]int) seqStats {
	return seqStats{batches: m["batches"], ops: m["ops"], merges: m["merges"], exBatches: m["exBatches"], gets: m["gets"], mgets: m["mgets"],
		mgetKeys: m["mgetKeys"], iters: m["iters"], iterActs: m["iterActs"], fulls: m["fulls"], seeks: m["seeks"], seeksBetween: m["seeksBetween"],
		seeksPastEnd: m["seeksPastEnd"], seeksBefore: m["seeksBefore"], staleChecks: m["staleChecks"], emptyValueNil: m["emptyValueNil"],
		absentNonNil: m["absentNonNil"], prefixFF: m["prefixFF"], settles: m["settles"], settled: m["settled"], entriesSeen: m["entriesSeen"], fullMerge: int64(m["fullMerge"]), partialMerge: int64(m["partialMerge"])}
}

// scanAll reads the whole store through RangeIterator(nil,nil).
func scanAll(kv store.KVReader, limit int) (state, string) {
	var out state
	var note string
	p, val, _ := ev.Guard(func() {
		it := kv.RangeIterator(nil, nil)
		if it == nil {
			note = "RangeIterator returned nil"
			return
		}
		defer it.Close()
		for n := 0; it.Valid() && n < limit; n++ {
			out = append(out, entry{string(it.Key()), append([]byte{}, it.Value()...)})
			it.Next()
		}
	})
	if p {
		note = fmt.Sprintf("panic: %v", val)
	}
	return out, note
}

func concRound(kv store.KVReader, states []state, lo, hi, round, reader int, rx *gen, ss *seqStats, done *atomic.Int64, abort *atomic.Bool, nB int,
	report func(kind, summary, o, e, snap string, st *Step)) {
	seen, note := scanAll(kv, 10000)
	if note != "" {
		report("conc/scan-failed", note, note, "a scan", "", nil)
		return
	}
	idx := -1
	for c := lo; c <= hi && c < len(states); c++ {
		if states[c].equal(seen) {
			idx = c
			break
		}
	}
	if idx < 0 {
		where := "no batch boundary at all (torn batch?)"
		kind := "conc/reader-content-is-no-batch-boundary"
		for c := range states {
			if states[c].equal(seen) {
				if c < lo {
					where = fmt.Sprintf("the state after %d batches, older than the %d acknowledged before Reader() was called", c, lo)
					kind = "conc/reader-misses-acknowledged-batch"
				} else {
					where = fmt.Sprintf("the state after %d batches, but only %d had been started when Reader() returned", c, hi)
					kind = "conc/reader-sees-batch-started-after-it"
				}
				break
			}
		}
		report(kind, fmt.Sprintf("reader opened with %d batches acknowledged and %d started shows %s: %s", lo, hi, where, seen), seen.String(),
			fmt.Sprintf("states[%d..%d], e.g. %s", lo, hi, states[lo]), seen.String(), nil)
		return
	}
	snap := states[idx]
	check := func(n int) {
		for c := 0; c < n; c++ {
			var st Step
			switch r := rx.g.Intn(10); {
			case r < 2:
				st = Step{Kind: "get", Keys: []B{B(rx.probeKey())}}
			case r < 3:
				st = Step{Kind: "mget", Keys: []B{B(rx.probeKey()), B(rx.probeKey()), B(rx.probeKey())}}
			case r < 6:
				p := rx.prefixKey()
				st = Step{Kind: "prefix", A: B(p), Acts: rx.iterActs(snap.prefixOf(p), snap)}
			case r < 9:
				a, b := rx.probeKey(), rx.probeKey()
				if len(b) == 0 || rx.g.Chance(1, 6) {
					b = nil
				}
				if rx.g.Chance(1, 6) {
					a = nil
				}
				if a != nil && b != nil && string(a) > string(b) {
					a, b = b, a
				}
				st = Step{Kind: "range", A: B(a), Bd: B(b), Acts: rx.iterActs(snap.rangeOf(a, b), snap)}
			default:
				st = Step{Kind: "full"}
			}
			if int(done.Load()) > idx {
				ss.staleChecks++
			}
			stc := st
			checkRead(kv, snap, nil, &st, ss, func(kind, summary, o, e string) { report(kind, summary, o, e, snap.String(), &stc) })
		}
	}
	check(4)
	// hold the reader while the writer applies more batches
	target := int64(round*concStride + concHold)
	if target > int64(nB) {
		target = int64(nB)
	}
	if !waitFor(func() bool { return done.Load() >= target }, abort) {
		return
	}
	check(6)
	again, note := scanAll(kv, 10000)
	if note != "" {
		report("conc/scan-failed", note, note, "a scan", "", nil)
		return
	}
	if int(done.Load()) > idx {
		ss.staleChecks++
	}
	if !snap.equal(again) {
		kind := "conc/reader-content-changed"
		for c := idx + 1; c < len(states); c++ {
			if states[c].equal(again) {
				kind = "conc/reader-content-changed/sees-later-write"
				break
			}
		}
		report(kind, fmt.Sprintf("a reader that showed the state after %d batches shows, %d batches later, %s instead of %s", idx, int(done.Load())-idx, again, snap),
			again.String(), snap.String(), snap.String(), nil)
	}
}

// ---------------------------------------------------------------------------
// parent side

type raceReport struct {
	frames [2]string // first bleve frame of each of the two accesses ("-" if none)
	tops   [2]string // top frame of each access
	text   string
}

var raceFuncLine = regexp.MustCompile(`^  (\S.*)\(.*\)$`)

func shortFn(fn string) string {
	fn = strings.TrimPrefix(fn, "github.com/blevesearch/bleve/v2/index/upsidedown/store/")
	fn = strings.TrimPrefix(fn, "github.com/blevesearch/bleve/v2/")
	return fn
}

func parseRaces(text string) []raceReport {
	var out []raceReport
	for _, blk := range strings.Split(text, "==================") {
		if !strings.Contains(blk, "WARNING: DATA RACE") {
			continue
		}
		rr := raceReport{frames: [2]string{"-", "-"}, tops: [2]string{"-", "-"}, text: blk}
		acc := -1
		inAccess := false
		for _, l := range strings.Split(blk, "\n") {
			if l == "" {
				inAccess = false
				continue
			}
			if !strings.HasPrefix(l, " ") {
				// section header
				low := strings.ToLower(l)
				if (strings.Contains(low, "read at") || strings.Contains(low, "write at")) && strings.Contains(low, "by ") {
					acc++
					inAccess = acc < 2
				} else {
					inAccess = false
				}
				continue
			}
			if !inAccess {
				continue
			}
			m := raceFuncLine.FindStringSubmatch(l)
			if m == nil {
				continue
			}
			fn := m[1]
			if rr.tops[acc] == "-" {
				rr.tops[acc] = shortFn(fn)
			}
			if rr.frames[acc] == "-" && strings.HasPrefix(fn, "github.com/blevesearch/bleve/v2/") {
				rr.frames[acc] = shortFn(fn)
			}
		}
		out = append(out, rr)
	}
	return out
}

func concBatches(r *ev.Run) int {
	n := r.Scale(120, 2400)
	if v := os.Getenv("C15_CONC_BATCHES"); v != "" {
		fmt.Sscan(v, &n)
	}
	return n
}

// startConc launches one child per configuration and returns a function that
// waits for them and accounts for their results.
func startConc(r *ev.Run, cfgs []Config, col *collector, tot *totals) func() {
	bin := os.Getenv("VCHECK_RACE")
	race := bin != ""
	if !race {
		bin = os.Getenv("VCHECK_PLAIN")
		if bin == "" {
			bin = os.Args[0]
		}
	}
	nB := concBatches(r)
	tmp := r.TempDir()
	type childOut struct {
		cfg      Config
		res      *concResult
		stderr   string
		raceText string
		err      error
		timedOut bool
	}
	outs := make([]*childOut, len(cfgs))
	sem := make(chan struct{}, 12)
	var wg sync.WaitGroup
	for i, cfg := range cfgs {
		wg.Add(1)
		go func(i int, cfg Config) {
			defer wg.Done()
			sem <- struct{}{}
			defer func() { <-sem }()
			co := &childOut{cfg: cfg}
			outs[i] = co
			base := filepath.Join(tmp, fmt.Sprintf("conc%d", i))
			_ = os.MkdirAll(base, 0o755)
			outPath := filepath.Join(base, "out.json")
			errPath := filepath.Join(base, "stderr")
			ef, _ := os.Create(errPath)
			cmd := exec.Command(bin, concWorkerName, cfg.Name, strconv.FormatInt(r.Seed, 10), strconv.Itoa(nB), filepath.Join(base, "store"), outPath)
			cmd.Env = append(os.Environ(), "GORACE=log_path="+filepath.Join(base, "race")+" halt_on_error=0 exitcode=0", "GOTRACEBACK=all")
			cmd.Stdout = ef
			cmd.Stderr = ef
			if err := cmd.Start(); err != nil {
				co.err = err
				return
			}
			doneCh := make(chan error, 1)
			go func() { doneCh <- cmd.Wait() }()
			limit := 10 * time.Minute // watchdog only
			if r.Thorough() {
				limit = 60 * time.Minute
			}
			select {
			case co.err = <-doneCh:
			case <-time.After(limit):
				co.timedOut = true
				_ = cmd.Process.Kill()
				<-doneCh
			}
			ef.Close()
			if b, err := os.ReadFile(errPath); err == nil {
				co.stderr = string(b)
			}
			files, _ := filepath.Glob(filepath.Join(base, "race.*"))
			for _, f := range files {
				if b, err := os.ReadFile(f); err == nil {
					co.raceText += string(b)
				}
			}
			if b, err := os.ReadFile(outPath); err == nil {
				var res concResult
				if json.Unmarshal(b, &res) == nil {
					co.res = &res
				}
			}
		}(i, cfg)
	}
	return func() {
		wg.Wait()
		r.Extra("concurrent_part_race_build", race)
		r.Extra("concurrent_batches_per_configuration", nB)
		races, racesOutside := 0, map[string]int{}
		for _, co := range outs {
			if co == nil {
				continue
			}
			cfg := co.cfg
			if co.timedOut {
				r.Inconclusive("concurrent child timed out on " + cfg.Name)
				continue
			}
			if co.res == nil {
				tail := co.stderr
				if len(tail) > 6000 {
					tail = tail[len(tail)-6000:]
				}
				col.add(cfg, "concurrent", 1<<30, nil, Finding{Kind: "conc/child-died", Summary: fmt.Sprintf("the concurrent worker died (%v)", co.err), Config: cfg.Name},
					map[string]any{"stderr_tail": tail})
				continue
			}
			res := co.res
			if res.Err != "" {
				r.Inconclusive("concurrent worker on " + cfg.Name + ": " + res.Err)
			}
			for _, c := range res.Cases {
				r.Case(c.Key, c.NT)
			}
			r.Count("concurrent_reader_rounds/"+cfg.Name, len(res.Cases))
			tot.add(statsFromMap(res.Stats))
			for i, f := range res.Findings {
				col.add(cfg, "concurrent", 1<<29+i, nil, f.Finding, map[string]any{"round": f.Round, "reader": f.Reader, "snapshot": f.Snapshot, "step": f.Step,
					"batches": res.Batches, "seed": r.Seed})
			}
			for _, rr := range parseRaces(co.stderr + co.raceText) {
				races++
				fr := []string{rr.frames[0], rr.frames[1]}
				if fr[0] == "-" && fr[1] == "-" {
					tops := []string{rr.tops[0], rr.tops[1]}
					sort.Strings(tops)
					key := strings.Join(tops, " | ")
					if strings.HasPrefix(tops[0], "verifharness/") || strings.HasPrefix(tops[1], "verifharness/") {
						r.Inconclusive("race report inside the harness itself: " + key)
						fmt.Println("C15: race in harness code:\n" + rr.text)
						continue
					}
					racesOutside[cfg.Name+": "+key]++
					continue
				}
				sort.Strings(fr)
				text := rr.text
				if len(text) > 8000 {
					text = text[:8000]
				}
				col.add(cfg, "concurrent", 1<<28, nil, Finding{Kind: "race/" + fr[0] + "|" + fr[1],
					Summary: "the race detector reports a data race between " + fr[0] + " and " + fr[1], Config: cfg.Name},
					map[string]any{"race_report": text})
			}
		}
		r.Count("race_reports", races)
		if len(racesOutside) > 0 {
			r.Extra("race_reports_without_adapter_frames(not_judged)", racesOutside)
		}
	}
}
