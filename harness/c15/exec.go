package c15

// Executor: drives one store configuration through a Seq and compares every
// observation with the model. It never consults a PRNG.

import (
	"bytes"
	"fmt"
	"os"
	"path/filepath"
	"strings"
	"time"

	"github.com/blevesearch/bleve/v2/registry"
	store "github.com/blevesearch/upsidedown_store_api"
	"github.com/couchbase/moss"

	_ "github.com/blevesearch/bleve/v2/index/upsidedown/store/boltdb"
	ldbstore "github.com/blevesearch/bleve/v2/index/upsidedown/store/goleveldb"
	_ "github.com/blevesearch/bleve/v2/index/upsidedown/store/gtreap"
	_ "github.com/blevesearch/bleve/v2/index/upsidedown/store/metrics"
	_ "github.com/blevesearch/bleve/v2/index/upsidedown/store/moss"

	"verifharness/ev"
)

// Config is one way of opening a store through the registry, as upsidedown does.
type Config struct {
	Name   string // e.g. "metrics(boltdb)", "moss+ll:goleveldb"
	Family string // adapter the finding is attributed to when the plain store fails too
	Reg    string // registry name
	mk     func(dir string) map[string]interface{}
}

func baseCfg(name, dir string) map[string]interface{} {
	switch name {
	case "boltdb":
		// guard (ii) of the design: an initial mmap (8 MiB) far above what a sequence can write, so that a committing writer never has
		// to re-map while this goroutine still holds read transactions (bbolt would block).
		return map[string]interface{}{"path": filepath.Join(dir, "bolt.db"), "nosync": true, "initialMmapSize": 8 << 20}
	case "goleveldb":
		// a 4 KiB write buffer instead of the 4 MiB default: cheap to open, and longer histories
		// get flushed to table files, so iterators merge memdb and tables
		return map[string]interface{}{"path": filepath.Join(dir, "ldb"), "create_if_missing": true, "write_buffer_size": float64(4 << 10)}
	case "gtreap":
		return map[string]interface{}{"path": ""}
	case "moss":
		return map[string]interface{}{}
	}
	panic("unknown store " + name)
}

func allConfigs() []Config {
	var out []Config
	for _, n := range []string{"boltdb", "goleveldb", "gtreap", "moss"} {
		n := n
		out = append(out, Config{Name: n, Family: n, Reg: n, mk: func(d string) map[string]interface{} { return baseCfg(n, d) }})
	}
	out = append(out, Config{Name: "moss+mossStore", Family: "moss", Reg: "moss", mk: func(d string) map[string]interface{} {
		return map[string]interface{}{"mossLowerLevelStoreName": "mossStore", "path": filepath.Join(d, "mossstore")}
	}})
	for _, n := range []string{"boltdb", "goleveldb", "gtreap"} {
		n := n
		out = append(out, Config{Name: "moss+ll:" + n, Family: "moss", Reg: "moss", mk: func(d string) map[string]interface{} {
			c := baseCfg(n, d)
			c["mossLowerLevelStoreName"] = n
			return c
		}})
	}
	for _, n := range []string{"boltdb", "goleveldb", "gtreap", "moss"} {
		n := n
		out = append(out, Config{Name: "metrics(" + n + ")", Family: n, Reg: "metrics", mk: func(d string) map[string]interface{} {
			c := baseCfg(n, d)
			c["kvStoreName_actual"] = n
			return c
		}})
	}
	return out
}

func configByName(name string) (Config, bool) {
	for _, c := range allConfigs() {
		if c.Name == name {
			return c, true
		}
	}
	return Config{}, false
}

func openStore(c Config, dir string, mo store.MergeOperator) (store.KVStore, error) {
	ctor := registry.KVStoreConstructorByName(c.Reg)
	if ctor == nil {
		return nil, fmt.Errorf("no constructor %q in registry", c.Reg)
	}
	return ctor(mo, c.mk(dir))
}

// ---------------------------------------------------------------------------

// obs is one observation: an iterator position, or one Get result.
type obs struct {
	valid bool
	k, v  []byte
	note  string // inconsistency between Valid/Key/Value and Current
}

func sameVal(a, b []byte) bool { return bytes.Equal(a, b) } // nil == empty (design: modulo nil/empty)

// Finding is one disagreement between a store and the model.
type Finding struct {
	Step     int    `json:"step"`
	Kind     string `json:"kind"` // class without the @family suffix
	Summary  string `json:"summary"`
	Config   string `json:"config"`
	Observed string `json:"observed,omitempty"`
	Expected string `json:"expected,omitempty"`
}

type seqStats struct {
	batches, ops, merges, exBatches                int
	readersKept, readersOutlived                   int
	gets, mgets, mgetKeys, iters, iterActs, fulls  int
	seeks, seeksBetween, seeksPastEnd, seeksBefore int
	staleChecks                                    int // checks on a reader that had outlived >= 1 batch
	emptyValueNil                                  int // present-with-empty-value returned as nil (observed, not judged)
	absentNonNil                                   int // absent key returned as non-nil empty (observed, not judged)
	settles, settled                               int // settle steps / those that found moss quiescent
	prefixFF                                       int // prefix iterators whose prefix ends in 0xff
	entriesSeen                                    int
	fullMerge, partialMerge                        int64
}

func (s *seqStats) nontrivial() bool { return s.staleChecks > 0 && s.seeksBetween > 0 }

type rdr struct {
	kv       store.KVReader
	snap     state
	outlived int // batches executed since it was opened
}

type execCtx struct {
	cfg      Config
	seq      *Seq
	live     *kvModel
	findings []Finding
	st       seqStats
	fatal    bool
}

func (x *execCtx) add(step int, kind, summary, observed, expected string) {
	x.findings = append(x.findings, Finding{Step: step, Kind: kind, Summary: summary, Config: x.cfg.Name, Observed: observed, Expected: expected})
}

// panicFrame is the innermost frame of a panic stack that is neither runtime nor harness code.
func panicFrame(stack string) string {
	lines := strings.Split(stack, "\n")
	seenPanic := false
	for _, l := range lines {
		if strings.HasPrefix(l, "panic(") {
			seenPanic = true
			continue
		}
		if !seenPanic || strings.HasPrefix(l, "\t") || l == "" {
			continue
		}
		fn := l
		if i := strings.LastIndex(fn, "("); i > 0 {
			fn = fn[:i]
		}
		if strings.HasPrefix(fn, "runtime.") || strings.HasPrefix(fn, "runtime/") {
			continue
		}
		fn = strings.TrimPrefix(fn, "github.com/blevesearch/bleve/v2/index/upsidedown/store/")
		fn = strings.TrimPrefix(fn, "github.com/blevesearch/")
		return fn
	}
	return "unknown"
}

// guard runs f; a panic becomes a finding. It reports whether f completed.
func (x *execCtx) guard(step int, what string, f func()) bool {
	p, val, stack := ev.Guard(f)
	if !p {
		return true
	}
	x.add(step, "panic/"+what+"/"+panicFrame(stack), fmt.Sprintf("%s panicked: %v", what, val), fmt.Sprint(val), "no panic")
	return false
}

// runSeq executes seq on a fresh store of configuration cfg under dir.
func runSeq(cfg Config, seq *Seq, dir string) (fs []Finding, st seqStats) {
	_ = os.RemoveAll(dir)
	if err := os.MkdirAll(dir, 0o755); err != nil {
		return []Finding{{Kind: "harness/mkdir", Summary: err.Error(), Config: cfg.Name}}, st
	}
	defer os.RemoveAll(dir)
	mo := &addMerge{partialOK: seq.PartialOK}
	x := &execCtx{cfg: cfg, seq: seq, live: newModel()}
	var s store.KVStore
	var err error
	if !x.guard(-1, "open", func() { s, err = openStore(cfg, dir, mo) }) {
		return x.findings, x.st
	}
	if err != nil {
		x.add(-1, "error/open", "opening the store failed: "+err.Error(), err.Error(), "nil")
		return x.findings, x.st
	}
	readers := map[int]*rdr{}
	for i := range seq.Steps {
		x.step(s, i, &seq.Steps[i], readers)
		if x.fatal {
			break
		}
	}
	for id, rd := range readers {
		id, rd := id, rd
		x.guard(len(seq.Steps), "reader.Close", func() {
			if err := rd.kv.Close(); err != nil {
				x.add(len(seq.Steps), "error/reader.Close", fmt.Sprintf("closing reader %d: %v", id, err), err.Error(), "nil")
			}
		})
	}
	if !x.fatal {
		x.guard(len(seq.Steps), "store.Close", func() {
			if err := s.Close(); err != nil {
				x.add(len(seq.Steps), "error/store.Close", "closing the store: "+err.Error(), err.Error(), "nil")
			}
		})
	}
	x.st.fullMerge, x.st.partialMerge = mo.full.Load(), mo.partial.Load()
	return x.findings, x.st
}

func (x *execCtx) step(s store.KVStore, i int, st *Step, readers map[int]*rdr) {
	switch st.Kind {
	case "batch":
		x.execBatch(s, i, st)
		for _, rd := range readers {
			rd.outlived++
			if rd.outlived == 1 {
				x.st.readersOutlived++
			}
		}
	case "open":
		if _, ok := readers[st.R]; ok || st.R < 0 {
			return
		}
		var kv store.KVReader
		var err error
		if !x.guard(i, "store.Reader", func() { kv, err = s.Reader() }) {
			x.fatal = true
			return
		}
		if err != nil || kv == nil {
			x.add(i, "error/store.Reader", fmt.Sprintf("Reader(): %v", err), fmt.Sprint(err), "a reader")
			x.fatal = true
			return
		}
		readers[st.R] = &rdr{kv: kv, snap: x.live.snapshot()}
		x.st.readersKept++
	case "close":
		rd, ok := readers[st.R]
		if !ok {
			return
		}
		delete(readers, st.R)
		x.guard(i, "reader.Close", func() {
			if err := rd.kv.Close(); err != nil {
				x.add(i, "error/reader.Close", "closing a reader: "+err.Error(), err.Error(), "nil")
			}
		})
	case "settle":
		x.st.settles++
		x.guard(i, "settle", func() {
			if settle(s) {
				x.st.settled++
			}
		})
	case "get", "mget", "prefix", "range", "full":
		var rd *rdr
		fresh := st.R < 0
		if fresh {
			var kv store.KVReader
			var err error
			if !x.guard(i, "store.Reader", func() { kv, err = s.Reader() }) {
				x.fatal = true
				return
			}
			if err != nil || kv == nil {
				x.add(i, "error/store.Reader", fmt.Sprintf("Reader(): %v", err), fmt.Sprint(err), "a reader")
				x.fatal = true
				return
			}
			rd = &rdr{kv: kv, snap: x.live.snapshot()}
		} else {
			var ok bool
			if rd, ok = readers[st.R]; !ok {
				return // its open step was shrunk away
			}
		}
		if rd.outlived > 0 {
			x.st.staleChecks++
		}
		var liveSnap state
		if rd.outlived > 0 {
			liveSnap = x.live.snapshot()
		}
		checkRead(rd.kv, rd.snap, liveSnap, st, &x.st, func(kind, summary, o, e string) { x.add(i, kind, summary, o, e) })
		if fresh {
			x.guard(i, "reader.Close", func() {
				if err := rd.kv.Close(); err != nil {
					x.add(i, "error/reader.Close", "closing a reader: "+err.Error(), err.Error(), "nil")
				}
			})
		}
	}
}

func (x *execCtx) execBatch(s store.KVStore, i int, st *Step) {
	var err error
	stage := "store.Writer"
	ok := x.guard(i, "batch", func() {
		var w store.KVWriter
		w, err = s.Writer()
		if err != nil {
			return
		}
		defer func() { _ = w.Close() }()
		var b store.KVBatch
		if st.Ex {
			stage = "NewBatchEx"
			// the protocol of upsidedown.batchRows: keys and values live in the buffer handed out by
			// NewBatchEx; merges are accounted twice (moss copies them again when executing)
			opt := store.KVBatchOptions{}
			for _, o := range st.Ops {
				switch o.O {
				case "set":
					opt.NumSets++
					opt.TotalBytes += len(o.K) + len(o.V)
				case "del":
					opt.NumDeletes++
					opt.TotalBytes += len(o.K)
				case "merge":
					opt.NumMerges++
					opt.TotalBytes += 2 * (len(o.K) + len(o.V))
				}
			}
			var buf []byte
			buf, b, err = w.NewBatchEx(opt)
			if err != nil {
				return
			}
			// exactly as upsidedown.batchRows lays rows out: key and value contiguous at the head of the
			// remaining buffer, slices not capped (moss derives the offset from cap(key))
			for _, o := range st.Ops {
				kn := copy(buf, o.K)
				vn := 0
				switch o.O {
				case "set":
					vn = copy(buf[kn:], o.V)
					b.Set(buf[:kn], buf[kn:kn+vn])
				case "del":
					b.Delete(buf[:kn])
				case "merge":
					vn = copy(buf[kn:], o.V)
					b.Merge(buf[:kn], buf[kn:kn+vn])
				}
				buf = buf[kn+vn:]
			}
		} else {
			stage = "NewBatch"
			b = w.NewBatch()
			if b == nil {
				err = fmt.Errorf("NewBatch returned nil")
				return
			}
			for _, o := range st.Ops {
				// hand over scratch copies and scribble on them afterwards: "both key and value
				// []byte may be reused as soon as this call returns"
				k := append([]byte{}, o.K...)
				v := append([]byte{}, o.V...)
				switch o.O {
				case "set":
					b.Set(k, v)
				case "del":
					b.Delete(k)
				case "merge":
					b.Merge(k, v)
				}
				// (merge operands are left alone: EmulatedMerge keeps the caller's slice until the
				// batch is executed — observed by a separate probe, not judged here)
				if o.O != "merge" {
					for j := range k {
						k[j] = 0xEE
					}
					for j := range v {
						v[j] = 0xEE
					}
				}
			}
		}
		stage = "ExecuteBatch"
		err = w.ExecuteBatch(b)
		_ = b.Close()
	})
	if !ok {
		x.fatal = true
		return
	}
	if err != nil {
		x.add(i, "error/"+stage, fmt.Sprintf("%s failed: %v", stage, err), err.Error(), "nil")
		x.fatal = true
		return
	}
	x.live.apply(st.Ops)
	x.st.batches++
	x.st.ops += len(st.Ops)
	if st.Ex {
		x.st.exBatches++
	}
	for _, o := range st.Ops {
		if o.O == "merge" {
			x.st.merges++
		}
	}
}

// settle brings a store's background machinery to rest (steering only, bounded, never part of
// a verdict), so that later reads go through the merged / persisted / compacted representation:
// moss — wait until the merger and the lower-level persister are idle; goleveldb (also as moss's
// lower level) — the adapter's own Compact(), which moves the memtable into sorted table files
// (it also deletes rows with prefix 'd' and value {0}; no generated key starts with 'd').
// Other stores have no background work: no-op.
func settle(s store.KVStore) bool {
	done := false
	if l, ok := s.(*ldbstore.Store); ok {
		_ = l.Compact()
		done = true
	}
	if settleMoss(s) {
		done = true
	}
	if l, ok := s.(interface{ LowerLevelStore() store.KVStore }); ok {
		if ll, ok := l.LowerLevelStore().(*ldbstore.Store); ok {
			_ = ll.Compact()
		}
	}
	return done
}

func settleMoss(s store.KVStore) bool {
	mc, ok := s.(interface{ Collection() moss.Collection })
	if !ok {
		return false
	}
	ll := false
	if l, ok := s.(interface{ LowerLevelStore() store.KVStore }); ok && l.LowerLevelStore() != nil {
		ll = true
	}
	quiet := 0
	for i := 0; i < 400; i++ {
		st, err := mc.Collection().Stats()
		if err != nil {
			return false
		}
		idle := st.TotPersisterLowerLevelUpdateBeg == st.TotPersisterLowerLevelUpdateEnd+st.TotPersisterLowerLevelUpdateErr &&
			st.TotMergerInternalBeg == st.TotMergerInternalEnd+st.TotMergerInternalErr
		if idle && ((ll && st.CurDirtySegments == 0) || (!ll && st.CurDirtySegments <= 1)) {
			quiet++
			if quiet >= 2 {
				return true
			}
		} else {
			quiet = 0
		}
		time.Sleep(250 * time.Microsecond)
	}
	return false
}

// ---------------------------------------------------------------------------
// read checks (shared with the concurrent worker)

type reportFn func(kind, summary, observed, expected string)

func fmtObs(o obs) string {
	if !o.valid {
		return "invalid"
	}
	return fmt.Sprintf("%s=%s", B(o.k), B(o.v))
}

// checkRead performs the read step st on kv and compares with snap. live (may be
// nil) is the model's current state when the reader is older than the last batch:
// a result that disagrees with snap but agrees with live is an isolation failure.
func checkRead(kv store.KVReader, snap, live state, st *Step, ss *seqStats, report reportFn) {
	switch st.Kind {
	case "get":
		if len(st.Keys) == 0 {
			return
		}
		checkGet(kv, snap, live, st.Keys[0], ss, report)
	case "mget":
		checkMGet(kv, snap, live, st.Keys, ss, report)
	case "prefix":
		ss.iters++
		if n := len(st.A); n > 0 && st.A[n-1] == 0xff {
			ss.prefixFF++
		}
		checkIter(kv, snap, live, st, ss, report)
	case "range":
		ss.iters++
		checkIter(kv, snap, live, st, ss, report)
	case "full":
		ss.fulls++
		full := &Step{Kind: "range", Acts: nexts(len(snap) + 2)}
		checkIter(kv, snap, live, full, ss, report)
		fullp := &Step{Kind: "prefix", Acts: nexts(len(snap) + 2)}
		checkIter(kv, snap, live, fullp, ss, report)
	}
}

func nexts(n int) []IterAct { return make([]IterAct, n) }

func guardRead(what string, report reportFn, f func()) bool {
	p, val, stack := ev.Guard(f)
	if !p {
		return true
	}
	report("panic/"+what+"/"+panicFrame(stack), fmt.Sprintf("%s panicked: %v", what, val), fmt.Sprint(val), "no panic")
	return false
}

func getKind(got []byte, want []byte, present bool) string {
	switch {
	case !present && len(got) > 0:
		return "phantom-value"
	case present && len(want) > 0 && len(got) == 0:
		return "missing-value"
	default:
		return "wrong-value"
	}
}

func isoSuffix(matchesLive bool) string {
	if matchesLive {
		return "/sees-later-write"
	}
	return ""
}

func checkGet(kv store.KVReader, snap, live state, key []byte, ss *seqStats, report reportFn) {
	ss.gets++
	var got []byte
	var err error
	if !guardRead("Get", report, func() { got, err = kv.Get(append([]byte{}, key...)) }) {
		return
	}
	if err != nil {
		report("error/Get", fmt.Sprintf("Get(%s): %v", B(key), err), err.Error(), "nil")
		return
	}
	want, present := snap.get(string(key))
	if !sameVal(got, want) {
		iso := false
		if live != nil {
			lv, _ := live.get(string(key))
			iso = sameVal(got, lv)
		}
		exp := "absent"
		if present {
			exp = B(want).String()
		}
		report("get/"+getKind(got, want, present)+isoSuffix(iso), fmt.Sprintf("Get(%s) = %s, the reader's snapshot has %s", B(key), B(got), exp), B(got).String(), exp)
		return
	}
	if present && got == nil {
		ss.emptyValueNil++
	}
	if !present && got != nil {
		ss.absentNonNil++
	}
	// "The caller owns the bytes returned": scribbling on them must not change the store.
	if len(got) > 0 {
		for j := range got {
			got[j] ^= 0xA5
		}
		var again []byte
		if !guardRead("Get", report, func() { again, err = kv.Get(key) }) {
			return
		}
		if err == nil && !sameVal(again, want) {
			report("get/returned-slice-aliases-store", fmt.Sprintf("after overwriting the slice returned by Get(%s) a second Get returns %s instead of %s", B(key), B(again), B(want)), B(again).String(), B(want).String())
		}
	}
}

func checkMGet(kv store.KVReader, snap, live state, keys []B, ss *seqStats, report reportFn) {
	ss.mgets++
	ss.mgetKeys += len(keys)
	in := make([][]byte, len(keys))
	for i, k := range keys {
		in[i] = append([]byte{}, k...)
	}
	var got [][]byte
	var err error
	if !guardRead("MultiGet", report, func() { got, err = kv.MultiGet(in) }) {
		return
	}
	if err != nil {
		report("error/MultiGet", fmt.Sprintf("MultiGet(%v): %v", keys, err), err.Error(), "nil")
		return
	}
	if len(got) != len(keys) {
		report("mget/length", fmt.Sprintf("MultiGet of %d keys returned %d values", len(keys), len(got)), fmt.Sprint(len(got)), fmt.Sprint(len(keys)))
		return
	}
	for i, k := range keys {
		want, present := snap.get(string(k))
		if !sameVal(got[i], want) {
			iso := false
			if live != nil {
				lv, _ := live.get(string(k))
				iso = sameVal(got[i], lv)
			}
			exp := "absent"
			if present {
				exp = B(want).String()
			}
			report("mget/"+getKind(got[i], want, present)+isoSuffix(iso), fmt.Sprintf("MultiGet(%v)[%d] (key %s) = %s, the reader's snapshot has %s", keys, i, k, B(got[i]), exp), B(got[i]).String(), exp)
			return
		}
	}
}

func readIter(it store.KVIterator) obs {
	valid := it.Valid()
	ck, cv, cok := it.Current()
	o := obs{valid: valid}
	if cok != valid {
		o.note = fmt.Sprintf("Valid()=%v but Current() ok=%v", valid, cok)
		return o
	}
	if valid {
		o.k = append([]byte{}, it.Key()...)
		o.v = append([]byte{}, it.Value()...)
		if !bytes.Equal(o.k, ck) || !sameVal(o.v, cv) {
			o.note = fmt.Sprintf("Key()/Value() = %s/%s but Current() = %s/%s", B(o.k), B(o.v), B(ck), B(cv))
		}
	}
	return o
}

// expectIter replays the executed movements on a state.
func expectIter(s state, st *Step, done []IterAct) []obs {
	var ents state
	if st.Kind == "prefix" {
		ents = s.prefixOf(st.A)
	} else {
		ents = s.rangeOf(st.A, st.Bd)
	}
	idx := 0
	at := func() obs {
		if idx < len(ents) {
			return obs{valid: true, k: []byte(ents[idx].k), v: ents[idx].v}
		}
		return obs{}
	}
	out := []obs{at()}
	for _, a := range done {
		if a.Seek {
			idx = ents.lowerBound(string(a.K))
		} else if idx < len(ents) {
			idx++
		}
		out = append(out, at())
	}
	return out
}

func firstDiff(got, want []obs) int {
	for i := range got {
		if i >= len(want) {
			return i
		}
		g, w := got[i], want[i]
		if g.note != "" || g.valid != w.valid {
			return i
		}
		if g.valid && (!bytes.Equal(g.k, w.k) || !sameVal(g.v, w.v)) {
			return i
		}
	}
	return -1
}

// iterTags: syntactic features of the failing iterator call that go into the class.
func iterTags(st *Step, ents state, act *IterAct, moved bool) string {
	var t []string
	if st.Kind == "prefix" {
		if n := len(st.A); n > 0 && st.A[n-1] == 0xff {
			t = append(t, "prefix-ends-0xff")
		}
	} else if st.A != nil && st.Bd != nil && bytes.Compare(st.A, st.Bd) >= 0 {
		t = append(t, "start>=end")
	}
	if act != nil && act.Seek {
		k := string(act.K)
		switch {
		case !moved && len(ents) == 0:
			t = append(t, "first-move-seek-on-empty-range")
		case !moved && k < ents[0].k:
			t = append(t, "seek-before-first")
		case len(ents) == 0 || k > ents[len(ents)-1].k:
			t = append(t, "seek-past-last")
		default:
			if i := ents.lowerBound(k); i < len(ents) && ents[i].k == k {
				t = append(t, "seek-present")
			} else {
				t = append(t, "seek-absent")
			}
		}
	}
	if len(t) == 0 {
		return ""
	}
	return "/" + strings.Join(t, ",")
}

// extraKind says what kind of key an iterator yielded that it should not have.
func extraKind(snap state, k []byte) string {
	if _, ok := snap.get(string(k)); ok {
		return "out-of-range-key" // a key of the reader's snapshot, but not one this iterator may yield here
	}
	return "absent-key" // not in the reader's snapshot at all (deleted, or written later)
}

func checkIter(kv store.KVReader, snap, live state, st *Step, ss *seqStats, report reportFn) {
	var ents state
	what := "RangeIterator"
	if st.Kind == "prefix" {
		ents = snap.prefixOf(st.A)
		what = "PrefixIterator"
	} else {
		ents = snap.rangeOf(st.A, st.Bd)
	}
	var it store.KVIterator
	a := append([]byte(nil), st.A...)
	if st.A != nil && a == nil {
		a = []byte{}
	}
	b := append([]byte(nil), st.Bd...)
	if st.Bd != nil && b == nil {
		b = []byte{}
	}
	if !guardRead(what, report, func() {
		if st.Kind == "prefix" {
			it = kv.PrefixIterator(a)
		} else {
			it = kv.RangeIterator(a, b)
		}
	}) {
		return
	}
	if it == nil {
		report("error/"+what, what+" returned nil", "nil", "an iterator")
		return
	}
	closed := false
	closeIt := func() {
		if !closed {
			closed = true
			guardRead("iterator.Close", report, func() {
				if err := it.Close(); err != nil {
					report("error/iterator.Close", "iterator.Close: "+err.Error(), err.Error(), "nil")
				}
			})
		}
	}
	defer closeIt()
	var got []obs
	var done []IterAct
	ms := newMoveState(ents)
	ok := guardRead(what, report, func() { got = append(got, readIter(it)) })
	for ai := 0; ok && ai < len(st.Acts); ai++ {
		act := st.Acts[ai]
		if !ms.legal(act) {
			continue // became illegal after shrinking
		}
		// stop at the first disagreement: later movements would start from an undefined position
		var cur obs
		if ms.idx < len(ents) {
			cur = obs{valid: true, k: []byte(ents[ms.idx].k), v: ents[ms.idx].v}
		}
		if firstDiff(got[len(got)-1:], []obs{cur}) >= 0 {
			break
		}
		if act.Seek {
			ss.seeks++
			k := string(act.K)
			i := ents.lowerBound(k)
			_, present := snap.get(k)
			switch {
			case !ms.moved && len(ents) > 0 && k < ents[0].k:
				ss.seeksBefore++
			case i >= len(ents):
				ss.seeksPastEnd++
			case !present && i > 0:
				ss.seeksBetween++ // lands between two keys of the iterated range
			}
		}
		ss.iterActs++
		ms.apply(act)
		done = append(done, act)
		mv := what + ".Next"
		if act.Seek {
			mv = what + ".Seek"
		}
		ok = guardRead(mv, report, func() {
			if act.Seek {
				it.Seek(append([]byte{}, act.K...))
			} else {
				it.Next()
			}
			got = append(got, readIter(it))
		})
	}
	if !ok {
		return
	}
	for _, o := range got {
		if o.valid {
			ss.entriesSeen++
		}
	}
	exp := expectIter(snap, st, done)
	d := firstDiff(got, exp)
	if d < 0 {
		return
	}
	iso := false
	if live != nil {
		iso = firstDiff(got, expectIter(live, st, done)) < 0
	}
	g, w := got[d], exp[d]
	var mis string
	switch {
	case g.note != "":
		mis = "current-inconsistent"
	case g.valid && !w.valid:
		mis = extraKind(snap, g.k)
	case !g.valid && w.valid:
		mis = "missing-key"
	case !bytes.Equal(g.k, w.k):
		if _, inSnap := snap.get(string(g.k)); bytes.Compare(g.k, w.k) < 0 || !inSnap {
			mis = extraKind(snap, g.k)
		} else {
			mis = "missing-key"
		}
	default:
		mis = "wrong-value"
	}
	phase := "create"
	var actp *IterAct
	if d > 0 {
		actp = &done[d-1]
		if actp.Seek {
			phase = "seek"
		} else {
			phase = "next"
		}
	}
	moved := d > 1 // the failing movement was not the iterator's first one
	kind := st.Kind + "-iter/" + phase + "/" + mis + iterTags(st, ents, actp, moved) + isoSuffix(iso)
	desc := what + "(" + B(st.A).String()
	if st.Kind == "range" {
		desc += ", " + B(st.Bd).String()
	}
	desc += ")"
	for i := 0; i < d; i++ {
		if done[i].Seek {
			desc += ".Seek(" + done[i].K.String() + ")"
		} else {
			desc += ".Next()"
		}
	}
	obsS, expS := fmtObs(g), fmtObs(w)
	if g.note != "" {
		obsS = g.note
	}
	report(kind, fmt.Sprintf("%s is at %s, the ordered map says %s (snapshot %s)", desc, obsS, expS, snap), obsS, expS)
}
