package c15

// Seeded generator of op sequences. A sequence is pure data (no PRNG at
// execution time), so it can be executed on every store configuration,
// shrunk by deletion and replayed from a witness file.

import (
	"sort"

	"verifharness/rng"
)

// IterAct is one iterator movement: Next, or Seek to K.
type IterAct struct {
	Seek bool `json:"seek,omitempty"`
	K    B    `json:"k,omitempty"`
}

// Step kinds:
//
//	batch  — ExecuteBatch(Ops); Ex: built through NewBatchEx the way upsidedown does
//	open   — open a reader into slot R and keep it
//	close  — close the reader in slot R
//	get    — Get(Keys[0]) on reader R (R = -1: a fresh reader opened for this step)
//	mget   — MultiGet(Keys)
//	prefix — PrefixIterator(A) followed by Acts
//	range  — RangeIterator(A, Bd) followed by Acts
//	full   — full scan through RangeIterator(nil,nil) and PrefixIterator(nil)
//	settle — moss: wait, bounded, until merger and persister are idle; goleveldb: Compact()
type Step struct {
	Kind string    `json:"op"`
	R    int       `json:"r,omitempty"`
	Ex   bool      `json:"ex,omitempty"`
	Ops  []Op      `json:"ops,omitempty"`
	Keys []B       `json:"keys,omitempty"`
	A    B         `json:"a,omitempty"`
	Bd   B         `json:"b,omitempty"`
	Acts []IterAct `json:"acts,omitempty"`
}

type Seq struct {
	PartialOK bool   `json:"merge_partial_ok"`
	Steps     []Step `json:"steps"`
}

const maxSlots = 4

type gen struct {
	g        *rng.Rand
	universe [][]byte
	counters [][]byte
}

var alphabet = []byte{0x00, 0x00, 'a', 'a', 'a', 'a', 'b', 'b', 'b', 0xff, 0xff, 0xff, 0xff, 0x01, 0xfe, 'c'}

func (x *gen) abyte() byte { return alphabet[x.g.Intn(len(alphabet))] }

func (x *gen) makeUniverse() {
	g := x.g
	n := g.Range(6, 40)
	seen := map[string]bool{}
	var keys [][]byte
	add := func(k []byte) {
		// no written key starts with 'd': the goleveldb adapter's Compact(), which the settle step
		// uses to force table files, deletes rows "d…" = {0} (upsidedown's dictionary-row cleanup)
		if len(k) == 0 || len(k) > 6 || seen[string(k)] || k[0] == 'd' {
			return
		}
		seen[string(k)] = true
		keys = append(keys, append([]byte{}, k...))
	}
	for i := g.Range(2, 4); i > 0; i-- {
		k := []byte{x.abyte()}
		if g.Bool() {
			k = append(k, x.abyte())
		}
		add(k)
	}
	for tries := 0; len(keys) < n && tries < 1000; tries++ {
		var base []byte
		if len(keys) > 0 && !g.Chance(1, 6) {
			base = keys[g.Intn(len(keys))]
		}
		k := append([]byte{}, base...)
		for j := g.Range(1, 2); j > 0; j-- {
			k = append(k, x.abyte())
		}
		add(k)
		// carry pairs: for a key x·c (c < 0xff) also x·c·0xff[·z] and x·(c+1), so that the
		// prefix x·c·0xff has a key sitting exactly at its carried successor.
		if g.Chance(1, 4) && len(k) >= 1 && k[len(k)-1] < 0xff {
			p := append(append([]byte{}, k...), 0xff)
			if g.Bool() {
				add(p)
			}
			add(append(append([]byte{}, p...), x.abyte()))
			s := append([]byte{}, k...)
			s[len(s)-1]++
			add(s)
		}
	}
	sort.Slice(keys, func(i, j int) bool { return string(keys[i]) < string(keys[j]) })
	x.universe = keys
	for _, k := range keys {
		if g.Chance(1, 4) {
			x.counters = append(x.counters, k)
		}
	}
	if len(x.counters) == 0 {
		x.counters = append(x.counters, keys[0])
	}
}

func (x *gen) ukey() []byte { return x.universe[x.g.Intn(len(x.universe))] }

// probeKey is a key used for reading: mostly a universe key, sometimes a
// neighbour (truncated, extended, last byte ±1), sometimes random or empty.
func (x *gen) probeKey() []byte {
	g := x.g
	switch r := g.Intn(100); {
	case r < 55:
		return append([]byte{}, x.ukey()...)
	case r < 85:
		k := append([]byte{}, x.ukey()...)
		switch g.Intn(5) {
		case 0:
			k = k[:g.Intn(len(k)+1)]
		case 1:
			k = append(k, x.abyte())
		case 2:
			k[len(k)-1]++
		case 3:
			k[len(k)-1]--
		case 4:
			k = append(k, 0xff)
		}
		return k
	default:
		k := []byte{}
		for j := g.Intn(6); j > 0; j-- {
			k = append(k, x.abyte())
		}
		return k
	}
}

func (x *gen) prefixKey() []byte {
	g := x.g
	if g.Chance(1, 12) {
		return nil
	}
	k := append([]byte{}, x.ukey()...)
	k = k[:g.Intn(len(k)+1)]
	if g.Chance(1, 4) {
		k = append(k, 0xff)
	}
	if g.Chance(1, 10) {
		k = append(k, x.abyte())
	}
	return k
}

func (x *gen) value() []byte {
	g := x.g
	switch r := g.Intn(100); {
	case r < 25:
		return []byte{}
	case r < 45:
		return encU(uint64(g.Intn(5)))
	case r < 55:
		return []byte{0}
	default:
		return g.Bytes(g.Range(1, 6))
	}
}

func (x *gen) delta() []byte {
	g := x.g
	switch r := g.Intn(10); {
	case r < 6:
		return encU(uint64(g.Range(1, 5)))
	case r < 9:
		return encU(^uint64(0)) // -1, as upsidedown's dictionary decrement
	default:
		return encU(g.Uint64())
	}
}

// batch draws a batch in which no key is written twice (guard (i) of the design;
// that includes two merges of one key, which upsidedown never issues either).
func (x *gen) batch() []Op {
	g := x.g
	n := 0
	switch r := g.Intn(20); {
	case r == 0:
		n = 0
	case r < 15:
		n = g.Range(1, 6)
	default:
		n = g.Range(7, 24)
	}
	used := map[string]bool{}
	var ops []Op
	for i := 0; i < n; i++ {
		var k []byte
		merge := g.Chance(1, 4)
		if merge && !g.Chance(1, 5) {
			k = x.counters[g.Intn(len(x.counters))]
		} else {
			k = x.ukey()
		}
		if used[string(k)] {
			continue
		}
		used[string(k)] = true
		switch {
		case merge:
			ops = append(ops, Op{O: "merge", K: B(k), V: B(x.delta())})
		case g.Chance(1, 3):
			ops = append(ops, Op{O: "del", K: B(k)})
		default:
			ops = append(ops, Op{O: "set", K: B(k), V: B(x.value())})
		}
	}
	// the order of ops inside a batch is immaterial (distinct keys); shuffle it so that
	// merges are not always issued in one block
	rng.Shuffle(g, ops)
	return ops
}

// iterActs draws movements that are legal for an iterator over ents (no Next on
// an exhausted iterator, forward Seek only).
func (x *gen) iterActs(ents state, snap state) []IterAct {
	g := x.g
	n := g.Intn(9)
	var acts []IterAct
	ms := newMoveState(ents)
	for i := 0; i < n; i++ {
		if g.Chance(55, 100) && ms.idx < len(ents) {
			a := IterAct{}
			ms.apply(a)
			acts = append(acts, a)
			continue
		}
		var k []byte
		ok := false
		for t := 0; t < 6 && !ok; t++ {
			if ms.idx < len(ents) && g.Chance(3, 5) {
				// aim at or just around one of the next few entries, so that seeks land on keys and
				// between keys instead of mostly past the end
				span := len(ents) - ms.idx
				if span > 4 {
					span = 4
				}
				e := []byte(ents[ms.idx+g.Intn(span)].k)
				switch g.Intn(3) {
				case 0:
					k = e
				case 1:
					k = append(append([]byte{}, e...), 0x00) // just after e
				default:
					k = append([]byte{}, e...) // just before e
					if k[len(k)-1] > 0 {
						k[len(k)-1]--
						k = append(k, 0xff)
					} else {
						k = k[:len(k)-1]
					}
				}
			} else {
				k = x.probeKey()
			}
			ok = ms.legal(IterAct{Seek: true, K: k})
		}
		if !ok {
			// fall back to something at or just after the floor
			if ms.idx < len(ents) {
				k = []byte(ents[ms.idx].k)
				if g.Bool() {
					k = append(append([]byte{}, k...), 0x00)
				}
			} else if len(ents) > 0 {
				k = append([]byte(ents[len(ents)-1].k), 0x00)
			} else {
				k = []byte{0xff, 0xff, 0xff, 0xff, 0xff, 0xff, 0xff}
			}
			if ms.haveSeek && string(k) < ms.lastSeek {
				k = []byte(ms.lastSeek)
			}
			if !ms.legal(IterAct{Seek: true, K: k}) {
				continue
			}
		}
		a := IterAct{Seek: true, K: B(k)}
		ms.apply(a)
		acts = append(acts, a)
	}
	return acts
}

func genSeq(g *rng.Rand) *Seq {
	x := &gen{g: g}
	x.makeUniverse()
	seq := &Seq{PartialOK: g.Chance(2, 3)}
	live := newModel()
	slots := map[int]state{}
	pickReader := func() (int, state) {
		if len(slots) > 0 && g.Chance(3, 4) {
			ids := make([]int, 0, len(slots))
			for id := range slots {
				ids = append(ids, id)
			}
			sort.Ints(ids)
			id := ids[g.Intn(len(ids))]
			return id, slots[id]
		}
		return -1, live.snapshot()
	}
	// always start with a batch so that there is something to read
	first := x.batch()
	for len(first) == 0 {
		first = x.batch()
	}
	seq.Steps = append(seq.Steps, Step{Kind: "batch", Ops: first, Ex: g.Bool()})
	live.apply(first)
	nSteps := g.Range(8, 40)
	for i := 0; i < nSteps; i++ {
		switch r := g.Intn(100); {
		case r < 28:
			ops := x.batch()
			seq.Steps = append(seq.Steps, Step{Kind: "batch", Ops: ops, Ex: g.Bool()})
			live.apply(ops)
		case r < 40:
			if len(slots) >= maxSlots {
				continue
			}
			id := 0
			for ; ; id++ {
				if _, ok := slots[id]; !ok {
					break
				}
			}
			slots[id] = live.snapshot()
			seq.Steps = append(seq.Steps, Step{Kind: "open", R: id})
		case r < 44:
			if len(slots) == 0 {
				continue
			}
			id, _ := pickReader()
			if id < 0 {
				continue
			}
			delete(slots, id)
			seq.Steps = append(seq.Steps, Step{Kind: "close", R: id})
		case r < 54:
			id, _ := pickReader()
			seq.Steps = append(seq.Steps, Step{Kind: "get", R: id, Keys: []B{B(x.probeKey())}})
		case r < 62:
			id, _ := pickReader()
			var keys []B
			for j := g.Intn(6); j > 0; j-- {
				keys = append(keys, B(x.probeKey()))
			}
			seq.Steps = append(seq.Steps, Step{Kind: "mget", R: id, Keys: keys})
		case r < 78:
			id, snap := pickReader()
			p := x.prefixKey()
			seq.Steps = append(seq.Steps, Step{Kind: "prefix", R: id, A: B(p), Acts: x.iterActs(snap.prefixOf(p), snap)})
		case r < 94:
			id, snap := pickReader()
			var a, b []byte
			if !g.Chance(1, 6) {
				a = x.probeKey()
			}
			if !g.Chance(1, 6) {
				b = x.probeKey()
				if len(b) == 0 {
					b = nil // an empty non-nil end is not generated (degenerate)
				}
			}
			if a != nil && b != nil && string(a) > string(b) && !g.Chance(1, 10) {
				a, b = b, a
			}
			seq.Steps = append(seq.Steps, Step{Kind: "range", R: id, A: B(a), Bd: B(b), Acts: x.iterActs(snap.rangeOf(a, b), snap)})
		case r < 97:
			id, _ := pickReader()
			seq.Steps = append(seq.Steps, Step{Kind: "full", R: id})
		default:
			seq.Steps = append(seq.Steps, Step{Kind: "settle"})
		}
	}
	// every kept reader is compared in full with its snapshot before it is closed
	ids := make([]int, 0, len(slots))
	for id := range slots {
		ids = append(ids, id)
	}
	sort.Ints(ids)
	for _, id := range ids {
		seq.Steps = append(seq.Steps, Step{Kind: "full", R: id}, Step{Kind: "close", R: id})
	}
	seq.Steps = append(seq.Steps, Step{Kind: "full", R: -1})
	return seq
}

// ---------------------------------------------------------------------------
// movement legality, shared by the generator and the executor (which re-derives
// it because shrinking changes what is legal)

type moveState struct {
	ents     state
	idx      int
	moved    bool
	haveSeek bool
	lastSeek string
}

func newMoveState(ents state) *moveState { return &moveState{ents: ents} }

// legal: Next only while valid; Seek anywhere before the iterator has moved
// (that is how "before start" is exercised), afterwards only forward: at or after
// the current key, not before an earlier seek target, never re-entering passed entries.
func (m *moveState) legal(a IterAct) bool {
	if !a.Seek {
		return m.idx < len(m.ents)
	}
	if !m.moved {
		return true
	}
	k := string(a.K)
	if m.haveSeek && k < m.lastSeek {
		return false
	}
	if m.idx < len(m.ents) {
		return k >= m.ents[m.idx].k
	}
	return m.ents.lowerBound(k) >= m.idx
}

func (m *moveState) apply(a IterAct) {
	m.moved = true
	if !a.Seek {
		m.idx++
		return
	}
	m.haveSeek = true
	m.lastSeek = string(a.K)
	m.idx = m.ents.lowerBound(string(a.K))
}
