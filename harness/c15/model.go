package c15

// Reference model of property C15: an ordered byte-string map with atomic
// batches, a uint64-add merge operator and immutable snapshots. Nothing in this
// file looks at the code under test.

import (
	"bytes"
	"encoding/binary"
	"encoding/json"
	"fmt"
	"sort"
	"strings"
	"sync/atomic"
)

// B is a byte string that prints readably in witnesses (printable ASCII as is,
// everything else as \xNN, backslash doubled); nil prints as null.
type B []byte

func (b B) String() string {
	if b == nil {
		return "<nil>"
	}
	var sb strings.Builder
	for _, c := range []byte(b) {
		switch {
		case c == '\\':
			sb.WriteString(`\\`)
		case c >= 0x20 && c < 0x7f:
			sb.WriteByte(c)
		default:
			fmt.Fprintf(&sb, `\x%02x`, c)
		}
	}
	return sb.String()
}

func (b B) MarshalJSON() ([]byte, error) {
	if b == nil {
		return []byte("null"), nil
	}
	return json.Marshal(b.String())
}

func (b *B) UnmarshalJSON(in []byte) error {
	if string(in) == "null" {
		*b = nil
		return nil
	}
	var s string
	if err := json.Unmarshal(in, &s); err != nil {
		return err
	}
	out := []byte{}
	for i := 0; i < len(s); i++ {
		if s[i] != '\\' {
			out = append(out, s[i])
			continue
		}
		if i+1 < len(s) && s[i+1] == '\\' {
			out = append(out, '\\')
			i++
			continue
		}
		if i+3 < len(s) && s[i+1] == 'x' {
			var v byte
			if _, err := fmt.Sscanf(s[i+2:i+4], "%02x", &v); err != nil {
				return err
			}
			out = append(out, v)
			i += 3
			continue
		}
		return fmt.Errorf("bad escape in %q", s)
	}
	*b = out
	return nil
}

// ---------------------------------------------------------------------------
// merge arithmetic (the meaning of the configured merge operator)

// decU reads a little-endian uint64 from the first 8 bytes of b, zero padded.
func decU(b []byte) uint64 {
	var x [8]byte
	copy(x[:], b)
	return binary.LittleEndian.Uint64(x[:])
}

func encU(v uint64) []byte {
	b := make([]byte, 8)
	binary.LittleEndian.PutUint64(b, v)
	return b
}

// addMerge is the merge operator handed to every store: value := LE64(old) + Σ LE64(operand)
// (wrapping). partialOK=false makes PartialMerge refuse, so operands pile up and
// reach FullMerge as a list — both are legal behaviours of a MergeOperator.
type addMerge struct {
	partialOK bool
	full      atomic.Int64
	partial   atomic.Int64
}

func (m *addMerge) FullMerge(key, existing []byte, operands [][]byte) ([]byte, bool) {
	m.full.Add(1)
	v := decU(existing)
	for _, o := range operands {
		v += decU(o)
	}
	return encU(v), true
}

func (m *addMerge) PartialMerge(key, l, r []byte) ([]byte, bool) {
	m.partial.Add(1)
	if !m.partialOK {
		return nil, false
	}
	return encU(decU(l) + decU(r)), true
}

func (m *addMerge) Name() string { return "verif-uint64-add" }

// ---------------------------------------------------------------------------
// ordered map

type entry struct {
	k string
	v []byte
}

// state is an immutable snapshot: entries in ascending byte order of k.
type state []entry

type kvModel struct{ m map[string][]byte }

func newModel() *kvModel { return &kvModel{m: map[string][]byte{}} }

// Op is one mutation of a batch.
type Op struct {
	O string `json:"o"` // set | del | merge
	K B      `json:"k"`
	V B      `json:"v,omitempty"` // set: value; merge: 8-byte LE delta
}

// apply applies a whole batch (atomically: the model has no intermediate state).
func (m *kvModel) apply(ops []Op) {
	for _, o := range ops {
		k := string(o.K)
		switch o.O {
		case "set":
			m.m[k] = append([]byte{}, o.V...)
		case "del":
			delete(m.m, k)
		case "merge":
			m.m[k] = encU(decU(m.m[k]) + decU(o.V))
		}
	}
}

func (m *kvModel) snapshot() state {
	s := make(state, 0, len(m.m))
	for k, v := range m.m {
		s = append(s, entry{k, v})
	}
	sort.Slice(s, func(i, j int) bool { return s[i].k < s[j].k })
	return s
}

func (s state) lowerBound(k string) int {
	return sort.Search(len(s), func(i int) bool { return s[i].k >= k })
}

func (s state) get(k string) ([]byte, bool) {
	i := s.lowerBound(k)
	if i < len(s) && s[i].k == k {
		return s[i].v, true
	}
	return nil, false
}

// rangeOf returns the entries with start <= k < end (nil bound = unbounded).
func (s state) rangeOf(start, end []byte) state {
	lo := 0
	if start != nil {
		lo = s.lowerBound(string(start))
	}
	hi := len(s)
	if end != nil {
		hi = s.lowerBound(string(end))
	}
	if hi < lo {
		hi = lo
	}
	return s[lo:hi]
}

// prefixOf returns the entries whose key has the prefix, decided key by key.
func (s state) prefixOf(p []byte) state {
	lo := s.lowerBound(string(p))
	hi := lo
	for hi < len(s) && strings.HasPrefix(s[hi].k, string(p)) {
		hi++
	}
	return s[lo:hi]
}

func (s state) equal(t state) bool {
	if len(s) != len(t) {
		return false
	}
	for i := range s {
		if s[i].k != t[i].k || !bytes.Equal(s[i].v, t[i].v) {
			return false
		}
	}
	return true
}

func (s state) String() string {
	var sb strings.Builder
	sb.WriteByte('{')
	for i, e := range s {
		if i > 0 {
			sb.WriteByte(' ')
		}
		if i >= 12 {
			fmt.Fprintf(&sb, "…+%d", len(s)-i)
			break
		}
		fmt.Fprintf(&sb, "%s=%s", B(e.k), B(e.v))
	}
	sb.WriteByte('}')
	return sb.String()
}
