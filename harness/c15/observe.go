package c15

// Observations that are recorded in the evidence but deliberately not judged:
// they concern contracts next to the property (buffer reuse) or inputs the
// design excludes (one key written twice inside a batch).

import (
	"bytes"
	"os"
	"path/filepath"

	store "github.com/blevesearch/upsidedown_store_api"

	"verifharness/ev"
)

func observeUnjudged(r *ev.Run, cfgs []Config, dir string) {
	reuse := map[string]string{}
	twice := map[string]string{}
	for _, cfg := range cfgs {
		if cfg.Name != cfg.Family {
			continue // plain adapters only
		}
		// (a) KVBatch.Merge: "both key and value []byte may be reused as soon as this call returns"
		reuse[cfg.Name] = observe(cfg, filepath.Join(dir, "a", cfg.Name), true, func(b store.KVBatch) {
			v := encU(5)
			b.Merge([]byte("k"), v)
			for j := range v {
				v[j] = 0xEE // the caller reuses its buffer before ExecuteBatch
			}
		}, encU(5))
		// (b) two merges of one key in one batch while PartialMerge refuses (guard (i): never generated)
		twice[cfg.Name] = observe(cfg, filepath.Join(dir, "b", cfg.Name), false, func(b store.KVBatch) {
			b.Merge([]byte("k"), encU(2))
			b.Merge([]byte("k"), encU(3))
		}, encU(5))
	}
	r.Extra("observed_merge_operand_buffer_reused_before_ExecuteBatch(not_judged)", reuse)
	r.Extra("observed_two_merges_of_one_key_in_one_batch_without_PartialMerge(not_judged)", twice)
}

func observe(cfg Config, dir string, partialOK bool, fill func(store.KVBatch), want []byte) (out string) {
	_ = os.MkdirAll(dir, 0o755)
	defer os.RemoveAll(dir)
	p, val, _ := ev.Guard(func() {
		s, err := openStore(cfg, dir, &addMerge{partialOK: partialOK})
		if err != nil {
			out = "open: " + err.Error()
			return
		}
		defer s.Close()
		w, _ := s.Writer()
		b := w.NewBatch()
		fill(b)
		if err := w.ExecuteBatch(b); err != nil {
			out = "ExecuteBatch: " + err.Error()
			return
		}
		_ = b.Close()
		_ = w.Close()
		rd, _ := s.Reader()
		defer rd.Close()
		it := rd.RangeIterator(nil, nil)
		defer it.Close()
		n := 0
		var v []byte
		for ; it.Valid() && n < 10; it.Next() {
			v = append([]byte{}, it.Value()...)
			n++
		}
		g, _ := rd.Get([]byte("k"))
		switch {
		case n == 1 && bytes.Equal(v, want) && bytes.Equal(g, want):
			out = "as the ordered map"
		default:
			out = "differs: " + B(g).String() + " via Get, " + B(v).String() + " via iteration over " + string(rune('0'+n)) + " entries; the ordered map has " + B(want).String()
		}
	})
	if p {
		out = "panic: " + B([]byte(toString(val))).String()
	}
	return out
}

func toString(v any) string {
	if e, ok := v.(error); ok {
		return e.Error()
	}
	if s, ok := v.(string); ok {
		return s
	}
	return "?"
}
