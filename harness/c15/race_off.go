//go:build !race

package c15

const raceEnabled = false
