package c15

// Shrinking by deletion: steps, ops inside batches, iterator movements, multi-get
// keys — while a finding of the same kind persists on the same configuration.

import (
	"fmt"
	"path/filepath"
)

func cloneSeq(s *Seq) *Seq {
	c := &Seq{PartialOK: s.PartialOK, Steps: make([]Step, len(s.Steps))}
	for i, st := range s.Steps {
		n := st
		n.Ops = append([]Op(nil), st.Ops...)
		n.Keys = append([]B(nil), st.Keys...)
		n.Acts = append([]IterAct(nil), st.Acts...)
		c.Steps[i] = n
	}
	return c
}

type shrinker struct {
	cfg    Config
	kind   string
	dir    string
	budget int
	runs   int
	tries  int // executions per attempt: > 1 when the failure depends on background timing (moss)
}

// fails returns the first finding of the wanted kind, or nil.
func (sh *shrinker) fails(s *Seq) *Finding {
	for t := 0; t < sh.tries; t++ {
		sh.runs++
		fs, _ := runSeq(sh.cfg, s, filepath.Join(sh.dir, fmt.Sprintf("s%d", sh.runs)))
		for i := range fs {
			if fs[i].Kind == sh.kind {
				return &fs[i]
			}
		}
	}
	return nil
}

// reproduces: does seq fail with kind on cfg within n executions?
func reproduces(cfg Config, seq *Seq, kind, dir string, n int) bool {
	sh := &shrinker{cfg: cfg, kind: kind, dir: dir, tries: n}
	return sh.fails(seq) != nil
}

func shrinkSeq(cfg Config, seq *Seq, kind, dir string, budget int) (*Seq, *Finding, int) {
	sh := &shrinker{cfg: cfg, kind: kind, dir: dir, budget: budget, tries: 1}
	cur := cloneSeq(seq)
	f := sh.fails(cur)
	if f == nil {
		// depends on background timing: allow several executions per attempt
		sh.tries = 6
		sh.budget *= 3
		if f = sh.fails(cur); f == nil {
			return cur, nil, sh.runs // not reproducible in isolation; keep as is
		}
		sh.tries = 3
	}
	// everything after the failing step is irrelevant
	if f.Step >= 0 && f.Step+1 < len(cur.Steps) {
		c := cloneSeq(cur)
		c.Steps = c.Steps[:f.Step+1]
		if g := sh.fails(c); g != nil {
			cur, f = c, g
		}
	}
	try := func(c *Seq) bool {
		if sh.runs >= sh.budget {
			return false
		}
		if g := sh.fails(c); g != nil {
			cur, f = c, g
			return true
		}
		return false
	}
	// chunks of steps first (halves, quarters, …): long sequences collapse in a few runs
	for size := len(cur.Steps) / 2; size >= 2; size /= 2 {
		for i := len(cur.Steps) - size; i >= 0; i -= size {
			if i+size > len(cur.Steps) {
				continue
			}
			c := cloneSeq(cur)
			c.Steps = append(c.Steps[:i], c.Steps[i+size:]...)
			try(c)
		}
	}
	for changed := true; changed && sh.runs < sh.budget; {
		changed = false
		// whole steps, last to first
		for i := len(cur.Steps) - 1; i >= 0; i-- {
			if i >= len(cur.Steps) {
				continue
			}
			c := cloneSeq(cur)
			c.Steps = append(c.Steps[:i], c.Steps[i+1:]...)
			if try(c) {
				changed = true
			}
		}
		// inside steps
		for i := 0; i < len(cur.Steps); i++ {
			for j := len(cur.Steps[i].Ops) - 1; j >= 0; j-- {
				if j >= len(cur.Steps[i].Ops) {
					continue
				}
				c := cloneSeq(cur)
				c.Steps[i].Ops = append(c.Steps[i].Ops[:j], c.Steps[i].Ops[j+1:]...)
				if try(c) {
					changed = true
				}
			}
			for j := len(cur.Steps[i].Acts) - 1; j >= 0; j-- {
				if j >= len(cur.Steps[i].Acts) {
					continue
				}
				c := cloneSeq(cur)
				c.Steps[i].Acts = append(c.Steps[i].Acts[:j], c.Steps[i].Acts[j+1:]...)
				if try(c) {
					changed = true
				}
			}
			if cur.Steps[i].Kind == "mget" {
				for j := len(cur.Steps[i].Keys) - 1; j >= 0; j-- {
					if j >= len(cur.Steps[i].Keys) {
						continue
					}
					c := cloneSeq(cur)
					c.Steps[i].Keys = append(c.Steps[i].Keys[:j], c.Steps[i].Keys[j+1:]...)
					if try(c) {
						changed = true
					}
				}
			}
			if cur.Steps[i].Ex {
				c := cloneSeq(cur)
				c.Steps[i].Ex = false
				if try(c) {
					changed = true
				}
			}
			// a kept reader that is not needed: read through a fresh one
			if k := cur.Steps[i].Kind; cur.Steps[i].R >= 0 && k != "open" && k != "close" {
				c := cloneSeq(cur)
				c.Steps[i].R = -1
				if try(c) {
					changed = true
				}
			}
			// values: shorten to empty where it does not matter
			for j := range cur.Steps[i].Ops {
				if o := cur.Steps[i].Ops[j]; o.O == "set" && len(o.V) > 1 {
					c := cloneSeq(cur)
					c.Steps[i].Ops[j].V = B("v")
					if try(c) {
						changed = true
					}
				}
			}
		}
	}
	return cur, f, sh.runs
}
