package c15

// Seed-independent cases executed on every run: regression witnesses of the
// defects found with this monitor, and two small exhaustive sweeps.

type namedSeq struct {
	name string
	seq  *Seq
}

func set(k, v string) Op        { return Op{O: "set", K: B(k), V: B(v)} }
func del(k string) Op           { return Op{O: "del", K: B(k)} }
func mrg(k string, d uint64) Op { return Op{O: "merge", K: B(k), V: B(encU(d))} }

func regressionSeqs() []namedSeq {
	return []namedSeq{
		{"regress/F9-prefix-ends-0xff-successor-key", &Seq{PartialOK: true, Steps: []Step{
			// DESIGN §6 F9: key "abb", prefix "aba\xff" must yield nothing
			{Kind: "batch", Ops: []Op{set("abb", "v")}},
			{Kind: "prefix", R: -1, A: B("aba\xff")},
		}}},
		{"regress/F9-prefix-ends-0xff0xff", &Seq{PartialOK: true, Steps: []Step{
			{Kind: "batch", Ops: []Op{set("b", "v"), set("a\xff\xff\x01", "w"), set("a\xff", "u")}},
			{Kind: "prefix", R: -1, A: B("a\xff\xff"), Acts: nexts(3)},
			{Kind: "prefix", R: -1, A: B("a\xff"), Acts: nexts(3)},
			{Kind: "prefix", R: -1, A: B("a\xff\xff"), Acts: []IterAct{{Seek: true, K: B("a\xff\xff\x02")}}},
		}}},
		{"regress/moss-seek-before-first-after-delete", mossSeekBack()},
		{"regress/moss-lower-level-iterator-buffer-reuse", mossLowerReuse()},
		{"regress/inverted-range-over-table-files", invertedRange()},
		{"regress/multiget", &Seq{PartialOK: true, Steps: []Step{
			// store.MultiGet of upsidedown_store_api indexes into a zero-length slice
			{Kind: "batch", Ops: []Op{set("a", "x"), set("c", ""), mrg("n", 3)}},
			{Kind: "mget", R: -1, Keys: []B{B("a")}},
			{Kind: "mget", R: -1, Keys: []B{B("a"), B("zz"), B("c"), B("n"), B("a")}},
			{Kind: "open", R: 0},
			{Kind: "batch", Ops: []Op{del("a"), set("zz", "late"), mrg("n", 1)}},
			{Kind: "mget", R: 0, Keys: []B{B("a"), B("zz"), B("n")}},
			{Kind: "mget", R: -1, Keys: []B{B("a"), B("zz"), B("n")}},
			{Kind: "mget", R: -1},
			{Kind: "close", R: 0},
		}}},
	}
}

// mossSeekBack: a key deleted by a later batch lies between the Seek target and the first live
// key. moss collapses the iterator to the one segment that still has entries (iterator.optimize)
// and a Seek that is not forward re-seeks inside that segment only, resurrecting the deleted key
// (or an overwritten value). Repeated, because it needs the two batches not to be merged yet.
func mossSeekBack() *Seq {
	s := &Seq{PartialOK: true}
	for i := 0; i < 4; i++ {
		p := string(rune('p' + i))
		s.Steps = append(s.Steps,
			Step{Kind: "batch", Ops: []Op{set(p+"a", "old"), set(p+"b", "v"), set(p+"c", "old")}},
			Step{Kind: "batch", Ops: []Op{del(p + "a"), set(p+"c", "new")}},
			Step{Kind: "range", R: -1, A: B(p + "a"), Bd: B(p + "z"), Acts: []IterAct{{Seek: true, K: B(p)}, {}, {}}},
			Step{Kind: "prefix", R: -1, A: B(p), Acts: []IterAct{{Seek: true, K: B("a")}, {}, {}}},
			Step{Kind: "range", R: -1, A: B(p), Acts: []IterAct{{Seek: true, K: B(p + "a")}, {}}},
		)
	}
	return s
}

// mossLowerReuse: keys of equal length that have reached the lower-level store, plus one key
// still in a memory segment, so that moss merges a segment cursor with the lower-level iterator.
// goleveldb reuses its key buffer on Next(); moss.iterator.Next keeps the previous key to skip
// duplicates, sees "the same key again" and drops every following lower-level key of that length.
func mossLowerReuse() *Seq {
	s := &Seq{PartialOK: true, Steps: []Step{
		{Kind: "batch", Ops: []Op{set("aa", "1"), set("ab", "2"), set("ac", "3"), set("ad", "4")}},
		{Kind: "settle"},
	}}
	for i := 0; i < 6; i++ {
		s.Steps = append(s.Steps,
			Step{Kind: "batch", Ops: []Op{set("z"+string(rune('0'+i)), "m")}},
			Step{Kind: "range", R: -1, Acts: nexts(12)},
			Step{Kind: "prefix", R: -1, A: B("a"), Acts: nexts(5)},
			Step{Kind: "settle"},
			Step{Kind: "batch", Ops: []Op{set("zz", string(rune('0'+i)))}},
			Step{Kind: "range", R: -1, A: B("ab"), Acts: nexts(12)},
		)
	}
	return s
}

// invertedRange: once goleveldb holds its data in sorted table files (after Compact), creating an
// iterator over a range whose start is above its end panics inside goleveldb
// (tFiles.newIndexIterator slices files[start:limit] with start > limit). moss hands such a range
// to its lower-level store when an exhausted iterator is asked to Seek further.
func invertedRange() *Seq {
	s := &Seq{PartialOK: true}
	var ops []Op
	for _, k := range stringsOver([]byte{'k', 'l', 'm'}, 2, 2) {
		ops = append(ops, set(k, "value-of-"+k))
	}
	s.Steps = append(s.Steps,
		Step{Kind: "batch", Ops: ops},
		Step{Kind: "settle"},
		Step{Kind: "batch", Ops: []Op{set("kk", "2"), del("kl")}},
		Step{Kind: "range", R: -1, A: B("z"), Bd: B("a"), Acts: []IterAct{{Seek: true, K: B("k")}}},
		Step{Kind: "range", R: -1, A: B("mm"), Bd: B("kk")},
		Step{Kind: "range", R: -1, A: B("a"), Bd: B("l"), Acts: []IterAct{{Seek: true, K: B("x")}, {Seek: true, K: B("y")}, {Seek: true, K: B("z")}}},
		Step{Kind: "prefix", R: -1, A: B("k"), Acts: []IterAct{{Seek: true, K: B("x")}, {Seek: true, K: B("y")}}},
		Step{Kind: "full", R: -1},
	)
	return s
}

func stringsOver(alpha []byte, minLen, maxLen int) []string {
	var out []string
	var rec func(p []byte)
	rec = func(p []byte) {
		if len(p) >= minLen {
			out = append(out, string(p))
		}
		if len(p) == maxLen {
			return
		}
		for _, c := range alpha {
			rec(append(append([]byte{}, p...), c))
		}
	}
	rec(nil)
	return out
}

// sweepSeqs: every prefix (length 0..3) against every key (length 1..3) over
// {0x00,a,b,0xff}, and every (start,end) pair of length 0..2, on a reader that is
// one batch old and on a fresh one. This is the small-scope answer to "does any
// other prefix iterator share the carry bug of F9".
func sweepSeqs() []namedSeq {
	alpha := []byte{0x00, 'a', 'b', 0xff}
	keys := stringsOver(alpha, 1, 3)
	var b1, b2 []Op
	for i, k := range keys {
		b1 = append(b1, set(k, k))
		switch i % 3 {
		case 0:
			b2 = append(b2, del(k))
		case 1:
			b2 = append(b2, set(k, "2"+k))
		}
	}
	pre := &Seq{PartialOK: true, Steps: []Step{{Kind: "batch", Ops: b1, Ex: true}, {Kind: "open", R: 0}, {Kind: "batch", Ops: b2}}}
	for _, p := range stringsOver(alpha, 0, 3) {
		for _, r := range []int{0, -1} {
			pre.Steps = append(pre.Steps,
				Step{Kind: "prefix", R: r, A: B(p), Acts: nexts(len(keys) + 1)},
				Step{Kind: "prefix", R: r, A: B(p), Acts: []IterAct{
					{Seek: true, K: B("")}, {}, {Seek: true, K: B(p + "a")}, {}, {Seek: true, K: B(p + "a\x01")}, {},
					{Seek: true, K: B(p + "\xff")}, {}, {Seek: true, K: B(p + "\xff\xff\xff\xff")}}})
		}
	}
	pre.Steps = append(pre.Steps, Step{Kind: "full", R: 0}, Step{Kind: "close", R: 0}, Step{Kind: "full", R: -1})

	keys2 := stringsOver(alpha, 1, 2)
	var c1, c2 []Op
	for i, k := range keys2 {
		c1 = append(c1, set(k, k))
		if i%2 == 0 {
			c2 = append(c2, del(k))
		}
	}
	rng := &Seq{PartialOK: true, Steps: []Step{{Kind: "batch", Ops: c1}, {Kind: "open", R: 0}, {Kind: "batch", Ops: c2, Ex: true}}}
	bounds := stringsOver(alpha, 0, 2)
	for _, a := range append([]string{"\x00nil"}, bounds...) {
		for _, b := range append([]string{"\x00nil"}, bounds[1:]...) { // an empty non-nil end is not generated
			var A, Bd B
			mid := "a"
			if a != "\x00nil" {
				A = B(a)
				mid = a + "a"
			}
			if b != "\x00nil" {
				Bd = B(b)
			}
			for _, r := range []int{0, -1} {
				rng.Steps = append(rng.Steps, Step{Kind: "range", R: r, A: A, Bd: Bd, Acts: []IterAct{
					{Seek: true, K: B("")}, {}, {Seek: true, K: B(mid)}, {}, {Seek: true, K: B(mid + "\x01")}, {}, {}, {Seek: true, K: B("\xff\xff\xff")}}})
			}
		}
	}
	rng.Steps = append(rng.Steps, Step{Kind: "close", R: 0})
	return []namedSeq{{"sweep/prefix-len3", pre}, {"sweep/range-len2", rng}}
}
