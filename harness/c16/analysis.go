package c16

import (
	"fmt"
	"regexp"
	"strings"
	"time"

	"github.com/blevesearch/bleve/v2/analysis"
	regexpcf "github.com/blevesearch/bleve/v2/analysis/char/regexp"
	"github.com/blevesearch/bleve/v2/analysis/token/compound"
	"github.com/blevesearch/bleve/v2/analysis/token/edgengram"
	"github.com/blevesearch/bleve/v2/analysis/token/elision"
	"github.com/blevesearch/bleve/v2/analysis/token/hierarchy"
	"github.com/blevesearch/bleve/v2/analysis/token/keyword"
	"github.com/blevesearch/bleve/v2/analysis/token/length"
	"github.com/blevesearch/bleve/v2/analysis/token/ngram"
	"github.com/blevesearch/bleve/v2/analysis/token/shingle"
	"github.com/blevesearch/bleve/v2/analysis/token/stop"
	"github.com/blevesearch/bleve/v2/analysis/token/truncate"
	"github.com/blevesearch/bleve/v2/analysis/token/unicodenorm"
	"github.com/blevesearch/bleve/v2/analysis/tokenizer/exception"
	regexptok "github.com/blevesearch/bleve/v2/analysis/tokenizer/regexp"
	_ "github.com/blevesearch/bleve/v2/config"
	"github.com/blevesearch/bleve/v2/registry"
)

// The reference analysis: every custom component of a specification is constructed
// *directly* through its typed Go constructor (length.NewLengthFilter(min,max), ...), never
// through the config-map parsing that the mapping's JSON path exercises. Built-in names come
// from one shared, pristine registry cache.

var builtins = registry.NewCache()

// names of built-in instances the generator refers to
var (
	builtinAnalyzers   = []string{"standard", "keyword", "simple", "web", "en"}
	builtinTokenizers  = []string{"unicode", "whitespace", "letter", "single", "web"}
	builtinCharFilters = []string{"html", "asciifolding", "zero_width_spaces"}
	builtinTokFilters  = []string{"to_lower", "reverse", "apostrophe", "unique", "camelCase", "stop_en", "stemmer_porter", "possessive_en"}
	builtinTokenMaps   = []string{"stop_en", "stop_fr", "articles_fr"}
	builtinDateParsers = []string{"dateTimeOptional", "unix_sec", "unix_milli", "unix_micro", "unix_nano"}
)

func isBuiltinName(kind, name string) bool {
	var err error
	switch kind {
	case kCharFilter:
		_, err = builtins.CharFilterNamed(name)
	case kTokenizer:
		_, err = builtins.TokenizerNamed(name)
	case kTokenMap:
		_, err = builtins.TokenMapNamed(name)
	case kTokenFilter:
		_, err = builtins.TokenFilterNamed(name)
	case kAnalyzer:
		_, err = builtins.AnalyzerNamed(name)
	case kDateParser:
		_, err = builtins.DateTimeParserNamed(name)
	default:
		return false
	}
	return err == nil
}

// styleToGo: the java-style ("isostyle") and strftime-style ("percentstyle") layouts the
// generator uses, with the Go layout each one denotes (our own table).
var styleToGo = map[string]string{
	"yyyy-MM-dd":            "2006-01-02",
	"dd/MM/yyyy":            "02/01/2006",
	"yyyy-MM-dd'T'HH:mm:ss": "2006-01-02T15:04:05",
	"MMM d, yyyy":           "Jan 2, 2006",
	"%Y-%m-%d":              "2006-01-02",
	"%d/%m/%Y":              "02/01/2006",
	"%Y-%m-%d %H:%M:%S":     "2006-01-02 15:04:05",
	"%b %e, %Y":             "Jan 2, 2006",
}

var (
	goLayouts      = []string{"2006-01-02", "02/01/2006", "Jan 2, 2006", time.RFC3339, "2006-01-02 15:04:05", "2006.01.02"}
	isoLayouts     = []string{"yyyy-MM-dd", "dd/MM/yyyy", "yyyy-MM-dd'T'HH:mm:ss", "MMM d, yyyy"}
	percentLayouts = []string{"%Y-%m-%d", "%d/%m/%Y", "%Y-%m-%d %H:%M:%S", "%b %e, %Y"}
)

// refParser is the reference date parser: first Go layout that parses wins.
type refParser struct{ layouts []string }

func (p refParser) ParseDateTime(s string) (time.Time, string, error) {
	for _, l := range p.layouts {
		if t, err := time.Parse(l, s); err == nil {
			return t, l, nil
		}
	}
	return time.Time{}, "", analysis.ErrInvalidDateTime
}

type refAnalysis struct {
	charFilters map[string]analysis.CharFilter
	tokenizers  map[string]analysis.Tokenizer
	tokenMaps   map[string]analysis.TokenMap
	tokFilters  map[string]analysis.TokenFilter
	analyzers   map[string]analysis.Analyzer
	dateParsers map[string]analysis.DateTimeParser
	synonyms    map[string][2]string // name -> {collection, analyzer}
}

func (ra *refAnalysis) charFilter(n string) (analysis.CharFilter, error) {
	if c, ok := ra.charFilters[n]; ok {
		return c, nil
	}
	return builtins.CharFilterNamed(n)
}
func (ra *refAnalysis) tokenizer(n string) (analysis.Tokenizer, error) {
	if c, ok := ra.tokenizers[n]; ok {
		return c, nil
	}
	return builtins.TokenizerNamed(n)
}
func (ra *refAnalysis) tokenMap(n string) (analysis.TokenMap, error) {
	if c, ok := ra.tokenMaps[n]; ok {
		return c, nil
	}
	return builtins.TokenMapNamed(n)
}
func (ra *refAnalysis) tokFilter(n string) (analysis.TokenFilter, error) {
	if c, ok := ra.tokFilters[n]; ok {
		return c, nil
	}
	return builtins.TokenFilterNamed(n)
}
func (ra *refAnalysis) analyzer(n string) analysis.Analyzer {
	if c, ok := ra.analyzers[n]; ok {
		return c
	}
	a, err := builtins.AnalyzerNamed(n)
	if err != nil {
		return nil
	}
	return a
}
func (ra *refAnalysis) dateParser(n string) analysis.DateTimeParser {
	if c, ok := ra.dateParsers[n]; ok {
		return c
	}
	p, err := builtins.DateTimeParserNamed(n)
	if err != nil {
		return nil
	}
	return p
}

// buildRef constructs the reference analysis of a specification.
func buildRef(s *indexSpec) (*refAnalysis, error) {
	ra := &refAnalysis{
		charFilters: map[string]analysis.CharFilter{}, tokenizers: map[string]analysis.Tokenizer{},
		tokenMaps: map[string]analysis.TokenMap{}, tokFilters: map[string]analysis.TokenFilter{},
		analyzers: map[string]analysis.Analyzer{}, dateParsers: map[string]analysis.DateTimeParser{},
		synonyms: map[string][2]string{},
	}
	for _, c := range s.Analysis {
		if err := ra.define(c); err != nil {
			return nil, fmt.Errorf("%s %q: %v", c.Kind, c.Name, err)
		}
	}
	return ra, nil
}

func (ra *refAnalysis) define(c *comp) error {
	intOr := func(k string, def int) int {
		if v, ok := c.Int[k]; ok {
			return v
		}
		return def
	}
	strOr := func(k, def string) string {
		if v, ok := c.Str[k]; ok {
			return v
		}
		return def
	}
	switch c.Kind {
	case kCharFilter:
		switch c.Type {
		case "regexp":
			re, err := regexp.Compile(c.Str["regexp"])
			if err != nil {
				return err
			}
			ra.charFilters[c.Name] = regexpcf.New(re, []byte(strOr("replace", " ")))
		default:
			cf, err := builtins.CharFilterNamed(c.Type)
			if err != nil {
				return err
			}
			ra.charFilters[c.Name] = cf
		}
	case kTokenizer:
		switch c.Type {
		case "regexp":
			re, err := regexp.Compile(c.Str["regexp"])
			if err != nil {
				return err
			}
			ra.tokenizers[c.Name] = regexptok.NewRegexpTokenizer(re)
		case "exception":
			re, err := regexp.Compile(strings.Join(c.List["exceptions"], "|"))
			if err != nil {
				return err
			}
			rem, err := ra.tokenizer(c.Str["tokenizer"])
			if err != nil {
				return err
			}
			ra.tokenizers[c.Name] = exception.NewExceptionsTokenizer(re, rem)
		default:
			t, err := builtins.TokenizerNamed(c.Type)
			if err != nil {
				return err
			}
			ra.tokenizers[c.Name] = t
		}
	case kTokenMap:
		tm := analysis.NewTokenMap()
		for _, t := range c.List["tokens"] {
			tm.AddToken(t)
		}
		ra.tokenMaps[c.Name] = tm
	case kTokenFilter:
		var tf analysis.TokenFilter
		switch c.Type {
		case "length":
			tf = length.NewLengthFilter(intOr("min", 0), intOr("max", 0))
		case "truncate_token":
			tf = truncate.NewTruncateTokenFilter(c.Int["length"])
		case "ngram":
			tf = ngram.NewNgramFilter(c.Int["min"], c.Int["max"])
		case "edge_ngram":
			side := edgengram.FRONT
			if c.Bool["back"] {
				side = edgengram.BACK
			}
			tf = edgengram.NewEdgeNgramFilter(side, c.Int["min"], c.Int["max"])
		case "shingle":
			tf = shingle.NewShingleFilter(c.Int["min"], c.Int["max"], c.Bool["output_original"],
				strOr("separator", " "), strOr("filler", "_"))
		case "stop_tokens":
			tm, err := ra.tokenMap(c.Str["stop_token_map"])
			if err != nil {
				return err
			}
			tf = stop.NewStopTokensFilter(tm)
		case "dict_compound":
			tm, err := ra.tokenMap(c.Str["dict_token_map"])
			if err != nil {
				return err
			}
			onlyLongest := false
			if v, ok := c.Bool["only_longest_match"]; ok {
				onlyLongest = v
			}
			// documented defaults of the dictionary compound filter: 5 / 2 / 15 / false
			tf = compound.NewDictionaryCompoundFilter(tm, intOr("min_word_size", 5), intOr("min_subword_size", 2),
				intOr("max_subword_size", 15), onlyLongest)
		case "elision":
			tm, err := ra.tokenMap(c.Str["articles_token_map"])
			if err != nil {
				return err
			}
			tf = elision.NewElisionFilter(tm)
		case "keyword_marker":
			tm, err := ra.tokenMap(c.Str["keywords_token_map"])
			if err != nil {
				return err
			}
			tf = keyword.NewKeyWordMarkerFilter(tm)
		case "normalize_unicode":
			f, err := unicodenorm.NewUnicodeNormalizeFilter(c.Str["form"])
			if err != nil {
				return err
			}
			tf = f
		case "hierarchy":
			split := true
			if v, ok := c.Bool["split_input"]; ok {
				split = v
			}
			tf = hierarchy.NewHierarchyFilter([]byte(c.Str["delimiter"]), intOr("max", int(^uint(0)>>1)), split)
		default:
			f, err := builtins.TokenFilterNamed(c.Type)
			if err != nil {
				return err
			}
			tf = f
		}
		ra.tokFilters[c.Name] = tf
	case kAnalyzer:
		switch c.Type {
		case "custom":
			a := &analysis.DefaultAnalyzer{}
			for _, n := range c.List["char_filters"] {
				cf, err := ra.charFilter(n)
				if err != nil {
					return err
				}
				a.CharFilters = append(a.CharFilters, cf)
			}
			t, err := ra.tokenizer(c.Str["tokenizer"])
			if err != nil {
				return err
			}
			a.Tokenizer = t
			for _, n := range c.List["token_filters"] {
				f, err := ra.tokFilter(n)
				if err != nil {
					return err
				}
				a.TokenFilters = append(a.TokenFilters, f)
			}
			ra.analyzers[c.Name] = a
		default:
			a, err := builtins.AnalyzerNamed(c.Type)
			if err != nil {
				return err
			}
			ra.analyzers[c.Name] = a
		}
	case kDateParser:
		switch c.Type {
		case "flexiblego", "sanitizedgo":
			ra.dateParsers[c.Name] = refParser{append([]string{}, c.List["layouts"]...)}
		case "isostyle", "percentstyle":
			var ls []string
			for _, l := range c.List["layouts"] {
				g, ok := styleToGo[l]
				if !ok {
					return fmt.Errorf("layout %q not in table", l)
				}
				ls = append(ls, g)
			}
			ra.dateParsers[c.Name] = refParser{ls}
		default:
			p, err := builtins.DateTimeParserNamed(c.Type)
			if err != nil {
				return err
			}
			ra.dateParsers[c.Name] = p
		}
	case kSynonym:
		ra.synonyms[c.Name] = [2]string{c.Str["collection"], c.Str["analyzer"]}
	default:
		return fmt.Errorf("unknown kind %q", c.Kind)
	}
	return nil
}
