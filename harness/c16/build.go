package c16

import (
	"fmt"

	"github.com/blevesearch/bleve/v2/mapping"
)

// buildMapping constructs the bleve mapping of a specification through the public Go API
// only (constructors, AddCustom*, Add*Mapping, exported struct fields). Nothing here goes
// through JSON, so this is the "original" every JSON form is compared with.
func buildMapping(s *indexSpec) (*mapping.IndexMappingImpl, error) {
	im := mapping.NewIndexMapping()
	for _, c := range s.Analysis {
		cfg := c.config(true)
		var err error
		switch c.Kind {
		case kCharFilter:
			err = im.AddCustomCharFilter(c.Name, cfg)
		case kTokenizer:
			err = im.AddCustomTokenizer(c.Name, cfg)
		case kTokenMap:
			err = im.AddCustomTokenMap(c.Name, cfg)
		case kTokenFilter:
			err = im.AddCustomTokenFilter(c.Name, cfg)
		case kAnalyzer:
			err = im.AddCustomAnalyzer(c.Name, cfg)
		case kDateParser:
			err = im.AddCustomDateTimeParser(c.Name, cfg)
		case kSynonym:
			err = im.AddSynonymSource(c.Name, cfg)
		default:
			err = fmt.Errorf("unknown kind %q", c.Kind)
		}
		if err != nil {
			return nil, fmt.Errorf("%s %q: %v", c.Kind, c.Name, err)
		}
	}
	// definitions the mapping must refuse (unknown component type, reference to an undefined tokenizer, a name
	// that is already taken): a refused call returns an error and must leave no trace in the mapping or its JSON
	_ = im.AddCustomTokenFilter("c16_refused_tf", map[string]interface{}{"type": "c16_no_such_type"})
	_ = im.AddCustomAnalyzer("c16_refused_an", map[string]interface{}{"type": "custom", "tokenizer": "c16_no_such_tokenizer"})
	for _, c := range s.Analysis {
		if c.Kind == kAnalyzer {
			_ = im.AddCustomAnalyzer(c.Name, map[string]interface{}{"type": "custom", "tokenizer": "single"})
			break
		}
	}
	im.DefaultMapping = buildDoc(s.Default)
	for _, n := range s.TypeNames {
		im.AddDocumentMapping(n, buildDoc(s.Types[n]))
	}
	im.TypeField = s.TypeField
	im.DefaultType = s.DefaultType
	im.DefaultAnalyzer = s.DefaultAnalyzer
	im.DefaultDateTimeParser = s.DefaultDateTime
	im.DefaultSynonymSource = s.DefaultSynonym
	im.ScoringModel = s.ScoringModel
	im.DefaultField = s.DefaultField
	im.StoreDynamic = s.StoreDynamic
	im.IndexDynamic = s.IndexDynamic
	im.DocValuesDynamic = s.DocValuesDynamic
	return im, nil
}

func buildDoc(d *docSpec) *mapping.DocumentMapping {
	var dm *mapping.DocumentMapping
	switch {
	case d.Enabled && d.Dynamic && d.Nested:
		dm = mapping.NewNestedDocumentMapping()
	case d.Enabled && d.Dynamic:
		dm = mapping.NewDocumentMapping()
	case d.Enabled && d.Nested:
		dm = mapping.NewNestedDocumentStaticMapping()
	case d.Enabled:
		dm = mapping.NewDocumentStaticMapping()
	case !d.Dynamic && !d.Nested:
		dm = mapping.NewDocumentDisabledMapping()
	default:
		dm = mapping.NewDocumentMapping()
	}
	dm.Enabled, dm.Dynamic, dm.Nested = d.Enabled, d.Dynamic, d.Nested
	dm.DefaultAnalyzer = d.DefAnalyzer
	dm.DefaultSynonymSource = d.DefSynonym
	dm.StructTagKey = d.StructTagKey
	for _, n := range d.PropNames {
		dm.AddSubDocumentMapping(n, buildDoc(d.Props[n]))
	}
	for _, f := range d.Fields {
		dm.AddFieldMapping(buildField(f))
	}
	return dm
}

func buildField(f *fieldSpec) *mapping.FieldMapping {
	var fm *mapping.FieldMapping
	switch f.Type {
	case "text":
		fm = mapping.NewTextFieldMapping()
	case "number":
		fm = mapping.NewNumericFieldMapping()
	case "datetime":
		fm = mapping.NewDateTimeFieldMapping()
	case "boolean":
		fm = mapping.NewBooleanFieldMapping()
	case "geopoint":
		fm = mapping.NewGeoPointFieldMapping()
	case "IP":
		fm = mapping.NewIPFieldMapping()
	default:
		fm = &mapping.FieldMapping{Type: f.Type}
	}
	fm.Name = f.Name
	fm.Analyzer = f.Analyzer
	fm.Store, fm.Index, fm.IncludeTermVectors, fm.IncludeInAll = f.Store, f.Index, f.TV, f.InAll
	fm.DocValues, fm.SkipFreqNorm = f.DocValues, f.SkipFreqNorm
	fm.DateFormat = f.DateFormat
	fm.SynonymSource = f.SynonymSrc
	fm.GPU, fm.Dims, fm.Similarity, fm.VectorIndexOptimizedFor = f.GPU, f.Dims, f.Similarity, f.VecOpt
	return fm
}
