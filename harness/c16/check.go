package c16

import (
	"bytes"
	"encoding/json"
	"fmt"
	"os"
	"reflect"
	"regexp"
	"sort"
	"strings"

	"github.com/blevesearch/bleve/v2"
	"github.com/blevesearch/bleve/v2/document"
	"github.com/blevesearch/bleve/v2/index/upsidedown"
	"github.com/blevesearch/bleve/v2/index/upsidedown/store/boltdb"
	"github.com/blevesearch/bleve/v2/mapping"
	"github.com/blevesearch/bleve/v2/search"
	"github.com/blevesearch/bleve/v2/search/query"

	"verifharness/ev"
)

// finding is one observed deviation. stage names the check, kind the syntactic shape of the
// difference; both go into the violation class together with the features of the shrunk
// specification.
type finding struct {
	Stage  string `json:"stage"`
	Kind   string `json:"kind"`
	Detail string `json:"detail"`
	Doc    int    `json:"doc"` // index of the document, -1 if none
}

type caseInput struct {
	Spec *indexSpec
	Docs []interface{}
}

type checkOpts struct {
	unmarshalTries int    // parse the JSON this many times (map iteration order in registerAll)
	sparseSeed     uint64 // which default-valued keys the sparse form omits
	indexDir       string // non-empty: also run the real-index path in this directory
	upsidedown     bool
	onlyStage      string // shrinking: stop after the first finding of this stage and kind
	onlyKind       string
}

type caseResult struct {
	invalid      string // non-empty: the generator produced something bleve rejects (not a finding)
	findings     []finding
	touched      []map[string]bool // per document: non-default options the document touched
	fields       int               // number of fields the original produced over all documents
	tokens       int
	nestedDocs   int
	indexed      bool
	searchHits   int
	searchProbed bool
}

func mapDoc(im mapping.IndexMapping, id string, data interface{}) (c *cDoc, panicMsg string) {
	p, val, _ := ev.Guard(func() {
		doc := document.NewDocument(id)
		if err := im.MapDocument(doc, data); err != nil {
			panic(fmt.Sprintf("MapDocument error: %v", err))
		}
		c = canon(doc, false)
	})
	if p {
		return nil, fmt.Sprint(val)
	}
	return c, ""
}

func errKind(err error) string {
	s := err.Error()
	for _, k := range []string{"already defined", "no tokenizer with name or type", "no analyzer with name or type",
		"no token filter with name or type", "no token map with name or type", "no char filter with name or type",
		"no date time parser with name or type", "no synonym source", "must specify", "cannot be nested",
		"unknown field type", "unsupported scoring model", "either min or max"} {
		if strings.Contains(s, k) {
			return strings.ReplaceAll(k, " ", "-")
		}
	}
	return "other"
}

func jsonSemEqual(a, b []byte) (bool, string) {
	var x, y interface{}
	if err := json.Unmarshal(a, &x); err != nil {
		return false, "not JSON: " + err.Error()
	}
	if err := json.Unmarshal(b, &y); err != nil {
		return false, "not JSON: " + err.Error()
	}
	if reflect.DeepEqual(x, y) {
		return true, ""
	}
	return false, firstJSONDiff("", x, y)
}

func firstJSONDiff(path string, x, y interface{}) string {
	xm, xok := x.(map[string]interface{})
	ym, yok := y.(map[string]interface{})
	if xok && yok {
		keys := map[string]bool{}
		for k := range xm {
			keys[k] = true
		}
		for k := range ym {
			keys[k] = true
		}
		var ks []string
		for k := range keys {
			ks = append(ks, k)
		}
		sort.Strings(ks)
		for _, k := range ks {
			xv, xh := xm[k]
			yv, yh := ym[k]
			if !xh {
				return fmt.Sprintf("%s/%s: absent vs %s", path, k, js(yv))
			}
			if !yh {
				return fmt.Sprintf("%s/%s: %s vs absent", path, k, js(xv))
			}
			if !reflect.DeepEqual(xv, yv) {
				return firstJSONDiff(path+"/"+k, xv, yv)
			}
		}
	}
	xl, xok := x.([]interface{})
	yl, yok := y.([]interface{})
	if xok && yok && len(xl) == len(yl) {
		for i := range xl {
			if !reflect.DeepEqual(xl[i], yl[i]) {
				return firstJSONDiff(fmt.Sprintf("%s[%d]", path, i), xl[i], yl[i])
			}
		}
	}
	return fmt.Sprintf("%s: %s vs %s", path, js(x), js(y))
}

func js(v interface{}) string {
	b, _ := json.Marshal(v)
	if len(b) > 160 {
		return string(b[:160]) + "…"
	}
	return string(b)
}

// jsonKeyOf reduces a JSON diff path to its last key (narrow class: which key was lost).
func jsonKeyOf(diff string) string {
	p := diff
	if i := strings.Index(p, ": "); i >= 0 {
		p = p[:i]
	}
	if i := strings.LastIndex(p, "/"); i >= 0 {
		p = p[i+1:]
	}
	if i := strings.Index(p, "["); i >= 0 {
		p = p[:i]
	}
	return p
}

// checkCase runs every oracle on one (specification, documents) case.
func checkCase(in *caseInput, o checkOpts) *caseResult {
	res := &caseResult{}
	add := func(stage, kind, detail string, doc int) bool {
		res.findings = append(res.findings, finding{stage, kind, detail, doc})
		return o.onlyStage != "" && stage == o.onlyStage && kind == o.onlyKind
	}
	spec := in.Spec

	// the original, through the Go API only
	orig, err := buildMapping(spec)
	if err != nil {
		res.invalid = "build: " + err.Error()
		return res
	}
	if err := orig.Validate(); err != nil {
		res.invalid = "validate: " + err.Error()
		return res
	}
	ref, err := buildRef(spec)
	if err != nil {
		res.invalid = "reference analysis: " + err.Error()
		return res
	}
	j0, err := json.Marshal(orig)
	if err != nil {
		add("marshal", "error", err.Error(), -1)
		return res
	}

	// 1. what bleve marshals is what the specification says (our own writer)
	want, _ := json.Marshal(spec.toJSON(nil))
	if ok, d := jsonSemEqual(want, j0); !ok {
		if add("marshal-vs-spec", jsonKeyOf(d), "expected vs marshalled: "+d, -1) {
			return res
		}
	}

	// 2. the original's view of the documents, and the model's
	mdl := newModel(spec, ref)
	origDocs := make([]*cDoc, len(in.Docs))
	for i, d := range in.Docs {
		id := fmt.Sprintf("d%d", i)
		c, pm := mapDoc(orig, id, d)
		if pm != "" {
			res.invalid = "original MapDocument panicked: " + pm
			return res
		}
		origDocs[i] = c
		res.fields += len(c.Fields)
		for _, f := range c.Fields {
			res.tokens += f.Length
		}
		res.nestedDocs += len(c.Nested)
		md, touched := mdl.mapDocument(id, d)
		res.touched = append(res.touched, touched)
		if k, det := diffDocs(canon(md, false), c); k != "" {
			if add("model", k, "model vs original: "+det, i) {
				return res
			}
		}
	}

	compareDocs := func(stage string, im mapping.IndexMapping) bool {
		for i, d := range in.Docs {
			c, pm := mapDoc(im, fmt.Sprintf("d%d", i), d)
			if pm != "" {
				if add(stage, "panic", pm, i) {
					return true
				}
				continue
			}
			if k, det := diffDocs(origDocs[i], c); k != "" {
				if add(stage, k, "original vs reparsed: "+det, i) {
					return true
				}
			}
		}
		return false
	}

	// 3. JSON round trip (several parses: registration order inside UnmarshalJSON follows Go map
	// iteration, which is random)
	var rt *mapping.IndexMappingImpl
	for try := 0; try < o.unmarshalTries; try++ {
		var im mapping.IndexMappingImpl
		if err := json.Unmarshal(j0, &im); err != nil {
			if add("unmarshal", errKind(err), err.Error(), -1) {
				return res
			}
			continue
		}
		if err := im.Validate(); err != nil {
			if add("validate", errKind(err), err.Error(), -1) {
				return res
			}
			continue
		}
		j1, err := json.Marshal(&im)
		if err != nil {
			add("marshal", "error-after-roundtrip", err.Error(), -1)
			continue
		}
		if !bytes.Equal(j0, j1) {
			_, d := jsonSemEqual(j0, j1)
			if add("fixpoint", jsonKeyOf(d), "first vs second marshal: "+d, -1) {
				return res
			}
		}
		if rt == nil {
			rt = &im
		}
	}
	if rt != nil {
		if compareDocs("mapdoc", rt) {
			return res
		}
		if auxCompare(orig, rt, in, add, "aux") {
			return res
		}
	}

	// 4. sparse form: keys at their documented default are omitted
	sg := newSplit(o.sparseSeed)
	sparse, _ := json.Marshal(spec.toJSON(func() bool { return sg.next()%10 < 7 }))
	{
		var im mapping.IndexMappingImpl
		if err := json.Unmarshal(sparse, &im); err != nil {
			if add("sparse-unmarshal", errKind(err), err.Error(), -1) {
				return res
			}
		} else if err := im.Validate(); err != nil {
			if add("sparse-validate", errKind(err), err.Error(), -1) {
				return res
			}
		} else {
			js1, _ := json.Marshal(&im)
			if !bytes.Equal(j0, js1) {
				_, d := jsonSemEqual(j0, js1)
				if add("sparse-json", jsonKeyOf(d), "original vs parsed sparse form: "+d, -1) {
					return res
				}
			}
			if compareDocs("sparse-mapdoc", &im) {
				return res
			}
		}
	}

	// 5. through a real index
	if o.indexDir != "" {
		indexPath(in, orig, j0, origDocs, o, res, add, compareDocs)
	}
	return res
}

type split struct{ s uint64 }

func newSplit(s uint64) *split { return &split{s} }
func (r *split) next() uint64 {
	r.s += 0x9e3779b97f4a7c15
	z := r.s
	z = (z ^ (z >> 30)) * 0xbf58476d1ce4e5b9
	z = (z ^ (z >> 27)) * 0x94d049bb133111eb
	return z ^ (z >> 31)
}

// auxCompare compares the answers of the mapping's other public queries that the index and
// the searchers rely on.
func auxCompare(orig, rt *mapping.IndexMappingImpl, in *caseInput, add func(string, string, string, int) bool, stage string) bool {
	if a, b := orig.DefaultSearchField(), rt.DefaultSearchField(); a != b {
		if add(stage, "default-search-field", fmt.Sprintf("%q vs %q", a, b), -1) {
			return true
		}
	}
	if a, b := orig.CountNested(), rt.CountNested(); a != b {
		if add(stage, "count-nested", fmt.Sprintf("%d vs %d", a, b), -1) {
			return true
		}
	}
	if a, b := orig.SynonymCount(), rt.SynonymCount(); a != b {
		if add(stage, "synonym-count", fmt.Sprintf("%d vs %d", a, b), -1) {
			return true
		}
	}
	// nested depth of every mapped path
	var paths []string
	in.Spec.allDocSpecs(func(path []string, d *docSpec, root bool) {
		if len(path) > 0 {
			paths = append(paths, strings.Join(path, "."), strings.Join(path, ".")+".leaf")
		}
	})
	// buildNestedPrefixes folds all type mappings into one path->depth map in map order; with
	// two or more type mappings that disagree about a path the answer is arbitrary
	for _, p := range paths {
		if len(in.Spec.Types) > 1 {
			break
		}
		fs := search.FieldSet{p: struct{}{}}
		a1, a2 := orig.NestedDepth(fs)
		b1, b2 := rt.NestedDepth(fs)
		if a1 != b1 || a2 != b2 {
			if add(stage, "nested-depth", fmt.Sprintf("path %q: (%d,%d) vs (%d,%d)", p, a1, a2, b1, b2), -1) {
				return true
			}
			break
		}
	}
	for _, p := range paths {
		fs := search.FieldSet{p: struct{}{}}
		if a, b := orig.IntersectsPrefix(fs), rt.IntersectsPrefix(fs); a != b {
			if add(stage, "intersects-prefix", fmt.Sprintf("path %q: %v vs %v", p, a, b), -1) {
				return true
			}
			break
		}
	}
	if (orig.DateTimeParserNamed("") == nil) != (rt.DateTimeParserNamed("") == nil) {
		if add(stage, "default-datetime-parser", "DateTimeParserNamed(\"\") nil-ness differs", -1) {
			return true
		}
	}
	// the per-path queries iterate over the type mappings, and over the properties when a field
	// is addressed by an alias name, in map order; they are only deterministic with at most one
	// type mapping and no field aliases
	aliases := false
	for _, f := range in.Spec.features() {
		if f == "field.name" {
			aliases = true
		}
	}
	if len(in.Spec.Types) <= 1 && !aliases {
		for _, p := range paths {
			if a, b := orig.AnalyzerNameForPath(p), rt.AnalyzerNameForPath(p); a != b {
				if add(stage, "analyzer-name-for-path", fmt.Sprintf("path %q: %q vs %q", p, a, b), -1) {
					return true
				}
				break
			}
			if a, b := orig.FieldMappingForPath(p), rt.FieldMappingForPath(p); a != b {
				if add(stage, "field-mapping-for-path", fmt.Sprintf("path %q: %+v vs %+v", p, a, b), -1) {
					return true
				}
				break
			}
			if a, b := orig.SynonymSourceForPath(p), rt.SynonymSourceForPath(p); a != b {
				if add(stage, "synonym-source-for-path", fmt.Sprintf("path %q: %q vs %q", p, a, b), -1) {
					return true
				}
				break
			}
		}
	}
	// synonym documents
	for _, c := range in.Spec.comps(kSynonym) {
		da, db := document.NewSynonymDocument("s"), document.NewSynonymDocument("s")
		ea := orig.MapSynonymDocument(da, c.Str["collection"], []string{"Alpha"}, []string{"The Beta", "gamma"})
		eb := rt.MapSynonymDocument(db, c.Str["collection"], []string{"Alpha"}, []string{"The Beta", "gamma"})
		if (ea == nil) != (eb == nil) {
			if add(stage, "synonym-doc", fmt.Sprintf("error %v vs %v", ea, eb), -1) {
				return true
			}
			continue
		}
		if a, b := synImage(da), synImage(db); a != b {
			if add(stage, "synonym-doc", fmt.Sprintf("%s vs %s", a, b), -1) {
				return true
			}
		}
	}
	return false
}

func synImage(d *document.Document) string {
	var parts []string
	for _, f := range d.Fields {
		sf, ok := f.(*document.SynonymField)
		if !ok {
			continue
		}
		sf.Analyze()
		var terms []string
		sf.IterateSynonyms(func(term string, syns []string) {
			terms = append(terms, term+"=>"+strings.Join(syns, "|"))
		})
		sort.Strings(terms)
		parts = append(parts, sf.Name()+"{"+strings.Join(terms, ",")+"}")
	}
	sort.Strings(parts)
	return strings.Join(parts, ";")
}

// pickTerm chooses an indexed text term of the original documents for the score probe.
func pickTerm(docs []*cDoc) (field, term string) {
	for _, d := range docs {
		for _, f := range d.Fields {
			if f.Type == 't' && f.Analyzed && len(f.Freqs) > 0 && f.Freqs[0].Freq > 0 && f.Name != "" {
				return f.Name, f.Freqs[0].Term
			}
		}
	}
	return "", ""
}

// optionConflict: some field name occurs with two different (type, options) pairs in the
// document set (two field mappings share a name, or a type mapping maps it differently).
func optionConflict(docs []*cDoc) bool {
	seen := map[string][2]uint64{}
	conflict := false
	var visit func(d *cDoc)
	visit = func(d *cDoc) {
		for _, f := range d.Fields {
			v := [2]uint64{uint64(f.Type), f.Options}
			if old, ok := seen[f.Name]; ok && old != v {
				conflict = true
			}
			seen[f.Name] = v
		}
		for _, n := range d.Nested {
			visit(n)
		}
	}
	for _, d := range docs {
		visit(d)
	}
	return conflict
}

type hit struct {
	ID    string
	Model string // scoring model named in the hit's explanation
}

var modelRe = regexp.MustCompile(`as per (\S+) model`)

func explModel(e *search.Explanation) string {
	if e == nil {
		return ""
	}
	if m := modelRe.FindStringSubmatch(e.Message); m != nil {
		return m[1]
	}
	for _, c := range e.Children {
		if m := explModel(c); m != "" {
			return m
		}
	}
	return ""
}

// probe runs a term query with explanations and reports, per hit, which scoring model the
// index applied (the model is taken from the mapping at search time).
func probe(idx bleve.Index, field, term string) ([]hit, error) {
	var q query.Query
	if field == "" {
		return nil, nil
	}
	tq := bleve.NewTermQuery(term)
	tq.SetField(field)
	q = tq
	req := bleve.NewSearchRequestOptions(q, 50, 0, true)
	req.SortBy([]string{"_id"})
	sr, err := idx.Search(req)
	if err != nil {
		return nil, err
	}
	var out []hit
	for _, h := range sr.Hits {
		out = append(out, hit{h.ID, explModel(h.Expl)})
	}
	return out, nil
}

// indexPath: create a real index with the original mapping, index the documents, close,
// reopen, and compare Index.Mapping() (JSON and MapDocument) and the scores of a term query
// (the scoring model lives in the mapping) before and after the reopen.
func indexPath(in *caseInput, orig *mapping.IndexMappingImpl, j0 []byte, origDocs []*cDoc, o checkOpts,
	res *caseResult, add func(string, string, string, int) bool, compareDocs func(string, mapping.IndexMapping) bool) {
	defer os.RemoveAll(o.indexDir)
	var idx bleve.Index
	var err error
	if o.upsidedown {
		idx, err = bleve.NewUsing(o.indexDir, orig, upsidedown.Name, boltdb.Name, nil)
	} else {
		idx, err = bleve.New(o.indexDir, orig)
	}
	if err != nil {
		add("index-create", errKind(err), err.Error(), -1)
		return
	}
	res.indexed = true
	// Documents are only indexed when every field name carries one (type, options) pair over
	// the whole document set. Otherwise scorch's merger changes what is searchable (segment
	// field options are AND-ed, so postings of a field that is indexed in one document and
	// not in another are dropped) or even dies (a name that is a geopoint in one segment and
	// text in another makes zapx snappy-decode into the read-only mmap) — index defects outside
	// this property. The mapping is still stored, reopened and compared for such cases.
	indexErr := optionConflict(origDocs)
	for i, d := range in.Docs {
		if indexErr {
			break
		}
		p, val, _ := ev.Guard(func() {
			if err := idx.Index(fmt.Sprintf("d%d", i), d); err != nil {
				indexErr = true
			}
		})
		if p {
			indexErr = true
			_ = val
		}
	}
	field, term := pickTerm(origDocs)
	var before []hit
	var berr error
	if !indexErr {
		before, berr = probe(idx, field, term)
	}
	if err := idx.Close(); err != nil {
		add("index-close", "error", err.Error(), -1)
		return
	}
	idx2, err := bleve.Open(o.indexDir)
	if err != nil {
		add("index-open", errKind(err), err.Error(), -1)
		return
	}
	defer idx2.Close()
	im2, ok := idx2.Mapping().(*mapping.IndexMappingImpl)
	if !ok {
		add("index-open", "mapping-type", fmt.Sprintf("Index.Mapping() is %T", idx2.Mapping()), -1)
		return
	}
	j2, err := json.Marshal(im2)
	if err != nil {
		add("index-json", "marshal-error", err.Error(), -1)
		return
	}
	if !bytes.Equal(j0, j2) {
		_, d := jsonSemEqual(j0, j2)
		if add("index-json", jsonKeyOf(d), "created vs reopened Index.Mapping(): "+d, -1) {
			return
		}
	}
	if compareDocs("index-mapdoc", im2) {
		return
	}
	if !indexErr && berr == nil && len(before) > 0 {
		after, aerr := probe(idx2, field, term)
		if aerr != nil {
			add("index-search", "error-after-reopen", aerr.Error(), -1)
			return
		}
		// Only the scoring model is a function of the mapping. Hit sets and score values also
		// depend on how scorch persisted and merged the segments in the meantime (other
		// properties), so they are not compared here.
		am := map[string]string{}
		for _, h := range after {
			am[h.ID] = h.Model
		}
		for _, h := range before {
			a, ok := am[h.ID]
			if !ok {
				continue
			}
			res.searchProbed = true
			res.searchHits++
			if a != h.Model {
				add("index-search", "scoring-model", fmt.Sprintf("term %q in %q: hit %s scored as per %q before close and as per %q after reopen (mapping scoring_model %q)",
					term, field, h.ID, h.Model, a, in.Spec.ScoringModel), -1)
				return
			}
		}
	}
}
