package main

import (
	_ "verifharness/c16"
	"verifharness/ev"
)

func main() { ev.Main() }
