package c16

import (
	"bytes"
	"fmt"
	"sort"

	"github.com/blevesearch/bleve/v2/document"
	index "github.com/blevesearch/bleve_index_api"
)

// Canonical, order-independent image of a mapped document after analysis. Map iteration in
// walkDocument makes field order arbitrary, so fields are compared as sorted multisets.

type cLoc struct {
	Field      string
	ArrayPos   string
	Start, End int
	Position   int
}

type cFreq struct {
	Term string
	Freq int
	Locs []cLoc
}

type cField struct {
	Name     string
	Type     byte
	ArrayPos string
	Options  uint64
	Value    string
	Plain    uint64
	Length   int
	Analyzed bool
	Freqs    []cFreq
}

type cDoc struct {
	ID        string
	Indexed   bool
	Fields    []cField
	Composite []cField
	Nested    []*cDoc
}

func posKey(p []uint64) string { return fmt.Sprint(p) }

func canonFreqs(tfs index.TokenFrequencies) []cFreq {
	out := make([]cFreq, 0, len(tfs))
	for k, tf := range tfs {
		cf := cFreq{Term: k, Freq: tf.Frequency()}
		if string(tf.Term) != k {
			cf.Term = k + "\x00!=" + string(tf.Term)
		}
		for _, l := range tf.Locations {
			cf.Locs = append(cf.Locs, cLoc{l.Field, posKey(l.ArrayPositions), l.Start, l.End, l.Position})
		}
		sort.Slice(cf.Locs, func(i, j int) bool {
			a, b := cf.Locs[i], cf.Locs[j]
			if a.Field != b.Field {
				return a.Field < b.Field
			}
			if a.ArrayPos != b.ArrayPos {
				return a.ArrayPos < b.ArrayPos
			}
			if a.Position != b.Position {
				return a.Position < b.Position
			}
			if a.Start != b.Start {
				return a.Start < b.Start
			}
			return a.End < b.End
		})
		out = append(out, cf)
	}
	sort.Slice(out, func(i, j int) bool { return out[i].Term < out[j].Term })
	return out
}

func fieldLess(a, b *cField) bool {
	if a.Name != b.Name {
		return a.Name < b.Name
	}
	if a.ArrayPos != b.ArrayPos {
		return a.ArrayPos < b.ArrayPos
	}
	if a.Type != b.Type {
		return a.Type < b.Type
	}
	if a.Options != b.Options {
		return a.Options < b.Options
	}
	if a.Value != b.Value {
		return a.Value < b.Value
	}
	return fmt.Sprint(a.Freqs) < fmt.Sprint(b.Freqs)
}

// canon analyses the document the way the index does (every indexed field is analysed and
// folded into the composite fields; nested documents get their _id field) and returns the
// canonical image. It mutates doc, so each mapped document is canonicalised exactly once.
func canon(doc *document.Document, nested bool) *cDoc {
	c := &cDoc{ID: doc.ID(), Indexed: doc.Indexed()}
	if nested {
		doc.AddIDField()
	}
	for _, f := range doc.Fields {
		cf := cField{Name: f.Name(), Type: f.EncodedFieldType(), ArrayPos: posKey(f.ArrayPositions()),
			Options: uint64(f.Options()), Value: string(f.Value()), Plain: f.NumPlainTextBytes()}
		if f.Options().IsIndexed() {
			f.Analyze()
			cf.Analyzed = true
			cf.Length = f.AnalyzedLength()
			cf.Freqs = canonFreqs(f.AnalyzedTokenFrequencies())
			if f.Name() != "_id" {
				for _, comp := range doc.CompositeFields {
					comp.Compose(f.Name(), f.AnalyzedLength(), f.AnalyzedTokenFrequencies())
				}
			}
		}
		c.Fields = append(c.Fields, cf)
	}
	sort.Slice(c.Fields, func(i, j int) bool { return fieldLess(&c.Fields[i], &c.Fields[j]) })
	for _, comp := range doc.CompositeFields {
		c.Composite = append(c.Composite, cField{Name: comp.Name(), Type: comp.EncodedFieldType(),
			Options: uint64(comp.Options()), Length: comp.AnalyzedLength(), Analyzed: true,
			Freqs: canonFreqs(comp.AnalyzedTokenFrequencies())})
	}
	sort.Slice(c.Composite, func(i, j int) bool { return fieldLess(&c.Composite[i], &c.Composite[j]) })
	for _, nd := range doc.NestedDocuments {
		c.Nested = append(c.Nested, canon(nd, true))
	}
	sort.SliceStable(c.Nested, func(i, j int) bool { return c.Nested[i].ID < c.Nested[j].ID })
	return c
}

// diff describes the first difference between two canonical documents: kind is a short
// syntactic tag (used in violation classes), detail is for humans.
func diffDocs(a, b *cDoc) (kind, detail string) {
	if a.ID != b.ID {
		return "doc-id", fmt.Sprintf("%q vs %q", a.ID, b.ID)
	}
	if a.Indexed != b.Indexed {
		return "indexed-flag", fmt.Sprintf("doc %s: %v vs %v", a.ID, a.Indexed, b.Indexed)
	}
	if k, d := diffFields(a.Fields, b.Fields); k != "" {
		return k, "doc " + a.ID + ": " + d
	}
	if k, d := diffFields(a.Composite, b.Composite); k != "" {
		return "composite-" + k, "doc " + a.ID + ": " + d
	}
	if len(a.Nested) != len(b.Nested) {
		return "nested-count", fmt.Sprintf("doc %s: %d vs %d nested documents", a.ID, len(a.Nested), len(b.Nested))
	}
	for i := range a.Nested {
		if k, d := diffDocs(a.Nested[i], b.Nested[i]); k != "" {
			return "nested/" + k, d
		}
	}
	return "", ""
}

func fieldID(f *cField) string {
	return fmt.Sprintf("%s%s(%c)", f.Name, f.ArrayPos, f.Type)
}

func diffFields(a, b []cField) (string, string) {
	// align by (name, array positions, type) first so a changed option is reported as such
	type key struct {
		n, p string
		t    byte
	}
	count := func(l []cField) map[key]int {
		m := map[key]int{}
		for i := range l {
			m[key{l[i].Name, l[i].ArrayPos, l[i].Type}]++
		}
		return m
	}
	ca, cb := count(a), count(b)
	for i := range a {
		k := key{a[i].Name, a[i].ArrayPos, a[i].Type}
		if ca[k] != cb[k] {
			// same name with another type?
			for j := range b {
				if b[j].Name == a[i].Name && b[j].ArrayPos == a[i].ArrayPos && b[j].Type != a[i].Type {
					return "field-type", fmt.Sprintf("field %s: type %c vs %c", fieldID(&a[i]), a[i].Type, b[j].Type)
				}
			}
			return "field-set", fmt.Sprintf("field %s: %d vs %d occurrences", fieldID(&a[i]), ca[k], cb[k])
		}
	}
	for i := range b {
		k := key{b[i].Name, b[i].ArrayPos, b[i].Type}
		if ca[k] != cb[k] {
			return "field-set", fmt.Sprintf("field %s: %d vs %d occurrences", fieldID(&b[i]), ca[k], cb[k])
		}
	}
	for i := range a {
		x, y := &a[i], &b[i]
		if x.Name != y.Name || x.ArrayPos != y.ArrayPos || x.Type != y.Type {
			return "field-set", fmt.Sprintf("field %s vs %s", fieldID(x), fieldID(y))
		}
		if x.Options != y.Options {
			return "options", fmt.Sprintf("field %s: options %s vs %s", fieldID(x),
				index.FieldIndexingOptions(x.Options), index.FieldIndexingOptions(y.Options))
		}
		if x.Value != y.Value {
			return "value", fmt.Sprintf("field %s: value %q vs %q", fieldID(x), x.Value, y.Value)
		}
		if x.Plain != y.Plain {
			return "plain-bytes", fmt.Sprintf("field %s: %d vs %d", fieldID(x), x.Plain, y.Plain)
		}
		if x.Analyzed != y.Analyzed || x.Length != y.Length {
			return "tokens", fmt.Sprintf("field %s: analysed length %d vs %d", fieldID(x), x.Length, y.Length)
		}
		if len(x.Freqs) != len(y.Freqs) {
			return "tokens", fmt.Sprintf("field %s: %d vs %d distinct terms (%s | %s)", fieldID(x), len(x.Freqs), len(y.Freqs),
				terms(x.Freqs), terms(y.Freqs))
		}
		for j := range x.Freqs {
			p, q := &x.Freqs[j], &y.Freqs[j]
			if p.Term != q.Term {
				return "tokens", fmt.Sprintf("field %s: term %q vs %q", fieldID(x), p.Term, q.Term)
			}
			if p.Freq != q.Freq {
				return "token-freq", fmt.Sprintf("field %s term %q: frequency %d vs %d", fieldID(x), p.Term, p.Freq, q.Freq)
			}
			if len(p.Locs) != len(q.Locs) {
				return "token-locations", fmt.Sprintf("field %s term %q: %d vs %d locations", fieldID(x), p.Term, len(p.Locs), len(q.Locs))
			}
			for k := range p.Locs {
				if p.Locs[k] != q.Locs[k] {
					return "token-locations", fmt.Sprintf("field %s term %q: location %+v vs %+v", fieldID(x), p.Term, p.Locs[k], q.Locs[k])
				}
			}
		}
	}
	return "", ""
}

func terms(fs []cFreq) string {
	var b bytes.Buffer
	for i, f := range fs {
		if i > 0 {
			b.WriteByte(' ')
		}
		if i >= 12 {
			b.WriteString("…")
			break
		}
		fmt.Fprintf(&b, "%q", f.Term)
	}
	return b.String()
}
