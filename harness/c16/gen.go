package c16

import (
	"fmt"
	"net"
	"time"

	"verifharness/rng"
)

// ---------------------------------------------------------------------------
// mapping generator

var (
	propNames = []string{"title", "body", "tags", "meta", "loc", "when", "n", "flag", "addr", "items", "a", "b",
		"naïve", "a<b", "kind", "x y"}
	aliasNames = []string{"title", "t_kw", "alt", "body", "n", "also.dotted", "ünï"}
	typeNames  = []string{"article", "person", "évènement", "_default", ""}
	fieldTypes = []string{"text", "text", "text", "number", "datetime", "datetime", "boolean", "geopoint", "IP"}
)

type gen struct {
	g *rng.Rand
	s *indexSpec
	// plain: no field aliases and at most one type mapping, so that the per-path queries
	// (AnalyzerNameForPath, FieldMappingForPath, SynonymSourceForPath, NestedDepth), which
	// otherwise depend on map iteration order, have one answer and can be compared
	plain bool
	// names available for references
	analyzers   []string
	dateParsers []string
	synonyms    []string
}

func pick[T any](g *rng.Rand, xs []T) T { return xs[g.Intn(len(xs))] }

// genSpec generates one valid mapping specification.
func genSpec(g *rng.Rand) *indexSpec {
	ge := &gen{g: g, s: newIndexSpec(), plain: g.Chance(1, 4)}
	ge.analysis()
	s := ge.s
	ge.analyzers = append(ge.analyzers, builtinAnalyzers...)
	ge.dateParsers = append(ge.dateParsers, builtinDateParsers...)

	// index-level options: each is away from its default in a large share of mappings,
	// including the zero values that an `omitempty` would swallow
	switch g.Intn(10) {
	case 0, 1, 2:
		s.TypeField = "type"
	case 3:
		s.TypeField = ""
	case 4, 5:
		s.TypeField = "meta.kind"
	}
	switch g.Intn(10) {
	case 0, 1, 2:
		s.DefaultType = pick(g, typeNames[:3])
	case 3:
		s.DefaultType = ""
	case 4:
		s.DefaultType = "other"
	}
	if g.Chance(6, 10) {
		s.DefaultAnalyzer = ge.analyzer()
	}
	if g.Chance(5, 10) {
		s.DefaultDateTime = ge.dateParser()
	}
	switch g.Intn(10) {
	case 0, 1, 2:
		s.DefaultField = "title"
	case 3, 4:
		s.DefaultField = ""
	}
	s.StoreDynamic = !g.Chance(35, 100)
	s.IndexDynamic = !g.Chance(35, 100)
	s.DocValuesDynamic = !g.Chance(35, 100)
	switch g.Intn(10) {
	case 0, 1, 2:
		s.ScoringModel = "bm25"
	case 3, 4, 5:
		s.ScoringModel = "tf-idf"
	}
	if len(ge.synonyms) > 0 && g.Chance(1, 2) {
		s.DefaultSynonym = pick(g, ge.synonyms)
	}

	s.Default = ge.doc(0, true)
	nt := []int{0, 0, 1, 1, 2, 3}[g.Intn(6)]
	if ge.plain && nt > 1 {
		nt = 1
	}
	for i := 0; i < nt; i++ {
		s.addType(pick(g, typeNames), ge.doc(0, true))
	}
	// sometimes everything lives in the type mappings and the default mapping is pristine
	// (the sparse JSON form then omits "default_mapping" altogether)
	if len(s.Types) > 0 && g.Chance(1, 8) {
		s.Default = newDocSpec()
	}
	return s
}

func (ge *gen) analyzer() string   { return pick(ge.g, ge.analyzers) }
func (ge *gen) dateParser() string { return pick(ge.g, ge.dateParsers) }

func (ge *gen) doc(depth int, root bool) *docSpec {
	g := ge.g
	d := newDocSpec()
	d.Enabled = !g.Chance(15, 100)
	d.Dynamic = !g.Chance(40, 100)
	if !root {
		d.Nested = g.Chance(25, 100)
	}
	if g.Chance(30, 100) {
		d.DefAnalyzer = ge.analyzer()
	}
	if len(ge.synonyms) > 0 && g.Chance(20, 100) {
		d.DefSynonym = pick(g, ge.synonyms)
	}
	if g.Chance(15, 100) || (root && g.Chance(15, 100)) {
		d.StructTagKey = pick(g, []string{"vk", "vk", "json", "nokey"})
	}
	if !root || g.Chance(5, 100) {
		nf := []int{0, 1, 1, 1, 2, 2, 3}[g.Intn(7)]
		if root {
			nf = 1
		}
		for i := 0; i < nf; i++ {
			d.Fields = append(d.Fields, ge.field())
		}
	}
	if depth < 3 {
		np := []int{0, 1, 2, 3, 4}[g.Intn(5)]
		if root {
			np = g.Range(1, 5)
		} else if depth == 2 {
			np = g.Intn(3)
		}
		for i := 0; i < np; i++ {
			d.addProp(pick(g, propNames), ge.doc(depth+1, false))
		}
	}
	if root && g.Chance(12, 100) {
		all := newDocSpec()
		all.Enabled = !g.Chance(85, 100)
		d.addProp("_all", all)
	}
	return d
}

func (ge *gen) field() *fieldSpec {
	g := ge.g
	f := defaultField(pick(g, fieldTypes))
	// every flag is drawn independently, so each differs from the constructor default in
	// about half of the field mappings
	f.Store, f.Index, f.TV, f.InAll, f.DocValues = g.Bool(), g.Chance(3, 4), g.Bool(), g.Bool(), g.Bool()
	f.SkipFreqNorm = g.Chance(1, 3)
	if !ge.plain && g.Chance(35, 100) {
		f.Name = pick(g, aliasNames)
	}
	if (f.Type == "text" && g.Chance(55, 100)) || g.Chance(8, 100) {
		f.Analyzer = ge.analyzer()
	}
	if (f.Type == "datetime" && g.Chance(55, 100)) || g.Chance(8, 100) {
		f.DateFormat = ge.dateParser()
	}
	if len(ge.synonyms) > 0 && g.Chance(20, 100) {
		f.SynonymSrc = pick(g, ge.synonyms)
	}
	if g.Chance(8, 100) {
		f.GPU = true
	}
	if g.Chance(5, 100) {
		f.Dims = g.Range(1, 8)
		f.Similarity = pick(g, []string{"", "l2_norm", "dot_product"})
		f.VecOpt = pick(g, []string{"", "recall", "latency"})
	}
	return f
}

// analysis generates the custom analysis section; every component is referenced by a later
// one or offered to the mapping generator.
func (ge *gen) analysis() {
	g := ge.g
	if g.Chance(15, 100) {
		return
	}
	s := ge.s
	add := func(c *comp) *comp { s.Analysis = append(s.Analysis, c); return c }
	used := map[string]bool{}
	name := func(kind string, pool []string, shadow []string) string {
		for {
			var n string
			if len(shadow) > 0 && g.Chance(8, 100) {
				n = pick(g, shadow)
			} else {
				n = pick(g, pool)
				if g.Chance(1, 4) {
					n = fmt.Sprintf("%s%d", n, g.Intn(3))
				}
			}
			if !used[kind+"/"+n] {
				used[kind+"/"+n] = true
				return n
			}
		}
	}

	// char filters
	var cfs []string
	for i, n := 0, g.Intn(3); i < n; i++ {
		c := &comp{Kind: kCharFilter, Name: name(kCharFilter, []string{"strip_digits", "dash2space", "my_cf", "çf"}, []string{"html", "asciifolding"})}
		switch g.Intn(4) {
		case 0:
			c.Type = pick(g, builtinCharFilters)
		default:
			c.Type = "regexp"
			c.Str = map[string]string{"regexp": pick(g, []string{`[0-9]+`, `-`, `<[^>]+>`, `(?i)the`, `é`})}
			if g.Chance(2, 3) {
				c.Str["replace"] = pick(g, []string{"", " ", "_", "é", "<x>"})
			}
		}
		add(c)
		cfs = append(cfs, c.Name)
	}
	cfs = append(cfs, builtinCharFilters...)

	// tokenizers: plain ones first, then exception tokenizers that defer to an earlier one
	toks := append([]string{}, builtinTokenizers...)
	var custToks []string
	for i, n := 0, g.Intn(3); i < n; i++ {
		c := &comp{Kind: kTokenizer, Name: name(kTokenizer, []string{"words", "my_tok", "tök", "commas"}, []string{"whitespace"})}
		switch g.Intn(4) {
		case 0:
			c.Type = pick(g, builtinTokenizers)
		default:
			c.Type = "regexp"
			c.Str = map[string]string{"regexp": pick(g, []string{`\w+`, `[^,]+`, `[a-zA-Z]+`, `\S+`, `\p{L}+`})}
		}
		add(c)
		custToks = append(custToks, c.Name)
	}
	for i, n := 0, g.Intn(3); i < n; i++ {
		c := &comp{Kind: kTokenizer, Name: name(kTokenizer, []string{"exc", "keep_urls", "exç", "aaa_exc", "zzz_exc"}, nil), Type: "exception"}
		var ex []string
		for j, m := 0, g.Range(1, 3); j < m; j++ {
			ex = append(ex, pick(g, []string{`[hH][tT][tT][pP][sS]?://(\S)*`, `[\w.]+@[\w.]+`, `l'avion`, `soft ?ball`, `[0-9]+-[0-9]+`, `alp\w+`}))
		}
		c.List = map[string][]string{"exceptions": ex}
		c.GoStr = map[string]bool{"exceptions": g.Bool()}
		// defer to a custom tokenizer (possibly another exception tokenizer) more often than not
		if len(custToks) > 0 && g.Chance(2, 3) {
			c.Str = map[string]string{"tokenizer": pick(g, custToks)}
		} else {
			c.Str = map[string]string{"tokenizer": pick(g, toks)}
		}
		add(c)
		custToks = append(custToks, c.Name)
	}
	toks = append(toks, custToks...)

	// token maps
	var tms []string
	for i, n := 0, g.Intn(3); i < n; i++ {
		c := &comp{Kind: kTokenMap, Name: name(kTokenMap, []string{"my_stop", "dict", "articles", "mäp"}, []string{"stop_fr"}), Type: "custom"}
		var toks []string
		for j, m := 0, g.Range(1, 6); j < m; j++ {
			toks = append(toks, pick(g, []string{"the", "alpha", "soft", "ball", "l", "beta", "of", "foot", "über", "d", "base"}))
		}
		c.List = map[string][]string{"tokens": toks}
		add(c)
		tms = append(tms, c.Name)
	}
	tmsAll := append(append([]string{}, tms...), builtinTokenMaps...)

	// token filters
	var tfs []string
	intKey := func(c *comp, k string, v int, goOK bool) {
		if c.Int == nil {
			c.Int = map[string]int{}
		}
		c.Int[k] = v
		if goOK && g.Chance(1, 2) {
			if c.GoInt == nil {
				c.GoInt = map[string]bool{}
			}
			c.GoInt[k] = true
		}
	}
	for i, n := 0, g.Intn(4); i < n; i++ {
		c := &comp{Kind: kTokenFilter, Name: name(kTokenFilter, []string{"my_len", "short", "grams", "my_tf", "fïlter", "pairs"}, []string{"reverse", "apostrophe", "unique"})}
		switch g.Intn(13) {
		case 0:
			c.Type = "length"
			// the constructor insists that min or max is a non-zero float64; the other bound
			// may be written as a Go int
			if g.Bool() {
				intKey(c, "min", g.Range(2, 4), false)
				if g.Bool() {
					intKey(c, "max", g.Range(5, 9), true)
				}
			} else {
				intKey(c, "max", g.Range(4, 9), false)
				if g.Bool() {
					intKey(c, "min", g.Range(2, 4), true)
				}
			}
		case 1:
			c.Type = "truncate_token"
			intKey(c, "length", g.Range(1, 5), false)
		case 2:
			c.Type = "ngram"
			mn := g.Range(1, 3)
			intKey(c, "min", mn, true)
			intKey(c, "max", mn+g.Intn(3), true)
		case 3:
			c.Type = "edge_ngram"
			mn := g.Range(1, 3)
			intKey(c, "min", mn, false)
			intKey(c, "max", mn+g.Intn(3), false)
			if g.Bool() {
				c.Bool = map[string]bool{"back": g.Bool()}
			}
		case 4:
			c.Type = "shingle"
			intKey(c, "min", 2, false)
			intKey(c, "max", g.Range(2, 3), false)
			c.Bool = map[string]bool{}
			c.Str = map[string]string{}
			if g.Bool() {
				c.Bool["output_original"] = g.Bool()
			}
			if g.Bool() {
				c.Str["separator"] = pick(g, []string{"", "_", " ", "+"})
			}
			if g.Bool() {
				c.Str["filler"] = pick(g, []string{"", "#", "_"})
			}
		case 5:
			c.Type = "stop_tokens"
			c.Str = map[string]string{"stop_token_map": pick(g, tmsAll)}
		case 6, 7:
			c.Type = "dict_compound"
			c.Str = map[string]string{"dict_token_map": pick(g, tmsAll)}
			if g.Chance(2, 3) {
				intKey(c, "min_word_size", g.Range(3, 8), true)
			}
			if g.Chance(2, 3) {
				intKey(c, "min_subword_size", g.Range(1, 4), true)
			}
			if g.Chance(2, 3) {
				intKey(c, "max_subword_size", g.Range(3, 6), true)
			}
			if g.Bool() {
				c.Bool = map[string]bool{"only_longest_match": g.Bool()}
			}
		case 8:
			c.Type = "elision"
			c.Str = map[string]string{"articles_token_map": pick(g, tmsAll)}
		case 9:
			c.Type = "keyword_marker"
			c.Str = map[string]string{"keywords_token_map": pick(g, tmsAll)}
		case 10:
			c.Type = "normalize_unicode"
			c.Str = map[string]string{"form": pick(g, []string{"nfc", "nfd", "nfkc", "nfkd"})}
		case 11:
			c.Type = "hierarchy"
			c.Str = map[string]string{"delimiter": pick(g, []string{"/", ".", "-"})}
			// "max" is always given, as float64: without it (or with a Go int, which the
			// constructor ignores) the filter allocates math.MaxInt64 tokens and panics on
			// the first input — an analysis defect outside this property
			intKey(c, "max", g.Range(1, 3), false)
			if g.Bool() {
				c.Bool = map[string]bool{"split_input": g.Bool()}
			}
		default:
			c.Type = pick(g, builtinTokFilters)
		}
		add(c)
		tfs = append(tfs, c.Name)
	}
	tfsAll := append(append([]string{}, tfs...), builtinTokFilters...)

	// analyzers
	for i, n := 0, g.Range(0, 3); i < n; i++ {
		c := &comp{Kind: kAnalyzer, Name: name(kAnalyzer, []string{"my_an", "folding", "code", "änalyzer", "an"}, builtinAnalyzers)}
		if g.Chance(1, 8) {
			c.Type = pick(g, builtinAnalyzers)
		} else {
			c.Type = "custom"
			if len(custToks) > 0 && g.Chance(2, 3) {
				c.Str = map[string]string{"tokenizer": pick(g, custToks)}
			} else {
				c.Str = map[string]string{"tokenizer": pick(g, toks)}
			}
			c.List = map[string][]string{}
			c.GoStr = map[string]bool{}
			if g.Chance(2, 3) {
				var l []string
				for j, m := 0, g.Range(0, 2); j < m; j++ {
					l = append(l, pick(g, cfs))
				}
				if l == nil {
					l = []string{}
				}
				c.List["char_filters"] = l
				c.GoStr["char_filters"] = g.Bool()
			}
			if g.Chance(4, 5) {
				var l []string
				for j, m := 0, g.Range(0, 3); j < m; j++ {
					if len(tfs) > 0 && g.Chance(2, 3) {
						l = append(l, pick(g, tfs))
					} else {
						l = append(l, pick(g, tfsAll))
					}
				}
				if l == nil {
					l = []string{}
				}
				c.List["token_filters"] = l
				c.GoStr["token_filters"] = g.Bool()
			}
		}
		add(c)
		ge.analyzers = append(ge.analyzers, c.Name, c.Name) // custom analyzers are preferred references
	}

	// date time parsers
	for i, n := 0, g.Range(0, 2); i < n; i++ {
		c := &comp{Kind: kDateParser, Name: name(kDateParser, []string{"my_dates", "eu", "dätes", "dp"}, builtinDateParsers[:2])}
		pickLayouts := func(pool []string) []string {
			var l []string
			for j, m := 0, g.Range(1, 3); j < m; j++ {
				l = append(l, pick(g, pool))
			}
			return l
		}
		switch g.Intn(9) {
		case 0, 1, 2:
			c.Type = "flexiblego"
			c.List = map[string][]string{"layouts": pickLayouts(goLayouts)}
		case 3, 4:
			c.Type = "sanitizedgo"
			c.List = map[string][]string{"layouts": pickLayouts(goLayouts[:5])}
		case 5, 6:
			c.Type = "isostyle"
			c.List = map[string][]string{"layouts": pickLayouts(isoLayouts)}
		case 7:
			c.Type = "percentstyle"
			c.List = map[string][]string{"layouts": pickLayouts(percentLayouts)}
		default:
			c.Type = pick(g, builtinDateParsers)
		}
		add(c)
		ge.dateParsers = append(ge.dateParsers, c.Name, c.Name, c.Name)
	}

	// synonym sources
	if g.Chance(25, 100) {
		ans := append(append([]string{}, ge.analyzers...), builtinAnalyzers...)
		c := &comp{Kind: kSynonym, Name: name(kSynonym, []string{"syn", "english_syn"}, nil), Type: "synonym",
			Str: map[string]string{"collection": pick(g, []string{"c1", "collection2"}), "analyzer": pick(g, ans)}}
		add(c)
		ge.synonyms = append(ge.synonyms, c.Name)
	}
}

// ---------------------------------------------------------------------------
// document generator

var (
	texts = []string{
		"The quick brown fox", "alpha beta alpah", "softball and football", "l'avion d'or", "Türkiye'de",
		"camelCaseWord fooBar", "<b>bold</b> text-with-dashes 42", "mail bob@example.com http://x.io/a?b=1",
		"naïve café über", "/usr/local/bin", "a.b.c", "the of and", "", "alps alpha 10-20", "Béta,gamma,delta", "x",
		"ﬁne ½ ①", "THE THE the",
	}
	dates = []string{
		"2021-03-04", "2021-03-04T05:06:07Z", "04/03/2021", "1614830767", "1614830767123", "Mar 4, 2021",
		"2021-03-04 05:06:07", "2021.03.04", "2021-03-04T05:06:07", "2021-03-04T05:06:07.123456789+01:00", "1700-01-01",
	}
	ips   = []string{"192.168.1.7", "::1", "2001:db8::68", "notanip", "10.0.0.256"}
	geoSt = []string{"45.5,-122.6", "u4pruydqqvj", " 12.25 , 99 ", "91,181", "1,2,3"}
)

// tagged is the struct-typed document: struct tags under "json", under the custom key
// "vk", a field without tags, a "-" tag, an embedded object and a slice of objects.
type taggedInner struct {
	City string  `json:"city" vk:"title"`
	Zip  float64 `json:"zip" vk:"-"`
	Note string
}

type tagged struct {
	Title string        `json:"title" vk:"body"`
	N     float64       `json:"n,omitempty" vk:"flag"`
	Flag  bool          `json:"-" vk:"n"`
	Kind  string        // no tag at all: Go field name under every key
	Type  string        `json:"type" vk:"type"`
	Meta  taggedInner   `json:"meta" vk:"loc"`
	Items []taggedInner `json:"items" vk:"tags,omitempty"`
	When  time.Time     `json:"when" vk:"a"`
}

type docGen struct {
	g *rng.Rand
	s *indexSpec
}

func (dg *docGen) scalar(kind, arrDepth int) interface{} {
	g := dg.g
	leafArr := arrDepth < maxArrDepth // [lon,lat] and net.IP values are arrays for the walk
	switch kind {
	case 0:
		return pick(g, texts)
	case 1:
		if g.Chance(1, 4) {
			return g.Range(-5, 500) // Go int
		}
		return []float64{0, 1, -1.5, 42, 3.14159, 1e6, 255}[g.Intn(7)]
	case 2:
		return pick(g, dates)
	case 3:
		return g.Bool()
	case 4: // geopoint forms
		switch g.Intn(4) {
		case 0:
			return map[string]interface{}{"lon": -122.6, "lat": 45.5}
		case 1:
			if !leafArr {
				return "42.5,-71.25"
			}
			return []interface{}{-71.25, 42.5}
		case 2:
			return map[string]interface{}{"lng": 2.0, "lat": 48.0, "extra": "paris"}
		default:
			return pick(g, geoSt)
		}
	case 5:
		if leafArr && g.Chance(1, 4) {
			return net.ParseIP(pick(g, ips[:3]))
		}
		return pick(g, ips)
	case 6:
		return time.Date(2020+g.Intn(3), time.Month(1+g.Intn(12)), 1+g.Intn(28), g.Intn(24), 0, 0, g.Intn(2)*5000, time.UTC)
	default:
		return nil
	}
}

func kindFor(typ string) int {
	switch typ {
	case "text":
		return 0
	case "number":
		return 1
	case "datetime":
		return 2
	case "boolean":
		return 3
	case "geopoint":
		return 4
	case "IP":
		return 5
	}
	return 0
}

// value makes a value for a mapped position: mostly what one of its fields wants, sometimes
// something else, sometimes an array, and an object when there are sub-mappings.
func (dg *docGen) value(d *docSpec, depth, arrDepth int) interface{} {
	g := dg.g
	one := func(arrDepth int) interface{} {
		if len(d.Props) > 0 && (len(d.Fields) == 0 || g.Chance(7, 10)) {
			return dg.object(d, depth+1, arrDepth)
		}
		if len(d.Fields) > 0 && g.Chance(8, 10) {
			k := kindFor(pick(g, d.Fields).Type)
			if k == 2 && g.Chance(1, 5) {
				k = 6
			}
			return dg.scalar(k, arrDepth)
		}
		if g.Chance(1, 6) {
			return dg.free(depth+1, arrDepth)
		}
		return dg.scalar(g.Intn(8), arrDepth)
	}
	pArr := 25
	if d.Nested {
		pArr = 70
	}
	// at most maxArrDepth enclosing arrays (see the assumption about array positions)
	if arrDepth < maxArrDepth && g.Chance(pArr, 100) {
		n := g.Range(0, 3)
		arr := make([]interface{}, 0, n)
		for i := 0; i < n; i++ {
			if arrDepth+1 < maxArrDepth && g.Chance(1, 10) {
				arr = append(arr, dg.value(d, depth, arrDepth+1))
			} else {
				arr = append(arr, one(arrDepth+1))
			}
		}
		return arr
	}
	return one(arrDepth)
}

const maxArrDepth = 3

// free makes an unmapped value (objects, arrays, scalars).
func (dg *docGen) free(depth, arrDepth int) interface{} {
	g := dg.g
	switch {
	case depth < 3 && g.Chance(1, 4):
		m := map[string]interface{}{}
		for i, n := 0, g.Range(1, 3); i < n; i++ {
			m[pick(g, propNames)] = dg.free(depth+1, arrDepth)
		}
		return m
	case arrDepth < maxArrDepth && g.Chance(1, 5):
		var arr []interface{}
		for i, n := 0, g.Range(0, 3); i < n; i++ {
			arr = append(arr, dg.free(depth+1, arrDepth+1))
		}
		if arr == nil {
			arr = []interface{}{}
		}
		return arr
	}
	return dg.scalar(g.Intn(8), arrDepth)
}

func (dg *docGen) object(d *docSpec, depth, arrDepth int) map[string]interface{} {
	g := dg.g
	m := map[string]interface{}{}
	for _, n := range d.PropNames {
		if g.Chance(8, 10) {
			m[n] = dg.value(d.Props[n], depth, arrDepth)
		}
	}
	// unmapped keys next to the mapped ones
	for i, n := 0, g.Intn(3); i < n; i++ {
		k := pick(g, propNames)
		if _, ok := m[k]; !ok {
			m[k] = dg.free(depth+1, arrDepth)
		}
	}
	return m
}

func setPath(m map[string]interface{}, path []string, v interface{}) {
	for i, p := range path {
		if i == len(path)-1 {
			m[p] = v
			return
		}
		sub, ok := m[p].(map[string]interface{})
		if !ok {
			sub = map[string]interface{}{}
			m[p] = sub
		}
		m = sub
	}
}

// genDoc makes one document for the specification: a type is chosen (mapped, unmapped or
// absent), then the object is built along that type's mapping.
func genDoc(g *rng.Rand, s *indexSpec) interface{} {
	dg := &docGen{g: g, s: s}
	var typ string
	hasType := true
	switch {
	case len(s.TypeNames) > 0 && g.Chance(6, 10):
		typ = pick(g, s.TypeNames)
	case g.Chance(1, 2):
		hasType = false
	default:
		typ = pick(g, []string{"unmapped", "article", ""})
	}
	root := s.Default
	if d, ok := s.Types[typ]; ok && hasType {
		root = d
	} else if d, ok := s.Types[s.DefaultType]; ok && !hasType {
		root = d
	}
	if g.Chance(12, 100) {
		t := tagged{Title: pick(g, texts), N: float64(g.Intn(50)), Flag: g.Bool(), Kind: pick(g, texts), Type: typ,
			Meta: taggedInner{City: pick(g, texts), Zip: float64(g.Intn(99999)), Note: pick(g, dates)},
			When: time.Date(2021, 3, 4, 5, 6, 7, 0, time.UTC)}
		for i, n := 0, g.Intn(3); i < n; i++ {
			t.Items = append(t.Items, taggedInner{City: pick(g, texts), Zip: float64(i), Note: pick(g, texts)})
		}
		return t
	}
	m := dg.object(root, 0, 0)
	if hasType {
		var path []string
		cur := ""
		for _, r := range s.TypeField {
			if r == '.' {
				path = append(path, cur)
				cur = ""
			} else {
				cur += string(r)
			}
		}
		path = append(path, cur)
		setPath(m, path, typ)
	}
	return m
}
