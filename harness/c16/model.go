package c16

import (
	"fmt"
	"net"
	"reflect"
	"sort"
	"strings"
	"time"

	"github.com/blevesearch/bleve/v2/analysis"
	"github.com/blevesearch/bleve/v2/document"
	"github.com/blevesearch/bleve/v2/geo"
	index "github.com/blevesearch/bleve_index_api"
)

// Reference model of IndexMapping.MapDocument over a specification. It works on its own
// tree of nodes (the document is converted once; Go struct values are flattened with our
// own reading of the struct-tag rule), resolves mappings on the specification, and emits
// fields through the document package's plain constructors with reference analyzers.
// It also records which non-default options of the specification a document touched.

type nodeKind int

const (
	nNil nodeKind = iota
	nStr
	nNum
	nBool
	nTime
	nObj
	nArr
)

type node struct {
	kind  nodeKind
	s     string
	f     float64
	b     bool
	t     time.Time
	keys  []string
	vals  []*node
	elems []*node
	ip    net.IP      // set when the value is a net.IP (which also walks as an array of numbers)
	raw   interface{} // the Go value (handed to geo.ExtractGeoPoint for geopoint fields)
}

// toNode converts a document value. tagKey is the struct tag the *root* document mapping
// selects ("json" when empty).
func toNode(v interface{}, tagKey string) *node {
	if tagKey == "" {
		tagKey = "json"
	}
	switch x := v.(type) {
	case nil:
		return &node{kind: nNil}
	case string:
		return &node{kind: nStr, s: x, raw: v}
	case float64:
		return &node{kind: nNum, f: x, raw: v}
	case int:
		return &node{kind: nNum, f: float64(x), raw: v}
	case bool:
		return &node{kind: nBool, b: x, raw: v}
	case time.Time:
		return &node{kind: nTime, t: x, raw: v}
	case net.IP:
		n := &node{kind: nArr, ip: x, raw: v}
		for _, b := range x {
			n.elems = append(n.elems, &node{kind: nNum, f: float64(b), raw: b})
		}
		return n
	case map[string]interface{}:
		n := &node{kind: nObj, raw: v}
		for k := range x {
			n.keys = append(n.keys, k)
		}
		sort.Strings(n.keys)
		for _, k := range n.keys {
			n.vals = append(n.vals, toNode(x[k], tagKey))
		}
		return n
	case []interface{}:
		n := &node{kind: nArr, raw: v}
		for _, e := range x {
			n.elems = append(n.elems, toNode(e, tagKey))
		}
		return n
	}
	rv := reflect.ValueOf(v)
	switch rv.Kind() {
	case reflect.Struct:
		n := &node{kind: nObj, raw: v}
		rt := rv.Type()
		for i := 0; i < rt.NumField(); i++ {
			sf := rt.Field(i)
			if sf.PkgPath != "" || sf.Anonymous { // unexported / embedded: not used by the generator
				continue
			}
			name := sf.Name
			tag := sf.Tag.Get(tagKey)
			if i := strings.Index(tag, ","); i >= 0 {
				tag = tag[:i]
			}
			if tag == "-" {
				continue
			}
			if sf.Tag != "" && tag != "" {
				name = tag
			}
			n.keys = append(n.keys, name)
			n.vals = append(n.vals, toNode(rv.Field(i).Interface(), tagKey))
		}
		return n
	case reflect.Slice:
		n := &node{kind: nArr, raw: v}
		for i := 0; i < rv.Len(); i++ {
			n.elems = append(n.elems, toNode(rv.Index(i).Interface(), tagKey))
		}
		return n
	}
	panic(fmt.Sprintf("c16 model: unsupported document value %T", v))
}

type modelCtx struct {
	doc      *document.Document
	excluded []string
}

type model struct {
	spec    *indexSpec
	ref     *refAnalysis
	root    *docSpec
	touched map[string]bool
}

func newModel(s *indexSpec, ref *refAnalysis) *model { return &model{spec: s, ref: ref} }

func (m *model) touch(f string) { m.touched[f] = true }

// typeOf: the value at the type-field path, if it is a string; else the default type.
func (m *model) typeOf(data interface{}) string {
	cur := data
	for _, part := range strings.Split(m.spec.TypeField, ".") {
		switch x := cur.(type) {
		case map[string]interface{}:
			v, ok := x[part]
			if !ok {
				cur = nil
			} else {
				cur = v
			}
		default:
			rv := reflect.ValueOf(cur)
			if rv.IsValid() && rv.Kind() == reflect.Struct {
				fv := rv.FieldByName(part)
				if fv.IsValid() && fv.CanInterface() {
					cur = fv.Interface()
				} else {
					cur = nil
				}
			} else {
				cur = nil
			}
		}
		if cur == nil {
			break
		}
	}
	if s, ok := cur.(string); ok {
		if m.spec.TypeField != "_type" {
			m.touch("type_field")
		}
		return s
	}
	if m.spec.DefaultType != "_default" {
		m.touch("default_type")
	}
	return m.spec.DefaultType
}

// mapDocument is the reference MapDocument. It returns the expected document and the set of
// non-default options the document touched.
func (m *model) mapDocument(id string, data interface{}) (*document.Document, map[string]bool) {
	m.touched = map[string]bool{}
	doc := document.NewDocument(id)
	typ := m.typeOf(data)
	root, ok := m.spec.Types[typ]
	if ok {
		m.touch("types")
	} else {
		root = m.spec.Default
	}
	m.root = root
	if !root.Enabled {
		m.touch("root.enabled=false")
		return doc, m.touched
	}
	if root.StructTagKey != "" && reflect.ValueOf(data).Kind() == reflect.Struct {
		m.touch("root.struct_tag_key")
	}
	ctx := &modelCtx{doc: doc, excluded: []string{"_id"}}
	m.walk(toNode(data, root.StructTagKey), nil, nil, ctx)
	if all, ok := root.Props["_all"]; !ok || all.Enabled {
		doc.AddField(document.NewCompositeFieldWithIndexingOptions("_all", true, nil, ctx.excluded,
			index.IndexField|index.IncludeTermVectors))
	} else {
		m.touch("_all.disabled")
	}
	doc.SetIndexed()
	return doc, m.touched
}

// lookup returns the mapping exactly at path (nil if none) and the deepest mapping on the way.
func (m *model) lookup(path []string) (exact, closest *docSpec) {
	cur := m.root
	if len(path) == 0 {
		path = []string{""}
	}
	for _, p := range path {
		sub, ok := cur.Props[p]
		if !ok {
			return nil, cur
		}
		cur = sub
	}
	return cur, cur
}

func cp(idx []uint64, i int) []uint64 {
	out := make([]uint64, len(idx)+1)
	copy(out, idx)
	out[len(idx)] = uint64(i)
	return out
}

func (m *model) walk(n *node, path []string, idx []uint64, ctx *modelCtx) {
	switch n.kind {
	case nObj:
		for i, k := range n.keys {
			m.process(n.vals[i], append(append([]string{}, path...), k), idx, ctx)
		}
	case nArr:
		sub, _ := m.lookup(path)
		nested := sub != nil && sub.Nested
		for i, e := range n.elems {
			// objects — and, because the walk asks for reflect.Struct, also time.Time values —
			// become nested documents
			if nested && (e.kind == nObj || e.kind == nTime) {
				m.touch("prop.nested")
				nd := document.NewDocument(fmt.Sprintf("%s_$%s_$%d", ctx.doc.ID(), strings.Join(path, "."), i))
				nctx := &modelCtx{doc: nd, excluded: []string{"_id"}}
				m.process(e, path, cp(idx, i), nctx)
				ctx.doc.AddNestedDocument(nd)
				continue
			}
			m.process(e, path, cp(idx, i), ctx)
		}
	}
}

func (m *model) process(n *node, path []string, idx []uint64, ctx *modelCtx) {
	sub, closest := m.lookup(path)
	if sub != nil {
		m.touch("properties")
		if !sub.Enabled {
			m.touch("prop.enabled=false")
			return
		}
	}
	dynamic := func() bool {
		if closest.Dynamic {
			return true
		}
		if closest == m.root {
			m.touch("root.dynamic=false")
		} else {
			m.touch("prop.dynamic=false")
		}
		return false
	}
	switch n.kind {
	case nNil:
		return
	case nStr:
		if sub != nil {
			for _, f := range sub.Fields {
				switch f.Type {
				case "geopoint":
					m.geoPoint(f, n.raw, path, idx, ctx)
				case "text", "datetime", "IP":
					m.str(f, n.s, path, idx, ctx)
				}
			}
		} else if dynamic() {
			p := m.ref.dateParser(m.spec.DefaultDateTime)
			if m.spec.DefaultDateTime != "dateTimeOptional" {
				m.touch("default_datetime_parser")
			}
			if p != nil {
				if t, layout, err := p.ParseDateTime(n.s); err != nil {
					m.str(m.dyn("text"), n.s, path, idx, ctx)
				} else {
					m.time(m.dyn("datetime"), t, layout, path, idx, ctx)
				}
			}
		}
	case nNum:
		if sub != nil {
			for _, f := range sub.Fields {
				if f.Type == "number" {
					m.emit(f, document.NewNumericFieldWithIndexingOptions(m.name(path, f), idx, n.f, m.opts(f)), ctx)
				}
			}
		} else if dynamic() {
			f := m.dyn("number")
			m.emit(f, document.NewNumericFieldWithIndexingOptions(m.name(path, f), idx, n.f, m.opts(f)), ctx)
		}
	case nBool:
		if sub != nil {
			for _, f := range sub.Fields {
				if f.Type == "boolean" {
					m.emit(f, document.NewBooleanFieldWithIndexingOptions(m.name(path, f), idx, n.b, m.opts(f)), ctx)
				}
			}
		} else if dynamic() {
			f := m.dyn("boolean")
			m.emit(f, document.NewBooleanFieldWithIndexingOptions(m.name(path, f), idx, n.b, m.opts(f)), ctx)
		}
	case nTime:
		if sub != nil {
			for _, f := range sub.Fields {
				m.time(f, n.t, time.RFC3339, path, idx, ctx)
			}
		} else if dynamic() {
			m.time(m.dyn("datetime"), n.t, time.RFC3339, path, idx, ctx)
		}
	case nObj, nArr:
		if sub != nil {
			for _, f := range sub.Fields {
				switch f.Type {
				case "geopoint":
					m.geoPoint(f, n.raw, path, idx, ctx)
				case "IP":
					if n.ip != nil {
						m.emit(f, document.NewIPFieldWithIndexingOptions(m.name(path, f), idx, n.ip, m.opts(f)), ctx)
					}
				}
			}
		}
		m.walk(n, path, idx, ctx)
	}
}

// dyn is the field mapping of a dynamically (not explicitly) mapped value.
func (m *model) dyn(typ string) *fieldSpec {
	f := defaultField(typ)
	f.Store, f.Index, f.DocValues = m.spec.StoreDynamic, m.spec.IndexDynamic, m.spec.DocValuesDynamic
	if !m.spec.StoreDynamic {
		m.touch("store_dynamic")
	}
	if !m.spec.IndexDynamic {
		m.touch("index_dynamic")
	}
	if !m.spec.DocValuesDynamic {
		m.touch("docvalues_dynamic")
	}
	return f
}

func (m *model) name(path []string, f *fieldSpec) string {
	if f.Name == "" {
		return strings.Join(path, ".")
	}
	m.touch("field.name")
	if len(path) > 1 {
		return strings.Join(path[:len(path)-1], ".") + "." + f.Name
	}
	return f.Name
}

func (m *model) opts(f *fieldSpec) index.FieldIndexingOptions {
	var o index.FieldIndexingOptions
	if f.Store {
		o |= index.StoreField
	}
	if f.Index {
		o |= index.IndexField
	}
	if f.TV {
		o |= index.IncludeTermVectors
	}
	if f.DocValues {
		o |= index.DocValues
	}
	if f.SkipFreqNorm {
		o |= index.SkipFreqNorm
	}
	if f.GPU {
		o |= index.GPU
	}
	return o
}

// emit adds a field and accounts for include_in_all and the touched options.
func (m *model) emit(f *fieldSpec, fld document.Field, ctx *modelCtx) {
	if fld != nil {
		ctx.doc.AddField(fld)
	}
	m.after(f, ctx, fld)
}

func (m *model) after(f *fieldSpec, ctx *modelCtx, fld document.Field) {
	if !f.InAll && fld != nil {
		ctx.excluded = append(ctx.excluded, fld.Name())
	}
	f.features(func(s string) {
		if !strings.HasPrefix(s, "field.type=") && s != "field.name" {
			m.touch(s)
		}
	})
	m.touch("field.type=" + f.Type)
}

func (m *model) analyzerName(f *fieldSpec, path []string) string {
	if f.Analyzer != "" {
		return f.Analyzer
	}
	cur := m.root
	rv := cur.DefAnalyzer
	rootLevel := rv != ""
	for _, p := range path {
		sub, ok := cur.Props[p]
		if !ok {
			break
		}
		cur = sub
		if cur.DefAnalyzer != "" {
			rv = cur.DefAnalyzer
			rootLevel = false
		}
	}
	if rv != "" {
		if rootLevel {
			m.touch("root.default_analyzer")
		} else {
			m.touch("prop.default_analyzer")
		}
		return rv
	}
	if m.spec.DefaultAnalyzer != "standard" {
		m.touch("default_analyzer")
	}
	return m.spec.DefaultAnalyzer
}

func (m *model) touchAnalyzer(name string) {
	if c := m.spec.comp(kAnalyzer, name); c != nil {
		m.touch(c.feature())
		if isBuiltinName(c.Kind, c.Name) {
			m.touch(c.feature() + ":shadows-builtin")
		}
		if c.Type != "custom" {
			return
		}
		dep := func(kind, n string) *comp {
			d := m.spec.comp(kind, n)
			if d != nil {
				m.touch(d.feature())
				for k, g := range d.GoInt {
					if _, ok := d.Int[k]; ok && g {
						m.touch(d.feature() + ":go-int")
					}
				}
				if isBuiltinName(d.Kind, d.Name) {
					m.touch(d.feature() + ":shadows-builtin")
				}
			}
			return d
		}
		for _, n := range c.List["char_filters"] {
			dep(kCharFilter, n)
		}
		for t := dep(kTokenizer, c.Str["tokenizer"]); t != nil && t.Type == "exception"; {
			t = dep(kTokenizer, t.Str["tokenizer"])
		}
		for _, n := range c.List["token_filters"] {
			if d := dep(kTokenFilter, n); d != nil {
				for _, k := range []string{"stop_token_map", "dict_token_map", "articles_token_map", "keywords_token_map"} {
					if tm, ok := d.Str[k]; ok {
						dep(kTokenMap, tm)
					}
				}
			}
		}
	}
}

func (m *model) str(f *fieldSpec, s string, path []string, idx []uint64, ctx *modelCtx) {
	switch f.Type {
	case "text":
		an := m.analyzerName(f, path)
		m.touchAnalyzer(an)
		var a analysis.Analyzer = m.ref.analyzer(an)
		fld := document.NewTextFieldCustom(m.name(path, f), idx, []byte(s), m.opts(f), a)
		m.emit(f, fld, ctx)
	case "datetime":
		pn := m.spec.DefaultDateTime
		if f.DateFormat != "" {
			pn = f.DateFormat
		} else if pn != "dateTimeOptional" {
			m.touch("default_datetime_parser")
		}
		if c := m.spec.comp(kDateParser, pn); c != nil {
			m.touch(c.feature())
			if isBuiltinName(c.Kind, c.Name) {
				m.touch(c.feature() + ":shadows-builtin")
			}
		}
		if p := m.ref.dateParser(pn); p != nil {
			if t, layout, err := p.ParseDateTime(s); err == nil {
				m.time(f, t, layout, path, idx, ctx)
			} else if f.DateFormat != "" {
				m.touch("field.date_format") // the format decided that no field is produced
			}
		}
	case "IP":
		if ip := net.ParseIP(s); ip != nil {
			m.emit(f, document.NewIPFieldWithIndexingOptions(m.name(path, f), idx, ip, m.opts(f)), ctx)
		}
	}
}

func (m *model) time(f *fieldSpec, t time.Time, layout string, path []string, idx []uint64, ctx *modelCtx) {
	if f.Type != "datetime" {
		return
	}
	name := m.name(path, f)
	fld, err := document.NewDateTimeFieldWithIndexingOptions(name, idx, t, layout, m.opts(f))
	if err == nil {
		ctx.doc.AddField(fld)
	}
	if !f.InAll {
		ctx.excluded = append(ctx.excluded, name)
	}
	f.features(func(s string) {
		if !strings.HasPrefix(s, "field.type=") && s != "field.name" {
			m.touch(s)
		}
	})
	m.touch("field.type=datetime")
}

func (m *model) geoPoint(f *fieldSpec, raw interface{}, path []string, idx []uint64, ctx *modelCtx) {
	lon, lat, ok := geo.ExtractGeoPoint(raw)
	if !ok {
		return
	}
	m.emit(f, document.NewGeoPointFieldWithIndexingOptions(m.name(path, f), idx, lon, lat, m.opts(f)), ctx)
}
