package c16

// regressionWitness is a hand-written minimal case of a defect this monitor found; it is
// replayed on every run (before the generated cases) so the violation is reported again
// if the defect (re)appears.
type regressionWitness struct {
	name string
	in   *caseInput
}

func textProp(s *indexSpec, prop string) {
	d := newDocSpec()
	d.Fields = []*fieldSpec{defaultField("text")}
	s.Default.addProp(prop, d)
}

func regressionWitnesses() []regressionWitness {
	var out []regressionWitness

	// 1. dict_compound filter: "min_subword_size": 5 written as a Go int. The constructor only
	// accepts float64 and silently keeps the default (2) for the mapping built in Go; after
	// the JSON round trip the value is a float64 and is honoured. "softball" analyses to
	// softball+soft+ball before and to softball alone after a reopen.
	{
		s := newIndexSpec()
		s.Analysis = []*comp{
			{Kind: kTokenMap, Name: "dict", Type: "custom", List: map[string][]string{"tokens": {"soft", "ball"}}},
			{Kind: kTokenFilter, Name: "cmp", Type: "dict_compound", Str: map[string]string{"dict_token_map": "dict"},
				Int: map[string]int{"min_subword_size": 5}, GoInt: map[string]bool{"min_subword_size": true}},
			{Kind: kAnalyzer, Name: "a", Type: "custom", Str: map[string]string{"tokenizer": "unicode"},
				List: map[string][]string{"token_filters": {"cmp"}}},
		}
		s.DefaultAnalyzer = "a"
		out = append(out, regressionWitness{"go-int/dict_compound", &caseInput{Spec: s,
			Docs: []interface{}{map[string]interface{}{"t": "softball"}}}})
	}

	// 2. length filter: {"min": 2.0, "max": 5} with max as a Go int: ignored before, applied after.
	{
		s := newIndexSpec()
		s.Analysis = []*comp{
			{Kind: kTokenFilter, Name: "len", Type: "length", Int: map[string]int{"min": 2, "max": 5},
				GoInt: map[string]bool{"max": true}},
			{Kind: kAnalyzer, Name: "a", Type: "custom", Str: map[string]string{"tokenizer": "unicode"},
				List: map[string][]string{"token_filters": {"len"}}},
		}
		textProp(s, "t")
		s.Default.Props["t"].Fields[0].Analyzer = "a"
		out = append(out, regressionWitness{"go-int/length", &caseInput{Spec: s,
			Docs: []interface{}{map[string]interface{}{"t": "ab abcdefgh"}}}})
	}

	// 3. a custom tokenizer registered under a built-in name ("whitespace") and an exception
	// tokenizer that defers to it: legal through the API (define "whitespace" first), but
	// registerAll walks the tokenizers in map order; when the exception tokenizer comes
	// first its lookup instantiates the built-in "whitespace" and the custom definition then
	// fails with "already defined" — the stored mapping cannot be opened (about every second try).
	{
		s := newIndexSpec()
		s.Analysis = []*comp{
			{Kind: kTokenizer, Name: "whitespace", Type: "regexp", Str: map[string]string{"regexp": `\w+`}},
			{Kind: kTokenizer, Name: "exc", Type: "exception", Str: map[string]string{"tokenizer": "whitespace"},
				List: map[string][]string{"exceptions": {`[\w.]+@[\w.]+`}}},
			{Kind: kAnalyzer, Name: "a", Type: "custom", Str: map[string]string{"tokenizer": "exc"}},
		}
		s.DefaultAnalyzer = "a"
		out = append(out, regressionWitness{"tokenizer-registration-order", &caseInput{Spec: s,
			Docs: []interface{}{map[string]interface{}{"t": "mail bob@example.com now-ish"}}}})
	}
	return out
}
