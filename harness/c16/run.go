package c16

import (
	"encoding/json"
	"fmt"
	"path/filepath"
	"runtime"
	"sort"
	"strings"
	"sync"
	"time"

	"verifharness/ev"
	"verifharness/rng"
)

func init() { ev.Register("C16", "exploration", run) }

// features every healthy run must have exercised (a mapping had the option away from its
// default *and* a document touched it); a run that misses one is reported as inconclusive
var requiredFeatures = []string{
	"types", "properties", "root.enabled=false", "root.dynamic=false", "prop.enabled=false", "prop.dynamic=false",
	"prop.nested", "root.default_analyzer", "prop.default_analyzer", "root.struct_tag_key", "_all.disabled",
	"type_field", "default_type", "default_analyzer", "default_datetime_parser",
	"store_dynamic", "index_dynamic", "docvalues_dynamic",
	"field.name", "field.analyzer", "field.store", "field.index", "field.include_term_vectors", "field.include_in_all",
	"field.docvalues", "field.skip_freq_norm", "field.date_format", "field.gpu",
	"field.type=text", "field.type=number", "field.type=datetime", "field.type=boolean", "field.type=geopoint", "field.type=IP",
	"cf:regexp", "tok:regexp", "tok:exception", "tm:custom", "tf:length", "tf:dict_compound", "tf:stop_tokens", "tf:ngram",
	"tf:edge_ngram", "tf:shingle", "tf:truncate_token", "tf:elision", "tf:keyword_marker", "tf:normalize_unicode", "tf:hierarchy",
	"an:custom", "dp:flexiblego", "dp:sanitizedgo", "dp:isostyle", "dp:percentstyle",
}

type outcome struct {
	idx int
	in  *caseInput
	res *caseResult
}

func docsJSON(docs []interface{}) []interface{} {
	out := make([]interface{}, len(docs))
	for i, d := range docs {
		out[i] = map[string]interface{}{"json": d, "go": fmt.Sprintf("%#v", d)}
	}
	return out
}

func genCase(base *rng.Rand, i, nDocs int) *caseInput {
	g := base.Derive(fmt.Sprintf("case-%d", i))
	in := &caseInput{Spec: genSpec(g.Derive("spec"))}
	dg := g.Derive("docs")
	for d := 0; d < nDocs; d++ {
		in.Docs = append(in.Docs, genDoc(dg, in.Spec))
	}
	return in
}

func run(r *ev.Run) {
	r.Rule = "case = (generated mapping specification, generated document). The specification is built through the Go API " +
		"(original, never passed through JSON), marshalled and compared with our own JSON writer, parsed back 3 times (registration " +
		"order inside UnmarshalJSON is random), parsed from our own sparse JSON form (keys at their documented default omitted), and " +
		"for every 10th case stored in a real index (scorch, every 5th of those upsidedown/boltdb) that is closed and reopened; every " +
		"parsed mapping must validate, re-marshal to the original's bytes and map the document to the same analysed fields (name, " +
		"type, array positions, options, value bytes, token frequencies with positions/offsets, _all composite, nested documents) as " +
		"the original and as the reference model; the reopened index must apply the same scoring model. Non-trivial: the " +
		"specification has >= 3 options away from their defaults and the document touches >= 1 of them (the option decided a " +
		"field's presence, name, type, flags, analyzer, date parser or the document's type). Distinct: hash of specification + document."
	r.Assumptions = []string{
		"all strings in a mapping are valid UTF-8 (encoding/json replaces invalid bytes, so such names cannot survive any JSON form)",
		"documents nest arrays at most 3 deep (deeper array positions share a backing array in walkDocument and are overwritten by siblings; same on both sides, not this property)",
		"built-in component names that built-in analyzers are assembled from (unicode, to_lower, stop_en, ...) are not redefined by custom components; other built-in names are",
		"the hierarchy token filter always gets a float64 \"max\" (without one it panics on the first token: makeslice cap out of range)",
		"no vector, geoshape or TextMarshaler values; build without the `vectors` tag (dims/similarity/vector_index_optimized_for/gpu are carried on other field types for the JSON form only)",
		"analysis components (tokenizers, filters, date parsers), geo point extraction and the document package's field constructors are shared with the implementation; the mapping package's JSON forms, registration and document walk are under test",
		"through the real index only the mapping, MapDocument and the scoring model named in hit explanations are compared; hit sets and score values also depend on persisting/merging (other properties) and documents are only indexed when every field name has one (type, options) pair",
		"AnalyzerNameForPath / FieldMappingForPath / SynonymSourceForPath / NestedDepth are compared only for mappings with <= 1 type mapping and no field aliases (otherwise their answer depends on Go map iteration order)",
	}
	r.MinDistinct = r.Scale(4000, 100000)

	started := time.Now() // reporting only, never used by an oracle
	nCases := r.Scale(5000, 150000)
	nDocs := 6
	indexEvery := r.Scale(10, 10)
	base := r.Rng("cases")
	tmp := r.TempDir()

	// regression witnesses of defects found by this monitor are replayed first
	for _, w := range regressionWitnesses() {
		res := checkCase(w.in, checkOpts{unmarshalTries: 24, sparseSeed: 1})
		if res.invalid != "" {
			r.Violation("regression-witness-invalid/"+w.name, res.invalid, w.in.Spec)
			continue
		}
		r.Count("regression_witnesses", 1)
		report(r, -1, w.in, res, w.name, true)
		for i := range w.in.Docs {
			r.Case("regression/"+w.name+fmt.Sprint(i), true)
		}
	}

	workers := runtime.NumCPU()
	if workers > 16 {
		workers = 16
	}
	jobs := make(chan int, 64)
	outs := make(chan outcome, 64)
	var wg sync.WaitGroup
	for w := 0; w < workers; w++ {
		wg.Add(1)
		go func() {
			defer wg.Done()
			for i := range jobs {
				in := genCase(base, i, nDocs)
				o := checkOpts{unmarshalTries: 3, sparseSeed: uint64(r.Seed)*1000003 + uint64(i)}
				if i%indexEvery == 0 {
					o.indexDir = filepath.Join(tmp, fmt.Sprintf("idx-%d", i))
					o.upsidedown = (i/indexEvery)%5 == 4
					// the index path runs bleve goroutines that could take the process down;
					// the case is regenerable from (seed, tier, index)
					r.Journal(map[string]interface{}{"case_index": i, "seed": r.Seed, "tier": r.Tier, "stage": "real-index"})
				}
				var res *caseResult
				if p, val, stack := ev.Guard(func() { res = checkCase(in, o) }); p {
					res = &caseResult{findings: []finding{{"panic", "uncaught", fmt.Sprintf("%v\n%s", val, stack), -1}}}
				}
				outs <- outcome{i, in, res}
			}
		}()
	}
	go func() {
		for i := 0; i < nCases; i++ {
			jobs <- i
		}
		close(jobs)
		wg.Wait()
		close(outs)
	}()

	featSpec := map[string]int{}  // mappings with the option away from its default
	featTouch := map[string]int{} // (mapping, document) cases that touched it
	pending := map[int]outcome{}
	next := 0
	shrunk := 0
	firstSeen := false
	examined := map[string]int{}
	shrunkPer := map[string]int{}
	handle := func(oc outcome) {
		res, in := oc.res, oc.in
		if res.invalid != "" {
			r.Count("generator_invalid", 1)
			r.Inconclusive("generator produced a mapping bleve rejects: " + errKindStr(res.invalid))
			if r.Counter("generator_invalid") <= 3 {
				fmt.Printf("generator-invalid case %d: %s\n", oc.idx, res.invalid)
			}
			return
		}
		feats := in.Spec.features()
		fset := map[string]bool{}
		for _, f := range feats {
			fset[f] = true
			featSpec[f]++
		}
		r.Count("mappings", 1)
		r.Count("fields_mapped", res.fields)
		r.Count("tokens_analysed", res.tokens)
		r.Count("nested_documents", res.nestedDocs)
		if res.indexed {
			r.Count("real_index_reopens", 1)
			r.Count("search_hits_compared", res.searchHits)
			if res.searchProbed {
				r.Count("score_probes", 1)
			}
		}
		specKey := in.Spec.key()
		for i := range in.Docs {
			touched := 0
			for f := range res.touched[i] {
				if fset[f] {
					touched++
					featTouch[f]++
				}
			}
			dj, _ := json.Marshal(in.Docs[i])
			r.Case(specKey+"\x00"+string(dj), len(feats) >= 3 && touched >= 1)
		}
		if oc.idx < 3 {
			r.Sample(map[string]interface{}{"mapping_json": json.RawMessage(mustJSON(in.Spec.toJSON(nil))),
				"documents": in.Docs, "features": feats})
		}
		if len(res.findings) > 0 {
			// shrinking is the expensive part: one witness per stage/kind and at most 8 per run
			sk := res.findings[0].Stage + "/" + res.findings[0].Kind
			if !firstSeen {
				firstSeen = true
				fmt.Printf("C16: first finding among generated cases at case %d, %.1fs after start\n", oc.idx, time.Since(started).Seconds())
			}
			if shrunk < 8 && shrunkPer[sk] < 1 {
				shrunk++
				shrunkPer[sk]++
				report(r, oc.idx, in, res, "", true)
			} else if examined[sk] < 300 {
				// unshrunk findings are still attributed to an established cause where a probe
				// confirms it; beyond 300 per stage/kind they are only counted
				examined[sk]++
				report(r, oc.idx, in, res, "", false)
			} else {
				r.Count("findings_only_counted", len(res.findings))
			}
		}
	}
	// results are consumed in case order so that the evidence does not depend on scheduling
	for oc := range outs {
		pending[oc.idx] = oc
		for {
			p, ok := pending[next]
			if !ok {
				break
			}
			delete(pending, next)
			handle(p)
			next++
		}
	}

	// coverage report
	var missing []string
	for _, f := range requiredFeatures {
		if featTouch[f] == 0 {
			missing = append(missing, f)
		}
	}
	sort.Strings(missing)
	for _, f := range missing {
		r.Inconclusive("option never exercised: " + f)
	}
	if len(missing) > 0 {
		fmt.Printf("C16: options never exercised by a document: %v\n", missing)
		// a run that did not exercise every listed option must not pass as "held"
		r.MinDistinct = 1 << 30
	}
	r.Extra("option_nondefault_mappings", featSpec)
	r.Extra("option_touched_cases", featTouch)
	fmt.Printf("C16: mappings=%d fields=%d tokens=%d nested=%d reopens=%d generator_invalid=%d\n",
		r.Counter("mappings"), r.Counter("fields_mapped"), r.Counter("tokens_analysed"), r.Counter("nested_documents"),
		r.Counter("real_index_reopens"), r.Counter("generator_invalid"))
}

func mustJSON(v interface{}) []byte {
	b, err := json.Marshal(v)
	if err != nil {
		return []byte(`"unmarshalable"`)
	}
	return b
}

func errKindStr(s string) string {
	if i := strings.Index(s, ":"); i > 0 {
		return s[:i]
	}
	return s
}

// probeCause tries the explanations of defects this monitor has already established on
// the (shrunk) case: the finding must vanish when the suspected ingredient alone is changed.
func probeCause(in *caseInput, f finding) string {
	if _, ok := fails(in, f); !ok {
		return "" // cannot be re-run in isolation: nothing can be attributed
	}
	// (a) numeric parameters of token filters written as Go ints
	goInt := map[string]bool{}
	for _, c := range in.Spec.Analysis {
		for k, g := range c.GoInt {
			if _, ok := c.Int[k]; ok && g {
				goInt[c.feature()] = true
			}
		}
	}
	if len(goInt) > 0 {
		clear := func(only string) *caseInput {
			c := &caseInput{Spec: in.Spec.clone(), Docs: in.Docs}
			for _, x := range c.Spec.Analysis {
				if only == "" || x.feature() == only {
					x.GoInt = nil
				}
			}
			return c
		}
		if _, still := fails(clear(""), f); !still {
			var types []string
			for _, t := range sortedKeys(goInt) {
				if _, still := fails(clear(t), f); !still {
					types = []string{t}
					break
				}
			}
			if types == nil {
				types = sortedKeys(goInt)
			}
			return "go-int-config-ignored[" + strings.Join(types, "+") + "]"
		}
	}
	// (b) a custom tokenizer under a built-in name that another tokenizer defers to
	if f.Kind == "already-defined" {
		shadow := map[string]bool{}
		for _, c := range in.Spec.comps(kTokenizer) {
			if isBuiltinName(kTokenizer, c.Name) {
				shadow[c.Name] = true
			}
		}
		for _, c := range in.Spec.comps(kTokenizer) {
			if c.Type == "exception" && shadow[c.Str["tokenizer"]] {
				return "tokenizer-registration-order[exception->custom tokenizer with built-in name]"
			}
		}
	}
	return ""
}

// report shrinks the case for each kind of finding and files a violation. The class is the
// established cause if a probe confirms one, otherwise stage/kind plus the non-default
// options left in the shrunk specification.
func report(r *ev.Run, idx int, in *caseInput, res *caseResult, regression string, doShrink bool) {
	// round-trip stages first: they state the property; the model stage is supporting evidence
	prio := map[string]int{"unmarshal": 0, "validate": 1, "fixpoint": 2, "mapdoc": 3, "index-open": 4, "index-json": 5,
		"index-mapdoc": 6, "index-search": 7, "sparse-unmarshal": 8, "sparse-validate": 9, "sparse-json": 10,
		"sparse-mapdoc": 11, "aux": 12, "marshal-vs-spec": 13, "model": 14}
	findings := append([]finding{}, res.findings...)
	sort.SliceStable(findings, func(i, j int) bool {
		pi, ok := prio[findings[i].Stage]
		if !ok {
			pi = -1
		}
		pj, ok := prio[findings[j].Stage]
		if !ok {
			pj = -1
		}
		return pi < pj
	})
	seen := map[string]bool{}
	for _, f := range findings {
		if seen[f.Stage+"/"+f.Kind] {
			continue
		}
		seen[f.Stage+"/"+f.Kind] = true
		small, sf := in, f
		if doShrink {
			small, sf = shrink(in, f)
		}
		feats := small.Spec.features()
		class := probeCause(small, sf)
		if class == "" && !doShrink {
			class = fmt.Sprintf("%s/%s[unshrunk]", f.Stage, f.Kind)
			r.Count("findings_not_shrunk", 1)
		}
		if class == "" {
			var keep []string
			for _, x := range feats {
				if x == "properties" || strings.HasPrefix(x, "field.type=") && len(feats) > 4 {
					continue
				}
				keep = append(keep, x)
			}
			if len(keep) > 6 {
				keep = keep[:6]
			}
			class = fmt.Sprintf("%s/%s[%s]", sf.Stage, sf.Kind, strings.Join(keep, "+"))
		}
		w := map[string]interface{}{
			"case_index": idx, "finding": sf, "class_features": feats,
			"mapping_json":  json.RawMessage(mustJSON(small.Spec.toJSON(nil))),
			"specification": small.Spec, "documents": docsJSON(small.Docs),
			"how_built": "specification -> mapping.NewIndexMapping() + AddCustom*/Add*Mapping with config values as in specification.analysis[].go_int / go_strs",
		}
		if regression != "" {
			w["regression_witness"] = regression
		}
		r.Violation(class, sf.Stage+"/"+sf.Kind+": "+sf.Detail, w)
	}
}
