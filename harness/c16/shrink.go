package c16

import (
	"encoding/json"
	"reflect"
	"sort"
)

// Shrinking: greedy deletion/defaulting on the specification and the documents while the
// same stage/kind of finding persists. Every candidate must still be a mapping bleve
// accepts (build + Validate), otherwise it is discarded.

func fails(in *caseInput, want finding) (finding, bool) {
	if eq, ok := map[string]string{"index-mapdoc": "mapdoc", "index-open": "unmarshal", "index-json": "fixpoint"}[want.Stage]; ok {
		// stages of the real-index path are re-run as their mapping-level equivalents
		w2 := want
		w2.Stage = eq
		nf, ok := fails(in, w2)
		nf.Stage = want.Stage
		return nf, ok
	}
	o := checkOpts{unmarshalTries: 1, sparseSeed: 1, onlyStage: want.Stage, onlyKind: want.Kind}
	switch want.Stage {
	case "unmarshal", "validate", "fixpoint":
		o.unmarshalTries = 96 // order-dependent failures show on as few as 1 parse in 8
	case "mapdoc", "aux":
		o.unmarshalTries = 16 // the first parse that succeeds is the one compared
	case "sparse-unmarshal", "sparse-validate", "sparse-json", "sparse-mapdoc":
		// one parse per call: repeat the whole check (a parse can fail for an unrelated,
		// order-dependent reason)
		n := 64
		if want.Stage == "sparse-json" || want.Stage == "sparse-mapdoc" {
			n = 4
		}
		for i := 0; i < n; i++ {
			o.sparseSeed = uint64(i + 1)
			res := checkCase(in, o)
			if res.invalid != "" {
				return finding{}, false
			}
			for _, f := range res.findings {
				if f.Stage == want.Stage && f.Kind == want.Kind {
					return f, true
				}
			}
		}
		return finding{}, false
	}
	if len(want.Stage) > 5 && want.Stage[:6] == "index-" {
		return want, false
	}
	res := checkCase(in, o)
	if res.invalid != "" {
		return finding{}, false
	}
	for _, f := range res.findings {
		if f.Stage == want.Stage && f.Kind == want.Kind {
			return f, true
		}
	}
	return finding{}, false
}

// sites lists in-place simplifications of a specification.
func specSites(s *indexSpec) []func() {
	var out []func()
	for _, n := range append([]string{}, s.TypeNames...) {
		n := n
		out = append(out, func() { s.delType(n) })
	}
	var doc func(d *docSpec, root bool)
	doc = func(d *docSpec, root bool) {
		for _, n := range append([]string{}, d.PropNames...) {
			n := n
			out = append(out, func() { d.delProp(n) })
		}
		for i := range d.Fields {
			i := i
			out = append(out, func() { d.Fields = append(append([]*fieldSpec{}, d.Fields[:i]...), d.Fields[i+1:]...) })
		}
		out = append(out,
			func() { d.Enabled = true },
			func() { d.Dynamic = true },
			func() { d.Nested = false },
			func() { d.DefAnalyzer = "" },
			func() { d.DefSynonym = "" },
			func() { d.StructTagKey = "" },
		)
		for _, f := range d.Fields {
			f := f
			def := defaultField(f.Type)
			out = append(out,
				func() { f.Name = "" },
				func() { f.Analyzer = "" },
				func() { f.DateFormat = "" },
				func() { f.SynonymSrc = "" },
				func() { f.Store = def.Store },
				func() { f.Index = def.Index },
				func() { f.TV = def.TV },
				func() { f.InAll = def.InAll },
				func() { f.DocValues = def.DocValues },
				func() { f.SkipFreqNorm = false },
				func() { f.GPU = false },
				func() { f.Dims, f.Similarity, f.VecOpt = 0, "", "" },
			)
		}
		for _, n := range d.PropNames {
			doc(d.Props[n], false)
		}
	}
	doc(s.Default, true)
	for _, n := range s.TypeNames {
		doc(s.Types[n], true)
	}
	out = append(out,
		func() { s.TypeField = "_type" },
		func() { s.DefaultType = "_default" },
		func() { s.DefaultAnalyzer = "standard" },
		func() { s.DefaultDateTime = "dateTimeOptional" },
		func() { s.DefaultField = "_all" },
		func() { s.DefaultSynonym = "" },
		func() { s.ScoringModel = "" },
		func() { s.StoreDynamic = true },
		func() { s.IndexDynamic = true },
		func() { s.DocValuesDynamic = true },
	)
	for i := len(s.Analysis) - 1; i >= 0; i-- {
		i := i
		out = append(out, func() { s.Analysis = append(append([]*comp{}, s.Analysis[:i]...), s.Analysis[i+1:]...) })
	}
	for _, c := range s.Analysis {
		c := c
		for _, k := range sortedKeys(c.GoInt) {
			k := k
			out = append(out, func() { delete(c.GoInt, k) })
		}
		for _, k := range sortedKeys(c.GoStr) {
			k := k
			out = append(out, func() { delete(c.GoStr, k) })
		}
		for _, k := range sortedKeys(c.List) {
			k := k
			if len(c.List[k]) > 1 {
				out = append(out, func() { c.List[k] = c.List[k][:len(c.List[k])-1] })
				out = append(out, func() { c.List[k] = c.List[k][1:] })
			} else if len(c.List[k]) == 1 && (k == "char_filters" || k == "token_filters") {
				out = append(out, func() { c.List[k] = []string{} })
			}
		}
		if c.Kind == kTokenFilter {
			for _, k := range sortedKeys(c.Int) {
				k := k
				if k != "min" && k != "max" && k != "length" {
					out = append(out, func() { delete(c.Int, k); delete(c.GoInt, k) })
				}
			}
			for _, k := range sortedKeys(c.Bool) {
				k := k
				out = append(out, func() { delete(c.Bool, k) })
			}
		}
	}
	return out
}

func sortedKeys[V any](m map[string]V) []string {
	out := make([]string, 0, len(m))
	for k := range m {
		out = append(out, k)
	}
	sort.Strings(out)
	return out
}

func shrinkDoc(v interface{}) []interface{} {
	var out []interface{}
	switch x := v.(type) {
	case map[string]interface{}:
		for _, k := range sortedKeys(x) {
			c := map[string]interface{}{}
			for k2, v2 := range x {
				if k2 != k {
					c[k2] = v2
				}
			}
			out = append(out, c)
		}
		for _, k := range sortedKeys(x) {
			sub := x[k]
			for _, s := range shrinkDoc(sub) {
				c := map[string]interface{}{}
				for k2, v2 := range x {
					c[k2] = v2
				}
				c[k] = s
				out = append(out, c)
			}
		}
	case []interface{}:
		for i := range x {
			c := append(append([]interface{}{}, x[:i]...), x[i+1:]...)
			out = append(out, c)
		}
		if len(x) == 1 {
			out = append(out, x[0])
		}
		for i, sub := range x {
			for _, s := range shrinkDoc(sub) {
				c := append([]interface{}{}, x...)
				c[i] = s
				out = append(out, c)
			}
		}
	}
	return out
}

func sameJSON(a, b interface{}) bool {
	x, _ := json.Marshal(a)
	y, _ := json.Marshal(b)
	return string(x) == string(y)
}

func shrink(in *caseInput, f finding) (*caseInput, finding) {
	cur := &caseInput{Spec: in.Spec.clone(), Docs: in.Docs}
	best := f
	if _, ok := fails(cur, f); !ok {
		return cur, f // not reproducible in isolation (or an index stage): report as is
	}
	// documents: keep the one the finding names, or none if the finding is about the mapping alone
	if f.Doc >= 0 && f.Doc < len(cur.Docs) {
		try := &caseInput{Spec: cur.Spec, Docs: []interface{}{cur.Docs[f.Doc]}}
		if nf, ok := fails(try, f); ok {
			cur, best = try, nf
		}
	} else {
		try := &caseInput{Spec: cur.Spec, Docs: nil}
		if nf, ok := fails(try, f); ok {
			cur, best = try, nf
		}
	}
	budget := 600
	for progress := true; progress && budget > 0; {
		progress = false
		// specification
		for k := 0; budget > 0; {
			c := cur.Spec.clone()
			sites := specSites(c)
			if k >= len(sites) {
				break
			}
			sites[k]()
			if reflect.DeepEqual(c, cur.Spec) || sameJSON(c, cur.Spec) {
				k++
				continue
			}
			budget--
			try := &caseInput{Spec: c, Docs: cur.Docs}
			if nf, ok := fails(try, f); ok {
				cur, best, progress = try, nf, true
				// same k now denotes the next site
			} else {
				k++
			}
		}
		// documents
		for di := range cur.Docs {
			for again := true; again && budget > 0; {
				again = false
				for _, cand := range shrinkDoc(cur.Docs[di]) {
					budget--
					docs := append([]interface{}{}, cur.Docs...)
					docs[di] = cand
					try := &caseInput{Spec: cur.Spec, Docs: docs}
					if nf, ok := fails(try, f); ok {
						cur, best, progress, again = try, nf, true, true
						break
					}
					if budget <= 0 {
						break
					}
				}
			}
		}
	}
	return cur, best
}
