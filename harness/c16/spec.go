// Package c16 monitors property C16: an index mapping survives its JSON form.
//
// The monitor generates mapping *specifications* (plain data, this file), and derives
// from one specification, independently of each other:
//   - the bleve mapping built through the Go API (never passed through JSON) — "original",
//   - the JSON text the specification should serialise to, written by our own writer
//     (full form, and a sparse form that omits every key that is at its documented default),
//   - a reference model of MapDocument (model.go) with directly constructed analysis
//     components (analysis.go).
package c16

import (
	"encoding/json"
	"sort"
)

// fieldSpec is one FieldMapping.
type fieldSpec struct {
	Name         string `json:"name,omitempty"`
	Type         string `json:"type"`
	Analyzer     string `json:"analyzer,omitempty"`
	Store        bool   `json:"store"`
	Index        bool   `json:"index"`
	TV           bool   `json:"tv"`
	InAll        bool   `json:"in_all"`
	DocValues    bool   `json:"docvalues"`
	SkipFreqNorm bool   `json:"skip_freq_norm,omitempty"`
	DateFormat   string `json:"date_format,omitempty"`
	SynonymSrc   string `json:"synonym_source,omitempty"`
	// options that are inert in a build without the `vectors` tag but are part of the JSON form
	GPU        bool   `json:"gpu,omitempty"`
	Dims       int    `json:"dims,omitempty"`
	Similarity string `json:"similarity,omitempty"`
	VecOpt     string `json:"vec_opt,omitempty"`
}

// docSpec is one DocumentMapping. PropNames keeps generation order (deterministic walks).
type docSpec struct {
	Enabled      bool                `json:"enabled"`
	Dynamic      bool                `json:"dynamic"`
	Nested       bool                `json:"nested,omitempty"`
	DefAnalyzer  string              `json:"default_analyzer,omitempty"`
	DefSynonym   string              `json:"default_synonym_source,omitempty"`
	StructTagKey string              `json:"struct_tag_key,omitempty"`
	PropNames    []string            `json:"prop_names,omitempty"`
	Props        map[string]*docSpec `json:"props,omitempty"`
	Fields       []*fieldSpec        `json:"fields,omitempty"`
}

// comp is one custom analysis component with typed parameters.
type comp struct {
	Kind  string              `json:"kind"` // key in the "analysis" JSON object
	Name  string              `json:"name"`
	Type  string              `json:"type"`
	Str   map[string]string   `json:"str,omitempty"`
	Int   map[string]int      `json:"int,omitempty"`
	Bool  map[string]bool     `json:"bool,omitempty"`
	List  map[string][]string `json:"list,omitempty"`
	GoInt map[string]bool     `json:"go_int,omitempty"`  // render this int key as Go int (not float64) for the API-built mapping
	GoStr map[string]bool     `json:"go_strs,omitempty"` // render this list key as []string (not []interface{})
}

const (
	kCharFilter  = "char_filters"
	kTokenizer   = "tokenizers"
	kTokenMap    = "token_maps"
	kTokenFilter = "token_filters"
	kAnalyzer    = "analyzers"
	kDateParser  = "date_time_parsers"
	kSynonym     = "synonym_sources"
)

var kindOrder = []string{kCharFilter, kTokenizer, kTokenMap, kTokenFilter, kAnalyzer, kDateParser, kSynonym}

// indexSpec is one IndexMappingImpl.
type indexSpec struct {
	TypeNames        []string            `json:"type_names,omitempty"`
	Types            map[string]*docSpec `json:"types,omitempty"`
	Default          *docSpec            `json:"default_mapping"`
	TypeField        string              `json:"type_field"`
	DefaultType      string              `json:"default_type"`
	DefaultAnalyzer  string              `json:"default_analyzer"`
	DefaultDateTime  string              `json:"default_datetime_parser"`
	DefaultSynonym   string              `json:"default_synonym_source,omitempty"`
	ScoringModel     string              `json:"scoring_model,omitempty"`
	DefaultField     string              `json:"default_field"`
	StoreDynamic     bool                `json:"store_dynamic"`
	IndexDynamic     bool                `json:"index_dynamic"`
	DocValuesDynamic bool                `json:"docvalues_dynamic"`
	Analysis         []*comp             `json:"analysis,omitempty"` // API definition order: dependencies first
}

func newDocSpec() *docSpec { return &docSpec{Enabled: true, Dynamic: true} }

func newIndexSpec() *indexSpec {
	return &indexSpec{
		Default: newDocSpec(), TypeField: "_type", DefaultType: "_default", DefaultAnalyzer: "standard",
		DefaultDateTime: "dateTimeOptional", DefaultField: "_all",
		StoreDynamic: true, IndexDynamic: true, DocValuesDynamic: true,
	}
}

// defaultField returns the field mapping the public constructors give for the type
// (NewTextFieldMapping, NewNumericFieldMapping, ...).
func defaultField(typ string) *fieldSpec {
	f := &fieldSpec{Type: typ, Store: true, Index: true, InAll: true, DocValues: true}
	switch typ {
	case "text":
		f.TV = true
	case "IP":
		f.DocValues = false
	}
	return f
}

func (s *indexSpec) clone() *indexSpec {
	b, err := json.Marshal(s)
	if err != nil {
		panic(err)
	}
	var c indexSpec
	if err := json.Unmarshal(b, &c); err != nil {
		panic(err)
	}
	return &c
}

func (s *indexSpec) key() string {
	b, _ := json.Marshal(s)
	return string(b)
}

func (d *docSpec) addProp(name string, sub *docSpec) {
	if d.Props == nil {
		d.Props = map[string]*docSpec{}
	}
	if _, ok := d.Props[name]; !ok {
		d.PropNames = append(d.PropNames, name)
	}
	d.Props[name] = sub
}

func (d *docSpec) delProp(name string) {
	delete(d.Props, name)
	out := d.PropNames[:0:0]
	for _, n := range d.PropNames {
		if n != name {
			out = append(out, n)
		}
	}
	d.PropNames = out
	if len(d.Props) == 0 {
		d.Props = nil
	}
}

func (s *indexSpec) addType(name string, d *docSpec) {
	if s.Types == nil {
		s.Types = map[string]*docSpec{}
	}
	if _, ok := s.Types[name]; !ok {
		s.TypeNames = append(s.TypeNames, name)
	}
	s.Types[name] = d
}

func (s *indexSpec) delType(name string) {
	delete(s.Types, name)
	out := s.TypeNames[:0:0]
	for _, n := range s.TypeNames {
		if n != name {
			out = append(out, n)
		}
	}
	s.TypeNames = out
	if len(s.Types) == 0 {
		s.Types = nil
	}
}

func (s *indexSpec) comps(kind string) []*comp {
	var out []*comp
	for _, c := range s.Analysis {
		if c.Kind == kind {
			out = append(out, c)
		}
	}
	return out
}

func (s *indexSpec) comp(kind, name string) *comp {
	for _, c := range s.Analysis {
		if c.Kind == kind && c.Name == name {
			return c
		}
	}
	return nil
}

// allDocSpecs visits the default mapping and every type mapping with all sub-mappings.
func (s *indexSpec) allDocSpecs(f func(path []string, d *docSpec, root bool)) {
	var rec func(path []string, d *docSpec, root bool)
	rec = func(path []string, d *docSpec, root bool) {
		f(path, d, root)
		for _, n := range d.PropNames {
			rec(append(append([]string{}, path...), n), d.Props[n], false)
		}
	}
	rec(nil, s.Default, true)
	for _, n := range s.TypeNames {
		rec(nil, s.Types[n], true)
	}
}

// ---------------------------------------------------------------------------
// config rendering of analysis components

// config renders the component as the map handed to AddCustomXxx. With goTyped the per-key
// GoInt / GoStr choices are honoured (Go ints, []string); without, everything has the types a
// JSON decoder produces (float64, []interface{}).
func (c *comp) config(goTyped bool) map[string]interface{} {
	m := map[string]interface{}{"type": c.Type}
	for k, v := range c.Str {
		m[k] = v
	}
	for k, v := range c.Bool {
		m[k] = v
	}
	for k, v := range c.Int {
		if goTyped && c.GoInt[k] {
			m[k] = v
		} else {
			m[k] = float64(v)
		}
	}
	for k, v := range c.List {
		if goTyped && c.GoStr[k] {
			m[k] = append([]string{}, v...)
		} else {
			l := make([]interface{}, len(v))
			for i := range v {
				l[i] = v[i]
			}
			m[k] = l
		}
	}
	return m
}

// ---------------------------------------------------------------------------
// our own JSON writer (generic values; compared semantically with what bleve marshals)

func (f *fieldSpec) toJSON() map[string]interface{} {
	m := map[string]interface{}{}
	setS := func(k, v string) {
		if v != "" {
			m[k] = v
		}
	}
	setB := func(k string, v bool) {
		if v {
			m[k] = true
		}
	}
	setS("name", f.Name)
	setS("type", f.Type)
	setS("analyzer", f.Analyzer)
	setB("store", f.Store)
	setB("index", f.Index)
	setB("include_term_vectors", f.TV)
	setB("include_in_all", f.InAll)
	setS("date_format", f.DateFormat)
	setB("docvalues", f.DocValues)
	setB("skip_freq_norm", f.SkipFreqNorm)
	if f.Dims != 0 {
		m["dims"] = float64(f.Dims)
	}
	setS("similarity", f.Similarity)
	setS("vector_index_optimized_for", f.VecOpt)
	setS("synonym_source", f.SynonymSrc)
	setB("gpu", f.GPU)
	return m
}

// omit decides whether a key that is at its documented default is left out (sparse form).
type omit func() bool

func (d *docSpec) toJSON(om omit) map[string]interface{} {
	m := map[string]interface{}{}
	if !(d.Enabled && om()) {
		m["enabled"] = d.Enabled
	}
	if !(d.Dynamic && om()) {
		m["dynamic"] = d.Dynamic
	}
	if len(d.Props) > 0 {
		p := map[string]interface{}{}
		for _, n := range d.PropNames {
			p[n] = d.Props[n].toJSON(om)
		}
		m["properties"] = p
	}
	if len(d.Fields) > 0 {
		var l []interface{}
		for _, f := range d.Fields {
			l = append(l, f.toJSON())
		}
		m["fields"] = l
	}
	if d.Nested {
		m["nested"] = true
	}
	if d.DefAnalyzer != "" {
		m["default_analyzer"] = d.DefAnalyzer
	}
	if d.DefSynonym != "" {
		m["default_synonym_source"] = d.DefSynonym
	}
	if d.StructTagKey != "" {
		m["struct_tag_key"] = d.StructTagKey
	}
	return m
}

func (d *docSpec) isDefault() bool {
	return d.Enabled && d.Dynamic && !d.Nested && d.DefAnalyzer == "" && d.DefSynonym == "" &&
		d.StructTagKey == "" && len(d.Props) == 0 && len(d.Fields) == 0
}

// toJSON writes the mapping. om==nil gives the full form (exactly the keys bleve's struct
// tags emit); otherwise keys whose value is the documented default may be omitted.
func (s *indexSpec) toJSON(om omit) map[string]interface{} {
	full := om == nil
	if full {
		om = func() bool { return false }
	}
	m := map[string]interface{}{}
	if len(s.Types) > 0 {
		t := map[string]interface{}{}
		for _, n := range s.TypeNames {
			t[n] = s.Types[n].toJSON(om)
		}
		m["types"] = t
	}
	if !(s.Default.isDefault() && om()) {
		m["default_mapping"] = s.Default.toJSON(om)
	}
	str := func(k, v, def string) {
		if !(v == def && om()) {
			m[k] = v
		}
	}
	str("type_field", s.TypeField, "_type")
	str("default_type", s.DefaultType, "_default")
	str("default_analyzer", s.DefaultAnalyzer, "standard")
	str("default_datetime_parser", s.DefaultDateTime, "dateTimeOptional")
	str("default_field", s.DefaultField, "_all")
	if s.DefaultSynonym != "" {
		m["default_synonym_source"] = s.DefaultSynonym
	}
	if s.ScoringModel != "" {
		m["scoring_model"] = s.ScoringModel
	}
	bl := func(k string, v bool) {
		if !(v && om()) {
			m[k] = v
		}
	}
	bl("store_dynamic", s.StoreDynamic)
	bl("index_dynamic", s.IndexDynamic)
	bl("docvalues_dynamic", s.DocValuesDynamic)
	an := map[string]interface{}{}
	for _, c := range s.Analysis {
		km, _ := an[c.Kind].(map[string]interface{})
		if km == nil {
			km = map[string]interface{}{}
			an[c.Kind] = km
		}
		km[c.Name] = c.config(false)
	}
	if !(len(an) == 0 && om()) {
		m["analysis"] = an
	}
	return m
}

// ---------------------------------------------------------------------------
// features: the non-default options of a specification (used for the non-triviality
// rule, the coverage counters and the violation class of a shrunk witness)

func (f *fieldSpec) features(add func(string)) {
	def := defaultField(f.Type)
	add("field.type=" + f.Type)
	if f.Name != "" {
		add("field.name")
	}
	if f.Analyzer != "" {
		add("field.analyzer")
	}
	if f.Store != def.Store {
		add("field.store")
	}
	if f.Index != def.Index {
		add("field.index")
	}
	if f.TV != def.TV {
		add("field.include_term_vectors")
	}
	if f.InAll != def.InAll {
		add("field.include_in_all")
	}
	if f.DocValues != def.DocValues {
		add("field.docvalues")
	}
	if f.SkipFreqNorm {
		add("field.skip_freq_norm")
	}
	if f.DateFormat != "" {
		add("field.date_format")
	}
	if f.SynonymSrc != "" {
		add("field.synonym_source")
	}
	if f.GPU {
		add("field.gpu")
	}
	if f.Dims != 0 || f.Similarity != "" || f.VecOpt != "" {
		add("field.vector_opts")
	}
}

func (c *comp) feature() string {
	short := map[string]string{kCharFilter: "cf", kTokenizer: "tok", kTokenMap: "tm", kTokenFilter: "tf",
		kAnalyzer: "an", kDateParser: "dp", kSynonym: "syn"}[c.Kind]
	return short + ":" + c.Type
}

func (s *indexSpec) features() []string {
	set := map[string]bool{}
	add := func(f string) { set[f] = true }
	if len(s.Types) > 0 {
		add("types")
	}
	s.allDocSpecs(func(path []string, d *docSpec, root bool) {
		pre := "prop."
		if root {
			pre = "root."
		}
		if !d.Enabled {
			add(pre + "enabled=false")
		}
		if !d.Dynamic {
			add(pre + "dynamic=false")
		}
		if d.Nested {
			add(pre + "nested")
		}
		if d.DefAnalyzer != "" {
			add(pre + "default_analyzer")
		}
		if d.DefSynonym != "" {
			add(pre + "default_synonym_source")
		}
		if d.StructTagKey != "" {
			add(pre + "struct_tag_key")
		}
		if !root {
			add("properties")
		}
		if len(path) > 0 && path[len(path)-1] == "_all" && !d.Enabled {
			add("_all.disabled")
		}
		for _, f := range d.Fields {
			f.features(add)
		}
	})
	if s.TypeField != "_type" {
		add("type_field")
	}
	if s.DefaultType != "_default" {
		add("default_type")
	}
	if s.DefaultAnalyzer != "standard" {
		add("default_analyzer")
	}
	if s.DefaultDateTime != "dateTimeOptional" {
		add("default_datetime_parser")
	}
	if s.DefaultField != "_all" {
		add("default_field")
	}
	if s.DefaultSynonym != "" {
		add("default_synonym_source")
	}
	if s.ScoringModel != "" {
		add("scoring_model")
	}
	if !s.StoreDynamic {
		add("store_dynamic")
	}
	if !s.IndexDynamic {
		add("index_dynamic")
	}
	if !s.DocValuesDynamic {
		add("docvalues_dynamic")
	}
	for _, c := range s.Analysis {
		add(c.feature())
		for k, g := range c.GoInt {
			if g {
				if _, ok := c.Int[k]; ok {
					add(c.feature() + ":go-int")
				}
			}
		}
		if isBuiltinName(c.Kind, c.Name) {
			add(c.feature() + ":shadows-builtin")
		}
	}
	out := make([]string, 0, len(set))
	for f := range set {
		out = append(out, f)
	}
	sort.Strings(out)
	return out
}
