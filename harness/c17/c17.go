// Package c17 monitors property C17: queries and search requests keep their meaning
// across JSON, and the query-string syntax is robust and means what it documents.
//
//	part 1  query tree -> json.Marshal -> query.ParseQuery: same ids and bit-identical
//	        scores on three multi-segment scorch probes; second marshal = first (fix-point)
//	part 2  SearchRequest with every option -> JSON -> SearchRequest: same result page
//	        (ids, order, scores, fields, fragments, locations, explanation, sort keys, facets)
//	part 3  arbitrary bytes / token soups through NewQueryStringQuery: Validate, Parse,
//	        Search must return (error allowed) — no panic, no hang
//	part 4  strings generated from the documented grammar return what the documented
//	        translation returns (directly constructed query: ids + scores; independent
//	        set evaluator: ids)
package c17

import (
	"fmt"
	"sync"
	"time"

	"verifharness/corpus"
	"verifharness/ev"
)

func init() { ev.Register("C17", "exploration", run) }

// parallel runs f(i) for i in [0,n) on 16 workers.
func parallel(n int, f func(i int)) {
	var wg sync.WaitGroup
	next := make(chan int, 64)
	for w := 0; w < 16; w++ {
		wg.Add(1)
		go func() {
			defer wg.Done()
			for i := range next {
				f(i)
			}
		}()
	}
	for i := 0; i < n; i++ {
		next <- i
	}
	close(next)
	wg.Wait()
}

func run(r *ev.Run) {
	r.Rule = "probes = 3 seeded histories (index/update/delete in batches, scorch in memory, several segments) over the shared corpus mapping " +
		"extended by a geo point, a custom date parser, sub-second dates and keyword values made of reserved characters. " +
		"json case = query tree of depth <= 3 from the shared generator plus boosts on every node kind, auto fuzziness, analyzers, multi-phrase, " +
		"open / sub-second / zoned date ranges, string date ranges with named parsers, fractional min, nested query-string queries; " +
		"request case = (probe, request with size/from/highlight/fields/facets of three kinds/explain/sort in string and object forms/" +
		"locations/score/search_after|before anchored at a real hit); " +
		"qs-robustness case = byte string (random bytes, operator soup, token soup, mutated grammar string, deep repetition, long token) parsed, validated and searched; " +
		"qs-meaning case = string rendered from the yacc grammar with its documented translation. " +
		"non-trivial: json = >= 2 distinct node kinds or an option away from its default; request = any option away from NewSearchRequest's defaults; " +
		"qs-robustness = contains an operator character or parses into > 1 clause; qs-meaning = >= 2 clauses or a prefix/field/boost/non-match clause; " +
		"distinct by canonical case text"
	r.Assumptions = []string{
		"queries are built through the public constructors and setters (BooleanQuery.Must/Should/MustNot hold the conjunction/disjunction the constructors create)",
		"±Inf / NaN bounds and boosts are outside the family (JSON cannot carry them); dates stay inside 1677..2262",
		"requests are built by NewSearchRequestOptions (Sort is never nil); SearchAfter/SearchBefore keys follow docs/pagination.md",
		"query.QueryDateTimeParser / QueryDateTimeFormat keep their defaults during the run",
		"query-string meaning: clauses are separated by single spaces; an escaped '*', '?' or a token wrapped in escaped '/' is not generated (the parser picks wildcard / regexp from the unescaped text)",
		"hang: an input that needs more than 60 s of wall clock is re-run alone and is a violation if it uses more than 60 s of process CPU time or does not return within 10 min (the only use of clocks; no other oracle depends on time); tokens are at most 8 KB (the lexer is quadratic in the token length) and fuzzy terms at most 500 bytes (the Levenshtein automaton needs about 70 KB per term byte)",
		"both sides of every comparison run on the same index; a differing pair is re-run once and discarded as inconclusive if the original does not reproduce itself",
	}
	r.MinDistinct = r.Scale(25000, 500000)

	// probes
	var probes []*probe
	for i, sz := range []struct{ ids, ops int }{{14, 45}, {30, 100}, {48, 170}} {
		p, err := buildProbe(r.Rng(fmt.Sprintf("probe-%d", i)), fmt.Sprintf("probe-%d", i), sz.ids, sz.ops)
		if err != nil {
			r.Violation("setup-error", err.Error(), nil)
			return
		}
		probes = append(probes, p)
		defer p.idx.Close()
	}
	var pinfo []map[string]any
	for _, p := range probes {
		pinfo = append(pinfo, map[string]any{"name": p.Name, "live_docs": len(p.live), "segments": p.nsegs})
		if p.nsegs < 2 {
			r.Inconclusive("probe " + p.Name + " has a single segment")
		}
	}
	r.Extra("probes", pinfo)
	allIDs := probes[2].ids

	walls := map[string]float64{}
	last := time.Now()
	lap := func(name string) { // reporting only
		walls[name] = time.Since(last).Seconds()
		last = time.Now()
		r.Extra("wall_s_by_part", walls)
	}

	// regression witnesses of defects seen earlier + hand-written JSON documents
	regress(r)
	checkLiterals(r, probes)

	// part 1
	nJSON := r.Scale(6000, 120000)
	parallel(nJSON, func(i int) {
		g := r.Rng(fmt.Sprintf("json-%d", i))
		x := &gen{g: g, ids: allIDs}
		qg := &corpus.QGen{G: g.Derive("tree"), IDs: allIDs}
		n := fromQ(qg.Tree(3))
		if i%4 != 0 {
			x.decorate(n)
		}
		checkJSON(r, probes, n, i < 2)
	})

	lap("1 query json")

	// part 2
	nReq := r.Scale(3000, 60000)
	parallel(nReq, func(i int) {
		g := r.Rng(fmt.Sprintf("req-%d", i))
		p := probes[i%len(probes)]
		x := &gen{g: g, ids: p.ids}
		var s *reqSpec
		for try := 0; ; try++ {
			s = x.request()
			if roundTrip([]*probe{p}, s.Q, "", "").Problem == "" {
				break
			}
			// a query that does not survive JSON on its own is part 1's finding
			r.Count("request_query_regenerated", 1)
			if try > 20 {
				return
			}
		}
		if g.Chance(1, 4) {
			if x.addPaging(p, s) {
				r.Count("request_paging_anchored", 1)
			}
		}
		checkRequest(r, p, s, i < 1)
	})

	lap("2 request json")

	// part 4
	nQS := r.Scale(6000, 120000)
	parallel(nQS, func(i int) {
		x := &gen{g: r.Rng(fmt.Sprintf("qs4-%d", i)), ids: allIDs}
		checkQS(r, probes, x.qsCase(), i < 1)
	})

	lap("4 query string meaning")

	// part 3 (last: its journal entries are the ones a process death would need)
	nSoup := r.Scale(30000, 1200000)
	parallel(nSoup, func(i int) {
		x := &gen{g: r.Rng(fmt.Sprintf("soup-%d", i)), ids: allIDs}
		s, mode := x.soup()
		p := probes[i%len(probes)]
		if mode == "repetition" || mode == "long-token" {
			p = probes[0] // the cost of a clause grows with the number of segments
		}
		checkSoup(r, p, s, mode, i < 1)
	})
	lap("3 query string robustness")
}
