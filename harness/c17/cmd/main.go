package main

import (
	_ "verifharness/c17"
	"verifharness/ev"
)

func main() { ev.Main() }
