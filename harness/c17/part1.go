package c17

import (
	"bytes"
	"encoding/json"
	"fmt"
	"strings"

	"github.com/blevesearch/bleve/v2/search/query"

	"verifharness/corpus"
	"verifharness/ev"
)

// ---------------------------------------------------------------------------
// Part 1: query JSON round trip.
//   q  --json.Marshal-->  b1  --query.ParseQuery-->  q'  --json.Marshal-->  b2
// q' must exist, return the same ids and bit-identical scores as q on every probe,
// and b2 must equal b1 (fix-point, compared as JSON values).

func jsonMarshalGuard(v any) (b []byte, err error) {
	panicked, val, _ := ev.Guard(func() { b, err = json.Marshal(v) })
	if panicked {
		return nil, fmt.Errorf("panic in MarshalJSON: %v", val)
	}
	return
}

func canonJSON(b []byte) string {
	var v any
	d := json.NewDecoder(bytes.NewReader(b))
	d.UseNumber()
	if err := d.Decode(&v); err != nil {
		return string(b)
	}
	out, _ := json.Marshal(v)
	return string(out)
}

type jsonResult struct {
	Problem string `json:"problem"` // "" | marshal-error | parse-error | parse-panic | fixpoint | <diffOutcome kind>
	Detail  string `json:"detail,omitempty"`
	Probe   string `json:"probe,omitempty"`
	Cell    string `json:"cell,omitempty"`
	JSON1   string `json:"json_of_original,omitempty"`
	JSON2   string `json:"json_of_parsed,omitempty"`
}

// roundTrip judges one tree. only restricts the execution to one probe/cell (shrinking).
func roundTrip(probes []*probe, n *N, onlyProbe, onlyCell string) jsonResult {
	orig := n.Bleve()
	b1, err := jsonMarshalGuard(orig)
	if err != nil {
		return jsonResult{Problem: "marshal-error", Detail: err.Error()}
	}
	res := jsonResult{JSON1: string(b1)}
	var parsed query.Query
	panicked, val, stack := ev.Guard(func() { parsed, err = query.ParseQuery(b1) })
	if panicked {
		res.Problem, res.Detail = "parse-panic", fmt.Sprintf("%v\n%s", val, firstLines(stack, 30))
		return res
	}
	if err != nil {
		res.Problem, res.Detail = "parse-error", err.Error()
		return res
	}
	b2, err := jsonMarshalGuard(parsed)
	if err != nil {
		res.Problem, res.Detail = "remarshal-error", err.Error()
		return res
	}
	res.JSON2 = string(b2)
	for _, p := range probes {
		if onlyProbe != "" && p.Name != onlyProbe {
			continue
		}
		for _, c := range cells {
			if onlyCell != "" && c.Name != onlyCell {
				continue
			}
			a := runQuery(p, orig, c)
			b := runQuery(p, parsed, c)
			if d, det := diffOutcome(a, b); d != "" {
				// guard against an unstable index: the original must reproduce itself
				a2 := runQuery(p, n.Bleve(), c)
				if d2, _ := diffOutcome(a, a2); d2 != "" {
					res.Problem, res.Detail = "unstable", "the original query does not reproduce its own results"
					return res
				}
				res.Problem, res.Detail, res.Probe, res.Cell = d, det, p.Name, c.Name
				return res
			}
		}
	}
	if canonJSON(b1) != canonJSON(b2) {
		res.Problem, res.Detail = "fixpoint", "second marshal differs from the first"
	}
	return res
}

// family groups the ways in which two result pages can differ.
func family(problem string) string {
	switch problem {
	case "ids", "order", "scores", "total", "hit-details", "facets":
		return "results-differ"
	}
	return problem
}

type jsonWitness struct {
	Tree   *N            `json:"query_tree"`
	Result jsonResult    `json:"result"`
	Docs   []*corpus.Doc `json:"live_docs,omitempty"`
	From   *N            `json:"shrunk_from,omitempty"`
}

// jsonClass derives the narrow class from the shrunk tree.
func jsonClass(small *N, problem string) string {
	kind := family(problem)
	sig := small.sig()
	sig = strings.ReplaceAll(sig, "open,", "")
	sig = strings.ReplaceAll(sig, ",open]", "]")
	sig = strings.ReplaceAll(sig, "[open]", "")
	if small.Kind == "daterange" && strings.Contains(sig, "sub-second") {
		// the shrinker keeps the fraction only if truncating it to whole seconds
		// makes the difference disappear: the fraction is the cause
		sig = "daterange[sub-second]"
	}
	return "json/" + kind + "/" + sig
}

func checkJSON(r *ev.Run, probes []*probe, n *N, sample bool) {
	key := n.String()
	r.Journal(map[string]any{"part": "json", "q": n})
	r.Case("json/"+key, n.nontrivial())
	for k, v := range n.kinds() {
		r.Count("json_kind_"+k, v)
	}
	res := roundTrip(probes, n, "", "")
	r.Count("json_roundtrips", 1)
	if sample {
		r.Sample(map[string]any{"part": "query JSON round trip", "tree": n, "json": res.JSON1, "problem": res.Problem})
	}
	if res.Problem == "" {
		return
	}
	if res.Problem == "unstable" {
		r.Inconclusive("json: original query not reproducible on the probe index")
		return
	}
	small := shrinkN(n, func(c *N) bool {
		return family(roundTrip(probes, c, res.Probe, res.Cell).Problem) == family(res.Problem)
	})
	sres := roundTrip(probes, small, res.Probe, res.Cell)
	w := jsonWitness{Tree: small, Result: sres}
	if small.String() != n.String() {
		w.From = n
	}
	for _, p := range probes {
		if p.Name == sres.Probe {
			w.Docs = p.live
		}
	}
	r.Violation(jsonClass(small, res.Problem),
		fmt.Sprintf("query JSON round trip: %s (%s) for %s -> %s", sres.Problem, firstLines(sres.Detail, 4), small, sres.JSON1), w)
}

// literalJSON: a few hand-written documents of the JSON syntax whose handling must at
// least be a clean accept or a clean error (never a panic), and accepted ones must
// behave like the documented query.
type literalCase struct {
	JSON string
	Want *N // nil = must be rejected with an error
}

var literalCases = []literalCase{
	{`{"match":"alpha beta","field":"title","operator":"and"}`, &N{Kind: "match", Field: "title", Text: "alpha beta", And: true}},
	{`{"match":"alpha beta","field":"title","operator":"or"}`, &N{Kind: "match", Field: "title", Text: "alpha beta"}},
	{`{"match":"alpha beta","field":"title","operator":1}`, nil},
	{`{"match":"alpha beta","field":"title","operator":"xor"}`, nil},
	{`{"match":"alpah","field":"title","fuzziness":"auto"}`, &N{Kind: "match", Field: "title", Text: "alpah", Auto: true}},
	{`{"match":"alpah","field":"title","fuzziness":1}`, &N{Kind: "match", Field: "title", Text: "alpah", Fuzz: 1}},
	{`{"term":"alpah","field":"title","fuzziness":2}`, &N{Kind: "fuzzy", Field: "title", Text: "alpah", Fuzz: 2}},
	{`{"disjuncts":[{"term":"alpha","field":"title"},{"term":"beta","field":"title"}],"min":2.0}`,
		&N{Kind: "disj", DisjMin: 2, Kids: []*N{{Kind: "term", Field: "title", Text: "alpha"}, {Kind: "term", Field: "title", Text: "beta"}}}},
	{`{"disjuncts":[{"term":"alpha","field":"title"},{"term":"beta","field":"title"}],"min":1.5}`,
		&N{Kind: "disj", DisjMin: 1.5, Kids: []*N{{Kind: "term", Field: "title", Text: "alpha"}, {Kind: "term", Field: "title", Text: "beta"}}}},
	{`{"min":5,"max":10.5,"field":"num"}`, &N{Kind: "numrange", Field: "num", Min: fp(5), Max: fp(10.5)}},
	{`{"min":5,"field":"num","inclusive_min":false}`, &N{Kind: "numrange", Field: "num", Min: fp(5), IncMin: bp(false)}},
	{`{"min":"alpha","max":"beta","field":"title"}`, &N{Kind: "termrange", Field: "title", MinS: "alpha", MaxS: "beta"}},
	{`{"start":"2020-01-05T00:00:00Z","field":"date"}`, &N{Kind: "daterange", Field: "date", Start: "2020-01-05T00:00:00Z"}},
	{`{"start":"2020-01-05","end":"2020-01-20","field":"date","inclusive_end":true}`,
		&N{Kind: "daterange", Field: "date", Start: "2020-01-05T00:00:00Z", End: "2020-01-20T00:00:00Z", IncMax: bp(true)}},
	{`{"start":"05/01/2020","field":"date","datetime_parser":"dmy"}`, &N{Kind: "daterange", Field: "date", Start: "2020-01-05T00:00:00Z"}},
	{`{"terms":["alpha","beta"],"field":"title"}`, &N{Kind: "phrase", Field: "title", Terms: []string{"alpha", "beta"}}},
	{`{"terms":[["alpha","alps"],["beta"]],"field":"title"}`, &N{Kind: "multiphrase", Field: "title", Multi: [][]string{{"alpha", "alps"}, {"beta"}}}},
	{`{"match_all":{}}`, &N{Kind: "all"}},
	{`{"match_none":{}}`, &N{Kind: "none"}},
	{`{"ids":["d01","d02"]}`, &N{Kind: "docid", IDs: []string{"d01", "d02"}}},
	{`{"bool":true,"field":"flag"}`, &N{Kind: "boolfield", Field: "flag", Bool: true}},
	{`{"query":"+title:alpha -body:beta"}`, &N{Kind: "bool", Must: []*N{{Kind: "match", Field: "title", Text: "alpha"}}, MustNot: []*N{{Kind: "match", Field: "body", Text: "beta"}}}},
	{`{"must":{"conjuncts":[{"term":"alpha","field":"title"}]},"filter":{"term":"beta","field":"body"}}`,
		&N{Kind: "bool", Must: []*N{{Kind: "term", Field: "title", Text: "alpha"}}, Filter: &N{Kind: "term", Field: "body", Text: "beta"}}},
	{`{"must":{"term":"alpha"}}`, nil},
	{`{"nonsense":1}`, nil},
	{`[1,2]`, nil},
	{`{"match":`, nil},
}

func checkLiterals(r *ev.Run, probes []*probe) {
	for i, lc := range literalCases {
		r.Journal(map[string]any{"part": "json-literal", "json": lc.JSON})
		r.Case("json-literal/"+lc.JSON, true)
		var parsed query.Query
		var err error
		panicked, val, stack := ev.Guard(func() { parsed, err = query.ParseQuery([]byte(lc.JSON)) })
		if panicked {
			r.Violation(fmt.Sprintf("json-literal/panic/#%d", i), fmt.Sprintf("ParseQuery(%s) panicked: %v", lc.JSON, val),
				map[string]any{"json": lc.JSON, "stack": firstLines(stack, 30)})
			continue
		}
		if lc.Want == nil {
			if err == nil {
				// accepted although not documented: must at least execute without panic
				for _, p := range probes {
					if o := runQuery(p, parsed, cells[0]); o.Panic != "" {
						r.Violation(fmt.Sprintf("json-literal/exec-panic/#%d", i), "accepted JSON panics when executed: "+lc.JSON,
							map[string]any{"json": lc.JSON, "panic": o.Panic})
					}
				}
			}
			continue
		}
		if err != nil {
			r.Violation(fmt.Sprintf("json-literal/rejected/#%d", i), fmt.Sprintf("documented JSON form rejected: %s: %v", lc.JSON, err),
				map[string]any{"json": lc.JSON, "error": err.Error()})
			continue
		}
		for _, p := range probes {
			for _, c := range cells {
				a := runQuery(p, lc.Want.Bleve(), c)
				b := runQuery(p, parsed, c)
				if d, det := diffOutcome(a, b); d != "" {
					r.Violation(fmt.Sprintf("json-literal/%s/#%d", d, i), fmt.Sprintf("JSON %s differs from the query it documents (%s): %s", lc.JSON, lc.Want, firstLines(det, 4)),
						map[string]any{"json": lc.JSON, "want": lc.Want, "probe": p.Name, "cell": c.Name, "detail": det})
					break
				}
			}
		}
	}
}
