package c17

import (
	"encoding/json"
	"fmt"
	"math"
	"strconv"
	"strings"
	"time"

	"github.com/blevesearch/bleve/v2"
	"github.com/blevesearch/bleve/v2/search"

	"verifharness/corpus"
	"verifharness/ev"
	"verifharness/rng"
)

// ---------------------------------------------------------------------------
// Part 2: SearchRequest JSON round trip. A request is described by a spec so that a
// fresh *bleve.SearchRequest can be built for every execution (Search mutates the
// request while it runs a SearchBefore).

type sortSpec struct {
	Kind    string  `json:"kind"` // str | field | id | score | geo
	Str     string  `json:"str,omitempty"`
	Field   string  `json:"field,omitempty"`
	Desc    bool    `json:"desc,omitempty"`
	Type    int     `json:"type,omitempty"`    // search.SortFieldAuto..AsDate
	Mode    int     `json:"mode,omitempty"`    // default, min, max
	Missing int     `json:"missing,omitempty"` // last, first
	Lon     float64 `json:"lon,omitempty"`
	Lat     float64 `json:"lat,omitempty"`
	Unit    string  `json:"unit,omitempty"`
}

type numR struct {
	Name string   `json:"name"`
	Min  *float64 `json:"min,omitempty"`
	Max  *float64 `json:"max,omitempty"`
}

type dateR struct {
	Name   string `json:"name"`
	Form   string `json:"form"` // time | string | parser
	Start  string `json:"start,omitempty"`
	End    string `json:"end,omitempty"`
	Parser string `json:"parser,omitempty"`
}

type facetSpec struct {
	Field   string  `json:"field"`
	Size    int     `json:"size"`
	Prefix  string  `json:"prefix,omitempty"`
	Pattern string  `json:"pattern,omitempty"`
	Num     []numR  `json:"num,omitempty"`
	Date    []dateR `json:"date,omitempty"`
}

type hlSpec struct {
	Style  *string  `json:"style"`
	Fields []string `json:"fields"`
}

type reqSpec struct {
	Q       *N                   `json:"query"`
	Size    int                  `json:"size"`
	From    int                  `json:"from"`
	HL      *hlSpec              `json:"highlight,omitempty"`
	Fields  []string             `json:"fields,omitempty"`
	Facets  map[string]facetSpec `json:"facets,omitempty"`
	Explain bool                 `json:"explain,omitempty"`
	Sort    []sortSpec           `json:"sort,omitempty"` // nil = leave the constructor's default
	SortNil bool                 `json:"sort_nil,omitempty"`
	Locs    bool                 `json:"locations,omitempty"`
	Score   string               `json:"score,omitempty"`
	After   []string             `json:"after,omitempty"`
	Before  []string             `json:"before,omitempty"`
}

func (s *reqSpec) String() string {
	b, _ := json.Marshal(s)
	return string(b)
}

func (s *reqSpec) Clone() *reqSpec {
	var c reqSpec
	b, _ := json.Marshal(s)
	_ = json.Unmarshal(b, &c)
	return &c
}

func (ss sortSpec) build() search.SearchSort {
	switch ss.Kind {
	case "id":
		return &search.SortDocID{Desc: ss.Desc}
	case "score":
		return &search.SortScore{Desc: ss.Desc}
	case "geo":
		if ss.Unit == "" {
			// a geo_distance sort without unit exists only in the object form
			so, err := search.ParseSearchSortObj(map[string]interface{}{"by": "geo_distance", "field": ss.Field,
				"location": map[string]interface{}{"lon": ss.Lon, "lat": ss.Lat}, "desc": ss.Desc})
			if err != nil {
				panic(err)
			}
			return so
		}
		sg, err := search.NewSortGeoDistance(ss.Field, ss.Unit, ss.Lon, ss.Lat, ss.Desc)
		if err != nil {
			panic(err)
		}
		return sg
	case "field":
		return &search.SortField{Field: ss.Field, Desc: ss.Desc, Type: search.SortFieldType(ss.Type),
			Mode: search.SortFieldMode(ss.Mode), Missing: search.SortFieldMissing(ss.Missing)}
	}
	return search.ParseSearchSortString(ss.Str)
}

func (s *reqSpec) build() *bleve.SearchRequest {
	req := bleve.NewSearchRequestOptions(s.Q.Bleve(), s.Size, s.From, s.Explain)
	if s.HL != nil {
		if s.HL.Style != nil {
			req.Highlight = bleve.NewHighlightWithStyle(*s.HL.Style)
		} else {
			req.Highlight = bleve.NewHighlight()
		}
		for _, f := range s.HL.Fields {
			req.Highlight.AddField(f)
		}
	}
	req.Fields = s.Fields
	for name, fs := range s.Facets {
		fr := bleve.NewFacetRequest(fs.Field, fs.Size)
		if fs.Prefix != "" {
			fr.SetPrefixFilter(fs.Prefix)
		}
		if fs.Pattern != "" {
			fr.SetRegexFilter(fs.Pattern)
		}
		for _, nr := range fs.Num {
			fr.AddNumericRange(nr.Name, nr.Min, nr.Max)
		}
		for _, dr := range fs.Date {
			var st, en *string
			if dr.Start != "" {
				st = sp(dr.Start)
			}
			if dr.End != "" {
				en = sp(dr.End)
			}
			switch dr.Form {
			case "time":
				fr.AddDateTimeRange(dr.Name, parseT(dr.Start), parseT(dr.End))
			case "string":
				fr.AddDateTimeRangeString(dr.Name, st, en)
			default:
				fr.AddDateTimeRangeStringWithParser(dr.Name, st, en, dr.Parser)
			}
		}
		req.AddFacet(name, fr)
	}
	if s.SortNil {
		req.Sort = nil
	} else if s.Sort != nil {
		allStr := true
		for _, ss := range s.Sort {
			if ss.Kind != "str" {
				allStr = false
			}
		}
		if allStr {
			strs := make([]string, len(s.Sort))
			for i, ss := range s.Sort {
				strs[i] = ss.Str
			}
			req.SortBy(strs)
		} else {
			so := make(search.SortOrder, len(s.Sort))
			for i, ss := range s.Sort {
				so[i] = ss.build()
			}
			req.SortByCustom(so)
		}
	}
	req.IncludeLocations = s.Locs
	req.Score = s.Score
	if s.After != nil {
		req.SetSearchAfter(s.After)
	}
	if s.Before != nil {
		req.SetSearchBefore(s.Before)
	}
	return req
}

// ---------------------------------------------------------------------------
// generator

var sortFields = []string{"num", "date", "tag", "title", "body", "flag", "notv", "nope"}

func (x *gen) sortKey() sortSpec {
	g := x.g
	switch k := g.Intn(10); {
	case k < 3:
		f := rng.Pick(g, append([]string{"_id", "_score"}, sortFields...))
		return sortSpec{Kind: "str", Str: rng.Pick(g, []string{"", "-", "+"}) + f}
	case k < 7:
		ss := sortSpec{Kind: "field", Field: rng.Pick(g, sortFields), Desc: g.Bool(),
			Type: g.Intn(4), Mode: g.Intn(3), Missing: g.Intn(2)}
		if g.Chance(1, 6) {
			ss.Field = signField
			if g.Bool() {
				ss.Type, ss.Mode, ss.Missing = 0, 0, 0
			}
		}
		return ss
	case k < 8:
		return sortSpec{Kind: "id", Desc: g.Bool()}
	case k < 9:
		return sortSpec{Kind: "score", Desc: g.Bool()}
	default:
		return sortSpec{Kind: "geo", Field: "loc", Desc: g.Bool(), Lon: float64(g.Range(-170, 170)) + 0.5,
			Lat: float64(g.Range(-80, 80)) + 0.25, Unit: rng.Pick(g, []string{"", "km", "mi", "m", "nauticalmiles"})}
	}
}

func (x *gen) facets() map[string]facetSpec {
	g := x.g
	out := map[string]facetSpec{}
	day := func(d int) time.Time { return baseDate.Add(time.Duration(d) * 24 * time.Hour) }
	n := g.Range(1, 3)
	for i := 0; i < n; i++ {
		name := fmt.Sprintf("f%d", i)
		switch g.Intn(3) {
		case 0: // terms
			fs := facetSpec{Field: rng.Pick(g, []string{"tag", "title", "body"}), Size: g.Range(0, 6)}
			switch g.Intn(4) {
			case 0:
				fs.Prefix = rng.Pick(g, []string{"a", "b", "re", "al", "x"})
			case 1:
				fs.Pattern = rng.Pick(g, []string{"^al.*", "e+", "^[a-c]", "(ta|ma)$", ".*-.*"})
			}
			out[name] = fs
		case 1: // numeric ranges
			fs := facetSpec{Field: "num", Size: g.Range(1, 5)}
			k := g.Range(1, 4)
			for j := 0; j < k; j++ {
				a := float64(g.Range(-6, 21))
				b := a + float64(g.Range(1, 10))
				if g.Chance(1, 4) {
					a += 0.5
				}
				nr := numR{Name: fmt.Sprintf("r%d", j)}
				switch g.Intn(4) {
				case 0:
					nr.Min = fp(a)
				case 1:
					nr.Max = fp(b)
				default:
					nr.Min, nr.Max = fp(a), fp(b)
				}
				fs.Num = append(fs.Num, nr)
			}
			out[name] = fs
		default: // date ranges, all three forms
			fs := facetSpec{Field: "date", Size: g.Range(1, 5)}
			k := g.Range(1, 4)
			for j := 0; j < k; j++ {
				a := day(g.Range(-2, 30))
				b := a.Add(time.Duration(g.Range(1, 15)) * 24 * time.Hour)
				dr := dateR{Name: fmt.Sprintf("d%d", j)}
				switch g.Intn(3) {
				case 0:
					dr.Form = "time"
					if g.Bool() {
						a = a.Add(time.Duration(g.Range(1, 999)) * time.Millisecond)
					}
					dr.Start, dr.End = a.Format(time.RFC3339Nano), b.Format(time.RFC3339Nano)
				case 1:
					dr.Form = "string"
					dr.Start = a.Format(rng.Pick(g, []string{time.RFC3339, "2006-01-02", "2006-01-02 15:04:05"}))
					dr.End = b.Format(rng.Pick(g, []string{time.RFC3339Nano, "2006-01-02"}))
				default:
					dr.Form, dr.Parser = "parser", customDateParser
					dr.Start, dr.End = a.Format(customDateLayouts[0]), b.Format(customDateLayouts[1])
				}
				switch g.Intn(5) {
				case 0:
					dr.Start = ""
				case 1:
					dr.End = ""
				}
				fs.Date = append(fs.Date, dr)
			}
			out[name] = fs
		}
	}
	return out
}

var sizes = []int{0, 1, 2, 3, 5, 9, 10, 11, 12, 25, 100, 1001}

func (x *gen) request() *reqSpec {
	g := x.g
	qg := &corpus.QGen{G: g, IDs: x.ids}
	n := fromQ(qg.Tree(2))
	if g.Bool() {
		x.decorate(n)
	}
	s := &reqSpec{Q: n, Size: rng.Pick(g, sizes)}
	if g.Chance(1, 3) {
		s.From = rng.Pick(g, []int{1, 2, 5, 9, 10, 11, 30})
	}
	if g.Chance(1, 2) {
		s.HL = &hlSpec{}
		switch g.Intn(4) {
		case 0:
			s.HL.Style = sp("html")
		case 1:
			s.HL.Style = sp("ansi")
		}
		if g.Bool() {
			s.HL.Fields = rng.Subset(g, []string{"title", "body", "tag", "nope"}, 1, 2)
		}
	}
	switch g.Intn(5) {
	case 0:
		s.Fields = []string{"*"}
	case 1:
		s.Fields = rng.Subset(g, []string{"title", "body", "tag", "num", "date", "flag", "loc", "nope"}, 1, 2)
	}
	if g.Chance(1, 2) {
		s.Facets = x.facets()
	}
	s.Explain = g.Chance(1, 4)
	if g.Chance(3, 4) {
		k := g.Range(1, 3)
		s.Sort = make([]sortSpec, k)
		for i := range s.Sort {
			s.Sort[i] = x.sortKey()
		}
	}
	s.Locs = g.Chance(1, 3)
	if g.Chance(1, 5) {
		s.Score = "none"
	}
	return s
}

// pagingKeys builds the SearchAfter / SearchBefore key of a hit as docs/pagination.md
// describes it: the decimal score for _score, the decoded value for number / date
// typed keys, the raw sort value otherwise.
func pagingKeys(order search.SortOrder, h *search.DocumentMatch) []string {
	keys := make([]string, len(order))
	for i, so := range order {
		switch s := so.(type) {
		case *search.SortScore:
			keys[i] = strconv.FormatFloat(h.Score, 'f', -1, 64)
		case *search.SortField:
			if (s.Type == search.SortFieldAsNumber || s.Type == search.SortFieldAsDate) && i < len(h.DecodedSort) {
				keys[i] = h.DecodedSort[i]
			} else if i < len(h.Sort) {
				keys[i] = h.Sort[i]
			}
		case *search.SortGeoDistance:
			if i < len(h.DecodedSort) {
				keys[i] = h.DecodedSort[i]
			}
		default:
			if i < len(h.Sort) {
				keys[i] = h.Sort[i]
			}
		}
	}
	return keys
}

// addPaging turns the spec into a SearchAfter / SearchBefore request anchored at a real hit.
func (x *gen) addPaging(p *probe, s *reqSpec) bool {
	if s.SortNil {
		return false
	}
	base := s.Clone()
	base.From, base.Size, base.After, base.Before = 0, len(p.ids)+20, nil, nil
	base.HL, base.Facets, base.Explain, base.Fields = nil, nil, false, nil
	req := base.build()
	var res *bleve.SearchResult
	var err error
	if panicked, _, _ := ev.Guard(func() { res, err = p.idx.Search(req) }); panicked || err != nil || len(res.Hits) < 2 {
		return false
	}
	h := res.Hits[x.g.Intn(len(res.Hits))]
	keys := pagingKeys(req.Sort, h)
	s.From = 0
	if x.g.Bool() {
		s.After = keys
	} else {
		s.Before = keys
	}
	return true
}

// ---------------------------------------------------------------------------
// check

type reqResult struct {
	Problem string `json:"problem"`
	Detail  string `json:"detail,omitempty"`
	JSON1   string `json:"json_of_original,omitempty"`
	JSON2   string `json:"json_of_parsed,omitempty"`
}

func reqRoundTrip(p *probe, s *reqSpec) reqResult {
	orig := s.build()
	b1, err := jsonMarshalGuard(orig)
	if err != nil {
		return reqResult{Problem: "marshal-error", Detail: err.Error()}
	}
	res := reqResult{JSON1: string(b1)}
	var parsed bleve.SearchRequest
	panicked, val, stack := ev.Guard(func() { err = json.Unmarshal(b1, &parsed) })
	if panicked {
		res.Problem, res.Detail = "parse-panic", fmt.Sprintf("%v\n%s", val, firstLines(stack, 30))
		return res
	}
	if err != nil {
		res.Problem, res.Detail = "parse-error", err.Error()
		return res
	}
	b2, err := jsonMarshalGuard(&parsed)
	if err != nil {
		res.Problem, res.Detail = "remarshal-error", err.Error()
		return res
	}
	res.JSON2 = string(b2)
	a := runRequest(p.idx, orig, true)
	b := runRequest(p.idx, &parsed, true)
	if d, det := diffOutcome(a, b); d != "" {
		a2 := runRequest(p.idx, s.build(), true)
		if d2, _ := diffOutcome(a, a2); d2 != "" {
			res.Problem, res.Detail = "unstable", "the original request does not reproduce its own results"
			return res
		}
		res.Problem, res.Detail = d, det
		return res
	}
	if canonJSON(b1) != canonJSON(b2) {
		res.Problem, res.Detail = "fixpoint", "second marshal differs from the first"
	}
	return res
}

func reqCandidates(s *reqSpec) []*reqSpec {
	var out []*reqSpec
	mod := func(cond bool, f func(c *reqSpec)) {
		if cond {
			c := s.Clone()
			f(c)
			out = append(out, c)
		}
	}
	mod(s.HL != nil, func(c *reqSpec) { c.HL = nil })
	mod(s.HL != nil && s.HL.Style != nil, func(c *reqSpec) { c.HL.Style = nil })
	mod(s.HL != nil && len(s.HL.Fields) > 0, func(c *reqSpec) { c.HL.Fields = nil })
	mod(s.Fields != nil, func(c *reqSpec) { c.Fields = nil })
	mod(s.Explain, func(c *reqSpec) { c.Explain = false })
	mod(s.Locs, func(c *reqSpec) { c.Locs = false })
	mod(s.Score != "", func(c *reqSpec) { c.Score = "" })
	mod(s.From != 0, func(c *reqSpec) { c.From = 0 })
	mod(s.Size != 10, func(c *reqSpec) { c.Size = 10 })
	mod(s.After != nil || s.Before != nil, func(c *reqSpec) { c.After, c.Before = nil, nil })
	mod(s.SortNil, func(c *reqSpec) { c.SortNil = false })
	mod(s.Sort != nil && s.After == nil && s.Before == nil, func(c *reqSpec) { c.Sort = nil })
	if s.After == nil && s.Before == nil {
		for i := range s.Sort {
			if len(s.Sort) > 1 {
				mod(true, func(c *reqSpec) { c.Sort = append(c.Sort[:i:i], c.Sort[i+1:]...) })
			}
			mod(s.Sort[i].Desc, func(c *reqSpec) { c.Sort[i].Desc = false })
			mod(s.Sort[i].Type != 0, func(c *reqSpec) { c.Sort[i].Type = 0 })
			mod(s.Sort[i].Mode != 0, func(c *reqSpec) { c.Sort[i].Mode = 0 })
			mod(s.Sort[i].Missing != 0, func(c *reqSpec) { c.Sort[i].Missing = 0 })
			mod(s.Sort[i].Unit != "", func(c *reqSpec) { c.Sort[i].Unit = "" })
		}
	}
	for name, fs := range s.Facets {
		name, fs := name, fs
		mod(true, func(c *reqSpec) {
			delete(c.Facets, name)
			if len(c.Facets) == 0 {
				c.Facets = nil
			}
		})
		mod(fs.Prefix != "" || fs.Pattern != "", func(c *reqSpec) {
			f := c.Facets[name]
			f.Prefix, f.Pattern = "", ""
			c.Facets[name] = f
		})
		for i := range fs.Num {
			if len(fs.Num) > 1 {
				mod(true, func(c *reqSpec) {
					f := c.Facets[name]
					f.Num = append(f.Num[:i:i], f.Num[i+1:]...)
					c.Facets[name] = f
				})
			}
		}
		for i := range fs.Date {
			if len(fs.Date) > 1 {
				mod(true, func(c *reqSpec) {
					f := c.Facets[name]
					f.Date = append(f.Date[:i:i], f.Date[i+1:]...)
					c.Facets[name] = f
				})
			}
		}
	}
	mod(s.Q.Kind != "all", func(c *reqSpec) { c.Q = &N{Kind: "all"} })
	for _, qc := range candidates(s.Q) {
		c := s.Clone()
		c.Q = qc
		out = append(out, c)
	}
	return out
}

func shrinkReq(s *reqSpec, fails func(*reqSpec) bool) *reqSpec {
	cur := s.Clone()
	for changed, rounds := true, 0; changed && rounds < 200; rounds++ {
		changed = false
		for _, c := range reqCandidates(cur) {
			if c.String() == cur.String() {
				continue
			}
			if fails(c) {
				cur, changed = c, true
				break
			}
		}
	}
	return cur
}

// reqSig: the options of the shrunk request that are away from their defaults.
func reqSig(s *reqSpec) string {
	var o []string
	if s.HL != nil {
		o = append(o, "highlight")
	}
	if s.Fields != nil {
		o = append(o, "fields")
	}
	for _, fs := range s.Facets {
		switch {
		case len(fs.Num) > 0:
			o = append(o, "facet-numeric")
		case len(fs.Date) > 0:
			for _, d := range fs.Date {
				o = append(o, "facet-date-"+d.Form)
			}
		default:
			o = append(o, "facet-terms")
		}
	}
	if s.Explain {
		o = append(o, "explain")
	}
	if s.Locs {
		o = append(o, "locations")
	}
	if s.Score != "" {
		o = append(o, "score-"+s.Score)
	}
	if s.From != 0 {
		o = append(o, "from")
	}
	if s.Size != 10 {
		o = append(o, "size")
	}
	if s.After != nil {
		o = append(o, "search_after")
	}
	if s.Before != nil {
		o = append(o, "search_before")
	}
	if s.SortNil {
		o = append(o, "sort-nil")
	}
	for _, ss := range s.Sort {
		k := "sort-" + ss.Kind
		if ss.Kind == "field" {
			k += fmt.Sprintf("(type%d,mode%d,missing%d)", ss.Type, ss.Mode, ss.Missing)
			if strings.HasPrefix(ss.Field, "-") || strings.HasPrefix(ss.Field, "+") {
				k += "(field name starts with a sign)"
			}
		}
		if ss.Kind == "str" {
			k += "(" + strings.TrimLeft(ss.Str, "+-") + ")"
		}
		o = append(o, k)
	}
	qs := ""
	if s.Q.Kind != "all" || len(s.Q.opts()) > 0 {
		qs = " query=" + s.Q.sig()
	}
	return strings.Join(dedupSorted(o), ",") + qs
}

func (s *reqSpec) nontrivial() bool {
	return s.HL != nil || s.Fields != nil || len(s.Facets) > 0 || s.Explain || s.Locs || s.Score != "" ||
		s.From != 0 || s.Size != 10 || s.After != nil || s.Before != nil || s.Sort != nil || s.SortNil
}

type reqWitness struct {
	Spec   *reqSpec      `json:"request"`
	Result reqResult     `json:"result"`
	Probe  string        `json:"probe"`
	Docs   []*corpus.Doc `json:"live_docs,omitempty"`
	From   *reqSpec      `json:"shrunk_from,omitempty"`
}

func checkRequest(r *ev.Run, p *probe, s *reqSpec, sample bool) {
	r.Journal(map[string]any{"part": "request", "probe": p.Name, "req": s})
	r.Case("request/"+p.Name+"/"+s.String(), s.nontrivial())
	r.Count("request_roundtrips", 1)
	for _, k := range strings.Split(reqSig(&reqSpec{Q: &N{Kind: "all"}, Size: 10, HL: s.HL, Fields: s.Fields, Facets: s.Facets, Explain: s.Explain,
		Locs: s.Locs, Score: s.Score, After: s.After, Before: s.Before, SortNil: s.SortNil}), ",") {
		if k != "" {
			r.Count("req_opt_"+k, 1)
		}
	}
	for _, ss := range s.Sort {
		r.Count("req_sort_"+ss.Kind, 1)
	}
	res := reqRoundTrip(p, s)
	if sample {
		r.Sample(map[string]any{"part": "search request JSON round trip", "request_json": res.JSON1, "problem": res.Problem})
	}
	if res.Problem == "" {
		return
	}
	if res.Problem == "unstable" {
		r.Inconclusive("request: original request not reproducible on the probe index")
		return
	}
	small := shrinkReq(s, func(c *reqSpec) bool { return family(reqRoundTrip(p, c).Problem) == family(res.Problem) })
	sres := reqRoundTrip(p, small)
	w := reqWitness{Spec: small, Result: sres, Probe: p.Name, Docs: p.live}
	if small.String() != s.String() {
		w.From = s
	}
	r.Violation("request/"+family(res.Problem)+"/"+reqSig(small),
		fmt.Sprintf("search request JSON round trip: %s (%s); request %s", sres.Problem, firstLines(sres.Detail, 4), sres.JSON1), w)
}

var _ = math.Float64bits
