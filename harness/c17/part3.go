package c17

import (
	"fmt"
	"regexp"
	"strings"
	"sync"
	"syscall"
	"time"
	"unicode/utf8"

	"github.com/blevesearch/bleve/v2"
	"github.com/blevesearch/bleve/v2/search/query"

	"verifharness/corpus"
	"verifharness/ev"
	"verifharness/rng"
)

// ---------------------------------------------------------------------------
// Part 3: robustness of the query-string parser. Arbitrary bytes and token soups go
// through Validate, Parse and a real search; an error is fine, a panic, a process
// death or a hang (> hangLimit for one input) is a violation.

const hangLimit = 60 * time.Second

var soupOps = []string{"+", "-", ":", "^", "~", `"`, ">", "<", "=", "/", `\`, "(", ")", "*", "?", "!", "{", "}", "[", "]", "&", "|", ">=", "<=", ":>", ":<", ":>=", `:"`, `\"`, `\\`, "^^", "~~", "--", "++", "::", "&&", "||"}

var soupSpaces = []string{" ", " ", " ", "  ", "\t", "\n", "\r\n", " ", "　", "\x00", " "}

var soupNumbers = []string{"5", "-5", "5.5", "1e5", "007", "٣", "１２", "5.", ".5", "9999999999999999999999", "1e309", "-0", "0x10", "1_000", "5.5.5", "½", "²", "1e-400", "NaN", "Inf", "+Inf", "1.7976931348623157e308", "123456789012345678901234567890.5"}

var soupDates = []string{`"2020-01-05T00:00:00Z"`, `"2020-01-05"`, `"2020-13-45"`, `"0000-00-00"`, `"9999-12-31T23:59:59.999999999Z"`, `"1677-01-01T00:00:00Z"`, `"2262-04-12T00:00:00Z"`, `"2020-01-05 10:00:00 +0530"`, `"10000-01-01"`, `"-2020-01-05"`, `""`, `"2020-01-05T00:00:00.5Z"`}

var soupFields = []string{"title", "body", "tag", "num", "date", "flag", "notv", "_all", "_id", "nope", "", `"title"`, "a.b", "loc", "_score", "ti tle"}

var soupBoosts = []string{"^2", "^0.5", "^", "^1e308", "^1e309", "^-1", "^NaN", "^Inf", "^-Inf", "^0x10", "^0", "^-0", "^1e-320", "^99999999999999999999999999999999999999", "^2^3", "^~", "^\\", "^ 2", "^٣"}

var soupTildes = []string{"~", "~1", "~2", "~3", "~0", "~99999999999", "~-1", "~1.5", "~NaN", "~Inf", "~1e309", "~2^3", "~~2", "~ 2", "~-9223372036854775808", "~9223372036854775808", "~4294967296"}

var soupRegexps = []string{"/al.*/", "/(a*)*b/", "/a{100}/", "/a{1000}{1000}/", "/[/", "/.{0,1000}/", "/(((((a|b)*)*)*)*)*/", "/\\/", "//", "/", "/.*.*.*.*.*.*.*.*.*.*x/", "/(?i)alpha/", "/\\pL+/", "/[^\\x00-\\x7f]/", "/a**/", "/(a|b|c|d|e|f|g|h|i|j|k|l|m|n|o|p){20}/", "/\xff/", "/^alpha$/", "/.*/"}

var soupWild = []string{"*", "?", "**", "*?*", "a*", "*a*a*a*a*a*a*a*a*a*", "????????????????", "al*\\*", "*\xff*", "a?*?*?*?*?*?*?*?*?", "\\*", "\\?"}

var soupQuotes = []string{`"`, `"alpha`, `alpha"`, `"alpha beta"`, `"alpha \"beta"`, `"alpha \`, `""`, `"""`, `" "`, `"\`, `'alpha'`, "“alpha”", `"alpha beta"~2`, `"alpha"^2`, `"a":"b":"c"`}

func (x *gen) soupPiece() string {
	g := x.g
	switch g.Intn(14) {
	case 0, 1:
		return rng.Pick(g, soupOps)
	case 2:
		return rng.Pick(g, soupSpaces)
	case 3:
		return rng.Pick(g, corpus.Words)
	case 4:
		return rng.Pick(g, soupNumbers)
	case 5:
		return rng.Pick(g, soupDates)
	case 6:
		return rng.Pick(g, soupFields) + ":"
	case 7:
		return rng.Pick(g, soupBoosts)
	case 8:
		return rng.Pick(g, soupTildes)
	case 9:
		return rng.Pick(g, soupRegexps)
	case 10:
		return rng.Pick(g, soupWild)
	case 11:
		return rng.Pick(g, soupQuotes)
	case 12:
		return rng.Pick(g, append(append([]string{}, specialTags...), corpus.Tags...))
	default:
		return string(g.Bytes(g.Range(1, 4)))
	}
}

func (x *gen) soup() (string, string) {
	g := x.g
	switch m := g.Intn(100); {
	case m < 15: // arbitrary bytes
		return string(g.Bytes(g.Range(0, 40))), "bytes"
	case m < 25: // arbitrary bytes from the operator alphabet
		n := g.Range(1, 30)
		var sb strings.Builder
		alpha := "+-:^~\"><=/\\()*? a5.\t"
		for i := 0; i < n; i++ {
			sb.WriteByte(alpha[g.Intn(len(alpha))])
		}
		return sb.String(), "operator-bytes"
	case m < 70: // token soup
		n := g.Range(1, 12)
		var sb strings.Builder
		for i := 0; i < n; i++ {
			sb.WriteString(x.soupPiece())
			if g.Chance(1, 3) {
				sb.WriteString(rng.Pick(g, soupSpaces))
			}
		}
		return sb.String(), "soup"
	case m < 93: // mutation of a grammar-valid string
		b := []byte(x.grammarString())
		k := g.Range(1, 3)
		for i := 0; i < k && len(b) > 0; i++ {
			pos := g.Intn(len(b))
			switch g.Intn(4) {
			case 0:
				b = append(b[:pos], b[pos+1:]...)
			case 1:
				ins := []byte(x.soupPiece())
				b = append(b[:pos], append(ins, b[pos:]...)...)
			case 2:
				b[pos] = byte(g.Uint64())
			default:
				b = append(b[:pos], append([]byte{b[pos]}, b[pos:]...)...)
			}
		}
		return string(b), "mutated-grammar"
	case m < 98: // deep repetition
		unit := rng.Pick(g, []string{"+", "-", ":", "^", "~", `\`, `"`, "(", "+a ", "-a ", "a:", "a^2 ", "a~ ", `"a" `, "a:>", ">", "=", "/", "* ", "+-", "a:b:", `\"`, "1 ", "1:", "-1 ", "a ", "title:alpha ", "٣ "})
		// every clause opens term readers on every segment: the counts stay where a
		// case costs milliseconds
		n := rng.Pick(g, []int{20, 60, 200})
		if strings.Contains(unit, "*") {
			n /= 4
		}
		s := strings.Repeat(unit, n)
		if g.Bool() {
			s += x.soupPiece()
		}
		return s, "repetition"
	default: // very long tokens
		// the lexer appends rune by rune (quadratic in the token length); sizes stay
		// where that costs milliseconds, far from the hang limit
		n := rng.Pick(g, []int{200, 1000, 4000})
		w := strings.Repeat(rng.Pick(g, []string{"a", "5", "é", "\xff", "5."}), n)
		switch g.Intn(5) {
		case 0:
			return w, "long-token"
		case 1:
			// a Levenshtein automaton costs about 70 KB per byte of the term
			if len(w) > 500 {
				w = w[:500]
			}
			return "title:" + w + "~2", "long-token"
		case 2:
			return `"` + w + `"`, "long-token"
		case 3:
			// many wildcard characters in one token: the regexp automaton builder is
			// the cost here, so the count stays small
			return strings.Repeat(rng.Pick(g, []string{"a*", "*", "?*", "a?"}), g.Range(5, 60)), "long-token"
		default:
			return "a^" + w, "long-token"
		}
	}
}

// exerciseQS runs one string through Validate, Parse and a search.
// result: ok | parse-error | exec-error | panic; detail for panic.
func exerciseQS(p *probe, s string) (result, detail string, clauses int) {
	qs := bleve.NewQueryStringQuery(s)
	var perr error
	panicked, val, stack := ev.Guard(func() {
		_ = qs.Validate()
		pq, err := qs.Parse()
		perr = err
		if bq, ok := pq.(*query.BooleanQuery); ok && err == nil {
			if c, ok := bq.Must.(*query.ConjunctionQuery); ok {
				clauses += len(c.Conjuncts)
			}
			if d, ok := bq.Should.(*query.DisjunctionQuery); ok {
				clauses += len(d.Disjuncts)
			}
			if d, ok := bq.MustNot.(*query.DisjunctionQuery); ok {
				clauses += len(d.Disjuncts)
			}
		}
	})
	if panicked {
		return "panic", fmt.Sprintf("parse: %v\n%s", val, firstLines(stack, 30)), 0
	}
	req := bleve.NewSearchRequestOptions(qs, 10, 0, false)
	out := runRequest(p.idx, req, false)
	if out.Panic != "" {
		return "panic", "search: " + out.Panic, clauses
	}
	if perr != nil {
		if out.Err == "" {
			return "inconsistent", "Parse rejected the string but Search accepted it: " + perr.Error(), clauses
		}
		return "parse-error", perr.Error(), clauses
	}
	if out.Err != "" {
		return "exec-error", out.Err, clauses
	}
	return "ok", "", clauses
}

// giveUp is how long a slow input is waited for before it is abandoned as a hang.
const giveUp = 10 * time.Minute

// exclusive lets a slow input be re-run alone: workers hold it shared per input.
var exclusive sync.RWMutex

// runBounded runs f in its own goroutine: "ok" = returned within limit, "slow" =
// returned later (within giveUp), "hang" = abandoned.
func runBounded(limit time.Duration, f func()) string {
	done := make(chan struct{})
	go func() {
		defer close(done)
		f()
	}()
	t := time.NewTimer(limit)
	defer t.Stop()
	select {
	case <-done:
		return "ok"
	case <-t.C:
	}
	t2 := time.NewTimer(giveUp - limit)
	defer t2.Stop()
	select {
	case <-done:
		return "slow"
	case <-t2.C:
		return "hang"
	}
}

func cpuTime() time.Duration {
	var ru syscall.Rusage
	if err := syscall.Getrusage(syscall.RUSAGE_SELF, &ru); err != nil {
		return 0
	}
	return time.Duration(ru.Utime.Nano() + ru.Stime.Nano())
}

// runAlone is called with the exclusive lock held (no other input of this process is
// running): "ok" = f used less than hangLimit of CPU time, "cpu>60s" = more,
// "hang" = it did not return within giveUp at all.
func runAlone(f func()) (string, time.Duration) {
	c0 := cpuTime()
	st := runBounded(giveUp-time.Second, f)
	cpu := cpuTime() - c0
	if st != "ok" {
		return "hang", cpu
	}
	if cpu > hangLimit {
		return "cpu>60s", cpu
	}
	return "ok", cpu
}

// shrinkBytes deletes chunks, then single bytes, while the failure persists.
func shrinkBytes(s string, fails func(string) bool) string {
	cur := s
	for chunk := len(cur) / 2; chunk >= 1; {
		removed := false
		for i := 0; i+chunk <= len(cur); {
			cand := cur[:i] + cur[i+chunk:]
			if fails(cand) {
				cur, removed = cand, true
			} else {
				i += chunk
			}
		}
		if !removed || chunk > len(cur) {
			chunk /= 2
		}
		if chunk > len(cur) {
			chunk = len(cur)
		}
	}
	return cur
}

var frameRE = regexp.MustCompile(`github.com/blevesearch/[^\s(]+\.([A-Za-z0-9_*().]+)\(`)

// charClasses summarises a shrunk string: the distinct operator characters plus
// letter / digit / space / non-ASCII / invalid-UTF-8 markers, in order of first use.
func charClasses(s string) string {
	var out []string
	seen := map[string]bool{}
	add := func(c string) {
		if !seen[c] {
			seen[c] = true
			out = append(out, c)
		}
	}
	for i := 0; i < len(s); {
		c, w := utf8.DecodeRuneInString(s[i:])
		switch {
		case c == utf8.RuneError && w == 1:
			add("<bad-utf8>")
		case c >= 'a' && c <= 'z' || c >= 'A' && c <= 'Z':
			add("a")
		case c >= '0' && c <= '9':
			add("9")
		case c == ' ':
			add("_")
		case c < 0x20 || c == 0x7f:
			add("<ctl>")
		case c > 0x7f:
			add("<u>")
		default:
			add(string(c))
		}
		i += w
	}
	if len(out) > 8 {
		out = append(out[:8], "…")
	}
	return strings.Join(out, "")
}

func panicFrame(detail string) string {
	for _, l := range strings.Split(detail, "\n") {
		if strings.Contains(l, "verifharness") || strings.Contains(l, "runtime/") {
			continue
		}
		if m := frameRE.FindStringSubmatch(l); m != nil {
			return m[1]
		}
	}
	return "unknown-frame"
}

func checkSoup(r *ev.Run, p *probe, s, mode string, sample bool) {
	r.Journal(map[string]any{"part": "qs-robustness", "s": s})
	var result, detail string
	var clauses int
	exclusive.RLock()
	st := runBounded(hangLimit, func() { result, detail, clauses = exerciseQS(p, s) })
	exclusive.RUnlock()
	r.Count("qs3_mode_"+mode, 1)
	if st == "slow" {
		// slower than the wall-clock limit while 15 other inputs (and whatever else the
		// machine does) were running: the verdict is taken from a run of this input
		// alone, measured in CPU seconds of the process
		exclusive.Lock()
		var cpu time.Duration
		st, cpu = runAlone(func() { result, detail, clauses = exerciseQS(p, s) })
		exclusive.Unlock()
		if st == "ok" {
			r.Count("qs3_slow_only_under_load", 1)
			r.Extra("qs3_slowest_input_cpu_s", cpu.Seconds())
		}
	}
	if st != "ok" {
		r.Case("qs-robustness/"+s, true)
		exclusive.Lock()
		trials := 0
		small := shrinkBytes(s, func(c string) bool {
			if trials++; trials > 12 {
				return false
			}
			v, _ := runAlone(func() { exerciseQS(p, c) })
			return v != "ok"
		})
		exclusive.Unlock()
		r.Violation("qs-robustness/"+st+"/"+charClasses(small), fmt.Sprintf("query string %q (%d bytes) did not finish within %s (%s)", clip(small, 200), len(small), hangLimit, st),
			map[string]any{"query_string": small, "bytes": []byte(small), "shrunk_from": s, "probe": p.Name})
		return
	}
	r.Count("qs3_"+result, 1)
	// non-trivial: the string exercised the lexer beyond a single plain word, i.e. it
	// has an operator character, or it parsed into more than one clause
	r.Case("qs-robustness/"+s, strings.ContainsAny(s, "+-:^~\"><=/\\*?") || clauses > 1)
	if sample {
		r.Sample(map[string]any{"part": "query string robustness", "input": s, "mode": mode, "result": result, "detail": firstLines(detail, 2)})
	}
	if result == "inconsistent" {
		r.Violation("qs-robustness/parse-vs-search/"+charClasses(s), fmt.Sprintf("query string %q: %s", s, detail),
			map[string]any{"query_string": s, "bytes": []byte(s), "probe": p.Name})
		return
	}
	if result != "panic" {
		return
	}
	frame := panicFrame(detail)
	small := shrinkBytes(s, func(c string) bool {
		var res, det string
		if runBounded(hangLimit, func() { res, det, _ = exerciseQS(p, c) }) != "ok" {
			return false
		}
		return res == "panic" && panicFrame(det) == frame
	})
	_, sdetail, _ := exerciseQS(p, small)
	r.Violation("qs-robustness/panic/"+frame+"/"+charClasses(small), fmt.Sprintf("query string %q: %s", clip(small, 200), firstLines(sdetail, 3)),
		map[string]any{"query_string": small, "bytes": []byte(small), "shrunk_from": s, "probe": p.Name, "detail": sdetail})
}

func clip(s string, n int) string {
	if len(s) > n {
		return s[:n] + "…"
	}
	return s
}
