package c17

import (
	"fmt"
	"strconv"
	"strings"
	"time"

	"github.com/blevesearch/bleve/v2"

	"verifharness/corpus"
	"verifharness/ev"
	"verifharness/rng"
)

// ---------------------------------------------------------------------------
// Part 4: strings generated from the documented query-string grammar together
// with the query they document (search/query/query_string.y, query_string_lex.go).
//
//	clause   := [+|-] base [^boost]          separated by single spaces
//	base     := text | field:text | "phrase" | field:"phrase" | text~[n] | field:text~[n]
//	          | number | field:[-]number | field:(>|>=|<|<=)[-]number
//	          | field:(>|>=|<|<=)"date" | /regexp/ | field:/regexp/ | wild*card | field:wild?card
//
// documented translation (grammar actions):
//	text            -> MatchQuery(text)              (default field when unscoped)
//	"phrase"        -> MatchPhraseQuery(phrase)
//	text~n          -> MatchQuery(text) fuzziness n  (~ alone = 1)
//	number          -> Disjunction[ MatchQuery(number), NumericRange[number,number] inclusive ]
//	f:>n  f:>=n …   -> NumericRange(min n exclusive / inclusive, max open) …
//	f:>"date" …     -> DateRange(start exclusive / inclusive …), date parsed by the query date parser
//	/re/            -> RegexpQuery(re);  text containing * or ? -> WildcardQuery
//	^b              -> SetBoost(b) on the clause's query
//	+ / - / none    -> must / must_not / should of one BooleanQuery
//	\c              -> the character c itself for c in `+-=&|><!(){}[]^"~*?:\/ `

type clauseSpec struct {
	Prefix  string `json:"prefix,omitempty"` // "", "+", "-"
	Field   string `json:"field,omitempty"`
	QuoteF  bool   `json:"quote_field,omitempty"`
	Kind    string `json:"kind"`          // match | phrase | fuzzy | number | numcmp | datecmp | regexp | wildcard
	Raw     string `json:"raw,omitempty"` // the text meant (before escaping)
	EscAll  bool   `json:"esc_all,omitempty"`
	Fuzz    int    `json:"fuzz,omitempty"` // fuzzy: 1 or 2
	Bare    bool   `json:"bare_tilde,omitempty"`
	Op      string `json:"op,omitempty"` // > >= < <=
	Num     string `json:"num,omitempty"`
	Date    string `json:"date,omitempty"`    // spelling inside the quotes
	Instant string `json:"instant,omitempty"` // RFC3339Nano of the instant meant
	Boost   string `json:"boost,omitempty"`   // text after ^ ("" = no boost; "^" alone is spelled "1" with EmptyB)
	EmptyB  bool   `json:"empty_boost,omitempty"`
}

const mustEscapeStart = `+-:><=^~"\`
const mustEscapeAny = ` :^~\`
const mayEscape = `&|!(){}[]/=-+<>`

func escapeToken(raw string, all bool) string {
	var sb strings.Builder
	for i, c := range raw {
		need := strings.ContainsRune(mustEscapeAny, c) || (i == 0 && strings.ContainsRune(mustEscapeStart, c))
		if need || (all && strings.ContainsRune(mayEscape, c)) {
			sb.WriteByte('\\')
		}
		sb.WriteRune(c)
	}
	return sb.String()
}

func escapePhrase(raw string, all bool) string {
	var sb strings.Builder
	for _, c := range raw {
		if c == '"' || c == '\\' || (all && strings.ContainsRune(mayEscape+" :^~", c)) {
			sb.WriteByte('\\')
		}
		sb.WriteRune(c)
	}
	return sb.String()
}

func (c clauseSpec) fieldPrefix() string {
	if c.Field == "" {
		return ""
	}
	if c.QuoteF {
		return `"` + c.Field + `":`
	}
	return c.Field + ":"
}

func (c clauseSpec) render() string {
	s := c.Prefix + c.fieldPrefix()
	switch c.Kind {
	case "match", "wildcard":
		s += escapeToken(c.Raw, c.EscAll)
	case "regexp":
		s += "/" + c.Raw + "/"
	case "phrase":
		s += `"` + escapePhrase(c.Raw, c.EscAll) + `"`
	case "fuzzy":
		s += escapeToken(c.Raw, c.EscAll) + "~"
		if !c.Bare {
			s += strconv.Itoa(c.Fuzz)
		}
	case "number":
		s += c.Num
	case "numcmp":
		s += c.Op + c.Num
	case "datecmp":
		s += c.Op + `"` + c.Date + `"`
	}
	if c.EmptyB {
		s += "^"
	} else if c.Boost != "" {
		s += "^" + c.Boost
	}
	return s
}

// expect is the documented translation of one clause.
func (c clauseSpec) expect() *corpus.Q {
	var q *corpus.Q
	switch c.Kind {
	case "match":
		q = &corpus.Q{Kind: "match", Field: c.Field, Text: c.Raw}
	case "wildcard":
		q = &corpus.Q{Kind: "wildcard", Field: c.Field, Text: c.Raw}
	case "regexp":
		q = &corpus.Q{Kind: "regexp", Field: c.Field, Text: c.Raw}
	case "phrase":
		q = &corpus.Q{Kind: "matchphrase", Field: c.Field, Text: c.Raw}
	case "fuzzy":
		f := c.Fuzz
		if c.Bare {
			f = 1
		}
		q = &corpus.Q{Kind: "match", Field: c.Field, Text: c.Raw, Fuzz: f}
	case "number":
		v, err := strconv.ParseFloat(c.Num, 64)
		if err != nil {
			panic(err)
		}
		q = &corpus.Q{Kind: "disj", Kids: []*corpus.Q{
			{Kind: "match", Field: c.Field, Text: c.Num},
			{Kind: "numrange", Field: c.Field, Min: fp(v), Max: fp(v), IncMin: bp(true), IncMax: bp(true)},
		}}
	case "numcmp":
		v, err := strconv.ParseFloat(c.Num, 64)
		if err != nil {
			panic(err)
		}
		q = &corpus.Q{Kind: "numrange", Field: c.Field}
		switch c.Op {
		case ">":
			q.Min, q.IncMin = fp(v), bp(false)
		case ">=":
			q.Min, q.IncMin = fp(v), bp(true)
		case "<":
			q.Max, q.IncMax = fp(v), bp(false)
		case "<=":
			q.Max, q.IncMax = fp(v), bp(true)
		}
	case "datecmp":
		q = &corpus.Q{Kind: "daterange", Field: c.Field}
		switch c.Op {
		case ">":
			q.Start, q.IncMin = c.Instant, bp(false)
		case ">=":
			q.Start, q.IncMin = c.Instant, bp(true)
		case "<":
			q.End, q.IncMax = c.Instant, bp(false)
		case "<=":
			q.End, q.IncMax = c.Instant, bp(true)
		}
	default:
		panic("clause kind " + c.Kind)
	}
	if c.EmptyB {
		q.Boost = 1
	} else if c.Boost != "" {
		b, err := strconv.ParseFloat(c.Boost, 64)
		if err != nil {
			panic(err)
		}
		q.Boost = b
	}
	return q
}

// feature is the syntactic class of a clause.
func (c clauseSpec) feature() string {
	s := c.Prefix
	if c.Field != "" {
		s += "field:"
		if c.QuoteF {
			s = c.Prefix + `"field":`
		}
	}
	s += c.Kind
	switch c.Kind {
	case "numcmp", "datecmp":
		s += c.Op
	}
	if c.Kind == "number" && strings.HasPrefix(c.Num, "-") {
		s += "-negative"
	}
	if (c.Kind == "match" || c.Kind == "fuzzy" || c.Kind == "wildcard") && escapeToken(c.Raw, c.EscAll) != c.Raw {
		s += "+escape"
	}
	if c.Kind == "phrase" && escapePhrase(c.Raw, c.EscAll) != c.Raw {
		s += "+escape"
	}
	if c.Boost != "" || c.EmptyB {
		s += "^boost"
	}
	return s
}

type qsCase struct {
	// Pre, when set, is an incomplete or rejected query string that is parsed right before the
	// case itself, in the same goroutine: parsing is a function of its input alone, so whatever
	// was parsed before (the parser pools its lexers) must not change the meaning of the case.
	Pre     string       `json:"parsed_just_before,omitempty"`
	Clauses []clauseSpec `json:"clauses"`
	Lead    string       `json:"lead,omitempty"`
	Trail   string       `json:"trail,omitempty"`
	Sep     string       `json:"sep,omitempty"`
}

func (c qsCase) render() string {
	parts := make([]string, len(c.Clauses))
	for i, cl := range c.Clauses {
		parts[i] = cl.render()
	}
	sep := c.Sep
	if sep == "" {
		sep = " "
	}
	return c.Lead + strings.Join(parts, sep) + c.Trail
}

func (c qsCase) expect() (q *corpus.Q, evaluable bool) {
	q = &corpus.Q{Kind: "bool"}
	evaluable = true
	for _, cl := range c.Clauses {
		e := cl.expect()
		if cl.Kind == "phrase" && (cl.Field == "" || cl.Field == "tag" || cl.Field == "notv") {
			evaluable = false // the evaluator has no positions for _all and fields without term vectors
		}
		switch cl.Prefix {
		case "+":
			q.Must = append(q.Must, e)
		case "-":
			q.MustNot = append(q.MustNot, e)
		default:
			q.Should = append(q.Should, e)
		}
	}
	return
}

func (c qsCase) features() []string {
	var fs []string
	for _, cl := range c.Clauses {
		fs = append(fs, cl.feature())
	}
	return dedupSorted(fs)
}

func (c qsCase) nontrivial() bool {
	if len(c.Clauses) >= 2 {
		return true
	}
	cl := c.Clauses[0]
	return cl.Prefix != "" || cl.Field != "" || cl.Boost != "" || cl.EmptyB || cl.Kind != "match"
}

// ---------------------------------------------------------------------------
// generator

type gen struct {
	g   *rng.Rand
	ids []string
}

var qsTextFields = []string{"title", "body", "notv"}

var qsBoosts = []string{"2", "3", "0.5", "1.5", "10", "2.0", "7.25", "0.001"}

var qsRegexps = []string{"al.*", "bet.?", "[a-d].*a", "(alpha|zeta)", "g.m+a", ".*ta", "alp[ahs]+"}

var dateLayouts = []string{time.RFC3339, time.RFC3339Nano, "2006-01-02", "2006-01-02 15:04:05", "2006-01-02T15:04:05", "2006-01-02 15:04:05 -0700"}

func (x *gen) clause() clauseSpec {
	g := x.g
	c := clauseSpec{}
	switch p := g.Intn(10); {
	case p < 3:
		c.Prefix = "+"
	case p < 5:
		c.Prefix = "-"
	}
	word := func() string { return rng.Pick(g, corpus.Words) }
	switch k := g.Intn(100); {
	case k < 22: // match
		c.Kind = "match"
		switch g.Intn(6) {
		case 0:
			c.Raw = word() // default field
		case 1, 2:
			c.Field, c.Raw = "tag", rng.Pick(g, specialTags)
			if g.Chance(1, 4) {
				c.Raw = rng.Pick(g, corpus.Tags)
			}
			c.EscAll = g.Bool()
		case 3:
			c.Field, c.Raw = rng.Pick(g, qsTextFields), word()+" "+word() // escaped space: one match over two tokens
		default:
			c.Field, c.Raw = rng.Pick(g, qsTextFields), word()
		}
	case k < 34: // phrase
		c.Kind = "phrase"
		c.Field = rng.Pick(g, []string{"title", "body", "title", "body", ""})
		c.Raw = corpus.GenSentence(g, 3)
		if g.Chance(1, 3) { // reserved characters inside the quotes (dropped again by the analyzers)
			ws := strings.Split(c.Raw, " ")
			i := g.Intn(len(ws))
			ws[i] = rng.Pick(g, []string{`"` + ws[i] + `"`, ws[i] + `\`, `+` + ws[i], ws[i] + `:`, `(` + ws[i] + `)`, ws[i] + `^2`, ws[i] + `~`})
			c.Raw = strings.Join(ws, " ")
			c.EscAll = g.Bool()
		}
	case k < 46: // fuzzy
		c.Kind = "fuzzy"
		c.Raw = word()
		if g.Chance(3, 4) {
			c.Field = rng.Pick(g, qsTextFields)
		}
		c.Fuzz = g.Range(1, 2)
		if g.Chance(1, 4) {
			c.Bare, c.Fuzz = true, 1
		}
	case k < 58: // number
		c.Kind = "number"
		c.Num = rng.Pick(g, []string{"5", "12", "7", "2020", "0", "19", "5.5", "007", "20.0", "3."})
		switch g.Intn(4) {
		case 0: // bare: default field
		case 1:
			c.Field = "title"
		default:
			c.Field = "num"
			if g.Chance(1, 3) {
				c.Num = "-" + rng.Pick(g, []string{"5", "3", "1", "0.5"})
			}
		}
	case k < 72: // numeric comparison
		c.Kind = "numcmp"
		c.Field = "num"
		c.Op = rng.Pick(g, []string{">", ">=", "<", "<="})
		c.Num = rng.Pick(g, []string{"5", "12", "0", "19", "5.5", "10.25", "-3", "-0.5", "007", "100"})
	case k < 84: // date comparison
		c.Kind = "datecmp"
		c.Field = "date"
		c.Op = rng.Pick(g, []string{">", ">=", "<", "<="})
		t := baseDate.Add(time.Duration(g.Range(-2, 42)) * 24 * time.Hour)
		lay := rng.Pick(g, dateLayouts)
		switch lay {
		case time.RFC3339Nano:
			t = t.Add(time.Duration(g.Range(1, 999)) * time.Millisecond)
		case "2006-01-02":
		default:
			if g.Bool() {
				t = t.Add(time.Duration(g.Range(1, 86399)) * time.Second)
			}
		}
		if (lay == time.RFC3339 || strings.HasSuffix(lay, "-0700")) && g.Bool() {
			t = t.In(time.FixedZone("x", rng.Pick(g, []int{19800, -18000})))
		}
		c.Date = t.Format(lay)
		c.Instant = t.UTC().Format(time.RFC3339Nano)
	case k < 92: // regexp
		c.Kind = "regexp"
		c.Raw = rng.Pick(g, qsRegexps)
		if g.Chance(3, 4) {
			c.Field = rng.Pick(g, qsTextFields)
		}
	default: // wildcard
		c.Kind = "wildcard"
		w := word()
		switch g.Intn(3) {
		case 0:
			c.Raw = w[:g.Range(1, len(w)-1)] + "*"
		case 1:
			b := []byte(w)
			b[g.Intn(len(b))] = '?'
			c.Raw = string(b)
		default:
			c.Raw = "*" + w[g.Range(1, len(w)-1):]
		}
		if g.Chance(3, 4) {
			c.Field = rng.Pick(g, qsTextFields)
		}
	}
	if c.Field != "" && g.Chance(1, 10) {
		c.QuoteF = true
	}
	// the lexer reads everything up to the next space as the boost / fuzziness,
	// so a fuzzy clause cannot also carry a boost
	if c.Kind != "fuzzy" && g.Chance(3, 10) {
		if g.Chance(1, 10) {
			c.EmptyB = true
		} else {
			c.Boost = rng.Pick(g, qsBoosts)
		}
	}
	return c
}

func (x *gen) qsCase() qsCase {
	n := x.g.Range(1, 5)
	c := qsCase{}
	for i := 0; i < n; i++ {
		c.Clauses = append(c.Clauses, x.clause())
	}
	if x.g.Chance(1, 10) {
		c.Lead = " "
	}
	if x.g.Chance(1, 10) {
		c.Trail = " "
	}
	if x.g.Chance(1, 10) {
		c.Sep = "  "
	}
	if x.g.Chance(1, 3) {
		c.Pre = rng.Pick(x.g, []string{"gamma \\", "\\", "\"unterminated phrase", "title:", "+", "alpha^", "num:>", "a~", "/unterminated regexp", "beta \\ ", "-", "alpha \\"})
	}
	return c
}

func (x *gen) grammarString() string { return x.qsCase().render() }

// ---------------------------------------------------------------------------
// check

type qsWitness struct {
	String   string        `json:"query_string"`
	Case     qsCase        `json:"case"`
	Expected *corpus.Q     `json:"documented_translation"`
	Parsed   string        `json:"parsed_dump,omitempty"`
	Probe    string        `json:"probe"`
	Problem  string        `json:"problem"`
	Detail   string        `json:"detail"`
	Docs     []*corpus.Doc `json:"live_docs,omitempty"`
}

// qsProblem runs one case on one probe; "" = fine.
func qsProblem(p *probe, c qsCase) (problem, detail string) {
	s := c.render()
	want, evaluable := c.expect()
	qs := bleve.NewQueryStringQuery(s)
	var perr, verr error
	poison := func() {
		if c.Pre != "" {
			_, _, _ = ev.Guard(func() { _, _ = bleve.NewQueryStringQuery(c.Pre).Parse() })
		}
	}
	panicked, val, stack := ev.Guard(func() {
		poison()
		verr = qs.Validate()
		poison()
		_, perr = qs.Parse()
	})
	if panicked {
		return "panic", fmt.Sprintf("%v\n%s", val, firstLines(stack, 30))
	}
	if perr != nil {
		return "rejected", "Parse: " + perr.Error()
	}
	if verr != nil {
		return "rejected", "Validate: " + verr.Error()
	}
	for _, cl := range cells {
		poison()
		got := runQuery(p, qs, cl)
		direct := runQuery(p, want.Bleve(), cl)
		if d, det := diffOutcome(direct, got); d != "" {
			return d, fmt.Sprintf("[%s] direct query vs query string: %s", cl.Name, det)
		}
		if got.Err != "" || got.Panic != "" {
			if got.Panic != "" {
				return "panic", got.Panic
			}
			return "error", got.Err
		}
		if evaluable {
			evl := &corpus.Evaluator{M: p.m}
			yes, dc := evl.Expected(want, p.models)
			have := got.idSet()
			for id := range have {
				if !yes[id] && !dc[id] {
					return "extra-vs-model", fmt.Sprintf("[%s] %s returned but the documented meaning excludes it (expected %v)", cl.Name, id, corpus.SortedKeys(yes))
				}
			}
			for id := range yes {
				if !have[id] {
					return "missing-vs-model", fmt.Sprintf("[%s] %s not returned but the documented meaning includes it (expected %v, got %v)", cl.Name, id, corpus.SortedKeys(yes), got.ids())
				}
			}
		}
	}
	return "", ""
}

func shrinkQS(c qsCase, fails func(qsCase) bool) qsCase {
	cur := c
	for changed := true; changed; {
		changed = false
		var cands []qsCase
		for i := range cur.Clauses {
			if len(cur.Clauses) > 1 {
				d := cur
				d.Clauses = append(append([]clauseSpec(nil), cur.Clauses[:i]...), cur.Clauses[i+1:]...)
				cands = append(cands, d)
			}
			mod := func(f func(cl *clauseSpec)) {
				d := cur
				d.Clauses = append([]clauseSpec(nil), cur.Clauses...)
				f(&d.Clauses[i])
				if d.render() != cur.render() {
					cands = append(cands, d)
				}
			}
			mod(func(cl *clauseSpec) { cl.Boost, cl.EmptyB = "", false })
			mod(func(cl *clauseSpec) { cl.Prefix = "" })
			mod(func(cl *clauseSpec) { cl.QuoteF = false })
			mod(func(cl *clauseSpec) { cl.EscAll = false })
		}
		if cur.Lead != "" || cur.Trail != "" || cur.Sep != "" {
			d := cur
			d.Lead, d.Trail, d.Sep = "", "", ""
			cands = append(cands, d)
		}
		for _, d := range cands {
			if fails(d) {
				cur, changed = d, true
				break
			}
		}
	}
	return cur
}

func checkQS(r *ev.Run, probes []*probe, c qsCase, sample bool) {
	s := c.render()
	r.Journal(map[string]any{"part": "qs-meaning", "s": s})
	r.Case("qs-meaning/"+s, c.nontrivial())
	for _, cl := range c.Clauses {
		r.Count("qs4_clause_"+cl.Kind, 1)
	}
	if sample {
		want, _ := c.expect()
		r.Sample(map[string]any{"part": "query-string meaning", "query_string": s, "documented_translation": want})
	}
	for _, p := range probes {
		r.Count("qs4_comparisons", 1)
		problem, _ := qsProblem(p, c)
		if problem == "" {
			continue
		}
		small := shrinkQS(c, func(d qsCase) bool { pr, _ := qsProblem(p, d); return family(pr) == family(problem) })
		_, detail := qsProblem(p, small)
		want, _ := small.expect()
		w := qsWitness{String: small.render(), Case: small, Expected: want, Probe: p.Name, Problem: problem, Detail: detail, Docs: p.live}
		if pq, err := bleve.NewQueryStringQuery(small.render()).Parse(); err == nil {
			if b, err := jsonMarshalGuard(pq); err == nil {
				w.Parsed = string(b)
			}
		}
		class := "qs-meaning/" + family(problem) + "/" + strings.Join(small.features(), " ")
		if small.Pre != "" {
			class += "/after-parsing-an-incomplete-string"
		}
		r.Violation(class, fmt.Sprintf("query string %q differs from its documented translation on %s: %s", small.render(), p.Name, firstLines(detail, 6)), w)
		return
	}
}
