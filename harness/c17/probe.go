package c17

import (
	"encoding/json"
	"fmt"
	"math"
	"sort"
	"strings"
	"time"

	"github.com/blevesearch/bleve/v2"
	"github.com/blevesearch/bleve/v2/mapping"
	"github.com/blevesearch/bleve/v2/search/query"

	"verifharness/corpus"
	"verifharness/ev"
	"verifharness/rng"
)

// ---------------------------------------------------------------------------
// probe corpora: the shared mapping and document generator of package corpus,
// extended by what C17 needs to make every JSON / query-string option observable:
// a geo point (geo_distance sort), a custom date parser, sub-second dates,
// keyword values that contain the reserved characters of the query-string syntax,
// and number-looking words in the text fields.

var baseDate = time.Date(2020, 1, 1, 0, 0, 0, 0, time.UTC)

// specialTags are keyword-analysed values that can only be addressed through
// escapes in the query-string syntax ('*' and '?' are left out on purpose: an
// escaped wildcard character still makes the parser choose a wildcard query).
var specialTags = []string{
	"a:b", "+plus", "-neg", `q"uote`, `back\slash`, "c^2", "t~1", "(paren)", ">gt", "<lt", "=eq",
	"sl/ash", "two words", "!bang", "{brace}", "[sq]", "a&b", "a|b",
	// a backslash right before a delimiter / at the end: the escaped form is `\\` followed by the delimiter
	`trail\`, `dir\:x`, `up\^2`, `ti\~1`, `sp\ ace`, `\lead`,
}

const signField = "-neg"

const customDateParser = "dmy"

var customDateLayouts = []string{"02/01/2006 15:04:05", "02/01/2006"}

func probeMapping() *mapping.IndexMappingImpl {
	m := corpus.Mapping()
	loc := bleve.NewGeoPointFieldMapping()
	loc.IncludeInAll = false
	m.DefaultMapping.AddFieldMappingsAt("loc", loc)
	// the intermediate document mapping is dynamic by default and would index the
	// map's lon / lat as numbers of their own (and into _all)
	m.DefaultMapping.Properties["loc"].Dynamic = false
	// a field whose name starts with the character the short sort syntax uses for "descending"
	neg := bleve.NewNumericFieldMapping()
	neg.IncludeInAll = false
	m.DefaultMapping.AddFieldMappingsAt(signField, neg)
	ls := make([]any, len(customDateLayouts))
	for i, l := range customDateLayouts {
		ls[i] = l
	}
	if err := m.AddCustomDateTimeParser(customDateParser, map[string]any{"type": "sanitizedgo", "layouts": ls}); err != nil {
		panic(err)
	}
	return m
}

type probe struct {
	Name   string
	idx    bleve.Index
	m      *mapping.IndexMappingImpl
	live   []*corpus.Doc
	models []*corpus.DocModel
	ids    []string // id space (live and absent)
	nsegs  int
}

// decorate adds the C17 extras to a generated document.
func decorate(g *rng.Rand, d *corpus.Doc) {
	f := d.Fields
	if g.Chance(6, 10) {
		f["loc"] = map[string]any{"lon": float64(g.Range(-170, 170)) + 0.25, "lat": float64(g.Range(-80, 80)) + 0.5}
	}
	if g.Chance(1, 3) {
		f["tag"] = rng.Pick(g, specialTags)
	} else if g.Chance(1, 6) {
		f["tag"] = []any{rng.Pick(g, specialTags), rng.Pick(g, corpus.Tags)}
	}
	if _, ok := f["date"]; ok && g.Chance(1, 3) {
		t := baseDate.Add(time.Duration(g.Range(0, 40))*24*time.Hour + time.Duration(g.Range(1, 999))*time.Millisecond)
		f["date"] = t.Format(time.RFC3339Nano)
	}
	if g.Chance(7, 10) {
		f[signField] = float64(g.Range(0, 50))
	}
	if t, ok := f["title"].(string); ok && g.Chance(1, 4) {
		f["title"] = t + " " + rng.Pick(g, []string{"5", "12", "7", "2020"})
	}
}

func buildProbe(g *rng.Rand, name string, nIDs, nOps int) (*probe, error) {
	p := &probe{Name: name, m: probeMapping()}
	ops := corpus.GenOps(g, nOps, nIDs)
	dg := g.Derive("decorate")
	for i := range ops {
		if ops[i].Kind == "index" {
			decorate(dg, ops[i].Doc)
		}
	}
	hist := corpus.Partition(g, ops, 5)
	model := corpus.NewLWW()
	idx, err := corpus.ConfigByName("scorch-mem").Open("", p.m)
	if err != nil {
		return nil, err
	}
	for _, b := range hist.Batches {
		model.Apply(b)
		if err := corpus.ApplyBatch(idx, b); err != nil {
			return nil, fmt.Errorf("apply: %v", err)
		}
	}
	p.idx = idx
	p.live = model.LiveDocs()
	p.models, err = corpus.AnalyseAll(p.m, p.live)
	if err != nil {
		return nil, err
	}
	for i := 0; i < nIDs+3; i++ {
		p.ids = append(p.ids, corpus.DocID(i))
	}
	p.nsegs = segments(idx)
	return p, nil
}

// fixedProbe indexes the given documents one per batch (one segment each).
func fixedProbe(name string, docs []*corpus.Doc) (*probe, error) {
	p := &probe{Name: name, m: probeMapping()}
	idx, err := corpus.ConfigByName("scorch-mem").Open("", p.m)
	if err != nil {
		return nil, err
	}
	for _, d := range docs {
		if err := idx.Index(d.ID, d.Fields); err != nil {
			return nil, err
		}
		p.ids = append(p.ids, d.ID)
	}
	p.idx = idx
	p.live = docs
	p.models, err = corpus.AnalyseAll(p.m, docs)
	if err != nil {
		return nil, err
	}
	p.nsegs = segments(idx)
	return p, nil
}

func segments(idx bleve.Index) int {
	sm, _ := idx.StatsMap()["index"].(map[string]interface{})
	n := 0
	for _, k := range []string{"num_root_memorysegments", "num_root_filesegments"} {
		switch v := sm[k].(type) {
		case uint64:
			n += int(v)
		case int:
			n += v
		}
	}
	return n
}

// ---------------------------------------------------------------------------
// outcomes

type hitRec struct {
	ID    string `json:"id"`
	Score uint64 `json:"score_bits"`
	Rest  string `json:"rest,omitempty"` // JSON of the hit (fields, fragments, locations, explanation, sort)
}

type outcome struct {
	Err      string   `json:"err,omitempty"`
	Panic    string   `json:"panic,omitempty"`
	Total    uint64   `json:"total"`
	MaxScore uint64   `json:"max_score_bits"`
	Hits     []hitRec `json:"hits"`
	Facets   string   `json:"facets,omitempty"`
}

func (o outcome) ids() []string {
	out := make([]string, len(o.Hits))
	for i, h := range o.Hits {
		out[i] = h.ID
	}
	return out
}

func (o outcome) idSet() map[string]bool {
	m := map[string]bool{}
	for _, h := range o.Hits {
		m[h.ID] = true
	}
	return m
}

func firstLines(s string, n int) string {
	ls := strings.Split(s, "\n")
	if len(ls) > n {
		ls = ls[:n]
	}
	return strings.Join(ls, "\n")
}

// runRequest executes a request; full says whether the whole hit is recorded.
func runRequest(idx bleve.Index, req *bleve.SearchRequest, full bool) outcome {
	var out outcome
	panicked, val, stack := ev.Guard(func() {
		res, err := idx.Search(req)
		if err != nil {
			out.Err = err.Error()
			return
		}
		out.Total = res.Total
		out.MaxScore = math.Float64bits(res.MaxScore)
		for _, h := range res.Hits {
			hr := hitRec{ID: h.ID, Score: math.Float64bits(h.Score)}
			if full {
				b, err := json.Marshal(h)
				if err != nil {
					hr.Rest = "marshal error: " + err.Error()
				} else {
					hr.Rest = string(b)
				}
			}
			out.Hits = append(out.Hits, hr)
		}
		if full && len(res.Facets) > 0 {
			b, err := json.Marshal(res.Facets)
			if err != nil {
				out.Facets = "marshal error: " + err.Error()
			} else {
				out.Facets = string(b)
			}
		}
	})
	if panicked {
		out.Panic = fmt.Sprintf("%v\n%s", val, firstLines(stack, 40))
	}
	return out
}

// cell is an execution mode for plain query comparisons.
type cell struct {
	Name      string
	ScoreNone bool
}

var cells = []cell{{"score", false}, {"score-none", true}}

func runQuery(p *probe, q query.Query, c cell) outcome {
	req := bleve.NewSearchRequestOptions(q, len(p.ids)+20, 0, false)
	if c.ScoreNone {
		req.Score = "none"
		req.SortBy([]string{"_id"})
	}
	return runRequest(p.idx, req, false)
}

// diffOutcome returns "" if equal, otherwise the first kind of difference:
// panic | error | ids | order | scores | total | hit-details | facets.
func diffOutcome(a, b outcome) (string, string) {
	if a.Panic != "" || b.Panic != "" {
		if a.Panic != "" && b.Panic != "" {
			return "", ""
		}
		return "panic", "a: " + firstLines(a.Panic, 12) + "\nb: " + firstLines(b.Panic, 12)
	}
	if a.Err != b.Err {
		if a.Err != "" && b.Err != "" {
			return "", "" // both rejected (texts may name different things)
		}
		return "error", fmt.Sprintf("original err=%q, other err=%q", a.Err, b.Err)
	}
	as, bs := a.ids(), b.ids()
	sa, sb := append([]string(nil), as...), append([]string(nil), bs...)
	sort.Strings(sa)
	sort.Strings(sb)
	if strings.Join(sa, ",") != strings.Join(sb, ",") {
		return "ids", fmt.Sprintf("original %v, other %v", sa, sb)
	}
	if strings.Join(as, ",") != strings.Join(bs, ",") {
		return "order", fmt.Sprintf("original %v, other %v", as, bs)
	}
	for i := range a.Hits {
		if a.Hits[i].Score != b.Hits[i].Score {
			return "scores", fmt.Sprintf("%s: original %v, other %v", a.Hits[i].ID,
				math.Float64frombits(a.Hits[i].Score), math.Float64frombits(b.Hits[i].Score))
		}
	}
	if a.Total != b.Total || a.MaxScore != b.MaxScore {
		return "total", fmt.Sprintf("total %d/%d max_score %v/%v", a.Total, b.Total,
			math.Float64frombits(a.MaxScore), math.Float64frombits(b.MaxScore))
	}
	for i := range a.Hits {
		if a.Hits[i].Rest != b.Hits[i].Rest {
			return "hit-details", fmt.Sprintf("original %s\nother    %s", a.Hits[i].Rest, b.Hits[i].Rest)
		}
	}
	if a.Facets != b.Facets {
		return "facets", fmt.Sprintf("original %s\nother    %s", a.Facets, b.Facets)
	}
	return "", ""
}

func bp(b bool) *bool       { return &b }
func fp(f float64) *float64 { return &f }
func sp(s string) *string   { return &s }
func dedupSorted(xs []string) []string {
	sort.Strings(xs)
	var out []string
	for i, x := range xs {
		if i == 0 || x != xs[i-1] {
			out = append(out, x)
		}
	}
	return out
}
