package c17

import (
	"encoding/json"
	"fmt"
	"sort"
	"strings"
	"time"

	"github.com/blevesearch/bleve/v2"
	"github.com/blevesearch/bleve/v2/search/query"

	"verifharness/corpus"
	"verifharness/rng"
)

// N is the query tree of the JSON round-trip parts: corpus.Q plus the options the
// shared generator lacks (explicit boost on every node kind, auto fuzziness,
// explicit analyzers, multi-phrase, date ranges given as strings with a named
// parser, sub-second endpoints, fractional disjunction minimum, nested
// query-string queries).
type N struct {
	Kind  string     `json:"kind"`
	Field string     `json:"field,omitempty"`
	Text  string     `json:"text,omitempty"`
	Terms []string   `json:"terms,omitempty"`
	Multi [][]string `json:"multi,omitempty"`
	And   bool       `json:"and,omitempty"`
	OpSet bool       `json:"op_set,omitempty"` // SetOperator called explicitly (also for "or")
	Fuzz  int        `json:"fuzz,omitempty"`
	PLen  int        `json:"plen,omitempty"`
	Auto  bool       `json:"auto,omitempty"`
	An    string     `json:"analyzer,omitempty"`

	Min    *float64 `json:"min,omitempty"`
	Max    *float64 `json:"max,omitempty"`
	IncMin *bool    `json:"incmin,omitempty"`
	IncMax *bool    `json:"incmax,omitempty"`
	MinS   string   `json:"mins,omitempty"`
	MaxS   string   `json:"maxs,omitempty"`
	Start  string   `json:"start,omitempty"` // daterange: RFC3339Nano; datestr: text in the parser's format
	End    string   `json:"end,omitempty"`
	Parser string   `json:"parser,omitempty"`
	Bool   bool     `json:"bool,omitempty"`
	IDs    []string `json:"ids,omitempty"`

	Kids      []*N     `json:"kids,omitempty"`
	DisjMin   float64  `json:"dmin,omitempty"`
	Must      []*N     `json:"must,omitempty"`
	Should    []*N     `json:"should,omitempty"`
	MustNot   []*N     `json:"must_not,omitempty"`
	Filter    *N       `json:"filter,omitempty"`
	ShouldMin float64  `json:"smin,omitempty"`
	Boost     *float64 `json:"boost,omitempty"`
}

func (n *N) String() string {
	b, _ := json.Marshal(n)
	return string(b)
}

func (n *N) Clone() *N {
	var c N
	b, _ := json.Marshal(n)
	_ = json.Unmarshal(b, &c)
	return &c
}

func (n *N) Children() []*N {
	var out []*N
	out = append(out, n.Kids...)
	out = append(out, n.Must...)
	out = append(out, n.Should...)
	out = append(out, n.MustNot...)
	if n.Filter != nil {
		out = append(out, n.Filter)
	}
	return out
}

func (n *N) Size() int {
	s := 1
	for _, c := range n.Children() {
		s += c.Size()
	}
	return s
}

func (n *N) walk(f func(*N)) {
	f(n)
	for _, c := range n.Children() {
		c.walk(f)
	}
}

func fromQ(q *corpus.Q) *N {
	if q == nil {
		return nil
	}
	conv := func(qs []*corpus.Q) []*N {
		var out []*N
		for _, k := range qs {
			out = append(out, fromQ(k))
		}
		return out
	}
	n := &N{
		Kind: q.Kind, Field: q.Field, Text: q.Text, Terms: q.Terms, And: q.And, Fuzz: q.Fuzz, PLen: q.PLen,
		Min: q.Min, Max: q.Max, IncMin: q.IncMin, IncMax: q.IncMax, MinS: q.MinS, MaxS: q.MaxS,
		Start: q.Start, End: q.End, Bool: q.Bool, IDs: q.IDs,
		Kids: conv(q.Kids), DisjMin: float64(q.DisjMin), Must: conv(q.Must), Should: conv(q.Should),
		MustNot: conv(q.MustNot), Filter: fromQ(q.Filter), ShouldMin: float64(q.ShouldMin),
	}
	if q.Boost != 0 {
		n.Boost = fp(q.Boost)
	}
	return n.Clone()
}

func parseT(s string) time.Time {
	if s == "" {
		return time.Time{}
	}
	t, err := time.Parse(time.RFC3339Nano, s)
	if err != nil {
		panic(err)
	}
	return t
}

type fuzzSetter interface {
	SetFuzziness(int)
	SetAutoFuzziness(bool)
}

// Bleve builds the real query through the public constructors and setters.
func (n *N) Bleve() query.Query {
	var out query.Query
	kids := func(ns []*N) []query.Query {
		var r []query.Query
		for _, k := range ns {
			r = append(r, k.Bleve())
		}
		return r
	}
	setFuzz := func(q fuzzSetter) {
		if n.Auto {
			q.SetAutoFuzziness(true)
		} else {
			q.SetFuzziness(n.Fuzz)
		}
	}
	switch n.Kind {
	case "term":
		out = bleve.NewTermQuery(n.Text)
	case "match":
		mq := bleve.NewMatchQuery(n.Text)
		if n.And {
			mq.SetOperator(query.MatchQueryOperatorAnd)
		} else if n.OpSet {
			mq.SetOperator(query.MatchQueryOperatorOr)
		}
		setFuzz(mq)
		mq.SetPrefix(n.PLen)
		mq.Analyzer = n.An
		out = mq
	case "matchphrase":
		mp := bleve.NewMatchPhraseQuery(n.Text)
		mp.Analyzer = n.An
		if n.Auto || n.Fuzz != 0 {
			setFuzz(mp)
		}
		out = mp
	case "phrase":
		pq := bleve.NewPhraseQuery(n.Terms, n.Field)
		if n.Auto || n.Fuzz != 0 {
			setFuzz(pq)
		}
		out = pq
	case "multiphrase":
		pq := query.NewMultiPhraseQuery(n.Multi, n.Field)
		if n.Auto || n.Fuzz != 0 {
			setFuzz(pq)
		}
		out = pq
	case "prefix":
		out = bleve.NewPrefixQuery(n.Text)
	case "wildcard":
		out = bleve.NewWildcardQuery(n.Text)
	case "regexp":
		out = bleve.NewRegexpQuery(n.Text)
	case "fuzzy":
		fq := bleve.NewFuzzyQuery(n.Text)
		setFuzz(fq)
		fq.SetPrefix(n.PLen)
		out = fq
	case "termrange":
		out = bleve.NewTermRangeInclusiveQuery(n.MinS, n.MaxS, n.IncMin, n.IncMax)
	case "numrange":
		out = bleve.NewNumericRangeInclusiveQuery(n.Min, n.Max, n.IncMin, n.IncMax)
	case "daterange":
		out = bleve.NewDateRangeInclusiveQuery(parseT(n.Start), parseT(n.End), n.IncMin, n.IncMax)
	case "datestr":
		dq := bleve.NewDateRangeInclusiveStringQuery(n.Start, n.End, n.IncMin, n.IncMax)
		if n.Parser != "" {
			dq.SetDateTimeParser(n.Parser)
		}
		out = dq
	case "boolfield":
		out = bleve.NewBoolFieldQuery(n.Bool)
	case "docid":
		out = bleve.NewDocIDQuery(n.IDs)
	case "all":
		out = bleve.NewMatchAllQuery()
	case "none":
		out = bleve.NewMatchNoneQuery()
	case "qstring":
		out = bleve.NewQueryStringQuery(n.Text)
	case "conj":
		out = bleve.NewConjunctionQuery(kids(n.Kids)...)
	case "disj":
		dq := bleve.NewDisjunctionQuery(kids(n.Kids)...)
		dq.SetMin(n.DisjMin)
		out = dq
	case "bool":
		bq := query.NewBooleanQuery(kids(n.Must), kids(n.Should), kids(n.MustNot))
		if len(n.Should) > 0 {
			bq.SetMinShould(n.ShouldMin)
		}
		if n.Filter != nil {
			bq.AddFilter(n.Filter.Bleve())
		}
		out = bq
	default:
		panic("unknown kind " + n.Kind)
	}
	if n.Field != "" && n.Kind != "phrase" && n.Kind != "multiphrase" {
		if fs, ok := out.(query.FieldableQuery); ok {
			fs.SetField(n.Field)
		}
	}
	if n.Boost != nil {
		if bs, ok := out.(query.BoostableQuery); ok {
			bs.SetBoost(*n.Boost)
		}
	}
	return out
}

// ---------------------------------------------------------------------------
// decoration: options the shared generator lacks

var boosts = []float64{2, 3, 0.5, 1.5, 10, 1, 0.1, 7.25, 1e-3, 123456.789}

var analyzers = []string{"standard", "simple", "keyword", "en", "web"}

func subSecond(g *rng.Rand, s string) string {
	if s == "" {
		return s
	}
	t := parseT(s)
	frac := []time.Duration{500 * time.Millisecond, 1 * time.Millisecond, 999999999 * time.Nanosecond, 250 * time.Microsecond, 1 * time.Nanosecond}
	return t.Add(rng.Pick(g, frac)).Format(time.RFC3339Nano)
}

// datestr spellings of an instant for the parsers of the probe mapping.
func dateSpelling(g *rng.Rand, t time.Time) (text, parser string) {
	switch g.Intn(8) {
	case 0:
		return t.Format("2006-01-02"), ""
	case 1:
		return t.Add(time.Duration(g.Range(0, 86399)) * time.Second).Format("2006-01-02 15:04:05"), ""
	case 2:
		return t.Add(time.Duration(g.Range(1, 999)) * time.Millisecond).Format(time.RFC3339Nano), ""
	case 3:
		return t.In(time.FixedZone("x", 19800)).Format(time.RFC3339), ""
	case 4:
		return t.Add(time.Duration(g.Range(0, 86399)) * time.Second).Format(customDateLayouts[0]), customDateParser
	case 5:
		return t.Format(customDateLayouts[1]), customDateParser
	case 6:
		return fmt.Sprint(t.UnixMilli() + int64(g.Range(0, 999))), "unix_milli"
	default:
		return fmt.Sprint(t.Unix()), "unix_sec"
	}
}

func (x *gen) decorate(n *N) {
	g := x.g
	n.walk(func(n *N) {
		if g.Chance(1, 4) {
			n.Boost = fp(rng.Pick(g, boosts))
		}
		switch n.Kind {
		case "match":
			if g.Chance(1, 5) {
				n.Auto, n.Fuzz = true, 0
			}
			if g.Chance(1, 5) {
				n.An = rng.Pick(g, analyzers)
			}
			if !n.And && g.Chance(1, 4) {
				n.OpSet = true
			}
		case "matchphrase":
			switch g.Intn(6) {
			case 0:
				n.Auto = true
			case 1:
				n.Fuzz = 1
			}
			if g.Chance(1, 5) {
				n.An = rng.Pick(g, analyzers)
			}
		case "phrase":
			switch g.Intn(8) {
			case 0:
				n.Auto = true
			case 1:
				n.Fuzz = 1
			case 2, 3:
				n.Kind = "multiphrase"
				for _, t := range n.Terms {
					alts := []string{t}
					if t != "" && g.Bool() {
						alts = append(alts, rng.Pick(g, corpus.Words))
					}
					if t == "" {
						alts = nil
					}
					n.Multi = append(n.Multi, alts)
				}
				n.Terms = nil
			}
		case "fuzzy":
			if g.Chance(1, 4) {
				n.Auto, n.Fuzz = true, 0
			}
		case "numrange":
			if g.Chance(1, 6) {
				// short mantissas only: a closed range between two "ugly" neighbours makes the
				// numeric range searcher enumerate astronomically many candidate terms (C07)
				// (also -0 next to 0: their images are adjacent int64 values)
				v := []float64{-2.5, 30.5, -100.5, 1000000}
				if n.Min != nil {
					n.Min = fp(rng.Pick(g, v))
				} else {
					n.Max = fp(rng.Pick(g, v))
				}
			}
		case "daterange":
			switch g.Intn(4) {
			case 0: // sub-second endpoints
				if g.Bool() || n.End == "" {
					n.Start = subSecond(g, n.Start)
				}
				if g.Bool() || n.Start == "" {
					n.End = subSecond(g, n.End)
				}
			case 1: // another time zone (same instants)
				z := time.FixedZone("x", rng.Pick(g, []int{19800, -18000, 3600}))
				if n.Start != "" {
					n.Start = parseT(n.Start).In(z).Format(time.RFC3339Nano)
				}
				if n.End != "" {
					n.End = parseT(n.End).In(z).Format(time.RFC3339Nano)
				}
			case 2: // the string form with a parser
				n.Kind = "datestr"
				var ps, pe string
				if n.Start != "" {
					n.Start, ps = dateSpelling(g, parseT(n.Start))
				}
				if n.End != "" {
					n.End, pe = dateSpelling(g, parseT(n.End))
					if n.Start != "" && pe != ps { // one parser per query
						n.End, pe = "", ""
					}
				}
				n.Parser = ps
				if n.Start == "" {
					n.Parser = pe
				}
			}
		case "disj":
			if len(n.Kids) > 1 && g.Chance(1, 6) {
				n.DisjMin += 0.5
			}
		case "bool":
			if len(n.Should) > 1 && g.Chance(1, 8) {
				n.ShouldMin = 1.5
			}
		case "term":
			if g.Chance(1, 12) {
				n.Text = rng.Pick(g, []string{"", "Ünï", "a\"b\\c", " x", "<tag>&", "\x00nul"})
			}
			if n.Field == "" && g.Chance(1, 3) {
				*n = N{Kind: "qstring", Text: x.grammarString(), Boost: n.Boost}
			}
		}
	})
}

// ---------------------------------------------------------------------------
// signature, non-triviality, shrinking

// opts lists the options of a node that are away from their defaults.
func (n *N) opts() []string {
	var o []string
	if n.Boost != nil {
		o = append(o, "boost")
	}
	if n.Auto {
		o = append(o, "auto-fuzzy")
	}
	if n.Fuzz != 0 && n.Kind != "fuzzy" {
		o = append(o, "fuzzy")
	}
	if n.PLen != 0 {
		o = append(o, "prefix-len")
	}
	if n.An != "" {
		o = append(o, "analyzer")
	}
	if n.And {
		o = append(o, "and")
	}
	if n.OpSet {
		o = append(o, "or-explicit")
	}
	if n.IncMin != nil || n.IncMax != nil {
		o = append(o, "inclusive-flags")
	}
	switch n.Kind {
	case "numrange":
		if n.Min == nil || n.Max == nil {
			o = append(o, "open")
		}
	case "termrange":
		if n.MinS == "" || n.MaxS == "" {
			o = append(o, "open")
		}
	case "daterange":
		if n.Start == "" || n.End == "" {
			o = append(o, "open")
		}
		for _, s := range []string{n.Start, n.End} {
			if s != "" && parseT(s).Nanosecond() != 0 {
				o = append(o, "sub-second")
			}
			if s != "" && !strings.HasSuffix(s, "Z") {
				o = append(o, "zone")
			}
		}
	case "datestr":
		if n.Parser != "" {
			o = append(o, "parser="+n.Parser)
		}
	case "disj":
		if n.DisjMin != 0 {
			o = append(o, "min")
		}
		if n.DisjMin != float64(int(n.DisjMin)) {
			o = append(o, "min-fractional")
		}
	case "bool":
		if n.ShouldMin != 0 {
			o = append(o, "min-should")
		}
	case "phrase":
		for _, t := range n.Terms {
			if t == "" {
				o = append(o, "gap")
			}
		}
	}
	return dedupSorted(o)
}

// sig is the narrow syntactic class of a (shrunk) tree.
func (n *N) sig() string {
	s := n.Kind
	if o := n.opts(); len(o) > 0 {
		s += "[" + strings.Join(o, ",") + "]"
	}
	part := func(name string, ns []*N) string {
		if len(ns) == 0 {
			return ""
		}
		var ks []string
		for _, k := range ns {
			ks = append(ks, k.sig())
		}
		return name + "(" + strings.Join(dedupSorted(ks), ",") + ")"
	}
	var parts []string
	for _, p := range []string{part("", n.Kids), part("must", n.Must), part("should", n.Should), part("must_not", n.MustNot)} {
		if p != "" {
			parts = append(parts, p)
		}
	}
	if n.Filter != nil {
		parts = append(parts, "filter("+n.Filter.sig()+")")
	}
	return s + strings.Join(parts, "")
}

func (n *N) kinds() map[string]int {
	m := map[string]int{}
	n.walk(func(x *N) { m[x.Kind]++ })
	return m
}

// nontrivial: at least two distinct node kinds or an option away from its default.
func (n *N) nontrivial() bool {
	if len(n.kinds()) >= 2 {
		return true
	}
	nt := false
	n.walk(func(x *N) {
		if len(x.opts()) > 0 {
			nt = true
		}
	})
	return nt
}

func truncSec(s string) string {
	if s == "" {
		return s
	}
	return parseT(s).Truncate(time.Second).Format(time.RFC3339Nano)
}

// candidates returns simpler variants of n (for shrinking).
func candidates(n *N) []*N {
	var out []*N
	for _, c := range n.Children() {
		out = append(out, c.Clone())
	}
	dropFrom := func(get func(*N) *[]*N) {
		k := len(*get(n))
		for i := 0; i < k; i++ {
			c := n.Clone()
			l := get(c)
			*l = append((*l)[:i:i], (*l)[i+1:]...)
			if (c.Kind == "conj" || c.Kind == "disj") && len(c.Kids) == 0 {
				continue
			}
			if c.Kind == "disj" && c.DisjMin > float64(len(c.Kids)) {
				c.DisjMin = float64(len(c.Kids))
			}
			if c.Kind == "bool" {
				if c.ShouldMin > float64(len(c.Should)) {
					c.ShouldMin = float64(len(c.Should))
				}
				if len(c.Must)+len(c.Should)+len(c.MustNot) == 0 && c.Filter == nil {
					continue
				}
			}
			out = append(out, c)
		}
	}
	dropFrom(func(x *N) *[]*N { return &x.Kids })
	dropFrom(func(x *N) *[]*N { return &x.Must })
	dropFrom(func(x *N) *[]*N { return &x.Should })
	dropFrom(func(x *N) *[]*N { return &x.MustNot })
	mod := func(cond bool, f func(c *N)) {
		if cond {
			c := n.Clone()
			f(c)
			out = append(out, c)
		}
	}
	mod(n.Filter != nil && len(n.Must)+len(n.Should)+len(n.MustNot) > 0, func(c *N) { c.Filter = nil })
	mod(n.Boost != nil, func(c *N) { c.Boost = nil })
	mod(n.Auto, func(c *N) { c.Auto = false })
	mod(n.Fuzz != 0 && n.Kind != "fuzzy", func(c *N) { c.Fuzz = 0 })
	mod(n.PLen != 0, func(c *N) { c.PLen = 0 })
	mod(n.An != "", func(c *N) { c.An = "" })
	mod(n.OpSet, func(c *N) { c.OpSet = false })
	mod(n.And, func(c *N) { c.And = false })
	mod(n.IncMin != nil, func(c *N) { c.IncMin = nil })
	mod(n.IncMax != nil, func(c *N) { c.IncMax = nil })
	mod(n.DisjMin > 0, func(c *N) { c.DisjMin = float64(int(c.DisjMin+0.5)) - 1 })
	mod(n.DisjMin != float64(int(n.DisjMin)), func(c *N) { c.DisjMin = float64(int(c.DisjMin)) })
	mod(n.ShouldMin > 0, func(c *N) { c.ShouldMin = float64(int(c.ShouldMin+0.5)) - 1 })
	if n.Kind == "daterange" {
		mod(n.Start != "" && n.End != "", func(c *N) { c.Start = "" })
		mod(n.Start != "" && n.End != "", func(c *N) { c.End = "" })
		mod(n.Start != "" && truncSec(n.Start) != n.Start, func(c *N) { c.Start = truncSec(c.Start) })
		mod(n.End != "" && truncSec(n.End) != n.End, func(c *N) { c.End = truncSec(c.End) })
	}
	if n.Kind == "datestr" || n.Kind == "termrange" || n.Kind == "numrange" {
		mod((n.Start != "" && n.End != "") || (n.MinS != "" && n.MaxS != "") || (n.Min != nil && n.Max != nil),
			func(c *N) { c.Start, c.MinS, c.Min = "", "", nil })
		mod((n.Start != "" && n.End != "") || (n.MinS != "" && n.MaxS != "") || (n.Min != nil && n.Max != nil),
			func(c *N) { c.End, c.MaxS, c.Max = "", "", nil })
	}
	if n.Kind == "docid" && len(n.IDs) > 1 {
		for i := range n.IDs {
			c := n.Clone()
			c.IDs = append(c.IDs[:i:i], c.IDs[i+1:]...)
			out = append(out, c)
		}
	}
	recurse := func(get func(*N) []*N) {
		for i, k := range get(n) {
			for _, kc := range candidates(k) {
				c := n.Clone()
				get(c)[i] = kc
				out = append(out, c)
			}
		}
	}
	recurse(func(x *N) []*N { return x.Kids })
	recurse(func(x *N) []*N { return x.Must })
	recurse(func(x *N) []*N { return x.Should })
	recurse(func(x *N) []*N { return x.MustNot })
	if n.Filter != nil {
		for _, kc := range candidates(n.Filter) {
			c := n.Clone()
			c.Filter = kc
			out = append(out, c)
		}
	}
	return out
}

func shrinkN(n *N, fails func(*N) bool) *N {
	cur := n.Clone()
	for changed, rounds := true, 0; changed && rounds < 200; rounds++ {
		changed = false
		for _, cand := range candidates(cur) {
			if cand.String() == cur.String() {
				continue
			}
			if fails(cand) {
				cur, changed = cand, true
				break
			}
		}
	}
	return cur
}

func sortedKeys(m map[string]int) []string {
	var out []string
	for k := range m {
		out = append(out, k)
	}
	sort.Strings(out)
	return out
}
