package c17

import (
	"verifharness/corpus"
	"verifharness/ev"
)

// regress replays, on every run, the minimal inputs of defects this monitor has
// established, so that they are reported again (same class) if they are present.
func regress(r *ev.Run) {
	// F3: DateRangeQuery JSON drops the sub-second part of its endpoints
	// (BleveQueryTime.MarshalJSON formats with QueryDateTimeFormat = time.RFC3339).
	docs := []*corpus.Doc{
		{ID: "r1", Fields: map[string]any{"title": "alpha", "date": "2020-01-01T00:00:00Z"}},
		{ID: "r2", Fields: map[string]any{"title": "beta", "date": "2020-01-01T00:00:00.7Z"}},
		{ID: "r3", Fields: map[string]any{"title": "gamma", "date": "2020-01-01T00:00:01Z"}},
	}
	p, err := fixedProbe("regress-F3", docs)
	if err != nil {
		r.Violation("setup-error", err.Error(), nil)
		return
	}
	defer p.idx.Close()
	trees := []*N{
		{Kind: "daterange", Field: "date", Start: "2020-01-01T00:00:00.5Z"},                                 // r2 r3 ; truncated: r1 r2 r3
		{Kind: "daterange", Field: "date", End: "2020-01-01T00:00:00.5Z"},                                   // r1 ; truncated: none
		{Kind: "daterange", Field: "date", Start: "2020-01-01T00:00:00.5Z", End: "2020-01-01T00:00:00.9Z"},  // r2 ; truncated: none
		{Kind: "daterange", Field: "date", End: "2020-01-01T00:00:00.7Z", IncMax: bp(true)},                 // r1 r2 ; truncated: r1
		{Kind: "daterange", Field: "date", Start: "2020-01-01T05:30:00.000000001+05:30", IncMin: bp(false)}, // r2 r3
		{Kind: "conj", Kids: []*N{{Kind: "all"}, {Kind: "daterange", Field: "date", Start: "2020-01-01T00:00:00.5Z"}}},
		// whole-second text (what the RFC3339 format always produced) must keep working
		{Kind: "daterange", Field: "date", Start: "2020-01-01T00:00:01Z"},
		{Kind: "daterange", Field: "date", Start: "2020-01-01T05:30:00+05:30", End: "2020-01-01T00:00:01Z", IncMax: bp(true)},
	}
	for _, n := range trees {
		checkJSON(r, []*probe{p}, n, false)
	}

	// S1: a SortField on a field whose name the simplified sort syntax would interpret
	// ("-neg" = "neg, descending") marshals to that simplified syntax.
	sdocs := []*corpus.Doc{
		{ID: "s1", Fields: map[string]any{"title": "alpha", signField: 3.0}},
		{ID: "s2", Fields: map[string]any{"title": "alpha", signField: 1.0}},
		{ID: "s3", Fields: map[string]any{"title": "alpha", signField: 2.0}},
	}
	sp, err := fixedProbe("regress-S1", sdocs)
	if err != nil {
		r.Violation("setup-error", err.Error(), nil)
		return
	}
	defer sp.idx.Close()
	for _, desc := range []bool{false, true} {
		checkRequest(r, sp, &reqSpec{Q: &N{Kind: "all"}, Size: 10, Sort: []sortSpec{{Kind: "field", Field: signField, Desc: desc}}}, false)
	}
	// the object form of the same sort and the plain simplified forms keep working
	checkRequest(r, sp, &reqSpec{Q: &N{Kind: "all"}, Size: 10, Sort: []sortSpec{{Kind: "field", Field: signField, Missing: 1}}}, false)
	checkRequest(r, sp, &reqSpec{Q: &N{Kind: "all"}, Size: 10, Sort: []sortSpec{{Kind: "str", Str: "-title"}, {Kind: "str", Str: "_id"}}}, false)
}
