// Package c18 monitors property C18: geo point queries (distance, bounding box, polygon) match
// exactly the documents that have a point inside the shape, on scorch, scorch+s2 and upsidedown;
// the point encoding round-trips within its resolution; geo-distance sort orders by distance.
package c18

import (
	"fmt"
	"math"
	"os"
	"path/filepath"
	"runtime"
	"runtime/debug"
	"sort"
	"strconv"
	"strings"
	"sync"
	"sync/atomic"

	"github.com/blevesearch/bleve/v2"
	"github.com/blevesearch/bleve/v2/geo"
	"github.com/blevesearch/bleve/v2/index/scorch"
	"github.com/blevesearch/bleve/v2/index/upsidedown"
	"github.com/blevesearch/bleve/v2/index/upsidedown/store/gtreap"
	"github.com/blevesearch/bleve/v2/mapping"
	"github.com/blevesearch/bleve/v2/search"
	"github.com/blevesearch/bleve/v2/search/query"

	"verifharness/ev"
	"verifharness/rng"
)

func init() { ev.Register("C18", "exploration", run) }

var engineNames = []string{"scorch", "scorch+s2", "upsidedown/gtreap"}

func buildMapping() mapping.IndexMapping {
	im := bleve.NewIndexMapping()
	dm := bleve.NewDocumentStaticMapping()
	dm.AddFieldMappingsAt("p", bleve.NewGeoPointFieldMapping())
	dm.AddFieldMappingsAt("mp", bleve.NewGeoPointFieldMapping())
	im.DefaultMapping = dm
	return im
}

var dirSeq atomic.Int64

// openEngine creates an empty index of the given engine; disk applies to the scorch engines only.
func openEngine(r *ev.Run, name string, disk bool) (bleve.Index, error) {
	path := ""
	if disk && name != "upsidedown/gtreap" {
		path = filepath.Join(r.TempDir(), fmt.Sprintf("ix%d", dirSeq.Add(1)))
	}
	switch name {
	case "scorch":
		return bleve.NewUsing(path, buildMapping(), scorch.Name, scorch.Name, nil)
	case "scorch+s2":
		return bleve.NewUsing(path, buildMapping(), scorch.Name, scorch.Name, map[string]interface{}{"spatialPlugin": "s2"})
	default:
		return bleve.NewUsing("", buildMapping(), upsidedown.Name, gtreap.Name, nil)
	}
}

func closeEngine(ix bleve.Index, disk bool) {
	name := ix.Name()
	_ = ix.Close()
	if disk && name != "" {
		_ = os.RemoveAll(name)
	}
}

func loadDocs(ix bleve.Index, docs []*Doc, batch int) error {
	if batch <= 0 {
		batch = 50
	}
	b := ix.NewBatch()
	for i, d := range docs {
		if err := b.Index(d.ID, d.Body()); err != nil {
			return err
		}
		if (i+1)%batch == 0 {
			if err := ix.Batch(b); err != nil {
				return err
			}
			b = ix.NewBatch()
		}
	}
	if b.Size() > 0 {
		return ix.Batch(b)
	}
	return nil
}

func buildQuery(s *Shape, field string) query.Query {
	switch s.Kind {
	case "circle":
		q := bleve.NewGeoDistanceQuery(s.Center.Lon, s.Center.Lat, strconv.FormatFloat(s.DistVal, 'f', -1, 64)+s.Unit)
		q.SetField(field)
		return q
	case "box":
		q := bleve.NewGeoBoundingBoxQuery(s.TL.Lon, s.TL.Lat, s.BR.Lon, s.BR.Lat)
		q.SetField(field)
		return q
	default:
		pts := make([]geo.Point, len(s.Poly))
		for i, p := range s.Poly {
			pts[i] = geo.Point{Lon: p.Lon, Lat: p.Lat}
		}
		q := query.NewGeoBoundingPolygonQuery(pts)
		q.SetField(field)
		return q
	}
}

// searchIDs runs the query and returns the set of matching ids.
func searchIDs(ix bleve.Index, q query.Query, size int) (ids map[string]bool, err error, panicked string) {
	p, val, stack := ev.Guard(func() {
		req := bleve.NewSearchRequestOptions(q, size, 0, false)
		req.SortBy([]string{"_id"})
		var res *bleve.SearchResult
		res, err = ix.Search(req)
		if err != nil {
			return
		}
		ids = make(map[string]bool, len(res.Hits))
		for _, h := range res.Hits {
			ids[h.ID] = true
		}
		if int(res.Total) != len(res.Hits) {
			err = fmt.Errorf("total %d but %d hits returned with size %d", res.Total, len(res.Hits), size)
		}
	})
	if p {
		return nil, nil, fmt.Sprintf("%v\n%s", val, stack)
	}
	return ids, err, ""
}

// expectation of one (shape, field) over a document set
type expectation struct {
	st       map[string]status
	nIn      int
	nOut     int
	nDC      int
	boundary bool // some clearly judged point lies in a boundary cell of the shape
}

func expect(s *Shape, field string, docs []*Doc) *expectation {
	e := &expectation{st: make(map[string]status, len(docs))}
	for _, d := range docs {
		pts := d.points(field)
		st := s.ClassifyDoc(pts)
		e.st[d.ID] = st
		switch st {
		case stIn:
			e.nIn++
		case stOut:
			e.nOut++
		default:
			e.nDC++
		}
		if !e.boundary && st != stDC {
			for _, p := range pts {
				if s.Classify(p) != stDC && s.onBoundaryCell(p) {
					e.boundary = true
					break
				}
			}
		}
	}
	return e
}

type failure struct {
	dir string // miss | extra
	id  string
}

func judge(e *expectation, got map[string]bool) []failure {
	var fs []failure
	for id, st := range e.st {
		switch {
		case st == stIn && !got[id]:
			fs = append(fs, failure{"miss", id})
		case st == stOut && got[id]:
			fs = append(fs, failure{"extra", id})
		}
	}
	for id := range got {
		if _, ok := e.st[id]; !ok {
			fs = append(fs, failure{"extra", id})
		}
	}
	sort.Slice(fs, func(i, j int) bool { return fs[i].id < fs[j].id })
	return fs
}

// Witness is a self-contained failing (or regression) case.
type Witness struct {
	Name     string   `json:"name,omitempty"`
	Engine   string   `json:"engine"`
	Field    string   `json:"field"`
	Shape    *Shape   `json:"shape"`
	Docs     []*Doc   `json:"docs"`
	Batch    int      `json:"batch,omitempty"`
	Disk     bool     `json:"disk,omitempty"`
	Dir      string   `json:"direction,omitempty"`
	DocID    string   `json:"doc_id,omitempty"`
	Expected string   `json:"expected,omitempty"`
	Observed string   `json:"observed,omitempty"`
	Detail   []string `json:"detail,omitempty"`
}

// runOnce builds a fresh index with the docs and returns the failures of the case.
func runOnce(r *ev.Run, engine string, disk bool, batch int, field string, s *Shape, docs []*Doc) (fs []failure, problem string) {
	ix, err := openEngine(r, engine, disk)
	if err != nil {
		return nil, "open: " + err.Error()
	}
	defer closeEngine(ix, disk)
	if err := loadDocs(ix, docs, batch); err != nil {
		return nil, "index: " + err.Error()
	}
	got, err, pan := searchIDs(ix, buildQuery(s, field), len(docs)+10)
	if pan != "" {
		return nil, "panic: " + pan
	}
	if err != nil {
		return nil, "search: " + err.Error()
	}
	return judge(expect(s, field, docs), got), ""
}

func hasDir(fs []failure, dir string) bool {
	for _, f := range fs {
		if f.dir == dir {
			return true
		}
	}
	return false
}

// shrink reduces the document set (and the points of the remaining documents) while a failure of
// the same direction persists on a freshly built index of the same engine.
func shrink(r *ev.Run, w *Witness) {
	// upsidedown visits the values of a document in the (randomised) order of a Go map, so a failure that
	// depends on the visiting order shows up only in a share of the rebuilds: retry before calling it gone.
	attempts := 2
	if w.Engine == "upsidedown/gtreap" {
		attempts = 6
	}
	lastID := w.DocID
	fails := func(docs []*Doc) bool {
		for a := 0; a < attempts; a++ {
			fs, prob := runOnce(r, w.Engine, false, 0, w.Field, w.Shape, docs)
			if prob != "" {
				return false
			}
			for _, f := range fs {
				if f.dir == w.Dir {
					lastID = f.id
					return true
				}
			}
		}
		return false
	}
	docs := w.Docs
	var target *Doc
	for _, d := range docs {
		if d.ID == w.DocID {
			target = d
		}
	}
	if target != nil && fails([]*Doc{target}) {
		docs = []*Doc{target}
	} else if fails(docs) {
		// delta debugging on the document list
		n := 2
		for len(docs) >= 2 {
			chunk := (len(docs) + n - 1) / n
			reduced := false
			for i := 0; i < len(docs); i += chunk {
				end := i + chunk
				if end > len(docs) {
					end = len(docs)
				}
				rest := append(append([]*Doc{}, docs[:i]...), docs[end:]...)
				if len(rest) > 0 && fails(rest) {
					docs = rest
					if n > 2 {
						n--
					}
					reduced = true
					break
				}
			}
			if !reduced {
				if chunk == 1 {
					break
				}
				n *= 2
				if n > len(docs) {
					n = len(docs)
				}
			}
		}
	} else {
		return // not reproducible on a fresh in-memory index of this engine: keep the full witness
	}
	// strip the other field and drop points one at a time
	for i := range docs {
		c := *docs[i]
		if w.Field == "mp" {
			c.P = nil
		} else {
			c.MP = nil
		}
		try := append([]*Doc{}, docs...)
		try[i] = &c
		if fails(try) {
			docs = try
		}
		if w.Field == "mp" {
			for k := 0; k < len(docs[i].MP); {
				c := *docs[i]
				c.MP = append(append([]PV{}, docs[i].MP[:k]...), docs[i].MP[k+1:]...)
				try := append([]*Doc{}, docs...)
				try[i] = &c
				if fails(try) {
					docs = try
				} else {
					k++
				}
			}
		}
		// plain form of the values
		c2 := *docs[i]
		c2.P = plain(c2.P)
		c2.MP = plain(c2.MP)
		try = append([]*Doc{}, docs...)
		try[i] = &c2
		if fails(try) {
			docs = try
		}
	}
	if fails(docs) { // sets lastID to a document that fails in the final document set
		w.Docs, w.DocID = docs, lastID
		w.Batch, w.Disk = 0, false
	}
}

func plain(vs []PV) []PV {
	out := make([]PV, len(vs))
	for i, v := range vs {
		out[i] = PV{P: v.P, Form: 0}
	}
	return out
}

// classOf derives the violation class from the shrunk witness.
func classOf(w *Witness) string {
	maxPts := 0
	for _, d := range w.Docs {
		if d.ID == w.DocID {
			maxPts = len(d.points(w.Field))
		}
	}
	kind := w.Shape.Kind
	if maxPts >= 2 {
		// only reproducible with several values in the field: the per-kind doc-value filter
		return w.Dir + "/" + kind + "/multi-valued"
	}
	c := w.Dir + "/" + kind + "/single-valued/" + w.Engine
	if w.Shape.crossesDateLine() {
		c += "/dateline"
	}
	if containsPole(w.Shape) {
		c += "/pole"
	}
	if len(w.Docs) > 1 {
		c += "/needs-other-docs"
	}
	return c
}

func describe(w *Witness) {
	w.Detail = nil
	for _, d := range w.Docs {
		var parts []string
		for _, p := range d.points(w.Field) {
			x := w.Shape.Classify(p).String()
			if w.Shape.Kind == "circle" {
				x += fmt.Sprintf(" d=%.3fm", havDist(w.Shape.Center, p))
			}
			parts = append(parts, fmt.Sprintf("(%v,%v):%s", p.Lon, p.Lat, x))
		}
		w.Detail = append(w.Detail, fmt.Sprintf("%s.%s = [%s]", d.ID, w.Field, strings.Join(parts, " ")))
	}
	if w.Shape.Kind == "circle" {
		w.Detail = append(w.Detail, fmt.Sprintf("radius=%.3fm", w.Shape.RadiusM()))
	}
}

type reporter struct {
	r    *ev.Run
	mu   sync.Mutex
	prov map[string]string // provisional key → class of the first (shrunk) witness
}

func (rp *reporter) report(w *Witness) {
	// provisional key: later failures with the same key are counted under the class of the first, shrunk
	// witness. The number of values of the failing document is part of the key so that a failure of a
	// one-valued document is never filed under a multi-valued class.
	nv := 0
	for _, d := range w.Docs {
		if d.ID == w.DocID {
			nv = len(d.points(w.Field))
		}
	}
	key := strings.Join([]string{w.Dir, w.Shape.Kind, w.Engine, w.Field, fmt.Sprint(nv >= 2)}, "|")
	rp.mu.Lock()
	class, seen := rp.prov[key]
	if !seen {
		rp.prov[key] = "" // claimed; others wait for nothing, they just count under a generic key until set
	}
	rp.mu.Unlock()
	if seen && class != "" {
		rp.r.Violation(class, "another case of the same class", nil)
		return
	}
	if seen {
		return // the first witness of this key is being shrunk right now
	}
	shrink(rp.r, w)
	describe(w)
	class = classOf(w)
	if w.Dir == "miss" {
		w.Expected, w.Observed = w.DocID+" matches", w.DocID+" not returned"
	} else {
		w.Expected, w.Observed = w.DocID+" does not match", w.DocID+" returned"
	}
	rp.mu.Lock()
	rp.prov[key] = class
	rp.mu.Unlock()
	rp.r.Violation(class, fmt.Sprintf("%s on %s field %s: %s query, expected %s, observed %s; %s",
		w.Dir, w.Engine, w.Field, w.Shape.Kind, w.Expected, w.Observed, strings.Join(w.Detail, "; ")), w)
}

func (rp *reporter) problem(kind, engine, field string, s *Shape, docs []*Doc, prob string) {
	cls := "error/"
	if strings.HasPrefix(prob, "panic:") {
		cls = "panic/"
	}
	rp.r.Violation(cls+kind+"/"+engine, firstLine(prob), &Witness{Engine: engine, Field: field, Shape: s, Docs: docs, Observed: prob})
}

func firstLine(s string) string {
	if i := strings.IndexByte(s, '\n'); i >= 0 {
		return s[:i]
	}
	return s
}

// ---------------------------------------------------------------------------------------------

func run(r *ev.Run) {
	r.Rule = "case = one geo query (distance 1 m…8000 km, a few up to 19000 km, in assorted units | bounding box incl. date-line crossing, pole touching, " +
		"zero-width, grid-aligned | simple polygon, both orientations) on one field (single-valued p | multi-valued mp) of one engine " +
		"(scorch, scorch+s2, upsidedown/gtreap) over a generated world (theme date line / poles / origin / mid-latitude / globe; points just " +
		"past the don't-care band on both sides of every queried boundary, points on binary grid lines of the encoding, ±180, ±90; values " +
		"written as map, array, \"lat,lon\" string or geohash). Key = world#/shape#/field/engine. Non-trivial: at least one document " +
		"clearly inside, one clearly outside, and one clearly judged point lying in a level-14 lon/lat grid cell that contains both sides " +
		"of the shape boundary. Extra evaluations: Morton/geohash round trips and geo-distance sort orders."
	r.Assumptions = []string{
		"circle: great-circle distance on the mean sphere (R=6371008.7714 m); points within 0.5 % of the radius + 0.25 m of the circle are not judged",
		"box: lon/lat intervals, longitudes modulo 360, bottomRight.lon < topLeft.lon means crossing the date line; points within 2e-6 degrees of an edge, and pole points for boxes reaching that pole, are not judged",
		"polygon: simple polygon in the lon/lat plane (|lat| <= 88, no date-line crossing, the API has no notation for it); points within 2e-6 degrees + 1.5 x the planar/great-circle deviation of an edge are not judged",
		"a document with no value in the field must not match; documents are indexed once (no updates/deletes: C01/C02 cover those)",
		"geo-distance sort is judged on the single-valued field only (the property does not say which point of a multi-valued field defines the distance)",
	}
	if r.ReplayPath != "" {
		replay(r)
		return
	}
	rp := &reporter{r: r, prov: map[string]string{}}
	// bleve's cell enumeration allocates heavily per query; the indexes are tiny, so trade memory for GC work
	debug.SetGCPercent(400)

	regression(r, rp)
	roundTrips(r)

	nWorlds := r.Scale(100, 2400)
	nShapes := r.Scale(14, 20)
	perShape := r.Scale(8, 10)
	workers := runtime.NumCPU()
	if workers > 16 {
		workers = 16
	}
	var wg sync.WaitGroup
	next := atomic.Int64{}
	for k := 0; k < workers; k++ {
		wg.Add(1)
		go func() {
			defer wg.Done()
			for {
				i := int(next.Add(1)) - 1
				if i >= nWorlds {
					return
				}
				g := r.Rng(fmt.Sprintf("world/%d", i))
				w := genWorld(g, nShapes, perShape)
				runWorld(r, rp, i, w)
			}
		}()
	}
	wg.Wait()
	r.MinDistinct = r.Scale(4000, 100000)
}

func runWorld(r *ev.Run, rp *reporter, wi int, w *World) {
	r.Count("worlds", 1)
	r.Count("worlds/"+w.Theme, 1)
	r.Count("docs", len(w.Docs))
	type exp2 struct{ p, mp *expectation }
	exps := make([]exp2, len(w.Shapes))
	for i, s := range w.Shapes {
		exps[i] = exp2{expect(s, "p", w.Docs), expect(s, "mp", w.Docs)}
	}
	for _, en := range engineNames {
		r.Journal(map[string]interface{}{"world": wi, "engine": en, "stage": "build"})
		ix, err := openEngine(r, en, w.Disk)
		if err != nil {
			r.Violation("error/open/"+en, err.Error(), nil)
			continue
		}
		if err := loadDocs(ix, w.Docs, w.Batch); err != nil {
			r.Violation("error/index/"+en, err.Error(), &Witness{Engine: en, Docs: w.Docs})
			closeEngine(ix, w.Disk)
			continue
		}
		for si, s := range w.Shapes {
			for _, field := range []string{"p", "mp"} {
				e := exps[si].p
				if field == "mp" {
					e = exps[si].mp
				}
				r.Journal(map[string]interface{}{"world": wi, "engine": en, "field": field, "shape": s})
				got, err, pan := searchIDs(ix, buildQuery(s, field), len(w.Docs)+10)
				key := fmt.Sprintf("w%d/s%d/%s/%s", wi, si, field, en)
				if pan != "" || err != nil {
					prob := pan
					if prob != "" {
						prob = "panic: " + prob
					} else {
						prob = "search: " + err.Error()
					}
					rp.problem(s.Kind, en, field, s, w.Docs, prob)
					r.Case(key, false)
					continue
				}
				nontrivial := e.nIn > 0 && e.nOut > 0 && e.boundary
				r.Case(key, nontrivial)
				r.Count("queries/"+s.Kind, 1)
				if nontrivial {
					r.Count("nontrivial/"+s.Kind+"/"+en, 1)
				}
				if s.crossesDateLine() {
					r.Count("queries/crossing-dateline/"+s.Kind, 1)
				}
				if containsPole(s) {
					r.Count("queries/containing-pole/"+s.Kind, 1)
				}
				r.Count("judged/must-match", e.nIn)
				r.Count("judged/must-not-match", e.nOut)
				r.Count("not-judged/in-band", e.nDC)
				fs := judge(e, got)
				if wi < 2 && si < 2 && en == "scorch" && field == "mp" {
					r.Sample(map[string]interface{}{"world": wi, "theme": w.Theme, "docs": len(w.Docs), "shape": s, "field": field,
						"engine": en, "must_match": e.nIn, "must_not_match": e.nOut, "in_band": e.nDC, "hits": len(got), "failures": len(fs)})
				}
				// report at most one miss and one extra per case
				seen := map[string]bool{}
				for _, f := range fs {
					if seen[f.dir] {
						continue
					}
					seen[f.dir] = true
					rp.report(&Witness{Engine: en, Field: field, Shape: s, Docs: w.Docs, Batch: w.Batch, Disk: w.Disk, Dir: f.dir, DocID: f.id})
				}
			}
		}
		sortChecks(r, wi, w, en, ix)
		closeEngine(ix, w.Disk)
	}
}

// ---------------------------------------------------------------------------------------------
// geo-distance sort

func sortChecks(r *ev.Run, wi int, w *World, en string, ix bleve.Index) {
	g := r.Rng(fmt.Sprintf("sort/%d", wi))
	byID := map[string]*Doc{}
	for _, d := range w.Docs {
		byID[d.ID] = d
	}
	for k := 0; k < 2; k++ {
		var c Pt
		if len(w.Shapes) > 0 && g.Bool() {
			s := w.Shapes[g.Intn(len(w.Shapes))]
			switch s.Kind {
			case "circle":
				c = s.Center
			case "box":
				c = s.TL
			default:
				c = s.Poly[0]
			}
		} else {
			c = Pt{float64(g.Range(-180, 180)), float64(g.Range(-90, 90))}
		}
		desc := k == 1
		unit := []string{"m", "km", "mi", "ft"}[g.Intn(4)]
		var hits search.DocumentMatchCollection
		var err error
		p, val, stack := ev.Guard(func() {
			sgd, e := search.NewSortGeoDistance("p", unit, c.Lon, c.Lat, desc)
			if e != nil {
				err = e
				return
			}
			req := bleve.NewSearchRequestOptions(bleve.NewMatchAllQuery(), len(w.Docs)+10, 0, false)
			req.SortByCustom(search.SortOrder{sgd})
			res, e := ix.Search(req)
			if e != nil {
				err = e
				return
			}
			hits = res.Hits
		})
		if p {
			r.Violation("panic/sort/"+en, fmt.Sprint(val), map[string]interface{}{"center": c, "stack": stack, "docs": w.Docs})
			continue
		}
		if err != nil {
			r.Violation("error/sort/"+en, err.Error(), map[string]interface{}{"center": c, "docs": w.Docs})
			continue
		}
		r.Evals(1)
		r.Count("sort/queries", 1)
		if len(hits) != len(w.Docs) {
			r.Violation("sort/hit-count/"+en, fmt.Sprintf("match-all returned %d of %d", len(hits), len(w.Docs)), nil)
			continue
		}
		// order: every hit with a point must come at a distance not smaller (asc) / not larger (desc) than
		// every earlier one, beyond the tolerance.
		tol := func(d float64) float64 { return 0.005*d + 1 }
		worst := math.Inf(-1) // asc: running max; desc: running min (negated)
		for i, h := range hits {
			d := byID[h.ID]
			if d == nil {
				r.Violation("sort/unknown-id/"+en, h.ID, nil)
				break
			}
			if len(d.P) == 0 {
				continue // no point, no distance: where such documents sort is not part of the property
			}
			dist := havDist(c, d.P[0].P)
			key := dist
			if desc {
				key = -dist
			}
			if key < worst && math.Abs(key-worst) > tol(math.Max(math.Abs(key), math.Abs(worst))) {
				r.Violation("sort/order/"+en, fmt.Sprintf("desc=%v: %s at rank %d has distance %.3f m, an earlier hit has %.3f m", desc, h.ID, i, dist, math.Abs(worst)),
					map[string]interface{}{"engine": en, "center": c, "desc": desc, "unit": unit, "doc": d, "docs": w.Docs})
				break
			}
			if key > worst {
				worst = key
			}
			// reported sort value
			if len(h.DecodedSort) == 1 {
				if v, err := strconv.ParseFloat(h.DecodedSort[0], 64); err == nil {
					vm := v * unitMetres[unit]
					if math.Abs(vm-dist) > tol(dist) {
						r.Violation("sort/value/"+en, fmt.Sprintf("%s: reported %.6f %s = %.3f m, true distance %.3f m", h.ID, v, unit, vm, dist),
							map[string]interface{}{"engine": en, "center": c, "unit": unit, "doc": d})
						break
					}
					r.Count("sort/values-checked", 1)
				}
			}
			r.Count("sort/ranks-checked", 1)
		}
	}
}

// ---------------------------------------------------------------------------------------------
// encoding round trips (pure functions of /repo/geo)

func roundTrips(r *ev.Run) {
	g := r.Rng("roundtrip")
	n := r.Scale(200000, 3000000)
	bad := 0
	check := func(p Pt) {
		h := geo.MortonHash(p.Lon, p.Lat)
		lon, lat := geo.MortonUnhashLon(h), geo.MortonUnhashLat(h)
		// truncating encoding: decoded value is at or just below the original, within one step
		if !(lon <= p.Lon+1e-9 && p.Lon-lon <= lonRes*1.001+1e-12 && lat <= p.Lat+1e-9 && p.Lat-lat <= latRes*1.001+1e-12) {
			bad++
			r.Violation("roundtrip/morton", fmt.Sprintf("(%v,%v) -> %#x -> (%v,%v)", p.Lon, p.Lat, h, lon, lat),
				map[string]interface{}{"point": p, "hash": h, "decoded": Pt{lon, lat}})
		}
		// idempotence at the resolution: re-encoding the decoded point moves at most one more step
		h2 := geo.MortonHash(lon, lat)
		lon2, lat2 := geo.MortonUnhashLon(h2), geo.MortonUnhashLat(h2)
		if math.Abs(lon2-lon) > lonRes*1.001 || math.Abs(lat2-lat) > latRes*1.001 {
			r.Violation("roundtrip/morton-reencode", fmt.Sprintf("(%v,%v) -> (%v,%v)", lon, lat, lon2, lat2), map[string]interface{}{"point": p})
		}
	}
	pts := make([]Pt, 0, n)
	for i := 0; i < n; i++ {
		p := Pt{360*g.Float64() - 180, 180*g.Float64() - 90}
		switch g.Intn(8) {
		case 0:
			p.Lon = rng.Pick(g, specialLons)
		case 1:
			p.Lat = rng.Pick(g, specialLats)
		case 2:
			p = Pt{snapLon(g, p.Lon), snapLat(g, p.Lat)}
		case 3:
			p = Pt{rng.Pick(g, specialLons), rng.Pick(g, specialLats)}
		}
		pts = append(pts, p)
		check(p)
	}
	// order preservation per axis
	for i := 0; i+1 < len(pts); i += 2 {
		a, b := pts[i], pts[i+1]
		la, lb := geo.MortonUnhashLon(geo.MortonHash(a.Lon, 0)), geo.MortonUnhashLon(geo.MortonHash(b.Lon, 0))
		if (a.Lon < b.Lon && la > lb) || (a.Lon > b.Lon && la < lb) {
			r.Violation("roundtrip/morton-order", fmt.Sprintf("lon %v vs %v decode to %v vs %v", a.Lon, b.Lon, la, lb), nil)
		}
		ta, tb := geo.MortonUnhashLat(geo.MortonHash(0, a.Lat)), geo.MortonUnhashLat(geo.MortonHash(0, b.Lat))
		if (a.Lat < b.Lat && ta > tb) || (a.Lat > b.Lat && ta < tb) {
			r.Violation("roundtrip/morton-order", fmt.Sprintf("lat %v vs %v decode to %v vs %v", a.Lat, b.Lat, ta, tb), nil)
		}
	}
	r.Evals(n)
	r.Count("roundtrip/morton", n)

	// geohash: encode → decode stays inside the 12-character cell; decode agrees with the reference decoder
	ng := n / 4
	for i := 0; i < ng; i++ {
		p := pts[i]
		h := geo.EncodeGeoHash(p.Lat, p.Lon)
		lat, lon := geo.DecodeGeoHash(h)
		if len(h) != 12 || math.Abs(lon-p.Lon) > 360.0/(1<<30)/2*1.001+1e-12 || math.Abs(lat-p.Lat) > 180.0/(1<<30)/2*1.001+1e-12 {
			r.Violation("roundtrip/geohash", fmt.Sprintf("(%v,%v) -> %q -> (%v,%v)", p.Lon, p.Lat, h, lon, lat), map[string]interface{}{"point": p, "hash": h})
		}
		hh := h[:g.Range(1, 12)]
		lat, lon = geo.DecodeGeoHash(hh)
		lon0, lon1, lat0, lat1, _ := geohashCell(hh)
		if math.Abs(lon-(lon0+lon1)/2) > 1e-12 || math.Abs(lat-(lat0+lat1)/2) > 1e-12 {
			r.Violation("roundtrip/geohash-decode", fmt.Sprintf("%q decodes to (%v,%v), cell centre is (%v,%v)", hh, lon, lat, (lon0+lon1)/2, (lat0+lat1)/2), nil)
		}
	}
	r.Evals(ng)
	r.Count("roundtrip/geohash", ng)
}

// ---------------------------------------------------------------------------------------------
// regression witnesses (replayed on every run, every engine)

func pv(lon, lat float64) PV { return PV{P: Pt{lon, lat}} }

func regressionCases() []*Witness {
	mv := func(id string, pts ...PV) *Doc { return &Doc{ID: id, P: []PV{pts[len(pts)-1]}, MP: pts} }
	cases := []*Witness{
		// F4: multi-valued point field; the matching point is not the first value visited.
		{Name: "F4/circle", Field: "mp", Shape: &Shape{Kind: "circle", Center: Pt{10, 10}, DistVal: 20, Unit: "km"},
			Docs: []*Doc{mv("a", pv(1, 1), pv(10.05, 10.05)), mv("b", pv(-100, -50), pv(10.05, 10.05)), mv("c", pv(10.05, 10.05), pv(100, 50))}},
		{Name: "F4/box", Field: "mp", Shape: &Shape{Kind: "box", TL: Pt{10, 10.1}, BR: Pt{10.1, 10}},
			Docs: []*Doc{mv("a", pv(1, 1), pv(10.05, 10.05)), mv("b", pv(-100, -50), pv(10.05, 10.05)), mv("c", pv(10.05, 10.05), pv(100, 50))}},
		{Name: "F4/poly", Field: "mp", Shape: &Shape{Kind: "poly", Poly: []Pt{{10, 10}, {10.1, 10}, {10.1, 10.1}, {10, 10.1}}},
			Docs: []*Doc{mv("a", pv(1, 1), pv(10.05, 10.05)), mv("b", pv(-100, -50), pv(10.05, 10.05)), mv("c", pv(10.05, 10.05), pv(100, 50))}},
		// two values in the same boundary cell: one inside the shape, one outside
		{Name: "F4/box-same-cell", Field: "mp", Shape: &Shape{Kind: "box", TL: Pt{10, 10.1}, BR: Pt{10.1, 10}},
			Docs: []*Doc{mv("a", pv(9.9995, 10.0005), pv(10.0005, 10.0005)), mv("b", pv(10.0005, 10.0005), pv(10.1005, 10.0005))}},
	}
	return cases
}

func regression(r *ev.Run, rp *reporter) {
	for _, c := range regressionCases() {
		c.Shape.prepare()
		for _, en := range engineNames {
			for _, field := range []string{"mp", "p"} {
				e := expect(c.Shape, field, c.Docs)
				if e.nDC > 0 || e.nIn == 0 {
					r.Inconclusive("regression witness " + c.Name + " is not clear-cut for the oracle")
					continue
				}
				fs, prob := runOnce(r, en, false, 0, field, c.Shape, c.Docs)
				r.Case("regression/"+c.Name+"/"+en+"/"+field, true)
				r.Count("regression/replayed", 1)
				if prob != "" {
					rp.problem(c.Shape.Kind, en, field, c.Shape, c.Docs, prob)
					continue
				}
				seen := map[string]bool{}
				for _, f := range fs {
					if seen[f.dir] {
						continue
					}
					seen[f.dir] = true
					rp.report(&Witness{Name: c.Name, Engine: en, Field: field, Shape: c.Shape, Docs: c.Docs, Dir: f.dir, DocID: f.id})
				}
			}
		}
	}
}
