package main

import (
	_ "verifharness/c18"
	"verifharness/ev"
)

func main() { ev.Main() }
