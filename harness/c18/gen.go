package c18

import (
	"fmt"
	"math"
	"strconv"

	"verifharness/rng"
)

// PV is one point value of a document field together with the way it is written in the document.
type PV struct {
	P    Pt     `json:"p"`    // the point the document states (for a geohash: the centre of its cell)
	Form int    `json:"form"` // 0 {lon,lat} map, 1 [lon,lat], 2 "lat,lon" string, 3 geohash string, 4 {lng,lat} map
	Hash string `json:"hash,omitempty"`
}

// Doc has a single-valued point field "p" (0 or 1 value) and a multi-valued point field "mp".
type Doc struct {
	ID string `json:"id"`
	P  []PV   `json:"p"`
	MP []PV   `json:"mp"`
}

func (d *Doc) points(field string) []Pt {
	src := d.P
	if field == "mp" {
		src = d.MP
	}
	out := make([]Pt, len(src))
	for i, v := range src {
		out[i] = v.P
	}
	return out
}

func ff(x float64) string { return strconv.FormatFloat(x, 'g', -1, 64) }

func (v PV) value() interface{} {
	switch v.Form {
	case 1:
		return []interface{}{v.P.Lon, v.P.Lat}
	case 2:
		return ff(v.P.Lat) + ", " + ff(v.P.Lon)
	case 3:
		return v.Hash
	case 4:
		return map[string]interface{}{"lng": v.P.Lon, "lat": v.P.Lat}
	}
	return map[string]interface{}{"lon": v.P.Lon, "lat": v.P.Lat}
}

// Body is the document as handed to Index().
func (d *Doc) Body() map[string]interface{} {
	m := map[string]interface{}{}
	if len(d.P) == 1 {
		m["p"] = d.P[0].value()
	}
	if len(d.MP) > 0 {
		l := make([]interface{}, len(d.MP))
		for i, v := range d.MP {
			l[i] = v.value()
		}
		m["mp"] = l
	}
	return m
}

// ---------------------------------------------------------------------------------------------

type theme struct {
	name           string
	lon, lat       float64 // centre
	dLon, dLat     float64 // half extent
	wrapLon, globe bool
}

func pickTheme(g *rng.Rand) theme {
	switch g.Intn(8) {
	case 0, 1:
		return theme{name: "dateline", lon: 180, lat: float64(g.Range(-60, 60)), dLon: 12, dLat: 12, wrapLon: true}
	case 2:
		return theme{name: "npole", lon: 0, lat: 84, dLon: 180, dLat: 6}
	case 3:
		return theme{name: "spole", lon: 0, lat: -84, dLon: 180, dLat: 6}
	case 4:
		return theme{name: "origin", lon: 0, lat: 0, dLon: 8, dLat: 8}
	case 5:
		return theme{name: "globe", lon: 0, lat: 0, dLon: 180, dLat: 90, globe: true}
	default:
		return theme{name: "mid", lon: float64(g.Range(-150, 150)), lat: float64(g.Range(-65, 65)), dLon: 10, dLat: 8}
	}
}

func wrapLon(l float64) float64 {
	for l > 180 {
		l -= 360
	}
	for l < -180 {
		l += 360
	}
	return l
}

func clampLat(l float64) float64 { return math.Max(-90, math.Min(90, l)) }

func sym(g *rng.Rand) float64 { return 2*g.Float64() - 1 }

func (t theme) point(g *rng.Rand) Pt {
	// concentrated towards the centre a third of the time
	s := 1.0
	if g.Chance(1, 3) {
		s = 0.2
	}
	return Pt{wrapLon(t.lon + s*t.dLon*sym(g)), clampLat(t.lat + s*t.dLat*sym(g))}
}

func logUniform(g *rng.Rand, lo, hi float64) float64 {
	return math.Exp(math.Log(lo) + g.Float64()*(math.Log(hi)-math.Log(lo)))
}

func round6(x float64) float64 {
	v, _ := strconv.ParseFloat(strconv.FormatFloat(x, 'g', 6, 64), 64)
	return v
}

var unitNames = []string{"m", "m", "km", "km", "mi", "ft", "nm", "yd", "in", "cm", "mm", "meters", "kilometers", "miles", "feet", "yards", "inch", "nauticalmiles", "centimeters", "millimeters", ""}

// snap puts a coordinate on a boundary of the binary cell grid of the encoding (low bits 0…0) or
// just below it (low bits 1…1): those are the values where a cell hierarchy can lose a point.
func snapLon(g *rng.Rand, lon float64) float64 {
	bits := uint(g.Range(6, 26))
	x := uint64((lon + 180) / lonRes)
	x &^= (uint64(1) << bits) - 1
	switch g.Intn(3) {
	case 0:
		return clampLon(float64(x)*lonRes - 180 + lonRes/2)
	case 1:
		if x > 0 {
			x--
		}
		return clampLon(float64(x)*lonRes - 180 + lonRes/2)
	}
	return clampLon(float64(x)*lonRes - 180) // exactly on the grid line (either side after rounding)
}

func snapLat(g *rng.Rand, lat float64) float64 {
	bits := uint(g.Range(6, 26))
	x := uint64((lat + 90) / latRes)
	x &^= (uint64(1) << bits) - 1
	switch g.Intn(3) {
	case 0:
		return clampLat(float64(x)*latRes - 90 + latRes/2)
	case 1:
		if x > 0 {
			x--
		}
		return clampLat(float64(x)*latRes - 90 + latRes/2)
	}
	return clampLat(float64(x)*latRes - 90)
}

func clampLon(l float64) float64 { return math.Max(-180, math.Min(180, l)) }

func genCircle(g *rng.Rand, t theme) *Shape {
	c := t.point(g)
	if g.Chance(1, 10) {
		c.Lon = rng.Pick(g, []float64{180, -180, 0, 179.999999, -179.999999})
	}
	if g.Chance(1, 12) {
		c.Lat = rng.Pick(g, []float64{90, -90, 0, 89.9999, -89.9999})
	}
	if g.Chance(1, 8) {
		c = Pt{snapLon(g, c.Lon), snapLat(g, c.Lat)}
	}
	rm := logUniform(g, 1, 5.0e4)
	if g.Chance(1, 4) {
		rm = logUniform(g, 5.0e4, 8.0e6)
		if g.Chance(1, 12) {
			rm = logUniform(g, 8.0e6, 1.9e7) // beyond a quarter of the globe: the pole is always inside
		}
	}
	if g.Chance(1, 6) { // radius tied to the distance of a pole or of the date line
		switch g.Intn(3) {
		case 0:
			rm = havDist(c, Pt{0, 90}) * (0.9 + 0.2*g.Float64())
		case 1:
			rm = havDist(c, Pt{0, -90}) * (0.9 + 0.2*g.Float64())
		default:
			rm = havDist(c, Pt{180, c.Lat}) * (0.9 + 0.2*g.Float64())
		}
		rm = math.Max(1, math.Min(rm, 8.0e6))
	}
	u := rng.Pick(g, unitNames)
	v := round6(rm / unitMetres[u])
	return &Shape{Kind: "circle", Center: c, DistVal: v, Unit: u}
}

func genBox(g *rng.Rand, t theme) *Shape {
	c := t.point(g)
	hw := logUniform(g, 1e-5, 1)
	hh := logUniform(g, 1e-5, 1)
	if g.Chance(1, 4) {
		hw = logUniform(g, 1, 170)
		hh = logUniform(g, 1, 85)
	}
	if g.Chance(1, 2) { // keep the aspect moderate half of the time
		hh = math.Min(85, hw*(0.3+g.Float64()))
	}
	left, right := c.Lon-hw, c.Lon+hw
	top, bottom := clampLat(c.Lat+hh), clampLat(c.Lat-hh)
	if g.Chance(1, 8) || (t.name == "npole" && g.Chance(1, 3)) {
		top = 90
	}
	if g.Chance(1, 8) || (t.name == "spole" && g.Chance(1, 3)) {
		bottom = -90
	}
	if g.Chance(1, 6) {
		left = snapLon(g, wrapLon(left))
	}
	if g.Chance(1, 6) {
		right = snapLon(g, wrapLon(right))
	}
	if g.Chance(1, 6) {
		top = snapLat(g, top)
	}
	if g.Chance(1, 6) {
		bottom = snapLat(g, bottom)
	}
	if g.Chance(1, 10) {
		left = rng.Pick(g, []float64{-180, 180, 0})
	}
	if g.Chance(1, 10) {
		right = rng.Pick(g, []float64{-180, 180, 0})
	}
	if hw >= 179 && g.Chance(1, 2) {
		left, right = -180, 180
	}
	left, right = wrapLon(left), wrapLon(right)
	if top < bottom {
		top, bottom = bottom, top
	}
	return &Shape{Kind: "box", TL: Pt{left, top}, BR: Pt{right, bottom}}
}

// genPoly: a simple (star-shaped in the lon/lat plane) polygon that stays inside [-180,180]x[-88,88];
// either orientation.
func genPoly(g *rng.Rand, t theme) *Shape {
	c := t.point(g)
	rad0 := logUniform(g, 1e-3, 1)
	if g.Chance(1, 4) {
		rad0 = logUniform(g, 1, 25)
	}
	c.Lat = math.Max(-88+rad0, math.Min(88-rad0, c.Lat))
	if c.Lon-rad0*1.5 < -180 {
		c.Lon = -180 + rad0*1.5
	}
	if c.Lon+rad0*1.5 > 180 {
		c.Lon = 180 - rad0*1.5
	}
	n := g.Range(3, 9)
	angs := make([]float64, n)
	base := g.Float64() * 2 * math.Pi
	for i := range angs {
		angs[i] = base + (float64(i)+0.15+0.7*g.Float64())*2*math.Pi/float64(n)
	}
	pts := make([]Pt, n)
	for i, a := range angs {
		r := rad0 * (0.35 + 0.65*g.Float64())
		p := Pt{c.Lon + 1.5*r*math.Cos(a), c.Lat + r*math.Sin(a)}
		p.Lon = clampLon(p.Lon)
		p.Lat = math.Max(-88, math.Min(88, p.Lat))
		if g.Chance(1, 10) {
			p = Pt{snapLon(g, p.Lon), math.Max(-88, math.Min(88, snapLat(g, p.Lat)))}
		}
		pts[i] = p
	}
	if g.Bool() {
		for i, j := 0, n-1; i < j; i, j = i+1, j-1 {
			pts[i], pts[j] = pts[j], pts[i]
		}
	}
	return &Shape{Kind: "poly", Poly: pts}
}

func genShape(g *rng.Rand, t theme) *Shape {
	var s *Shape
	switch k := g.Intn(20); {
	case k < 8:
		s = genCircle(g, t)
	case k < 15:
		s = genBox(g, t)
	default:
		s = genPoly(g, t)
	}
	s.prepare()
	return s
}

var bandFactors = []float64{1.15, 1.5, 2.5, 6, 40, 1000}

// targeted returns points just past the don't-care band on both sides of the shape's boundary,
// plus some well inside and well outside.
func targeted(g *rng.Rand, s *Shape, n int) []Pt {
	var out []Pt
	add := func(p Pt) {
		if math.IsNaN(p.Lon) || math.IsNaN(p.Lat) {
			return
		}
		out = append(out, Pt{clampLon(wrapLon(p.Lon)), clampLat(p.Lat)})
	}
	switch s.Kind {
	case "circle":
		r := s.RadiusM()
		band := circleBandRel*r + circleBandAbs
		for i := 0; i < n; i++ {
			brg := g.Float64() * 2 * math.Pi
			if g.Chance(1, 3) {
				brg = float64(g.Intn(8)) * math.Pi / 4 // towards the box corners / edge midpoints
			}
			f := rng.Pick(g, bandFactors)
			d := r + band*f
			if g.Bool() {
				d = r - band*f
			}
			if d < 0 {
				d = r * g.Float64() * 0.8
			}
			if d > math.Pi*earthR {
				d = math.Pi * earthR
			}
			add(destination(s.Center, d, brg))
		}
		add(destination(s.Center, r*g.Float64()*0.7, g.Float64()*2*math.Pi))
		add(destination(s.Center, math.Min(math.Pi*earthR, r*(1.3+2*g.Float64())), g.Float64()*2*math.Pi))
	case "box":
		left, right := s.TL.Lon, s.BR.Lon
		if right < left {
			right += 360
		}
		top, bottom := s.TL.Lat, s.BR.Lat
		for i := 0; i < n; i++ {
			off := planeBand * rng.Pick(g, bandFactors) * rng.Pick(g, []float64{1, 1, 3, 1000})
			if g.Bool() {
				off = -off // negative: inside
			}
			u := g.Float64()
			if g.Chance(1, 4) {
				u = rng.Pick(g, []float64{0, 1, 0.5})
			}
			switch g.Intn(4) {
			case 0:
				add(Pt{left - off, bottom + u*(top-bottom)})
			case 1:
				add(Pt{right + off, bottom + u*(top-bottom)})
			case 2:
				add(Pt{left + u*(right-left), top + off})
			default:
				add(Pt{left + u*(right-left), bottom - off})
			}
		}
		add(Pt{left + g.Float64()*(right-left), bottom + g.Float64()*(top-bottom)})
		add(Pt{left - (0.01+g.Float64())*(right-left+0.01), bottom + g.Float64()*(top-bottom)})
	default:
		np := len(s.Poly)
		for i := 0; i < n; i++ {
			e := g.Intn(np)
			a, b := s.Poly[e], s.Poly[(e+1)%np]
			u := 0.05 + 0.9*g.Float64()
			dx, dy := b.Lon-a.Lon, b.Lat-a.Lat
			l := math.Hypot(dx, dy)
			if l == 0 {
				continue
			}
			off := s.edgeBand[e] * rng.Pick(g, bandFactors)
			if g.Bool() {
				off = -off
			}
			add(Pt{a.Lon + u*dx - off*dy/l, a.Lat + u*dy + off*dx/l})
		}
		// centroid of the vertices and a far point
		var cx, cy float64
		for _, v := range s.Poly {
			cx += v.Lon / float64(np)
			cy += v.Lat / float64(np)
		}
		add(Pt{cx, cy})
		add(Pt{cx + 30*sym(g), cy + 20*sym(g)})
	}
	return out
}

var specialLons = []float64{-180, 180, 0, -179.9999999, 179.9999999, 90, -90, 179.99999, -179.99999}
var specialLats = []float64{-90, 90, 0, 89.9999999, -89.9999999, 45, -45, 89.99999, -89.99999}

// World is one generated index content plus the shapes queried on it.
type World struct {
	Theme  string   `json:"theme"`
	Docs   []*Doc   `json:"docs"`
	Shapes []*Shape `json:"shapes"`
	Disk   bool     `json:"disk"`
	Batch  int      `json:"batch"`
}

func genPV(g *rng.Rand, p Pt) PV {
	switch k := g.Intn(20); {
	case k < 8:
		return PV{P: p, Form: 0}
	case k < 12:
		return PV{P: p, Form: 1}
	case k < 15:
		return PV{P: p, Form: 2}
	case k < 17:
		return PV{P: p, Form: 4}
	default:
		h := geohashOf(p)
		if g.Chance(1, 3) {
			h = h[:g.Range(5, 11)]
		}
		lon0, lon1, lat0, lat1, _ := geohashCell(h)
		return PV{P: Pt{(lon0 + lon1) / 2, (lat0 + lat1) / 2}, Form: 3, Hash: h}
	}
}

func genWorld(g *rng.Rand, nShapes, perShape int) *World {
	t := pickTheme(g)
	w := &World{Theme: t.name, Disk: g.Chance(1, 8), Batch: g.Range(25, 200)}
	var pool []Pt
	for i := 0; i < nShapes; i++ {
		s := genShape(g, t)
		w.Shapes = append(w.Shapes, s)
		pool = append(pool, targeted(g, s, perShape)...)
	}
	nb := len(pool)/4 + 10
	for i := 0; i < nb; i++ {
		p := t.point(g)
		switch g.Intn(6) {
		case 0:
			p.Lon = rng.Pick(g, specialLons)
		case 1:
			p.Lat = rng.Pick(g, specialLats)
		case 2:
			p = Pt{snapLon(g, p.Lon), snapLat(g, p.Lat)}
		case 3:
			p = Pt{rng.Pick(g, specialLons), rng.Pick(g, specialLats)}
		}
		pool = append(pool, p)
	}
	rng.Shuffle(g, pool)
	for i, p := range pool {
		d := &Doc{ID: fmt.Sprintf("d%04d", i)}
		if !g.Chance(1, 25) {
			d.P = []PV{genPV(g, p)}
		}
		nm := 0
		switch k := g.Intn(10); {
		case k < 2:
			nm = 0
		case k < 4:
			nm = 1
		case k < 7:
			nm = 2
		case k < 9:
			nm = 3
		default:
			nm = g.Range(4, 6)
		}
		for j := 0; j < nm; j++ {
			q := pool[g.Intn(len(pool))]
			if j == 0 && g.Bool() {
				q = p
			}
			d.MP = append(d.MP, genPV(g, q))
		}
		w.Docs = append(w.Docs, d)
	}
	return w
}
