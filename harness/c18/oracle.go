package c18

// Reference geometry of the C18 monitor. Plain float64 spherical / planar geometry,
// written from the definitions; it calls nothing from github.com/blevesearch/bleve/v2/geo
// or the searchers it judges.

import (
	"math"
)

// Pt is a point in degrees.
type Pt struct {
	Lon float64 `json:"lon"`
	Lat float64 `json:"lat"`
}

// earthR is the mean earth radius in metres. bleve's bounding rectangle uses this value;
// its distance filter uses a latitude dependent radius between 6356.752 km and 6378.137 km
// and the s2 cap uses 6378 km: all within 0.23 % of the mean, which the 0.5 % band absorbs.
const earthR = 6371008.7714

// Quantisation steps of the 32+32 bit point encoding, in degrees.
const (
	lonRes = 360.0 / 4294967295.0
	latRes = 180.0 / 4294967295.0
)

// Bands (don't-care distance from the boundary).
const (
	circleBandRel = 0.005 // 0.5 % of the radius
	circleBandAbs = 0.25  // metres: quantisation (<= 1.1 cm) + cancellation noise of 1-cos at metre scale
	planeBand     = 2e-6  // degrees: bleve's documented 1e-6 comparison tolerance + quantisation, doubled
)

type status int

const (
	stOut status = iota
	stIn
	stDC // don't care: inside the band around the boundary
)

func (s status) String() string {
	switch s {
	case stIn:
		return "in"
	case stOut:
		return "out"
	}
	return "dc"
}

func rad(d float64) float64 { return d * math.Pi / 180 }
func deg(r float64) float64 { return r * 180 / math.Pi }

// havDist is the great-circle distance in metres on the mean sphere.
func havDist(a, b Pt) float64 {
	p1, p2 := rad(a.Lat), rad(b.Lat)
	sp := math.Sin((p2 - p1) / 2)
	sl := math.Sin(rad(b.Lon-a.Lon) / 2)
	h := sp*sp + math.Cos(p1)*math.Cos(p2)*sl*sl
	if h > 1 {
		h = 1
	}
	return 2 * earthR * math.Asin(math.Sqrt(h))
}

// destination returns the point at distance d (metres) and bearing brg (radians) from c.
func destination(c Pt, d, brg float64) Pt {
	ad := d / earthR
	p1, l1 := rad(c.Lat), rad(c.Lon)
	sp2 := math.Sin(p1)*math.Cos(ad) + math.Cos(p1)*math.Sin(ad)*math.Cos(brg)
	if sp2 > 1 {
		sp2 = 1
	} else if sp2 < -1 {
		sp2 = -1
	}
	p2 := math.Asin(sp2)
	l2 := l1 + math.Atan2(math.Sin(brg)*math.Sin(ad)*math.Cos(p1), math.Cos(ad)-math.Sin(p1)*sp2)
	lon := deg(l2)
	for lon > 180 {
		lon -= 360
	}
	for lon < -180 {
		lon += 360
	}
	return Pt{lon, deg(p2)}
}

// Shape is one query shape.
type Shape struct {
	Kind string `json:"kind"` // circle | box | poly

	// circle
	Center  Pt      `json:"center,omitempty"`
	DistVal float64 `json:"dist_val,omitempty"` // number as written in the distance string
	Unit    string  `json:"unit,omitempty"`     // suffix as written in the distance string

	// box: top-left / bottom-right as passed to NewGeoBoundingBoxQuery. BR.Lon < TL.Lon means
	// the box crosses the date line (bleve's documented reading of such a pair).
	TL Pt `json:"tl,omitempty"`
	BR Pt `json:"br,omitempty"`

	// poly: simple polygon, vertices in the lon/lat plane, implicitly closed.
	Poly []Pt `json:"poly,omitempty"`

	edgeBand []float64 // per polygon edge: don't-care distance (degrees in the plane)
}

// unit table from the definitions of the units (international yard/mile, nautical mile).
var unitMetres = map[string]float64{
	"in": 0.0254, "inch": 0.0254, "yd": 0.9144, "yards": 0.9144, "ft": 0.3048, "feet": 0.3048,
	"km": 1000, "kilometers": 1000, "nm": 1852, "nauticalmiles": 1852, "mm": 0.001, "millimeters": 0.001,
	"cm": 0.01, "centimeters": 0.01, "mi": 1609.344, "miles": 1609.344, "m": 1, "meters": 1, "": 1,
}

func (s *Shape) RadiusM() float64 { return s.DistVal * unitMetres[s.Unit] }

func (s *Shape) crossesDateLine() bool {
	switch s.Kind {
	case "box":
		return s.BR.Lon < s.TL.Lon
	case "circle":
		// the circle reaches over the +-180 meridian
		r := s.RadiusM()
		if containsPole(s) {
			return true
		}
		ad := r / earthR
		x := math.Sin(ad) / math.Cos(rad(s.Center.Lat))
		if x >= 1 {
			return true
		}
		dl := deg(math.Asin(x))
		return s.Center.Lon-dl < -180 || s.Center.Lon+dl > 180
	}
	return false
}

func containsPole(s *Shape) bool {
	switch s.Kind {
	case "box":
		return s.TL.Lat >= 90-planeBand || s.BR.Lat <= -90+planeBand
	case "circle":
		r := s.RadiusM()
		return havDist(s.Center, Pt{0, 90}) <= r || havDist(s.Center, Pt{0, -90}) <= r
	}
	return false
}

// prepare computes the per-edge band of a polygon: the plane band plus the largest distance
// between the straight lon/lat segment (bleve's planar reading, also the one of its final filter)
// and the great-circle arc between the same vertices (the reading of the s2 covering). A point
// between the two readings of an edge is inside under one and outside under the other; the
// property does not say which reading applies, so such points are not judged.
func (s *Shape) prepare() {
	if s.Kind != "poly" {
		return
	}
	n := len(s.Poly)
	s.edgeBand = make([]float64, n)
	for i := 0; i < n; i++ {
		a, b := s.Poly[i], s.Poly[(i+1)%n]
		s.edgeBand[i] = planeBand + 1.5*arcDeviation(a, b)
	}
}

// arcDeviation samples the great-circle arc a→b and returns the largest planar distance
// (degrees) of a sample to the segment a-b.
func arcDeviation(a, b Pt) float64 {
	ax, ay, az := unit(a)
	bx, by, bz := unit(b)
	dot := ax*bx + ay*by + az*bz
	if dot > 1 {
		dot = 1
	} else if dot < -1 {
		dot = -1
	}
	om := math.Acos(dot)
	if om < 1e-12 {
		return 0
	}
	so := math.Sin(om)
	worst := 0.0
	const k = 32
	for i := 1; i < k; i++ {
		t := float64(i) / k
		wa, wb := math.Sin((1-t)*om)/so, math.Sin(t*om)/so
		x, y, z := wa*ax+wb*bx, wa*ay+wb*by, wa*az+wb*bz
		lat := deg(math.Atan2(z, math.Hypot(x, y)))
		lon := deg(math.Atan2(y, x))
		// unwrap next to a's longitude
		for lon-a.Lon > 180 {
			lon -= 360
		}
		for lon-a.Lon < -180 {
			lon += 360
		}
		d := segDist(Pt{lon, lat}, a, b)
		if d > worst {
			worst = d
		}
	}
	return worst
}

func unit(p Pt) (x, y, z float64) {
	la, lo := rad(p.Lat), rad(p.Lon)
	return math.Cos(la) * math.Cos(lo), math.Cos(la) * math.Sin(lo), math.Sin(la)
}

// segDist: planar distance of p to the segment a-b (degrees).
func segDist(p, a, b Pt) float64 {
	dx, dy := b.Lon-a.Lon, b.Lat-a.Lat
	l2 := dx*dx + dy*dy
	t := 0.0
	if l2 > 0 {
		t = ((p.Lon-a.Lon)*dx + (p.Lat-a.Lat)*dy) / l2
		if t < 0 {
			t = 0
		} else if t > 1 {
			t = 1
		}
	}
	return math.Hypot(p.Lon-(a.Lon+t*dx), p.Lat-(a.Lat+t*dy))
}

// rawInside is the shape membership without band (used for cell classification only).
func (s *Shape) rawInside(p Pt) bool {
	switch s.Kind {
	case "circle":
		return havDist(s.Center, p) <= s.RadiusM()
	case "box":
		return s.boxDepth(p) >= 0
	default:
		return pnpoly(s.Poly, p)
	}
}

// boxDepth: how far p is inside the box (negative: outside), degrees, min over the two axes.
// Longitudes are compared modulo 360 so that lon 180 and lon -180 are the same meridian.
func (s *Shape) boxDepth(p Pt) float64 {
	left, right := s.TL.Lon, s.BR.Lon
	if right < left {
		right += 360
	}
	dLat := math.Min(p.Lat-s.BR.Lat, s.TL.Lat-p.Lat)
	dLon := math.Inf(-1)
	for _, k := range [...]float64{-360, 0, 360} {
		l := p.Lon + k
		if d := math.Min(l-left, right-l); d > dLon {
			dLon = d
		}
	}
	return math.Min(dLat, dLon)
}

// pnpoly: even-odd ray casting in the lon/lat plane (own formulation: crossing number of the
// horizontal ray towards +lon, half-open rule on the latitude).
func pnpoly(poly []Pt, p Pt) bool {
	in := false
	n := len(poly)
	for i := 0; i < n; i++ {
		a, b := poly[i], poly[(i+1)%n]
		if (a.Lat <= p.Lat) == (b.Lat <= p.Lat) {
			continue
		}
		x := a.Lon + (p.Lat-a.Lat)/(b.Lat-a.Lat)*(b.Lon-a.Lon)
		if x > p.Lon {
			in = !in
		}
	}
	return in
}

// Classify says whether p is clearly inside, clearly outside, or within the don't-care band.
func (s *Shape) Classify(p Pt) status {
	switch s.Kind {
	case "circle":
		r := s.RadiusM()
		band := circleBandRel*r + circleBandAbs
		d := havDist(s.Center, p)
		switch {
		case d < r-band:
			return stIn
		case d > r+band:
			return stOut
		}
		return stDC
	case "box":
		// a point at a pole is physically on the edge of every box that reaches that pole
		if (p.Lat >= 90-planeBand && s.TL.Lat >= 90-planeBand) || (p.Lat <= -90+planeBand && s.BR.Lat <= -90+planeBand) {
			return stDC
		}
		d := s.boxDepth(p)
		switch {
		case d > planeBand:
			return stIn
		case d < -planeBand:
			return stOut
		}
		return stDC
	default:
		n := len(s.Poly)
		for i := 0; i < n; i++ {
			a, b := s.Poly[i], s.Poly[(i+1)%n]
			for _, k := range [...]float64{0, -360, 360} {
				if segDist(Pt{p.Lon + k, p.Lat}, a, b) <= s.edgeBand[i] {
					return stDC
				}
			}
		}
		if math.Abs(p.Lat) >= 90-planeBand {
			for _, v := range s.Poly {
				if math.Abs(v.Lat) >= 90-planeBand && (v.Lat > 0) == (p.Lat > 0) {
					return stDC
				}
			}
		}
		if pnpoly(s.Poly, p) {
			return stIn
		}
		return stOut
	}
}

// ClassifyDoc: a document must match iff one of its points is clearly inside; it must not match
// if all its points (possibly none) are clearly outside; otherwise it is not judged.
func (s *Shape) ClassifyDoc(pts []Pt) status {
	all := stOut
	for _, p := range pts {
		switch s.Classify(p) {
		case stIn:
			return stIn
		case stDC:
			all = stDC
		}
	}
	return all
}

// --- index cell model (only for the non-triviality rule) ---------------------------------------

// cellLevel is the depth at which bleve's recursive subdivision stops (2^14 x 2^14 cells).
const cellLevel = 14

// onBoundaryCell: p lies in a level-14 cell of the lon/lat grid that holds points of both sides
// of the shape boundary (5x5 samples of the cell, plus p itself).
func (s *Shape) onBoundaryCell(p Pt) bool {
	n := float64(uint64(1) << cellLevel)
	cx := math.Floor((p.Lon + 180) / 360 * n)
	cy := math.Floor((p.Lat + 90) / 180 * n)
	if cx >= n {
		cx = n - 1
	}
	if cy >= n {
		cy = n - 1
	}
	w, h := 360/n, 180/n
	x0, y0 := cx*w-180, cy*h-90
	ref := s.rawInside(p)
	for i := 0; i <= 4; i++ {
		for j := 0; j <= 4; j++ {
			q := Pt{x0 + w*float64(i)/4, y0 + h*float64(j)/4}
			if s.rawInside(q) != ref {
				return true
			}
		}
	}
	// shapes smaller than the sampling step: the cell holds a defining point of the shape
	inCell := func(q Pt) bool { return q.Lon >= x0 && q.Lon <= x0+w && q.Lat >= y0 && q.Lat <= y0+h }
	switch s.Kind {
	case "circle":
		return inCell(s.Center) && !ref
	case "box":
		return !ref && (inCell(s.TL) || inCell(s.BR))
	default:
		if !ref {
			for _, v := range s.Poly {
				if inCell(v) {
					return true
				}
			}
		}
	}
	return false
}

// --- own geohash decoder (documents may carry their point as a geohash string) -----------------

const geohashAlphabet = "0123456789bcdefghjkmnpqrstuvwxyz"

// geohashCell returns the lon/lat interval described by a geohash.
func geohashCell(h string) (lon0, lon1, lat0, lat1 float64, ok bool) {
	lon0, lon1, lat0, lat1 = -180, 180, -90, 90
	isLon := true
	for i := 0; i < len(h); i++ {
		v := -1
		for k := 0; k < 32; k++ {
			if geohashAlphabet[k] == h[i] {
				v = k
			}
		}
		if v < 0 {
			return 0, 0, 0, 0, false
		}
		for b := 4; b >= 0; b-- {
			bit := (v >> uint(b)) & 1
			if isLon {
				m := (lon0 + lon1) / 2
				if bit == 1 {
					lon0 = m
				} else {
					lon1 = m
				}
			} else {
				m := (lat0 + lat1) / 2
				if bit == 1 {
					lat0 = m
				} else {
					lat1 = m
				}
			}
			isLon = !isLon
		}
	}
	return lon0, lon1, lat0, lat1, true
}

// geohashOf: own encoder (12 characters), used by the generator to write geohash-valued points.
func geohashOf(p Pt) string {
	lon0, lon1, lat0, lat1 := -180.0, 180.0, -90.0, 90.0
	isLon := true
	out := make([]byte, 0, 12)
	v, nb := 0, 0
	for len(out) < 12 {
		if isLon {
			m := (lon0 + lon1) / 2
			if p.Lon >= m {
				v = v<<1 | 1
				lon0 = m
			} else {
				v <<= 1
				lon1 = m
			}
		} else {
			m := (lat0 + lat1) / 2
			if p.Lat >= m {
				v = v<<1 | 1
				lat0 = m
			} else {
				v <<= 1
				lat1 = m
			}
		}
		isLon = !isLon
		nb++
		if nb == 5 {
			out = append(out, geohashAlphabet[v])
			v, nb = 0, 0
		}
	}
	return string(out)
}
