package c18

import (
	"encoding/json"
	"fmt"
	"os"

	"verifharness/ev"
)

// replay re-runs the witness of a replay file (evidence/replay/C18-*.json) on a fresh index.
func replay(r *ev.Run) {
	b, err := os.ReadFile(r.ReplayPath)
	if err != nil {
		r.Inconclusive("replay file: " + err.Error())
		return
	}
	var doc struct {
		Class   string   `json:"class"`
		Witness *Witness `json:"witness"`
	}
	if err := json.Unmarshal(b, &doc); err != nil || doc.Witness == nil || doc.Witness.Shape == nil {
		r.Inconclusive(fmt.Sprintf("replay file has no query witness (%v)", err))
		return
	}
	w := doc.Witness
	w.Shape.prepare()
	fs, prob := runOnce(r, w.Engine, w.Disk, w.Batch, w.Field, w.Shape, w.Docs)
	r.Case("replay", true)
	if prob != "" {
		r.Violation(doc.Class, prob, w)
		return
	}
	for _, f := range fs {
		w.Dir, w.DocID = f.dir, f.id
		describe(w)
		r.Violation(classOf(w), fmt.Sprintf("replayed: %s of %s", f.dir, f.id), w)
		return
	}
	fmt.Println("replay: the witness no longer fails")
}
