package c19

import (
	"fmt"
	"hash/fnv"
	"sort"
	"strconv"
	"strings"
	"sync"
	"sync/atomic"
	"time"
	"unicode/utf8"

	"github.com/blevesearch/bleve/v2/analysis"

	"verifharness/ev"
)

// ---------------------------------------------------------------------------
// watchdog: the only wall-clock criterion (DESIGN §5 C19 "Termination"). Every
// worker publishes what it is executing; a monitor goroutine reports a call
// that has been running for more than stuckAfter. No goroutine is created per
// call, so nothing leaks in the common case.

const stuckAfter = 120 * time.Second

type inflight struct {
	what  string
	input []byte
	since time.Time
}

type watchdog struct {
	r     *ev.Run
	slots []atomic.Pointer[inflight]
	stop  chan struct{}
	done  chan struct{}
	maxNs atomic.Int64

	slowMu sync.Mutex
	slow   []slowCall // the slowest calls seen (evidence only)
}

type slowCall struct {
	What     string  `json:"component"`
	InputLen int     `json:"input_len"`
	Input    string  `json:"input_head_quoted"`
	Ms       float64 `json:"ms"`
}

func newWatchdog(r *ev.Run, n int) *watchdog {
	w := &watchdog{r: r, slots: make([]atomic.Pointer[inflight], n), stop: make(chan struct{}), done: make(chan struct{})}
	go w.loop()
	return w
}

func (w *watchdog) enter(slot int, what string, input []byte) {
	w.slots[slot].Store(&inflight{what: what, input: input, since: time.Now()})
}

func (w *watchdog) leave(slot int) {
	if p := w.slots[slot].Swap(nil); p != nil {
		d := int64(time.Since(p.since))
		for {
			m := w.maxNs.Load()
			if d <= m || w.maxNs.CompareAndSwap(m, d) {
				break
			}
		}
		if d > int64(500*time.Millisecond) {
			head := p.input
			if len(head) > 24 {
				head = head[:24]
			}
			w.slowMu.Lock()
			w.slow = append(w.slow, slowCall{p.what, len(p.input), strconv.Quote(string(head)), float64(d) / 1e6})
			sort.Slice(w.slow, func(i, j int) bool { return w.slow[i].Ms > w.slow[j].Ms })
			if len(w.slow) > 8 {
				w.slow = w.slow[:8]
			}
			w.slowMu.Unlock()
		}
	}
}

func (w *watchdog) loop() {
	defer close(w.done)
	t := time.NewTicker(time.Second)
	defer t.Stop()
	for {
		select {
		case <-w.stop:
			return
		case <-t.C:
			for i := range w.slots {
				p := w.slots[i].Load()
				if p != nil && time.Since(p.since) > stuckAfter {
					// The stuck goroutine cannot be killed; report and end the run.
					w.r.Violation("non-termination/"+p.what,
						fmt.Sprintf("%s still running after %v on a %d-byte input", p.what, stuckAfter, len(p.input)),
						map[string]any{"component": p.what, "input_quoted": strconv.Quote(string(p.input)), "input": p.input})
					w.r.Finish()
				}
			}
		}
	}
}

func (w *watchdog) close() {
	close(w.stop)
	<-w.done
}

// ---------------------------------------------------------------------------
// calling one component

type outcome struct {
	panicked bool
	val      any
	stack    string
	ntok     int
	outLen   int
	tokens   analysis.TokenStream // tokenizers only (for the offset invariants)
	skipped  bool                 // feeder tokenizer panicked: not this component's case
}

func hashBytes(b []byte) uint64 {
	h := fnv.New64a()
	h.Write(b)
	return h.Sum64()
}

// invoke runs c on a private copy of input. feeder is the tokenizer producing the token
// stream for a token filter.
func invoke(c *comp, feeder *comp, input []byte) (o outcome) {
	in := append(make([]byte, 0, len(input)), input...)
	var toks analysis.TokenStream
	if c.kind == "token_filter" {
		p, _, _ := ev.Guard(func() { toks = feeder.tk.Tokenize(in) })
		if p {
			o.skipped = true
			return
		}
	}
	o.panicked, o.val, o.stack = ev.Guard(func() {
		switch c.kind {
		case "char_filter":
			out := c.cf.Filter(in)
			o.outLen = len(out)
		case "tokenizer":
			ts := c.tk.Tokenize(in)
			o.ntok = len(ts)
			o.tokens = ts
		case "token_filter":
			ts := c.tf.Filter(toks)
			o.ntok = len(ts)
			_ = analysis.TokenFrequency(ts, nil, termVectors)
		case "analyzer":
			ts := c.an.Analyze(in)
			o.ntok = len(ts)
			// what the index does next with the stream (anchor analysis/freq.go)
			_ = analysis.TokenFrequency(ts, []uint64{0}, termVectors)
		case "datetime_parser":
			_, _, _ = c.dtp.ParseDateTime(string(in))
		}
	})
	return
}

// checkTokens returns "" or the name of the first violated tokenizer invariant.
func checkTokens(ts analysis.TokenStream, n int) (string, int) {
	prevStart, prevPos := 0, 0
	for i, t := range ts {
		switch {
		case t == nil:
			return "nil-token", i
		case t.Start < 0:
			return "start-negative", i
		case t.Start > t.End:
			return "start-after-end", i
		case t.End > n:
			return "end-beyond-input", i
		case i > 0 && t.Start < prevStart:
			return "start-decreasing", i
		case t.Position < 1:
			return "position-not-positive", i
		case i > 0 && t.Position < prevPos:
			return "position-decreasing", i
		}
		prevStart, prevPos = t.Start, t.Position
	}
	return "", -1
}

// panic signature: kind of runtime error + first frame outside runtime/ev.
func panicKind(val any) string {
	s := fmt.Sprint(val)
	switch {
	case strings.Contains(s, "slice bounds out of range"):
		return "slice-bounds"
	case strings.Contains(s, "index out of range"):
		return "index-range"
	case strings.Contains(s, "nil pointer"):
		return "nil-deref"
	case strings.Contains(s, "makeslice") || strings.Contains(s, "out of memory"):
		return "alloc"
	case strings.Contains(s, "interface conversion"):
		return "type-assertion"
	case strings.Contains(s, "divide"):
		return "divide"
	}
	return "other"
}

func topFrame(stack string) (fn, where string) {
	lines := strings.Split(stack, "\n")
	for i := 1; i+1 < len(lines); i += 2 {
		f := lines[i]
		if strings.HasPrefix(f, "runtime") || strings.HasPrefix(f, "panic(") || strings.HasPrefix(f, "verifharness/ev.") {
			continue
		}
		if j := strings.LastIndex(f, "("); j > 0 {
			f = f[:j]
		}
		w := strings.TrimSpace(lines[i+1])
		if j := strings.Index(w, " +0x"); j > 0 {
			w = w[:j]
		}
		return f, w
	}
	return "?", "?"
}

func panicSig(o outcome) string {
	fn, _ := topFrame(o.stack)
	return panicKind(o.val) + "@" + fn
}

// shrinkBytes deletes chunks of bytes while fails() keeps holding (ddmin-like, deterministic).
func shrinkBytes(in []byte, fails func([]byte) bool) []byte {
	cur := append([]byte(nil), in...)
	for chunk := (len(cur) + 1) / 2; chunk >= 1; {
		removed := false
		for i := 0; i+chunk <= len(cur); {
			cand := append(append(make([]byte, 0, len(cur)-chunk), cur[:i]...), cur[i+chunk:]...)
			if fails(cand) {
				cur = cand
				removed = true
			} else {
				i += chunk
			}
		}
		if chunk == 1 {
			if !removed {
				break
			}
			continue
		}
		if !removed {
			chunk /= 2
		} else if chunk > len(cur) {
			chunk = (len(cur) + 1) / 2
			if chunk == 0 {
				break
			}
		}
	}
	return cur
}

// ---------------------------------------------------------------------------
// the analysis workload

type finding struct {
	comp   *comp
	feeder *comp
	inIdx  int
	input  []byte
	sig    string // panic signature or invariant name
	isInv  bool
}

type analysisRun struct {
	r       *ev.Run
	cat     *catalog
	wd      *watchdog
	workers int

	sweepFrom       int // index of the first code-point-sweep input
	chainsUpTo      int // random chains run on inputs below this index (not on the long tokens, not on the sweep)
	allFeedersBelow int // inputs with a smaller index are run through every (feeder, filter) pair

	mu       sync.Mutex
	findings []finding
	shrunk   map[string]int // comp id + sig -> number of witnesses already shrunk

	sampleMu sync.Mutex
	samples  int

	cost map[string]float64 // seconds spent per component (evidence / tuning only); accounting goroutine only
}

const shrinkPerSig = 3

func (a *analysisRun) feederFor(ci, ii int) *comp {
	f := a.cat.feeders
	return f[(ci*7919+ii*104729)%len(f)]
}

type jrec struct {
	C  string `json:"component"`
	F  string `json:"feeder,omitempty"`
	I  int    `json:"input_index"`
	In string `json:"input_quoted"`
}

// What a worker hands to the accounting goroutine after a task. ev's mutex is shared by Journal,
// Case and Count; 16 workers taking it twice per call spent 60% of their time waiting for it, so
// the per-case accounting is done by one goroutine and the journal is written once per task.
type caseRec struct {
	key string
	nt  bool
}

type taskResult struct {
	kind                                 string
	id                                   string
	cases                                []caseRec
	calls, toks, nontriv, sweep, skipped int
	seconds                              float64
}

type jtask struct {
	C      string   `json:"component"`
	Inputs []jinput `json:"inputs_in_flight"`
}

type jinput struct {
	I  int    `json:"input_index"`
	F  string `json:"feeder,omitempty"`
	In string `json:"input_quoted"`
}

// runRound executes every component on inputs[lo:hi) with the worker pool, then shrinks and
// reports what was found (deterministically: findings are sorted, not taken in arrival order).
func (a *analysisRun) runRound(inputs [][]byte, lo, hi int) {
	// one task = one component x a sub-batch of the round's inputs; the expensive kinds (analyzers,
	// then token filters) are queued first so that no worker is left with a long task at the end
	const sub = 16
	type task struct{ ci, lo, hi int }
	var list []task
	for ci := len(a.cat.comps) - 1; ci >= 0; ci-- {
		for l := lo; l < hi; l += sub {
			if a.cat.comps[ci].randomChain && l >= a.chainsUpTo {
				break // long tokens and the code point sweep are for the registered and hand-configured components
			}
			h := l + sub
			if h > hi {
				h = hi
			}
			list = append(list, task{ci, l, h})
		}
	}
	tasks := make(chan task, len(list))
	for _, t := range list {
		tasks <- t
	}
	close(tasks)

	results := make(chan *taskResult, 256)
	accDone := make(chan struct{})
	go func() { // the only goroutine that touches r.Case / r.Count during the round
		defer close(accDone)
		for res := range results {
			for _, c := range res.cases {
				a.r.Case(c.key, c.nt)
			}
			a.r.Evals(res.sweep)
			a.r.Count("calls_code_point_sweep", res.sweep)
			a.r.Count("calls/"+res.kind, res.calls)
			a.r.Count("tokens_produced", res.toks)
			a.r.Count("nontrivial_calls", res.nontriv)
			if res.skipped > 0 {
				a.r.Count("token_filter_calls_skipped_feeder_panicked", res.skipped)
			}
			a.cost[res.id] += res.seconds
		}
	}()

	var wg sync.WaitGroup
	for w := 0; w < a.workers; w++ {
		wg.Add(1)
		go func(slot int) {
			defer wg.Done()
			for t := range tasks {
				c := a.cat.comps[t.ci]
				res := &taskResult{kind: c.kind, id: c.id()}
				t0 := time.Now()
				// the (component, input[, feeder]) pairs of this task, journalled before any of them runs:
				// if the process dies the journal names the component and at most 16 candidate inputs
				type pair struct {
					ii     int
					feeder *comp
				}
				var pairs []pair
				jt := jtask{C: c.id()}
				for ii := t.lo; ii < t.hi; ii++ {
					if c.randomChain && ii >= a.chainsUpTo {
						break
					}
					feeders := []*comp{nil}
					if c.kind == "token_filter" {
						if ii < a.allFeedersBelow {
							feeders = a.cat.feeders // regression witnesses / replay: every tokenizer feeds every filter
						} else {
							feeders = []*comp{a.feederFor(t.ci, ii)}
						}
					}
					for _, f := range feeders {
						pairs = append(pairs, pair{ii, f})
						ji := jinput{I: ii, In: strconv.Quote(string(inputs[ii]))}
						if f != nil {
							ji.F = f.name
						}
						jt.Inputs = append(jt.Inputs, ji)
					}
				}
				a.r.Journal(jt)
				for _, p := range pairs {
					ii, feeder, in := p.ii, p.feeder, inputs[p.ii]
					a.wd.enter(slot, c.id(), in)
					o := invoke(c, feeder, in)
					a.wd.leave(slot)
					if o.skipped {
						res.skipped++
						continue
					}
					res.calls++
					res.toks += o.ntok
					hostile := false
					if cl := inputClass(in); cl == "multibyte" || cl == "invalid-utf8" {
						hostile = true
					}
					nt := hostile && (o.ntok > 0 || (c.kind == "char_filter" && o.outLen > 0))
					if nt {
						res.nontriv++
					}
					if ii >= a.sweepFrom {
						res.sweep++ // systematic code point sweep: counted, not individually hashed
					} else {
						key := c.id() + "|" + strconv.FormatUint(hashBytes(in), 16)
						if feeder != nil {
							key += "|" + feeder.name
						}
						res.cases = append(res.cases, caseRec{key, nt})
					}
					if o.panicked {
						a.add(finding{comp: c, feeder: feeder, inIdx: ii, input: in, sig: panicSig(o)})
						continue
					}
					if c.kind == "tokenizer" {
						if which, _ := checkTokens(o.tokens, len(in)); which != "" {
							a.add(finding{comp: c, inIdx: ii, input: in, sig: which, isInv: true})
						}
					}
					if nt && c.kind != "datetime_parser" {
						a.maybeSample(c, feeder, in, o)
					}
				}
				res.seconds = time.Since(t0).Seconds()
				results <- res
			}
		}(w)
	}
	wg.Wait()
	close(results)
	<-accDone
	a.report()
	a.r.JournalReset()
}

func (a *analysisRun) add(f finding) {
	a.mu.Lock()
	a.findings = append(a.findings, f)
	a.mu.Unlock()
}

func (a *analysisRun) maybeSample(c *comp, feeder *comp, in []byte, o outcome) {
	if len(in) > 60 || len(in) < 4 || o.ntok == 0 || (c.kind != "tokenizer" && c.kind != "analyzer") || c.randomChain {
		return
	}
	a.sampleMu.Lock()
	ok := a.samples < 3
	if ok {
		a.samples++
	}
	a.sampleMu.Unlock()
	if !ok {
		return
	}
	s := map[string]any{"component": c.id(), "input": strconv.Quote(string(in)), "input_class": inputClass(in), "tokens": o.ntok}
	if feeder != nil {
		s["feeder_tokenizer"] = feeder.name
	}
	if c.kind == "tokenizer" {
		var ts []string
		for i, t := range o.tokens {
			if i == 6 {
				break
			}
			ts = append(ts, fmt.Sprintf("%q@[%d,%d)p%d", t.Term, t.Start, t.End, t.Position))
		}
		s["first_tokens"] = ts
	}
	a.r.Sample(s)
}

// report shrinks (a bounded number of) the findings of the round and turns them into violations.
func (a *analysisRun) report() {
	a.mu.Lock()
	fs := a.findings
	a.findings = nil
	a.mu.Unlock()
	sort.SliceStable(fs, func(i, j int) bool {
		if fs[i].comp.id() != fs[j].comp.id() {
			return fs[i].comp.id() < fs[j].comp.id()
		}
		if fs[i].sig != fs[j].sig {
			return fs[i].sig < fs[j].sig
		}
		if len(fs[i].input) != len(fs[j].input) {
			return len(fs[i].input) < len(fs[j].input)
		}
		return fs[i].inIdx < fs[j].inIdx
	})
	slot := len(a.wd.slots) - 1 // the coordinator's own watchdog slot
	for _, f := range fs {
		key := f.comp.id() + "#" + f.sig
		if f.isInv {
			a.r.Count("token_invariant_violations_seen", 1)
		} else {
			a.r.Count("panics_seen", 1)
		}
		if a.shrunk[key] >= shrinkPerSig {
			a.r.Count("findings_not_shrunk(same component and signature as a reported one)", 1)
			continue
		}
		a.shrunk[key]++
		if f.isInv {
			a.reportInvariant(slot, f)
		} else {
			a.reportPanic(slot, f)
		}
	}
}

func (a *analysisRun) guardedInvoke(slot int, c *comp, feeder *comp, in []byte) outcome {
	a.r.Journal(jrec{C: c.id() + " (shrinking)", I: -1, In: strconv.Quote(string(in))})
	a.wd.enter(slot, c.id(), in)
	o := invoke(c, feeder, in)
	a.wd.leave(slot)
	return o
}

func (a *analysisRun) reportInvariant(slot int, f finding) {
	fails := func(b []byte) bool {
		o := a.guardedInvoke(slot, f.comp, nil, b)
		if o.panicked {
			return false
		}
		w, _ := checkTokens(o.tokens, len(b))
		return w == f.sig
	}
	if !fails(f.input) {
		a.r.Count("findings_not_reproducible", 1)
		a.r.Violation("flaky/"+f.comp.id()+"/"+f.sig, "token invariant violation did not reproduce on replay", map[string]any{"input": strconv.Quote(string(f.input))})
		return
	}
	min := shrinkBytes(f.input, fails)
	o := a.guardedInvoke(slot, f.comp, nil, min)
	_, at := checkTokens(o.tokens, len(min))
	var ts []string
	for i, t := range o.tokens {
		if i > at+1 || i > 12 {
			break
		}
		ts = append(ts, fmt.Sprintf("%q@[%d,%d)p%d", t.Term, t.Start, t.End, t.Position))
	}
	class := "token-invariant/" + f.comp.id() + "/" + f.sig
	a.r.Violation(class,
		fmt.Sprintf("%s %s emits a token violating %s (token #%d) on %s (len %d)", f.comp.id(), f.comp.desc, f.sig, at, strconv.Quote(string(min)), len(min)),
		map[string]any{"component": f.comp.id(), "config": f.comp.desc, "input_quoted": strconv.Quote(string(min)), "input": min,
			"tokens": ts, "violated": f.sig, "original_input_quoted": strconv.Quote(string(f.input))})
}

// simplest feeders first, for naming a witness
var feederPreference = []string{"single", "whitespace", "unicode", "letter", "c19_rx_nonspace", "web"}

func (a *analysisRun) compNamed(kind, name string) *comp {
	for _, c := range a.cat.byKind[kind] {
		if c.name == name {
			return c
		}
	}
	return nil
}

func (a *analysisRun) reportPanic(slot int, f finding) {
	c, feeder := f.comp, f.feeder
	same := func(o outcome) bool { return o.panicked && panicSig(o) == f.sig }
	// call is the current (possibly reduced) way of reproducing the panic
	call := func(in []byte) outcome { return a.guardedInvoke(slot, c, feeder, in) }
	if !same(call(f.input)) {
		a.r.Count("findings_not_reproducible", 1)
		a.r.Violation("flaky/"+c.id()+"/"+f.sig, "panic did not reproduce on replay", map[string]any{"input": strconv.Quote(string(f.input))})
		return
	}
	min := shrinkBytes(f.input, func(b []byte) bool { return same(call(b)) })
	subject := c.id()
	desc := c.desc
	// a custom analyzer: drop parts of the chain while it still panics the same way
	if c.kind == "analyzer" && len(c.parts) > 0 {
		parts := append([]string(nil), c.parts...)
		invokeParts := func(ps []string, in []byte) outcome {
			an, err := a.cat.rebuildChain(ps)
			if err != nil {
				return outcome{}
			}
			return a.guardedInvoke(slot, &comp{kind: "analyzer", name: c.name, an: an}, nil, in)
		}
		try := func(ps []string, in []byte) bool { return same(invokeParts(ps, in)) }
		if try(parts, min) {
			for round := 0; round < 4; round++ {
				before := strings.Join(parts, "+") + string(min)
				for changed := true; changed; {
					changed = false
					for i := 0; i < len(parts); i++ {
						if strings.HasPrefix(parts[i], "tk:") {
							continue
						}
						cand := append(append([]string(nil), parts[:i]...), parts[i+1:]...)
						if try(cand, min) {
							parts, changed = cand, true
							i--
						}
					}
				}
				// simplest tokenizer that keeps it failing
				ti := 0
				for i, p := range parts {
					if strings.HasPrefix(p, "tk:") {
						ti = i
					}
				}
				for _, n := range feederPreference {
					cand := append([]string(nil), parts...)
					cand[ti] = "tk:" + n
					if try(cand, min) {
						parts = cand
						break
					}
				}
				ps := parts
				min = shrinkBytes(min, func(b []byte) bool { return try(ps, b) })
				if strings.Join(parts, "+")+string(min) == before {
					break
				}
			}
			ps := parts
			call = func(in []byte) outcome { return invokeParts(ps, in) }
			desc = strings.Join(parts, " ")
			switch {
			case len(parts) == 1:
				subject = "tokenizer/" + parts[0][3:]
			case len(parts) == 2 && strings.HasPrefix(parts[1], "tf:"):
				subject = "token_filter/" + parts[1][3:]
				desc = "fed by tokenizer " + parts[0][3:]
			default:
				subject = "chain/" + strings.Join(parts, "+")
			}
		}
	}
	if c.kind == "token_filter" {
		for _, n := range feederPreference {
			fc := a.compNamed("tokenizer", n)
			if fc != nil && same(a.guardedInvoke(slot, c, fc, min)) {
				feeder = fc
				break
			}
		}
		fd := feeder
		call = func(in []byte) outcome { return a.guardedInvoke(slot, c, fd, in) }
		min = shrinkBytes(min, func(b []byte) bool { return same(call(b)) })
		desc = strings.TrimSpace(desc + " fed by tokenizer " + feeder.name)
	}
	o := call(min)
	_, where := topFrame(o.stack)
	class := "panic/" + subject + "/" + inputClass(min) + "/" + panicKind(o.val)
	a.r.Violation(class,
		fmt.Sprintf("%s (%s) panics on %s (len %d): %v at %s", subject, desc, strconv.Quote(string(min)), len(min), o.val, where),
		map[string]any{"component": subject, "config": desc, "found_with": strings.TrimSpace(c.id() + " " + c.desc), "input_quoted": strconv.Quote(string(min)), "input": min,
			"input_valid_utf8": utf8.Valid(min), "panic": fmt.Sprint(o.val), "at": where, "signature": f.sig,
			"original_input_quoted": strconv.Quote(string(f.input))})
}
