package c19

import (
	"fmt"
	"sort"
	"strings"
	"time"

	"github.com/blevesearch/bleve/v2/analysis"
	"github.com/blevesearch/bleve/v2/registry"
	index "github.com/blevesearch/bleve_index_api"

	"verifharness/rng"
)

// A component under test. run gets a private copy of the input (several
// filters write into the buffer they are given) and returns what it produced.
type comp struct {
	kind        string   // char_filter | tokenizer | token_filter | analyzer | datetime_parser
	name        string   // registry name, or name of the configured variant
	desc        string   // configuration, for witnesses
	parts       []string // for custom analyzers: char filters, tokenizer, token filters (for chain shrinking)
	randomChain bool     // seeded random custom analyzer (does not get the code point sweep)

	cf  analysis.CharFilter
	tk  analysis.Tokenizer
	tf  analysis.TokenFilter
	an  analysis.Analyzer
	dtp analysis.DateTimeParser
}

func (c *comp) id() string { return c.kind + "/" + c.name }

type cfg = map[string]interface{}

type variant struct {
	name string
	conf cfg
}

func f(x int) float64 { return float64(x) }

func ifs(xs ...string) []interface{} {
	out := make([]interface{}, len(xs))
	for i, x := range xs {
		out[i] = x
	}
	return out
}

var tokenMapVariants = []variant{
	{"c19_tm_small", cfg{"type": "custom", "tokens": ifs("the", "and", "a", "of", "l", "d", "qu", "m", "c", "dell", "O", "漢字", "漢", "naïve", "и", "و", "\xff", "", "ball", "soft")}},
	{"c19_tm_compound", cfg{"type": "custom", "tokens": ifs("soft", "ball", "foot", "basket", "all", "ba", "a", "b", "al", "ll", "donau", "dampf", "schiff", "rind", "fleisch", "漢", "字", "漢字", "é", "ß", "\xff", "�", "��")}},
	{"c19_tm_empty", cfg{"type": "custom", "tokens": ifs()}},
}

var charFilterVariants = []variant{
	{"c19_cf_digits", cfg{"type": "regexp", "regexp": `[0-9]+`, "replace": "#"}},
	{"c19_cf_nospace", cfg{"type": "regexp", "regexp": `\s+`, "replace": ""}},
	{"c19_cf_stripmarks", cfg{"type": "regexp", "regexp": `(\p{L})\p{M}+`, "replace": "$1"}},
	{"c19_cf_double", cfg{"type": "regexp", "regexp": `(?s).`, "replace": "$0$0"}},
	{"c19_cf_default_replace", cfg{"type": "regexp", "regexp": `\x{200C}|\x{FFFD}|-`}},
	{"c19_cf_all", cfg{"type": "regexp", "regexp": `(?s).*`, "replace": "x"}},
	{"c19_cf_emptymatch", cfg{"type": "regexp", "regexp": `x*`, "replace": "-"}},
	{"c19_cf_nonascii", cfg{"type": "regexp", "regexp": `[^\x00-\x7F]`, "replace": "é"}},
}

var tokenizerVariants = []variant{
	{"c19_rx_w", cfg{"type": "regexp", "regexp": `\w+`}},
	{"c19_rx_nonspace", cfg{"type": "regexp", "regexp": `[^\s]+`}},
	{"c19_rx_letters_numbers", cfg{"type": "regexp", "regexp": `\p{L}+|\p{N}+`}},
	{"c19_rx_emptyok", cfg{"type": "regexp", "regexp": `[a-z]*`}},
	{"c19_rx_any", cfg{"type": "regexp", "regexp": `(?s).`}},
	{"c19_rx_cjk", cfg{"type": "regexp", "regexp": `\p{Han}|\p{Hangul}+|[^\p{Han}\p{Hangul}\s]+`}},
	{"c19_rx_wordbound", cfg{"type": "regexp", "regexp": `\b\S+\b`}},
	{"c19_ex_url_unicode", cfg{"type": "exception", "exceptions": ifs(`[hH][tT][tT][pP][sS]?://(\S)*`, `[fF][iI][lL][eE]://(\S)*`, `@\w+`), "tokenizer": "unicode"}},
	{"c19_ex_digits_ws", cfg{"type": "exception", "exceptions": []string{`\d+`}, "tokenizer": "whitespace"}},
	{"c19_ex_emptyok_rx", cfg{"type": "exception", "exceptions": ifs(`x*`), "tokenizer": "c19_rx_letters_numbers"}},
	{"c19_ex_comma_letter", cfg{"type": "exception", "exceptions": ifs(`,+`), "tokenizer": "letter"}},
	{"c19_ex_nonascii_rx", cfg{"type": "exception", "exceptions": ifs(`[^\x00-\x7f]+`), "tokenizer": "c19_rx_w"}},
	{"c19_ex_over_web", cfg{"type": "exception", "exceptions": ifs(`\$\w+`), "tokenizer": "web"}},
	{"c19_ex_over_single", cfg{"type": "exception", "exceptions": ifs(`[,;]`), "tokenizer": "single"}},
	{"c19_ex_over_rx_emptyok", cfg{"type": "exception", "exceptions": ifs(`\d+`), "tokenizer": "c19_rx_emptyok"}},
	{"c19_ex_any", cfg{"type": "exception", "exceptions": ifs(`(?s).`), "tokenizer": "unicode"}},
}

var tokenFilterVariants = []variant{
	{"c19_ngram_1_1", cfg{"type": "ngram", "min": f(1), "max": f(1)}},
	{"c19_ngram_1_2", cfg{"type": "ngram", "min": 1, "max": 2}},
	{"c19_ngram_2_3", cfg{"type": "ngram", "min": f(2), "max": f(3)}},
	{"c19_ngram_3_5", cfg{"type": "ngram", "min": f(3), "max": f(5)}},
	{"c19_ngram_1_8", cfg{"type": "ngram", "min": f(1), "max": f(8)}},
	{"c19_ngram_4_2", cfg{"type": "ngram", "min": f(4), "max": f(2)}},
	{"c19_edge_front_1_3", cfg{"type": "edge_ngram", "min": f(1), "max": f(3)}},
	{"c19_edge_front_2_5", cfg{"type": "edge_ngram", "min": f(2), "max": f(5), "back": false}},
	{"c19_edge_front_1_10", cfg{"type": "edge_ngram", "min": f(1), "max": f(10)}},
	{"c19_edge_back_1_3", cfg{"type": "edge_ngram", "min": f(1), "max": f(3), "back": true}},
	{"c19_edge_back_2_5", cfg{"type": "edge_ngram", "min": f(2), "max": f(5), "back": true}},
	{"c19_shingle_2_2", cfg{"type": "shingle", "min": f(2), "max": f(2)}},
	{"c19_shingle_2_3_orig", cfg{"type": "shingle", "min": f(2), "max": f(3), "output_original": true}},
	{"c19_shingle_1_3_nosep", cfg{"type": "shingle", "min": f(1), "max": f(3), "separator": "", "filler": ""}},
	{"c19_shingle_2_4_mb", cfg{"type": "shingle", "min": f(2), "max": f(4), "separator": "・", "filler": "＿", "output_original": true}},
	{"c19_length_min2", cfg{"type": "length", "min": f(2)}},
	{"c19_length_max5", cfg{"type": "length", "max": f(5)}},
	{"c19_length_3_3", cfg{"type": "length", "min": f(3), "max": f(3)}},
	{"c19_length_min300", cfg{"type": "length", "min": f(300)}},
	{"c19_truncate_0", cfg{"type": "truncate_token", "length": f(0)}},
	{"c19_truncate_1", cfg{"type": "truncate_token", "length": f(1)}},
	{"c19_truncate_3", cfg{"type": "truncate_token", "length": f(3)}},
	{"c19_truncate_10", cfg{"type": "truncate_token", "length": f(10)}},
	{"c19_compound_default", cfg{"type": "dict_compound", "dict_token_map": "c19_tm_compound"}},
	{"c19_compound_tiny", cfg{"type": "dict_compound", "dict_token_map": "c19_tm_compound", "min_word_size": f(1), "min_subword_size": f(1), "max_subword_size": f(3)}},
	{"c19_compound_longest", cfg{"type": "dict_compound", "dict_token_map": "c19_tm_compound", "min_word_size": f(2), "min_subword_size": f(1), "max_subword_size": f(20), "only_longest_match": true}},
	{"c19_compound_stop_de", cfg{"type": "dict_compound", "dict_token_map": "stop_de", "min_word_size": f(3)}},
	{"c19_elision_small", cfg{"type": "elision", "articles_token_map": "c19_tm_small"}},
	{"c19_elision_empty", cfg{"type": "elision", "articles_token_map": "c19_tm_empty"}},
	{"c19_stop_small", cfg{"type": "stop_tokens", "stop_token_map": "c19_tm_small"}},
	{"c19_stop_empty", cfg{"type": "stop_tokens", "stop_token_map": "c19_tm_empty"}},
	{"c19_kwmark_small", cfg{"type": "keyword_marker", "keywords_token_map": "c19_tm_small"}},
	{"c19_kwmark_stop_en", cfg{"type": "keyword_marker", "keywords_token_map": "stop_en"}},
	{"c19_norm_nfc", cfg{"type": "normalize_unicode", "form": "nfc"}},
	{"c19_norm_nfd", cfg{"type": "normalize_unicode", "form": "nfd"}},
	{"c19_norm_nfkc", cfg{"type": "normalize_unicode", "form": "nfkc"}},
	{"c19_norm_nfkd", cfg{"type": "normalize_unicode", "form": "nfkd"}},
	{"c19_snowball_english", cfg{"type": "stemmer_snowball", "language": "english"}},
	{"c19_snowball_spanish", cfg{"type": "stemmer_snowball", "language": "spanish"}},
	{"c19_snowball_french", cfg{"type": "stemmer_snowball", "language": "french"}},
	{"c19_snowball_russian", cfg{"type": "stemmer_snowball", "language": "russian"}},
	{"c19_snowball_swedish", cfg{"type": "stemmer_snowball", "language": "swedish"}},
	{"c19_snowball_norwegian", cfg{"type": "stemmer_snowball", "language": "norwegian"}},
	{"c19_snowball_unknown", cfg{"type": "stemmer_snowball", "language": "klingon"}},
	{"c19_hierarchy_nomax", cfg{"type": "hierarchy", "delimiter": "/"}},
	{"c19_hierarchy_max3_nosplit", cfg{"type": "hierarchy", "delimiter": "/", "max": f(3), "split_input": false}},
	{"c19_hierarchy_mb", cfg{"type": "hierarchy", "delimiter": "・", "max": f(5)}},
	{"c19_hierarchy_emptydelim", cfg{"type": "hierarchy", "delimiter": "", "max": f(50)}},
	{"c19_cjk_bigram_unigram", cfg{"type": "cjk_bigram", "output_unigram": true}},
}

var dateTimeVariants = []variant{
	{"c19_dt_flexible", cfg{"type": "flexiblego", "layouts": ifs(time.RFC3339Nano, time.RFC3339, "2006-01-02T15:04:05", "2006-01-02 15:04:05", "2006-01-02", time.RFC1123Z, time.Kitchen, "Jan _2 2006")}},
	{"c19_dt_iso", cfg{"type": "isostyle", "layouts": ifs("yyyy-MM-dd'T'HH:mm:ss.SSSXXX", "yyyy-MM-dd", "MMMM dd yyyy', 'HH:mm:ss.SSS", "d MMM yy H:m:s a xx", "yyyyy")}},
	{"c19_dt_percent", cfg{"type": "percentstyle", "layouts": ifs("%Y-%m-%dT%H:%M:%S%z", "%Y-%m-%d", "%B %e, %Y %l:%i %P %z:M", "%Y-%m-%dT%H:%M:%S.%N", "%H:%M:%S %Z %z:S", "%y/%m/%d %a %b")}},
	{"c19_dt_sanitized", cfg{"type": "sanitizedgo", "layouts": ifs(time.RFC3339, "2006-01-02", "02/01/2006 3:04PM", "Mon Jan _2 15:04:05 2006")}},
}

// hand-written custom analyzers (beyond the seeded random ones)
var analyzerVariants = []variant{
	{"c19_an_html_lower_shingle", cfg{"type": "custom", "char_filters": ifs("html", "asciifolding"), "tokenizer": "unicode", "token_filters": ifs("to_lower", "c19_shingle_2_3_orig")}},
	{"c19_an_ws_camel_ngram", cfg{"type": "custom", "tokenizer": "whitespace", "token_filters": []string{"camelCase", "to_lower", "c19_ngram_2_3"}}},
	{"c19_an_rx_cjk_bigram", cfg{"type": "custom", "tokenizer": "c19_rx_nonspace", "token_filters": ifs("cjk_width", "to_lower", "cjk_bigram")}},
	{"c19_an_rx_cjk_unigram", cfg{"type": "custom", "tokenizer": "c19_rx_cjk", "token_filters": ifs("c19_cjk_bigram_unigram", "unique")}},
	{"c19_an_web_stop_stem_reverse", cfg{"type": "custom", "char_filters": []string{"zero_width_spaces"}, "tokenizer": "web", "token_filters": ifs("to_lower", "stop_en", "stemmer_porter", "c19_edge_back_1_3")}},
	{"c19_an_compound_de", cfg{"type": "custom", "tokenizer": "letter", "token_filters": ifs("to_lower", "normalize_de", "c19_compound_tiny", "stemmer_de_light")}},
	{"c19_an_single_hierarchy", cfg{"type": "custom", "tokenizer": "single", "token_filters": ifs("c19_hierarchy_nomax")}},
	{"c19_an_double_cf", cfg{"type": "custom", "char_filters": ifs("c19_cf_double", "c19_cf_nospace"), "tokenizer": "c19_ex_url_unicode", "token_filters": ifs("c19_truncate_3", "c19_norm_nfkd", "apostrophe")}},
	{"c19_an_fr_like", cfg{"type": "custom", "tokenizer": "unicode", "token_filters": ifs("c19_elision_small", "to_lower", "c19_stop_small", "stemmer_fr_light", "stemmer_fr_min")}},
	{"c19_an_nofilters", cfg{"type": "custom", "tokenizer": "c19_rx_any"}},
}

type catalog struct {
	cache     *registry.Cache
	comps     []*comp
	feeders   []*comp // tokenizers used to feed token filters
	byKind    map[string][]*comp
	vocab     [][]byte
	problems  []string // configuration problems (types without variant, build errors)
	typeCount map[string]int
}

func sorted(xs []string) []string { sort.Strings(xs); return xs }

// buildCatalog builds every registered instance through a fresh registry cache, the configured
// variants above, and nRandom seeded random custom analyzers.
func buildCatalog(g *rng.Rand, nRandom int) (*catalog, error) {
	cat := &catalog{cache: registry.NewCache(), byKind: map[string][]*comp{}, typeCount: map[string]int{}}
	cache := cat.cache
	add := func(c *comp) {
		cat.comps = append(cat.comps, c)
		cat.byKind[c.kind] = append(cat.byKind[c.kind], c)
	}
	covered := func(kind string, types []string, vs []variant) {
		have := map[string]bool{}
		for _, v := range vs {
			have[v.conf["type"].(string)] = true
		}
		for _, t := range types {
			cat.typeCount[kind]++
			if !have[t] {
				cat.problems = append(cat.problems, fmt.Sprintf("%s type %q has no configured variant", kind, t))
			}
		}
	}

	// token maps (needed by filters; their words are the generator's vocabulary)
	tmTypes, tmInst := registry.TokenMapTypesAndInstances()
	covered("token_map", tmTypes, tokenMapVariants)
	seen := map[string]bool{}
	for _, n := range sorted(tmInst) {
		tm, err := cache.TokenMapNamed(n)
		if err != nil {
			return nil, fmt.Errorf("token map %s: %v", n, err)
		}
		var ws []string
		for w := range tm {
			ws = append(ws, w)
		}
		sort.Strings(ws)
		for _, w := range ws {
			if !seen[w] && len(w) > 0 {
				seen[w] = true
				cat.vocab = append(cat.vocab, []byte(w))
			}
		}
	}
	for _, v := range tokenMapVariants {
		if _, err := cache.DefineTokenMap(v.name, v.conf); err != nil {
			return nil, fmt.Errorf("token map %s: %v", v.name, err)
		}
	}

	// char filters
	cfTypes, cfInst := registry.CharFilterTypesAndInstances()
	covered("char_filter", cfTypes, charFilterVariants)
	for _, n := range sorted(cfInst) {
		x, err := cache.CharFilterNamed(n)
		if err != nil {
			return nil, fmt.Errorf("char filter %s: %v", n, err)
		}
		add(&comp{kind: "char_filter", name: n, cf: x})
	}
	for _, v := range charFilterVariants {
		x, err := cache.DefineCharFilter(v.name, v.conf)
		if err != nil {
			return nil, fmt.Errorf("char filter %s: %v", v.name, err)
		}
		add(&comp{kind: "char_filter", name: v.name, desc: fmt.Sprint(v.conf), cf: x})
	}

	// tokenizers
	tkTypes, tkInst := registry.TokenizerTypesAndInstances()
	covered("tokenizer", tkTypes, tokenizerVariants)
	for _, n := range sorted(tkInst) {
		x, err := cache.TokenizerNamed(n)
		if err != nil {
			return nil, fmt.Errorf("tokenizer %s: %v", n, err)
		}
		add(&comp{kind: "tokenizer", name: n, tk: x})
	}
	for _, v := range tokenizerVariants {
		x, err := cache.DefineTokenizer(v.name, v.conf)
		if err != nil {
			return nil, fmt.Errorf("tokenizer %s: %v", v.name, err)
		}
		add(&comp{kind: "tokenizer", name: v.name, desc: fmt.Sprint(v.conf), tk: x})
	}
	cat.feeders = cat.byKind["tokenizer"]

	// token filters
	tfTypes, tfInst := registry.TokenFilterTypesAndInstances()
	covered("token_filter", tfTypes, tokenFilterVariants)
	for _, n := range sorted(tfInst) {
		x, err := cache.TokenFilterNamed(n)
		if err != nil {
			return nil, fmt.Errorf("token filter %s: %v", n, err)
		}
		add(&comp{kind: "token_filter", name: n, tf: x})
	}
	for _, v := range tokenFilterVariants {
		x, err := cache.DefineTokenFilter(v.name, v.conf)
		if err != nil {
			return nil, fmt.Errorf("token filter %s: %v", v.name, err)
		}
		add(&comp{kind: "token_filter", name: v.name, desc: fmt.Sprint(v.conf), tf: x})
	}

	// analyzers: every registered instance (incl. every language analyzer) ...
	anTypes, anInst := registry.AnalyzerTypesAndInstances()
	covered("analyzer", anTypes, analyzerVariants)
	for _, n := range sorted(anInst) {
		x, err := cache.AnalyzerNamed(n)
		if err != nil {
			return nil, fmt.Errorf("analyzer %s: %v", n, err)
		}
		add(&comp{kind: "analyzer", name: n, an: x})
	}
	// ... hand-written custom analyzers ...
	partsOf := func(c cfg) []string {
		var p []string
		get := func(k string) []string {
			switch v := c[k].(type) {
			case []string:
				return v
			case []interface{}:
				var o []string
				for _, e := range v {
					o = append(o, e.(string))
				}
				return o
			}
			return nil
		}
		for _, x := range get("char_filters") {
			p = append(p, "cf:"+x)
		}
		p = append(p, "tk:"+c["tokenizer"].(string))
		for _, x := range get("token_filters") {
			p = append(p, "tf:"+x)
		}
		return p
	}
	for _, v := range analyzerVariants {
		x, err := cache.DefineAnalyzer(v.name, v.conf)
		if err != nil {
			return nil, fmt.Errorf("analyzer %s: %v", v.name, err)
		}
		add(&comp{kind: "analyzer", name: v.name, desc: strings.Join(partsOf(v.conf), " "), parts: partsOf(v.conf), an: x})
	}
	// ... and seeded random chains over everything built so far.
	names := func(kind string) []string {
		var o []string
		for _, c := range cat.byKind[kind] {
			o = append(o, c.name)
		}
		return o
	}
	cfNames, tkNames, tfNames := names("char_filter"), names("tokenizer"), names("token_filter")
	for i := 0; i < nRandom; i++ {
		gi := g.Derive(fmt.Sprintf("chain-%d", i))
		conf := cfg{"type": "custom", "tokenizer": tkNames[gi.Intn(len(tkNames))]}
		if gi.Chance(1, 3) {
			var cfs []interface{}
			for k := gi.Range(1, 2); k > 0; k-- {
				cfs = append(cfs, cfNames[gi.Intn(len(cfNames))])
			}
			conf["char_filters"] = cfs
		}
		// At most one filter that multiplies tokens or token length per chain: stacking them (hierarchy
		// then n-grams ...) is only slow - a trial chain needed 70 s for a 4 KiB input - and would
		// run into the 120 s non-termination rule without being a non-termination.
		var tfs []interface{}
		expanding := 0
		for k := gi.Range(1, 4); k > 0; k-- {
			n := tfNames[gi.Intn(len(tfNames))]
			for tries := 0; isExpanding(n) && expanding > 0 && tries < 20; tries++ {
				n = tfNames[gi.Intn(len(tfNames))]
			}
			if isExpanding(n) {
				if expanding > 0 {
					continue
				}
				expanding++
			}
			tfs = append(tfs, n)
		}
		conf["token_filters"] = tfs
		name := fmt.Sprintf("c19_chain_%03d", i)
		x, err := cache.DefineAnalyzer(name, conf)
		if err != nil {
			return nil, fmt.Errorf("analyzer %s: %v", name, err)
		}
		add(&comp{kind: "analyzer", name: name, desc: strings.Join(partsOf(conf), " "), parts: partsOf(conf), an: x, randomChain: true})
	}

	// date time parsers (registered analysis components; only "does not panic, terminates")
	dtTypes, dtInst := registry.DateTimeParserTypesAndInstances()
	covered("datetime_parser", dtTypes, dateTimeVariants)
	for _, n := range sorted(dtInst) {
		x, err := cache.DateTimeParserNamed(n)
		if err != nil {
			return nil, fmt.Errorf("datetime parser %s: %v", n, err)
		}
		add(&comp{kind: "datetime_parser", name: n, dtp: x})
	}
	for _, v := range dateTimeVariants {
		x, err := cache.DefineDateTimeParser(v.name, v.conf)
		if err != nil {
			return nil, fmt.Errorf("datetime parser %s: %v", v.name, err)
		}
		add(&comp{kind: "datetime_parser", name: v.name, desc: fmt.Sprint(v.conf), dtp: x})
	}
	return cat, nil
}

// rebuildChain builds an (unregistered) analyzer from parts "cf:x", "tk:y", "tf:z" using the
// already built components; used to shrink a failing custom analyzer.
func (cat *catalog) rebuildChain(parts []string) (analysis.Analyzer, error) {
	a := &analysis.DefaultAnalyzer{}
	for _, p := range parts {
		kind, name := p[:3], p[3:]
		var err error
		switch kind {
		case "cf:":
			var x analysis.CharFilter
			if x, err = cat.cache.CharFilterNamed(name); err == nil {
				a.CharFilters = append(a.CharFilters, x)
			}
		case "tk:":
			a.Tokenizer, err = cat.cache.TokenizerNamed(name)
		case "tf:":
			var x analysis.TokenFilter
			if x, err = cat.cache.TokenFilterNamed(name); err == nil {
				a.TokenFilters = append(a.TokenFilters, x)
			}
		}
		if err != nil {
			return nil, err
		}
	}
	if a.Tokenizer == nil {
		return nil, fmt.Errorf("no tokenizer")
	}
	return a, nil
}

var termVectors = index.IndexField | index.IncludeTermVectors

func isExpanding(filter string) bool {
	// camelCase is quadratic in the token length, so it counts too (after hierarchy it would see very long tokens)
	for _, p := range []string{"c19_ngram", "c19_edge", "c19_shingle", "c19_compound", "c19_hierarchy", "c19_cjk_bigram_unigram", "cjk_bigram", "camelCase"} {
		if strings.HasPrefix(filter, p) {
			return true
		}
	}
	return false
}
