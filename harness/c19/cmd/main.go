package main

import (
	_ "verifharness/c19"
	"verifharness/ev"
)

func main() { ev.Main() }
