package c19

import (
	"unicode/utf8"

	"verifharness/rng"
)

// ---------------------------------------------------------------------------
// Byte generator: valid and invalid UTF-8, empty, very long tokens, mixed
// scripts, HTML, e-mails/URLs, combining marks, NUL, 0xff (DESIGN §4.1 "Bytes").
// Everything is a pure function of the *rng.Rand passed in.

type runeRange struct{ lo, hi rune }

// scripts used by the language analyzers / normalisers / stemmers in /repo/analysis/lang
// plus blocks with special handling in asciifolding, cjk_width, to_lower, reverse.
var scripts = map[string][]runeRange{
	"latin":      {{'a', 'z'}, {'a', 'z'}, {'A', 'Z'}, {0xC0, 0x17F}, {0x180, 0x24F}},
	"latin-ext":  {{0x1E00, 0x1EFF}, {0x2C60, 0x2C7F}, {0xA720, 0xA7FF}, {0x1D00, 0x1DBF}, {0xFB00, 0xFB06}},
	"digits":     {{'0', '9'}, {0x660, 0x669}, {0x6F0, 0x6F9}, {0x966, 0x96F}, {0xFF10, 0xFF19}, {0x2460, 0x24FF}, {0x2776, 0x2793}},
	"greek":      {{0x370, 0x3FF}, {0x1F00, 0x1FFF}},
	"cyrillic":   {{0x400, 0x4FF}, {0x430, 0x44F}},
	"armenian":   {{0x531, 0x58F}},
	"hebrew":     {{0x591, 0x5F4}},
	"arabic":     {{0x600, 0x6FF}, {0x621, 0x64A}, {0x64B, 0x65F}, {0x750, 0x77F}, {0xFB50, 0xFDFF}, {0xFE70, 0xFEFF}},
	"devanagari": {{0x900, 0x97F}},
	"indic":      {{0x980, 0x9FF}, {0xA00, 0xA7F}, {0xA80, 0xAFF}, {0xB00, 0xB7F}, {0xB80, 0xBFF}, {0xC00, 0xC7F}, {0xC80, 0xCFF}, {0xD00, 0xD7F}},
	"thai":       {{0xE00, 0xE7F}},
	"hangul":     {{0xAC00, 0xD7A3}, {0x1100, 0x11FF}, {0x3130, 0x318F}},
	"kana":       {{0x3040, 0x309F}, {0x30A0, 0x30FF}, {0xFF65, 0xFF9F}, {0x31F0, 0x31FF}},
	"han":        {{0x4E00, 0x4E80}, {0x4E00, 0x9FFF}, {0x3400, 0x3410}, {0x20000, 0x20010}, {0xF900, 0xFA2F}},
	"fullwidth":  {{0xFF00, 0xFFEF}},
	"combining":  {{0x300, 0x36F}, {0x20D0, 0x20FF}, {0x1AB0, 0x1AFF}, {0xFE20, 0xFE2F}, {0x483, 0x489}, {0x900, 0x903}, {0x93A, 0x94F}},
	"punct":      {{0x2000, 0x206F}, {0x2E00, 0x2E4F}, {0x3000, 0x303F}, {0x21, 0x2F}, {0x3A, 0x40}, {0x5B, 0x60}, {0x7B, 0x7E}, {0xA0, 0xBF}},
	"symbols":    {{0x2070, 0x209F}, {0x20A0, 0x20BF}, {0x2100, 0x218F}, {0x2190, 0x21FF}, {0x2200, 0x22FF}, {0x2500, 0x25FF}, {0x1F300, 0x1F64F}, {0x1F1E6, 0x1F1FF}},
	// code points that expand to several characters under ASCII folding / compatibility normalisation
	"expanding": {{0x2460, 0x24FF}, {0x3200, 0x32FF}, {0x3300, 0x33FF}, {0xFB00, 0xFB06}, {0xFDFA, 0xFDFB}, {0x2150, 0x215F}, {0xBC, 0xBE}, {0x1F100, 0x1F10A}, {0x2474, 0x2487}, {0x247D, 0x2487}},
	"control":   {{0, 0x1F}, {0x7F, 0x9F}, {0xFFF0, 0xFFFF}, {0xE000, 0xE010}, {0xE0001, 0xE007F}, {0xE0100, 0xE01EF}, {0x10FFF0, 0x10FFFF}},
}

var scriptNames = []string{
	"latin", "latin", "latin", "latin-ext", "digits", "greek", "cyrillic", "armenian", "hebrew", "arabic", "arabic",
	"devanagari", "indic", "thai", "hangul", "kana", "han", "han", "fullwidth", "combining", "punct", "symbols", "control", "expanding",
}

// runes with special treatment somewhere in the analysis code
var specialRunes = []rune{
	'Σ', 'σ', 'ς', 'Ⱥ', 'Ⱦ', 'ⱥ', 'ⱦ', 'İ', 'ı', 'I', 'i', 0x212A /* KELVIN */, 0x212B /* ANGSTROM */, 'ſ', 'ß', 'ẞ', 'ǅ', 'ǈ',
	0xFFFD, 0x200C, 0x200D, 0x200B, 0xFEFF, 0x00AD, 0x2019, '\'', 0x2018, 0x02BC, 0xFF07, 0x0345, 0x0307, 0x0301, 0x20DD, 0x0903,
	0x0640, 0x064B, 0x0670, 0x06CC, 0x06D2, 0x0643, 0x06A9, 0x0649, 0x064A, 0x0629, 0x0647, 0x06C0, 0x06D5, 0x0622, 0x0623, 0x0625, 0x0627,
	0x093C, 0x094D, 0x0901, 0x0902, 0x0929, 0x0931, 0x0934, 0x0958, 0x095F, 0x0972, 0x09CB, 0x09CC, 0x0B94, 0x0BCA, 0x0D4A,
	0x3000, 0xFF01, 0xFF5E, 0xFF61, 0xFF9E, 0xFF9F, 0x30AB, 0x30AC, 0xFF76, 0x3099, 0x309A, 0x30FB, 0x30FC,
	0, 0x7F, 0x80, 0x85, 0xA0, 0x2028, 0x2029, 0xD7FF, 0xE000, 0xFFFE, 0xFFFF, 0x10000, 0x10FFFF, 0x1F600, 0x1F1FA, 0x1F1F8,
	0x247D, 0x2487, 0x2480, 0xFDFA, 0x337F, 0xFB04, 0x2153, 0x3300, // the longest expansions under folding / normalisation
	'ä', 'ö', 'ü', 'Ä', 'Ö', 'Ü', 'é', 'è', 'ñ', 'ç', 'ø', 'å', 'æ', 'œ', 'š', 'č', 'ć', 'ž', 'đ', 'ğ', 'ş', 'ő', 'ű', 'ă', 'î', 'ț',
}

// byte sequences that are not valid UTF-8
var invalidSeqs = [][]byte{
	{0xff}, {0xfe}, {0x80}, {0xbf}, {0xc0}, {0xc1}, {0xc0, 0x80}, {0xc0, 0xaf}, {0xc2}, {0xe0}, {0xe0, 0x80}, {0xe0, 0x80, 0x80},
	{0xe2, 0x82}, {0xe4, 0xb8}, {0xed, 0xa0, 0x80}, {0xed, 0xbf, 0xbf}, {0xef, 0xbf}, {0xf0}, {0xf0, 0x80, 0x80, 0x80}, {0xf0, 0x9f}, {0xf0, 0x9f, 0x98},
	{0xf4, 0x90, 0x80, 0x80}, {0xf5, 0x80, 0x80, 0x80}, {0xf8, 0x88, 0x80, 0x80, 0x80}, {0xfc, 0x84, 0x80, 0x80, 0x80, 0x80},
	{0xd8, 0x00}, {0x00, 0xd8}, {0xff, 0xfe}, {0xfe, 0xff}, {0xff, 0xff, 0xff, 0xff},
}

var separators = []string{
	" ", " ", " ", " ", "\t", "\n", "\r\n", "  ", ".", ", ", "-", "_", "'", "’", "/", ":", ";", "!", "?", "@", "#", "&", "‌", "　", " ",
	" ", "", "", "", "...", "—", "(", ")", "\"", "<", ">", "=", "+", "*", "\\", "|", "\x00", "・", "،", "।",
}

var pieces = []string{
	"<b>", "</b>", "<a href=\"http://x.y/z\">", "<a href='q' id=r>", "<br/>", "<!DOCTYPE html>", "<!-- c -->", "< a", "<a", "<a b=", "<a b=\"", "<p class=x", "</", "&amp;", "&lt;", "&#x4e2d;", "&", "<script>x<y</script>",
	"foo@bar.com", "a.b+c@d-e.co.uk", "\"q r\"@x.io", "x@[10.0.0.1]", "x@[1.2.3", "@", "a@", "@b", "a@b", "user@exämple.com",
	"http://blevesearch.com", "https://a.b/c?d=e&f=(g)#h", "http://x.y/(a(b)c)", "http://x.y/((((((((", "www.x.y", "www1.", "ftp://", "x.y.co/", "a.bc/", "mailto:a@b.c", "http://中文.cn/路径", "HTTP://X.Y",
	"@blevesearch", "@a_b_c_d_e_f_g_h_i_j_k", "#golang", "#1", "#中", "@@", "##", "#", "@#",
	"camelCase", "CamelCASEWord", "HTMLParser2Go", "aB", "Ab", "AB", "a1B2", "XMLHttpRequest", "ÉcoleÉté", "i18n", "xÄy", "ǅx",
	"l'homme", "l’homme", "d'", "'", "qu'il", "l''", "'l", "c’", "m'b'c", "dell'arte", "O'Neil's", "dogs'", "'s", "’s", "'S", "s'",
	"2024-01-02T03:04:05Z", "2024-01-02", "1/2/2006", "12:34:56.789", "1700000000", "1700000000000", "-1", "+1e9", "0x1F", "1,234.56", "3.14", "1e309", "NaN", "Inf", "-0",
	"softball", "football", "basketball", "Donaudampfschiff", "rindfleisch", "ballball",
	"running", "ponies", "caresses", "agreed", "generously", "conditional", "sses", "ies", "s", "ss", "ing", "ational", "eed", "y", "yyy",
	"الكتاب", "والكتاب", "كتابها", "لل", "ال", "و", "بال",
	"کتاب‌ها", "پیاوەکان", "کوردی", "ه‌", "ھە",
	"किताबें", "लड़कियों", "क्", "क़", "अँ", "न्‍",
	"漢字", "漢", "カタカナ", "ｶﾞ", "ﾊﾟ", "ひらがな", "한글", "ＡＢＣ", "一二三四五",
	"ΣΊΣΥΦΟΣ", "Σ", "AΣ", "Ⱥ", "Ⱦa", "aȺȾ", "İstanbul", "İ", "K", "ﬁ", "ẞ",
	"é́̂", "é", "́", "́́a", "a⃝", "काः", "\U0001f1fa\U0001f1f8", "\U0001f468‍\U0001f469", "\ufeffx",
	"groß", "GROß", "straße", "äu", "ae", "oe", "ue", "üü", "niños", "año", "ça", "muñecas",
	"книгами", "домов", "љ", "ёж", "kućama", "čovjek", "gradovima", "ljudi", "nj",
	"kitaplarımızdan", "çocuklar", "iş'ten", "İŞ",
	"գիրքեր", "ა", "שלום",
	"⑽", "⑽⑾⑿", "⒇⒇", "x⑽⑾⑿", "ﷺ", "㍿㍿", "ﬄﬄﬄ", "⑽⑾⑿⒀⒁⒂⒃⒄⒅⒆⒇",
}

func randRuneIn(g *rng.Rand, rs []runeRange) rune {
	for tries := 0; tries < 8; tries++ {
		rr := rs[g.Intn(len(rs))]
		r := rr.lo + rune(g.Intn(int(rr.hi-rr.lo)+1))
		if r >= 0xD800 && r <= 0xDFFF {
			continue
		}
		return r
	}
	return 'x'
}

func (c *corpusGen) word(g *rng.Rand, script string, maxRunes int) []byte {
	n := 1 + g.Intn(maxRunes)
	if g.Chance(1, 2) && n > 8 {
		n = 1 + g.Intn(8)
	}
	rs := scripts[script]
	out := make([]byte, 0, n*3)
	for i := 0; i < n; i++ {
		var r rune
		switch {
		case g.Chance(1, 12):
			r = specialRunes[g.Intn(len(specialRunes))]
		case g.Chance(1, 15):
			r = randRuneIn(g, scripts["combining"])
		default:
			r = randRuneIn(g, rs)
		}
		out = utf8.AppendRune(out, r)
	}
	return out
}

type corpusGen struct {
	vocab [][]byte // words of all registered token maps (stop words, articles)
}

func (c *corpusGen) vocabWord(g *rng.Rand) []byte {
	if len(c.vocab) == 0 {
		return []byte("the")
	}
	w := append([]byte(nil), c.vocab[g.Intn(len(c.vocab))]...)
	switch g.Intn(8) {
	case 0: // add a suffix in the same script (stemmer food)
		r, _ := utf8.DecodeLastRune(w)
		for i := g.Range(1, 4); i > 0; i-- {
			w = utf8.AppendRune(w, r+rune(g.Intn(5))-2)
		}
	case 1: // article + apostrophe
		ap := []string{"'", "’"}[g.Intn(2)]
		w = append(append(append([]byte(nil), c.vocab[g.Intn(len(c.vocab))]...), ap...), w...)
	case 2: // double it (compound)
		w = append(w, c.vocab[g.Intn(len(c.vocab))]...)
	case 3: // possessive
		w = append(w, []string{"'s", "’s", "'S", "'"}[g.Intn(4)]...)
	}
	return w
}

func targetLen(g *rng.Rand) int {
	switch x := g.Intn(100); {
	case x < 45:
		return g.Range(1, 24)
	case x < 80:
		return g.Range(8, 160)
	case x < 96:
		return g.Range(100, 900)
	default:
		return g.Range(600, 4096)
	}
}

// text builds a valid-UTF-8 text of about n bytes.
func (c *corpusGen) text(g *rng.Rand, n int) []byte {
	out := make([]byte, 0, n+32)
	ns := g.Range(1, 3)
	sc := make([]string, ns)
	for i := range sc {
		sc[i] = scriptNames[g.Intn(len(scriptNames))]
	}
	mode := g.Intn(4) // 0 script words, 1 vocab words, 2 pieces, 3 mixed
	for len(out) < n {
		m := mode
		if m == 3 {
			m = g.Intn(3)
		}
		switch m {
		case 0:
			out = append(out, c.word(g, sc[g.Intn(ns)], 12)...)
		case 1:
			out = append(out, c.vocabWord(g)...)
		default:
			out = append(out, pieces[g.Intn(len(pieces))]...)
		}
		out = append(out, separators[g.Intn(len(separators))]...)
	}
	if g.Chance(1, 2) { // do not always end in a separator
		for len(out) > 0 {
			_, sz := utf8.DecodeLastRune(out)
			out = out[:len(out)-sz]
			if g.Chance(1, 2) {
				break
			}
		}
	}
	return out
}

func (c *corpusGen) longToken(g *rng.Rand, n int) []byte {
	var unit []byte
	switch g.Intn(8) {
	case 0:
		unit = []byte("a")
	case 1:
		unit = []byte("漢")
	case 2:
		unit = []byte("́")
	case 3:
		unit = []byte("aB")
	case 4:
		unit = utf8.AppendRune(nil, specialRunes[g.Intn(len(specialRunes))])
	case 5:
		unit = []byte(pieces[g.Intn(len(pieces))])
	case 6:
		unit = c.word(g, scriptNames[g.Intn(len(scriptNames))], 3)
	default:
		unit = []byte{byte(g.Intn(256))}
	}
	out := make([]byte, 0, n+len(unit))
	if g.Chance(1, 3) {
		out = append(out, c.vocabWord(g)...)
	}
	for len(out) < n {
		out = append(out, unit...)
	}
	if g.Chance(1, 3) {
		out = append(out, c.vocabWord(g)...)
	}
	return out
}

// corrupt makes (usually) invalid UTF-8 out of b.
func corrupt(g *rng.Rand, b []byte) []byte {
	out := append([]byte(nil), b...)
	for k := g.Range(1, 3); k > 0; k-- {
		switch g.Intn(6) {
		case 0, 1: // insert an invalid sequence
			p := g.Intn(len(out) + 1)
			s := invalidSeqs[g.Intn(len(invalidSeqs))]
			out = append(out[:p], append(append([]byte(nil), s...), out[p:]...)...)
		case 2: // cut in the middle
			if len(out) > 0 {
				out = out[:g.Intn(len(out))]
			}
		case 3: // cut the head
			if len(out) > 0 {
				out = out[g.Intn(len(out)):]
			}
		case 4: // flip a byte
			if len(out) > 0 {
				out[g.Intn(len(out))] = byte(g.Intn(256))
			}
		default: // delete a byte
			if len(out) > 0 {
				p := g.Intn(len(out))
				out = append(out[:p], out[p+1:]...)
			}
		}
	}
	return out
}

// Input is one generated byte string.
func (c *corpusGen) Input(g *rng.Rand) []byte {
	n := targetLen(g)
	switch x := g.Intn(100); {
	case x < 8:
		return g.Bytes(n)
	case x < 12: // bytes biased to the interesting lead/continuation values
		b := make([]byte, n)
		alphabet := []byte{0, ' ', 'a', 'Z', '\'', '<', '>', 0x80, 0xbf, 0xc2, 0xe0, 0xe4, 0xb8, 0xad, 0xed, 0xa0, 0xef, 0xbf, 0xbd, 0xf0, 0x9f, 0xf4, 0xff}
		for i := range b {
			b[i] = alphabet[g.Intn(len(alphabet))]
		}
		return b
	case x < 62:
		return c.text(g, n)
	case x < 70:
		return c.longToken(g, n)
	default:
		var base []byte
		if g.Chance(1, 6) {
			base = c.longToken(g, n)
		} else {
			base = c.text(g, n)
		}
		return corrupt(g, base)
	}
}

// edgeInputs is the fixed part of the corpus: empty, every single byte, a few pairs.
func edgeInputs() [][]byte {
	out := [][]byte{{}}
	for i := 0; i < 256; i++ {
		out = append(out, []byte{byte(i)})
	}
	for _, s := range invalidSeqs {
		out = append(out, s, append([]byte("a"), s...), append(append([]byte("ab "), s...), " cd"...), append(append([]byte("漢"), s...), "字"...))
	}
	for _, r := range specialRunes {
		out = append(out, utf8.AppendRune(nil, r), utf8.AppendRune([]byte("a"), r), append(utf8.AppendRune(nil, r), 'a'), append(utf8.AppendRune([]byte("ab"), r), "cd ef"...))
	}
	for _, p := range pieces {
		out = append(out, []byte(p))
	}
	return out
}

// sweepInput returns the input for one chunk of the code-point sweep: the valid
// runes of [lo,hi) in one of several arrangements.
func sweepInput(lo, hi rune, form int) []byte {
	var out []byte
	for r := lo; r < hi; r++ {
		if r >= 0xD800 && r <= 0xDFFF || r > 0x10FFFF {
			continue
		}
		switch form {
		case 0: // one token
			out = utf8.AppendRune(out, r)
		case 1: // one token per rune
			out = utf8.AppendRune(out, r)
			out = append(out, ' ')
		default: // each rune inside a latin word
			out = append(out, 'a')
			out = utf8.AppendRune(out, r)
			out = append(out, "b "...)
		}
	}
	return out
}

func inputClass(b []byte) string {
	if len(b) == 0 {
		return "empty"
	}
	if !utf8.Valid(b) {
		return "invalid-utf8"
	}
	for _, c := range b {
		if c >= 0x80 {
			return "multibyte"
		}
	}
	return "ascii"
}
