package c19

import (
	"fmt"
	"html"
	"sort"
	"strconv"
	"strings"
	"sync"
	"unicode"
	"unicode/utf8"

	"github.com/blevesearch/bleve/v2"
	"github.com/blevesearch/bleve/v2/index/upsidedown"
	"github.com/blevesearch/bleve/v2/index/upsidedown/store/gtreap"
	"github.com/blevesearch/bleve/v2/search"
	"github.com/blevesearch/bleve/v2/search/query"

	"verifharness/ev"
	"verifharness/rng"
)

// ---------------------------------------------------------------------------
// Highlighting through the public API.
//
// Oracle (own model, DESIGN §5 C19 "Highlight oracle detail"): strip the separator, split the
// fragment at the markers, undo the escaping; the remaining text T must occur in one element V of
// the stored field value at some offset o such that every marked span [a,b) of T is exactly a
// reported location (o+a, o+b) of that element (or the union of a chain of overlapping reported
// locations - bleve merges overlapping locations before formatting). Any such occurrence is accepted.

type hlStyle struct {
	name          string
	before, after string
	sep           string
	escHTML       bool
	size          int
}

const (
	puaBefore = "\ue000"
	puaAfter  = "\ue001"
	puaSep    = "\ue002"
	ansiReset = "\x1b[0m"
)

var hlSizes = []int{1, 2, 3, 5, 8, 13, 21, 40, 100, 200, 500}

var (
	stylesOnce sync.Once
	styles     []hlStyle
	stylesErr  error
)

// defineStyles registers fragmenters / formatters / highlighters of all fragment sizes in the
// library-wide cache (that is where SearchRequest.Highlight.Style is looked up).
func defineStyles() ([]hlStyle, error) {
	stylesOnce.Do(func() {
		styles = []hlStyle{
			{name: "html", before: "<mark>", after: "</mark>", sep: "…", escHTML: true, size: 200},
			{name: "ansi", before: "\x1b[43m", after: ansiReset, sep: "…", size: 200},
		}
		c := bleve.Config.Cache
		fail := func(err error) bool {
			if err != nil && stylesErr == nil {
				stylesErr = err
			}
			return err != nil
		}
		_, err := c.DefineFragmentFormatter("c19_fmt_html", cfg{"type": "html", "before": puaBefore, "after": puaAfter})
		if fail(err) {
			return
		}
		_, err = c.DefineFragmentFormatter("c19_fmt_ansi", cfg{"type": "ansi", "color": puaBefore})
		if fail(err) {
			return
		}
		_, err = c.DefineFragmentFormatter("c19_fmt_plain", cfg{"type": "plain", "before": puaBefore, "after": puaAfter})
		if fail(err) {
			return
		}
		for _, sz := range hlSizes {
			fr := fmt.Sprintf("c19_frag_%d", sz)
			_, err = c.DefineFragmenter(fr, cfg{"type": "simple", "size": float64(sz)})
			if fail(err) {
				return
			}
			for _, k := range []string{"html", "ansi", "plain"} {
				name := fmt.Sprintf("c19_hl_%s_%d", k, sz)
				_, err = c.DefineHighlighter(name, cfg{"type": "simple", "fragmenter": fr, "formatter": "c19_fmt_" + k, "separator": puaSep})
				if fail(err) {
					return
				}
				st := hlStyle{name: name, before: puaBefore, after: puaAfter, sep: puaSep, escHTML: k == "html", size: sz}
				if k == "ansi" {
					st.after = ansiReset
				}
				styles = append(styles, st)
			}
		}
	})
	return styles, stylesErr
}

// fields of the highlight corpus: name -> analyzer; none of them has a char filter.
type hlField struct {
	name, analyzer string
	// the harness' own model of what a location of this field must hold: "" none; "ws" term = text at the
	// location, which is a whitespace-delimited word; "kw" the whole element; "ngram" a piece of a
	// whitespace-delimited word; "ascii-lower" (tokenizer + to_lower [+ stop]) if the text at the
	// location is pure ASCII then the term is its lower case
	model       string
	overlapping bool // analyzer emits overlapping tokens: merged marks are legitimate
}

var hlFields = []hlField{
	{name: "f_std", analyzer: "standard", model: "ascii-lower"},
	{name: "f_simple", analyzer: "simple", model: "ascii-lower"},
	{name: "f_kw", analyzer: "keyword", model: "kw"},
	{name: "f_web", analyzer: "web", model: "ascii-lower"},
	{name: "f_en", analyzer: "en"},
	{name: "f_fr", analyzer: "fr"},
	{name: "f_ru", analyzer: "ru"},
	{name: "f_cjk", analyzer: "cjk", overlapping: true},
	{name: "f_ws", analyzer: "c19_ws", model: "ws"},
	{name: "f_wslc", analyzer: "c19_ws_lower", model: "ascii-lower"},
	{name: "f_wsng", analyzer: "c19_ws_ngram", model: "ngram", overlapping: true},
	{name: "f_comp", analyzer: "c19_ws_compound", overlapping: true}, // sub-word tokens inside the span of the compound
}

var hlVocab = []string{
	"alpha", "alpah", "alps", "beta", "bet", "gamma", "Alpha", "BETA", "the", "of", "running", "runs",
	"naïve", "café", "über", "Ünïcode", "straße", "ΣΟΦΟΣ", "привет", "мир", "книги", "日本語", "東京", "東京都", "カタカナ", "한국어", "🙂",
	"<b>", "</b>", "a&b", "\"quoted\"", "it's", "x<y", "&amp;", "<mark>", "l'école", "écoles", "a@b.co", "http://x.y/z", "#tag", "@user", "R&D", "c'est",
	"footballer", "softball", "basketballs", "ballgame", "ball", "foot",
}

var hlSeps = []string{" ", " ", " ", " ", ", ", ". ", "\n", " - ", "  ", "\t", "; ", " & ", " <br> "}

var hlKwValues = []string{"alpha", "alpha beta", "東京", "naïve café", "a&b <b>", "Alpha", "x<y"}

type hlDoc struct {
	id     string
	fields map[string]interface{}
}

type element struct {
	ap  []uint64
	val string
}

func flatten(v interface{}, ap []uint64, out *[]element) {
	switch x := v.(type) {
	case string:
		*out = append(*out, element{ap: append([]uint64(nil), ap...), val: x})
	case []interface{}:
		for i, e := range x {
			flatten(e, append(ap, uint64(i)), out)
		}
	}
}

func hlText(g *rng.Rand, words int) string {
	var b strings.Builder
	for i := 0; i < words; i++ {
		if i > 0 {
			b.WriteString(hlSeps[g.Intn(len(hlSeps))])
		}
		b.WriteString(hlVocab[g.Intn(len(hlVocab))])
		if g.Chance(1, 40) { // hostile bytes inside a stored value
			b.WriteString([]string{"\xff", "\xe6\x97", "\xc0\xaf", "\xf0\x9f"}[g.Intn(4)])
		}
	}
	return b.String()
}

func hlWords(g *rng.Rand) int {
	switch g.Intn(4) {
	case 0:
		return g.Range(1, 4)
	case 1:
		return g.Range(3, 15)
	case 2:
		return g.Range(10, 60)
	default:
		return g.Range(40, 160)
	}
}

func hlValue(g *rng.Rand, fd hlField, depth int) interface{} {
	if depth < 2 && g.Chance(1, 3) {
		n := g.Range(1, 4)
		arr := make([]interface{}, n)
		for i := range arr {
			arr[i] = hlValue(g, fd, depth+1)
		}
		return arr
	}
	if fd.model == "kw" {
		return hlKwValues[g.Intn(len(hlKwValues))]
	}
	return hlText(g, hlWords(g))
}

// Regression scenario of the highlight defects found by this monitor (replayed on every run).
var hlRegressionDocs = map[string]map[string]interface{}{
	// MergeOverlapping shrinks a merged location when a later overlapping one ends earlier:
	// "zzballzz" [0,8) + "ball" [2,6) is marked as "zzball"
	"reg-compound": {"f_comp": "zzballzz here"},
}

var hlRegressionQueries = []struct{ field, match, style string }{
	{"f_comp", "zzballzz ball", "c19_hl_plain_100"},
	{"f_comp", "zzballzz ball", "html"},
}

type hlStats struct {
	searches, hits, fragments, marks, nontrivial int
}

// runHighlightAPI builds nIdx small indexes and runs nQueries highlighted searches on each.
func runHighlightAPI(r *ev.Run, wd *watchdog, workers int, nIdx, nDocs, nQueries int) {
	sts, err := defineStyles()
	if err != nil {
		r.Inconclusive("cannot define highlighters: " + err.Error())
		return
	}
	var wg sync.WaitGroup
	sem := make(chan int, workers)
	for w := 0; w < workers; w++ {
		sem <- w
	}
	for ix := 0; ix < nIdx; ix++ {
		wg.Add(1)
		go func(ix int) {
			defer wg.Done()
			slot := <-sem
			defer func() { sem <- slot }()
			g := r.Rng(fmt.Sprintf("hl-index-%d", ix))
			hlOneIndex(r, wd, slot, g, ix, sts, nDocs, nQueries, nil)
		}(ix)
	}
	// fixed regression scenarios, each on a scorch (ix%3==1) and an upsidedown (ix%3==2) index of its own
	for k := range hlScenarios {
		for e := 0; e < 2; e++ {
			wg.Add(1)
			go func(k, e int) {
				defer wg.Done()
				slot := <-sem
				defer func() { sem <- slot }()
				ix := 1000 + 3*k + 1 + e
				hlOneIndex(r, wd, slot, r.Rng(fmt.Sprintf("hl-index-%d", ix)), ix, sts, 0, 0, &hlScenarios[k])
			}(k, e)
		}
	}
	wg.Wait()
}

// A fixed scenario: exactly these documents (indexed in this order) and these queries.
type hlScenario struct {
	what    string
	docs    []map[string]interface{}
	queries []func() (query.Query, string, string) // query, description, field
}

var hlScenarios = []hlScenario{
	{
		// PhraseSearcher hands the same ArrayPositions slice to several FieldTermLocations; the recycled
		// DocumentMatch then has two slots sharing one backing array and the next term match written into
		// it reports a location with the array positions of another one ("al" of "basketballs" [21,32) in
		// element 0 reported at array positions [1]).
		what: "phrase searcher aliases ArrayPositions",
		docs: []map[string]interface{}{
			{"f_wsng": []interface{}{"ball ballgame"}},
			{"f_wsng": []interface{}{"ballgame basketballs"}},
			{"f_wsng": []interface{}{"alps"}},
			{"f_wsng": []interface{}{"alps"}},
			{"f_wsng": []interface{}{"ballgame basketballs basketballs ballgame", "game ball"}},
		},
		queries: []func() (query.Query, string, string){
			func() (query.Query, string, string) {
				m := bleve.NewMatchQuery("ballgame")
				m.SetField("f_wsng")
				p := bleve.NewMatchPhraseQuery("ballgame ball")
				p.SetField("f_wsng")
				return bleve.NewDisjunctionQuery(m, p), `or(match(f_wsng:"ballgame"),match_phrase(f_wsng:"ballgame ball"))`, "f_wsng"
			},
		},
	},
}

func hlOneIndex(r *ev.Run, wd *watchdog, slot int, g *rng.Rand, ix int, sts []hlStyle, nDocs, nQueries int, fixed *hlScenario) {
	if fixed != nil {
		nDocs, nQueries = len(fixed.docs), len(fixed.queries)
	}
	im := bleve.NewIndexMapping()
	must := func(err error) bool {
		if err != nil {
			r.Inconclusive("highlight index setup: " + err.Error())
			return false
		}
		return true
	}
	if !must(im.AddCustomAnalyzer("c19_ws", cfg{"type": "custom", "tokenizer": "whitespace"})) ||
		!must(im.AddCustomAnalyzer("c19_ws_lower", cfg{"type": "custom", "tokenizer": "whitespace", "token_filters": []interface{}{"to_lower"}})) ||
		!must(im.AddCustomTokenFilter("c19_ng23", cfg{"type": "ngram", "min": 2.0, "max": 3.0})) ||
		!must(im.AddCustomAnalyzer("c19_ws_ngram", cfg{"type": "custom", "tokenizer": "whitespace", "token_filters": []interface{}{"c19_ng23"}})) ||
		!must(im.AddCustomTokenMap("c19_dict", cfg{"type": "custom", "tokens": []interface{}{"ball", "basket", "game"}})) ||
		!must(im.AddCustomTokenFilter("c19_comp", cfg{"type": "dict_compound", "dict_token_map": "c19_dict", "min_subword_size": 3.0})) ||
		!must(im.AddCustomAnalyzer("c19_ws_compound", cfg{"type": "custom", "tokenizer": "whitespace", "token_filters": []interface{}{"to_lower", "c19_comp"}})) {
		return
	}
	dm := bleve.NewDocumentStaticMapping()
	for _, fd := range hlFields {
		fm := bleve.NewTextFieldMapping()
		fm.Analyzer = fd.analyzer
		fm.Store = true
		fm.IncludeTermVectors = true
		fm.IncludeInAll = false
		dm.AddFieldMappingsAt(fd.name, fm)
	}
	im.DefaultMapping = dm

	var idx bleve.Index
	var err error
	engine := "scorch"
	if ix%3 == 2 {
		engine = "upsidedown"
		idx, err = bleve.NewUsing("", im, upsidedown.Name, gtreap.Name, nil)
	} else {
		idx, err = bleve.NewMemOnly(im)
	}
	if !must(err) {
		return
	}
	defer idx.Close()

	docs := map[string]*hlDoc{}
	batch := idx.NewBatch()
	for d := 0; d < nDocs; d++ {
		doc := &hlDoc{id: fmt.Sprintf("d%03d", d), fields: map[string]interface{}{}}
		if fixed != nil {
			doc.fields = fixed.docs[d]
		} else {
			for _, fd := range hlFields {
				if g.Chance(1, 5) {
					continue // missing field
				}
				doc.fields[fd.name] = hlValue(g, fd, 0)
			}
		}
		docs[doc.id] = doc
		r.Journal(map[string]any{"highlight_index": ix, "engine": engine, "doc": doc.id, "fields": quoteFields(doc.fields)})
		wd.enter(slot, "highlight/index-document", nil)
		p, v, st := ev.Guard(func() { err = batch.Index(doc.id, doc.fields) })
		wd.leave(slot)
		if p {
			r.Violation("panic/index-document/"+engine, fmt.Sprintf("indexing a document panicked: %v", v), map[string]any{"doc": quoteFields(doc.fields), "stack": st})
			return
		}
		if !must(err) {
			return
		}
	}
	if fixed == nil && (ix%3 == 0 || ix%3 == 2) {
		for id, fields := range hlRegressionDocs {
			docs[id] = &hlDoc{id: id, fields: fields}
			if !must(batch.Index(id, fields)) {
				return
			}
		}
	}
	wd.enter(slot, "highlight/index-batch", nil)
	p, v, st := ev.Guard(func() { err = idx.Batch(batch) })
	wd.leave(slot)
	if p {
		r.Violation("panic/index-batch/"+engine, fmt.Sprintf("executing the batch panicked: %v", v), map[string]any{"stack": st})
		return
	}
	if !must(err) {
		return
	}

	var stt hlStats
	nReg := 0
	if fixed == nil && (ix%3 == 0 || ix%3 == 2) { // scorch and upsidedown indexes carry the regression documents
		nReg = len(hlRegressionQueries)
	}
	for qi := 0; qi < nQueries+nReg; qi++ {
		gq := g.Derive(fmt.Sprintf("q%d", qi))
		fd := hlFields[gq.Intn(len(hlFields))]
		var q query.Query
		var qdesc string
		st := sts[gq.Intn(len(sts))]
		hf := "all-matching"
		if fixed != nil {
			var fname string
			q, qdesc, fname = fixed.queries[qi]()
			fd = *fieldNamed(fname)
		} else if qi >= nQueries {
			rq := hlRegressionQueries[qi-nQueries]
			mq := bleve.NewMatchQuery(rq.match)
			mq.SetField(rq.field)
			q, qdesc, fd = mq, fmt.Sprintf("match(%s:%q,or,fuzz0)", rq.field, rq.match), *fieldNamed(rq.field)
			for _, s := range sts {
				if s.name == rq.style {
					st = s
				}
			}
		} else {
			q, qdesc = hlQuery(gq, fd, docs)
		}
		req := bleve.NewSearchRequestOptions(q, 25, 0, false)
		req.Highlight = bleve.NewHighlightWithStyle(st.name)
		if fixed == nil && qi < nQueries && gq.Chance(1, 2) {
			req.Highlight.AddField(fd.name)
			hf = fd.name
		}
		wit := map[string]any{"highlight_index": ix, "engine": engine, "query": qdesc, "style": st.name, "fragment_size": st.size, "highlight_fields": hf}
		r.Journal(wit)
		var res *bleve.SearchResult
		wd.enter(slot, "highlight/search "+qdesc, nil)
		p, v, stack := ev.Guard(func() { res, err = idx.Search(req) })
		wd.leave(slot)
		if p {
			fn, where := topFrame(stack)
			wit["panic"] = fmt.Sprint(v)
			wit["at"] = where
			wit["docs"] = quoteDocs(docs)
			r.Violation("panic/highlight-search/"+panicKind(v)+"@"+fn, fmt.Sprintf("highlighted search %s style %s panicked: %v at %s", qdesc, st.name, v, where), wit)
			r.Case(fmt.Sprintf("hl|%d|%d", ix, qi), false)
			continue
		}
		if err != nil {
			r.Count("highlight_search_errors", 1)
			r.Case(fmt.Sprintf("hl|%d|%d", ix, qi), false)
			continue
		}
		stt.searches++
		nontrivial := false
		for _, hit := range res.Hits {
			stt.hits++
			doc := docs[hit.ID]
			if doc == nil {
				continue
			}
			var fnames []string
			for f := range hit.Fragments {
				fnames = append(fnames, f)
			}
			sort.Strings(fnames)
			for _, fname := range fnames {
				fdd := fieldNamed(fname)
				if fdd == nil {
					continue
				}
				var els []element
				flatten(doc.fields[fname], nil, &els)
				for _, frag := range hit.Fragments[fname] {
					stt.fragments++
					verdict, detail, marks, mb := checkFragment(frag, st, *fdd, els, hit.Locations[fname])
					stt.marks += marks
					if marks > 0 && mb {
						nontrivial = true
						stt.nontrivial++
					}
					if verdict != "" {
						w := map[string]any{"highlight_index": ix, "query_index": qi, "hit": hit.ID, "engine": engine, "query": qdesc, "style": st.name, "fragment_size": st.size, "field": fname, "analyzer": fdd.analyzer,
							"fragment_quoted": strconv.Quote(frag), "detail": detail, "stored_value": quoteValue(doc.fields[fname]), "locations": locString(hit.Locations[fname])}
						r.Violation("highlight/"+verdict+"/"+fdd.analyzer, fmt.Sprintf("field %s (%s), style %s: %s; fragment %s", fname, fdd.analyzer, st.name, detail, strconv.Quote(frag)), w)
					} else if marks > 0 && mb {
						r.Sample(map[string]any{"highlight": true, "query": qdesc, "style": st.name, "field": fname, "fragment": strconv.Quote(frag), "marked_spans": marks})
					}
				}
				// the reported locations themselves must point into the stored value
				if v, d := checkLocations(*fdd, els, hit.Locations[fname]); v != "" {
					r.Violation("location/"+v+"/"+fdd.analyzer, fmt.Sprintf("field %s (%s): %s", fname, fdd.analyzer, d),
						map[string]any{"highlight_index": ix, "query_index": qi, "hit": hit.ID, "engine": engine, "query": qdesc, "field": fname, "detail": d, "stored_value": quoteValue(doc.fields[fname]), "locations": locString(hit.Locations[fname])})
				}
			}
		}
		r.Case(fmt.Sprintf("hl|%d|%d|%s|%s", ix, qi, qdesc, st.name), nontrivial)
	}
	r.Count("highlight_searches", stt.searches)
	r.Count("highlight_hits", stt.hits)
	r.Count("highlight_fragments_checked", stt.fragments)
	r.Count("highlight_marked_spans_checked", stt.marks)
	r.Count("highlight_fragments_nontrivial", stt.nontrivial)
}

func fieldNamed(n string) *hlField {
	for i := range hlFields {
		if hlFields[i].name == n {
			return &hlFields[i]
		}
	}
	return nil
}

func quoteValue(v interface{}) interface{} {
	switch x := v.(type) {
	case string:
		return strconv.Quote(x)
	case []interface{}:
		out := make([]interface{}, len(x))
		for i, e := range x {
			out[i] = quoteValue(e)
		}
		return out
	}
	return v
}

func quoteFields(m map[string]interface{}) map[string]interface{} {
	out := map[string]interface{}{}
	for k, v := range m {
		out[k] = quoteValue(v)
	}
	return out
}

func quoteDocs(docs map[string]*hlDoc) map[string]interface{} {
	out := map[string]interface{}{}
	for id, d := range docs {
		out[id] = quoteFields(d.fields)
	}
	return out
}

func locString(tlm search.TermLocationMap) []string {
	var out []string
	for term, locs := range tlm {
		for _, l := range locs {
			out = append(out, fmt.Sprintf("%q ap=%v [%d,%d) pos %d", term, []uint64(l.ArrayPositions), l.Start, l.End, l.Pos))
		}
	}
	sort.Strings(out)
	return out
}

// hlQuery draws a query on field fd that is likely to match.
func hlQuery(g *rng.Rand, fd hlField, docs map[string]*hlDoc) (query.Query, string) {
	word := func() string { return hlVocab[g.Intn(len(hlVocab))] }
	// a piece of a real value, for phrases
	realPiece := func(n int) string {
		ids := make([]string, 0, len(docs))
		for id := range docs {
			ids = append(ids, id)
		}
		sort.Strings(ids)
		for tries := 0; tries < 10; tries++ {
			d := docs[ids[g.Intn(len(ids))]]
			var els []element
			flatten(d.fields[fd.name], nil, &els)
			if len(els) == 0 {
				continue
			}
			ws := strings.Fields(strings.ToValidUTF8(els[g.Intn(len(els))].val, " "))
			if len(ws) == 0 {
				continue
			}
			if n > len(ws) {
				n = len(ws)
			}
			s := g.Intn(len(ws) - n + 1)
			return strings.Join(ws[s:s+n], " ")
		}
		return word()
	}
	if fd.model == "kw" {
		v := hlKwValues[g.Intn(len(hlKwValues))]
		if g.Chance(1, 3) {
			q := bleve.NewPrefixQuery(v[:1+g.Intn(len(v))])
			q.SetField(fd.name)
			return q, fmt.Sprintf("prefix(%s:%q)", fd.name, q.Prefix)
		}
		q := bleve.NewMatchQuery(v)
		q.SetField(fd.name)
		return q, fmt.Sprintf("match(%s:%q)", fd.name, v)
	}
	switch g.Intn(7) {
	case 0, 1:
		n := g.Range(1, 3)
		ws := make([]string, n)
		for i := range ws {
			ws[i] = word()
		}
		q := bleve.NewMatchQuery(strings.Join(ws, " "))
		q.SetField(fd.name)
		op := "or"
		if g.Chance(1, 4) {
			q.SetOperator(query.MatchQueryOperatorAnd)
			op = "and"
		}
		fz := 0
		if g.Chance(1, 4) {
			fz = 1
			q.SetFuzziness(1)
		}
		return q, fmt.Sprintf("match(%s:%q,%s,fuzz%d)", fd.name, q.Match, op, fz)
	case 2, 3:
		p := realPiece(g.Range(2, 3))
		q := bleve.NewMatchPhraseQuery(p)
		q.SetField(fd.name)
		return q, fmt.Sprintf("match_phrase(%s:%q)", fd.name, p)
	case 4:
		w := word()
		if fd.name != "f_ws" && fd.name != "f_wsng" {
			w = strings.ToLower(w)
		}
		// cut at a rune boundary
		rs := []rune(w)
		p := string(rs[:1+g.Intn(len(rs))])
		q := bleve.NewPrefixQuery(p)
		q.SetField(fd.name)
		return q, fmt.Sprintf("prefix(%s:%q)", fd.name, p)
	case 5:
		w := word()
		if fd.name != "f_ws" && fd.name != "f_wsng" {
			w = strings.ToLower(w)
		}
		q := bleve.NewTermQuery(w)
		q.SetField(fd.name)
		return q, fmt.Sprintf("term(%s:%q)", fd.name, w)
	default:
		a := bleve.NewMatchQuery(word())
		a.SetField(fd.name)
		p := realPiece(2)
		b := bleve.NewMatchPhraseQuery(p)
		b.SetField(fd.name)
		other := hlFields[g.Intn(len(hlFields))]
		c := bleve.NewMatchQuery(word())
		c.SetField(other.name)
		return bleve.NewDisjunctionQuery(a, b, c), fmt.Sprintf("or(match(%s:%q),match_phrase(%s:%q),match(%s:%q))", fd.name, a.Match, fd.name, p, other.name, c.Match)
	}
}

type span struct{ a, b int }

// parseFragment undoes separator, markers and escaping. It returns the plain text and the marked
// spans as byte offsets into it.
func parseFragment(frag string, st hlStyle) (text string, spans []span, ok bool) {
	s := frag
	s = strings.TrimPrefix(s, st.sep)
	s = strings.TrimSuffix(s, st.sep)
	unesc := func(x string) string {
		if st.escHTML {
			return html.UnescapeString(x)
		}
		return x
	}
	var b strings.Builder
	for {
		i := strings.Index(s, st.before)
		if i < 0 {
			break
		}
		b.WriteString(unesc(s[:i]))
		s = s[i+len(st.before):]
		j := strings.Index(s, st.after)
		if j < 0 {
			return "", nil, false
		}
		a := b.Len()
		b.WriteString(unesc(s[:j]))
		spans = append(spans, span{a, b.Len()})
		s = s[j+len(st.after):]
	}
	if strings.Contains(s, st.after) {
		return "", nil, false
	}
	b.WriteString(unesc(s))
	return b.String(), spans, true
}

func apEqual(a []uint64, b search.ArrayPositions) bool {
	if len(a) != len(b) {
		return false
	}
	for i := range a {
		if a[i] != b[i] {
			return false
		}
	}
	return true
}

// spanIsLocation: [s,e) is a reported location of the element, or (overlapping analyzers) the union
// of a gap-free chain of overlapping or touching reported locations starting at s and ending at e.
func spanIsLocation(s, e int, locs []span, overlapping bool) bool {
	for _, l := range locs {
		if l.a == s && l.b == e {
			return true
		}
	}
	if !overlapping {
		return false
	}
	var in []span
	for _, l := range locs {
		if l.a >= s && l.b <= e {
			in = append(in, l)
		}
	}
	sort.Slice(in, func(i, j int) bool { return in[i].a < in[j].a || in[i].a == in[j].a && in[i].b < in[j].b })
	if len(in) == 0 || in[0].a != s {
		return false
	}
	reach := in[0].b
	for _, l := range in[1:] {
		if l.a > reach { // a gap: not part of the contiguous chain
			break
		}
		if l.b > reach {
			reach = l.b
		}
	}
	return reach == e
}

// checkFragment returns ("", ...) when the fragment satisfies the oracle.
func checkFragment(frag string, st hlStyle, fd hlField, els []element, tlm search.TermLocationMap) (verdict, detail string, marks int, multibyte bool) {
	text, spans, ok := parseFragment(frag, st)
	if !ok {
		return "unbalanced-markers", "markers in the fragment are not balanced", 0, false
	}
	marks = len(spans)
	for i := 0; i < len(text); i++ {
		if text[i] >= 0x80 {
			multibyte = true
			break
		}
	}
	found := false
	for _, el := range els {
		var locs []span
		for _, ls := range tlm {
			for _, l := range ls {
				if apEqual(el.ap, l.ArrayPositions) {
					locs = append(locs, span{int(l.Start), int(l.End)})
				}
			}
		}
		for from := 0; from <= len(el.val); {
			k := strings.Index(el.val[from:], text)
			if k < 0 {
				break
			}
			o := from + k
			found = true
			all := true
			for _, sp := range spans {
				if !spanIsLocation(o+sp.a, o+sp.b, locs, fd.overlapping) {
					all = false
					break
				}
			}
			if all {
				return "", "", marks, multibyte
			}
			from = o + 1
		}
	}
	if !found {
		return "fragment-not-in-stored-value", fmt.Sprintf("fragment text %s is not a contiguous piece of any element of the stored value", strconv.Quote(text)), marks, multibyte
	}
	var ss []string
	for _, sp := range spans {
		ss = append(ss, fmt.Sprintf("%q@+%d", text[sp.a:sp.b], sp.a))
	}
	return "marked-span-not-a-location", fmt.Sprintf("no occurrence of the fragment text has all marked spans %v on reported term locations", ss), marks, multibyte
}

// checkLocations: offsets point into the stored element; where the harness has its own model of the
// analyzer the text at the location is the term.
func checkLocations(fd hlField, els []element, tlm search.TermLocationMap) (string, string) {
	terms := make([]string, 0, len(tlm))
	for t := range tlm {
		terms = append(terms, t)
	}
	sort.Strings(terms)
	for _, term := range terms {
		for _, l := range tlm[term] {
			var el *element
			for i := range els {
				if apEqual(els[i].ap, l.ArrayPositions) {
					el = &els[i]
				}
			}
			if el == nil {
				return "no-such-element", fmt.Sprintf("term %q reported at array positions %v which the stored value does not have", term, []uint64(l.ArrayPositions))
			}
			if !(l.Start <= l.End && l.End <= uint64(len(el.val))) {
				return "out-of-range", fmt.Sprintf("term %q at [%d,%d) outside the %d-byte element %s", term, l.Start, l.End, len(el.val), strconv.Quote(el.val))
			}
			at := el.val[l.Start:l.End]
			switch fd.model {
			case "ascii-lower":
				ascii := true
				for i := 0; i < len(at); i++ {
					if at[i] >= 0x80 {
						ascii = false
					}
				}
				if ascii && strings.ToLower(at) != term {
					return "not-the-term", fmt.Sprintf("term %q at [%d,%d) but the text there is %q", term, l.Start, l.End, at)
				}
			case "kw":
				if at != el.val || term != el.val {
					return "not-the-term", fmt.Sprintf("keyword term %q at [%d,%d) = %q, element %q", term, l.Start, l.End, at, el.val)
				}
			case "ws", "ngram":
				if !utf8.ValidString(el.val) {
					continue // the character tokenizer stops at the first invalid byte; no model for that
				}
				before, _ := utf8.DecodeLastRuneInString(el.val[:l.Start])
				after, _ := utf8.DecodeRuneInString(el.val[l.End:])
				if l.Start == l.End || (l.Start > 0 && !unicode.IsSpace(before)) || (int(l.End) < len(el.val) && !unicode.IsSpace(after)) || strings.IndexFunc(at, unicode.IsSpace) >= 0 {
					return "not-a-token", fmt.Sprintf("term %q at [%d,%d) = %q is not a whitespace-delimited word of %q", term, l.Start, l.End, at, el.val)
				}
				if fd.model == "ws" && at != term {
					return "not-the-term", fmt.Sprintf("term %q at [%d,%d) but the text there is %q", term, l.Start, l.End, at)
				}
				if fd.model == "ngram" && !isRuneNgram(at, term, 2, 3) {
					return "not-the-term", fmt.Sprintf("term %q at [%d,%d) is not a 2..3-rune n-gram of the text there, %q", term, l.Start, l.End, at)
				}
			}
		}
	}
	return "", ""
}

// isRuneNgram: term is min..max consecutive whole runes of the (valid UTF-8) word.
func isRuneNgram(word, term string, min, max int) bool {
	n := utf8.RuneCountInString(term)
	if !utf8.ValidString(term) || n < min || n > max {
		return false
	}
	for i := range word { // i runs over rune starts
		if strings.HasPrefix(word[i:], term) {
			return true
		}
	}
	return false
}
