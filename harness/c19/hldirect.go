package c19

import (
	"fmt"
	"sort"
	"strconv"
	"strings"
	"sync"

	"github.com/blevesearch/bleve/v2/document"
	"github.com/blevesearch/bleve/v2/registry"
	"github.com/blevesearch/bleve/v2/search"
	"github.com/blevesearch/bleve/v2/search/highlight"

	"verifharness/ev"
	"verifharness/rng"
)

// ---------------------------------------------------------------------------
// Direct calls of the fragmenter, the fragment formatters and the simple highlighter with
// arbitrary term locations (overlapping, out of range, Start > End, array positions the stored
// value does not have). The only requirement: no panic, and termination.
//
// Term locations are drawn from the domain of search.Location (uint64 offsets), i.e. they are never
// negative; they are handed over ordered, as highlight.OrderTermLocations would.

type tloc struct {
	Term       string   `json:"term"`
	AP         []uint64 `json:"array_positions"`
	Start, End int
}

type hlCase struct {
	orig  []byte
	ap    []uint64 // array positions of the stored element
	size  int
	locs  []tloc
	stage string // which callee: fragmenter | formatter/<name> | highlighter/<formatter name>
}

func (c hlCase) witness() map[string]any {
	return map[string]any{"stage": c.stage, "stored_value_quoted": strconv.Quote(string(c.orig)), "stored_value": c.orig, "stored_len": len(c.orig),
		"element_array_positions": c.ap, "fragment_size": c.size, "term_locations": c.locs}
}

func (c hlCase) termLocations() highlight.TermLocations {
	tls := make(highlight.TermLocations, len(c.locs))
	for i, l := range c.locs {
		tls[i] = &highlight.TermLocation{Term: l.Term, ArrayPositions: search.ArrayPositions(l.AP), Pos: i + 1, Start: l.Start, End: l.End}
	}
	sort.Sort(tls)
	return tls
}

type hlDirect struct {
	cache      *registry.Cache
	formatters map[string]highlight.FragmentFormatter
	fmtNames   []string
}

func newHLDirect() (*hlDirect, error) {
	d := &hlDirect{cache: registry.NewCache(), formatters: map[string]highlight.FragmentFormatter{}}
	_, inst := registry.FragmentFormatterTypesAndInstances()
	sort.Strings(inst)
	for _, n := range inst {
		f, err := d.cache.FragmentFormatterNamed(n)
		if err != nil {
			return nil, err
		}
		d.formatters[n] = f
		d.fmtNames = append(d.fmtNames, n)
	}
	_, frs := registry.FragmenterTypesAndInstances()
	if len(frs) != 1 || frs[0] != "simple" {
		return nil, fmt.Errorf("registered fragmenters changed: %v (the direct highlight workload knows only 'simple')", frs)
	}
	return d, nil
}

func (d *hlDirect) fragmenter(size int) (highlight.Fragmenter, error) {
	name := fmt.Sprintf("c19_frag_%d", size)
	if f, err := d.cache.FragmenterNamed(name); err == nil {
		return f, nil
	}
	f, err := d.cache.DefineFragmenter(name, cfg{"type": "simple", "size": float64(size)})
	if err != nil { // lost a race with another worker
		return d.cache.FragmenterNamed(name)
	}
	return f, nil
}

type hlPanic struct {
	stage string
	val   any
	stack string
}

func (p hlPanic) sig() string {
	fn, _ := topFrame(p.stack)
	return panicKind(p.val) + "@" + fn
}

// run executes the case against the fragmenter, every formatter and the simple highlighter over
// every formatter (or only the stage named by only); it returns every panic, one per callee.
func (d *hlDirect) run(c hlCase, only string) (out []hlPanic) {
	fr, err := d.fragmenter(c.size)
	if err != nil {
		return nil
	}
	orig := append([]byte(nil), c.orig...)
	var frags []*highlight.Fragment
	if only == "" || only == "fragmenter" || strings.HasPrefix(only, "formatter/") {
		p, v, st := ev.Guard(func() { frags = fr.Fragment(orig, c.termLocations()) })
		if p {
			return []hlPanic{{"fragmenter", v, st}}
		}
	}
	if only == "" || strings.HasPrefix(only, "formatter/") {
	FORMATTERS:
		for _, fn := range d.fmtNames {
			if only != "" && only != "formatter/"+fn {
				continue
			}
			for _, merged := range []bool{false, true} {
				tls := c.termLocations()
				if merged {
					p, v, st := ev.Guard(func() { tls.MergeOverlapping() })
					if p {
						out = append(out, hlPanic{"formatter/" + fn, v, st})
						continue FORMATTERS
					}
				}
				for _, fg := range frags {
					fg.ArrayPositions = c.ap
					p, v, st := ev.Guard(func() { _ = d.formatters[fn].Format(fg, tls) })
					if p {
						out = append(out, hlPanic{"formatter/" + fn, v, st})
						continue FORMATTERS
					}
				}
			}
		}
	}
	for _, fn := range d.fmtNames {
		if only != "" && only != "highlighter/"+fn {
			continue
		}
		h, err := d.highlighter(c.size, fn)
		if err != nil {
			continue
		}
		doc := document.NewDocument("d")
		doc.AddField(document.NewTextField("f", c.ap, append([]byte(nil), c.orig...)))
		doc.AddField(document.NewTextField("f", []uint64{7}, []byte("another element of the same field")))
		doc.AddField(document.NewTextField("g", nil, []byte("another field")))
		tlm := search.TermLocationMap{}
		for i, l := range c.locs {
			tlm.AddLocation(l.Term, &search.Location{Pos: uint64(i + 1), Start: uint64(l.Start), End: uint64(l.End), ArrayPositions: search.ArrayPositions(l.AP)})
		}
		dm := &search.DocumentMatch{ID: "d", Locations: search.FieldTermLocationMap{"f": tlm}}
		p, v, st := ev.Guard(func() {
			_ = h.BestFragmentsInField(dm, doc, "f", 3)
			_ = h.BestFragmentInField(dm, doc, "g")
		})
		if p {
			out = append(out, hlPanic{"highlighter/" + fn, v, st})
		}
	}
	return out
}

func (d *hlDirect) highlighter(size int, formatter string) (highlight.Highlighter, error) {
	if _, err := d.fragmenter(size); err != nil {
		return nil, err
	}
	name := fmt.Sprintf("c19_hl_%s_%d", formatter, size)
	if h, err := d.cache.HighlighterNamed(name); err == nil {
		return h, nil
	}
	h, err := d.cache.DefineHighlighter(name, cfg{"type": "simple", "fragmenter": fmt.Sprintf("c19_frag_%d", size), "formatter": formatter, "separator": "…"})
	if err != nil {
		return d.cache.HighlighterNamed(name)
	}
	return h, nil
}

func genHLCase(g *rng.Rand, cg *corpusGen) hlCase {
	var c hlCase
	switch g.Intn(4) {
	case 0:
		c.orig = cg.Input(g)
		if len(c.orig) > 600 {
			c.orig = c.orig[:600]
		}
	case 1:
		c.orig = []byte(hlText(g, g.Range(0, 6)))
	default:
		c.orig = []byte(hlText(g, hlWords(g)))
	}
	aps := [][]uint64{nil, nil, {0}, {1}, {0, 1}}
	c.ap = aps[g.Intn(len(aps))]
	c.size = hlSizes[g.Intn(len(hlSizes))]
	n := len(c.orig)
	pick := func() int { return g.Intn(n + 1) }
	for k := g.Intn(7); k > 0; k-- {
		l := tloc{Term: hlVocab[g.Intn(len(hlVocab))]}
		switch g.Intn(10) {
		case 0, 1, 2, 3: // inside
			a, b := pick(), pick()
			if a > b {
				a, b = b, a
			}
			l.Start, l.End = a, b
		case 4: // start > end
			a, b := pick(), pick()
			if a < b {
				a, b = b, a
			}
			if a == b {
				a++
			}
			l.Start, l.End = a, b
		case 5: // end beyond the value
			l.Start, l.End = pick(), n+1+g.Intn(n+8)
		case 6: // both beyond the value
			l.Start = n + 1 + g.Intn(n+8)
			l.End = l.Start + g.Intn(9)
		case 7: // empty
			l.Start = pick()
			l.End = l.Start
		case 8: // far away
			l.Start, l.End = 1<<31+g.Intn(5), 1<<31+g.Intn(50)
		default: // beyond, reversed
			l.End = n + g.Intn(n+8)
			l.Start = l.End + 1 + g.Intn(9)
		}
		switch g.Intn(6) {
		case 0:
			l.AP = aps[g.Intn(len(aps))] // maybe not the element's
		default:
			l.AP = c.ap
		}
		c.locs = append(c.locs, l)
	}
	return c
}

// shapeOf names the most abnormal kind of term location left in a shrunk witness (the shrinker
// drops every location the panic does not need).
func shapeOf(c hlCase) string {
	if len(c.locs) == 0 {
		return "no-locations"
	}
	n := len(c.orig)
	rank := map[string]int{"start>end": 3, "start>len": 2, "end>len": 1, "in-range": 0}
	best := "in-range"
	for _, l := range c.locs {
		k := "in-range"
		switch {
		case l.Start > l.End:
			k = "start>end"
		case l.Start > n:
			k = "start>len"
		case l.End > n:
			k = "end>len"
		}
		if rank[k] > rank[best] {
			best = k
		}
	}
	return best
}

// Regression witnesses (shrunk) of the highlight defects found by this monitor; replayed on every run.
var regressionHLCases = []hlCase{
	{orig: []byte("a"), size: 1, locs: []tloc{{Term: "t", Start: 1, End: 0}}},                                                // formatters slice [Start:End] with Start > End
	{orig: []byte("alpha beta gamma"), size: 8, locs: []tloc{{Term: "t", Start: 10, End: 6}, {Term: "u", Start: 0, End: 5}}}, // same, among regular locations
	{orig: []byte("alpha beta"), size: 200, ap: []uint64{0}, locs: []tloc{{Term: "t", AP: []uint64{0}, Start: 6, End: 3}}},
}

// runHighlightDirect executes the regression cases (or the given replay cases) and n seeded cases on the worker pool.
func runHighlightDirect(r *ev.Run, wd *watchdog, workers int, cg *corpusGen, n int, fixed []hlCase) {
	n += len(fixed)
	d, err := newHLDirect()
	if err != nil {
		r.Inconclusive("direct highlight setup: " + err.Error())
		return
	}
	type found struct {
		i     int
		c     hlCase
		stage string
		sig   string
	}
	var mu sync.Mutex
	var fs []found
	var wg sync.WaitGroup
	for w := 0; w < workers; w++ {
		wg.Add(1)
		go func(w int) {
			defer wg.Done()
			var cases, withLocs int
			for i := w; i < n; i += workers {
				var c hlCase
				if i < len(fixed) {
					c = fixed[i]
				} else {
					c = genHLCase(r.Rng(fmt.Sprintf("hl-direct-%d", i-len(fixed))), cg)
				}
				r.Journal(c.witness())
				wd.enter(w, "highlight-direct", c.orig)
				panics := d.run(c, "")
				wd.leave(w)
				cases++
				hostile := inputClass(c.orig) == "multibyte" || inputClass(c.orig) == "invalid-utf8"
				if len(c.locs) > 0 {
					withLocs++
				}
				r.Case(fmt.Sprintf("hld|%x|%d|%v", hashBytes(c.orig), c.size, c.locs), hostile && len(c.locs) > 0)
				for _, p := range panics {
					mu.Lock()
					fs = append(fs, found{i, c, p.stage, p.sig()})
					mu.Unlock()
				}
			}
			r.Count("highlight_direct_cases", cases)
			r.Count("highlight_direct_cases_with_locations", withLocs)
		}(w)
	}
	wg.Wait()
	sort.SliceStable(fs, func(i, j int) bool {
		if fs[i].i != fs[j].i {
			return fs[i].i < fs[j].i
		}
		return fs[i].stage < fs[j].stage
	})
	slot := len(wd.slots) - 1
	shrunk := map[string]int{}
	for _, f := range fs {
		r.Count("highlight_direct_panics_seen", 1)
		key := f.stage + "#" + f.sig
		if shrunk[key] >= 4 {
			r.Count("findings_not_shrunk(same component and signature as a reported one)", 1)
			continue
		}
		shrunk[key]++
		c := f.c
		c.stage = f.stage
		// The simple highlighter orders term locations taken from a Go map with an unstable sort, so
		// its behaviour on equal starts is not deterministic: give it a few tries.
		fails := func(x hlCase) bool {
			r.Journal(x.witness())
			tries := 1
			if strings.HasPrefix(f.stage, "highlighter") {
				tries = 48
			}
			for try := 0; try < tries; try++ {
				wd.enter(slot, "highlight-direct (shrinking)", x.orig)
				ps := d.run(x, f.stage)
				wd.leave(slot)
				for _, p := range ps {
					if p.stage == f.stage && p.sig() == f.sig {
						return true
					}
				}
			}
			return false
		}
		if !fails(c) {
			// seen once, not reproduced in 48 tries: report it unshrunk under the function that panicked
			fn := f.sig[strings.Index(f.sig, "@")+1:]
			if i := strings.Index(fn, "search/highlight/"); i >= 0 {
				fn = fn[i+len("search/highlight/"):]
			}
			r.Count("highlight_direct_panics_not_reproduced", 1)
			r.Violation("highlight-panic/"+fn+"/unshrunk-nondeterministic/"+f.sig[:strings.Index(f.sig, "@")],
				"the simple highlighter panicked once on this case; the panic depends on map iteration order and did not reproduce in 48 tries", c.witness())
			continue
		}
		// drop term locations, then bytes of the stored value, then lower the numbers
		for changed := true; changed; {
			changed = false
			for i := 0; i < len(c.locs); i++ {
				x := c
				x.locs = append(append([]tloc(nil), c.locs[:i]...), c.locs[i+1:]...)
				if fails(x) {
					c, changed = x, true
					i--
				}
			}
		}
		// a plain stored value of the same length, if that is enough
		{
			x := c
			x.orig = []byte(strings.Repeat("a", len(c.orig)))
			if fails(x) {
				c = x
			}
		}
		lowerNumbers := func() {
			for i := range c.locs {
				for _, field := range []int{0, 1} {
					for {
						x := c
						x.locs = append([]tloc(nil), c.locs...)
						v := x.locs[i].Start
						if field == 1 {
							v = x.locs[i].End
						}
						if v == 0 {
							break
						}
						nv := v / 2
						if v <= 8 {
							nv = v - 1
						}
						if field == 0 {
							x.locs[i].Start = nv
						} else {
							x.locs[i].End = nv
						}
						if !fails(x) {
							break
						}
						c = x
					}
				}
			}
		}
		for round := 0; round < 5; round++ {
			before := fmt.Sprintf("%q %v", c.orig, c.locs)
			lowerNumbers()
			c.orig = shrinkBytes(c.orig, func(b []byte) bool { x := c; x.orig = b; return fails(x) })
			if fmt.Sprintf("%q %v", c.orig, c.locs) == before {
				break
			}
		}
		if c.size > 1 {
			x := c
			x.size = 1
			if fails(x) {
				c = x
			}
		}
		if len(c.ap) > 0 {
			x := c
			x.ap = nil
			x.locs = append([]tloc(nil), c.locs...)
			for i := range x.locs {
				x.locs[i].AP = nil
			}
			if fails(x) {
				c = x
			}
		}
		r.Journal(c.witness())
		var val any
		var stack string
		for try := 0; try < 100 && val == nil; try++ {
			for _, p := range d.run(c, f.stage) {
				if p.stage == f.stage && p.sig() == f.sig {
					val, stack = p.val, p.stack
				}
			}
		}
		fn, where := topFrame(stack)
		// class by the function that panics (a formatter reached through the highlighter is the same defect)
		if i := strings.Index(fn, "search/highlight/"); i >= 0 {
			fn = fn[i+len("search/highlight/"):]
		}
		class := "highlight-panic/" + fn + "/" + shapeOf(c) + "/" + panicKind(val)
		w := c.witness()
		w["panic"] = fmt.Sprint(val)
		w["at"] = where
		r.Violation(class, fmt.Sprintf("%s panics with term locations %+v on stored value %s (len %d), fragment size %d: %v at %s",
			f.stage, c.locs, strconv.Quote(string(c.orig)), len(c.orig), c.size, val, where), w)
	}
	r.JournalReset()
}
