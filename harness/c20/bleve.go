package c20

import (
	"context"
	"encoding/json"
	"fmt"
	"strings"

	"github.com/blevesearch/bleve/v2"
	_ "github.com/blevesearch/bleve/v2/analysis/analyzer/keyword"
	_ "github.com/blevesearch/bleve/v2/analysis/analyzer/simple"
	"github.com/blevesearch/bleve/v2/index/scorch"
	"github.com/blevesearch/bleve/v2/index/upsidedown"
	"github.com/blevesearch/bleve/v2/index/upsidedown/store/gtreap"
	"github.com/blevesearch/bleve/v2/mapping"
	"github.com/blevesearch/bleve/v2/search/query"
)

// ---------------------------------------------------------------------------
// schema -> bleve mapping (the public mapping API only)

func fieldMapping(f FieldSpec) *mapping.FieldMapping {
	var fm *mapping.FieldMapping
	switch f.Kind {
	case "num":
		fm = bleve.NewNumericFieldMapping()
	case "kw":
		fm = bleve.NewTextFieldMapping()
		fm.Analyzer = "keyword"
	default:
		fm = bleve.NewTextFieldMapping()
		fm.Analyzer = "simple"
	}
	fm.Store = false
	fm.IncludeInAll = false
	fm.IncludeTermVectors = false
	return fm
}

func BuildMapping(s *Schema, nested bool) *mapping.IndexMappingImpl {
	im := bleve.NewIndexMapping()
	im.DefaultMapping.Dynamic = false
	body := im.DefaultMapping
	if s.Wrap != "" {
		body = bleve.NewDocumentStaticMapping()
		im.DefaultMapping.AddSubDocumentMapping(s.Wrap, body)
	}
	for _, f := range s.Top {
		body.AddFieldMappingsAt(f.Name, fieldMapping(f))
	}
	var mk func(a *ArrSpec) *mapping.DocumentMapping
	mk = func(a *ArrSpec) *mapping.DocumentMapping {
		var dm *mapping.DocumentMapping
		if nested {
			dm = bleve.NewNestedDocumentStaticMapping()
		} else {
			dm = bleve.NewDocumentStaticMapping()
		}
		for _, f := range a.Fields {
			dm.AddFieldMappingsAt(f.Name, fieldMapping(f))
		}
		if a.Obj != nil {
			o := bleve.NewDocumentStaticMapping()
			for _, f := range a.Obj.Fields {
				o.AddFieldMappingsAt(f.Name, fieldMapping(f))
			}
			dm.AddSubDocumentMapping(a.Obj.Name, o)
		}
		for _, sub := range a.Sub {
			dm.AddSubDocumentMapping(sub.Name, mk(sub))
		}
		return dm
	}
	for _, a := range s.Arrays {
		body.AddSubDocumentMapping(a.Name, mk(a))
	}
	return im
}

// ---------------------------------------------------------------------------
// query tree -> bleve query

func BuildQuery(q *Q) query.Query {
	list := func(qs []*Q) []query.Query {
		var out []query.Query
		for _, c := range qs {
			out = append(out, BuildQuery(c))
		}
		return out
	}
	switch q.Kind {
	case "term":
		t := query.NewTermQuery(q.Text)
		t.SetField(q.Field)
		return t
	case "match":
		m := query.NewMatchQuery(q.Text)
		m.SetField(q.Field)
		if q.And {
			m.SetOperator(query.MatchQueryOperatorAnd)
		}
		return m
	case "num":
		t := true
		f := false
		n := query.NewNumericRangeInclusiveQuery(q.Lo, q.Hi, &t, &f)
		n.SetField(q.Field)
		return n
	case "all":
		return query.NewMatchAllQuery()
	case "ids":
		return query.NewDocIDQuery(q.IDs)
	case "conj":
		return query.NewConjunctionQuery(list(q.Kids))
	case "disj":
		d := query.NewDisjunctionQuery(list(q.Kids))
		d.SetMin(float64(q.Min))
		return d
	case "bool":
		b := query.NewBooleanQuery(list(q.Must), list(q.Should), list(q.MustNot))
		if len(q.Should) > 0 {
			b.SetMinShould(float64(q.Min))
		}
		if q.Filter != nil {
			b.AddFilter(BuildQuery(q.Filter))
		}
		return b
	}
	panic("unknown query kind " + q.Kind)
}

// ---------------------------------------------------------------------------
// engines

const (
	ModeNested   = "nested"          // scorch, nested mapping
	ModeFlatSc   = "flat/scorch"     // scorch, same schema without nesting
	ModeFlatUpsd = "flat/upsidedown" // upsidedown+gtreap, same schema without nesting
)

func newMemIndex(s *Schema, mode string) (bleve.Index, error) {
	switch mode {
	case ModeNested:
		return bleve.NewUsing("", BuildMapping(s, true), scorch.Name, scorch.Name, nil)
	case ModeFlatSc:
		return bleve.NewUsing("", BuildMapping(s, false), scorch.Name, scorch.Name, nil)
	case ModeFlatUpsd:
		return bleve.NewUsing("", BuildMapping(s, false), upsidedown.Name, gtreap.Name, nil)
	}
	return nil, fmt.Errorf("unknown mode %s", mode)
}

func applyBatch(idx bleve.Index, ops []Op) error {
	b := idx.NewBatch()
	for _, op := range ops {
		if op.Doc == nil {
			b.Delete(op.ID)
		} else if err := b.Index(op.ID, represent(op.Doc, int(fnv32(op.ID))%4)); err != nil {
			return err
		}
	}
	return idx.Batch(b)
}

func fnv32(s string) uint32 {
	h := uint32(2166136261)
	for i := 0; i < len(s); i++ {
		h = (h ^ uint32(s[i])) * 16777619
	}
	return h
}

// represent returns the same logical document in another Go representation of its arrays of objects
// (the answer of every search must not depend on it): 0 as generated ([]any of maps), 1 []any of
// pointers to maps, 2 []map[string]any, 3 []*map[string]any.
func represent(v any, variant int) any {
	switch x := v.(type) {
	case map[string]any:
		out := make(map[string]any, len(x))
		for k, e := range x {
			out[k] = represent(e, variant)
		}
		return out
	case []any:
		objs := len(x) > 0
		for _, e := range x {
			if _, ok := e.(map[string]any); !ok {
				objs = false
			}
		}
		if !objs || variant == 0 {
			out := make([]any, len(x))
			for i, e := range x {
				out[i] = represent(e, variant)
			}
			return out
		}
		switch variant {
		case 1:
			out := make([]any, len(x))
			for i, e := range x {
				m := represent(e, variant).(map[string]any)
				out[i] = &m
			}
			return out
		case 2:
			out := make([]map[string]any, len(x))
			for i, e := range x {
				out[i] = represent(e, variant).(map[string]any)
			}
			return out
		default:
			out := make([]*map[string]any, len(x))
			for i, e := range x {
				m := represent(e, variant).(map[string]any)
				out[i] = &m
			}
			return out
		}
	}
	return v
}

type Result struct {
	IDs   []string `json:"ids"` // in hit order
	Total uint64   `json:"total"`
}

type ReqOpt struct {
	Size     int    `json:"size"`
	From     int    `json:"from"`
	SortByID bool   `json:"sort_by_id"`
	After    string `json:"search_after_id,omitempty"`  // with SortByID and From 0: hits strictly after this id
	Before   string `json:"search_before_id,omitempty"` // with SortByID and From 0: the Size hits right before this id
}

func search(idx bleve.Index, q *Q, o ReqOpt) (Result, error) {
	req := bleve.NewSearchRequestOptions(BuildQuery(q), o.Size, o.From, false)
	if o.SortByID {
		req.SortBy([]string{"_id"})
	}
	if o.After != "" {
		req.SetSearchAfter([]string{o.After})
	}
	if o.Before != "" {
		req.SetSearchBefore([]string{o.Before})
	}
	res, err := idx.SearchInContext(context.Background(), req)
	if err != nil {
		return Result{}, err
	}
	out := Result{Total: res.Total}
	for _, h := range res.Hits {
		out.IDs = append(out.IDs, h.ID)
	}
	return out, nil
}

var fullReq = ReqOpt{Size: 1000}

// checkResult compares one search result with the expected parents (sorted ids).
// It returns "" or a short description of what is wrong.
func checkResult(exp []string, got Result, o ReqOpt) string {
	seen := map[string]bool{}
	for _, id := range got.IDs {
		if strings.Contains(id, "_$") {
			return "element-as-hit"
		}
		if seen[id] {
			return "parent-twice"
		}
		seen[id] = true
	}
	total := len(exp)
	if o.After != "" || o.Before != "" {
		var win []string
		for _, id := range exp {
			if (o.After != "" && id > o.After) || (o.Before != "" && id < o.Before) {
				win = append(win, id)
			}
		}
		if o.Before != "" && len(win) > o.Size {
			win = win[len(win)-o.Size:]
		}
		exp = win
	}
	lo := o.From
	if lo > len(exp) {
		lo = len(exp)
	}
	hi := lo + o.Size
	if hi > len(exp) {
		hi = len(exp)
	}
	if o.SortByID {
		if strings.Join(got.IDs, ",") != strings.Join(exp[lo:hi], ",") {
			return "hits"
		}
	} else {
		if len(got.IDs) != hi-lo {
			return "hits"
		}
		in := map[string]bool{}
		for _, id := range exp {
			in[id] = true
		}
		for _, id := range got.IDs {
			if !in[id] {
				return "hits"
			}
		}
	}
	if got.Total != uint64(total) {
		return "total"
	}
	return ""
}

func mustJSON(v any) json.RawMessage {
	b, err := json.Marshal(v)
	if err != nil {
		return json.RawMessage(fmt.Sprintf("%q", err.Error()))
	}
	return b
}

func forceMerge(idx bleve.Index) error {
	adv, err := idx.Advanced()
	if err != nil {
		return err
	}
	sc, ok := adv.(*scorch.Scorch)
	if !ok {
		return fmt.Errorf("not a scorch index")
	}
	return sc.ForceMerge(context.Background(), nil)
}

func scorchStat(idx bleve.Index, key string) uint64 {
	adv, err := idx.Advanced()
	if err != nil {
		return 0
	}
	sc, ok := adv.(*scorch.Scorch)
	if !ok {
		return 0
	}
	switch v := sc.StatsMap()[key].(type) {
	case uint64:
		return v
	case int:
		return uint64(v)
	}
	return 0
}
